package ledgersim

import (
	"fmt"
	"math/rand/v2"
	"os"
	"path/filepath"
	"strconv"
	"strings"
	"testing/synctest"
	"verif/sim/kernel"

	"github.com/algorand/go-algorand/agreement"
	"github.com/algorand/go-algorand/config"
	"github.com/algorand/go-algorand/crypto/merkletrie"
	"github.com/algorand/go-algorand/data/basics"
	"github.com/algorand/go-algorand/ledger"
	"github.com/algorand/go-algorand/ledger/store/trackerdb"
)

// C14: catchpoint labels depend only on ledger history. The primary ledger and two replicas process
// the SAME blocks, but every replica has its own flush schedule (it is fed blocks in bursts at
// different fake-clock instants), its own restarts and crashes (durable image = copy of its files),
// its own MaxAcctLookback / LRU setting and its own merkle-trie memory configuration. For every
// catchpoint round for which two of them produced a label, the labels must be equal.

type replica struct {
	id    int
	led   *ledger.Ledger
	dir   string
	inc   int
	cfg   config.Local
	trie  merkletrie.MemoryConfig
	next  basics.Round // next round to feed
	label map[basics.Round]string
}

type catchpointObs struct {
	NopObserver
	reps     []*replica
	labels   map[basics.Round]string // primary's labels
	origTrie merkletrie.MemoryConfig
	started  bool
	compared int
}

func init() {
	registerObserver([]string{"C14"}, func(s *Sim) Observer { return &catchpointObs{labels: map[basics.Round]string{}} })
	propBias["C14"] = "cpboxes" // labels commit to boxes too: box-heavy workload (remap defined in obs_cptransfer.go)
	cfgTweaks["C14"] = func(c *Config, draw func(string, int, int) int) {
		c.CatchpointInterval = uint64(draw("cfg.cpinterval", 4, 8))
		if c.Rounds < 45 {
			c.Rounds = 45
		}
	}
}

func parseLabel(l string) (basics.Round, bool) {
	i := strings.IndexByte(l, '#')
	if i <= 0 {
		return 0, false
	}
	r, err := strconv.ParseUint(l[:i], 10, 64)
	return basics.Round(r), err == nil
}

func (o *catchpointObs) useTrie(c merkletrie.MemoryConfig) { trackerdb.TrieMemoryConfig = c }

func (o *catchpointObs) start(s *Sim, rg *rand.Rand) {
	o.started = true
	o.origTrie = trackerdb.TrieMemoryConfig
	for i := 0; i < 2; i++ {
		r := &replica{id: i + 1, dir: filepath.Join(s.dir, fmt.Sprintf("rep%d-0", i+1)), cfg: s.lcfg, next: 1, label: map[basics.Round]string{}}
		r.cfg.MaxAcctLookback = uint64(1 + rg.IntN(8))
		r.cfg.DisableLedgerLRUCache = rg.IntN(2) == 0
		r.trie = o.origTrie
		r.trie.NodesCountPerPage = int64([]int{4, 16, 116, 512}[rg.IntN(4)])
		r.trie.CachedNodesCount = []int{0, 50, 9000}[rg.IntN(3)]
		o.useTrie(r.trie)
		os.MkdirAll(r.dir, 0o755)
		l, err := ledger.OpenLedger(s.logger(), filepath.Join(r.dir, "ledger"), false, s.init, r.cfg)
		if err != nil {
			s.harness = "replica open: " + err.Error()
			return
		}
		synctest.Wait()
		r.led = l
		o.reps = append(o.reps, r)
		s.log.Add("replica %d: lookback=%d nolru=%v trie(npp=%d cache=%d)", r.id, r.cfg.MaxAcctLookback, r.cfg.DisableLedgerLRUCache, r.trie.NodesCountPerPage, r.trie.CachedNodesCount)
	}
	o.useTrie(o.origTrie)
}

func (o *catchpointObs) note(s *Sim, who string, m map[basics.Round]string, label string) {
	r, ok := parseLabel(label)
	if !ok {
		return
	}
	if old, seen := m[r]; seen && old != label {
		s.violate("C14", "label-changed", "", fmt.Sprintf("%s reported two different labels for catchpoint round %d: %s then %s", who, r, old, label))
		return
	}
	if _, seen := m[r]; !seen {
		m[r] = label
		s.stat("catchpoint_label_seen", 1)
		s.log.Add("  %s label %s", who, label)
	}
	// compare with everyone else
	all := []map[basics.Round]string{o.labels}
	names := []string{"primary"}
	for _, rp := range o.reps {
		all = append(all, rp.label)
		names = append(names, fmt.Sprintf("replica %d", rp.id))
	}
	for i, other := range all {
		if ol, ok := other[r]; ok && names[i] != who {
			o.compared++
			s.stat("catchpoint_label_compared", 1)
			if ol != label {
				if cr, what := s.kvCollisionBefore(r); what != "" && kernel.KnownKey("C14", "kv-leaf-collision") {
					// two kv pairs shared one trie leaf at round cr: which leaf operations survive depends on how each node
					// batched its commits (open finding, same root cause as C15/kv-boundary-shift and C16/kv-leaf-collision)
					s.known = append(s.known, kernel.Violation{Property: "C14", Oracle: "label-differs", Key: "kv-leaf-collision", Step: s.step,
						Detail: fmt.Sprintf("catchpoint round %d: %s produced %s but %s produced %s; the history held colliding kv pairs at round %d: %s", r, who, label, names[i], ol, cr, what)})
					s.stat("known.kv-leaf-collision", 1)
					return
				}
				key := ""
				if _, what := s.kvCollisionBefore(r); what != "" {
					key = "kv-leaf-collision"
				}
				s.violate("C14", "label-differs", key, fmt.Sprintf("catchpoint round %d: %s produced %s but %s produced %s from the same block history", r, who, label, names[i], ol))
				return
			}
		}
	}
}

func (o *catchpointObs) AfterBlock(s *Sim, qseed uint64) {
	rg := rand.New(rand.NewPCG(qseed, 0xC14))
	if !o.started {
		o.start(s, rg)
		if s.harness != "" {
			return
		}
	}
	o.note(s, "primary", o.labels, s.led.GetLastCatchpointLabel())
	for _, r := range o.reps {
		if s.viol != nil || s.harness != "" {
			break
		}
		o.useTrie(r.trie)
		// restarts
		switch x := rg.IntN(40); {
		case x == 0: // crash: durable image only
			r.inc++
			next := filepath.Join(s.dir, fmt.Sprintf("rep%d-%d", r.id, r.inc))
			if err := copyDir(r.dir, next); err != nil {
				s.harness = "replica copy: " + err.Error()
				return
			}
			old := r.led
			r.dir = next
			go old.Close()
			synctest.Wait()
			l, err := ledger.OpenLedger(s.logger(), filepath.Join(r.dir, "ledger"), false, s.init, r.cfg)
			if err != nil {
				s.violate("C09", "reopen-failed", "", fmt.Sprintf("replica %d: OpenLedger on a crash image failed: %v", r.id, err))
				return
			}
			synctest.Wait()
			r.led = l
			r.next = l.Latest() + 1
			s.stat("replica_crash", 1)
			s.log.Add("  replica %d crash -> latest %d", r.id, l.Latest())
		case x == 1:
			r.led.Close()
			synctest.Wait()
			l, err := ledger.OpenLedger(s.logger(), filepath.Join(r.dir, "ledger"), false, s.init, r.cfg)
			if err != nil {
				s.violate("C09", "reopen-failed", "", fmt.Sprintf("replica %d: OpenLedger after clean close failed: %v", r.id, err))
				return
			}
			synctest.Wait()
			r.led = l
			r.next = l.Latest() + 1
			s.stat("replica_reload", 1)
		}
		// feed a burst of pending blocks (own flush schedule: the fake clock advanced differently)
		pending := int(s.latest) - int(r.next) + 1
		if pending > 0 && rg.IntN(3) != 0 {
			k := 1 + rg.IntN(pending)
			if rg.IntN(4) == 0 {
				k = pending
			}
			for i := 0; i < k; i++ {
				if err := r.led.AddBlock(s.blocks[r.next], agreement.Certificate{}); err != nil {
					s.violate("C20", "replica-rejects-block", "", fmt.Sprintf("replica %d rejects block %d that the primary accepted: %v", r.id, r.next, err))
					return
				}
				r.next++
				// quiesce after EVERY block: adding blocks back to back races the root goroutine against
				// the ledger's syncer/commit goroutines in real time (e.g. whether a deferred commit is
				// accepted or skipped), which the determinism self-test showed as diverging logs
				synctest.Wait()
				if rg.IntN(3) == 0 {
					o.note(s, fmt.Sprintf("replica %d", r.id), r.label, r.led.GetLastCatchpointLabel())
				}
			}
		}
		o.note(s, fmt.Sprintf("replica %d", r.id), r.label, r.led.GetLastCatchpointLabel())
	}
	o.useTrie(o.origTrie)
}

func (o *catchpointObs) Nontrivial(s *Sim) bool { return o.compared > 0 }

// closeAll is called at the end of the run.
func (o *catchpointObs) Finish(s *Sim) {
	for _, r := range o.reps {
		o.useTrie(r.trie)
		r.led.Close()
		synctest.Wait()
	}
	if o.started {
		o.useTrie(o.origTrie)
	}
}
