package ledgersim

import (
	"bytes"
	"crypto/ed25519"
	"encoding/binary"
	"fmt"
	"sort"

	"github.com/algorand/go-algorand/crypto"
	"github.com/algorand/go-algorand/data/basics"
	"github.com/algorand/go-algorand/data/bookkeeping"
	"github.com/algorand/go-algorand/data/transactions"
	"github.com/algorand/go-algorand/data/transactions/logic"
	"github.com/algorand/go-algorand/ledger/eval"
	"github.com/algorand/go-algorand/ledger/ledgercore"
	"github.com/algorand/go-algorand/protocol"
)

// ---------------------------------------------------------------------------------------------
// C28 "Only the current authorizer can authorize a transaction"
//
// The observer keeps three special accounts alive through good-faith candidates:
//   M  = 2-of-3 multisig address (funded by payment; base accounts are also rekeyed to it)
//   L  = address of the logic-sig program `int 1` (approves everything)
//   R  = address of the logic-sig program `int 0` (rejects everything)
// and rides the rekey history of the base workload (gen.go "default" case rekeys to spare keys).
// ---------------------------------------------------------------------------------------------

type bkAuthEnv struct {
	msigKeys  []*crypto.SignatureSecrets
	msigPKs   []crypto.PublicKey
	msigAddr  basics.Address // version 1, threshold 2, keys 0,1,2
	msig2Addr basics.Address // version 1, threshold 2, keys 2,1,0 (another address, same signers)
	progYes   []byte
	progNo    []byte
	lsigAddr  basics.Address
	rejAddr   basics.Address
}

var bkAuthEnvV *bkAuthEnv

// bkRefMsigAddr / bkRefProgAddr: addresses recomputed from the specification, not through the
// crypto/multisig or logic helpers.
func bkRefMsigAddr(version, threshold uint8, pks []crypto.PublicKey) basics.Address {
	buf := append([]byte("MultisigAddr"), version, threshold)
	for _, pk := range pks {
		buf = append(buf, pk[:]...)
	}
	return basics.Address(crypto.Hash(buf))
}

func bkRefProgAddr(prog []byte) basics.Address {
	return basics.Address(crypto.Hash(append([]byte("Program"), prog...)))
}

func bkAuthSetup() *bkAuthEnv {
	if bkAuthEnvV != nil {
		return bkAuthEnvV
	}
	e := &bkAuthEnv{}
	for i := 0; i < 3; i++ {
		var seed crypto.Seed
		binary.LittleEndian.PutUint64(seed[:], uint64(0xA17400+i))
		copy(seed[8:], "verif-ledgersim-msig")
		k := crypto.GenerateSignatureSecrets(seed)
		e.msigKeys = append(e.msigKeys, k)
		e.msigPKs = append(e.msigPKs, crypto.PublicKey(k.SignatureVerifier))
	}
	e.msigAddr = bkRefMsigAddr(1, 2, e.msigPKs)
	e.msig2Addr = bkRefMsigAddr(1, 2, []crypto.PublicKey{e.msigPKs[2], e.msigPKs[1], e.msigPKs[0]})
	yes, err := logic.AssembleString("#pragma version 10\nint 1")
	if err != nil {
		panic(err)
	}
	no, err := logic.AssembleString("#pragma version 10\nint 0")
	if err != nil {
		panic(err)
	}
	e.progYes, e.progNo = yes.Program, no.Program
	e.lsigAddr = bkRefProgAddr(e.progYes)
	e.rejAddr = bkRefProgAddr(e.progNo)
	bkAuthEnvV = e
	return e
}

// msig builds a multisignature over msg: key order `order`, threshold thr, signed by the positions in
// `signers` (indexes into order); positions in `bad` get a non-blank but invalid signature.
func (e *bkAuthEnv) msig(msg crypto.Hashable, thr uint8, order []int, signers []int, bad []int) crypto.MultisigSig {
	m := crypto.MultisigSig{Version: 1, Threshold: thr}
	for _, k := range order {
		m.Subsigs = append(m.Subsigs, crypto.MultisigSubsig{Key: e.msigPKs[k]})
	}
	for _, p := range signers {
		m.Subsigs[p].Sig = e.msigKeys[order[p]].Sign(msg)
	}
	for _, p := range bad {
		sg := e.msigKeys[order[p]].Sign(msg)
		sg[5] ^= 0x40
		m.Subsigs[p].Sig = sg
	}
	return m
}

type bkAuthInfo struct {
	kind    string
	sender  basics.Address
	claimed basics.Address // the authorizer the forged authorisation stands for
	invalid bool           // the authorisation is invalid whatever the sender's authorizer is
	pos     bool           // good-faith positive case (counted, never asserted)
}

type bkAuthObs struct {
	NopObserver
	env      *bkAuthEnv
	st       *State                            // reference state before the block under construction
	cur      map[basics.Address]basics.Address // authorizer changes made by groups accepted so far in this block
	prevAuth map[basics.Address]basics.Address // last authorizer that differs from the current one (history)
	kinds    map[string]bool
	nonSelf  int64
}

func init() {
	registerObserver([]string{"C28"}, func(s *Sim) Observer {
		return &bkAuthObs{env: bkAuthSetup(), prevAuth: map[basics.Address]basics.Address{}, kinds: map[string]bool{}, cur: map[basics.Address]basics.Address{}}
	})
}

func (o *bkAuthObs) Nontrivial(s *Sim) bool { return len(o.kinds) >= 6 && o.nonSelf > 0 }

func bkStateAuth(st *State, a basics.Address) basics.Address {
	if ad, ok := st.Accts[a]; ok && !ad.AuthAddr.IsZero() {
		return ad.AuthAddr
	}
	return a
}

// refAuth: the reference authorizer of a right now (previous round's state + accepted groups of this block).
func (o *bkAuthObs) refAuth(a basics.Address) basics.Address {
	if v, ok := o.cur[a]; ok {
		return v
	}
	return bkStateAuth(o.st, a)
}

// bkApplyAuthEffects folds the authorizer-relevant effects of one transaction into m.
func bkApplyAuthEffects(m map[basics.Address]basics.Address, t *transactions.Transaction) {
	if !t.RekeyTo.IsZero() {
		m[t.Sender] = t.RekeyTo
	}
	if t.Type == protocol.PaymentTx && !t.CloseRemainderTo.IsZero() {
		m[t.Sender] = t.Sender // a closed account loses its AuthAddr
	}
}

// authorize produces the correct authorisation of t for authorizer auth, if the simulator can.
func (o *bkAuthObs) authorize(g *Gen, t transactions.Transaction, auth basics.Address) (transactions.SignedTxn, bool) {
	st := transactions.SignedTxn{Txn: t}
	switch {
	case g.byAdr[auth] != nil:
		st = t.Sign(g.byAdr[auth].Sec)
	case auth == o.env.msigAddr:
		st.Msig = o.env.msig(t, 2, []int{0, 1, 2}, [][]int{{0, 1}, {1, 2}, {0, 2}, {0, 1, 2}}[g.n(4)], nil)
	case auth == o.env.lsigAddr:
		st.Lsig.Logic = o.env.progYes
	default:
		return st, false
	}
	if auth != t.Sender {
		st.AuthAddr = auth
	}
	return st, true
}

// senders the observer can use: base accounts plus M and L, funded at the reference state.
func (o *bkAuthObs) senders(g *Gen) []basics.Address {
	var l []basics.Address
	for _, a := range g.funded() {
		l = append(l, a.Addr)
	}
	for _, a := range []basics.Address{o.env.msigAddr, o.env.lsigAddr} {
		if ad, ok := g.st.Accts[a]; ok && ad.MicroAlgos.Raw > 1_000_000 {
			l = append(l, a)
		}
	}
	return l
}

func (o *bkAuthObs) pay(g *Gen, from basics.Address) transactions.Transaction {
	return g.bkPay(from, g.bkRcv(), uint64(100+g.n(900)), g.proto.MinTxnFee)
}

var bkAuthMutations = []string{"amount", "receiver", "fee", "note", "firstvalid", "lastvalid", "sender", "closeto", "rekeyto", "lease", "genesishash"}

func (o *bkAuthObs) ExtraGroups(s *Sim, g *Gen, ev *eval.BlockEvaluator, hdr *bookkeeping.BlockHeader, cands []Candidate) []Candidate {
	o.st = g.st
	o.cur = map[basics.Address]basics.Address{}
	e := o.env
	as := Accounts()
	var poison, tail []Candidate
	single := func(st transactions.SignedTxn, info bkAuthInfo) Candidate {
		return Candidate{Txns: []transactions.SignedTxn{st}, Poison: info.kind, MustReject: !info.pos, Info: info}
	}

	// ---- keep M, L, R funded; rekey base accounts to M / L now and then (good faith)
	rich := g.bkSigners(nil)
	for _, spec := range []basics.Address{e.msigAddr, e.lsigAddr, e.rejAddr} {
		if ad, ok := g.st.Accts[spec]; (!ok || ad.MicroAlgos.Raw < 2_000_000) && len(rich) > 0 && g.n(2) == 0 {
			a := rich[g.n(len(rich))]
			if st, ok := g.bkSign(g.bkPay(a.Addr, spec, 6_000_000, g.proto.MinTxnFee)); ok {
				tail = append(tail, single(st, bkAuthInfo{kind: "fund-special", pos: true}))
			}
		}
	}
	governed := 0
	for _, a := range as[:nAccounts] {
		if au := bkStateAuth(g.st, a.Addr); au == e.msigAddr || au == e.lsigAddr {
			governed++
		}
	}
	if len(rich) > 3 && governed < 2 && g.n(8) == 0 {
		a := rich[g.n(len(rich))]
		t := g.bkPay(a.Addr, a.Addr, 0, g.proto.MinTxnFee)
		t.RekeyTo = []basics.Address{e.msigAddr, e.lsigAddr, e.msigAddr}[g.n(3)]
		if st, ok := g.bkSign(t); ok {
			tail = append(tail, single(st, bkAuthInfo{kind: "rekey-to-special", pos: true}))
		}
	}

	snd := o.senders(g)
	if len(snd) == 0 {
		return append(cands, tail...)
	}
	pick := func() basics.Address { return snd[g.n(len(snd))] }

	// ---- positive cases through every authorisation type (counted)
	for i := 0; i < 2; i++ {
		a := pick()
		auth := bkStateAuth(g.st, a)
		t := o.pay(g, a)
		if g.n(6) == 0 && auth != a && (g.byAdr[a] != nil || a == e.msigAddr || a == e.lsigAddr) {
			t.RekeyTo = a // rekey back to itself, authorised by the current (special) authorizer
		}
		if st, ok := o.authorize(g, t, auth); ok {
			kind := "pos-sig"
			switch {
			case !st.Msig.Blank():
				kind = "pos-msig"
			case st.Lsig.HasProgram():
				kind = "pos-lsig"
			case auth != a:
				kind = "pos-rekeyed-sig"
			}
			tail = append(tail, single(st, bkAuthInfo{kind: kind, sender: a, claimed: auth, pos: true}))
		}
	}
	if a := pick(); g.byAdr[bkStateAuth(g.st, a)] != nil {
		// delegated logic sig: the authorizer's key signs the program, the program approves
		auth := bkStateAuth(g.st, a)
		st := transactions.SignedTxn{Txn: o.pay(g, a)}
		st.Lsig.Logic = e.progYes
		st.Lsig.Sig = g.byAdr[auth].Sec.Sign(logic.Program(e.progYes))
		if auth != a {
			st.AuthAddr = auth
		}
		tail = append(tail, single(st, bkAuthInfo{kind: "pos-delegated-lsig", sender: a, claimed: auth, pos: true}))
	}

	// ---- poison candidates
	np := 3 + g.n(6)
	for i := 0; i < np; i++ {
		a := pick()
		auth := bkStateAuth(g.st, a)
		t := o.pay(g, a)
		other := as[g.n(len(as))]
		var st transactions.SignedTxn
		var info bkAuthInfo
		ok := true
		switch k := g.n(20); k {
		case 0, 1: // signed by the previous authorizer after a rekey
			p, had := o.prevAuth[a]
			if !had || p == auth {
				continue
			}
			st, ok = o.authorize(g, t, p)
			info = bkAuthInfo{kind: "prev-authorizer", sender: a, claimed: p}
		case 2: // signed by the sender's own key while rekeyed to another key
			if auth == a {
				continue
			}
			switch {
			case g.byAdr[a] != nil:
				st = t.Sign(g.byAdr[a].Sec)
			case a == e.msigAddr || a == e.lsigAddr:
				st, ok = o.authorize(g, t, a)
				st.AuthAddr = basics.Address{}
			default:
				continue
			}
			info = bkAuthInfo{kind: "own-key-while-rekeyed", sender: a, claimed: a}
		case 3: // AuthAddr names a key that is not the authorizer, and that key signs
			if other.Addr == auth || other.Addr == a {
				continue
			}
			st = t.Sign(other.Sec)
			st.AuthAddr = other.Addr
			info = bkAuthInfo{kind: "authaddr-not-authorizer", sender: a, claimed: other.Addr}
		case 4: // the right key signs but AuthAddr names somebody else
			if g.byAdr[auth] == nil || other.Addr == auth || other.Addr == a {
				continue
			}
			st = t.Sign(g.byAdr[auth].Sec)
			st.AuthAddr = other.Addr
			info = bkAuthInfo{kind: "authaddr-mismatches-signer", sender: a, claimed: other.Addr, invalid: true}
		case 5: // Sig and Msig both present (one of them valid for the authorizer)
			st, ok = o.authorize(g, t, auth)
			if !ok {
				continue
			}
			if st.Msig.Blank() {
				st.Msig = e.msig(t, 2, []int{0, 1, 2}, []int{0, 1}, nil)
			}
			if st.Sig.Blank() {
				st.Sig = other.Sec.Sign(t)
			}
			st.Lsig = transactions.LogicSig{}
			info = bkAuthInfo{kind: "sig-and-msig", sender: a, claimed: auth, invalid: true}
		case 6: // Sig (or Msig) and Lsig both present
			st, ok = o.authorize(g, t, auth)
			if !ok {
				continue
			}
			if !st.Lsig.HasProgram() {
				st.Lsig.Logic = e.progYes
			} else {
				st.Sig = other.Sec.Sign(t)
			}
			info = bkAuthInfo{kind: "sig-and-lsig", sender: a, claimed: auth, invalid: true}
		case 7, 8: // multisig with threshold-1 valid subsignatures (optionally plus one invalid one)
			if auth != e.msigAddr {
				// use the multisig account itself if this sender is not governed by it
				if ad, has := g.st.Accts[e.msigAddr]; !has || ad.MicroAlgos.Raw < 1_000_000 || bkStateAuth(g.st, e.msigAddr) != e.msigAddr {
					continue
				}
				a, auth = e.msigAddr, e.msigAddr
				t = o.pay(g, a)
			}
			st = transactions.SignedTxn{Txn: t}
			p := g.n(3)
			if k == 7 {
				st.Msig = e.msig(t, 2, []int{0, 1, 2}, []int{p}, nil)
				info = bkAuthInfo{kind: "msig-below-threshold", sender: a, claimed: auth, invalid: true}
			} else {
				st.Msig = e.msig(t, 2, []int{0, 1, 2}, []int{p}, []int{(p + 1) % 3})
				info = bkAuthInfo{kind: "msig-one-bad-subsig", sender: a, claimed: auth, invalid: true}
			}
			if auth != a {
				st.AuthAddr = auth
			}
		case 9: // a fully signed multisig for ANOTHER multisig address, which AuthAddr names
			if auth == e.msig2Addr {
				continue
			}
			st = transactions.SignedTxn{Txn: t, AuthAddr: e.msig2Addr}
			st.Msig = e.msig(t, 2, []int{2, 1, 0}, []int{0, 1, 2}, nil)
			info = bkAuthInfo{kind: "msig-other-address", sender: a, claimed: e.msig2Addr}
		case 10: // the authorizer IS the multisig address, but the preimage was weakened (threshold 1 / other key order)
			if auth != e.msigAddr {
				continue
			}
			st = transactions.SignedTxn{Txn: t}
			if g.n(2) == 0 {
				st.Msig = e.msig(t, 1, []int{0, 1, 2}, []int{g.n(3)}, nil)
			} else {
				st.Msig = e.msig(t, 2, []int{1, 0, 2}, []int{0, 1}, nil)
			}
			if auth != a {
				st.AuthAddr = auth
			}
			info = bkAuthInfo{kind: "msig-preimage-altered", sender: a, claimed: auth, invalid: true}
		case 11: // logic sig whose program rejects, from the account that program controls
			if ad, has := g.st.Accts[e.rejAddr]; !has || ad.MicroAlgos.Raw < 1_000_000 {
				continue
			}
			a = e.rejAddr
			t = o.pay(g, a)
			st = transactions.SignedTxn{Txn: t}
			st.Lsig.Logic = e.progNo
			info = bkAuthInfo{kind: "lsig-program-rejects", sender: a, claimed: a, invalid: true}
		case 12: // approving logic sig whose hash is not the authorizer (AuthAddr names the program address)
			if auth == e.lsigAddr {
				continue
			}
			st = transactions.SignedTxn{Txn: t, AuthAddr: e.lsigAddr}
			st.Lsig.Logic = e.progYes
			info = bkAuthInfo{kind: "lsig-other-address", sender: a, claimed: e.lsigAddr}
		case 13: // approving logic sig, no delegation, sender is not the program address
			if auth == e.lsigAddr || a == e.lsigAddr {
				continue
			}
			st = transactions.SignedTxn{Txn: t}
			st.Lsig.Logic = e.progYes
			if auth != a && g.n(2) == 0 {
				st.AuthAddr = auth
			}
			info = bkAuthInfo{kind: "lsig-undelegated", sender: a, claimed: auth, invalid: true}
		case 14: // delegated logic sig signed by a key that is not the authorizer
			if other.Addr == auth {
				continue
			}
			st = transactions.SignedTxn{Txn: t}
			st.Lsig.Logic = e.progYes
			st.Lsig.Sig = other.Sec.Sign(logic.Program(e.progYes))
			if auth != a {
				st.AuthAddr = auth
			}
			info = bkAuthInfo{kind: "lsig-delegated-wrong-key", sender: a, claimed: auth, invalid: true}
		case 15: // no authorisation at all
			st = transactions.SignedTxn{Txn: t}
			if auth != a {
				st.AuthAddr = auth
			}
			info = bkAuthInfo{kind: "unsigned", sender: a, claimed: auth, invalid: true}
		case 16: // a bit of the signature flipped after signing
			st, ok = o.authorize(g, t, auth)
			if !ok || st.Lsig.HasProgram() {
				continue
			}
			if !st.Msig.Blank() {
				subs := append([]crypto.MultisigSubsig(nil), st.Msig.Subsigs...)
				var signed []int
				for p := range subs {
					if !subs[p].Sig.Blank() {
						signed = append(signed, p)
					}
				}
				p := signed[g.n(len(signed))]
				subs[p].Sig[g.n(64)] ^= 1 << uint(g.n(8))
				st.Msig.Subsigs = subs
			} else {
				st.Sig[g.n(64)] ^= 1 << uint(g.n(8))
			}
			info = bkAuthInfo{kind: "signature-bit-flipped", sender: a, claimed: auth, invalid: true}
		case 17: // one byte of the encoded transaction flipped after signing
			st, ok = o.authorize(g, t, auth)
			if !ok || st.Lsig.HasProgram() {
				continue
			}
			enc := protocol.Encode(&t)
			mut := append([]byte(nil), enc...)
			mut[g.n(len(mut))] ^= 1 << uint(g.n(8))
			var t2 transactions.Transaction
			if err := protocol.Decode(mut, &t2); err != nil {
				s.stat("C28.byteflip_undecodable", 1)
				continue
			}
			if bytes.Equal(protocol.Encode(&t2), enc) {
				continue
			}
			st.Txn = t2
			info = bkAuthInfo{kind: "txn-byte-flipped", sender: t2.Sender, claimed: auth, invalid: true}
		default: // a field of the transaction changed after signing
			st, ok = o.authorize(g, t, auth)
			if !ok || st.Lsig.HasProgram() {
				continue
			}
			m := bkAuthMutations[g.n(len(bkAuthMutations))]
			switch m {
			case "amount":
				st.Txn.Amount.Raw += uint64(1 + g.n(1000))
			case "receiver":
				if other.Addr == st.Txn.Receiver {
					continue
				}
				st.Txn.Receiver = other.Addr
			case "fee":
				st.Txn.Fee.Raw++
			case "note":
				st.Txn.Note = append(append([]byte(nil), st.Txn.Note...), '!')
			case "firstvalid":
				if st.Txn.FirstValid < 2 {
					continue
				}
				st.Txn.FirstValid--
			case "lastvalid":
				st.Txn.LastValid++
			case "sender":
				b := pick()
				if b == a {
					continue
				}
				st.Txn.Sender = b
				if ba := bkStateAuth(g.st, b); ba != b {
					st.AuthAddr = ba
				} else {
					st.AuthAddr = basics.Address{}
				}
				// the premise: a signature made for another transaction; if b happens to share a's
				// authorizer the signature is still over different bytes
			case "closeto":
				st.Txn.CloseRemainderTo = other.Addr
			case "rekeyto":
				st.Txn.RekeyTo = other.Addr
			case "lease":
				st.Txn.Lease[0] ^= 0x80
			case "genesishash":
				continue // changes well-formedness for everybody; not an authorisation question
			}
			info = bkAuthInfo{kind: "field-changed-after-signing/" + m, sender: st.Txn.Sender, claimed: auth, invalid: true}
		}
		if !ok {
			continue
		}
		c := single(st, info)
		if g.n(4) == 0 && len(rich) > 0 && !info.invalid {
			// ride in a group next to an honest member (the whole group must be refused)
			comp := g.bkPay(rich[g.n(len(rich))].Addr, g.bkRcv(), 1000, g.proto.MinTxnFee)
			if comp.Sender != st.Txn.Sender {
				pt := st.Txn
				gid := bkGroupID([]transactions.Transaction{comp, pt})
				comp.Group, pt.Group = gid, gid
				if cs, ok1 := g.bkSign(comp); ok1 {
					// re-create the forged authorisation over the grouped transaction
					if ps, ok2 := o.reforge(g, st, pt, other); ok2 {
						c = Candidate{Txns: []transactions.SignedTxn{cs, ps}, Poison: info.kind, MustReject: true, Info: info}
					}
				}
			}
		}
		poison = append(poison, c)
	}
	// poison candidates are spread over the base workload (whose rekeys and closes may change the
	// reference authorizer inside the block: GroupResult re-evaluates each premise at its turn); our
	// good-faith candidates go last
	out := append([]Candidate(nil), cands...)
	for _, c := range poison {
		at := g.n(len(out) + 1)
		out = append(out[:at:at], append([]Candidate{c}, out[at:]...)...)
	}
	return append(out, tail...)
}

// reforge re-signs a forged candidate over a modified transaction with the same (wrong) authority.
func (o *bkAuthObs) reforge(g *Gen, old transactions.SignedTxn, t transactions.Transaction, other *Acct) (transactions.SignedTxn, bool) {
	claimed := old.Authorizer()
	st, ok := o.authorize(g, t, claimed)
	if !ok {
		if claimed == o.env.msig2Addr {
			st = transactions.SignedTxn{Txn: t, AuthAddr: claimed}
			st.Msig = o.env.msig(t, 2, []int{2, 1, 0}, []int{0, 1, 2}, nil)
			return st, true
		}
		return st, false
	}
	st.AuthAddr = old.AuthAddr
	return st, true
}

func (o *bkAuthObs) GroupResult(s *Sim, ev *eval.BlockEvaluator, c Candidate, stage string, err error) {
	info, mine := c.Info.(bkAuthInfo)
	if mine && !info.pos {
		premise := info.invalid || info.claimed != o.refAuth(info.sender)
		switch {
		case !premise:
			s.stat("C28.poison_premise_gone", 1) // an earlier group of this block made the forger the authorizer
		case stage == "":
			s.violate("C28", "unauthorized-transaction-accepted", info.kind, fmt.Sprintf("a transaction from %s (reference authorizer %s) carrying the forged authorisation %q (stands for %s) was accepted into the block",
				shortAddr(info.sender), shortAddr(o.refAuth(info.sender)), info.kind, shortAddr(info.claimed)))
		default:
			o.kinds[info.kind] = true
			s.stat("C28.poison."+info.kind, 1)
			s.stat("C28.poison_rejected_at_"+stage, 1)
		}
	}
	if mine && info.pos {
		if stage == "" {
			s.stat("C28.accepted."+info.kind, 1)
		} else {
			s.stat("C28.rejected."+info.kind, 1)
		}
	}
	if stage == "" {
		for i := range c.Txns {
			bkApplyAuthEffects(o.cur, &c.Txns[i].Txn)
		}
	}
}

// bkEdVerify: ed25519 verification with the Go standard library (independent of crypto.SignatureVerifier).
func bkEdVerify(pk crypto.PublicKey, msg []byte, sig crypto.Signature) bool {
	return ed25519.Verify(ed25519.PublicKey(pk[:]), msg, sig[:])
}

// bkCheckAuthorisation is the independent checker: exactly one authorisation, valid for auth.
func (o *bkAuthObs) bkCheckAuthorisation(st *transactions.SignedTxn, auth basics.Address) (string, bool) {
	n := 0
	if !st.Sig.Blank() {
		n++
	}
	if !st.Msig.Blank() {
		n++
	}
	if !st.Lsig.Blank() {
		n++
	}
	if !st.PQsig.Blank() {
		n++
	}
	if n != 1 {
		return fmt.Sprintf("%d authorisations present", n), false
	}
	claimed := st.AuthAddr
	if claimed.IsZero() {
		claimed = st.Txn.Sender
	}
	if claimed != auth {
		return fmt.Sprintf("authorisation is presented for %s", shortAddr(claimed)), false
	}
	msg := append([]byte("TX"), protocol.Encode(&st.Txn)...)
	switch {
	case !st.Sig.Blank():
		if !bkEdVerify(crypto.PublicKey(auth), msg, st.Sig) {
			return "signature does not verify under the authorizer's key", false
		}
		return "sig", true
	case !st.Msig.Blank():
		var pks []crypto.PublicKey
		good := 0
		for _, ss := range st.Msig.Subsigs {
			pks = append(pks, ss.Key)
			if ss.Sig.Blank() {
				continue
			}
			if !bkEdVerify(ss.Key, msg, ss.Sig) {
				return "a multisig subsignature does not verify", false
			}
			good++
		}
		if st.Msig.Version != 1 || st.Msig.Threshold == 0 || bkRefMsigAddr(st.Msig.Version, st.Msig.Threshold, pks) != auth {
			return "multisig preimage does not hash to the authorizer", false
		}
		if good < int(st.Msig.Threshold) {
			return fmt.Sprintf("%d valid subsignatures, threshold %d", good, st.Msig.Threshold), false
		}
		return "msig", true
	case !st.Lsig.Blank():
		approves := bytes.Equal(st.Lsig.Logic, o.env.progYes)
		if !approves {
			if bytes.Equal(st.Lsig.Logic, o.env.progNo) {
				return "logic sig program rejects", false
			}
			return "lsig-unknown-program", true // not ours: cannot judge approval independently
		}
		if !st.Lsig.Msig.Blank() || !st.Lsig.LMsig.Blank() || !st.Lsig.PQsig.Blank() {
			return "lsig-unknown-delegation", true
		}
		if st.Lsig.Sig.Blank() {
			if bkRefProgAddr(st.Lsig.Logic) != auth {
				return "program hash is not the authorizer and there is no delegation", false
			}
			return "lsig", true
		}
		if !bkEdVerify(crypto.PublicKey(auth), append([]byte("Program"), st.Lsig.Logic...), st.Lsig.Sig) {
			return "delegation signature does not verify under the authorizer's key", false
		}
		return "lsig-delegated", true
	}
	return "pq", true
}

func bkWalkInner(m map[basics.Address]basics.Address, ad *transactions.ApplyData) {
	for i := range ad.EvalDelta.InnerTxns {
		it := &ad.EvalDelta.InnerTxns[i]
		bkApplyAuthEffects(m, &it.Txn)
		bkWalkInner(m, &it.ApplyData)
	}
}

// BlockDone: every transaction of the committed block carries exactly one authorisation valid for the
// reference authorizer (previous round's state, updated by the block's earlier transactions); and the
// rekey history is recorded for the next rounds' forgeries.
func (o *bkAuthObs) BlockDone(s *Sim, prev, next *State, blk bookkeeping.Block, delta ledgercore.StateDelta) {
	txs, err := blk.DecodePaysetFlat()
	if err != nil {
		s.harness = "C28: cannot decode committed payset: " + err.Error()
		return
	}
	walk := map[basics.Address]basics.Address{}
	for i := range txs {
		st := &txs[i].SignedTxn
		auth, ok := walk[st.Txn.Sender]
		if !ok {
			auth = bkStateAuth(prev, st.Txn.Sender)
		}
		how, good := o.bkCheckAuthorisation(st, auth)
		if !good {
			s.violate("C28", "committed-transaction-not-authorized", "", fmt.Sprintf("round %d txn %d from %s (reference authorizer %s): %s", blk.Round(), i, shortAddr(st.Txn.Sender), shortAddr(auth), how))
			return
		}
		s.stat("C28.committed_checked."+how, 1)
		if auth != st.Txn.Sender {
			o.nonSelf++
			s.stat("C28.committed_checked_nonself_authorizer", 1)
		}
		bkApplyAuthEffects(walk, &st.Txn)
		bkWalkInner(walk, &txs[i].ApplyData)
	}
	// the walk must land on the authorizers of the next reference state (self-check of the overlay logic)
	wa := make([]basics.Address, 0, len(walk))
	for a := range walk {
		wa = append(wa, a)
	}
	sort.Slice(wa, func(i, j int) bool { return bytes.Compare(wa[i][:], wa[j][:]) < 0 })
	for _, a := range wa {
		if walk[a] != bkStateAuth(next, a) {
			s.harness = fmt.Sprintf("C28 self-check: round %d: authorizer of %s after the block is %s by the payset walk but %s in the reference state", blk.Round(), shortAddr(a), shortAddr(walk[a]), shortAddr(bkStateAuth(next, a)))
			return
		}
	}
	// history: remember the authorizer that was replaced
	for _, a := range next.sortedAddrs() {
		was, is := bkStateAuth(prev, a), bkStateAuth(next, a)
		if was != is {
			o.prevAuth[a] = was
			s.stat("C28.rekeys_seen", 1)
		}
	}
	s.log.Add("C28 r%d checked=%d kinds=%d", blk.Round(), len(txs), len(o.kinds))
}
