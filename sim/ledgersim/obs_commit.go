package ledgersim

import (
	"context"
	"fmt"

	"github.com/algorand/go-algorand/config"
	"github.com/algorand/go-algorand/crypto"
	"github.com/algorand/go-algorand/data/basics"
	"github.com/algorand/go-algorand/data/bookkeeping"
	"github.com/algorand/go-algorand/data/transactions"
	"github.com/algorand/go-algorand/data/transactions/verify"
	"github.com/algorand/go-algorand/ledger/eval"
	"github.com/algorand/go-algorand/ledger/ledgercore"
	"github.com/algorand/go-algorand/protocol"
)

// ---------------------------------------------------------------------------------------------
// Helpers shared by the block-level observers (obs_auth, obs_commit, obs_fees, obs_upgrade,
// obs_absent). Everything is prefixed bk to stay clear of the other observer files.
// ---------------------------------------------------------------------------------------------

// bkCopyBlock returns a copy of b whose payset and participation lists can be edited without
// touching b (elements are copied by value; nested slices/maps are never mutated in place).
func bkCopyBlock(b bookkeeping.Block) bookkeeping.Block {
	c := b
	c.Payset = append(transactions.Payset(nil), b.Payset...)
	c.ExpiredParticipationAccounts = append([]basics.Address(nil), b.ExpiredParticipationAccounts...)
	c.AbsentParticipationAccounts = append([]basics.Address(nil), b.AbsentParticipationAccounts...)
	return c
}

// bkValidate offers a block to the real Ledger.Validate (header pre-check, evaluation, signature
// verification on the execution pool). The ledger is at round b.Round()-1 when TamperBlock runs.
func bkValidate(s *Sim, b bookkeeping.Block) error {
	_, err := s.led.Validate(context.Background(), b, s.pool)
	return err
}

// bkJudge: a tampered variant must be rejected by Validate; acceptance is a violation of prop with
// the variant kind as stable key. Returns true when the variant was (correctly) rejected.
func bkJudge(s *Sim, prop, kind string, v bookkeeping.Block, what string) bool {
	err := bkValidate(s, v)
	s.stat(prop+".tamper."+kind, 1)
	if err == nil {
		s.violate(prop, "tampered-block-accepted", kind, fmt.Sprintf("round %d, variant %q: %s; Ledger.Validate returned no error", v.Round(), kind, what))
		return false
	}
	s.stat(prop+".tamper_rejected", 1)
	return true
}

// bkControl re-validates a msgpack round trip of the untampered block: if that fails the variants
// would be rejected for reasons that have nothing to do with the tampering (harness self-check).
func bkControl(s *Sim, prop string, blk bookkeeping.Block) bool {
	var c bookkeeping.Block
	if err := protocol.Decode(protocol.Encode(&blk), &c); err != nil {
		s.harness = prop + " control: block does not survive an encode/decode round trip: " + err.Error()
		return false
	}
	if err := bkValidate(s, c); err != nil {
		// the driver will report this as C20 (assembled block invalid) right after TamperBlock; do not
		// judge variants of a block that is invalid anyway
		s.stat(prop+".control_invalid", 1)
		return false
	}
	s.stat(prop+".control_ok", 1)
	return true
}

// bkSigners lists funded accounts whose current authorizer is a key the simulator holds.
func (g *Gen) bkSigners(not map[basics.Address]bool) []*Acct {
	var l []*Acct
	for _, a := range g.funded() {
		if not[a.Addr] || g.authOf(a.Addr) == nil {
			continue
		}
		l = append(l, a)
	}
	return l
}

// bkRcv picks a receiver that already holds funds (a small payment to an empty account would be
// refused for the receiver's minimum balance, which is not what any of these observers is after).
func (g *Gen) bkRcv() basics.Address {
	if f := g.funded(); len(f) > 0 {
		return f[g.n(len(f))].Addr
	}
	return g.anyAcct().Addr
}

// bkPay builds a plain payment valid in the next round (no lease, fresh note, short life).
func (g *Gen) bkPay(from, to basics.Address, amt, fee uint64) transactions.Transaction {
	*g.uniq++
	var t transactions.Transaction
	t.Type = protocol.PaymentTx
	t.Sender = from
	t.Fee = basics.MicroAlgos{Raw: fee}
	t.FirstValid = g.next
	t.LastValid = g.next + 3
	t.Note = []byte(fmt.Sprintf("bk%d", *g.uniq))
	t.GenesisHash = g.gh
	t.Receiver = to
	t.Amount = basics.MicroAlgos{Raw: amt}
	return t
}

// bkSign signs t with the key of the sender's current reference authorizer.
func (g *Gen) bkSign(t transactions.Transaction) (transactions.SignedTxn, bool) {
	k := g.authOf(t.Sender)
	if k == nil {
		return transactions.SignedTxn{Txn: t}, false
	}
	st := t.Sign(k.Sec)
	if k.Addr != t.Sender {
		st.AuthAddr = k.Addr
	}
	return st, true
}

// bkGroupID is the group commitment of txs in the given order (hash of the member ids computed with
// an empty Group field).
func bkGroupID(txs []transactions.Transaction) crypto.Digest {
	var tg transactions.TxGroup
	for _, t := range txs {
		t.Group = crypto.Digest{}
		tg.TxGroupHashes = append(tg.TxGroupHashes, crypto.Digest(t.ID()))
	}
	return crypto.HashObj(tg)
}

func (g *Gen) bkSignAll(txs []transactions.Transaction) ([]transactions.SignedTxn, bool) {
	out := make([]transactions.SignedTxn, len(txs))
	for i, t := range txs {
		st, ok := g.bkSign(t)
		if !ok {
			return nil, false
		}
		out[i] = st
	}
	return out, true
}

// ---------------------------------------------------------------------------------------------
// C29 "Group and block commitments bind their contents"
// ---------------------------------------------------------------------------------------------

type bkCommitObs struct {
	NopObserver
	groupPoisons   int64
	paysetVariants int64
	headerVariants int64
}

type bkCommitInfo struct{ kind string }

func init() {
	registerObserver([]string{"C29"}, func(s *Sim) Observer { return &bkCommitObs{} })
}

var bkGroupPoisonKinds = []string{"drop", "add", "reorder", "alter", "partial-regroup", "zero-one", "regroup-subset"}

func (o *bkCommitObs) Nontrivial(s *Sim) bool {
	return o.groupPoisons > 0 && o.paysetVariants > 0 && o.headerVariants > 0
}

// ExtraGroups: (a) two plain singleton payments per block, so that generated blocks have independent
// entries the payset variants can permute; (b) a correctly formed group of 2-4 payments and, BEFORE it
// in the candidate list, variants of it whose group commitment no longer matches the members.
func (o *bkCommitObs) ExtraGroups(s *Sim, g *Gen, ev *eval.BlockEvaluator, hdr *bookkeeping.BlockHeader, cands []Candidate) []Candidate {
	minFee := g.proto.MinTxnFee
	signers := g.bkSigners(nil)
	if len(signers) < 2 {
		return cands
	}
	for i := 0; i < 2; i++ {
		a := signers[g.n(len(signers))]
		if st, ok := g.bkSign(g.bkPay(a.Addr, g.bkRcv(), uint64(1000+g.n(5000)), minFee)); ok {
			cands = append(cands, Candidate{Txns: []transactions.SignedTxn{st}, Poison: "", Info: bkCommitInfo{"plain-pay"}})
		}
	}
	if g.n(3) == 0 {
		return cands
	}
	n := 2 + g.n(3)
	base := make([]transactions.Transaction, n)
	for i := range base {
		a := signers[g.n(len(signers))]
		base[i] = g.bkPay(a.Addr, g.bkRcv(), uint64(1000+g.n(5000)), minFee)
	}
	gid := bkGroupID(base)
	for i := range base {
		base[i].Group = gid
	}
	nk := 2 + g.n(3)
	for k := 0; k < nk; k++ {
		kind := bkGroupPoisonKinds[g.n(len(bkGroupPoisonKinds))]
		v := append([]transactions.Transaction(nil), base...)
		j := g.n(n)
		switch kind {
		case "drop":
			v = append(v[:j:j], v[j+1:]...)
		case "add":
			a := signers[g.n(len(signers))]
			e := g.bkPay(a.Addr, g.bkRcv(), uint64(1000+g.n(5000)), minFee)
			e.Group = gid
			at := g.n(n + 1)
			v = append(v[:at:at], append([]transactions.Transaction{e}, v[at:]...)...)
		case "reorder":
			i := (j + 1 + g.n(n-1)) % n
			v[i], v[j] = v[j], v[i]
		case "alter":
			switch g.n(3) {
			case 0:
				v[j].Amount.Raw++
			case 1:
				v[j].Receiver = g.bkRcv()
				if v[j].Receiver == base[j].Receiver {
					v[j].Amount.Raw += 7
				}
			default:
				v[j].Note = append(append([]byte(nil), v[j].Note...), 'x')
			}
		case "partial-regroup":
			// a member is altered and the commitment is recomputed, but only the altered member carries it
			v[j].Amount.Raw++
			v[j].Group = bkGroupID(v)
		case "regroup-subset":
			// commitment recomputed over a strict subset of the submitted members and given to all of them
			sub := append([]transactions.Transaction(nil), v[:j]...)
			sub = append(sub, v[j+1:]...)
			ng := bkGroupID(sub)
			for i := range v {
				v[i].Group = ng
			}
		case "zero-one":
			v[j].Group = crypto.Digest{}
		}
		stx, ok := g.bkSignAll(v)
		if !ok {
			continue
		}
		// the evaluator itself must refuse the group (it is the only check on the non-validating
		// paths: TestTransactionGroup is not called during block validation, verify not during AddBlock)
		if err := ev.TransactionGroup(transactions.WrapSignedTxnsWithAD(stx)...); err == nil {
			s.violate("C29", "evaluator-accepts-bad-group", "group/"+kind, fmt.Sprintf("round %d: BlockEvaluator.TransactionGroup accepted a %d-member group whose group id does not commit to its members (%s)", hdr.Round, len(stx), kind))
			return cands
		}
		s.stat("C29.group_eval_direct_rejected", 1)
		if err := ev.TestTransactionGroup(stx); err != nil {
			s.stat("C29.group_test_stage_rejects", 1)
		} else {
			s.stat("C29.group_test_stage_accepts", 1)
		}
		if _, err := verify.TxnGroup(stx, hdr, nil, s.led); err != nil {
			s.stat("C29.group_verify_stage_rejects", 1)
		} else {
			s.stat("C29.group_verify_stage_accepts", 1)
		}
		cands = append(cands, Candidate{Txns: stx, Poison: "group/" + kind, MustReject: true, Info: bkCommitInfo{kind}})
	}
	if stx, ok := g.bkSignAll(base); ok {
		cands = append(cands, Candidate{Txns: stx, Info: bkCommitInfo{"group-original"}})
	}
	return cands
}

func (o *bkCommitObs) GroupResult(s *Sim, ev *eval.BlockEvaluator, c Candidate, stage string, err error) {
	info, ok := c.Info.(bkCommitInfo)
	if !ok {
		return
	}
	if c.MustReject {
		o.groupPoisons++
		s.stat("C29.group_poison."+info.kind, 1)
		if stage == "" {
			s.violate("C29", "bad-group-accepted", c.Poison, fmt.Sprintf("a %d-member group whose group id does not commit to its members (%s) was accepted into the block", len(c.Txns), info.kind))
		}
		return
	}
	if info.kind == "group-original" {
		if stage == "" {
			s.stat("C29.group_original_accepted", 1)
		} else {
			s.stat("C29.group_original_rejected", 1)
		}
	}
}

// TamperBlock: variants of the honestly generated block in which contents and header commitments no
// longer agree, or the header does not link to the previous block.
func (o *bkCommitObs) TamperBlock(s *Sim, g *Gen, blk bookkeeping.Block) {
	if !blk.ContentsMatchHeader() {
		s.violate("C29", "honest-block-commitment-mismatch", "", fmt.Sprintf("round %d: ContentsMatchHeader() is false for the block the evaluator just generated", blk.Round()))
		return
	}
	if g.n(6) == 0 && !bkControl(s, "C29", blk) {
		return
	}
	proto := config.Consensus[blk.CurrentProtocol]
	n := len(blk.Payset)
	payset := func(kind, what string, v bookkeeping.Block) bool {
		o.paysetVariants++
		if v.ContentsMatchHeader() {
			s.violate("C29", "commitment-does-not-bind", "payset/"+kind, fmt.Sprintf("round %d: %s, yet ContentsMatchHeader() is still true", blk.Round(), what))
			return false
		}
		return bkJudge(s, "C29", "payset/"+kind, v, what)
	}
	// --- payset variants (header untouched)
	if n >= 2 {
		// swap two singleton entries (independent plain payments are added every round, so the rest
		// of the header usually stays consistent with the permuted payset)
		var singles []int
		for i, e := range blk.Payset {
			if e.Txn.Group.IsZero() {
				singles = append(singles, i)
			}
		}
		if len(singles) >= 2 {
			a := g.n(len(singles))
			b := (a + 1 + g.n(len(singles)-1)) % len(singles)
			v := bkCopyBlock(blk)
			i, j := singles[a], singles[b]
			v.Payset[i], v.Payset[j] = v.Payset[j], v.Payset[i]
			if i != j {
				if !payset("reorder", fmt.Sprintf("payset entries %d and %d swapped without updating TxnCommitments", i, j), v) {
					return
				}
				// the same permutation with two of the three commitments recomputed and one left stale
				if tc, err := v.PaysetCommit(); err == nil {
					w := v
					w.TxnCommitments = tc
					switch g.n(3) {
					case 0:
						w.NativeSha512_256Commitment = blk.NativeSha512_256Commitment
					case 1:
						if proto.EnableSHA256TxnCommitmentHeader {
							w.Sha256Commitment = blk.Sha256Commitment
						} else {
							w.NativeSha512_256Commitment = blk.NativeSha512_256Commitment
						}
					default:
						if proto.EnableSha512BlockHash {
							w.Sha512Commitment = blk.Sha512Commitment
						} else {
							w.NativeSha512_256Commitment = blk.NativeSha512_256Commitment
						}
					}
					if w.TxnCommitments != tc {
						if !payset("reorder-one-stale-commitment", fmt.Sprintf("payset entries %d and %d swapped, commitments recomputed except one", i, j), w) {
							return
						}
					}
				}
			}
		}
	}
	if n >= 1 {
		k := g.n(n)
		v := bkCopyBlock(blk)
		v.Payset = append(v.Payset[:k:k], v.Payset[k+1:]...)
		if !payset("remove", fmt.Sprintf("payset entry %d of %d removed without updating TxnCommitments", k, n), v) {
			return
		}
		k = g.n(n)
		v = bkCopyBlock(blk)
		v.Payset = append(v.Payset, v.Payset[k])
		if !payset("duplicate", fmt.Sprintf("payset entry %d duplicated at the end without updating TxnCommitments", k), v) {
			return
		}
		k = g.n(n)
		v = bkCopyBlock(blk)
		e := v.Payset[k]
		what := ""
		switch g.n(4) {
		case 0:
			e.Txn.Fee.Raw++
			what = "fee of a transaction raised by 1"
		case 1:
			e.Txn.Note = append(append([]byte(nil), e.Txn.Note...), 'y')
			what = "note of a transaction extended"
		case 2:
			e.Sig[g.n(len(e.Sig))] ^= 1 << uint(g.n(8))
			what = "one bit of a transaction's signature field flipped"
		default:
			e.Txn.LastValid++
			what = "LastValid of a transaction raised by 1"
		}
		v.Payset[k] = e
		if !payset("edit-txn", fmt.Sprintf("payset entry %d edited (%s) without updating TxnCommitments", k, what), v) {
			return
		}
		k = g.n(n)
		v = bkCopyBlock(blk)
		e = v.Payset[k]
		switch g.n(3) {
		case 0:
			e.ApplyData.SenderRewards.Raw++
			what = "SenderRewards+1"
		case 1:
			e.ApplyData.ClosingAmount.Raw += 5
			what = "ClosingAmount+5"
		default:
			e.ApplyData.ReceiverRewards.Raw += 3
			what = "ReceiverRewards+3"
		}
		v.Payset[k] = e
		if !payset("edit-applydata", fmt.Sprintf("ApplyData of payset entry %d altered (%s) without updating TxnCommitments", k, what), v) {
			return
		}
	}
	// --- header variants (payset untouched)
	hdrv := func(kind, what string, v bookkeeping.Block) bool {
		o.headerVariants++
		return bkJudge(s, "C29", "header/"+kind, v, what)
	}
	v := blk
	v.Branch[g.n(len(v.Branch))] ^= 1 << uint(g.n(8))
	if !hdrv("branch", "one bit of Branch (previous block hash) flipped", v) {
		return
	}
	if proto.EnableSha512BlockHash {
		v = blk
		v.Branch512[g.n(len(v.Branch512))] ^= 1 << uint(g.n(8))
		if !hdrv("branch512", "one bit of Branch512 flipped", v) {
			return
		}
	}
	if s.latest >= 1 && g.n(2) == 0 {
		v = blk
		v.Branch = s.blocks[s.latest-1].Hash()
		v.Branch512 = blk.Branch512
		if !hdrv("branch-grandparent", "Branch points to the block before the previous one", v) {
			return
		}
	}
	v = blk
	if g.n(2) == 0 {
		v.BlockHeader.Round++
	} else {
		v.BlockHeader.Round--
	}
	if !hdrv("round", fmt.Sprintf("Round set to %d instead of %d", v.BlockHeader.Round, blk.Round()), v) {
		return
	}
	v = blk
	if g.n(2) == 0 || v.TxnCounter == 0 {
		v.TxnCounter++
	} else {
		v.TxnCounter--
	}
	if !hdrv("txncounter", fmt.Sprintf("TxnCounter set to %d instead of %d", v.TxnCounter, blk.TxnCounter), v) {
		return
	}
	v = blk
	switch g.n(3) {
	case 0:
		v.NativeSha512_256Commitment[g.n(32)] ^= 1 << uint(g.n(8))
		what := "one bit of the native payset commitment flipped"
		if !hdrv("commitment-native", what, v) {
			return
		}
	case 1:
		if proto.EnableSHA256TxnCommitmentHeader {
			v.Sha256Commitment[g.n(32)] ^= 1 << uint(g.n(8))
			if !hdrv("commitment-sha256", "one bit of the SHA-256 payset commitment flipped", v) {
				return
			}
		}
	default:
		if proto.EnableSha512BlockHash {
			v.Sha512Commitment[g.n(64)] ^= 1 << uint(g.n(8))
			if !hdrv("commitment-sha512", "one bit of the SHA-512 payset commitment flipped", v) {
				return
			}
		}
	}
	s.log.Add("C29 r%d tamper: payset=%d header=%d variants so far, all rejected", blk.Round(), o.paysetVariants, o.headerVariants)
}

func (o *bkCommitObs) BlockDone(s *Sim, prev, next *State, blk bookkeeping.Block, delta ledgercore.StateDelta) {
	// every committed block binds its contents and links to its predecessor (reference: the block the
	// simulator recorded for the previous round)
	if !blk.ContentsMatchHeader() {
		s.violate("C29", "committed-block-commitment-mismatch", "", fmt.Sprintf("round %d committed with TxnCommitments that do not match its payset", blk.Round()))
		return
	}
	if pb, ok := s.blocks[blk.Round()-1]; ok && blk.Branch != pb.Hash() {
		s.violate("C29", "committed-block-wrong-branch", "", fmt.Sprintf("round %d committed with Branch %v but the previous block hashes to %v", blk.Round(), blk.Branch, pb.Hash()))
	}
}
