package ledgersim

import (
	"github.com/algorand/go-algorand/data/bookkeeping"
	"github.com/algorand/go-algorand/data/transactions"
	"github.com/algorand/go-algorand/ledger/eval"
	"github.com/algorand/go-algorand/ledger/ledgercore"
)

// Candidate is one transaction group offered to the block being assembled.
type Candidate struct {
	Txns []transactions.SignedTxn
	// Poison names the deliberate defect injected into this group ("" = generated in good faith; the
	// evaluator may still reject it). MustReject: accepting it is a violation of the observer's property.
	Poison     string
	MustReject bool
	Info       any
}

// Observer is how a property's oracle plugs into the block loop without touching the driver:
//   - ExtraGroups may add or replace candidate groups before they are evaluated (poison/tamper faults);
//   - GroupResult sees the outcome of every candidate (stage is "verify", "test", "eval" or "" when accepted);
//   - BlockDone sees the reference state before and after each committed block with its StateDelta.
//
// Observers report through s.violate(...) / s.stat(...); they draw randomness only from g (the
// per-block PCG) so the tape stays rectangular.
type Observer interface {
	ExtraGroups(s *Sim, g *Gen, ev *eval.BlockEvaluator, hdr *bookkeeping.BlockHeader, cands []Candidate) []Candidate
	GroupResult(s *Sim, ev *eval.BlockEvaluator, c Candidate, stage string, err error)
	BlockDone(s *Sim, prev, next *State, blk bookkeeping.Block, delta ledgercore.StateDelta)
}

// observerFactories: property id -> observers enabled for runs of that property. Files register in init().
var observerFactories = map[string][]func(*Sim) Observer{}

func registerObserver(props []string, f func(*Sim) Observer) {
	for _, p := range props {
		observerFactories[p] = append(observerFactories[p], f)
	}
}

// NopObserver can be embedded to implement only some callbacks.
type NopObserver struct{}

func (NopObserver) ExtraGroups(s *Sim, g *Gen, ev *eval.BlockEvaluator, hdr *bookkeeping.BlockHeader, cands []Candidate) []Candidate {
	return cands
}
func (NopObserver) GroupResult(s *Sim, ev *eval.BlockEvaluator, c Candidate, stage string, err error) {
}
func (NopObserver) BlockDone(s *Sim, prev, next *State, blk bookkeeping.Block, delta ledgercore.StateDelta) {
}

// HeaderChooser (optional): called right after the next header was derived from the previous one and
// before evaluation starts; lets an observer play the proposer's header choices (upgrade votes).
type HeaderChooser interface {
	ChooseHeader(s *Sim, g *Gen, hdr *bookkeeping.BlockHeader)
}

// BlockTamperer (optional): called with the honestly generated block BEFORE it is validated and
// added; the ledger is still at the previous round, so tampered variants can be offered to
// s.led.Validate (a Byzantine proposer / corrupting transport). Must not mutate blk.
type BlockTamperer interface {
	TamperBlock(s *Sim, g *Gen, blk bookkeeping.Block)
}

// NontrivialJudge (optional): an observer's own notion of "this run exercised my property"; ANDed
// with the generic rule when computing RunResult.Nontrivial.
type NontrivialJudge interface {
	Nontrivial(s *Sim) bool
}

// PostBlock (optional): called after every committed block and the generic sampled queries, at a
// quiescent instant; qseed seeds the observer's own PRNG (rand.NewPCG(qseed, ...)) for query choices.
type PostBlock interface {
	AfterBlock(s *Sim, qseed uint64)
}

// PostReopen (optional): called after every crash/reload once the generic prefix+fold checks passed.
type PostReopen interface {
	AfterReopen(s *Sim, why string)
}

// Finisher (optional): called once at the end of the run (release resources such as extra ledgers).
type Finisher interface {
	Finish(s *Sim)
}
