package ledgersim

import (
	"fmt"
	"sort"
	"strings"

	"github.com/algorand/go-algorand/crypto"
	"github.com/algorand/go-algorand/data/basics"
	"github.com/algorand/go-algorand/data/bookkeeping"
	"github.com/algorand/go-algorand/data/transactions"
	"github.com/algorand/go-algorand/data/txntest"
	"github.com/algorand/go-algorand/ledger/eval"
	"github.com/algorand/go-algorand/ledger/ledgercore"
	"github.com/algorand/go-algorand/protocol"
)

// C19 "Transaction groups apply atomically".
//
// Fault: poisoned groups of 2-6 members. A drawn member carries a drawn poison; the members in front of
// it are built to succeed on their own and to change state (payment, app global put / box create with a
// unique marker, asset transfer, inner payment, funding of an app account).
// Oracle:
//   - GroupResult: a poisoned group must be rejected, and the evaluator's complete uncommitted state
//     (read-only view hook: block delta accounts/resources/kv/txids/leases/creatables, pending app
//     storage deltas, payset, txn counter, fees collected, block bytes) must be byte-for-byte what it
//     was before the attempt. Groups the node pipeline rejects before evaluation (verify / test stage)
//     are additionally handed to BlockEvaluator.TransactionGroup directly - the path a validator takes
//     for a proposed block - when the poison is one the evaluator itself must catch.
//   - BlockDone: no member of a poisoned group is in the block's payset or in the delta's txids, and
//     none of the marker effects of the early members exists in the reference state after the block.

func init() {
	registerObserver([]string{"C19"}, func(s *Sim) Observer { return newAtomObs(s) })
}

// Nontrivial implements NontrivialJudge.
func (o *atomObs) Nontrivial(s *Sim) bool {
	return s.stats["c19.poisoned_rejected"] > 0 && s.stats["c19.rejected_at_eval_after_state_change"] > 0
}

var atomPoisons = []string{"overspend", "min-balance", "app-err", "asset-not-opted-in", "wrong-group-id", "wrong-key", "wrong-authorizer", "lease-conflict", "duplicate-member", "fee-shortfall", "inner-overspend", "box-unavailable", "schema-overflow"}

// evaluator-checked poisons: if the pipeline stops them before evaluation they are also pushed into TransactionGroup directly
var atomDirect = map[string]bool{"wrong-group-id": true, "duplicate-member": true, "fee-shortfall": true, "lease-conflict": true, "overspend": true, "min-balance": true, "app-err": true,
	"asset-not-opted-in": true, "wrong-authorizer": true, "inner-overspend": true, "box-unavailable": true, "schema-overflow": true}

type atomMarker struct {
	Kind string // "global" | "box"
	App  basics.AppIndex
	Key  string
	Val  string
}

type atomInfo struct {
	Kind    string
	Idx     int
	Early   []string
	Markers []atomMarker
}

type atomLease struct {
	Sender    basics.Address
	Lease     [32]byte
	LastValid basics.Round
}

type atomObs struct {
	NopObserver
	lastFP   string
	ids      map[transactions.Txid]string // members of this block's poisoned groups -> poison kind
	markers  []atomMarker
	leases   map[basics.Round][]atomLease
	assets   *assetObs
	level    uint64 // rewards level of the block under construction
	haveView bool
}

func newAtomObs(s *Sim) *atomObs {
	s.statInit("c19.poisoned_generated", "c19.poisoned_rejected", "c19.rejected_at_eval", "c19.rejected_at_eval_after_state_change", "c19.rejected_before_eval", "c19.direct_pushes", "c19.failed_at_poisoned_member",
		"c19.failed_at_earlier_member", "c19.failed_at_group_level", "c19.fingerprints_compared", "c19.markers_checked", "c19.txids_checked", "c19.in_progress_block_nonempty")
	for _, k := range atomPoisons {
		s.statInit("c19.gen."+k, "c19.rej."+k, "c19.eval."+k)
	}
	for _, k := range []string{"pay", "gput", "bcreate", "axfer", "inner-pay", "fund-app"} {
		s.statInit("c19.early." + k)
	}
	return &atomObs{ids: map[transactions.Txid]string{}, leases: map[basics.Round][]atomLease{}, assets: &assetObs{}}
}

// atomFingerprint renders everything TransactionGroup may change, canonically.
func atomFingerprint(ev *eval.BlockEvaluator) string {
	v := ev.VerifView()
	var b strings.Builder
	fmt.Fprintf(&b, "payset=%d txncount=%d counter=%d fees=%d bytes=%d corrupted=%v spnext=%d\n", len(v.Payset), v.TxnCount, ev.TestingTxnCounter(), v.FeesCollected.Raw, v.BlockTxBytes, v.Corrupted, v.Mods.StateProofNext)
	for i := range v.Payset {
		fmt.Fprintf(&b, "tx %d %x\n", i, crypto.Hash(protocol.Encode(&v.Payset[i])))
	}
	for _, r := range v.Mods.Accts.Accts {
		fmt.Fprintf(&b, "acct %x %+v\n", r.Addr[:], r.AccountData)
	}
	for _, r := range v.Mods.Accts.AssetResources {
		fmt.Fprintf(&b, "asset %x %d pdel=%v p=%x hdel=%v h=%s\n", r.Addr[:], r.Aidx, r.Params.Deleted, encAssetParams(r.Params.Params), r.Holding.Deleted, encHolding(r.Holding.Holding))
	}
	for _, r := range v.Mods.Accts.AppResources {
		fmt.Fprintf(&b, "app %x %d pdel=%v p=%x ldel=%v l=%x\n", r.Addr[:], r.Aidx, r.Params.Deleted, encAppParams(r.Params.Params), r.State.Deleted, encLocal(r.State.LocalState))
	}
	for _, k := range sortedKvModKeys(*v.Mods) {
		m := v.Mods.KvMods[k]
		fmt.Fprintf(&b, "kv %q nil=%v %x\n", k, m.Data == nil, m.Data)
	}
	var l []string
	for id, it := range v.Mods.Txids {
		l = append(l, fmt.Sprintf("txid %s lv=%d intra=%d", id, it.LastValid, it.Intra))
	}
	for tl, exp := range v.Mods.Txleases {
		l = append(l, fmt.Sprintf("lease %x %x exp=%d", tl.Sender[:], tl.Lease[:], exp))
	}
	for idx, c := range v.Mods.Creatables {
		l = append(l, fmt.Sprintf("creatable %d %+v", idx, c))
	}
	sort.Strings(l)
	b.WriteString(strings.Join(l, "\n"))
	b.WriteString("\nstorage:\n")
	b.WriteString(v.Storage)
	return b.String()
}

func firstDiff(a, b string) string {
	la, lb := strings.Split(a, "\n"), strings.Split(b, "\n")
	for i := 0; i < len(la) || i < len(lb); i++ {
		var x, y string
		if i < len(la) {
			x = la[i]
		}
		if i < len(lb) {
			y = lb[i]
		}
		if x != y {
			if len(x) > 300 {
				x = x[:300]
			}
			if len(y) > 300 {
				y = y[:300]
			}
			return fmt.Sprintf("line %d: before %q / after %q", i, x, y)
		}
	}
	return "identical"
}

// libApps are the existing applications running the library program (they know gput/bcreate/pay and `err` on anything else).
func (g *Gen) libApps() []basics.AppIndex {
	var l []basics.AppIndex
	for _, id := range g.appIDs() {
		if p, _ := g.st.appParams(id); p != nil && len(p.ApprovalProgram) > 100 {
			l = append(l, id)
		}
	}
	return l
}

type atomBuild struct {
	o     *atomObs
	s     *Sim
	g     *Gen
	level uint64
	avoid map[basics.Address]bool
	info  atomInfo
	idx   map[basics.Address]mbRes
}

func (b *atomBuild) payer() *Acct {
	var not []basics.Address
	for a := range b.avoid {
		not = append(not, a)
	}
	return b.g.rich(richFloor, not...)
}

func (b *atomBuild) receiver() basics.Address {
	var l []*Acct
	for _, a := range mainAccts() {
		if !b.avoid[a.Addr] {
			l = append(l, a)
		}
	}
	if len(l) == 0 {
		return mainAccts()[0].Addr
	}
	return l[b.g.n(len(l))].Addr
}

func (b *atomBuild) plainPay() *txntest.Txn {
	p := b.payer()
	if p == nil {
		return nil
	}
	return b.g.xbase(&txntest.Txn{Type: protocol.PaymentTx, Sender: p.Addr, Receiver: b.receiver(), Amount: uint64(1 + b.g.n(1_000_000))})
}

// early returns 1-2 members that succeed on their own and change state.
func (b *atomBuild) early(noInner bool, room int) []*txntest.Txn {
	g, st := b.g, b.g.st
	cost := mbCosts{g.proto}
	kind := []string{"pay", "gput", "gput", "bcreate", "bcreate", "axfer", "inner-pay"}[g.n(7)]
	snd := b.payer()
	if snd == nil {
		return nil
	}
	apps := g.libApps()
	switch kind {
	case "gput":
		for _, off := range []int{g.n(len(apps) + 1)} {
			for i := range apps {
				app := apps[(i+off)%len(apps)]
				p, _ := st.appParams(app)
				if b.avoid[app.Address()] {
					continue
				}
				key := ""
				nu, nb := countTKV(p.GlobalState)
				_ = nu
				var bk []string
				for k, v := range p.GlobalState {
					if v.Type == basics.TealBytesType {
						bk = append(bk, k)
					}
				}
				sort.Strings(bk)
				if len(bk) > 0 {
					key = bk[g.n(len(bk))]
				} else if nb < p.GlobalStateSchema.NumByteSlice {
					key = "atom"
				} else {
					continue
				}
				val := fmt.Sprintf("atom-%d", *g.uniq+1)
				b.info.Markers = append(b.info.Markers, atomMarker{"global", app, key, val})
				b.info.Early = append(b.info.Early, "gput")
				b.s.stat("c19.early.gput", 1)
				return []*txntest.Txn{g.xbase(&txntest.Txn{Type: protocol.ApplicationCallTx, Sender: snd.Addr, ApplicationID: app, ApplicationArgs: [][]byte{[]byte("gput"), []byte(key), []byte(val)}})}
			}
		}
	case "bcreate", "inner-pay":
		if kind == "inner-pay" && noInner {
			break
		}
		if len(apps) == 0 {
			break
		}
		app := apps[g.n(len(apps))]
		addr := app.Address()
		if b.avoid[addr] {
			break
		}
		var out []*txntest.Txn
		bal := g.balAt(addr, b.level)
		req := cost.required(b.idx[addr])
		name := fmt.Sprintf("atom%d", *g.uniq+1)
		size := uint64(g.n(64))
		need := req + cost.box(uint64(len(name)), size) + 300_000
		if bal < need && room < 2 {
			break // no room for the funding member: fall back to a payment
		}
		if bal < need {
			out = append(out, g.xbase(&txntest.Txn{Type: protocol.PaymentTx, Sender: snd.Addr, Receiver: addr, Amount: need - bal + uint64(g.n(500_000))}))
			b.info.Early = append(b.info.Early, "fund-app")
			b.s.stat("c19.early.fund-app", 1)
		}
		if kind == "bcreate" {
			b.info.Markers = append(b.info.Markers, atomMarker{"box", app, name, ""})
			out = append(out, g.xbase(&txntest.Txn{Type: protocol.ApplicationCallTx, Sender: snd.Addr, ApplicationID: app, ApplicationArgs: [][]byte{[]byte("bcreate"), []byte(name), u64(size)},
				Boxes: []transactions.BoxRef{{Index: 0, Name: []byte(name)}}}))
		} else {
			out = append(out, g.xbase(&txntest.Txn{Type: protocol.ApplicationCallTx, Sender: snd.Addr, ApplicationID: app, ApplicationArgs: [][]byte{[]byte("pay"), u64(uint64(1 + g.n(200_000)))},
				Accounts: []basics.Address{b.receiver()}, Fee: 2 * g.proto.MinTxnFee}))
		}
		b.info.Early = append(b.info.Early, kind)
		b.s.stat("c19.early."+kind, 1)
		return out
	case "axfer":
		type c struct {
			aid      basics.AssetIndex
			from, to basics.Address
		}
		var l []c
		for _, aid := range g.assetIDs() {
			if p, _ := st.assetParams(aid); p == nil {
				continue
			}
			hs := g.holders(aid)
			for _, f := range hs {
				hf := st.holding(f, aid)
				if hf.Frozen || hf.Amount == 0 || b.avoid[f] || g.authOf(f) == nil || st.Accts[f].MicroAlgos.Raw < 10_000_000 {
					continue
				}
				for _, t := range hs {
					if t != f && !st.holding(t, aid).Frozen && !b.avoid[t] {
						l = append(l, c{aid, f, t})
					}
				}
			}
		}
		if len(l) == 0 {
			break
		}
		x := l[g.n(len(l))]
		b.info.Early = append(b.info.Early, "axfer")
		b.s.stat("c19.early.axfer", 1)
		return []*txntest.Txn{g.xbase(&txntest.Txn{Type: protocol.AssetTransferTx, Sender: x.from, XferAsset: x.aid, AssetReceiver: x.to, AssetAmount: 1 + uint64(g.n(int(min(st.holding(x.from, x.aid).Amount, 1<<20))))})}
	}
	t := b.plainPay()
	if t == nil {
		return nil
	}
	b.info.Early = append(b.info.Early, "pay")
	b.s.stat("c19.early.pay", 1)
	return []*txntest.Txn{t}
}

// poisoned builds one poisoned group and the accounts whose reference-state facts it depends on.
func (o *atomObs) poisoned(s *Sim, g *Gen, hdr *bookkeeping.BlockHeader, idx map[basics.Address]mbRes) (*Candidate, []basics.Address) {
	st := g.st
	kind := atomPoisons[g.n(len(atomPoisons))]
	b := &atomBuild{o: o, s: s, g: g, level: o.level, avoid: map[basics.Address]bool{}, idx: idx}
	b.info.Kind = kind
	cost := mbCosts{g.proto}
	var critical []basics.Address
	var pt *txntest.Txn // the poisoned member
	apps := g.libApps()
	switch kind {
	case "overspend":
		snd := b.payer()
		if snd == nil {
			return nil, nil
		}
		pt = g.xbase(&txntest.Txn{Type: protocol.PaymentTx, Sender: snd.Addr, Receiver: b.receiver(), Amount: uint64(1) << 62})
	case "min-balance":
		var l []*Acct
		for _, a := range Accounts() {
			if ad, ok := st.Accts[a.Addr]; ok && ad.MicroAlgos.Raw > 2_000_000 && g.authOf(a.Addr) != nil {
				l = append(l, a)
			}
		}
		if len(l) == 0 {
			return nil, nil
		}
		snd := l[g.n(len(l))]
		req := cost.required(idx[snd.Addr])
		left := req - 1
		if g.n(2) == 0 {
			left = 1 + uint64(g.n(int(req-1)))
		}
		pt = g.xbase(&txntest.Txn{Type: protocol.PaymentTx, Sender: snd.Addr, Receiver: snd.Addr, Amount: 0})
		b.avoid[snd.Addr] = true
		pt.Receiver = b.receiver()
		pt.FillDefaults(g.proto)
		bal := g.balAt(snd.Addr, o.level)
		if bal < feeOf(pt)+left {
			return nil, nil
		}
		pt.Amount = bal - feeOf(pt) - left
		critical = []basics.Address{snd.Addr}
	case "app-err", "box-unavailable", "inner-overspend", "schema-overflow":
		if len(apps) == 0 {
			return nil, nil
		}
		snd := b.payer()
		if snd == nil {
			return nil, nil
		}
		app := apps[g.n(len(apps))]
		pt = g.xbase(&txntest.Txn{Type: protocol.ApplicationCallTx, Sender: snd.Addr, ApplicationID: app})
		switch kind {
		case "app-err":
			pt.ApplicationArgs = [][]byte{[]byte("no-such-operation"), []byte("x")}
		case "box-unavailable":
			pt.ApplicationArgs = [][]byte{[]byte("bcreate"), []byte(fmt.Sprintf("noref%d", *g.uniq)), u64(8)} // no box reference
		case "inner-overspend":
			pt.ApplicationArgs = [][]byte{[]byte("pay"), u64(uint64(1) << 62)}
			pt.Accounts = []basics.Address{b.receiver()}
			pt.Fee = 2 * g.proto.MinTxnFee
		case "schema-overflow": // more uint keys than any library app declares
			p, _ := st.appParams(app)
			if p == nil || p.GlobalStateSchema.NumUint > 3 {
				return nil, nil
			}
			// the base library has no multi-put; overflow by putting uints under fresh keys is only certain when the schema has no uint slot
			if p.GlobalStateSchema.NumUint != 0 {
				return nil, nil
			}
			pt.ApplicationArgs = [][]byte{[]byte("gint"), []byte(fmt.Sprintf("of%d", *g.uniq)), u64(5)}
			b.avoid[app.Address()] = true // early members must not touch this app's state (an update of its schema is impossible anyway)
		}
	case "asset-not-opted-in":
		cs := assetPoisonCases(g, "not-opted-in")
		var l []assetCase
		for _, c := range cs {
			if g.authOf(c.from) != nil && st.Accts[c.from].MicroAlgos.Raw > 10_000_000 {
				l = append(l, c)
			}
		}
		if len(l) == 0 {
			return nil, nil
		}
		c := l[g.n(len(l))]
		pt = g.xbase(&txntest.Txn{Type: protocol.AssetTransferTx, Sender: c.from, XferAsset: c.aid, AssetReceiver: c.to, AssetAmount: c.amt})
		b.avoid[c.from], b.avoid[c.to] = true, true
		critical = []basics.Address{c.from, c.to}
	case "lease-conflict":
		var l []atomLease
		for _, r := range o.leaseRounds() {
			for _, e := range o.leases[r] {
				if e.LastValid >= g.next && g.authOf(e.Sender) != nil && st.Accts[e.Sender].MicroAlgos.Raw > 10_000_000 {
					l = append(l, e)
				}
			}
		}
		if len(l) == 0 {
			return nil, nil
		}
		e := l[g.n(len(l))]
		pt = g.xbase(&txntest.Txn{Type: protocol.PaymentTx, Sender: e.Sender, Receiver: b.receiver(), Amount: uint64(1 + g.n(1000)), Lease: e.Lease})
	default: // wrong-group-id, wrong-key, wrong-authorizer, duplicate-member, fee-shortfall: an ordinary payment, poisoned after grouping
		pt = b.plainPay()
		if pt == nil {
			return nil, nil
		}
		if kind == "fee-shortfall" {
			pt.Fee = 0
		}
	}
	if pt == nil || g.authOf(pt.Sender) == nil {
		return nil, nil
	}
	b.avoid[pt.Sender] = b.avoid[pt.Sender] || kind == "wrong-authorizer"
	size := 2 + g.n(5)
	pidx := g.n(size)
	if pidx == 0 && g.n(4) != 0 {
		pidx = 1 + g.n(size-1)
	}
	var txs []*txntest.Txn
	for len(txs) < pidx {
		e := b.early(kind == "fee-shortfall", pidx-len(txs))
		if e == nil {
			return nil, nil
		}
		txs = append(txs, e...)
	}
	if kind == "duplicate-member" {
		if pidx == 0 {
			pidx = 1
			if size < 2 {
				size = 2
			}
			txs = append(txs, pt)
		}
		dup := *txs[g.n(len(txs))]
		pt = &dup
	}
	b.info.Idx = len(txs)
	txs = append(txs, pt)
	for len(txs) < size {
		f := b.plainPay()
		if f == nil {
			break
		}
		txs = append(txs, f)
	}
	if len(txs) < 2 {
		f := b.plainPay()
		if f == nil {
			return nil, nil
		}
		txs = append(txs, f)
	}
	stxns := g.sign(txs)
	pi := b.info.Idx
	switch kind {
	case "wrong-group-id":
		stxns[pi].Txn.Group[g.n(32)] ^= byte(1 + g.n(255))
		if k := g.authOf(stxns[pi].Txn.Sender); k != nil {
			auth := stxns[pi].AuthAddr
			stxns[pi] = stxns[pi].Txn.Sign(k.Sec)
			stxns[pi].AuthAddr = auth
		}
	case "wrong-key":
		right := g.authOf(stxns[pi].Txn.Sender)
		var l []*Acct
		for _, a := range Accounts() {
			if a != right {
				l = append(l, a)
			}
		}
		auth := stxns[pi].AuthAddr
		stxns[pi] = stxns[pi].Txn.Sign(l[g.n(len(l))].Sec)
		stxns[pi].AuthAddr = auth
	case "wrong-authorizer":
		right := g.authOf(stxns[pi].Txn.Sender)
		var l []*Acct
		for _, a := range mainAccts() { // the base generator only rekeys to the sender itself or to a spare key, never to another main account
			if a != right && a.Addr != stxns[pi].Txn.Sender {
				l = append(l, a)
			}
		}
		k := l[g.n(len(l))]
		stxns[pi] = stxns[pi].Txn.Sign(k.Sec)
		stxns[pi].AuthAddr = k.Addr
		critical = append(critical, stxns[pi].Txn.Sender)
	}
	s.stat("c19.gen."+kind, 1)
	s.stat("c19.poisoned_generated", 1)
	return &Candidate{Txns: stxns, Poison: "c19." + kind, MustReject: true, Info: b.info}, critical
}

func (o *atomObs) leaseRounds() []basics.Round {
	l := make([]basics.Round, 0, len(o.leases))
	for r := range o.leases {
		l = append(l, r)
	}
	sort.Slice(l, func(i, j int) bool { return l[i] < l[j] })
	return l
}

func (o *atomObs) ExtraGroups(s *Sim, g *Gen, ev *eval.BlockEvaluator, hdr *bookkeeping.BlockHeader, cands []Candidate) []Candidate {
	for _, r := range o.leaseRounds() { // blocks lost in a crash take their leases with them
		if r > g.st.Round {
			delete(o.leases, r)
		}
	}
	o.ids = map[transactions.Txid]string{}
	o.markers = nil
	out := cands
	// good-faith boosters: keep applications, funded app accounts, assets with several holders and live leases around
	if len(g.libApps()) < 2 {
		if p := g.rich(richFloor); p != nil {
			out = append(out, Candidate{Txns: g.sign([]*txntest.Txn{g.xbase(&txntest.Txn{Type: protocol.ApplicationCallTx, Sender: p.Addr, ApprovalProgram: appSource, ClearStateProgram: clearSource,
				GlobalStateSchema: basics.StateSchema{NumUint: uint64(g.n(2)), NumByteSlice: uint64(2 + g.n(2))}, LocalStateSchema: basics.StateSchema{NumByteSlice: 1}})})})
		}
	}
	if g.n(3) == 0 {
		if p := g.rich(richFloor); p != nil {
			t := g.xbase(&txntest.Txn{Type: protocol.PaymentTx, Sender: p.Addr, Receiver: mainAccts()[g.n(nAccounts)].Addr, Amount: uint64(1 + g.n(1000))})
			t.Lease[0], t.Lease[1] = byte(0xA0+g.n(4)), 0xC1
			out = append(out, Candidate{Txns: g.sign([]*txntest.Txn{t})})
		}
	}
	for i, n := 0, g.n(3); i < n; i++ {
		if c := o.assets.boost(s, g); c != nil {
			out = append(out, *c)
		}
	}
	idx := mbIndex(g.st)
	o.level = evalRewardsLevel(ev)
	for i, n := 0, 1+g.n(4); i < n; i++ {
		c, critical := o.poisoned(s, g, hdr, idx)
		if c == nil {
			continue
		}
		out = insertBefore(g, out, *c, critical)
	}
	o.lastFP = atomFingerprint(ev)
	return out
}

func (o *atomObs) GroupResult(s *Sim, ev *eval.BlockEvaluator, c Candidate, stage string, err error) {
	info, ok := c.Info.(atomInfo)
	if !ok || !c.MustReject {
		o.lastFP = atomFingerprint(ev)
		return
	}
	ids := txidsOf(c.Txns)
	for _, id := range ids {
		o.ids[id] = info.Kind
	}
	o.markers = append(o.markers, info.Markers...)
	failedAt := "group"
	if err != nil {
		for i, id := range ids {
			if strings.Contains(err.Error(), id.String()) {
				if ids[info.Idx] == id {
					i = info.Idx // a duplicated member shares its id with the member it copies
				}
				failedAt = fmt.Sprint(i)
				switch {
				case i == info.Idx:
					s.stat("c19.failed_at_poisoned_member", 1)
				case i < info.Idx:
					s.stat("c19.failed_at_earlier_member", 1)
				}
				break
			}
		}
		if failedAt == "group" {
			s.stat("c19.failed_at_group_level", 1)
		}
	}
	why := ""
	if err != nil {
		why = classify(err)
	}
	s.log.Add("c19 poisoned group kind=%s size=%d poison-at=%d early=%v -> stage=%q rejected=%v failed-at=%s why=%s payset=%d", info.Kind, len(c.Txns), info.Idx, info.Early, stage, err != nil, failedAt, why, ev.PaySetSize())
	if err == nil {
		s.violate("C19", "poisoned-group-accepted", info.Kind, fmt.Sprintf("a group of %d whose member %d carries poison %q was accepted: %v", len(c.Txns), info.Idx, info.Kind, ids))
		return
	}
	s.stat("c19.poisoned_rejected", 1)
	s.stat("c19.rej."+info.Kind, 1)
	if ev.PaySetSize() > 0 {
		s.stat("c19.in_progress_block_nonempty", 1)
	}
	fp := atomFingerprint(ev)
	s.stat("c19.fingerprints_compared", 1)
	if fp != o.lastFP {
		s.violate("C19", "rejected-group-changed-evaluator", "", fmt.Sprintf("group %v (poison %q at member %d, early members %v) was rejected at stage %q with %q but the evaluator's uncommitted state changed: %s",
			ids, info.Kind, info.Idx, info.Early, stage, truncate(err.Error(), 200), firstDiff(o.lastFP, fp)))
		return
	}
	if stage == "eval" {
		s.stat("c19.rejected_at_eval", 1)
		s.stat("c19.eval."+info.Kind, 1)
		if info.Idx > 0 && failedAt != "0" {
			s.stat("c19.rejected_at_eval_after_state_change", 1)
		}
		return
	}
	s.stat("c19.rejected_before_eval", 1)
	if !atomDirect[info.Kind] {
		return
	}
	// the validator path: TransactionGroup without the pool's pre-checks
	s.stat("c19.direct_pushes", 1)
	derr := ev.TransactionGroup(transactions.WrapSignedTxnsWithAD(c.Txns)...)
	fp2 := atomFingerprint(ev)
	s.stat("c19.fingerprints_compared", 1)
	if derr == nil {
		s.violate("C19", "poisoned-group-accepted", info.Kind, fmt.Sprintf("BlockEvaluator.TransactionGroup accepted a group of %d whose member %d carries poison %q (the pipeline had rejected it at stage %q: %s): %v",
			len(c.Txns), info.Idx, info.Kind, stage, truncate(err.Error(), 160), ids))
		return
	}
	s.stat("c19.eval."+info.Kind, 1)
	if info.Idx > 0 {
		s.stat("c19.rejected_at_eval_after_state_change", 1)
	}
	if fp2 != fp {
		s.violate("C19", "rejected-group-changed-evaluator", "", fmt.Sprintf("group %v (poison %q at member %d, early members %v) handed directly to TransactionGroup was rejected with %q but the evaluator's uncommitted state changed: %s",
			ids, info.Kind, info.Idx, info.Early, truncate(derr.Error(), 200), firstDiff(fp, fp2)))
	}
}

func truncate(s string, n int) string {
	if len(s) > n {
		return s[:n]
	}
	return s
}

func (o *atomObs) BlockDone(s *Sim, prev, next *State, blk bookkeeping.Block, delta ledgercore.StateDelta) {
	groups, err := blk.DecodePaysetGroups()
	if err != nil {
		s.harness = "DecodePaysetGroups: " + err.Error()
		return
	}
	var ls []atomLease
	for _, grp := range groups {
		for _, t := range grp {
			id := t.ID()
			s.stat("c19.txids_checked", 1)
			if k, bad := o.ids[id]; bad {
				s.violate("C19", "rejected-member-in-block", "", fmt.Sprintf("round %d: transaction %s, a member of a rejected group (poison %q), is in the block's payset", next.Round, id, k))
				return
			}
			if t.Txn.Lease != [32]byte{} {
				ls = append(ls, atomLease{t.Txn.Sender, t.Txn.Lease, t.Txn.LastValid})
			}
		}
	}
	o.leases[next.Round] = ls
	for _, r := range o.leaseRounds() {
		if r+basics.Round(next.proto().MaxTxnLife)+1 < next.Round {
			delete(o.leases, r)
		}
	}
	var bad []string
	for id, k := range o.ids {
		if _, in := delta.Txids[id]; in {
			bad = append(bad, fmt.Sprintf("%s (%s)", id, k))
		}
	}
	if len(bad) > 0 {
		sort.Strings(bad)
		s.violate("C19", "rejected-member-in-block", "", fmt.Sprintf("round %d: the block's StateDelta lists members of rejected groups as committed: %v", next.Round, bad))
		return
	}
	for _, m := range o.markers {
		s.stat("c19.markers_checked", 1)
		switch m.Kind {
		case "global":
			if p, _ := next.appParams(m.App); p != nil {
				if v, ok := p.GlobalState[m.Key]; ok && v.Bytes == m.Val {
					s.violate("C19", "rejected-group-effect-visible", "", fmt.Sprintf("round %d: app %d global key %q holds %q, written only by an early member of a rejected group", next.Round, m.App, m.Key, m.Val))
					return
				}
			}
		case "box":
			if _, ok := next.Kv[boxKeyPrefix(m.App)+m.Key]; ok {
				s.violate("C19", "rejected-group-effect-visible", "", fmt.Sprintf("round %d: box %q of app %d exists, created only by an early member of a rejected group", next.Round, m.Key, m.App))
				return
			}
			if _, ok := delta.KvMods[boxKeyPrefix(m.App)+m.Key]; ok {
				s.violate("C19", "rejected-group-effect-visible", "", fmt.Sprintf("round %d: the block's StateDelta touches box %q of app %d, named only by an early member of a rejected group", next.Round, m.Key, m.App))
				return
			}
		}
	}
}
