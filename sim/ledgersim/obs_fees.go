package ledgersim

import (
	"bytes"
	"fmt"
	"math/bits"
	"strings"

	"github.com/algorand/go-algorand/config"
	"github.com/algorand/go-algorand/data/basics"
	"github.com/algorand/go-algorand/data/bookkeeping"
	"github.com/algorand/go-algorand/data/transactions"
	"github.com/algorand/go-algorand/data/transactions/logic"
	"github.com/algorand/go-algorand/ledger/eval"
	"github.com/algorand/go-algorand/ledger/ledgercore"
	"github.com/algorand/go-algorand/protocol"
)

// ---------------------------------------------------------------------------------------------
// C24 "Fees and proposer payouts stay within their limits"
//
// The proposer upgrades the chain to SimProtoV3 (a 90M-Algo bonus per block), which drains the fee sink
// to its minimum balance within ~9 blocks: before that the payout is limited by
// percent x FeesCollected + Bonus, afterwards by the fee sink's spendable balance.
// ---------------------------------------------------------------------------------------------

type bkFeeObs struct {
	NopObserver
	shortfalls  int64
	variants    int64
	paidBlocks  int64
	appProg     []byte
	sinkEndRef  uint64 // reference fee-sink balance at the end of the block under construction, before the payout
	sinkRefOK   bool
	sinkLimited int64
}

type bkFeeInfo struct {
	kind  string
	need  uint64
	paid  uint64
	inner bool
}

func init() {
	registerObserver([]string{"C24"}, func(s *Sim) Observer {
		bkRegisterVersions()
		ops, err := logic.AssembleString(appSource)
		if err != nil {
			panic(err)
		}
		return &bkFeeObs{appProg: ops.Program}
	})
}

func (o *bkFeeObs) Nontrivial(s *Sim) bool {
	return o.shortfalls > 0 && o.variants > 0 && o.paidBlocks > 0
}

// ChooseHeader: propose the big-bonus version once nothing is pending, approve it every round.
func (o *bkFeeObs) ChooseHeader(s *Sim, g *Gen, hdr *bookkeeping.BlockHeader) {
	prevHdr := s.states[s.latest].Hdr
	us := bkUpgOf(prevHdr.UpgradeState)
	var vote bookkeeping.UpgradeVote
	switch {
	case us.Next == "" && us.Cur != SimProtoV3 && g.n(2) == 0:
		vote.UpgradePropose = SimProtoV3
		vote.UpgradeDelay = 1
		vote.UpgradeApprove = true
	case us.Next != "" && hdr.Round < us.VoteBefore:
		vote.UpgradeApprove = true
	default:
		return
	}
	if _, bad, err := bkApplyVote(hdr, prevHdr, vote); bad != "" || err != nil {
		s.stat("C24.upgrade_vote_refused", 1)
	}
}

// spread distributes total over n fees (some members may pay nothing).
func bkSpreadFees(g *Gen, total uint64, n int) []uint64 {
	f := make([]uint64, n)
	left := total
	for i := 0; i < n-1; i++ {
		switch g.n(3) {
		case 0: // nothing
		case 1:
			f[i] = uint64(g.n(int(left) + 1))
		default:
			f[i] = left / uint64(n-i)
		}
		left -= f[i]
	}
	f[n-1] = left
	// shuffle so that the big payer is not always last
	for i := n - 1; i > 0; i-- {
		j := g.n(i + 1)
		f[i], f[j] = f[j], f[i]
	}
	return f
}

func (o *bkFeeObs) ExtraGroups(s *Sim, g *Gen, ev *eval.BlockEvaluator, hdr *bookkeeping.BlockHeader, cands []Candidate) []Candidate {
	min := g.proto.MinTxnFee
	signers := g.bkSigners(nil)
	if len(signers) == 0 {
		return cands
	}
	pickS := func() *Acct { return signers[g.n(len(signers))] }
	build := func(n int, fees []uint64, withInner bool) ([]transactions.SignedTxn, bool) {
		txs := make([]transactions.Transaction, n)
		for i := range txs {
			txs[i] = g.bkPay(pickS().Addr, g.bkRcv(), uint64(100+g.n(2000)), fees[i])
		}
		if withInner {
			app, ok := o.payApp(g)
			if !ok {
				return nil, false
			}
			t := g.bkPay(pickS().Addr, basics.Address{}, 0, fees[n-1])
			t.Type = protocol.ApplicationCallTx
			t.PaymentTxnFields = transactions.PaymentTxnFields{}
			t.ApplicationID = app
			t.ApplicationArgs = [][]byte{[]byte("pay"), u64(0)}
			t.Accounts = []basics.Address{g.bkRcv()}
			txs[n-1] = t
		}
		if n > 1 {
			gid := bkGroupID(txs)
			for i := range txs {
				txs[i].Group = gid
			}
		}
		return g.bkSignAll(txs)
	}
	// members incl. the inner payment the app call issues (Fee 0 inside, paid from the pooled credit)
	for k := 0; k < 2+g.n(3); k++ {
		n := 1 + g.n(4)
		inner := g.n(4) == 0
		weight := uint64(n)
		if inner {
			weight++
		}
		need := weight * min
		var total uint64
		kind := ""
		switch g.n(5) {
		case 0, 1:
			total, kind = need-1, "fee-shortfall-by-one"
		case 2:
			total, kind = need-1-uint64(g.n(int(need-1))), "fee-shortfall"
		case 3:
			total, kind = need, "fee-exact"
		default:
			total, kind = need+uint64(g.n(3000)), "fee-overpaid"
		}
		if n == 1 && total < need && !inner && g.n(2) == 0 {
			kind = "fee-shortfall-single"
		}
		stx, ok := build(n, bkSpreadFees(g, total, n), inner)
		if !ok {
			continue
		}
		if inner {
			kind += "-inner"
		}
		c := Candidate{Txns: stx, Info: bkFeeInfo{kind: kind, need: need, paid: total, inner: inner}}
		if total < need {
			c.Poison, c.MustReject = kind, true
		}
		cands = append(cands, c)
	}
	// an incentive keyreg (2 Algo fee) now and then: large FeesCollected, IncentiveEligible accounts
	if g.n(6) == 0 {
		a := pickS()
		t := g.bkPay(a.Addr, basics.Address{}, 0, g.proto.Payouts.GoOnlineFee)
		t.Type = protocol.KeyRegistrationTx
		t.PaymentTxnFields = transactions.PaymentTxnFields{}
		detBytes(t.VotePK[:], "fv", int(*g.uniq))
		detBytes(t.SelectionPK[:], "fs", int(*g.uniq))
		detBytes(t.StateProofPK[:], "fp", int(*g.uniq))
		t.VoteFirst = g.next
		t.VoteLast = g.next + basics.Round(30+g.n(60))
		t.VoteKeyDilution = 50
		if st, ok := g.bkSign(t); ok {
			cands = append(cands, Candidate{Txns: []transactions.SignedTxn{st}, Info: bkFeeInfo{kind: "incentive-keyreg"}})
		}
	}
	return cands
}

// payApp finds an application running the base workload's program (its "pay" branch issues one inner
// payment with Fee 0) whose account exists.
func (o *bkFeeObs) payApp(g *Gen) (basics.AppIndex, bool) {
	var ok []basics.AppIndex
	for _, app := range g.appIDs() {
		cr := g.st.Creators[creatKey{basics.CreatableIndex(app), basics.AppCreatable}]
		p := g.st.Apps[resKey{cr, basics.CreatableIndex(app)}].Params
		if p == nil || !bytes.Equal(p.ApprovalProgram, o.appProg) {
			continue
		}
		if ad, has := g.st.Accts[app.Address()]; !has || ad.MicroAlgos.Raw < 200_000 {
			continue
		}
		ok = append(ok, app)
	}
	if len(ok) == 0 {
		return 0, false
	}
	return ok[g.n(len(ok))], true
}

func (o *bkFeeObs) GroupResult(s *Sim, ev *eval.BlockEvaluator, c Candidate, stage string, err error) {
	info, ok := c.Info.(bkFeeInfo)
	if !ok {
		return
	}
	if c.MustReject {
		o.shortfalls++
		if stage == "" {
			s.violate("C24", "underpaid-group-accepted", info.kind, fmt.Sprintf("a %d-member group (inner payment: %v) paying %d micro-algos in total was accepted although %d are required", len(c.Txns), info.inner, info.paid, info.need))
			return
		}
		s.stat("C24.poison."+info.kind, 1)
		if err != nil && (strings.Contains(err.Error(), "fees is less than") || strings.Contains(err.Error(), "too small")) {
			s.stat("C24.shortfall_rejected_for_fees", 1)
		} else {
			s.stat("C24.shortfall_rejected_other_reason", 1)
		}
		return
	}
	if stage == "" {
		s.stat("C24.accepted."+info.kind, 1)
	} else {
		s.stat("C24.rejected."+info.kind, 1)
	}
}

func bkPercentOf(pct, v uint64) uint64 {
	hi, lo := bits.Mul64(v, pct)
	q, _ := bits.Div64(hi, lo, 100)
	return q
}

func bkSumFees(ps []transactions.SignedTxnWithAD, sink basics.Address) uint64 {
	var t uint64
	for i := range ps {
		if ps[i].Txn.Sender != sink {
			t += ps[i].Txn.Fee.Raw
		}
		t += bkSumFees(ps[i].ApplyData.EvalDelta.InnerTxns, sink)
	}
	return t
}

// bkPlainMinBalance: minimum balance of an account without assets, apps or boxes.
func bkPlainMinBalance(ad ledgercore.AccountData, p config.ConsensusParams) (uint64, bool) {
	if ad.TotalAssets != 0 || ad.TotalAppParams != 0 || ad.TotalAppLocalStates != 0 || ad.TotalBoxes != 0 || ad.TotalExtraAppPages != 0 {
		return 0, false
	}
	return p.MinBalance, true
}

// TamperBlock: a Byzantine proposer's claims about fees, bonus and payout.
func (o *bkFeeObs) TamperBlock(s *Sim, g *Gen, blk bookkeeping.Block) {
	p := config.Consensus[blk.CurrentProtocol]
	o.sinkRefOK = false
	if !p.Payouts.Enabled {
		return
	}
	prev := s.states[s.latest]
	sink := prev.Accts[blk.FeeSink]
	minbal, plain := bkPlainMinBalance(sink, p)
	flat, err := blk.DecodePaysetFlat()
	if err != nil || !plain {
		return
	}
	// reference: everything the block's transactions pay in fees lands in the sink; the workload never
	// pays or closes to the sink and the sink (NotParticipating) earns no rewards
	fees := bkSumFees(flat, blk.FeeSink)
	for i := range flat {
		if flat[i].Txn.Receiver == blk.FeeSink || flat[i].Txn.CloseRemainderTo == blk.FeeSink {
			return
		}
	}
	if fees != blk.FeesCollected.Raw {
		s.violate("C24", "honest-feescollected-wrong", "", fmt.Sprintf("round %d: the generated block claims FeesCollected=%d, its transactions pay %d", blk.Round(), blk.FeesCollected.Raw, fees))
		return
	}
	sinkEnd := sink.MicroAlgos.Raw + fees
	o.sinkEndRef, o.sinkRefOK = sinkEnd, true
	share := bkPercentOf(p.Payouts.Percent, blk.FeesCollected.Raw) + blk.Bonus.Raw
	avail := uint64(0)
	if sinkEnd > minbal {
		avail = sinkEnd - minbal
	}
	bound := share
	if avail < bound {
		bound = avail
	}
	judge := func(kind, what string, v bookkeeping.Block) bool {
		o.variants++
		return bkJudge(s, "C24", kind, v, what+fmt.Sprintf(" [FeesCollected=%d Bonus=%d percent=%d sink-before-payout=%d sink-min-balance=%d => bound %d; honest payout %d]",
			blk.FeesCollected.Raw, blk.Bonus.Raw, p.Payouts.Percent, sinkEnd, minbal, bound, blk.ProposerPayout().Raw))
	}
	v := blk
	v.BlockHeader.ProposerPayout.Raw = bound + 1
	if !judge("payout-bound-plus-one", "ProposerPayout set one micro-algo above the bound", v) {
		return
	}
	v = blk
	v.BlockHeader.ProposerPayout.Raw = share + 1 + uint64(g.n(1_000_000))
	if !judge("payout-above-share", "ProposerPayout above percent x FeesCollected + Bonus", v) {
		return
	}
	if avail < share {
		// within the share, but it would take the sink below its minimum balance
		v = blk
		v.BlockHeader.ProposerPayout.Raw = avail + 1 + uint64(g.n(int(minU64(share-avail, 1_000_000))))
		if !judge("payout-below-sink-min-balance", "ProposerPayout within the share but leaving the fee sink below its minimum balance", v) {
			return
		}
		if share <= sinkEnd {
			v = blk
			v.BlockHeader.ProposerPayout.Raw = share
			if !judge("payout-full-share-from-poor-sink", "ProposerPayout = full share although the fee sink cannot spare it", v) {
				return
			}
		}
	}
	if blk.ProposerPayout().Raw > 0 {
		v = blk
		v.BlockHeader.Proposer = basics.Address{}
		if !judge("payout-without-proposer", "Proposer cleared while ProposerPayout is non-zero", v) {
			return
		}
		v = blk
		detBytes(v.BlockHeader.Proposer[:], "ghost-proposer", int(blk.Round()))
		if !judge("payout-to-closed-proposer", "Proposer is an account that does not exist (closed) while ProposerPayout is non-zero", v) {
			return
		}
	}
	v = blk
	v.FeesCollected.Raw++
	if !judge("feescollected-plus-one", "FeesCollected raised by 1", v) {
		return
	}
	if blk.FeesCollected.Raw > 0 {
		v = blk
		v.FeesCollected.Raw -= 1 + uint64(g.n(int(minU64(blk.FeesCollected.Raw, 1000))))
		if !judge("feescollected-lowered", "FeesCollected lowered", v) {
			return
		}
	}
	v = blk
	extra := uint64(1000 * (1 + g.n(1000)))
	v.FeesCollected.Raw += extra
	v.BlockHeader.ProposerPayout.Raw = minU64(bkPercentOf(p.Payouts.Percent, v.FeesCollected.Raw)+blk.Bonus.Raw, avail)
	if v.BlockHeader.ProposerPayout.Raw > bound {
		if !judge("feescollected-inflated-to-justify-payout", fmt.Sprintf("FeesCollected inflated by %d and the payout raised accordingly", extra), v) {
			return
		}
	}
	v = blk
	v.Bonus.Raw++
	if !judge("bonus-plus-one", "Bonus raised by 1", v) {
		return
	}
	if blk.Bonus.Raw > 0 {
		v = blk
		v.Bonus.Raw--
		if !judge("bonus-minus-one", "Bonus lowered by 1", v) {
			return
		}
	}
	v = blk
	v.Bonus.Raw += 1_000_000
	v.BlockHeader.ProposerPayout.Raw = minU64(bkPercentOf(p.Payouts.Percent, blk.FeesCollected.Raw)+v.Bonus.Raw, avail)
	if v.BlockHeader.ProposerPayout.Raw > bound {
		if !judge("bonus-inflated-to-justify-payout", "Bonus inflated by 1 Algo and the payout raised accordingly", v) {
			return
		}
	}
	// a lower payout is legal (the proposer may be altruistic): counted, never asserted
	if blk.ProposerPayout().Raw > 0 && g.n(3) == 0 {
		v = blk
		v.BlockHeader.ProposerPayout.Raw = uint64(g.n(int(minU64(blk.ProposerPayout().Raw, 1<<40))))
		if err := bkValidate(s, v); err == nil {
			s.stat("C24.lower_payout_accepted", 1)
		} else {
			s.stat("C24.lower_payout_rejected", 1)
		}
	}
}

func minU64(a, b uint64) uint64 {
	if a < b {
		return a
	}
	return b
}

// BlockDone: the committed (honest) block's payout respects the reference bound.
func (o *bkFeeObs) BlockDone(s *Sim, prev, next *State, blk bookkeeping.Block, delta ledgercore.StateDelta) {
	p := config.Consensus[blk.CurrentProtocol]
	if !p.Payouts.Enabled {
		if blk.FeesCollected.Raw != 0 || blk.ProposerPayout().Raw != 0 || !blk.Proposer().IsZero() {
			s.violate("C24", "payout-fields-while-disabled", "", fmt.Sprintf("round %d: payouts are disabled but the header carries FeesCollected=%d Proposer=%s payout=%d", blk.Round(), blk.FeesCollected.Raw, shortAddr(blk.Proposer()), blk.ProposerPayout().Raw))
		}
		return
	}
	payout := blk.ProposerPayout().Raw
	sinkAfter := next.Accts[blk.FeeSink]
	minbal, plain := bkPlainMinBalance(sinkAfter, p)
	if !plain {
		return
	}
	paid := uint64(0)
	if !blk.Proposer().IsZero() {
		paid = payout
	}
	sinkBefore := sinkAfter.MicroAlgos.Raw + paid // what the sink held when the payout was taken
	if o.sinkRefOK && blk.Proposer() != blk.FeeSink && sinkBefore != o.sinkEndRef {
		s.harness = fmt.Sprintf("C24 self-check: round %d: fee sink before payout is %d by the next reference state but %d by previous balance + fees", blk.Round(), sinkBefore, o.sinkEndRef)
		return
	}
	share := bkPercentOf(p.Payouts.Percent, blk.FeesCollected.Raw) + blk.Bonus.Raw
	avail := uint64(0)
	if sinkBefore > minbal {
		avail = sinkBefore - minbal
	}
	bound := minU64(share, avail)
	if payout > bound {
		s.violate("C24", "honest-payout-above-bound", "", fmt.Sprintf("round %d: payout %d exceeds min(percent %d x fees %d + bonus %d = %d, sink %d - min balance %d = %d)", blk.Round(), payout, p.Payouts.Percent, blk.FeesCollected.Raw, blk.Bonus.Raw, share, sinkBefore, minbal, avail))
		return
	}
	if payout > 0 && sinkAfter.MicroAlgos.Raw < minbal {
		s.violate("C24", "sink-below-min-balance-after-payout", "", fmt.Sprintf("round %d: fee sink holds %d after a payout of %d, minimum balance is %d", blk.Round(), sinkAfter.MicroAlgos.Raw, payout, minbal))
		return
	}
	if blk.FeesCollected.Raw > 0 {
		s.stat("C24.blocks_fees_positive", 1)
	}
	if payout > 0 {
		s.stat("C24.blocks_payout_positive", 1)
		if blk.FeesCollected.Raw > 0 {
			o.paidBlocks++
		}
	}
	if avail < share {
		s.stat("C24.blocks_sink_limited", 1)
		o.sinkLimited++
	} else {
		s.stat("C24.blocks_share_limited", 1)
	}
	if payout == bound {
		s.stat("C24.blocks_payout_at_bound", 1)
	}
	if blk.CurrentProtocol == SimProtoV3 {
		s.stat("C24.blocks_big_bonus", 1)
	}
	s.log.Add("C24 r%d fees=%d bonus=%d payout=%d bound=%d sinkBefore=%d", blk.Round(), blk.FeesCollected.Raw, blk.Bonus.Raw, payout, bound, sinkBefore)
}
