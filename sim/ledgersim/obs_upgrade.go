package ledgersim

import (
	"fmt"
	"strings"
	"sync"

	"github.com/algorand/go-algorand/config"
	"github.com/algorand/go-algorand/data/basics"
	"github.com/algorand/go-algorand/data/bookkeeping"
	"github.com/algorand/go-algorand/data/transactions"
	"github.com/algorand/go-algorand/ledger/eval"
	"github.com/algorand/go-algorand/ledger/ledgercore"
	"github.com/algorand/go-algorand/protocol"
)

// ---------------------------------------------------------------------------------------------
// C26 "Protocol upgrades switch only when approved, at the announced round"
//
// SimProto gets tiny vote-window parameters (harmless while nobody proposes: ApprovedUpgrades stays
// empty, so the driver's bookkeeping.MakeBlock never votes on its own). Two further versions are
// registered the first time an observer that needs them is created (before any ledger is opened in the
// process): v2 = SimProto with MaxTxGroupSize-1 and different wait-round bounds, v3 = SimProto with a
// very large proposer bonus (used by the C24 observer to drain the fee sink).
// ---------------------------------------------------------------------------------------------

const (
	SimProtoV2 = protocol.ConsensusVersion("verif-ledgersim-v2")
	SimProtoV3 = protocol.ConsensusVersion("verif-ledgersim-v3-bonus")
)

func init() {
	protoTweaks = append(protoTweaks, func(p *config.ConsensusParams) {
		p.UpgradeVoteRounds = 5
		p.UpgradeThreshold = 3
		p.MinUpgradeWaitRounds = 0
		p.MaxUpgradeWaitRounds = 5
		p.DefaultUpgradeWaitRounds = 3
	})
}

var bkVersionsOnce sync.Once

// bkRegisterVersions registers v2 and v3 as copies of the final SimProto parameters.
func bkRegisterVersions() {
	bkVersionsOnce.Do(func() {
		registerProto()
		v2 := config.Consensus[SimProto]
		v2.ApprovedUpgrades = map[protocol.ConsensusVersion]uint64{}
		v2.MaxTxGroupSize-- // (a larger group size than config's bounds.MaxTxGroupSize, computed at package init, cannot be registered at run time)
		v2.UpgradeVoteRounds = 4
		v2.UpgradeThreshold = 2
		v2.MinUpgradeWaitRounds = 2
		v2.MaxUpgradeWaitRounds = 6
		v2.DefaultUpgradeWaitRounds = 4
		config.Consensus[SimProtoV2] = v2
		v3 := config.Consensus[SimProto]
		v3.ApprovedUpgrades = map[protocol.ConsensusVersion]uint64{}
		v3.Bonus.BaseAmount = 90_000_000_000_000 // 90M Algos per block: the 800M fee sink lasts ~9 blocks
		v3.Bonus.DecayInterval = 7
		config.Consensus[SimProtoV3] = v3
	})
}

// bkUpg is the reference upgrade state; step is the reference transition, written from the comments on
// BlockHeader.UpgradeState / UpgradeVote and on ConsensusParams (not from applyUpgradeVote):
//   - a proposal names the next version and a delay; at most one proposal is pending; the delay must lie
//     in [MinUpgradeWaitRounds, MaxUpgradeWaitRounds] of the CURRENT protocol, 0 meaning the default;
//     voting lasts UpgradeVoteRounds: votes are counted in rounds r .. r+UpgradeVoteRounds-1;
//   - an approval is only legal while a proposal is being voted on;
//   - at the vote deadline a proposal with fewer than UpgradeThreshold approvals is dropped;
//   - the protocol changes exactly at deadline+delay of a surviving proposal.
type bkUpg struct {
	Cur, Next  protocol.ConsensusVersion
	Approvals  uint64
	VoteBefore basics.Round
	SwitchOn   basics.Round
}

func bkUpgOf(us bookkeeping.UpgradeState) bkUpg {
	return bkUpg{us.CurrentProtocol, us.NextProtocol, uint64(us.NextProtocolApprovals), us.NextProtocolVoteBefore, us.NextProtocolSwitchOn}
}

func (u bkUpg) us() bookkeeping.UpgradeState {
	return bookkeeping.UpgradeState{CurrentProtocol: u.Cur, NextProtocol: u.Next, NextProtocolApprovals: basics.Round(u.Approvals),
		NextProtocolVoteBefore: u.VoteBefore, NextProtocolSwitchOn: u.SwitchOn}
}

func (u bkUpg) String() string {
	return fmt.Sprintf("{cur=%s next=%s yes=%d voteBefore=%d switchOn=%d}", u.Cur, u.Next, u.Approvals, u.VoteBefore, u.SwitchOn)
}

// step returns the state after round r's vote, or the reason the vote is illegal.
func (u bkUpg) step(r basics.Round, v bookkeeping.UpgradeVote) (bkUpg, string) {
	p, ok := config.Consensus[u.Cur]
	if !ok {
		return u, "current protocol unknown"
	}
	n := u
	if v.UpgradePropose != "" {
		if u.Next != "" {
			return u, "a proposal is already pending"
		}
		if len(v.UpgradePropose) > p.MaxVersionStringLen {
			return u, "version string too long"
		}
		d := uint64(v.UpgradeDelay)
		if d < p.MinUpgradeWaitRounds || d > p.MaxUpgradeWaitRounds {
			return u, "delay outside the permitted range"
		}
		if d == 0 {
			d = p.DefaultUpgradeWaitRounds
		}
		n.Next = v.UpgradePropose
		n.Approvals = 0
		n.VoteBefore = r + basics.Round(p.UpgradeVoteRounds)
		n.SwitchOn = n.VoteBefore + basics.Round(d)
	} else if v.UpgradeDelay != 0 {
		return u, "delay without a proposal"
	}
	if v.UpgradeApprove {
		if n.Next == "" {
			return u, "approval without a pending proposal"
		}
		if r >= n.VoteBefore {
			return u, "approval after the vote deadline"
		}
		n.Approvals++
	}
	if n.Next != "" && r == n.VoteBefore && n.Approvals < p.UpgradeThreshold {
		n.Next, n.Approvals, n.VoteBefore, n.SwitchOn = "", 0, 0, 0
	}
	if n.Next != "" && r == n.SwitchOn {
		n.Cur = n.Next
		n.Next, n.Approvals, n.VoteBefore, n.SwitchOn = "", 0, 0, 0
	}
	return n, ""
}

// bkApplyVote rewrites hdr (built by bookkeeping.MakeBlock with an empty vote) to carry vote and the
// reference successor state of prev. It returns false, leaving hdr untouched, when the real header
// pre-check refuses that header.
func bkApplyVote(hdr *bookkeeping.BlockHeader, prevHdr bookkeeping.BlockHeader, vote bookkeeping.UpgradeVote) (bkUpg, string, error) {
	st, bad := bkUpgOf(prevHdr.UpgradeState).step(hdr.Round, vote)
	if bad != "" {
		return st, bad, nil
	}
	n := *hdr
	n.UpgradeVote = vote
	n.UpgradeState = st.us()
	if err := n.PreCheck(prevHdr); err != nil {
		return st, "", err
	}
	*hdr = n
	return st, "", nil
}

// history record per round (rounds may be rolled back by a crash and are then overwritten)
type bkUpgRec struct {
	st  bkUpg
	pop int // approval probability (percent) of the pending proposal
	// independent bookkeeping of the pending proposal for the history property
	propVer            protocol.ConsensusVersion
	propAt, propBefore basics.Round
	propSwitch         basics.Round
	propYes            uint64
}

type bkUpgObs struct {
	NopObserver
	rec        map[basics.Round]bkUpgRec
	drawnPop   int
	building   bkUpg
	resolved   int64
	variants   int64
	switchedAt basics.Round
}

type bkUpgInfo struct{ kind string }

func init() {
	registerObserver([]string{"C26"}, func(s *Sim) Observer {
		bkRegisterVersions()
		return &bkUpgObs{rec: map[basics.Round]bkUpgRec{}}
	})
}

func (o *bkUpgObs) Nontrivial(s *Sim) bool { return o.resolved > 0 && o.variants > 0 }

func (o *bkUpgObs) recAt(s *Sim, r basics.Round) bkUpgRec {
	if rc, ok := o.rec[r]; ok {
		return rc
	}
	// genesis (or a round the observer has not seen): take the committed header
	rc := bkUpgRec{st: bkUpgOf(s.states[r].Hdr.UpgradeState), pop: 100}
	o.rec[r] = rc
	return rc
}

var bkVersions = []protocol.ConsensusVersion{SimProto, SimProtoV2, SimProtoV3}

func bkOtherVersion(g *Gen, not ...protocol.ConsensusVersion) protocol.ConsensusVersion {
	for {
		v := bkVersions[g.n(len(bkVersions))]
		ok := true
		for _, x := range not {
			if x == v {
				ok = false
			}
		}
		if ok {
			return v
		}
	}
}

// ChooseHeader plays the proposer: propose / approve / nothing, with drawn delays.
func (o *bkUpgObs) ChooseHeader(s *Sim, g *Gen, hdr *bookkeeping.BlockHeader) {
	prevHdr := s.states[s.latest].Hdr
	prc := o.recAt(s, s.latest)
	p := config.Consensus[prc.st.Cur]
	r := hdr.Round
	var vote bookkeeping.UpgradeVote
	o.drawnPop = prc.pop
	switch {
	case prc.st.Next == "" && g.n(3) == 0:
		// v3 (huge bonus) is proposed rarely: it changes the economics but not the upgrade rules
		vote.UpgradePropose = bkOtherVersion(g, prc.st.Cur)
		if vote.UpgradePropose == SimProtoV3 && g.n(3) != 0 {
			vote.UpgradePropose = bkOtherVersion(g, prc.st.Cur, SimProtoV3)
		}
		vote.UpgradeDelay = basics.Round(p.MinUpgradeWaitRounds + uint64(g.n(int(p.MaxUpgradeWaitRounds-p.MinUpgradeWaitRounds)+1)))
		o.drawnPop = []int{20, 50, 80, 100, 100}[g.n(5)]
		vote.UpgradeApprove = g.n(100) < o.drawnPop
	case prc.st.Next != "" && r < prc.st.VoteBefore:
		vote.UpgradeApprove = g.n(100) < prc.pop
	}
	st, bad, err := bkApplyVote(hdr, prevHdr, vote)
	if bad != "" {
		s.harness = fmt.Sprintf("C26: drew an illegal vote %+v in state %v: %s", vote, prc.st, bad)
		return
	}
	if err != nil {
		// a header that follows the rules (reference successor state of a legal vote) is refused by the
		// header pre-check: the state the code would accept for this vote differs from the rules
		s.violate("C26", "rule-following-header-rejected", "", fmt.Sprintf("round %d: vote %+v in state %v gives %v by the rules, but BlockHeader.PreCheck refuses that header: %v", r, vote, prc.st, st, err))
		o.building = bkUpgOf(hdr.UpgradeState)
		return
	}
	o.building = st
	if vote.UpgradePropose != "" {
		s.stat("C26.proposals", 1)
	}
	if vote.UpgradeApprove {
		s.stat("C26.approvals", 1)
	}
}

// ExtraGroups: a group of SimProto.MaxTxGroupSize members is legal under every version but v2 (one
// less); accepted under v2 it means the parameters in force are not those of the announced protocol.
func (o *bkUpgObs) ExtraGroups(s *Sim, g *Gen, ev *eval.BlockEvaluator, hdr *bookkeeping.BlockHeader, cands []Candidate) []Candidate {
	if g.n(4) != 0 {
		return cands
	}
	signers := g.bkSigners(nil)
	if len(signers) == 0 {
		return cands
	}
	n := config.Consensus[SimProto].MaxTxGroupSize
	txs := make([]transactions.Transaction, n)
	for i := range txs {
		txs[i] = g.bkPay(signers[g.n(len(signers))].Addr, g.bkRcv(), uint64(100+g.n(100)), g.proto.MinTxnFee)
	}
	gid := bkGroupID(txs)
	for i := range txs {
		txs[i].Group = gid
	}
	stx, ok := g.bkSignAll(txs)
	if !ok {
		return cands
	}
	legal := config.Consensus[o.building.Cur].MaxTxGroupSize >= n
	c := Candidate{Txns: stx, Info: bkUpgInfo{"big-group"}}
	if !legal {
		c.Poison, c.MustReject = "group-larger-than-current-protocol-allows", true
	}
	return append(cands, c)
}

func (o *bkUpgObs) GroupResult(s *Sim, ev *eval.BlockEvaluator, c Candidate, stage string, err error) {
	if o.switchedAt != 0 && stage == "" {
		s.stat("C26.txn_accepted_after_switch", int64(len(c.Txns)))
	}
	if _, ok := c.Info.(bkUpgInfo); !ok {
		return
	}
	switch {
	case c.MustReject && stage == "":
		s.violate("C26", "old-protocol-limit-not-in-force", "", fmt.Sprintf("a %d-member group was accepted while the reference protocol %s allows %d", len(c.Txns), o.building.Cur, config.Consensus[o.building.Cur].MaxTxGroupSize))
	case c.MustReject:
		s.stat("C26.full_group_rejected_under_v2", 1)
	case stage == "":
		s.stat("C26.full_group_accepted_outside_v2", 1)
	default:
		s.stat("C26.full_group_rejected_outside_v2", 1)
		m := err.Error()
		if len(m) > 160 {
			m = m[len(m)-160:]
		}
		s.log.Add("C26 legal full group rejected at %s: ...%s", stage, m)
	}
}

// TamperBlock: headers whose upgrade vote/state break the rules must not validate.
func (o *bkUpgObs) TamperBlock(s *Sim, g *Gen, blk bookkeeping.Block) {
	r := blk.Round()
	P := o.recAt(s, s.latest).st
	p := config.Consensus[P.Cur]
	hv := blk.UpgradeVote
	hs := bkUpgOf(blk.UpgradeState)
	type variant struct {
		kind string
		vote bookkeeping.UpgradeVote
		st   bkUpg
	}
	var vs []variant
	add := func(kind string, vote bookkeeping.UpgradeVote, st bkUpg) { vs = append(vs, variant{kind, vote, st}) }
	other := bkOtherVersion(g, P.Cur, P.Next)
	asProposed := func(ver protocol.ConsensusVersion, delay uint64) bkUpg {
		d := delay
		if d == 0 {
			d = p.DefaultUpgradeWaitRounds
		}
		vb := r + basics.Round(p.UpgradeVoteRounds)
		return bkUpg{Cur: P.Cur, Next: ver, VoteBefore: vb, SwitchOn: vb + basics.Round(d)}
	}
	validDelay := p.MinUpgradeWaitRounds + uint64(g.n(int(p.MaxUpgradeWaitRounds-p.MinUpgradeWaitRounds)+1))
	if P.Next != "" {
		// a second proposal while one is pending
		v2 := bookkeeping.UpgradeVote{UpgradePropose: other, UpgradeDelay: basics.Round(validDelay)}
		add("second-proposal-replaces", v2, asProposed(other, validDelay))
		add("second-proposal-ignored", v2, hs)
		if r != P.SwitchOn {
			add("early-switch", hv, bkUpg{Cur: P.Next})
		}
		if r >= P.VoteBefore {
			x := hs
			if x.Next != "" {
				x.Approvals++
			}
			add("approve-after-deadline", bookkeeping.UpgradeVote{UpgradeApprove: true}, x)
		}
		if r == P.VoteBefore && hs.Next == "" {
			// the honest header dropped a failed proposal: keep it pending instead / let it pass
			add("failed-proposal-kept", hv, P)
		}
		if r == P.SwitchOn && hs.Cur != P.Cur {
			add("switch-to-unannounced-version", hv, bkUpg{Cur: other})
			add("switch-skipped", hv, P)
		}
	} else {
		if hv.UpgradePropose == "" {
			add("nextprotocol-without-proposal", hv, asProposed(other, 0))
			a := hs
			add("approve-without-proposal", bookkeeping.UpgradeVote{UpgradeApprove: true}, a)
			a.Approvals = 1
			add("approve-without-proposal-counted", bookkeeping.UpgradeVote{UpgradeApprove: true}, a)
			add("delay-without-proposal", bookkeeping.UpgradeVote{UpgradeDelay: basics.Round(1 + g.n(3))}, hs)
			add("switch-without-proposal", hv, bkUpg{Cur: other})
		}
		hi := p.MaxUpgradeWaitRounds + 1 + uint64(g.n(3))
		add("delay-above-max", bookkeeping.UpgradeVote{UpgradePropose: other, UpgradeDelay: basics.Round(hi)}, asProposed(other, hi))
		if p.MinUpgradeWaitRounds > 1 {
			lo := 1 + uint64(g.n(int(p.MinUpgradeWaitRounds)-1))
			add("delay-below-min", bookkeeping.UpgradeVote{UpgradePropose: other, UpgradeDelay: basics.Round(lo)}, asProposed(other, lo))
		}
		long := protocol.ConsensusVersion(strings.Repeat("v", p.MaxVersionStringLen+1))
		add("version-name-too-long", bookkeeping.UpgradeVote{UpgradePropose: long, UpgradeDelay: basics.Round(validDelay)}, asProposed(long, validDelay))
		w := asProposed(other, validDelay)
		if g.n(2) == 0 {
			w.VoteBefore--
		} else {
			w.SwitchOn--
		}
		add("proposal-announces-wrong-rounds", bookkeeping.UpgradeVote{UpgradePropose: other, UpgradeDelay: basics.Round(validDelay)}, w)
		w = asProposed(other, validDelay)
		w.Approvals = 1 + uint64(g.n(3))
		add("proposal-with-unearned-approvals", bookkeeping.UpgradeVote{UpgradePropose: other, UpgradeDelay: basics.Round(validDelay)}, w)
	}
	if hs.Next != "" {
		x := hs
		x.Approvals++
		add("approvals-plus-one", hv, x)
		if hs.Approvals > 0 {
			x = hs
			x.Approvals--
			add("approvals-minus-one", hv, x)
		}
		x = hs
		x.SwitchOn--
		add("switch-round-moved", hv, x)
		x = hs
		x.Next = bkOtherVersion(g, hs.Cur, hs.Next)
		add("pending-version-replaced", hv, x)
	}
	for _, v := range vs {
		exp, bad := P.step(r, v.vote)
		if bad == "" && exp == v.st {
			continue // this combination follows the rules after all
		}
		t := blk
		t.UpgradeVote = v.vote
		t.UpgradeState = v.st.us()
		o.variants++
		if !bkJudge(s, "C26", v.kind, t, fmt.Sprintf("previous upgrade state %v, vote %+v, claimed state %v (the rules give %v %s)", P, v.vote, v.st, exp, bad)) {
			return
		}
	}
}

func (o *bkUpgObs) BlockDone(s *Sim, prev, next *State, blk bookkeeping.Block, delta ledgercore.StateDelta) {
	r := blk.Round()
	prc := o.recAt(s, r-1)
	got := bkUpgOf(blk.UpgradeState)
	exp, bad := prc.st.step(r, blk.UpgradeVote)
	if bad != "" {
		s.violate("C26", "committed-header-illegal-vote", "", fmt.Sprintf("round %d committed with vote %+v in state %v: %s", r, blk.UpgradeVote, prc.st, bad))
		return
	}
	if exp != got {
		s.violate("C26", "committed-header-state-mismatch", "", fmt.Sprintf("round %d: previous state %v, vote %+v: the rules give %v, the committed header has %v", r, prc.st, blk.UpgradeVote, exp, got))
		return
	}
	// history property, tracked separately from the machine above
	rc := bkUpgRec{st: got, pop: prc.pop, propVer: prc.propVer, propAt: prc.propAt, propBefore: prc.propBefore, propSwitch: prc.propSwitch, propYes: prc.propYes}
	oldp := config.Consensus[prev.Hdr.CurrentProtocol]
	if blk.UpgradePropose != "" {
		if rc.propVer != "" {
			s.violate("C26", "two-pending-proposals", "", fmt.Sprintf("round %d proposes %s while %s (proposed in round %d) is still pending", r, blk.UpgradePropose, rc.propVer, rc.propAt))
			return
		}
		d := uint64(blk.UpgradeDelay)
		if d == 0 {
			d = oldp.DefaultUpgradeWaitRounds
		}
		rc.propVer, rc.propAt, rc.propYes = blk.UpgradePropose, r, 0
		rc.propBefore = r + basics.Round(oldp.UpgradeVoteRounds)
		rc.propSwitch = rc.propBefore + basics.Round(d)
		rc.pop = o.drawnPop
	}
	if blk.UpgradeApprove {
		if rc.propVer == "" || r >= rc.propBefore {
			s.violate("C26", "approval-outside-vote-window", "", fmt.Sprintf("round %d approves, pending=%q vote window ends before round %d", r, rc.propVer, rc.propBefore))
			return
		}
		rc.propYes++
	}
	switched := blk.CurrentProtocol != prev.Hdr.CurrentProtocol
	if switched {
		if rc.propVer != blk.CurrentProtocol || r != rc.propSwitch || rc.propYes < oldp.UpgradeThreshold {
			s.violate("C26", "protocol-switched-against-the-rules", "", fmt.Sprintf("round %d switches %s -> %s; pending proposal %q (round %d) announced switch round %d and has %d approvals of %d needed",
				r, prev.Hdr.CurrentProtocol, blk.CurrentProtocol, rc.propVer, rc.propAt, rc.propSwitch, rc.propYes, oldp.UpgradeThreshold))
			return
		}
		o.switchedAt = r
		s.stat("C26.switches", 1)
		s.stat("C26.switch_to."+string(blk.CurrentProtocol), 1)
		rc.propVer = ""
	} else if rc.propVer != "" && r == rc.propSwitch {
		s.violate("C26", "announced-switch-did-not-happen", "", fmt.Sprintf("round %d is the announced switch round of %s (approvals %d) but the protocol stayed %s", r, rc.propVer, rc.propYes, blk.CurrentProtocol))
		return
	}
	if rc.propVer != "" && r == rc.propBefore {
		o.resolved++
		if rc.propYes < oldp.UpgradeThreshold {
			s.stat("C26.proposals_failed", 1)
			rc.propVer = ""
		} else {
			s.stat("C26.proposals_passed", 1)
		}
	}
	if (rc.propVer == "") != (got.Next == "") {
		s.violate("C26", "pending-proposal-disagrees-with-history", "", fmt.Sprintf("round %d: header says pending=%q, the vote history says pending=%q", r, got.Next, rc.propVer))
		return
	}
	o.rec[r] = rc
	if o.switchedAt != 0 {
		s.stat("C26.blocks_after_switch", 1)
	}
	s.log.Add("C26 r%d vote{%s,%d,%v} state %v", r, blk.UpgradePropose, blk.UpgradeDelay, blk.UpgradeApprove, got)
}
