package ledgersim

import (
	"bytes"
	"fmt"
	"sort"
	"strings"

	"github.com/algorand/go-algorand/data/basics"
	"github.com/algorand/go-algorand/data/bookkeeping"
	"github.com/algorand/go-algorand/data/transactions"
	"github.com/algorand/go-algorand/data/txntest"
	"github.com/algorand/go-algorand/ledger/eval"
	"github.com/algorand/go-algorand/ledger/ledgercore"
	"github.com/algorand/go-algorand/protocol"
)

// C23 "Application storage accounting matches stored state".
//
// Oracle per block, on the reference fold after the block:
//   - for every application that exists, existed in the previous state, or owns a box in the kv fold
//     (before or after the block): the app account's TotalBoxes / TotalBoxBytes equal the number and the
//     sum of len(name)+len(value) of the boxes enumerated from the kv fold (keys "bx:"+appid+name);
//   - for every application's global state and every local state: the number of uint and byte-slice
//     entries is <= the declared schema (GlobalStateSchema; the schema recorded in the local state, and
//     the app's LocalStateSchema while the app exists);
//   - the box enumeration is cross-checked against the real ledger at the latest round
//     (LookupKvPairsByPrefix with values, LookupKeysByPrefix).
//
// Workload: the base generator's box/global/local operations plus a "storage lab" program that adds
// box_splice / box_replace / create-delete-create and put-delete inside ONE transaction, type switches
// of a key (bytes<->uint) and schema-filling loops; boosters create and fund lab apps, opt accounts in
// and fire those operations, many of them at or beyond the schema limits.

func init() {
	registerObserver([]string{"C23"}, func(s *Sim) Observer { return newAppStorageObs(s) })
	propBias["C23"] = "apps"
	kindRemap["apps"] = func(g *Gen, kind int) int {
		if g.n(2) == 0 {
			return 64 + g.n(34) // the application kinds of Gen.one()
		}
		return kind
	}
}

// Nontrivial implements NontrivialJudge.
func (o *appStorageObs) Nontrivial(s *Sim) bool {
	return s.stats["c23.boxes_counted"] > 0 && s.stats["c23.state_entries_counted"] > 0 && s.stats["c23.app_accounts_with_boxes_checked"] > 0
}

const labDispatch = `txna ApplicationArgs 0
byte "bsplice"
==
bnz l_bsplice
txna ApplicationArgs 0
byte "breplace"
==
bnz l_breplace
txna ApplicationArgs 0
byte "bcdc"
==
bnz l_bcdc
txna ApplicationArgs 0
byte "bputdel"
==
bnz l_bputdel
txna ApplicationArgs 0
byte "gmix"
==
bnz l_gmix
txna ApplicationArgs 0
byte "gmix2"
==
bnz l_gmix2
txna ApplicationArgs 0
byte "gputdel"
==
bnz l_gputdel
txna ApplicationArgs 0
byte "gdelput"
==
bnz l_gdelput
txna ApplicationArgs 0
byte "gfill"
==
bnz l_gfill
txna ApplicationArgs 0
byte "lfill"
==
bnz l_lfill
txna ApplicationArgs 0
byte "lmix"
==
bnz l_lmix
txna ApplicationArgs 0
byte "lint"
==
bnz l_lint
`

const labBodies = `l_bsplice:
txna ApplicationArgs 1
txna ApplicationArgs 2
btoi
txna ApplicationArgs 3
btoi
txna ApplicationArgs 4
box_splice
b approve
l_breplace:
txna ApplicationArgs 1
txna ApplicationArgs 2
btoi
txna ApplicationArgs 3
box_replace
b approve
l_bcdc:
txna ApplicationArgs 1
txna ApplicationArgs 2
btoi
box_create
pop
txna ApplicationArgs 1
box_del
pop
txna ApplicationArgs 1
txna ApplicationArgs 3
btoi
box_create
pop
b approve
l_bputdel:
txna ApplicationArgs 1
txna ApplicationArgs 2
box_put
txna ApplicationArgs 1
box_del
pop
b approve
l_gmix:
txna ApplicationArgs 1
txna ApplicationArgs 2
app_global_put
txna ApplicationArgs 1
int 7
app_global_put
b approve
l_gmix2:
txna ApplicationArgs 1
int 7
app_global_put
txna ApplicationArgs 1
txna ApplicationArgs 2
app_global_put
b approve
l_gputdel:
txna ApplicationArgs 1
txna ApplicationArgs 2
app_global_put
txna ApplicationArgs 1
app_global_del
b approve
l_gdelput:
txna ApplicationArgs 1
app_global_del
txna ApplicationArgs 2
txna ApplicationArgs 3
app_global_put
b approve
l_gfill:
int 1
store 0
l_gfill_loop:
load 0
txn NumAppArgs
<
bz approve
load 0
txnas ApplicationArgs
load 0
app_global_put
load 0
int 1
+
store 0
b l_gfill_loop
l_lfill:
int 1
store 0
l_lfill_loop:
load 0
txn NumAppArgs
<
bz approve
int 0
load 0
txnas ApplicationArgs
byte "fill"
app_local_put
load 0
int 1
+
store 0
b l_lfill_loop
l_lmix:
int 0
txna ApplicationArgs 1
int 7
app_local_put
int 0
txna ApplicationArgs 1
txna ApplicationArgs 2
app_local_put
b approve
l_lint:
int 0
txna ApplicationArgs 1
txna ApplicationArgs 2
btoi
app_local_put
b approve
`

// labSource is the base library program extended with the storage-lab operations ("" if the base
// program does not have the expected shape any more).
func labSource() string {
	const tail = "bnz l_gint\nerr\n"
	const end = "approve:\nint 1\n"
	if strings.Count(appSource, tail) != 1 || !strings.HasSuffix(appSource, end) {
		return ""
	}
	src := strings.Replace(appSource, tail, "bnz l_gint\n"+labDispatch+"err\n", 1)
	return strings.TrimSuffix(src, end) + labBodies + end
}

type appStorageObs struct {
	NopObserver
	lab     string
	labApps map[basics.AppIndex]bool // apps created by a booster with the lab program
	pending map[transactions.Txid]bool
	toCheck map[basics.AppIndex]bool // apps whose box enumeration is to be compared with the ledger's
}

// AfterBlock implements PostBlock: compare the reference box enumeration of every application whose
// boxes changed since the last comparison with what the real ledger lists at its latest round.
func (o *appStorageObs) AfterBlock(s *Sim, qseed uint64) {
	st := s.states[s.latest]
	if st == nil || s.led.Latest() != s.latest {
		return
	}
	boxes, _ := refBoxes(st)
	ids := make([]basics.AppIndex, 0, len(o.toCheck))
	for id := range o.toCheck {
		ids = append(ids, id)
	}
	sort.Slice(ids, func(i, j int) bool { return ids[i] < ids[j] })
	o.toCheck = map[basics.AppIndex]bool{}
	for _, id := range ids {
		if !o.ledgerBoxes(s, st, id, boxes[id]) {
			return
		}
	}
}

func newAppStorageObs(s *Sim) *appStorageObs {
	s.statInit("c23.app_accounts_checked", "c23.app_accounts_with_boxes_checked", "c23.boxes_counted", "c23.box_bytes_counted", "c23.state_entries_counted", "c23.global_states_checked",
		"c23.local_states_checked", "c23.global_state_at_schema_limit", "c23.local_state_at_schema_limit", "c23.ledger_box_enumerations", "c23.boxes_deleted", "c23.boxes_resized", "c23.boxes_created",
		"c23.apps_deleted_with_boxes", "c23.lab_program_unavailable", "c23.schema_limit_rejections")
	for _, k := range labKinds {
		s.statInit("c23.boost."+k, "c23.boost_ok."+k)
	}
	o := &appStorageObs{lab: labSource(), labApps: map[basics.AppIndex]bool{}, pending: map[transactions.Txid]bool{}, toCheck: map[basics.AppIndex]bool{}}
	if o.lab == "" {
		s.stat("c23.lab_program_unavailable", 1)
	}
	return o
}

var labKinds = []string{"create-lab", "fund", "optin", "bcreate", "bput", "bdel", "bresize", "bsplice", "breplace", "bcdc", "bputdel", "gmix", "gmix2", "gputdel", "gdelput", "gfill", "lfill", "lmix", "lint", "gput", "gint", "gdel", "lput", "ldel", "closeout", "delete-app"}

var labBoxNames = []string{"a", "ab", "b", "lab", "lab2", "a\x00", "a\x00b", "\x00", "long-box-name-0123456789", "z"}
var labKeys = []string{"k", "k1", "k2", "x", "yy", "f1", "f2", "f3", "f4", "f5"}

func (o *appStorageObs) boost(s *Sim, g *Gen) *Candidate {
	st := g.st
	snd := g.rich(richFloor)
	if snd == nil {
		return nil
	}
	var labs []basics.AppIndex
	for _, id := range g.appIDs() {
		if o.labApps[id] {
			labs = append(labs, id)
		}
	}
	kind := labKinds[g.n(len(labKinds))]
	if len(labs) == 0 || (len(labs) < 3 && g.n(6) == 0) {
		kind = "create-lab"
	}
	var t *txntest.Txn
	call := func(app basics.AppIndex, box string, args ...[]byte) *txntest.Txn {
		t := &txntest.Txn{Type: protocol.ApplicationCallTx, Sender: snd.Addr, ApplicationID: app, ApplicationArgs: args}
		if box != "" {
			t.Boxes = []transactions.BoxRef{{Index: 0, Name: []byte(box)}}
		}
		return t
	}
	if kind == "create-lab" {
		if o.lab == "" || len(labs) >= 4 {
			return nil
		}
		t = &txntest.Txn{Type: protocol.ApplicationCallTx, Sender: snd.Addr, ApprovalProgram: o.lab, ClearStateProgram: clearSource,
			GlobalStateSchema: basics.StateSchema{NumUint: uint64(g.n(4)), NumByteSlice: uint64(g.n(4))},
			LocalStateSchema:  basics.StateSchema{NumUint: uint64(g.n(3)), NumByteSlice: uint64(g.n(3))}}
	} else {
		app := labs[g.n(len(labs))]
		existing := g.boxes(app)
		name := labBoxNames[g.n(len(labBoxNames))]
		switch kind {
		case "bput", "bdel", "bresize", "bsplice", "breplace":
			if len(existing) == 0 {
				kind = "bcreate"
			} else if g.n(6) != 0 {
				name = existing[g.n(len(existing))]
			}
		case "bcreate", "bcdc", "bputdel":
			if len(existing) > 0 && g.n(6) == 0 {
				name = existing[g.n(len(existing))] // re-creation attempt
			}
		}
		if st.Accts[app.Address()].MicroAlgos.Raw < 1_500_000 && g.n(3) != 0 {
			kind = "fund"
		}
		cur := st.Kv[boxKeyPrefix(app)+name]
		key := labKeys[g.n(len(labKeys))]
		val := []byte(fmt.Sprintf("v%d", *g.uniq))
		// a sender that is opted in (for the local-state operations), if any
		optedSender := func() bool {
			var l []*Acct
			for _, a := range o.optedMain(g, app) {
				l = append(l, a)
			}
			if len(l) == 0 {
				return false
			}
			snd = l[g.n(len(l))]
			return true
		}
		keys := func() [][]byte {
			var l [][]byte
			n := 1 + g.n(5)
			off := g.n(len(labKeys))
			for i := 0; i < n; i++ {
				l = append(l, []byte(labKeys[(off+i)%len(labKeys)]))
			}
			return l
		}
		switch kind {
		case "fund":
			t = &txntest.Txn{Type: protocol.PaymentTx, Sender: snd.Addr, Receiver: app.Address(), Amount: uint64(1_000_000 + g.n(4_000_000))}
		case "optin":
			var l []*Acct
			for _, a := range mainAccts() {
				if st.Apps[resKey{a.Addr, basics.CreatableIndex(app)}].Local == nil && st.Accts[a.Addr].MicroAlgos.Raw > richFloor {
					l = append(l, a)
				}
			}
			if len(l) == 0 {
				return nil
			}
			snd = l[g.n(len(l))]
			t = &txntest.Txn{Type: protocol.ApplicationCallTx, Sender: snd.Addr, ApplicationID: app, OnCompletion: transactions.OptInOC}
		case "bcreate":
			t = call(app, name, []byte("bcreate"), []byte(name), u64(uint64(g.n(120))))
		case "bput":
			v := val
			if cur != nil && g.n(4) != 0 {
				v = bytes.Repeat([]byte{byte('a' + g.n(26))}, len(cur))
			}
			t = call(app, name, []byte("bput"), []byte(name), v)
		case "bdel":
			t = call(app, name, []byte("bdel"), []byte(name))
		case "bresize":
			t = call(app, name, []byte("bresize"), []byte(name), u64(uint64(g.n(160))))
		case "bsplice":
			off, ln := 0, 0
			if len(cur) > 0 {
				off = g.n(len(cur) + 1)
				ln = g.n(len(cur) - off + 2) // sometimes one too many
			}
			t = call(app, name, []byte("bsplice"), []byte(name), u64(uint64(off)), u64(uint64(ln)), bytes.Repeat([]byte{'s'}, g.n(40)))
		case "breplace":
			off := 0
			if len(cur) > 0 {
				off = g.n(len(cur))
			}
			t = call(app, name, []byte("breplace"), []byte(name), u64(uint64(off)), bytes.Repeat([]byte{'r'}, 1+g.n(8)))
		case "bcdc":
			t = call(app, name, []byte("bcdc"), []byte(name), u64(uint64(g.n(60))), u64(uint64(g.n(60))))
		case "bputdel":
			t = call(app, name, []byte("bputdel"), []byte(name), val)
		case "gmix", "gmix2", "gputdel":
			t = call(app, "", []byte(kind), []byte(key), val)
		case "gdelput":
			t = call(app, "", []byte(kind), []byte(key), []byte(labKeys[g.n(len(labKeys))]), val)
		case "gfill":
			t = call(app, "", append([][]byte{[]byte("gfill")}, keys()...)...)
		case "lfill":
			if !optedSender() {
				return nil
			}
			t = call(app, "", append([][]byte{[]byte("lfill")}, keys()...)...)
		case "lmix":
			if !optedSender() {
				return nil
			}
			t = call(app, "", []byte("lmix"), []byte(key), val)
		case "lint":
			if !optedSender() {
				return nil
			}
			t = call(app, "", []byte("lint"), []byte(key), u64(uint64(g.n(9))))
		case "lput":
			if !optedSender() {
				return nil
			}
			t = call(app, "", []byte("lput"), []byte(key), val)
		case "ldel":
			if !optedSender() {
				return nil
			}
			t = call(app, "", []byte("ldel"), []byte(key))
		case "gput":
			t = call(app, "", []byte("gput"), []byte(key), val)
		case "gint":
			t = call(app, "", []byte("gint"), []byte(key), u64(uint64(g.n(9))))
		case "gdel":
			t = call(app, "", []byte("gdel"), []byte(key))
		case "closeout":
			if !optedSender() || g.n(3) != 0 {
				return nil
			}
			t = &txntest.Txn{Type: protocol.ApplicationCallTx, Sender: snd.Addr, ApplicationID: app, OnCompletion: []transactions.OnCompletion{transactions.CloseOutOC, transactions.ClearStateOC}[g.n(2)]}
		case "delete-app":
			_, cr := st.appParams(app)
			if g.n(4) != 0 || g.authOf(cr) == nil {
				return nil
			}
			t = &txntest.Txn{Type: protocol.ApplicationCallTx, Sender: cr, ApplicationID: app, OnCompletion: transactions.DeleteApplicationOC}
		}
	}
	if t == nil {
		return nil
	}
	s.stat("c23.boost."+kind, 1)
	return &Candidate{Txns: g.sign([]*txntest.Txn{g.xbase(t)}), Info: "c23." + kind}
}

func (o *appStorageObs) optedMain(g *Gen, app basics.AppIndex) []*Acct {
	var l []*Acct
	for _, a := range mainAccts() {
		if g.st.Apps[resKey{a.Addr, basics.CreatableIndex(app)}].Local != nil && g.st.Accts[a.Addr].MicroAlgos.Raw > 10_000_000 {
			l = append(l, a)
		}
	}
	return l
}

func (o *appStorageObs) ExtraGroups(s *Sim, g *Gen, ev *eval.BlockEvaluator, hdr *bookkeeping.BlockHeader, cands []Candidate) []Candidate {
	out := cands
	for i, n := 0, 2+g.n(6); i < n; i++ {
		if c := o.boost(s, g); c != nil {
			pos := g.n(len(out) + 1)
			out = append(out[:pos:pos], append([]Candidate{*c}, out[pos:]...)...)
		}
	}
	return out
}

func (o *appStorageObs) GroupResult(s *Sim, ev *eval.BlockEvaluator, c Candidate, stage string, err error) {
	if err != nil && strings.Contains(err.Error(), "exceeds schema") {
		s.stat("c23.schema_limit_rejections", 1)
	}
	kind, ok := c.Info.(string)
	if !ok || !strings.HasPrefix(kind, "c23.") {
		return
	}
	if err == nil {
		s.stat("c23.boost_ok."+strings.TrimPrefix(kind, "c23."), 1)
		if kind == "c23.create-lab" {
			o.pending[c.Txns[0].ID()] = true
		}
	}
}

func countTKV(kv basics.TealKeyValue) (nUint, nBytes uint64) {
	for _, v := range kv { // pure count: order independent
		if v.Type == basics.TealUintType {
			nUint++
		} else {
			nBytes++
		}
	}
	return
}

func (o *appStorageObs) BlockDone(s *Sim, prev, next *State, blk bookkeeping.Block, delta ledgercore.StateDelta) {
	// learn the ids of lab apps created in this block (ApplyData.ApplicationID of the creating transaction)
	if len(o.pending) > 0 {
		if groups, err := blk.DecodePaysetGroups(); err == nil {
			for _, grp := range groups {
				for _, t := range grp {
					if o.pending[t.ID()] && t.ApplyData.ApplicationID != 0 {
						o.labApps[t.ApplyData.ApplicationID] = true
					}
				}
			}
		}
		o.pending = map[transactions.Txid]bool{}
	}
	// reach bookkeeping on the delta
	for _, k := range sortedKvModKeys(delta) {
		if _, _, ok := boxKeySplit(k); !ok {
			continue
		}
		old, had := prev.Kv[k]
		nv, has := next.Kv[k]
		switch {
		case had && !has:
			s.stat("c23.boxes_deleted", 1)
		case !had && has:
			s.stat("c23.boxes_created", 1)
		case had && has && len(old) != len(nv):
			s.stat("c23.boxes_resized", 1)
		}
	}
	boxes, _ := refBoxes(next)
	prevBoxes, _ := refBoxes(prev)
	apps := map[basics.AppIndex]bool{}
	for id := range boxes {
		apps[id] = true
	}
	for id := range prevBoxes {
		apps[id] = true
	}
	for _, st := range []*State{prev, next} {
		for k := range st.Creators {
			if k.Type == basics.AppCreatable {
				apps[basics.AppIndex(k.Idx)] = true
			}
		}
	}
	ids := make([]basics.AppIndex, 0, len(apps))
	for id := range apps {
		ids = append(ids, id)
	}
	sort.Slice(ids, func(i, j int) bool { return ids[i] < ids[j] })
	for _, id := range ids {
		addr := id.Address()
		ad := next.Accts[addr] // zero value if the account does not exist
		var n, b uint64
		for _, e := range boxes[id] {
			n++
			b += uint64(len(e.Name) + len(e.Value))
		}
		s.stat("c23.app_accounts_checked", 1)
		if n > 0 {
			s.stat("c23.app_accounts_with_boxes_checked", 1)
			s.stat("c23.boxes_counted", int64(n))
			s.stat("c23.box_bytes_counted", int64(b))
			if _, ok := next.Creators[creatKey{basics.CreatableIndex(id), basics.AppCreatable}]; !ok {
				s.stat("c23.apps_deleted_with_boxes", 1)
			}
		}
		if ad.TotalBoxes != n || ad.TotalBoxBytes != b {
			var names []string
			for _, e := range boxes[id] {
				names = append(names, fmt.Sprintf("%q:%d", e.Name, len(e.Value)))
			}
			s.violate("C23", "box-accounting-mismatch", "", fmt.Sprintf("round %d: app %d account %s records TotalBoxes=%d TotalBoxBytes=%d but the app's existing boxes are %d with %d name+value bytes: %v",
				next.Round, id, addr, ad.TotalBoxes, ad.TotalBoxBytes, n, b, names))
			return
		}
		// the enumeration is cross-checked with the real ledger at the next quiescent instant (AfterBlock):
		// here a tracker commit may be parked half-way by the crash scheduler, and a prefix query from
		// this goroutine would wait for it forever
		if n > 0 || len(prevBoxes[id]) > 0 {
			o.toCheck[id] = true
		}
	}
	// schema limits
	for _, k := range next.sortedAppKeys() {
		a := next.Apps[k]
		if a.Params != nil {
			nu, nb := countTKV(a.Params.GlobalState)
			s.stat("c23.global_states_checked", 1)
			s.stat("c23.state_entries_counted", int64(nu+nb))
			sch := a.Params.GlobalStateSchema
			if nu > sch.NumUint || nb > sch.NumByteSlice {
				s.violate("C23", "global-state-exceeds-schema", "", fmt.Sprintf("round %d: app %d global state holds %d uints and %d byte slices, the declared schema allows %d and %d", next.Round, k.Idx, nu, nb, sch.NumUint, sch.NumByteSlice))
				return
			}
			if (nu == sch.NumUint && nu > 0) || (nb == sch.NumByteSlice && nb > 0) {
				s.stat("c23.global_state_at_schema_limit", 1)
			}
		}
		if a.Local != nil {
			nu, nb := countTKV(a.Local.KeyValue)
			s.stat("c23.local_states_checked", 1)
			s.stat("c23.state_entries_counted", int64(nu+nb))
			sch := a.Local.Schema
			if nu > sch.NumUint || nb > sch.NumByteSlice {
				s.violate("C23", "local-state-exceeds-schema", "", fmt.Sprintf("round %d: account %s local state of app %d holds %d uints and %d byte slices, its recorded schema allows %d and %d", next.Round, k.Addr, k.Idx, nu, nb, sch.NumUint, sch.NumByteSlice))
				return
			}
			if p, _ := next.appParams(basics.AppIndex(k.Idx)); p != nil && (nu > p.LocalStateSchema.NumUint || nb > p.LocalStateSchema.NumByteSlice) {
				s.violate("C23", "local-state-exceeds-schema", "", fmt.Sprintf("round %d: account %s local state of app %d holds %d uints and %d byte slices, the app declares %d and %d", next.Round, k.Addr, k.Idx, nu, nb, p.LocalStateSchema.NumUint, p.LocalStateSchema.NumByteSlice))
				return
			}
			if (nu == sch.NumUint && nu > 0) || (nb == sch.NumByteSlice && nb > 0) {
				s.stat("c23.local_state_at_schema_limit", 1)
			}
		}
	}
}

func sortedKvModKeys(d ledgercore.StateDelta) []string {
	l := make([]string, 0, len(d.KvMods))
	for k := range d.KvMods {
		l = append(l, k)
	}
	sort.Strings(l)
	return l
}

// ledgerBoxes compares the reference enumeration of an app's boxes with what the real ledger lists at its latest round.
func (o *appStorageObs) ledgerBoxes(s *Sim, next *State, id basics.AppIndex, want []boxEnt) bool {
	if s.led.Latest() != next.Round {
		return true
	}
	prefix := boxKeyPrefix(id)
	s.stat("c23.ledger_box_enumerations", 1)
	pairs, _, more, err := s.led.LookupKvPairsByPrefix(next.Round, prefix, "", 1<<20, 1<<30, true)
	if err != nil {
		s.violate("C23", "ledger-box-enumeration-error", "", fmt.Sprintf("round %d: LookupKvPairsByPrefix(app %d) failed at the latest round: %v", next.Round, id, err))
		return false
	}
	ok := !more && len(pairs) == len(want)
	for i := 0; ok && i < len(want); i++ {
		ok = pairs[i].Key == prefix+want[i].Name && bytes.Equal(pairs[i].Value, want[i].Value)
	}
	if !ok {
		var got []string
		for _, p := range pairs {
			got = append(got, fmt.Sprintf("%q:%d", strings.TrimPrefix(p.Key, prefix), len(p.Value)))
		}
		var exp []string
		for _, e := range want {
			exp = append(exp, fmt.Sprintf("%q:%d", e.Name, len(e.Value)))
		}
		s.violate("C23", "ledger-box-enumeration-mismatch", "", fmt.Sprintf("round %d: LookupKvPairsByPrefix(app %d) lists %v (more=%v) but the boxes that exist are %v", next.Round, id, got, more, exp))
		return false
	}
	keys, err := s.led.LookupKeysByPrefix(next.Round, prefix, 1<<20)
	if err != nil {
		s.violate("C23", "ledger-box-enumeration-error", "", fmt.Sprintf("round %d: LookupKeysByPrefix(app %d) failed at the latest round: %v", next.Round, id, err))
		return false
	}
	sort.Strings(keys)
	ok = len(keys) == len(want)
	for i := 0; ok && i < len(want); i++ {
		ok = keys[i] == prefix+want[i].Name
	}
	if !ok {
		s.violate("C23", "ledger-box-enumeration-mismatch", "", fmt.Sprintf("round %d: LookupKeysByPrefix(app %d) lists %d keys %q but %d boxes exist", next.Round, id, len(keys), keys, len(want)))
		return false
	}
	return true
}
