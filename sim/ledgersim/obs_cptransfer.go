package ledgersim

import (
	"context"
	"encoding/json"
	"errors"
	"fmt"
	"math/rand/v2"
	"os"
	"path/filepath"
	"sort"
	"sync"
	"testing/synctest"
	"time"

	"github.com/algorand/go-algorand/agreement"
	"github.com/algorand/go-algorand/config"
	"github.com/algorand/go-algorand/data/basics"
	"github.com/algorand/go-algorand/data/bookkeeping"
	"github.com/algorand/go-algorand/ledger"
	"github.com/algorand/go-algorand/ledger/ledgercore"

	"verif/sim/kernel"
)

// C16 "catchpoint catchup reproduces the source state and rejects tampering" and
// C15 "a catchpoint label commits to a unique ledger state".
//
// PRODUCER = the run's primary ledger (catchpoint tracking on, interval 4-8, files always written).
// Whenever it reports a new catchpoint label for round R its file is read through
// Ledger.GetCatchpointStream(R) exactly as rpcs/ledgerService would serve it.
//
// CONSUMER = a fresh ledger on an empty directory with the same genesis, driven through the real
// ledger.CatchpointCatchupAccessor in the order catchup/catchpointService.go drives it:
//
//	stage Inactive:            SetLabel(label); SetState(LedgerDownload)
//	stage LedgerDownload:      ResetStagingBalances(true); for every tar section, in stream order,
//	                           ProcessStagingBalances(name, bytes) (catchup/ledgerFetcher.go loop incl. its
//	                           size checks); BuildMerkleTrie; SetState(LatestBlockDownload)
//	stage LatestBlockDownload: GetCatchupBlockRound; VerifyCatchpoint(block R); StoreBalancesRound;
//	                           StoreFirstBlock; SetState(BlocksDownload)
//	stage BlocksDownload:      EnsureFirstBlock; StoreBlock for R-1 .. R-lookback, lookback =
//	                           max(MaxTxnLife+DeeperBlockHeaderHistory+CatchpointLookback, MaxBalLookback)
//	                           capped at R-1, each checked against its successor's Branch; SetState(Switch)
//	stage Switch:              CompleteCatchup (= FinishBlocks(true) + finishBalances + reloadLedger);
//	                           SetState(Inactive)
//
// What the file represents (pinned from the code): the staged balances, resources, kvs and the
// online-account history are the producer's tracker state as of round R-CatchpointLookback
// (CatchpointFileHeader.BalancesRound; the consumer does not trust the header and recomputes it in
// StoreBalancesRound), the label additionally binds block R's hash. CompleteCatchup installs the
// staged tables as tracker round R-CatchpointLookback and the staged blocks R-lookback..R, then
// reloadLedger replays blocks R-CatchpointLookback+1..R through the trackers: the consumer reports
// Latest() == R, LatestTrackerCommitted() == R-CatchpointLookback and serves lookups for every round
// in between. The reference compared against is therefore s.states[R-CatchpointLookback .. R].
//
// The consumer's own GetLastCatchpointLabel() stays "" after a restore (the label is only kept as
// catchup state and cleared by finishBalances); "label equal" is judged as (a) the label the
// consumer verified is the producer's and (b) a restored consumer that goes on following the
// producer's blocks generates the producer's labels for later catchpoint rounds.

const (
	cpSeedXfer  = 0xC16
	cpZeroQSeed = 0x9e3779b97f4a7c15 // AfterBlock's qseed when the step.q decision is 0: benign transfer
)

func init() {
	registerObserver([]string{"C15", "C16"}, func(s *Sim) Observer { return newCpObs(s) })
	tweak := func(c *Config, draw func(string, int, int) int) {
		c.CatchpointInterval = uint64(draw("cfg.cpinterval", 4, 8))
		if c.Rounds < 48 {
			c.Rounds = 48
		}
		// the producer's LRU caches are not the subject here (C08 is); every (re)open with them on costs ~0.5 s
		c.DisableLRU = true
	}
	cfgTweaks["C15"], cfgTweaks["C16"] = tweak, tweak
	propBias["C15"], propBias["C16"] = "cpboxes", "cpboxes"
	// more applications, funded application accounts and application calls (1/6 of which create boxes
	// with names from boxNames: "a", "ab", "abc", "a\x00", ...) at the expense of half the asset traffic
	kindRemap["cpboxes"] = func(g *Gen, kind int) int {
		napps := 0
		for _, k := range g.st.sortedCreatKeys() {
			if k.Type == basics.AppCreatable {
				napps++
			}
		}
		switch {
		case napps == 0 && kind%3 == 0:
			return 66 // create an application early
		case kind >= 32 && kind < 64 && kind%2 == 0:
			if kind%8 == 0 {
				return 74 // fund an application account (boxes need min balance)
			}
			return 80 // application call
		case kind >= 98:
			return 80
		}
		return kind
	}
}

type cpConsumer struct {
	id     int
	dir    string
	inc    int
	led    *ledger.Ledger
	cfg    config.Local
	next   basics.Round // follower: next block to feed
	from   basics.Round // follower: catchpoint round it was restored from
	labels map[basics.Round]string
}

type cpObs struct {
	NopObserver
	seen     map[string]bool          // producer labels already handled
	labels   map[basics.Round]string  // producer label per catchpoint round
	files    map[basics.Round]*cpFile // producer files read so far
	rounds   []basics.Round           // catchpoint rounds with a file, ascending
	nCons    int
	follower *cpConsumer
	tamperC  *cpConsumer // C15: one consumer re-used for all tamper attempts of the run (ResetStagingBalances between attempts, like the node's download retries)
	judged   map[string]bool
	demoed   map[string]bool
}

func newCpObs(s *Sim) *cpObs {
	s.statInit("cp.label_seen", "cp.file_read", "cp.file_missing", "cp.file_has_kvs", "cp.file_has_online_rows",
		"c16.transfer", "c16.transfer_clean", "c16.transfer_faulted", "c16.completed", "c16.restore_compared", "c16.rejected", "c16.neutral_fault_equal",
		"c16.rechunked", "c16.split_account_chunks", "c16.prefed_consumer", "c16.crash_fired", "c16.restart_fired", "c16.crash_mid_switch",
		"c16.progress_blocks_fed", "c16.follower_label_compared", "c16.after_reject_abort_checked", "c16.after_reject_retry_ok",
		"c15.control_verified", "c15.tamper_attempted", "c15.tamper_rejected", "c15.tamper_neutral", "c15.kv-boundary-shift.attempted", "c15.kv-boundary-shift.passed")
	for i := 1; i < cpFaultKinds; i++ {
		s.statInit("c16.fault." + cpFaultNames[i])
	}
	return &cpObs{seen: map[string]bool{}, labels: map[basics.Round]string{}, files: map[basics.Round]*cpFile{}, judged: map[string]bool{}, demoed: map[string]bool{}}
}

func (o *cpObs) Nontrivial(s *Sim) bool {
	if s.cfg.Prop == "C15" {
		return len(o.judged) >= 3
	}
	return s.stats["c16.restore_compared"] >= 1 && s.stats["c16.rejected"]+s.stats["c16.neutral_fault_equal"] >= 1
}

// ---------------------------------------------------------------------------------------------
// consumer life cycle

func (o *cpObs) openConsumer(s *Sim, rg *rand.Rand) (*cpConsumer, error) {
	o.nCons++
	c := &cpConsumer{id: o.nCons, cfg: s.lcfg, labels: map[basics.Round]string{}}
	c.cfg.MaxAcctLookback = uint64(1 + rg.IntN(8))
	// every ledger (re)open with the LRU caches on allocates ~100k-entry pending buffers (0.3 s of page
	// clearing): most consumers run without them so that a quick run affords a transfer per catchpoint
	c.cfg.DisableLedgerLRUCache = rg.IntN(8) != 0
	c.cfg.VerifiedTranscationsCacheSize, c.cfg.TxPoolSize = 200, 200 // (the verified-transaction cache is pre-sized too; not under test here)
	c.dir = filepath.Join(s.dir, fmt.Sprintf("cpc%d-0", c.id))
	if err := os.MkdirAll(c.dir, 0o755); err != nil {
		return nil, err
	}
	l, err := ledger.OpenLedger(s.logger(), filepath.Join(c.dir, "ledger"), false, s.init, c.cfg)
	if err != nil {
		return nil, err
	}
	synctest.Wait()
	c.led = l
	c.next = 1
	return c, nil
}

func (c *cpConsumer) close() {
	if c.led != nil {
		c.led.Close()
		synctest.Wait()
		c.led = nil
	}
}

// crash: durable image = copy of the consumer's files at this quiescent instant; the running
// instance is abandoned; a new ledger is opened over the image.
func (c *cpConsumer) crash(s *Sim) error {
	c.inc++
	next := filepath.Join(s.dir, fmt.Sprintf("cpc%d-%d", c.id, c.inc))
	if err := copyDir(c.dir, next); err != nil {
		s.harness = "consumer copy: " + err.Error()
		return err
	}
	old := c.led
	c.dir = next
	go old.Close()
	synctest.Wait()
	l, err := ledger.OpenLedger(s.logger(), filepath.Join(c.dir, "ledger"), false, s.init, c.cfg)
	if err != nil {
		c.led = nil
		return err
	}
	synctest.Wait()
	c.led = l
	return nil
}

func (c *cpConsumer) restart(s *Sim) error {
	c.led.Close()
	synctest.Wait()
	l, err := ledger.OpenLedger(s.logger(), filepath.Join(c.dir, "ledger"), false, s.init, c.cfg)
	if err != nil {
		c.led = nil
		return err
	}
	synctest.Wait()
	c.led = l
	return nil
}

// ---------------------------------------------------------------------------------------------
// the transfer state machine (mirror of catchup/catchpointService.go + ledgerFetcher.go)

type cpPlan struct {
	crashAt, restartAt int  // operation index before which the consumer crashes / is restarted cleanly (-1 = never)
	midSwitch          bool // crash between the two storage transactions of CompleteCatchup
}

var errCpResume = errors.New("consumer was restarted: resume from the persisted catchup state")

// cpRejected: the transfer ended in an error of the accessor / fetcher (the node would retry another peer or abort).
type cpRejected struct {
	stage string
	err   error
}

func (r *cpRejected) Error() string { return r.stage + ": " + r.err.Error() }

type cpXfer struct {
	o      *cpObs
	s      *Sim
	c      *cpConsumer
	label  string
	stream []byte
	plan   cpPlan
	acc    ledger.CatchpointCatchupAccessor
	stage  ledger.CatchpointCatchupState
	op     int
	done   bool
	// verifyOnly stops after VerifyCatchpoint (C15 attempts); verified reports its verdict
	verifyOnly  bool
	verified    bool
	beforeTrie  func() // C15: called after the last section was staged, before BuildMerkleTrie
	crashes     int
	midSwitched bool
}

var cpCtx = context.Background()

func (x *cpXfer) tick(what string) error {
	i := x.op
	x.op++
	// Real time passes between two operations of a node. This matters: ResetCatchpointStagingBalances names
	// the staging tables' indexes after time.Now().UnixNano() and creates them IF NOT EXISTS; with a frozen
	// clock the name collides with the index the consumer's own accountbase got when it was opened in the
	// same instant, the unique index on catchpointbalances(address) is silently not created and split
	// accounts are staged twice (seen as a failing clean transfer before this sleep was added).
	time.Sleep(time.Millisecond)
	synctest.Wait()
	if i == x.plan.crashAt {
		x.s.log.Add("    consumer %d CRASH before op %d (%s), stage %d", x.c.id, i, what, x.stage)
		x.s.stat("c16.crash_fired", 1)
		x.crashes++
		if err := x.c.crash(x.s); err != nil {
			return &cpFatal{fmt.Errorf("OpenLedger on the consumer's crash image (before %s, stage %d) failed: %w", what, x.stage, err)}
		}
		return errCpResume
	}
	if i == x.plan.restartAt {
		x.s.log.Add("    consumer %d clean restart before op %d (%s), stage %d", x.c.id, i, what, x.stage)
		x.s.stat("c16.restart_fired", 1)
		if err := x.c.restart(x.s); err != nil {
			return &cpFatal{fmt.Errorf("OpenLedger after a clean restart of the consumer (before %s, stage %d) failed: %w", what, x.stage, err)}
		}
		return errCpResume
	}
	return nil
}

func (x *cpXfer) setStage(st ledger.CatchpointCatchupState) error {
	if err := x.acc.SetState(cpCtx, st); err != nil {
		return err
	}
	x.stage = st
	return nil
}

// run drives the transfer to completion, rejection (*cpRejected) or another error.
func (x *cpXfer) run() error {
	x.acc = ledger.MakeCatchpointCatchupAccessor(x.c.led, x.s.logger())
	x.stage = ledger.CatchpointCatchupStateInactive
	for guard := 0; guard < 64; guard++ {
		var err error
		switch x.stage {
		case ledger.CatchpointCatchupStateInactive:
			err = x.stageInactive()
		case ledger.CatchpointCatchupStateLedgerDownload:
			err = x.stageLedgerDownload()
		case ledger.CatchpointCatchupStateLatestBlockDownload:
			err = x.stageLatestBlock()
		case ledger.CatchpointCatchupStateBlocksDownload:
			err = x.stageBlocks()
		case ledger.CatchpointCatchupStateSwitch:
			err = x.stageSwitch()
		default:
			return fmt.Errorf("unexpected persisted catchup stage %d", x.stage)
		}
		if err == errCpResume {
			// node start-up: node.go reads the accessor's state; != Inactive => MakeResumedCatchpointCatchupService
			// (loadStateVariables: label + stage from disk); Inactive => an ordinary node, the operator issues the
			// catchup again unless it had completed.
			x.acc = ledger.MakeCatchpointCatchupAccessor(x.c.led, x.s.logger())
			st, e := x.acc.GetState(cpCtx)
			if e != nil {
				return fmt.Errorf("GetState after restart: %w", e)
			}
			x.stage = st
			if st != ledger.CatchpointCatchupStateInactive {
				lbl, e := x.acc.GetLabel(cpCtx)
				if e != nil {
					return fmt.Errorf("GetLabel after restart: %w", e)
				}
				if lbl != x.label {
					return fmt.Errorf("after restart in stage %d the persisted catchup label is %q, was %q", st, lbl, x.label)
				}
			}
			x.s.log.Add("    consumer %d resumes in stage %d (done=%v)", x.c.id, st, x.done)
			if x.done {
				return nil
			}
			continue
		}
		if err != nil {
			return err
		}
		if x.done || (x.verifyOnly && x.verified) {
			return nil
		}
	}
	return errors.New("transfer state machine did not terminate")
}

func (x *cpXfer) stageInactive() error {
	if err := x.tick("SetLabel"); err != nil {
		return err
	}
	if err := x.acc.SetLabel(cpCtx, x.label); err != nil {
		return fmt.Errorf("SetLabel: %w", err)
	}
	if err := x.tick("SetState(LedgerDownload)"); err != nil {
		return err
	}
	return x.setStage(ledger.CatchpointCatchupStateLedgerDownload)
}

func (x *cpXfer) stageLedgerDownload() error {
	if err := x.tick("ResetStagingBalances"); err != nil {
		return err
	}
	if err := x.acc.ResetStagingBalances(cpCtx, true); err != nil {
		return fmt.Errorf("ResetStagingBalances(true): %w", err)
	}
	if err := cpFetch(x.stream, func(name string, data []byte, progress *ledger.CatchpointCatchupAccessorProgress) error {
		if err := x.tick("ProcessStagingBalances " + name); err != nil {
			return err
		}
		return x.acc.ProcessStagingBalances(cpCtx, name, data, progress)
	}); err != nil {
		var fatal *cpFatal
		if err == errCpResume || errors.As(err, &fatal) {
			return err
		}
		return &cpRejected{"download", err}
	}
	if x.beforeTrie != nil {
		x.beforeTrie()
	}
	if err := x.tick("BuildMerkleTrie"); err != nil {
		return err
	}
	if err := x.acc.BuildMerkleTrie(cpCtx, func(uint64, uint64) {}); err != nil {
		return &cpRejected{"build-trie", err}
	}
	if err := x.tick("SetState(LatestBlockDownload)"); err != nil {
		return err
	}
	return x.setStage(ledger.CatchpointCatchupStateLatestBlockDownload)
}

// cpFatal: the consumer could not be reopened after a crash / restart (never a "rejection").
type cpFatal struct{ error }

func (f *cpFatal) Unwrap() error { return f.error }

// cpFetch mirrors ledgerFetcher.getPeerLedger's loop over the tar stream.
func cpFetch(stream []byte, process func(name string, data []byte, progress *ledger.CatchpointCatchupAccessorProgress) error) error {
	var progress ledger.CatchpointCatchupAccessorProgress
	return cpTarLoop(stream, func(name string, size int64, read func([]byte) error) error {
		if size > cpMaxChunkSize || size < 1 {
			return fmt.Errorf("getPeerLedger received a tar header with data size of %d", size)
		}
		buf := make([]byte, size)
		if err := read(buf); err != nil {
			return err
		}
		return process(name, buf, &progress)
	})
}

func (x *cpXfer) stageLatestBlock() error {
	if err := x.tick("GetCatchupBlockRound"); err != nil {
		return err
	}
	rnd, err := x.acc.GetCatchupBlockRound(cpCtx)
	if err != nil {
		return fmt.Errorf("GetCatchupBlockRound: %w", err)
	}
	blk, ok := x.s.blocks[rnd]
	if !ok || rnd == 0 {
		return &cpRejected{"latest-block", fmt.Errorf("no peer has a block for round %d named by the staged file header", rnd)}
	}
	if err := x.tick("VerifyCatchpoint"); err != nil {
		return err
	}
	if err := x.acc.VerifyCatchpoint(cpCtx, &blk); err != nil {
		return &cpRejected{"verify", err}
	}
	x.verified = true
	if x.verifyOnly {
		return nil
	}
	if err := x.tick("StoreBalancesRound"); err != nil {
		return err
	}
	if err := x.acc.StoreBalancesRound(cpCtx, &blk); err != nil {
		return fmt.Errorf("StoreBalancesRound: %w", err)
	}
	if err := x.tick("StoreFirstBlock"); err != nil {
		return err
	}
	if err := x.acc.StoreFirstBlock(cpCtx, &blk, &agreement.Certificate{}); err != nil {
		return fmt.Errorf("StoreFirstBlock: %w", err)
	}
	if err := x.tick("SetState(BlocksDownload)"); err != nil {
		return err
	}
	return x.setStage(ledger.CatchpointCatchupStateBlocksDownload)
}

// cpBlocksLookback is processStageBlocksDownload's lookback (state proofs are off in SimProto, so
// lookbackForStateproofsSupport is 0).
func cpBlocksLookback(top *bookkeeping.Block) uint64 {
	proto := config.Consensus[top.CurrentProtocol]
	lookback := max(proto.MaxTxnLife+proto.DeeperBlockHeaderHistory+proto.CatchpointLookback, proto.MaxBalLookback)
	if lookback >= uint64(top.Round()) {
		lookback = uint64(top.Round() - 1)
	}
	return lookback
}

func (x *cpXfer) stageBlocks() error {
	if err := x.tick("EnsureFirstBlock"); err != nil {
		return err
	}
	top, err := x.acc.EnsureFirstBlock(cpCtx)
	if err != nil {
		return fmt.Errorf("EnsureFirstBlock: %w", err)
	}
	lookback := cpBlocksLookback(&top)
	prev := top
	for fetched := uint64(1); fetched <= lookback; fetched++ {
		rnd := top.Round() - basics.Round(fetched)
		var blk bookkeeping.Block
		var cert agreement.Certificate
		if lb, lc, e := x.acc.Ledger().BlockCert(rnd); e == nil { // "the current ledger might have this block"
			blk, cert = lb, lc
		} else {
			b, ok := x.s.blocks[rnd]
			if !ok {
				return fmt.Errorf("harness: producer block %d missing", rnd)
			}
			blk = b
		}
		if prev.BlockHeader.Branch != blk.Hash() {
			return fmt.Errorf("block %d does not match its successor's Branch", rnd)
		}
		if err := x.tick(fmt.Sprintf("StoreBlock %d", rnd)); err != nil {
			return err
		}
		if err := x.acc.StoreBlock(cpCtx, &blk, &cert); err != nil {
			return fmt.Errorf("StoreBlock(%d): %w", rnd, err)
		}
		prev = blk
	}
	if err := x.tick("SetState(Switch)"); err != nil {
		return err
	}
	return x.setStage(ledger.CatchpointCatchupStateSwitch)
}

func (x *cpXfer) stageSwitch() error {
	if err := x.tick("CompleteCatchup"); err != nil {
		return err
	}
	if x.plan.midSwitch && x.crashes == 0 {
		// CompleteCatchup = FinishBlocks(true) [block DB transaction]; finishBalances [tracker DB
		// transaction]; reloadLedger. A crash between the two transactions leaves exactly the state
		// produced by calling the accessor's own FinishBlocks(true) and stopping there.
		x.plan.midSwitch = false
		if err := x.acc.FinishBlocks(cpCtx, true); err != nil {
			return fmt.Errorf("FinishBlocks(true): %w", err)
		}
		x.s.stat("c16.crash_mid_switch", 1)
		x.crashes++
		x.midSwitched = true
		x.s.log.Add("    consumer %d CRASH inside CompleteCatchup (blocks switched, balances not)", x.c.id)
		if err := x.c.crash(x.s); err != nil {
			return fmt.Errorf("%w: OpenLedger on the image of a crash between CompleteCatchup's block-DB and tracker-DB transactions failed: %v", errCpMidSwitch, err)
		}
		return errCpResume
	}
	if err := x.acc.CompleteCatchup(cpCtx); err != nil {
		if errors.Is(err, context.Canceled) {
			return err
		}
		return fmt.Errorf("CompleteCatchup: %w", err)
	}
	synctest.Wait()
	x.done = true
	if err := x.tick("SetState(Inactive)"); err != nil {
		return err
	}
	return x.setStage(ledger.CatchpointCatchupStateInactive)
}

var errCpMidSwitch = errors.New("mid-switch")

// ---------------------------------------------------------------------------------------------
// producer side

func (o *cpObs) noteProducer(s *Sim) *cpFile {
	lbl := s.led.GetLastCatchpointLabel()
	if lbl == "" || o.seen[lbl] {
		return nil
	}
	o.seen[lbl] = true
	r, ok := parseLabel(lbl)
	if !ok {
		return nil
	}
	if old, dup := o.labels[r]; dup && old != lbl {
		// the same history must give the same label (C14's statement; reported there)
		s.violate("C14", "label-changed", "", fmt.Sprintf("producer reported two different labels for catchpoint round %d: %s then %s", r, old, lbl))
		return nil
	}
	o.labels[r] = lbl
	s.stat("cp.label_seen", 1)
	rc, err := s.led.GetCatchpointStream(r)
	if err != nil {
		var ne ledgercore.ErrNoEntry
		if errors.As(err, &ne) {
			s.stat("cp.file_missing", 1)
			s.log.Add("  producer label %s (no file)", lbl)
			return nil
		}
		s.harness = "GetCatchpointStream: " + err.Error()
		return nil
	}
	f, err := readCatchpointFile(rc)
	rc.Close()
	if err != nil {
		s.violate("C16", "producer-file-unreadable", "", fmt.Sprintf("catchpoint file of round %d served by the producer cannot be read: %v", r, err))
		return nil
	}
	if f.Label != lbl || f.Round != r {
		s.violate("C16", "producer-file-header", "", fmt.Sprintf("catchpoint file served for round %d (label %s) names round %d label %s in its header", r, lbl, f.Round, f.Label))
		return nil
	}
	s.stat("cp.file_read", 1)
	for _, sec := range f.Sections {
		switch cpSectionKind(sec) {
		case "kvs":
			s.stat("cp.file_has_kvs", 1)
		case "onlineaccounts":
			s.stat("cp.file_has_online_rows", 1)
		}
	}
	o.files[r] = f
	o.rounds = append(o.rounds, r)
	s.log.Add("  producer label %s file: %d sections, %d bytes of tar", lbl, len(f.Sections), len(cpTar(f.Sections)))
	return f
}

func (o *cpObs) otherFile(f *cpFile, rg *rand.Rand) *cpFile {
	var c []basics.Round
	for _, r := range o.rounds {
		if r != f.Round {
			c = append(c, r)
		}
	}
	if len(c) == 0 {
		return nil
	}
	return o.files[c[rg.IntN(len(c))]]
}

func (o *cpObs) AfterBlock(s *Sim, qseed uint64) {
	rg := rand.New(rand.NewPCG(qseed, cpSeedXfer))
	benign := qseed == cpZeroQSeed
	f := o.noteProducer(s)
	if s.viol != nil || s.harness != "" {
		return
	}
	o.feedFollower(s)
	if f == nil || s.viol != nil || s.harness != "" {
		return
	}
	if _, ok := s.blocks[f.Round]; !ok || s.states[f.Round] == nil {
		return
	}
	if s.cfg.Prop == "C15" {
		o.tamperRound(s, f, rg, benign)
		return
	}
	o.transferRound(s, f, rg, benign)
}

func (o *cpObs) AfterReopen(s *Sim, why string) {
	// the producer lost un-acknowledged blocks: a follower that already holds them follows a history that no longer exists
	if fl := o.follower; fl != nil && fl.next > s.latest+1 {
		s.log.Add("  follower %d dropped: it holds block %d, the producer fell back to %d", fl.id, fl.next-1, s.latest)
		s.stat("c16.follower_dropped_after_producer_crash", 1)
		fl.close()
		o.follower = nil
	}
}

func (o *cpObs) Finish(s *Sim) {
	if o.follower != nil {
		o.follower.close()
		o.follower = nil
	}
	if o.tamperC != nil {
		o.tamperC.close()
		o.tamperC = nil
	}
}

// ---------------------------------------------------------------------------------------------
// C16: one transfer per new producer catchpoint

func (o *cpObs) transferRound(s *Sim, f *cpFile, rg *rand.Rand, benign bool) {
	R := f.Round
	secs := f.Sections
	desc := ""
	neutralOnly := true // only semantically neutral transformations applied so far
	// --- neutral re-chunking (what a writer with smaller chunk limits would produce)
	if !benign && rg.IntN(2) == 0 {
		lim := cpLimits{Accts: 1 + rg.IntN(5), Res: 1 + rg.IntN(3), Kvs: 1 + rg.IntN(3), Online: 1 + rg.IntN(6), Params: 1 + rg.IntN(6)}
		rs, err := cpRechunk(secs, lim)
		if err != nil {
			s.harness = "rechunk: " + err.Error()
			return
		}
		if c, err := cpDecodeContent(rs); err == nil && c.Partial > 0 {
			s.stat("c16.split_account_chunks", 1)
		}
		secs = rs
		s.stat("c16.rechunked", 1)
		desc += fmt.Sprintf(" rechunk%+v->%d sections", lim, len(secs))
	}
	// --- chunk stream fault
	fault := cpFaultNone
	fdesc := ""
	if !benign && rg.IntN(2) == 0 {
		fault = 1 + rg.IntN(cpFaultKinds-1)
	}
	stream := []byte(nil)
	switch fault {
	case cpFaultDrop, cpFaultDup, cpFaultReorder, cpFaultForeign:
		secs, fdesc = applySectionFault(fault, secs, o.otherFile(f, rg), rg)
		stream = cpTar(secs)
	case cpFaultFlip, cpFaultTruncate:
		stream, fdesc = applyByteFault(fault, cpTar(secs), secs, rg)
	case cpFaultSemantic:
		var cls string
		secs, cls, fdesc = cpSemanticTamper(s, secs, rg, func(class string) bool { return !kernelKnownC15(class) })
		if fdesc != "" {
			fdesc = cls + ": " + fdesc
		}
		stream = cpTar(secs)
	default:
		stream = cpTar(secs)
	}
	if fdesc == "" {
		fault = cpFaultNone
	} else {
		neutralOnly = false
		s.stat("c16.fault."+cpFaultNames[fault], 1)
		desc += " fault[" + cpFaultNames[fault] + ": " + fdesc + "]"
	}
	// --- consumer
	c, err := o.openConsumer(s, rg)
	if err != nil {
		s.harness = "consumer open: " + err.Error()
		return
	}
	keep := false
	defer func() {
		if !keep {
			c.close()
		}
	}()
	if !benign && rg.IntN(2) == 0 && R > 1 {
		// a consumer that already followed the chain for a while: its own tables must be replaced
		k := 1 + rg.IntN(min(int(R)-1, 24))
		for i := 0; i < k; i++ {
			if err := c.led.AddBlock(s.blocks[c.next], agreement.Certificate{}); err != nil {
				s.violate("C20", "replica-rejects-block", "", fmt.Sprintf("fresh consumer rejects block %d that the producer accepted: %v", c.next, err))
				return
			}
			c.next++
			synctest.Wait() // one stimulus at a time: how far a tracker commit reaches depends on how many blocks it sees queued
		}
		if rg.IntN(2) == 0 {
			c.led.WaitForCommit(c.next - 1)
			synctest.Wait()
		}
		s.stat("c16.prefed_consumer", 1)
		desc += fmt.Sprintf(" prefed=%d", k)
	}
	blk := s.blocks[R]
	nOps := 2 + 1 + len(secs) + 2 + 5 + 1 + int(cpBlocksLookback(&blk)) + 1 + 2
	plan := cpPlan{crashAt: -1, restartAt: -1}
	if !benign && rg.IntN(2) == 0 {
		if rg.IntN(6) == 0 {
			plan.midSwitch = true
			desc += " crash=mid-switch"
		} else {
			plan.crashAt = rg.IntN(nOps)
			desc += fmt.Sprintf(" crashAt=%d", plan.crashAt)
		}
	}
	if !benign && rg.IntN(2) == 0 {
		plan.restartAt = rg.IntN(nOps)
		desc += fmt.Sprintf(" restartAt=%d", plan.restartAt)
	}
	s.stat("c16.transfer", 1)
	if neutralOnly {
		s.stat("c16.transfer_clean", 1)
	} else {
		s.stat("c16.transfer_faulted", 1)
	}
	s.log.Add("  transfer R=%d to consumer %d:%s", R, c.id, desc)
	x := &cpXfer{o: o, s: s, c: c, label: f.Label, stream: stream, plan: plan}
	err = x.run()
	if s.harness != "" {
		return
	}
	var rej *cpRejected
	switch {
	case err == nil:
		s.stat("c16.completed", 1)
		s.log.Add("    completed after %d ops", x.op)
		if !o.compareRestored(s, c, R, desc) {
			return
		}
		if !neutralOnly {
			// the fault did not change what the file says (duplicate skipped, flip in padding, reordering of independent chunks...)
			s.stat("c16.neutral_fault_equal", 1)
			s.stat("c16.neutral."+cpFaultNames[fault], 1)
		}
		if !o.progress(s, c, R) {
			return
		}
		if o.follower == nil && rg.IntN(2) == 0 {
			o.follower, keep = c, true
			c.from = R
			s.log.Add("    consumer %d keeps following the producer", c.id)
		}
	case errors.As(err, &rej):
		s.stat("c16.rejected", 1)
		s.stat("c16.rejected_at."+rej.stage, 1)
		s.log.Add("    rejected at %s: %s", rej.stage, cpShort(rej.err.Error()))
		if neutralOnly {
			if o.cleanRejectKnown(s, f, rej) {
				return
			}
			s.violate("C16", "clean-transfer-rejected", cpCleanRejectKey(f, rej), fmt.Sprintf("catchpoint %s: an untampered transfer (%s) was rejected at %s: %v%s", f.Label, desc, rej.stage, rej.err, cpCollisionNote(f)))
			return
		}
		if c.led == nil {
			return
		}
		o.afterReject(s, c, f, x, rg)
	default:
		key := "transfer-error"
		if errors.Is(err, errCpMidSwitch) || x.midSwitched {
			key = "crash-mid-switch"
		} else if x.crashes > 0 {
			key = "after-crash"
		}
		s.log.Add("    transfer error: %s", cpShort(err.Error()))
		if key == "crash-mid-switch" && cpIsKnown("C16", key) {
			s.known = append(s.known, kernel.Violation{Property: "C16", Oracle: "clean-transfer-failed", Key: key, Step: s.step,
				Detail: fmt.Sprintf("catchpoint %s: transfer (%s): %v", f.Label, desc, err)})
			s.stat("known.crash-mid-switch", 1)
			return
		}
		if neutralOnly {
			s.violate("C16", "clean-transfer-failed", key, fmt.Sprintf("catchpoint %s: an untampered transfer (%s) failed in stage %d after %d operations: %v%s", f.Label, desc, x.stage, x.op, err, o.stagingDiag(s, f, secs, rg)))
			return
		}
		// a tampered transfer may fail anywhere before the switch; it must not fail after adopting
		if x.done {
			s.violate("C16", "failed-after-adoption", key, fmt.Sprintf("catchpoint %s: tampered transfer (%s) completed CompleteCatchup and then failed: %v", f.Label, desc, err))
			return
		}
		s.stat("c16.rejected", 1)
		s.stat("c16.rejected_at.other", 1)
	}
}

// stagingDiag (triage aid for a failed clean transfer): stages the producer's file and the transformed
// sections on a scratch consumer and reports how the staged tables differ.
func (o *cpObs) stagingDiag(s *Sim, f *cpFile, secs []cpSection, rg *rand.Rand) string {
	c, err := o.openConsumer(s, rg)
	if err != nil {
		return ""
	}
	defer c.close()
	d0, _, _, e0 := o.stageAndVerify(s, c, f.Label, cpTar(f.Sections))
	d1, ok1, _, e1 := o.stageAndVerify(s, c, f.Label, cpTar(secs))
	if e0 != nil || e1 != nil || d0 == nil || d1 == nil {
		return fmt.Sprintf(" [staging diagnosis unavailable: %v %v]", e0, e1)
	}
	n, first := cpDumpDiff(d0, d1)
	return fmt.Sprintf(" [diagnosis: staged tables of the transferred sections differ from those of the producer's file in %d row(s): %s; VerifyCatchpoint accepts them: %v]", n, first, ok1)
}

// A producer state with two kv pairs whose key||value concatenations coincide (e.g. box "a" with five zero
// bytes and box "a\x00" with four, same application) has ONE trie leaf for both (KvHashBuilderV6, F6):
// BuildMerkleTrie rejects the producer's own file ("same account more than once"). Classified apart.
func cpCleanRejectKey(f *cpFile, rej *cpRejected) string {
	if rej.stage == "build-trie" && cpKvLeafCollision(f.Sections) != "" {
		return "kv-leaf-collision"
	}
	// Second face of the same defect: once two colliding pairs have existed, deleting ONE of them removes the
	// shared leaf from the producer's trie; the surviving pair is in the file but no longer in the producer's
	// root, so the label recomputed by the consumer differs ("catchpoint hash mismatch" at verify).
	if rej.stage == "verify" && curSim != nil {
		if _, what := curSim.kvCollisionBefore(f.Round); what != "" {
			return "kv-leaf-collision"
		}
	}
	return rej.stage
}

func cpCollisionNote(f *cpFile) string {
	if c := cpKvLeafCollision(f.Sections); c != "" {
		return " [the producer's own state holds colliding kv pairs: " + c + "]"
	}
	if curSim != nil {
		if r, what := curSim.kvCollisionBefore(f.Round); what != "" {
			return fmt.Sprintf(" [the producer's state of round %d held colliding kv pairs: %s]", r, what)
		}
	}
	return ""
}

func (o *cpObs) cleanRejectKnown(s *Sim, f *cpFile, rej *cpRejected) bool {
	key := cpCleanRejectKey(f, rej)
	if key != "kv-leaf-collision" || !cpIsKnown("C16", key) {
		return false
	}
	s.known = append(s.known, kernel.Violation{Property: "C16", Oracle: "clean-transfer-rejected", Key: key, Step: s.step,
		Detail: fmt.Sprintf("catchpoint %s: the producer's untampered file is rejected at %s: %v%s", f.Label, rej.stage, rej.err, cpCollisionNote(f))})
	s.stat("known.kv-leaf-collision", 1)
	return true
}

func cpShort(m string) string {
	if len(m) > 160 {
		return m[:160] + "..."
	}
	return m
}

func kernelKnownC15(class string) bool { return kernel.KnownKey("C15", class) }

var cpReplayKeyOnce sync.Once
var cpReplayKeyVal string

// cpIsKnown: (prop, key) is an OPEN known finding, recorded and skipped - except when this process replays
// a file whose expected violation is exactly that class (./check <ID> --replay findings/.../replay.json):
// the demonstration of a known finding must still print it.
func cpIsKnown(prop, key string) bool {
	cpReplayKeyOnce.Do(func() {
		if f := os.Getenv("VERIF_REPLAY"); f != "" {
			if b, err := os.ReadFile(f); err == nil {
				var r kernel.Replay
				if json.Unmarshal(b, &r) == nil {
					cpReplayKeyVal = r.Violation.Property + "/" + r.Violation.Key
				}
			}
		}
	})
	return kernel.KnownKey(prop, key) && cpReplayKeyVal != prop+"/"+key
}

// afterReject: what the node does next. Either it gives up (abort: ResetStagingBalances(false)) and must
// then still be the node it was before, or it downloads again from an honest peer and must succeed.
func (o *cpObs) afterReject(s *Sim, c *cpConsumer, f *cpFile, x *cpXfer, rg *rand.Rand) {
	R := f.Round
	if rg.IntN(2) == 0 {
		if err := x.acc.ResetStagingBalances(cpCtx, false); err != nil {
			s.violate("C16", "abort-failed", "", fmt.Sprintf("catchpoint %s: abort (ResetStagingBalances(false)) after a rejected transfer failed: %v", f.Label, err))
			return
		}
		st, _ := x.acc.GetState(cpCtx)
		lbl, _ := x.acc.GetLabel(cpCtx)
		if st != ledger.CatchpointCatchupStateInactive || lbl != "" {
			s.violate("C16", "abort-left-state", "", fmt.Sprintf("catchpoint %s: after abort the persisted catchup state is %d label %q", f.Label, st, lbl))
			return
		}
		// still the node it was: at its own round, serving its own history, accepting its next block
		if got := c.led.Latest(); got != c.next-1 {
			s.violate("C16", "rejected-transfer-changed-ledger", "latest", fmt.Sprintf("catchpoint %s: after a rejected transfer and abort the consumer is at round %d, it was at %d", f.Label, got, c.next-1))
			return
		}
		if !o.withLedger(s, c.led, "C16", "rejected-transfer-changed-ledger", func() { s.fullCheck("cp-after-abort") }) {
			return
		}
		if c.next <= s.latest {
			if err := c.led.AddBlock(s.blocks[c.next], agreement.Certificate{}); err != nil {
				s.violate("C16", "rejected-transfer-changed-ledger", "next-block", fmt.Sprintf("catchpoint %s: after a rejected transfer and abort the consumer rejects its next block %d: %v", f.Label, c.next, err))
				return
			}
			c.next++
			synctest.Wait()
		}
		s.stat("c16.after_reject_abort_checked", 1)
		return
	}
	// retry from an honest peer; the node re-uses its accessor for download retries, a restarted node has a new one
	x2 := &cpXfer{o: o, s: s, c: c, label: f.Label, stream: cpTar(f.Sections), plan: cpPlan{crashAt: -1, restartAt: -1}}
	sameAcc := x.stage == ledger.CatchpointCatchupStateLedgerDownload && x.crashes == 0 && rg.IntN(3) == 0
	var err error
	if sameAcc {
		// same accessor object, as in processStageLedgerDownload's retry loop
		x2.acc, x2.stage = x.acc, ledger.CatchpointCatchupStateLedgerDownload
		err = x2.resumeLoop()
		if err != nil {
			// observation, not judged: in-memory accessor state survives a failed download attempt
			s.stat("c16.retry_same_accessor_failed", 1)
			s.log.Add("    retry on the SAME accessor failed: %s", cpShort(err.Error()))
			return
		}
		s.stat("c16.retry_same_accessor_ok", 1)
	} else {
		err = x2.run()
	}
	if err != nil {
		s.violate("C16", "retry-after-reject-failed", "", fmt.Sprintf("catchpoint %s: after a rejected transfer a clean download on the same node failed in stage %d: %v", f.Label, x2.stage, err))
		return
	}
	if !o.compareRestored(s, c, R, "retry after rejected transfer") {
		return
	}
	s.stat("c16.after_reject_retry_ok", 1)
	o.progress(s, c, R)
}

// resumeLoop continues the stage loop with the accessor and stage already set.
func (x *cpXfer) resumeLoop() error {
	for guard := 0; guard < 16; guard++ {
		var err error
		switch x.stage {
		case ledger.CatchpointCatchupStateLedgerDownload:
			err = x.stageLedgerDownload()
		case ledger.CatchpointCatchupStateLatestBlockDownload:
			err = x.stageLatestBlock()
		case ledger.CatchpointCatchupStateBlocksDownload:
			err = x.stageBlocks()
		case ledger.CatchpointCatchupStateSwitch:
			err = x.stageSwitch()
		default:
			return fmt.Errorf("unexpected stage %d", x.stage)
		}
		if err != nil {
			return err
		}
		if x.done {
			return nil
		}
	}
	return errors.New("no progress")
}

// withLedger runs a generic comparison (fullCheck & co) against another ledger and re-attributes a
// violation it raises to (prop, oracle) with the generic oracle id as Key.
func (o *cpObs) withLedger(s *Sim, l *ledger.Ledger, prop, oracle string, f func()) bool {
	if s.viol != nil {
		return false
	}
	saved := s.led
	s.led = l
	f()
	s.led = saved
	if s.viol != nil {
		s.viol.Key = s.viol.Property + "/" + s.viol.Oracle
		s.viol.Property, s.viol.Oracle = prop, oracle
		return false
	}
	return true
}

// compareRestored is the C16 equality oracle for a consumer that completed CompleteCatchup for round R.
func (o *cpObs) compareRestored(s *Sim, c *cpConsumer, R basics.Round, how string) bool {
	p := s.states[R].proto()
	lb := basics.Round(p.CatchpointLookback)
	if lb == 0 {
		lb = basics.Round(p.MaxBalLookback)
	}
	base := R.SubSaturate(lb)
	if got := c.led.Latest(); got != R {
		s.violate("C16", "restored-round", "", fmt.Sprintf("after CompleteCatchup for catchpoint round %d (%s) the consumer's Latest() is %d", R, how, got))
		return false
	}
	if got := c.led.LatestTrackerCommitted(); got > R || got < base {
		s.violate("C16", "restored-round", "", fmt.Sprintf("after CompleteCatchup for catchpoint round %d (%s) the consumer's tracker round is %d, expected within [%d,%d]", R, how, got, base, R))
		return false
	}
	// blocks it must serve
	blk := s.blocks[R]
	for r := R - basics.Round(cpBlocksLookback(&blk)); r <= R; r++ {
		b, err := c.led.Block(r)
		if err != nil || b.Digest() != s.blocks[r].Digest() {
			s.violate("C16", "restored-block-differs", "", fmt.Sprintf("restored consumer (catchpoint %d, %s): block %d unavailable or different: %v", R, how, r, err))
			return false
		}
	}
	ok := o.withLedger(s, c.led, "C16", "restored-state-differs", func() {
		s.fullCheck("cp-restored")
		// every round the restored ledger serves, not only the two ends
		lo, hi := s.served()
		for r := lo + 1; r < hi && s.viol == nil; r++ {
			st := s.states[r]
			if st == nil {
				continue
			}
			for _, a := range st.sortedAddrs() {
				s.checkAccount(r, a, "cp-restored-mid")
			}
			for _, k := range st.sortedKvKeys() {
				s.checkKv(r, k, "cp-restored-mid")
			}
			s.checkTotals(r, "cp-restored-mid")
		}
	})
	if !ok {
		s.viol.Detail = fmt.Sprintf("consumer restored from catchpoint round %d (%s): ", R, how) + s.viol.Detail
		return false
	}
	if !o.compareOnline(s, c, R, base, how) {
		return false
	}
	if d := cpExtraneous(s, c); d != "" {
		s.violate("C16", "restored-state-differs", "extraneous-entries", fmt.Sprintf("consumer restored from catchpoint round %d (%s): %s", R, how, d))
		return false
	}
	c.next = R + 1
	s.stat("c16.restore_compared", 1)
	return true
}

// cpOnlineProjection: the online view of an account at a reference state (what agreement is told).
func cpOnlineProjection(st *State, addr basics.Address) basics.OnlineAccountData {
	ad, ok := st.Accts[addr]
	if !ok || ad.Status != basics.Online {
		return basics.OnlineAccountData{}
	}
	p := st.proto()
	money, _, _ := basics.WithUpdatedRewards(p.RewardUnit, ad.Status, ad.MicroAlgos, ad.RewardedMicroAlgos, ad.RewardsBase, st.Hdr.RewardsLevel)
	return basics.OnlineAccountData{MicroAlgosWithRewards: money, VotingData: ad.VotingData, IncentiveEligible: ad.IncentiveEligible, LastProposed: ad.LastProposed, LastHeartbeat: ad.LastHeartbeat}
}

func cpCirculation(st *State, voteRnd basics.Round) uint64 {
	p := st.proto()
	var total, expired uint64
	for _, a := range st.sortedAddrs() {
		if st.Accts[a].Status != basics.Online {
			continue
		}
		oad := cpOnlineProjection(st, a)
		total += oad.MicroAlgosWithRewards.Raw
		if oad.VoteLastValid != 0 && oad.VoteLastValid < voteRnd {
			expired += oad.MicroAlgosWithRewards.Raw
		}
	}
	if !p.ExcludeExpiredCirculation || st.Round == 0 {
		expired = 0
	}
	return total - expired
}

// compareOnline: the online-account history the restored ledger must serve: rounds
// [base+1-MaxBalLookback, R] (the file carries the onlineaccounts / onlineroundparamstail rows of the
// MaxBalLookback rounds up to base; later rounds come from the replayed blocks).
func (o *cpObs) compareOnline(s *Sim, c *cpConsumer, R, base basics.Round, how string) bool {
	p := s.states[R].proto()
	// the online tracker serves [dbRound+1-MaxBalLookback, latest] (acctonline.go; same window as the C13 oracle);
	// the consumer may already have flushed beyond base
	lo := (c.led.LatestTrackerCommitted() + 1).SubSaturate(basics.Round(p.MaxBalLookback))
	_ = base
	for r := lo; r <= R; r++ {
		st := s.states[r]
		if st == nil {
			continue
		}
		addrs := st.sortedAddrs()
		for _, a := range Accounts() {
			if _, ok := st.Accts[a.Addr]; !ok {
				addrs = append(addrs, a.Addr)
			}
		}
		for _, a := range addrs {
			got, err := c.led.LookupAgreement(r, a)
			want := cpOnlineProjection(st, a)
			if err != nil || got != want {
				s.violate("C16", "restored-online-differs", "lookup-agreement", fmt.Sprintf("consumer restored from catchpoint round %d (%s): LookupAgreement(%d, %s) = %+v (error %v), the producer's history implies %+v", R, how, r, shortAddr(a), got, err, want))
				return false
			}
			s.stat("c16.online_lookup_compared", 1)
		}
		vote := r + basics.Round(2*p.SeedRefreshInterval*p.SeedLookback)
		got, err := c.led.OnlineCirculation(r, vote)
		want := cpCirculation(st, vote)
		if err != nil || got.Raw != want {
			s.violate("C16", "restored-online-differs", "circulation", fmt.Sprintf("consumer restored from catchpoint round %d (%s): OnlineCirculation(%d, %d) = %d (error %v), the producer's history implies %d", R, how, r, vote, got.Raw, err, want))
			return false
		}
		s.stat("c16.online_circulation_compared", 1)
	}
	return true
}

// progress: the restored consumer accepts the producer's next blocks and keeps matching the reference.
func (o *cpObs) progress(s *Sim, c *cpConsumer, R basics.Round) bool {
	fed := 0
	for c.next <= s.latest {
		if err := c.led.AddBlock(s.blocks[c.next], agreement.Certificate{}); err != nil {
			s.violate("C16", "restored-ledger-rejects-next-block", "", fmt.Sprintf("consumer restored from catchpoint round %d rejects the producer's block %d: %v", R, c.next, err))
			return false
		}
		c.next++
		fed++
		synctest.Wait()
	}
	s.stat("c16.progress_blocks_fed", int64(fed))
	if fed == 0 {
		return true
	}
	ok := o.withLedger(s, c.led, "C16", "restored-state-differs", func() { s.fullCheck("cp-progress") })
	if !ok {
		s.viol.Detail = fmt.Sprintf("consumer restored from catchpoint round %d after following %d more blocks: ", R, fed) + s.viol.Detail
	}
	return ok
}

// feedFollower: a restored consumer keeps following the producer; the catchpoint labels it generates
// for later rounds must be the producer's.
func (o *cpObs) feedFollower(s *Sim) {
	fl := o.follower
	if fl == nil {
		return
	}
	for fl.next <= s.latest {
		if err := fl.led.AddBlock(s.blocks[fl.next], agreement.Certificate{}); err != nil {
			s.violate("C16", "restored-ledger-rejects-next-block", "", fmt.Sprintf("consumer restored from catchpoint round %d rejects the producer's block %d: %v", fl.from, fl.next, err))
			return
		}
		fl.next++
		synctest.Wait()
	}
	if l := fl.led.GetLastCatchpointLabel(); l != "" {
		if r, ok := parseLabel(l); ok {
			if _, seen := fl.labels[r]; !seen {
				fl.labels[r] = l
				s.log.Add("  follower %d (restored at %d) label %s", fl.id, fl.from, l)
			}
		}
	}
	frs := make([]basics.Round, 0, len(fl.labels))
	for r := range fl.labels {
		frs = append(frs, r)
	}
	sort.Slice(frs, func(i, j int) bool { return frs[i] < frs[j] })
	for _, r := range frs {
		l := fl.labels[r]
		if pl, ok := o.labels[r]; ok {
			if !o.judged["follower-label/"+l] {
				o.judged["follower-label/"+l] = true
				s.stat("c16.follower_label_compared", 1)
			}
			if pl != l {
				s.violate("C16", "post-restore-label-differs", "", fmt.Sprintf("consumer restored from catchpoint round %d then following the same blocks produced label %s for round %d, the producer %s", fl.from, l, r, pl))
				return
			}
		}
	}
}
