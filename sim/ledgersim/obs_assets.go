package ledgersim

import (
	"fmt"
	"sort"

	"github.com/algorand/go-algorand/data/basics"
	"github.com/algorand/go-algorand/data/bookkeeping"
	"github.com/algorand/go-algorand/data/txntest"
	"github.com/algorand/go-algorand/ledger/eval"
	"github.com/algorand/go-algorand/ledger/ledgercore"
	"github.com/algorand/go-algorand/protocol"
)

// C22 "Asset supply is conserved and holder rules are enforced".
//
// Invariant (BlockDone): for every asset whose creator holds parameters in the reference fold, the
// 128-bit sum of all holdings of that asset equals Params.Total.
// Poison candidates (ExtraGroups, evaluated FIRST in the block so that the reference state is exactly
// what the evaluator sees; all are correctly signed by the sender's current authorizer): accepting
// any of them is a violation. Good-faith "booster" candidates (after the poisons) drive assets through
// create / opt-in / transfer / freeze / clawback / close-out / destroy so that the poison kinds have
// eligible states.

func init() {
	registerObserver([]string{"C22"}, func(s *Sim) Observer { return newAssetObs(s) })
	propBias["C22"] = "assets"
	kindRemap["assets"] = func(g *Gen, kind int) int {
		if g.n(2) == 0 {
			return 28 + g.n(36) // the asset kinds of Gen.one()
		}
		return kind
	}
}

// Nontrivial implements NontrivialJudge.
func (o *assetObs) Nontrivial(s *Sim) bool {
	return s.stats["c22.assets_with_2_holders_checked"] > 0 && s.stats["c22.poison_rejected"] > 0
}

var assetPoisonKinds = []string{
	"frozen-out",         // transfer > 0 out of a frozen holding by its owner
	"frozen-in",          // transfer > 0 into a frozen holding by an ordinary sender
	"not-opted-in",       // transfer > 0 to an account without a holding
	"clawback-by-other",  // AssetSender set, sender is not the asset's clawback address
	"destroy-not-all",    // manager destroys while the creator holds less than the total
	"overdraw",           // transfer of more than the holding
	"close-frozen",       // frozen holding with > 0 closed out to a non-creator
	"close-to-not-opted", // close-out of > 0 to an account without a holding
	"creator-close",      // the creator closes out its own holding
	"clawback-close",     // a clawback transaction carrying a close-to
}

type assetObs struct {
	NopObserver
}

func newAssetObs(s *Sim) *assetObs {
	s.statInit("c22.assets_checked", "c22.assets_with_2_holders_checked", "c22.assets_with_frozen_holder_checked", "c22.poison_generated", "c22.poison_rejected", "c22.poison_rejected_before_eval",
		"c22.assets_destroyed", "c22.holdings_closed")
	for _, k := range assetPoisonKinds {
		s.statInit("c22.gen."+k, "c22.rej."+k)
	}
	for _, k := range []string{"create", "optin", "transfer", "freeze", "clawback", "close", "destroy", "collect"} {
		s.statInit("c22.boost." + k)
	}
	return &assetObs{}
}

type assetCase struct {
	aid      basics.AssetIndex
	from, to basics.Address
	amt      uint64
}

// poisonCases enumerates, in a canonical order, every (asset, from, to) of the reference state that is eligible for a poison kind.
func assetPoisonCases(g *Gen, kind string) []assetCase {
	st := g.st
	var out []assetCase
	all := Accounts()
	for _, aid := range g.assetIDs() {
		p, cr := st.assetParams(aid)
		if p == nil {
			continue
		}
		hs := g.holders(aid)
		switch kind {
		case "frozen-out", "frozen-in", "overdraw":
			for _, f := range hs {
				hf := st.holding(f, aid)
				for _, t := range hs {
					ht := st.holding(t, aid)
					if f == t {
						continue
					}
					switch {
					case kind == "frozen-out" && hf.Frozen && hf.Amount > 0:
						out = append(out, assetCase{aid, f, t, 1 + uint64(g.n(int(min(hf.Amount, 1<<30))))})
					case kind == "frozen-in" && !hf.Frozen && hf.Amount > 0 && ht.Frozen:
						out = append(out, assetCase{aid, f, t, 1 + uint64(g.n(int(min(hf.Amount, 1<<30))))})
					case kind == "overdraw" && !hf.Frozen && !ht.Frozen && hf.Amount < ^uint64(0):
						out = append(out, assetCase{aid, f, t, hf.Amount + 1})
					}
				}
			}
		case "not-opted-in", "close-to-not-opted":
			for _, f := range hs {
				hf := st.holding(f, aid)
				if hf.Frozen || hf.Amount == 0 || (kind == "close-to-not-opted" && f == cr) {
					continue
				}
				for _, a := range all {
					if st.holding(a.Addr, aid) == nil {
						out = append(out, assetCase{aid, f, a.Addr, 1 + uint64(g.n(int(min(hf.Amount, 1<<30))))})
					}
				}
			}
		case "clawback-by-other", "clawback-close":
			for _, f := range hs {
				for _, t := range hs {
					out = append(out, assetCase{aid, f, t, uint64(g.n(int(min(st.holding(f, aid).Amount, 1<<30) + 1)))})
				}
			}
		case "destroy-not-all":
			if h := st.holding(cr, aid); h != nil && h.Amount < p.Total && !p.Manager.IsZero() {
				out = append(out, assetCase{aid, p.Manager, cr, 0})
			}
		case "close-frozen":
			for _, f := range hs {
				hf := st.holding(f, aid)
				if !hf.Frozen || hf.Amount == 0 || f == cr {
					continue
				}
				for _, t := range hs {
					if t != f && t != cr { // closing to the creator is allowed even when frozen
						out = append(out, assetCase{aid, f, t, 0})
					}
				}
			}
		case "creator-close":
			for _, t := range hs {
				if t != cr {
					out = append(out, assetCase{aid, cr, t, 0})
				}
			}
		}
	}
	return out
}

func (o *assetObs) poison(s *Sim, g *Gen, kind string) *Candidate {
	cs := assetPoisonCases(g, kind)
	if len(cs) == 0 {
		return nil
	}
	c := cs[g.n(len(cs))]
	p, _ := g.st.assetParams(c.aid)
	var t *txntest.Txn
	switch kind {
	case "frozen-out", "frozen-in", "not-opted-in", "overdraw":
		t = &txntest.Txn{Type: protocol.AssetTransferTx, Sender: c.from, XferAsset: c.aid, AssetReceiver: c.to, AssetAmount: c.amt}
	case "clawback-by-other":
		var l []*Acct
		for _, a := range mainAccts() {
			if a.Addr != p.Clawback && g.st.Accts[a.Addr].MicroAlgos.Raw > 10_000_000 {
				l = append(l, a)
			}
		}
		if len(l) == 0 {
			return nil
		}
		snd := l[g.n(len(l))].Addr
		if g.n(3) == 0 && c.from != p.Clawback && g.st.Accts[c.from].MicroAlgos.Raw > 10_000_000 {
			snd = c.from // the holder "claws back" from itself
		}
		t = &txntest.Txn{Type: protocol.AssetTransferTx, Sender: snd, XferAsset: c.aid, AssetSender: c.from, AssetReceiver: c.to, AssetAmount: c.amt}
	case "clawback-close":
		if p.Clawback.IsZero() || g.authOf(p.Clawback) == nil {
			return nil
		}
		t = &txntest.Txn{Type: protocol.AssetTransferTx, Sender: p.Clawback, XferAsset: c.aid, AssetSender: c.from, AssetReceiver: c.to, AssetAmount: c.amt, AssetCloseTo: c.to}
	case "destroy-not-all":
		t = &txntest.Txn{Type: protocol.AssetConfigTx, Sender: c.from, ConfigAsset: c.aid}
	case "close-frozen", "creator-close":
		t = &txntest.Txn{Type: protocol.AssetTransferTx, Sender: c.from, XferAsset: c.aid, AssetReceiver: c.to, AssetCloseTo: c.to}
	case "close-to-not-opted":
		rcv := c.from
		t = &txntest.Txn{Type: protocol.AssetTransferTx, Sender: c.from, XferAsset: c.aid, AssetReceiver: rcv, AssetCloseTo: c.to}
	}
	if t == nil || g.authOf(t.Sender) == nil {
		return nil
	}
	if g.st.Accts[t.Sender].MicroAlgos.Raw < 1_000_000 {
		return nil // the sender could not even pay the fee: it would be rejected for the wrong reason
	}
	s.stat("c22.gen."+kind, 1)
	s.stat("c22.poison_generated", 1)
	return &Candidate{Txns: g.sign([]*txntest.Txn{g.xbase(t)}), Poison: "c22." + kind, MustReject: true, Info: kind}
}

// boost generates one good-faith asset life-cycle step.
func (o *assetObs) boost(s *Sim, g *Gen) *Candidate {
	st := g.st
	ids := g.assetIDs()
	mains := mainAccts()
	pick := func() *Acct { return mains[g.n(len(mains))] }
	kind := []string{"create", "optin", "optin", "transfer", "transfer", "freeze", "clawback", "close", "destroy", "collect"}[g.n(10)]
	if len(ids) < 2 {
		kind = "create"
	}
	var t *txntest.Txn
	switch kind {
	case "create":
		if len(ids) >= 6 {
			return nil
		}
		cr := pick()
		tot := uint64(2 + g.n(1000))
		switch g.n(6) {
		case 0:
			tot = ^uint64(0) // the sum must be taken in more than 64 bits
		case 1:
			tot = 1
		}
		t = &txntest.Txn{Type: protocol.AssetConfigTx, Sender: cr.Addr, AssetParams: basics.AssetParams{Total: tot, DefaultFrozen: g.n(4) == 0, UnitName: "c22", AssetName: fmt.Sprintf("c22-%d", *g.uniq),
			Manager: pick().Addr, Reserve: pick().Addr, Freeze: pick().Addr, Clawback: pick().Addr}}
	case "optin":
		aid := ids[g.n(len(ids))]
		var l []*Acct
		for _, a := range mains {
			if st.holding(a.Addr, aid) == nil {
				l = append(l, a)
			}
		}
		if len(l) == 0 {
			return nil
		}
		a := l[g.n(len(l))]
		t = &txntest.Txn{Type: protocol.AssetTransferTx, Sender: a.Addr, XferAsset: aid, AssetReceiver: a.Addr}
	case "transfer":
		aid := ids[g.n(len(ids))]
		var from, to []basics.Address
		for _, h := range g.holders(aid) {
			hh := st.holding(h, aid)
			if !hh.Frozen {
				to = append(to, h)
				if hh.Amount > 0 {
					from = append(from, h)
				}
			}
		}
		if len(from) == 0 || len(to) < 2 {
			return nil
		}
		f := from[g.n(len(from))]
		amt := st.holding(f, aid).Amount
		if g.n(3) != 0 {
			amt = 1 + uint64(g.n(int(min(amt, 1<<30))))
		}
		t = &txntest.Txn{Type: protocol.AssetTransferTx, Sender: f, XferAsset: aid, AssetReceiver: to[g.n(len(to))], AssetAmount: amt}
	case "freeze":
		aid := ids[g.n(len(ids))]
		p, _ := st.assetParams(aid)
		hs := g.holders(aid)
		if p == nil || p.Freeze.IsZero() || len(hs) == 0 {
			return nil
		}
		h := hs[g.n(len(hs))]
		t = &txntest.Txn{Type: protocol.AssetFreezeTx, Sender: p.Freeze, FreezeAsset: aid, FreezeAccount: h, AssetFrozen: g.n(3) != 0}
	case "clawback":
		aid := ids[g.n(len(ids))]
		p, _ := st.assetParams(aid)
		hs := g.holders(aid)
		if p == nil || p.Clawback.IsZero() || len(hs) < 2 {
			return nil
		}
		f := hs[g.n(len(hs))]
		t = &txntest.Txn{Type: protocol.AssetTransferTx, Sender: p.Clawback, XferAsset: aid, AssetSender: f, AssetReceiver: hs[g.n(len(hs))], AssetAmount: uint64(g.n(int(min(st.holding(f, aid).Amount, 1<<30) + 1)))}
	case "close":
		aid := ids[g.n(len(ids))]
		_, cr := st.assetParams(aid)
		hs := g.holders(aid)
		var l []basics.Address
		for _, h := range hs {
			if h != cr {
				l = append(l, h)
			}
		}
		if len(l) == 0 {
			return nil
		}
		f := l[g.n(len(l))]
		to := hs[g.n(len(hs))]
		if g.n(2) == 0 {
			to = cr
		}
		rcv := to
		amt := uint64(0)
		if g.n(3) == 0 { // part to a third holder, the rest to the close-to
			rcv = hs[g.n(len(hs))]
			amt = uint64(g.n(int(min(st.holding(f, aid).Amount, 1<<30) + 1)))
		}
		t = &txntest.Txn{Type: protocol.AssetTransferTx, Sender: f, XferAsset: aid, AssetReceiver: rcv, AssetAmount: amt, AssetCloseTo: to}
	case "collect": // a holder sends everything back to the creator (prepares destroy)
		aid := ids[g.n(len(ids))]
		_, cr := st.assetParams(aid)
		for _, h := range g.holders(aid) {
			if hh := st.holding(h, aid); h != cr && hh.Amount > 0 && !hh.Frozen {
				t = &txntest.Txn{Type: protocol.AssetTransferTx, Sender: h, XferAsset: aid, AssetReceiver: cr, AssetAmount: hh.Amount}
				break
			}
		}
	case "destroy":
		aid := ids[g.n(len(ids))]
		p, cr := st.assetParams(aid)
		if p == nil || p.Manager.IsZero() {
			return nil
		}
		if h := st.holding(cr, aid); h == nil || h.Amount != p.Total {
			return nil
		}
		t = &txntest.Txn{Type: protocol.AssetConfigTx, Sender: p.Manager, ConfigAsset: aid}
	}
	if t == nil || g.authOf(t.Sender) == nil {
		return nil
	}
	s.stat("c22.boost."+kind, 1)
	return &Candidate{Txns: g.sign([]*txntest.Txn{g.xbase(t)})}
}

func (o *assetObs) ExtraGroups(s *Sim, g *Gen, ev *eval.BlockEvaluator, hdr *bookkeeping.BlockHeader, cands []Candidate) []Candidate {
	var front []Candidate
	for i, n := 0, 2+g.n(5); i < n; i++ {
		kind := assetPoisonKinds[g.n(len(assetPoisonKinds))]
		if c := o.poison(s, g, kind); c != nil {
			front = append(front, *c)
		}
	}
	out := append(front, cands...)
	for i, n := 0, 1+g.n(4); i < n; i++ {
		if c := o.boost(s, g); c != nil {
			// boosters go to drawn positions among the generated groups (never in front of the poisons)
			pos := len(front) + g.n(len(out)-len(front)+1)
			out = append(out[:pos], append([]Candidate{*c}, out[pos:]...)...)
		}
	}
	return out
}

func (o *assetObs) GroupResult(s *Sim, ev *eval.BlockEvaluator, c Candidate, stage string, err error) {
	kind, ok := c.Info.(string)
	if !ok || !c.MustReject {
		return
	}
	s.log.Add("c22 poison %s -> stage=%q rejected=%v", kind, stage, err != nil)
	if err == nil {
		t := c.Txns[0].Txn
		s.violate("C22", "poison-accepted", kind, fmt.Sprintf("the evaluator accepted a %q transaction (%s): sender %s asset %d asset-sender %s receiver %s amount %d close-to %s config-asset %d",
			kind, c.Txns[0].ID(), t.Sender, t.XferAsset, t.AssetSender, t.AssetReceiver, t.AssetAmount, t.AssetCloseTo, t.ConfigAsset))
		return
	}
	s.stat("c22.poison_rejected", 1)
	s.stat("c22.rej."+kind, 1)
	if stage != "eval" {
		s.stat("c22.poison_rejected_before_eval", 1) // rejected, but not for the semantic reason: generator to be fixed
	}
}

func (o *assetObs) BlockDone(s *Sim, prev, next *State, blk bookkeeping.Block, delta ledgercore.StateDelta) {
	type sum struct {
		hi, lo  uint64
		holders int
		frozen  int
	}
	sums := map[basics.CreatableIndex]*sum{}
	for k, a := range next.Assets { // pure accumulation: order independent
		if a.Holding != nil {
			x := sums[k.Idx]
			if x == nil {
				x = &sum{}
				sums[k.Idx] = x
			}
			x.hi, x.lo = add128(x.hi, x.lo, a.Holding.Amount)
			x.holders++
			if a.Holding.Frozen && a.Holding.Amount > 0 {
				x.frozen++
			}
		}
	}
	for _, k := range next.sortedAssetKeys() {
		p := next.Assets[k].Params
		if p == nil {
			continue
		}
		x := sums[k.Idx]
		if x == nil {
			x = &sum{}
		}
		s.stat("c22.assets_checked", 1)
		if x.holders >= 2 {
			s.stat("c22.assets_with_2_holders_checked", 1)
		}
		if x.frozen > 0 {
			s.stat("c22.assets_with_frozen_holder_checked", 1)
		}
		if x.hi != 0 || x.lo != p.Total {
			var hs []string
			for _, hk := range next.sortedAssetKeys() {
				if hk.Idx == k.Idx && next.Assets[hk].Holding != nil {
					hs = append(hs, fmt.Sprintf("%s:%d", shortAddr(hk.Addr), next.Assets[hk].Holding.Amount))
				}
			}
			sort.Strings(hs)
			s.violate("C22", "supply-not-conserved", "", fmt.Sprintf("round %d: asset %d (creator %s) has total %d but its %d holdings sum to hi=%d lo=%d: %v", next.Round, k.Idx, shortAddr(k.Addr), p.Total, x.holders, x.hi, x.lo, hs))
			return
		}
	}
	// bookkeeping for reach: destroyed assets and closed holdings in this block
	for _, r := range delta.Accts.AssetResources {
		if r.Params.Deleted {
			s.stat("c22.assets_destroyed", 1)
		}
		if r.Holding.Deleted && !r.Params.Deleted {
			s.stat("c22.holdings_closed", 1)
		}
	}
}
