package ledgersim

import (
	"bytes"
	"fmt"
	"math/rand/v2"
	"sort"
	"strings"

	"github.com/algorand/go-algorand/data/basics"
	"github.com/algorand/go-algorand/data/bookkeeping"
	"github.com/algorand/go-algorand/data/transactions"
	"github.com/algorand/go-algorand/data/txntest"
	"github.com/algorand/go-algorand/ledger/eval"
	"github.com/algorand/go-algorand/protocol"
)

// C10 "Paginated listings return each resource exactly once".
//
// Oracle (AfterBlock and AfterReopen, at quiescent instants, against the reference fold):
//   - Ledger.LookupAssets(addr, GT, limit): answers for the latest round (the returned round must be
//     the last added block); the result must be exactly the first min(limit, remaining) assets with
//     id > GT for which addr has a HOLDING in the reference, in increasing id order; each entry carries
//     the holding, plus creator and parameters of the asset iff the asset still exists (else zero/nil).
//     This is what the REST handler relies on: it asks for limit+1 entries and derives the next-token
//     from the presence of the extra one, so a short page with entries remaining loses resources.
//   - Ledger.LookupApplications(addr, GT, limit, includeParams): same with the set "addr has local
//     state OR addr is the creator"; creator iff the app exists; params iff it exists and includeParams.
//   - Ledger.LookupKvPairsByPrefix(round, prefix, cursor, limit, maxBytes, includeValues) at rounds of
//     the served window: returned round == requested round; the page is a PREFIX of the reference's
//     sorted keys with that prefix and > cursor at that round; not longer than limit; byte size (keys
//     plus returned values) <= maxBytes unless it is a single entry; non-empty when something remains;
//     exactly min(limit, remaining) entries when the byte cap cannot bind; values equal when requested
//     and absent otherwise; more == (something remains after the page). The byte cap is documented as
//     best effort: a page that stops earlier than a greedy fill is legal (it happens when an in-memory
//     key sorts after the DB page's last key) and is only counted.
//   - Ledger.LookupKeysByPrefix(round, prefix, max): no duplicates, a subset of the reference keys of
//     exactly min(max, total) elements.
//   - Paginations (next GT / cursor = last entry of the previous page, direct and handler style) are
//     driven to exhaustion: the concatenation must be the whole reference list, no duplicate, no omission.
//
// Workload: the "resources" bias plus booster candidates that create/opt-in/close/destroy assets and
// create/opt-in/close-out/delete applications on three focus accounts and create/delete/rewrite
// boxes (many names with shared prefixes) on the two oldest applications, so that pages straddle the
// boundary between rows in the tracker DB and in-memory deltas (deletions that live only in memory).

func init() {
	propBias["C10"] = "resources"
	kindRemap["resources"] = func(g *Gen, kind int) int {
		switch {
		case kind < 5: // keep a few payments
			return kind
		case kind < 9:
			return 29 // asset create
		case kind < 14:
			return 35 // asset opt-in
		case kind < 17:
			return 50 // asset transfer (sometimes closing)
		case kind < 19:
			return 63 // asset config / destroy
		case kind < 22:
			return 66 // app create
		case kind < 25: // keyreg ->
			return 70 // app opt-in
		case kind < 28:
			return 97 // close-out / clear / delete
		case kind >= 98: // rekey ->
			return 80 // app call (boxes)
		}
		return kind
	}
	registerObserver([]string{"C10"}, func(s *Sim) Observer { return newPagingObs(s) })
}

type pagingObs struct {
	NopObserver
	calls int // ledger calls in the current sweep (bounded)
}

func newPagingObs(s *Sim) *pagingObs {
	s.statInit("c10.asset_pages", "c10.app_pages", "c10.kv_pages", "c10.keys_calls",
		"c10.asset_paginations", "c10.app_paginations", "c10.kv_paginations",
		"c10.asset_paginations_multipage", "c10.app_paginations_multipage", "c10.kv_paginations_multipage",
		"c10.asset_pag_mem_only_deletion", "c10.app_pag_mem_only_deletion", "c10.kv_pag_mem_only_deletion",
		"c10.asset_pag_mem_only_creation", "c10.app_pag_mem_only_creation", "c10.kv_pag_mem_only_creation",
		"c10.asset_pag_db_and_mem", "c10.app_pag_db_and_mem", "c10.kv_pag_db_and_mem",
		"c10.pag_after_flush", "c10.pag_before_first_flush", "c10.pag_after_reload", "c10.pag_after_crash",
		"c10.asset_entry_of_destroyed_asset", "c10.app_entry_of_deleted_app", "c10.app_entry_creator_only",
		"c10.kv_page_cut_by_bytes", "c10.kv_page_cut_by_limit", "c10.kv_page_shorter_than_greedy", "c10.kv_single_entry_over_cap",
		"c10.kv_old_round", "c10.kv_values", "c10.kv_partial_name_prefix", "c10.kv_cursor_nonexistent",
		"c10.handler_style_paginations", "c10.random_start_paginations")
	for _, k := range pgBoostKinds {
		s.statInit("c10.boost." + k)
	}
	return &pagingObs{}
}

// Nontrivial implements NontrivialJudge: a multi-page pagination ran while a deletion of the listed
// kind lived only in memory (the DB still had the row).
func (o *pagingObs) Nontrivial(s *Sim) bool {
	multi := s.stats["c10.asset_paginations_multipage"] + s.stats["c10.app_paginations_multipage"] + s.stats["c10.kv_paginations_multipage"]
	memDel := s.stats["c10.asset_pag_mem_only_deletion"] + s.stats["c10.app_pag_mem_only_deletion"] + s.stats["c10.kv_pag_mem_only_deletion"]
	return multi > 0 && memDel > 0
}

// ---------------------------------------------------------------------------------------------
// workload boosters

func pgFocus() []*Acct { return mainAccts()[6:9] }

var pgBoostKinds = []string{"acreate", "aoptin", "aclose", "areturn", "adestroy", "appcreate", "appoptin", "appcloseout", "appdelete", "fund", "bcreate", "bdel", "bput"}

// weights: creations and removals balanced so that sets keep churning
var pgBoostDraw = []string{"acreate", "acreate", "aoptin", "aoptin", "aoptin", "aclose", "aclose", "aclose", "areturn", "adestroy", "adestroy",
	"appcreate", "appcreate", "appoptin", "appoptin", "appoptin", "appcloseout", "appcloseout", "appdelete",
	"bcreate", "bcreate", "bcreate", "bcreate", "bdel", "bdel", "bdel", "bput"}

var pgBoxNames = func() []string {
	l := []string{"a", "ab", "abc", "abd", "b", "ba", "a\x00", "a\x00b", "\xff", "\xff\xff", "z"}
	for i := 0; i < 12; i++ {
		l = append(l, fmt.Sprintf("p%02d", i))
	}
	for i := 0; i < 4; i++ {
		l = append(l, fmt.Sprintf("p0%d-long-name-%s", i, strings.Repeat("x", 10+7*i)))
	}
	return l
}()

func (g *Gen) pgHeld(addr basics.Address) []basics.AssetIndex {
	var l []basics.AssetIndex
	for k, v := range g.st.Assets {
		if k.Addr == addr && v.Holding != nil {
			l = append(l, basics.AssetIndex(k.Idx))
		}
	}
	sort.Slice(l, func(i, j int) bool { return l[i] < l[j] })
	return l
}

func (g *Gen) pgLocals(addr basics.Address) []basics.AppIndex {
	var l []basics.AppIndex
	for k, v := range g.st.Apps {
		if k.Addr == addr && v.Local != nil {
			l = append(l, basics.AppIndex(k.Idx))
		}
	}
	sort.Slice(l, func(i, j int) bool { return l[i] < l[j] })
	return l
}

// pgBoxApps are the (at most two) oldest live applications: the box workload concentrates on them.
func (g *Gen) pgBoxApps() []basics.AppIndex {
	ids := g.appIDs()
	if len(ids) > 2 {
		ids = ids[:2]
	}
	return ids
}

func (o *pagingObs) boost(s *Sim, g *Gen) *Candidate {
	st := g.st
	foc := pgFocus()
	f := foc[g.n(len(foc))]
	if st.Accts[f.Addr].MicroAlgos.Raw < 100_000_000 || g.authOf(f.Addr) == nil {
		return nil
	}
	kind := pgBoostDraw[g.n(len(pgBoostDraw))]
	held := g.pgHeld(f.Addr)
	locals := g.pgLocals(f.Addr)
	if len(held) < 3 && g.n(2) == 0 {
		kind = []string{"acreate", "aoptin"}[g.n(2)]
	}
	if len(g.appIDs()) < 2 {
		kind = "appcreate"
	}
	var t *txntest.Txn
	switch kind {
	case "acreate":
		if len(held) >= 14 {
			return nil
		}
		t = &txntest.Txn{Type: protocol.AssetConfigTx, Sender: f.Addr, AssetParams: basics.AssetParams{
			Total: uint64(1 + g.n(100)), UnitName: "pg", AssetName: fmt.Sprintf("pg%d", *g.uniq),
			Manager: f.Addr, Reserve: f.Addr, Freeze: f.Addr, Clawback: f.Addr}}
	case "aoptin":
		var l []basics.AssetIndex
		for _, id := range g.assetIDs() {
			if st.holding(f.Addr, id) == nil {
				l = append(l, id)
			}
		}
		if len(l) == 0 || len(held) >= 14 {
			return nil
		}
		id := l[g.n(len(l))]
		t = &txntest.Txn{Type: protocol.AssetTransferTx, Sender: f.Addr, XferAsset: id, AssetReceiver: f.Addr}
	case "aclose":
		var l []basics.AssetIndex
		for _, id := range held {
			if _, cr := st.assetParams(id); cr != f.Addr {
				l = append(l, id)
			}
		}
		if len(l) == 0 {
			return nil
		}
		id := l[g.n(len(l))]
		to := foc[g.n(len(foc))].Addr
		if _, cr := st.assetParams(id); !cr.IsZero() {
			to = cr
		}
		t = &txntest.Txn{Type: protocol.AssetTransferTx, Sender: f.Addr, XferAsset: id, AssetReceiver: to, AssetCloseTo: to}
	case "areturn": // a holder gives everything back to the creator (enables destruction)
		var l []basics.AssetIndex
		for _, id := range held {
			if _, cr := st.assetParams(id); cr != f.Addr && !cr.IsZero() && st.holding(f.Addr, id).Amount > 0 {
				l = append(l, id)
			}
		}
		if len(l) == 0 {
			return nil
		}
		id := l[g.n(len(l))]
		_, cr := st.assetParams(id)
		t = &txntest.Txn{Type: protocol.AssetTransferTx, Sender: f.Addr, XferAsset: id, AssetReceiver: cr, AssetAmount: st.holding(f.Addr, id).Amount}
	case "adestroy":
		var l []basics.AssetIndex
		for _, id := range held {
			if p, cr := st.assetParams(id); cr == f.Addr && p != nil && st.holding(f.Addr, id).Amount == p.Total && g.authOf(p.Manager) != nil {
				l = append(l, id)
			}
		}
		if len(l) == 0 {
			return nil
		}
		id := l[g.n(len(l))]
		p, _ := st.assetParams(id)
		t = &txntest.Txn{Type: protocol.AssetConfigTx, Sender: p.Manager, ConfigAsset: id}
	case "appcreate":
		if len(g.appIDs()) >= 10 {
			return nil
		}
		t = &txntest.Txn{Type: protocol.ApplicationCallTx, Sender: f.Addr, ApprovalProgram: appSource, ClearStateProgram: clearSource,
			GlobalStateSchema: basics.StateSchema{NumUint: 1, NumByteSlice: 2}, LocalStateSchema: basics.StateSchema{NumUint: 1, NumByteSlice: 1}}
	case "appoptin":
		var l []basics.AppIndex
		for _, id := range g.appIDs() {
			if st.Apps[resKey{f.Addr, basics.CreatableIndex(id)}].Local == nil {
				l = append(l, id)
			}
		}
		if len(l) == 0 || len(locals) >= 9 {
			return nil
		}
		t = &txntest.Txn{Type: protocol.ApplicationCallTx, Sender: f.Addr, ApplicationID: l[g.n(len(l))], OnCompletion: transactions.OptInOC}
	case "appcloseout":
		if len(locals) == 0 {
			return nil
		}
		id := locals[g.n(len(locals))]
		oc := transactions.ClearStateOC
		if p, _ := st.appParams(id); p != nil && g.n(2) == 0 {
			oc = transactions.CloseOutOC
		}
		t = &txntest.Txn{Type: protocol.ApplicationCallTx, Sender: f.Addr, ApplicationID: id, OnCompletion: oc}
	case "appdelete":
		var l []basics.AppIndex
		box := map[basics.AppIndex]bool{}
		for _, id := range g.pgBoxApps() {
			box[id] = true
		}
		for _, id := range g.appIDs() {
			// the box applications are deleted rarely: their boxes are the kv workload
			if _, cr := st.appParams(id); cr == f.Addr && (!box[id] || g.n(6) == 0) {
				l = append(l, id)
			}
		}
		if len(l) == 0 || len(g.appIDs()) <= 3 {
			return nil
		}
		t = &txntest.Txn{Type: protocol.ApplicationCallTx, Sender: f.Addr, ApplicationID: l[g.n(len(l))], OnCompletion: transactions.DeleteApplicationOC}
	case "fund", "bcreate", "bdel", "bput":
		apps := g.pgBoxApps()
		if len(apps) == 0 {
			return nil
		}
		app := apps[g.n(len(apps))]
		if st.Accts[app.Address()].MicroAlgos.Raw < 3_000_000 {
			kind = "fund"
		}
		existing := g.boxes(app)
		call := func(name string, args ...[]byte) *txntest.Txn {
			return &txntest.Txn{Type: protocol.ApplicationCallTx, Sender: f.Addr, ApplicationID: app, ApplicationArgs: args,
				Boxes: []transactions.BoxRef{{Index: 0, Name: []byte(name)}}}
		}
		switch kind {
		case "fund":
			t = &txntest.Txn{Type: protocol.PaymentTx, Sender: f.Addr, Receiver: app.Address(), Amount: 20_000_000}
		case "bcreate":
			if len(existing) >= 18 {
				kind = "bdel"
				name := existing[g.n(len(existing))]
				t = call(name, []byte("bdel"), []byte(name))
				break
			}
			name := pgBoxNames[g.n(len(pgBoxNames))]
			t = call(name, []byte("bcreate"), []byte(name), u64(uint64(g.n(48))))
		case "bdel":
			if len(existing) == 0 {
				return nil
			}
			name := existing[g.n(len(existing))]
			t = call(name, []byte("bdel"), []byte(name))
		case "bput":
			if len(existing) == 0 {
				return nil
			}
			name := existing[g.n(len(existing))]
			cur := st.Kv[boxKeyPrefix(app)+name]
			t = call(name, []byte("bput"), []byte(name), bytes.Repeat([]byte{byte('a' + g.n(26))}, len(cur)))
		}
	}
	if t == nil {
		return nil
	}
	s.stat("c10.boost."+kind, 1)
	return &Candidate{Txns: g.sign([]*txntest.Txn{g.xbase(t)}), Info: "c10." + kind}
}

func (o *pagingObs) ExtraGroups(s *Sim, g *Gen, ev *eval.BlockEvaluator, hdr *bookkeeping.BlockHeader, cands []Candidate) []Candidate {
	out := cands
	for i, n := 0, 3+g.n(7); i < n; i++ {
		if c := o.boost(s, g); c != nil {
			pos := g.n(len(out) + 1)
			out = append(out[:pos:pos], append([]Candidate{*c}, out[pos:]...)...)
		}
	}
	return out
}

func (o *pagingObs) GroupResult(s *Sim, ev *eval.BlockEvaluator, c Candidate, stage string, err error) {
	if kind, ok := c.Info.(string); ok && strings.HasPrefix(kind, "c10.") && err == nil {
		s.stat("c10.boost_ok", 1)
	}
}

// ---------------------------------------------------------------------------------------------
// reference lists

type pgAsset struct {
	id      basics.AssetIndex
	holding basics.AssetHolding
	params  *basics.AssetParams // nil when the asset no longer exists
	creator basics.Address
}

func pgRefAssets(st *State, addr basics.Address) []pgAsset {
	var l []pgAsset
	for k, v := range st.Assets {
		if k.Addr == addr && v.Holding != nil {
			l = append(l, pgAsset{id: basics.AssetIndex(k.Idx), holding: *v.Holding})
		}
	}
	sort.Slice(l, func(i, j int) bool { return l[i].id < l[j].id })
	for i := range l {
		l[i].params, l[i].creator = st.assetParams(l[i].id)
		if l[i].params == nil {
			l[i].creator = basics.Address{}
		}
	}
	return l
}

type pgApp struct {
	id      basics.AppIndex
	local   *basics.AppLocalState
	params  *basics.AppParams // nil when the application no longer exists
	creator basics.Address
}

func pgRefApps(st *State, addr basics.Address) []pgApp {
	seen := map[basics.AppIndex]bool{}
	var l []pgApp
	for k, v := range st.Apps {
		if k.Addr == addr && v.Local != nil {
			seen[basics.AppIndex(k.Idx)] = true
			l = append(l, pgApp{id: basics.AppIndex(k.Idx), local: v.Local})
		}
	}
	for ck, cr := range st.Creators {
		if ck.Type == basics.AppCreatable && cr == addr && !seen[basics.AppIndex(ck.Idx)] {
			l = append(l, pgApp{id: basics.AppIndex(ck.Idx)})
		}
	}
	sort.Slice(l, func(i, j int) bool { return l[i].id < l[j].id })
	for i := range l {
		l[i].params, l[i].creator = st.appParams(l[i].id)
		if l[i].params == nil {
			l[i].creator = basics.Address{}
		}
	}
	return l
}

func pgRefKeys(st *State, prefix, cursor string) []string {
	var l []string
	for _, k := range st.sortedKvKeys() {
		if strings.HasPrefix(k, prefix) && k > cursor {
			l = append(l, k)
		}
	}
	return l
}

func pgIDs[T ~uint64](l []T) string {
	var b strings.Builder
	b.WriteByte('[')
	for i, v := range l {
		if i > 0 {
			b.WriteByte(' ')
		}
		fmt.Fprintf(&b, "%d", uint64(v))
	}
	b.WriteByte(']')
	return b.String()
}

func pgKeyNames(l []string) string {
	var b strings.Builder
	b.WriteByte('[')
	for i, k := range l {
		if i > 0 {
			b.WriteByte(' ')
		}
		if len(k) >= 11 {
			fmt.Fprintf(&b, "%q", k[11:])
		} else {
			fmt.Fprintf(&b, "%q", k)
		}
	}
	b.WriteByte(']')
	return b.String()
}

// split describes, for the error message, where the reference entries live: in the tracker DB (state at
// the tracker round) or only in the in-memory deltas.
func (s *Sim) pgSplit() string {
	return fmt.Sprintf("tracker db round %d, latest %d (rounds %d..%d only in memory)", s.led.LatestTrackerCommitted(), s.led.Latest(), s.led.LatestTrackerCommitted()+1, s.led.Latest())
}

// ---------------------------------------------------------------------------------------------
// assets

// assetPage performs one LookupAssets call and compares it with the reference list (all holdings of
// addr at the latest round). It returns the ids of the page; ok=false after a violation.
func (o *pagingObs) assetPage(s *Sim, ref []pgAsset, addr basics.Address, gt basics.AssetIndex, limit uint64, where string) ([]basics.AssetIndex, bool) {
	o.calls++
	got, rnd, err := s.led.LookupAssets(addr, gt, limit)
	s.stat("c10.asset_pages", 1)
	desc := fmt.Sprintf("%s: LookupAssets(%s, assetIDGT=%d, limit=%d); %s", where, shortAddr(addr), gt, limit, s.pgSplit())
	if err != nil {
		s.violate("C10", "asset-lookup-error", "", fmt.Sprintf("%s: error %v", desc, err))
		return nil, false
	}
	if rnd != s.latest {
		s.violate("C10", "asset-round", "", fmt.Sprintf("%s: answered for round %d, the latest round is %d", desc, rnd, s.latest))
		return nil, false
	}
	var want []pgAsset
	for _, e := range ref {
		if e.id > gt && uint64(len(want)) < limit {
			want = append(want, e)
		}
	}
	gotIDs := make([]basics.AssetIndex, len(got))
	for i := range got {
		gotIDs[i] = got[i].AssetID
	}
	wantIDs := make([]basics.AssetIndex, len(want))
	for i := range want {
		wantIDs[i] = want[i].id
	}
	if pgIDs(gotIDs) != pgIDs(wantIDs) {
		db := pgRefAssets(s.states[s.led.LatestTrackerCommitted()], addr)
		dbIDs := make([]basics.AssetIndex, 0, len(db))
		for _, e := range db {
			if e.id > gt {
				dbIDs = append(dbIDs, e.id)
			}
		}
		all := make([]basics.AssetIndex, 0, len(ref))
		for _, e := range ref {
			if e.id > gt {
				all = append(all, e.id)
			}
		}
		s.violate("C10", "asset-page-ids", "", fmt.Sprintf("%s: returned asset ids %s, expected %s (all holdings with id > %d at round %d: %s; holdings in the tracker DB state: %s)", desc, pgIDs(gotIDs), pgIDs(wantIDs), gt, s.latest, pgIDs(all), pgIDs(dbIDs)))
		return nil, false
	}
	for i, e := range want {
		g := got[i]
		if g.AssetHolding == nil || *g.AssetHolding != e.holding {
			s.violate("C10", "asset-page-holding", "", fmt.Sprintf("%s: asset %d holding %s, history implies %+v", desc, e.id, encHolding(g.AssetHolding), e.holding))
			return nil, false
		}
		if g.Creator != e.creator || encAssetParams(g.AssetParams) != encAssetParams(e.params) {
			s.violate("C10", "asset-page-params", "", fmt.Sprintf("%s: asset %d creator %s params %v, history implies creator %s params %v", desc, e.id, shortAddr(g.Creator), g.AssetParams, shortAddr(e.creator), e.params))
			return nil, false
		}
		if e.params == nil {
			s.stat("c10.asset_entry_of_destroyed_asset", 1)
		}
	}
	return gotIDs, true
}

// assetPagination lists addr's assets with id > start page by page and checks the concatenation.
func (o *pagingObs) assetPagination(s *Sim, addr basics.Address, start basics.AssetIndex, limit uint64, handler bool, where string) {
	st := s.states[s.latest]
	ref := pgRefAssets(st, addr)
	var all []basics.AssetIndex
	for _, e := range ref {
		if e.id > start {
			all = append(all, e.id)
		}
	}
	// state split probes
	dbSet := map[basics.AssetIndex]bool{}
	for _, e := range pgRefAssets(s.states[s.led.LatestTrackerCommitted()], addr) {
		if e.id > start {
			dbSet[e.id] = true
		}
	}
	refSet := map[basics.AssetIndex]bool{}
	memCreated, inBoth := false, false
	for _, id := range all {
		refSet[id] = true
		if dbSet[id] {
			inBoth = true
		} else {
			memCreated = true
		}
	}
	memDeleted := false
	for id := range dbSet {
		if !refSet[id] {
			memDeleted = true
		}
	}
	var seen []basics.AssetIndex
	gt := start
	pages := 0
	for guard := 0; guard <= len(all)+2; guard++ {
		ask := limit
		if handler {
			ask = limit + 1
		}
		ids, ok := o.assetPage(s, ref, addr, gt, ask, where)
		if !ok {
			return
		}
		pages++
		if handler {
			if uint64(len(ids)) <= limit {
				seen = append(seen, ids...)
				break
			}
			ids = ids[:limit]
		}
		seen = append(seen, ids...)
		if uint64(len(ids)) < limit || len(ids) == 0 {
			break
		}
		gt = ids[len(ids)-1]
	}
	if pgIDs(seen) != pgIDs(all) {
		s.violate("C10", "asset-pagination", "", fmt.Sprintf("%s: paginating the assets of %s from id > %d with limit %d (handler style %v) listed %s, history implies %s; %s", where, shortAddr(addr), start, limit, handler, pgIDs(seen), pgIDs(all), s.pgSplit()))
		return
	}
	o.pagStats(s, "asset", pages, memDeleted, memCreated, inBoth && (memCreated || memDeleted), handler, start != 0, where)
}

func (o *pagingObs) pagStats(s *Sim, kind string, pages int, memDeleted, memCreated, mixed, handler, randomStart bool, where string) {
	s.stat("c10."+kind+"_paginations", 1)
	if pages > 1 {
		s.stat("c10."+kind+"_paginations_multipage", 1)
	}
	if memDeleted {
		s.stat("c10."+kind+"_pag_mem_only_deletion", 1)
	}
	if memCreated {
		s.stat("c10."+kind+"_pag_mem_only_creation", 1)
	}
	if mixed {
		s.stat("c10."+kind+"_pag_db_and_mem", 1)
	}
	if handler {
		s.stat("c10.handler_style_paginations", 1)
	}
	if randomStart {
		s.stat("c10.random_start_paginations", 1)
	}
	switch {
	case strings.HasPrefix(where, "after-reload"):
		s.stat("c10.pag_after_reload", 1)
	case strings.HasPrefix(where, "after-crash"):
		s.stat("c10.pag_after_crash", 1)
	}
	if s.led.LatestTrackerCommitted() > 0 {
		s.stat("c10.pag_after_flush", 1)
	} else {
		s.stat("c10.pag_before_first_flush", 1)
	}
}

// ---------------------------------------------------------------------------------------------
// applications

func (o *pagingObs) appPage(s *Sim, ref []pgApp, addr basics.Address, gt basics.AppIndex, limit uint64, includeParams bool, where string) ([]basics.AppIndex, bool) {
	o.calls++
	got, rnd, err := s.led.LookupApplications(addr, gt, limit, includeParams)
	s.stat("c10.app_pages", 1)
	desc := fmt.Sprintf("%s: LookupApplications(%s, appIDGT=%d, limit=%d, includeParams=%v); %s", where, shortAddr(addr), gt, limit, includeParams, s.pgSplit())
	if err != nil {
		s.violate("C10", "app-lookup-error", "", fmt.Sprintf("%s: error %v", desc, err))
		return nil, false
	}
	if rnd != s.latest {
		s.violate("C10", "app-round", "", fmt.Sprintf("%s: answered for round %d, the latest round is %d", desc, rnd, s.latest))
		return nil, false
	}
	var want []pgApp
	for _, e := range ref {
		if e.id > gt && uint64(len(want)) < limit {
			want = append(want, e)
		}
	}
	gotIDs := make([]basics.AppIndex, len(got))
	for i := range got {
		gotIDs[i] = got[i].AppID
	}
	wantIDs := make([]basics.AppIndex, len(want))
	for i := range want {
		wantIDs[i] = want[i].id
	}
	if pgIDs(gotIDs) != pgIDs(wantIDs) {
		db := pgRefApps(s.states[s.led.LatestTrackerCommitted()], addr)
		dbIDs := make([]basics.AppIndex, 0, len(db))
		for _, e := range db {
			if e.id > gt {
				dbIDs = append(dbIDs, e.id)
			}
		}
		all := make([]basics.AppIndex, 0, len(ref))
		for _, e := range ref {
			if e.id > gt {
				all = append(all, e.id)
			}
		}
		s.violate("C10", "app-page-ids", "", fmt.Sprintf("%s: returned app ids %s, expected %s (all apps opted into or created with id > %d at round %d: %s; in the tracker DB state: %s)", desc, pgIDs(gotIDs), pgIDs(wantIDs), gt, s.latest, pgIDs(all), pgIDs(dbIDs)))
		return nil, false
	}
	for i, e := range want {
		g := got[i]
		if encLocal(g.AppLocalState) != encLocal(e.local) {
			s.violate("C10", "app-page-local", "", fmt.Sprintf("%s: app %d local state %+v, history implies %+v", desc, e.id, g.AppLocalState, e.local))
			return nil, false
		}
		wp := e.params
		if !includeParams {
			wp = nil
		}
		if g.Creator != e.creator || encAppParams(g.AppParams) != encAppParams(wp) {
			s.violate("C10", "app-page-params", "", fmt.Sprintf("%s: app %d creator %s params %+v, history implies creator %s params %+v", desc, e.id, shortAddr(g.Creator), g.AppParams, shortAddr(e.creator), wp))
			return nil, false
		}
		if e.params == nil {
			s.stat("c10.app_entry_of_deleted_app", 1)
		}
		if e.local == nil {
			s.stat("c10.app_entry_creator_only", 1)
		}
	}
	return gotIDs, true
}

func (o *pagingObs) appPagination(s *Sim, addr basics.Address, start basics.AppIndex, limit uint64, includeParams, handler bool, where string) {
	st := s.states[s.latest]
	ref := pgRefApps(st, addr)
	var all []basics.AppIndex
	for _, e := range ref {
		if e.id > start {
			all = append(all, e.id)
		}
	}
	dbSet := map[basics.AppIndex]bool{}
	for _, e := range pgRefApps(s.states[s.led.LatestTrackerCommitted()], addr) {
		if e.id > start {
			dbSet[e.id] = true
		}
	}
	refSet := map[basics.AppIndex]bool{}
	memCreated, inBoth := false, false
	for _, id := range all {
		refSet[id] = true
		if dbSet[id] {
			inBoth = true
		} else {
			memCreated = true
		}
	}
	memDeleted := false
	for id := range dbSet {
		if !refSet[id] {
			memDeleted = true
		}
	}
	var seen []basics.AppIndex
	gt := start
	pages := 0
	for guard := 0; guard <= len(all)+2; guard++ {
		ask := limit
		if handler {
			ask = limit + 1
		}
		ids, ok := o.appPage(s, ref, addr, gt, ask, includeParams, where)
		if !ok {
			return
		}
		pages++
		if handler {
			if uint64(len(ids)) <= limit {
				seen = append(seen, ids...)
				break
			}
			ids = ids[:limit]
		}
		seen = append(seen, ids...)
		if uint64(len(ids)) < limit || len(ids) == 0 {
			break
		}
		gt = ids[len(ids)-1]
	}
	if pgIDs(seen) != pgIDs(all) {
		s.violate("C10", "app-pagination", "", fmt.Sprintf("%s: paginating the applications of %s from id > %d with limit %d (handler style %v) listed %s, history implies %s; %s", where, shortAddr(addr), start, limit, handler, pgIDs(seen), pgIDs(all), s.pgSplit()))
		return
	}
	o.pagStats(s, "app", pages, memDeleted, memCreated, inBoth && (memCreated || memDeleted), handler, start != 0, where)
}

// ---------------------------------------------------------------------------------------------
// boxes (kv)

// kvPage performs one LookupKvPairsByPrefix call at round r. It returns the keys of the page and the
// more flag.
func (o *pagingObs) kvPage(s *Sim, r basics.Round, prefix, cursor string, limit, maxBytes uint64, values bool, where string) ([]string, bool, bool) {
	o.calls++
	st := s.states[r]
	got, rnd, more, err := s.led.LookupKvPairsByPrefix(r, prefix, cursor, limit, maxBytes, values)
	s.stat("c10.kv_pages", 1)
	desc := fmt.Sprintf("%s: LookupKvPairsByPrefix(round=%d, prefix=%q, cursor=%q, limit=%d, maxBytes=%d, includeValues=%v); %s", where, r, prefix, cursor, limit, maxBytes, values, s.pgSplit())
	if err != nil {
		s.violate("C10", "kv-lookup-error", "", fmt.Sprintf("%s: error %v inside the served window", desc, err))
		return nil, false, false
	}
	if rnd != r {
		s.violate("C10", "kv-round", "", fmt.Sprintf("%s: answered for round %d", desc, rnd))
		return nil, false, false
	}
	remaining := pgRefKeys(st, prefix, cursor)
	keys := make([]string, len(got))
	for i := range got {
		keys[i] = got[i].Key
	}
	dbKeys := func() string { return pgKeyNames(pgRefKeys(s.states[s.led.LatestTrackerCommitted()], prefix, cursor)) }
	if len(keys) > len(remaining) || strings.Join(keys, "\x01") != strings.Join(remaining[:len(keys)], "\x01") {
		s.violate("C10", "kv-page-keys", "", fmt.Sprintf("%s: returned box names %s, which is not a prefix of the boxes at round %d after the cursor: %s (in the tracker DB state: %s)", desc, pgKeyNames(keys), r, pgKeyNames(remaining), dbKeys()))
		return nil, false, false
	}
	if uint64(len(keys)) > limit {
		s.violate("C10", "kv-page-limit", "", fmt.Sprintf("%s: returned %d entries", desc, len(keys)))
		return nil, false, false
	}
	var size uint64
	for i, kv := range got {
		size += uint64(len(kv.Key) + len(kv.Value))
		if values {
			if !bytes.Equal(kv.Value, st.Kv[kv.Key]) {
				s.violate("C10", "kv-page-value", "", fmt.Sprintf("%s: entry %d box %s value %q, history implies %q", desc, i, pgKeyNames([]string{kv.Key}), kv.Value, st.Kv[kv.Key]))
				return nil, false, false
			}
		} else if len(kv.Value) != 0 {
			s.violate("C10", "kv-page-value", "", fmt.Sprintf("%s: entry %d carries a value (%q) although values were not requested", desc, i, kv.Value))
			return nil, false, false
		}
	}
	if len(keys) > 1 && size > maxBytes {
		s.violate("C10", "kv-page-bytes", "", fmt.Sprintf("%s: %d entries of %d bytes in total exceed the byte cap", desc, len(keys), size))
		return nil, false, false
	}
	if len(keys) == 1 && size > maxBytes {
		s.stat("c10.kv_single_entry_over_cap", 1)
	}
	if len(remaining) > 0 && len(keys) == 0 {
		s.violate("C10", "kv-page-empty", "", fmt.Sprintf("%s: empty page although boxes %s remain", desc, pgKeyNames(remaining)))
		return nil, false, false
	}
	if more != (len(keys) < len(remaining)) {
		s.violate("C10", "kv-page-more", "", fmt.Sprintf("%s: returned %s with more=%v, but the boxes after the cursor at round %d are %s (in the tracker DB state: %s)", desc, pgKeyNames(keys), more, r, pgKeyNames(remaining), dbKeys()))
		return nil, false, false
	}
	// greedy fill of the reference (what a page can hold at most)
	greedy, gsize := 0, uint64(0)
	for _, k := range remaining {
		sz := uint64(len(k))
		if values {
			sz += uint64(len(st.Kv[k]))
		}
		if uint64(greedy) >= limit || (greedy > 0 && gsize+sz > maxBytes) {
			break
		}
		greedy++
		gsize += sz
	}
	fullByLimit := len(remaining)
	if limit < uint64(fullByLimit) {
		fullByLimit = int(limit)
	}
	switch {
	case len(keys) == fullByLimit && len(keys) < len(remaining):
		s.stat("c10.kv_page_cut_by_limit", 1)
	case len(keys) < fullByLimit:
		s.stat("c10.kv_page_cut_by_bytes", 1)
		if len(keys) < greedy {
			s.stat("c10.kv_page_shorter_than_greedy", 1)
		}
	}
	if maxBytes >= 1<<20 && len(keys) != fullByLimit {
		// a byte cap far above the size of the whole state cannot bind: only the limit can cut the page
		s.violate("C10", "kv-page-short", "", fmt.Sprintf("%s: returned only %s although neither limit nor byte cap bind; boxes after the cursor: %s", desc, pgKeyNames(keys), pgKeyNames(remaining)))
		return nil, false, false
	}
	return keys, more, true
}

func (o *pagingObs) kvPagination(s *Sim, r basics.Round, prefix, cursor string, limit, maxBytes uint64, values bool, where string) {
	all := pgRefKeys(s.states[r], prefix, cursor)
	dbr := s.led.LatestTrackerCommitted()
	dbSet := map[string]bool{}
	for _, k := range pgRefKeys(s.states[dbr], prefix, cursor) {
		dbSet[k] = true
	}
	refSet := map[string]bool{}
	memCreated, inBoth := false, false
	for _, k := range all {
		refSet[k] = true
		if dbSet[k] {
			inBoth = true
		} else {
			memCreated = true
		}
	}
	memDeleted := false
	for k := range dbSet {
		if !refSet[k] {
			memDeleted = true
		}
	}
	var seen []string
	cur := cursor
	pages := 0
	for guard := 0; guard <= len(all)+2; guard++ {
		keys, more, ok := o.kvPage(s, r, prefix, cur, limit, maxBytes, values, where)
		if !ok {
			return
		}
		pages++
		seen = append(seen, keys...)
		if !more || len(keys) == 0 {
			break
		}
		cur = keys[len(keys)-1]
	}
	if strings.Join(seen, "\x01") != strings.Join(all, "\x01") {
		s.violate("C10", "kv-pagination", "", fmt.Sprintf("%s: paginating prefix %q from cursor %q at round %d (limit %d, maxBytes %d, values %v) listed %s, history implies %s; %s", where, prefix, cursor, r, limit, maxBytes, values, pgKeyNames(seen), pgKeyNames(all), s.pgSplit()))
		return
	}
	o.pagStats(s, "kv", pages, memDeleted, memCreated, inBoth && (memCreated || memDeleted), false, cursor != "", where)
	if r < s.latest {
		s.stat("c10.kv_old_round", 1)
	}
	if values {
		s.stat("c10.kv_values", 1)
	}
	if len(prefix) > 11 {
		s.stat("c10.kv_partial_name_prefix", 1)
	}
}

func (o *pagingObs) keysByPrefix(s *Sim, r basics.Round, prefix string, max uint64, where string) {
	o.calls++
	got, err := s.led.LookupKeysByPrefix(r, prefix, max)
	s.stat("c10.keys_calls", 1)
	desc := fmt.Sprintf("%s: LookupKeysByPrefix(round=%d, prefix=%q, max=%d); %s", where, r, prefix, max, s.pgSplit())
	if err != nil {
		s.violate("C10", "keys-lookup-error", "", fmt.Sprintf("%s: error %v inside the served window", desc, err))
		return
	}
	ref := pgRefKeys(s.states[r], prefix, "")
	refSet := map[string]bool{}
	for _, k := range ref {
		refSet[k] = true
	}
	sorted := append([]string(nil), got...)
	sort.Strings(sorted)
	for i, k := range sorted {
		if i > 0 && sorted[i-1] == k {
			s.violate("C10", "keys-duplicate", "", fmt.Sprintf("%s: box %q returned twice (%s)", desc, k, pgKeyNames(sorted)))
			return
		}
		if !refSet[k] {
			s.violate("C10", "keys-phantom", "", fmt.Sprintf("%s: returned %s, but the boxes at that round are %s", desc, pgKeyNames(sorted), pgKeyNames(ref)))
			return
		}
	}
	if uint64(len(sorted)) != min(max, uint64(len(ref))) {
		s.violate("C10", "keys-count", "", fmt.Sprintf("%s: returned %d keys %s, the boxes at that round are %s", desc, len(sorted), pgKeyNames(sorted), pgKeyNames(ref)))
	}
}

// ---------------------------------------------------------------------------------------------
// sweeps

var pgLimits = []uint64{1, 2, 3, 5, 1000}
var pgKvLimits = []uint64{1, 2, 3, 100}
var pgKvBytes = []uint64{1, 20, 100, 1 << 20}

const pgMaxCalls = 260

// kvApps lists the application ids that have (or had, inside the served window) boxes.
func (s *Sim) pgKvApps() []basics.AppIndex {
	set := map[basics.AppIndex]bool{}
	for _, r := range []basics.Round{s.led.LatestTrackerCommitted(), s.latest} {
		_, ids := refBoxes(s.states[r])
		for _, id := range ids {
			set[id] = true
		}
	}
	l := make([]basics.AppIndex, 0, len(set))
	for id := range set {
		l = append(l, id)
	}
	sort.Slice(l, func(i, j int) bool { return l[i] < l[j] })
	return l
}

func (o *pagingObs) sweep(s *Sim, rg *rand.Rand, where string, exhaustive bool) {
	o.calls = 0
	st := s.states[s.latest]
	dbr := s.led.LatestTrackerCommitted()
	if st == nil || s.states[dbr] == nil {
		s.harness = fmt.Sprintf("C10: no reference state for round %d / %d", s.latest, dbr)
		return
	}
	foc := pgFocus()
	pickAddr := func() basics.Address {
		if rg.IntN(5) == 0 {
			as := Accounts()
			return as[rg.IntN(len(as))].Addr
		}
		return foc[rg.IntN(len(foc))].Addr
	}
	pickStart := func(ids []uint64) uint64 {
		switch rg.IntN(6) {
		case 0:
			if len(ids) > 0 {
				return ids[rg.IntN(len(ids))]
			}
		case 1:
			if len(ids) > 0 {
				return ids[rg.IntN(len(ids))] - 1
			}
		case 2:
			if len(ids) > 0 {
				return uint64(rg.IntN(int(ids[len(ids)-1]) + 3))
			}
		}
		return 0
	}
	assetIDsOf := func(a basics.Address) []uint64 {
		var l []uint64
		for _, e := range pgRefAssets(st, a) {
			l = append(l, uint64(e.id))
		}
		for _, e := range pgRefAssets(s.states[dbr], a) { // ids that existed in the DB state are interesting starts too
			l = append(l, uint64(e.id))
		}
		sort.Slice(l, func(i, j int) bool { return l[i] < l[j] })
		return l
	}
	appIDsOf := func(a basics.Address) []uint64 {
		var l []uint64
		for _, e := range pgRefApps(st, a) {
			l = append(l, uint64(e.id))
		}
		for _, e := range pgRefApps(s.states[dbr], a) {
			l = append(l, uint64(e.id))
		}
		sort.Slice(l, func(i, j int) bool { return l[i] < l[j] })
		return l
	}
	if exhaustive {
		for _, f := range foc {
			for _, lim := range []uint64{1, 2, 3} {
				if s.viol != nil || o.calls > pgMaxCalls {
					return
				}
				o.assetPagination(s, f.Addr, 0, lim, lim == 2, where)
				if s.viol == nil {
					o.appPagination(s, f.Addr, 0, lim, lim != 1, lim == 3, where)
				}
			}
		}
	}
	// assets and applications of sampled accounts
	for i := 0; i < 2 && s.viol == nil && o.calls < pgMaxCalls; i++ {
		a := pickAddr()
		lim := pgLimits[rg.IntN(len(pgLimits))]
		o.assetPagination(s, a, basics.AssetIndex(pickStart(assetIDsOf(a))), lim, rg.IntN(2) == 0, where)
		if s.viol != nil {
			return
		}
		lim = pgLimits[rg.IntN(len(pgLimits))]
		o.appPagination(s, a, basics.AppIndex(pickStart(appIDsOf(a))), lim, rg.IntN(2) == 0, rg.IntN(2) == 0, where)
		if s.viol != nil {
			return
		}
		// single calls
		a = pickAddr()
		if _, ok := o.assetPage(s, pgRefAssets(st, a), a, basics.AssetIndex(pickStart(assetIDsOf(a))), pgLimits[rg.IntN(len(pgLimits))], where); !ok {
			return
		}
		if _, ok := o.appPage(s, pgRefApps(st, a), a, basics.AppIndex(pickStart(appIDsOf(a))), pgLimits[rg.IntN(len(pgLimits))], rg.IntN(2) == 0, where); !ok {
			return
		}
	}
	// boxes
	apps := s.pgKvApps()
	lo, hi := s.served()
	pickRound := func() basics.Round {
		if lo >= hi || rg.IntN(2) == 0 {
			return hi
		}
		return lo + basics.Round(rg.IntN(int(hi-lo)+1))
	}
	pickPrefix := func(r basics.Round) string {
		var app basics.AppIndex
		if len(apps) > 0 && rg.IntN(12) != 0 {
			app = apps[rg.IntN(len(apps))]
		} else {
			app = basics.AppIndex(1 + rg.IntN(1500))
		}
		p := boxKeyPrefix(app)
		if rg.IntN(3) == 0 {
			// partial box name: a prefix of an existing name (any round of the window) or of a library name
			names := append([]string(nil), pgBoxNames...)
			for _, k := range pgRefKeys(s.states[r], p, "") {
				names = append(names, k[len(p):])
			}
			n := names[rg.IntN(len(names))]
			p += n[:rg.IntN(len(n)+1)]
		}
		return p
	}
	pickCursor := func(r basics.Round, prefix string) string {
		base := prefix
		if len(base) > 11 {
			base = base[:11]
		}
		keys := pgRefKeys(s.states[r], base, "")
		keys = append(keys, pgRefKeys(s.states[dbr], base, "")...) // keys deleted in memory are valid cursors of an earlier page
		switch rg.IntN(8) {
		case 0, 1:
			if len(keys) > 0 {
				return keys[rg.IntN(len(keys))]
			}
		case 2:
			if len(keys) > 0 {
				s.stat("c10.kv_cursor_nonexistent", 1)
				k := keys[rg.IntN(len(keys))]
				switch rg.IntN(3) {
				case 0:
					return k + "\x00"
				case 1:
					return k[:len(k)-1]
				default:
					return k + "~"
				}
			}
		case 3:
			s.stat("c10.kv_cursor_nonexistent", 1)
			return base + pgBoxNames[rg.IntN(len(pgBoxNames))]
		case 4:
			if rg.IntN(2) == 0 {
				return "bx" // sorts before every box key
			}
			return base + "\xff\xff\xff"
		}
		return ""
	}
	n := 3
	if exhaustive {
		n = 6
	}
	for i := 0; i < n && s.viol == nil && o.calls < pgMaxCalls; i++ {
		r := pickRound()
		p := pickPrefix(r)
		o.kvPagination(s, r, p, pickCursor(r, p), pgKvLimits[rg.IntN(len(pgKvLimits))], pgKvBytes[rg.IntN(len(pgKvBytes))], rg.IntN(2) == 0, where)
	}
	for i := 0; i < 2 && s.viol == nil && o.calls < pgMaxCalls; i++ {
		r := pickRound()
		p := pickPrefix(r)
		if _, _, ok := o.kvPage(s, r, p, pickCursor(r, p), pgKvLimits[rg.IntN(len(pgKvLimits))], pgKvBytes[rg.IntN(len(pgKvBytes))], rg.IntN(2) == 0, where); !ok {
			return
		}
	}
	if s.viol == nil {
		r := pickRound()
		o.keysByPrefix(s, r, pickPrefix(r), []uint64{1, 2, 3, 1000, 1 << 40}[rg.IntN(5)], where)
	}
}

// AfterBlock implements PostBlock.
func (o *pagingObs) AfterBlock(s *Sim, qseed uint64) {
	o.sweep(s, rand.New(rand.NewPCG(qseed, 0xC10)), "after-block", false)
}

// AfterReopen implements PostReopen: everything is in the DB or was replayed from the block DB.
func (o *pagingObs) AfterReopen(s *Sim, why string) {
	o.sweep(s, rand.New(rand.NewPCG(uint64(s.step)<<16|uint64(s.latest), 0xC10A)), "after-"+why, true)
}
