package ledgersim

import (
	"testing"

	"verif/sim/kernel"
)

func TestWorker(t *testing.T) {
	defer CleanupScratch()
	kernel.WorkerMain(t, Engine{})
}
