package ledgersim

import (
	"bytes"
	"encoding/binary"
	"encoding/hex"
	"fmt"
	"math/rand/v2"
	"path/filepath"
	"sort"
	"strings"

	"github.com/algorand/msgp/msgp"

	"github.com/algorand/go-algorand/data/basics"
	"github.com/algorand/go-algorand/ledger"
	"github.com/algorand/go-algorand/ledger/encoded"
	"github.com/algorand/go-algorand/ledger/ledgercore"
	"github.com/algorand/go-algorand/ledger/store/trackerdb"
	"github.com/algorand/go-algorand/protocol"
	"github.com/algorand/go-algorand/util/db"

	"verif/sim/kernel"
)

// C15 semantic single-entry tamper fault (DESIGN.md §4 C15, F6): ONE entry of one decoded chunk is
// rewritten into a different well-formed entry and the chunk re-encoded; nothing else changes, or -
// variant "fixup" - the dependent counters (per-account resource counts, header counts, a second
// account so that the money totals stay true) are adjusted so that simple count checks still pass.
// The consumer then runs the real ResetStagingBalances / ProcessStagingBalances / BuildMerkleTrie /
// VerifyCatchpoint with the ORIGINAL label.
//
// Oracle: the consumer's STAGED state (the catchpoint* staging tables it would adopt, read through a
// second read-only SQLite connection) is compared with the staged state of the untampered file. If it
// differs and VerifyCatchpoint passes, two different states carry one label: violation, Key = tamper class.

type cpRef struct{ sec, idx int }

type cpEdit struct {
	secs   []cpSection
	chunks []*ledger.CatchpointSnapshotChunkV6
	dirty  map[int]bool
	hdr    ledger.CatchpointFileHeader
	hdrSec int
	hdrMod bool
	rg     *rand.Rand
	fixup  bool
}

func newCpEdit(secs []cpSection, rg *rand.Rand, fixup bool) (*cpEdit, error) {
	e := &cpEdit{secs: append([]cpSection{}, secs...), chunks: make([]*ledger.CatchpointSnapshotChunkV6, len(secs)), dirty: map[int]bool{}, rg: rg, fixup: fixup, hdrSec: -1}
	for i, s := range secs {
		if s.Name == cpContentName && e.hdrSec < 0 {
			if err := protocol.Decode(s.Data, &e.hdr); err != nil {
				return nil, err
			}
			e.hdrSec = i
		}
		if isBalancesSection(s.Name) {
			c, err := decodeChunk(s.Data)
			if err != nil {
				return nil, err
			}
			e.chunks[i] = &c
		}
	}
	return e, nil
}

func (e *cpEdit) finish() []cpSection {
	for i := range e.secs {
		if e.dirty[i] {
			e.secs[i] = cpSection{Name: e.secs[i].Name, Data: encodeChunk(e.chunks[i])}
		}
	}
	if e.hdrMod && e.hdrSec >= 0 {
		e.secs[e.hdrSec] = cpSection{Name: cpContentName, Data: protocol.Encode(&e.hdr)}
	}
	return e.secs
}

// complete account records
func (e *cpEdit) accts() []cpRef {
	var l []cpRef
	for i, c := range e.chunks {
		if c == nil {
			continue
		}
		for j, b := range c.Balances {
			if !b.ExpectingMoreEntries {
				l = append(l, cpRef{i, j})
			}
		}
	}
	return l
}

func (e *cpEdit) rec(r cpRef) *encoded.BalanceRecordV6 { return &e.chunks[r.sec].Balances[r.idx] }

// modBase rewrites the account data of addr in every record that carries it (a split account repeats it).
func (e *cpEdit) modBase(addr basics.Address, f func(b *trackerdb.BaseAccountData)) bool {
	done := false
	for i, c := range e.chunks {
		if c == nil {
			continue
		}
		for j := range c.Balances {
			if c.Balances[j].Address != addr {
				continue
			}
			b, err := decodeBase(c.Balances[j].AccountData)
			if err != nil {
				return false
			}
			f(&b)
			c.Balances[j].AccountData = protocol.Encode(&b)
			e.dirty[i] = true
			done = true
		}
	}
	return done
}

type cpResRef struct {
	sec, idx int
	cidx     uint64
}

func (e *cpEdit) resources(pred func(r *trackerdb.ResourcesData) bool) []cpResRef {
	var l []cpResRef
	for i, c := range e.chunks {
		if c == nil {
			continue
		}
		for j, b := range c.Balances {
			for _, k := range sortedResKeys(b.Resources) {
				r, err := decodeRes(b.Resources[k])
				if err == nil && (pred == nil || pred(&r)) {
					l = append(l, cpResRef{i, j, k})
				}
			}
		}
	}
	return l
}

func (e *cpEdit) setRes(ref cpResRef, r *trackerdb.ResourcesData) {
	e.chunks[ref.sec].Balances[ref.idx].Resources[ref.cidx] = protocol.Encode(r)
	e.dirty[ref.sec] = true
}

func (e *cpEdit) kvs() []cpRef {
	var l []cpRef
	for i, c := range e.chunks {
		if c == nil {
			continue
		}
		for j := range c.KVs {
			l = append(l, cpRef{i, j})
		}
	}
	return l
}

func (e *cpEdit) hasKey(k []byte) bool {
	for _, c := range e.chunks {
		if c == nil {
			continue
		}
		for _, kv := range c.KVs {
			if bytes.Equal(kv.Key, k) {
				return true
			}
		}
	}
	return false
}

func (e *cpEdit) hasAddr(a basics.Address) bool {
	for _, c := range e.chunks {
		if c == nil {
			continue
		}
		for _, b := range c.Balances {
			if b.Address == a {
				return true
			}
		}
	}
	return false
}

func cpPick[T any](rg *rand.Rand, l []T) (T, bool) {
	var z T
	if len(l) == 0 {
		return z, false
	}
	return l[rg.IntN(len(l))], true
}

// counters of an account that must match its resources (checked by processStagingBalances)
func cpCount(b *trackerdb.BaseAccountData, r *trackerdb.ResourcesData, d int64) {
	add := func(p *uint64) { *p = uint64(int64(*p) + d) }
	if r.IsApp() && r.IsOwning() {
		add(&b.TotalAppParams)
	}
	if r.IsApp() && r.IsHolding() {
		add(&b.TotalAppLocalStates)
	}
	if r.IsAsset() && r.IsOwning() {
		add(&b.TotalAssetParams)
	}
	if r.IsAsset() && r.IsHolding() {
		add(&b.TotalAssets)
	}
}

type cpTamper struct {
	class string
	apply func(e *cpEdit) string // "" = not applicable to this file
}

func tamperBalance(d int64) func(e *cpEdit) string {
	return func(e *cpEdit) string {
		var cand []cpRef
		for _, r := range e.accts() {
			if b, err := decodeBase(e.rec(r).AccountData); err == nil && b.MicroAlgos.Raw > 2 {
				cand = append(cand, r)
			}
		}
		r, ok := cpPick(e.rg, cand)
		if !ok {
			return ""
		}
		addr := e.rec(r).Address
		var st basics.Status
		e.modBase(addr, func(b *trackerdb.BaseAccountData) {
			b.MicroAlgos.Raw = uint64(int64(b.MicroAlgos.Raw) + d)
			st = b.Status
		})
		desc := fmt.Sprintf("account %s micro-algos %+d", shortAddr(addr), d)
		if e.fixup {
			// keep the money totals true: the opposite change on another account of the same status
			for _, r2 := range cand {
				a2 := e.rec(r2).Address
				if b2, _ := decodeBase(e.rec(r2).AccountData); a2 != addr && b2.Status == st {
					e.modBase(a2, func(b *trackerdb.BaseAccountData) { b.MicroAlgos.Raw = uint64(int64(b.MicroAlgos.Raw) - d) })
					return desc + fmt.Sprintf(", account %s %+d (totals stay true)", shortAddr(a2), -d)
				}
			}
		}
		return desc
	}
}

var cpTampers = []cpTamper{
	{"kv-boundary-shift", func(e *cpEdit) string {
		// name "ab" value "c.." -> name "a" value "bc.." (or the other way round): same application, same
		// number of boxes, same total box bytes
		type cand struct {
			r    cpRef
			left bool
		}
		var cs []cand
		for _, r := range e.kvs() {
			kv := e.chunks[r.sec].KVs[r.idx]
			if _, name, ok := cpBoxSplit(string(kv.Key)); ok {
				if len(name) >= 2 && !e.hasKey(kv.Key[:len(kv.Key)-1]) {
					cs = append(cs, cand{r, true})
				}
				if len(kv.Value) >= 1 && len(name) < 64 && !e.hasKey(append(append([]byte{}, kv.Key...), kv.Value[0])) {
					cs = append(cs, cand{r, false})
				}
			}
		}
		c, ok := cpPick(e.rg, cs)
		if !ok {
			return ""
		}
		kv := &e.chunks[c.r.sec].KVs[c.r.idx]
		app, name, _ := cpBoxSplit(string(kv.Key))
		oldv := len(kv.Value)
		if c.left {
			n := len(kv.Key)
			kv.Value = append([]byte{kv.Key[n-1]}, kv.Value...)
			kv.Key = append([]byte{}, kv.Key[:n-1]...)
		} else {
			kv.Key = append(append([]byte{}, kv.Key...), kv.Value[0])
			kv.Value = append([]byte{}, kv.Value[1:]...)
		}
		e.dirty[c.r.sec] = true
		_, nn, _ := cpBoxSplit(string(kv.Key))
		return fmt.Sprintf("app %d box name %q (value %d bytes) -> name %q (value %d bytes): one byte moved across the name/value boundary", app, name, oldv, nn, len(kv.Value))
	}},
	{"balance-plus-one", tamperBalance(+1)},
	{"balance-minus-one", tamperBalance(-1)},
	{"swap-account-data", func(e *cpEdit) string {
		as := e.accts()
		var pairs [][2]cpRef
		for i := range as {
			for j := i + 1; j < len(as); j++ {
				a, b := e.rec(as[i]), e.rec(as[j])
				if bytes.Equal(a.AccountData, b.AccountData) {
					continue
				}
				if e.fixup { // same resource counters, so that the per-account count check passes
					x, _ := decodeBase(a.AccountData)
					y, _ := decodeBase(b.AccountData)
					if x.TotalAssets != y.TotalAssets || x.TotalAssetParams != y.TotalAssetParams || x.TotalAppParams != y.TotalAppParams || x.TotalAppLocalStates != y.TotalAppLocalStates {
						continue
					}
				}
				pairs = append(pairs, [2]cpRef{as[i], as[j]})
			}
		}
		p, ok := cpPick(e.rg, pairs)
		if !ok {
			return ""
		}
		a, b := e.rec(p[0]), e.rec(p[1])
		da, dbb := append(msgp.Raw{}, a.AccountData...), append(msgp.Raw{}, b.AccountData...)
		aa, ab := a.Address, b.Address
		e.modBase(aa, func(x *trackerdb.BaseAccountData) { *x, _ = decodeBase(dbb) })
		e.modBase(ab, func(x *trackerdb.BaseAccountData) { *x, _ = decodeBase(da) })
		return fmt.Sprintf("account data of %s and %s swapped", shortAddr(aa), shortAddr(ab))
	}},
	{"account-address-changed", func(e *cpEdit) string {
		var cand []cpRef
		for _, r := range e.accts() {
			if len(e.rec(r).Resources) == 0 {
				cand = append(cand, r)
			}
		}
		r, ok := cpPick(e.rg, cand)
		if !ok {
			return ""
		}
		old := e.rec(r).Address
		na := old
		na[31] ^= 1
		if e.hasAddr(na) {
			return ""
		}
		e.rec(r).Address = na
		e.dirty[r.sec] = true
		return fmt.Sprintf("account %s moved to address %x..%x", shortAddr(old), na[:3], na[29:])
	}},
	{"account-field-changed", func(e *cpEdit) string {
		r, ok := cpPick(e.rg, e.accts())
		if !ok {
			return ""
		}
		addr := e.rec(r).Address
		what := ""
		e.modBase(addr, func(b *trackerdb.BaseAccountData) {
			switch e.rg.IntN(6) {
			case 0:
				b.RewardsBase++
				what = "RewardsBase+1"
			case 1:
				b.AuthAddr[0] ^= 1
				what = "AuthAddr changed"
			case 2:
				b.UpdateRound++
				what = "UpdateRound+1"
			case 3:
				b.RewardedMicroAlgos.Raw++
				what = "RewardedMicroAlgos+1"
			case 4:
				b.TotalBoxBytes++
				what = "TotalBoxBytes+1"
			default:
				if b.Status == basics.Offline {
					b.Status = basics.NotParticipating
				} else if b.Status == basics.NotParticipating {
					b.Status = basics.Offline
				} else {
					b.VoteLastValid++
				}
				what = "status/vote validity changed"
			}
		})
		return fmt.Sprintf("account %s: %s", shortAddr(addr), what)
	}},
	{"resource-moved", func(e *cpEdit) string {
		rs := e.resources(func(r *trackerdb.ResourcesData) bool { return !r.IsOwning() })
		ref, ok := cpPick(e.rg, rs)
		if !ok {
			return ""
		}
		from := e.chunks[ref.sec].Balances[ref.idx].Address
		var tos []cpRef
		for _, a := range e.accts() {
			if _, has := e.rec(a).Resources[ref.cidx]; !has && e.rec(a).Address != from {
				tos = append(tos, a)
			}
		}
		to, ok := cpPick(e.rg, tos)
		if !ok {
			return ""
		}
		raw := e.chunks[ref.sec].Balances[ref.idx].Resources[ref.cidx]
		rd, _ := decodeRes(raw)
		delete(e.chunks[ref.sec].Balances[ref.idx].Resources, ref.cidx)
		if len(e.chunks[ref.sec].Balances[ref.idx].Resources) == 0 {
			e.chunks[ref.sec].Balances[ref.idx].Resources = nil
		}
		tr := e.rec(to)
		if tr.Resources == nil {
			tr.Resources = map[uint64]msgp.Raw{}
		}
		tr.Resources[ref.cidx] = raw
		e.dirty[ref.sec], e.dirty[to.sec] = true, true
		toAddr := tr.Address
		if e.fixup {
			e.modBase(from, func(b *trackerdb.BaseAccountData) { cpCount(b, &rd, -1) })
			e.modBase(toAddr, func(b *trackerdb.BaseAccountData) { cpCount(b, &rd, +1) })
		}
		return fmt.Sprintf("holding of creatable %d moved from %s to %s", ref.cidx, shortAddr(from), shortAddr(toAddr))
	}},
	{"resource-index-changed", func(e *cpEdit) string {
		ref, ok := cpPick(e.rg, e.resources(func(r *trackerdb.ResourcesData) bool { return !r.IsOwning() }))
		if !ok {
			return ""
		}
		m := e.chunks[ref.sec].Balances[ref.idx].Resources
		ni := ref.cidx + 1
		if _, has := m[ni]; has {
			return ""
		}
		m[ni] = m[ref.cidx]
		delete(m, ref.cidx)
		e.dirty[ref.sec] = true
		return fmt.Sprintf("holding of creatable %d of %s re-labelled creatable %d", ref.cidx, shortAddr(e.chunks[ref.sec].Balances[ref.idx].Address), ni)
	}},
	{"resource-kind-flip", func(e *cpEdit) string {
		// an asset holding becomes an (empty) application opt-in of the same index, or vice versa
		rs := e.resources(func(r *trackerdb.ResourcesData) bool {
			return !r.IsOwning() && r.IsHolding() && ((r.IsAsset() && !r.IsApp()) || (r.IsApp() && !r.IsAsset() && len(r.KeyValue) == 0))
		})
		ref, ok := cpPick(e.rg, rs)
		if !ok {
			return ""
		}
		old, _ := decodeRes(e.chunks[ref.sec].Balances[ref.idx].Resources[ref.cidx])
		nr := trackerdb.MakeResourcesData(old.UpdateRound)
		dir := ""
		if old.IsAsset() {
			nr.SetAppLocalState(basics.AppLocalState{})
			dir = "asset holding -> application opt-in"
		} else {
			nr.SetAssetHolding(basics.AssetHolding{})
			dir = "application opt-in -> asset holding"
		}
		e.setRes(ref, &nr)
		addr := e.chunks[ref.sec].Balances[ref.idx].Address
		if e.fixup {
			e.modBase(addr, func(b *trackerdb.BaseAccountData) { cpCount(b, &old, -1); cpCount(b, &nr, +1) })
		}
		return fmt.Sprintf("%s creatable %d: %s", shortAddr(addr), ref.cidx, dir)
	}},
	{"asset-holding-amount", func(e *cpEdit) string {
		ref, ok := cpPick(e.rg, e.resources(func(r *trackerdb.ResourcesData) bool { return r.IsAsset() && r.IsHolding() }))
		if !ok {
			return ""
		}
		r, _ := decodeRes(e.chunks[ref.sec].Balances[ref.idx].Resources[ref.cidx])
		if r.Amount > 0 && e.rg.IntN(2) == 0 {
			r.Amount--
		} else {
			r.Amount++
		}
		r.SetAssetHolding(r.GetAssetHolding())
		e.setRes(ref, &r)
		return fmt.Sprintf("%s holding of asset %d amount -> %d", shortAddr(e.chunks[ref.sec].Balances[ref.idx].Address), ref.cidx, r.Amount)
	}},
	{"asset-params-changed", func(e *cpEdit) string {
		ref, ok := cpPick(e.rg, e.resources(func(r *trackerdb.ResourcesData) bool { return r.IsAsset() && r.IsOwning() }))
		if !ok {
			return ""
		}
		r, _ := decodeRes(e.chunks[ref.sec].Balances[ref.idx].Resources[ref.cidx])
		r.Total++
		e.setRes(ref, &r)
		return fmt.Sprintf("asset %d total -> %d", ref.cidx, r.Total)
	}},
	{"app-global-state-value", func(e *cpEdit) string {
		ref, ok := cpPick(e.rg, e.resources(func(r *trackerdb.ResourcesData) bool { return r.IsApp() && r.IsOwning() && len(r.GlobalState) > 0 }))
		if !ok {
			return ""
		}
		r, _ := decodeRes(e.chunks[ref.sec].Balances[ref.idx].Resources[ref.cidx])
		k := cpTweakTKV(r.GlobalState, e.rg)
		e.setRes(ref, &r)
		return fmt.Sprintf("app %d global state key %q value changed", ref.cidx, k)
	}},
	{"app-local-state-value", func(e *cpEdit) string {
		ref, ok := cpPick(e.rg, e.resources(func(r *trackerdb.ResourcesData) bool { return r.IsApp() && r.IsHolding() && len(r.KeyValue) > 0 }))
		if !ok {
			return ""
		}
		r, _ := decodeRes(e.chunks[ref.sec].Balances[ref.idx].Resources[ref.cidx])
		k := cpTweakTKV(r.KeyValue, e.rg)
		e.setRes(ref, &r)
		return fmt.Sprintf("%s local state of app %d key %q value changed", shortAddr(e.chunks[ref.sec].Balances[ref.idx].Address), ref.cidx, k)
	}},
	{"app-program-byte", func(e *cpEdit) string {
		ref, ok := cpPick(e.rg, e.resources(func(r *trackerdb.ResourcesData) bool { return r.IsApp() && r.IsOwning() && len(r.ApprovalProgram) > 1 }))
		if !ok {
			return ""
		}
		r, _ := decodeRes(e.chunks[ref.sec].Balances[ref.idx].Resources[ref.cidx])
		r.ApprovalProgram = append([]byte{}, r.ApprovalProgram...)
		i := 1 + e.rg.IntN(len(r.ApprovalProgram)-1)
		r.ApprovalProgram[i] ^= 1
		e.setRes(ref, &r)
		return fmt.Sprintf("app %d approval program byte %d changed", ref.cidx, i)
	}},
	{"kv-value-byte", func(e *cpEdit) string {
		var cand []cpRef
		for _, r := range e.kvs() {
			if len(e.chunks[r.sec].KVs[r.idx].Value) > 0 {
				cand = append(cand, r)
			}
		}
		r, ok := cpPick(e.rg, cand)
		if !ok {
			return ""
		}
		kv := &e.chunks[r.sec].KVs[r.idx]
		kv.Value = append([]byte{}, kv.Value...)
		i := e.rg.IntN(len(kv.Value))
		kv.Value[i] ^= 1 << uint(e.rg.IntN(8))
		e.dirty[r.sec] = true
		return fmt.Sprintf("kv %q value byte %d changed", kv.Key, i)
	}},
	{"kv-key-byte", func(e *cpEdit) string {
		r, ok := cpPick(e.rg, e.kvs())
		if !ok {
			return ""
		}
		kv := &e.chunks[r.sec].KVs[r.idx]
		if len(kv.Key) < 12 {
			return ""
		}
		nk := append([]byte{}, kv.Key...)
		i := 11 + e.rg.IntN(len(nk)-11)
		nk[i] ^= 1 << uint(e.rg.IntN(7))
		if e.hasKey(nk) {
			return ""
		}
		old := string(kv.Key)
		kv.Key = nk
		e.dirty[r.sec] = true
		return fmt.Sprintf("kv key %q -> %q", old, nk)
	}},
	{"dup-account", func(e *cpEdit) string {
		r, ok := cpPick(e.rg, e.accts())
		if !ok {
			return ""
		}
		c := e.chunks[r.sec]
		c.Balances = append(c.Balances, c.Balances[r.idx])
		e.dirty[r.sec] = true
		if e.fixup {
			e.hdr.TotalAccounts++
			e.hdrMod = true
		}
		return fmt.Sprintf("account record of %s duplicated", shortAddr(c.Balances[r.idx].Address))
	}},
	{"dup-kv", func(e *cpEdit) string {
		r, ok := cpPick(e.rg, e.kvs())
		if !ok {
			return ""
		}
		c := e.chunks[r.sec]
		c.KVs = append(c.KVs, c.KVs[r.idx])
		e.dirty[r.sec] = true
		if e.fixup {
			e.hdr.TotalKVs++
			e.hdrMod = true
		}
		return fmt.Sprintf("kv record %q duplicated", c.KVs[r.idx].Key)
	}},
	{"remove-account", func(e *cpEdit) string {
		var cand []cpRef
		for _, r := range e.accts() {
			if len(e.rec(r).Resources) == 0 {
				cand = append(cand, r)
			}
		}
		r, ok := cpPick(e.rg, cand)
		if !ok || len(e.chunks[r.sec].Balances) < 2 {
			return ""
		}
		c := e.chunks[r.sec]
		addr := c.Balances[r.idx].Address
		b, _ := decodeBase(c.Balances[r.idx].AccountData)
		c.Balances = append(append([]encoded.BalanceRecordV6{}, c.Balances[:r.idx]...), c.Balances[r.idx+1:]...)
		e.dirty[r.sec] = true
		if e.fixup {
			e.hdr.TotalAccounts--
			e.hdrMod = true
		}
		return fmt.Sprintf("account record of %s (%d micro-algos) removed", shortAddr(addr), b.MicroAlgos.Raw)
	}},
	{"remove-kv", func(e *cpEdit) string {
		r, ok := cpPick(e.rg, e.kvs())
		if !ok || len(e.chunks[r.sec].KVs) < 2 {
			return ""
		}
		c := e.chunks[r.sec]
		kv := c.KVs[r.idx]
		c.KVs = append(append([]encoded.KVRecordV6{}, c.KVs[:r.idx]...), c.KVs[r.idx+1:]...)
		e.dirty[r.sec] = true
		if e.fixup {
			e.hdr.TotalKVs--
			e.hdrMod = true
			if app, name, ok := cpBoxSplit(string(kv.Key)); ok {
				e.modBase(app.Address(), func(b *trackerdb.BaseAccountData) {
					b.TotalBoxes--
					b.TotalBoxBytes -= uint64(len(name) + len(kv.Value))
				})
			}
		}
		return fmt.Sprintf("kv record %q removed", kv.Key)
	}},
	{"online-account-changed", func(e *cpEdit) string {
		var cand []cpRef
		for i, c := range e.chunks {
			if c != nil {
				for j := range c.OnlineAccounts {
					cand = append(cand, cpRef{i, j})
				}
			}
		}
		r, ok := cpPick(e.rg, cand)
		if !ok {
			return ""
		}
		oa := &e.chunks[r.sec].OnlineAccounts[r.idx]
		what := ""
		switch e.rg.IntN(4) {
		case 0:
			oa.NormalizedOnlineBalance++
			what = "normalized balance +1"
		case 1:
			oa.VoteLastValid++
			what = "vote last valid +1"
		case 2:
			oa.UpdateRound++
			what = "update round +1"
		default:
			var d trackerdb.BaseOnlineAccountData
			if protocol.Decode(oa.Data, &d) != nil {
				return ""
			}
			d.MicroAlgos.Raw++
			oa.Data = protocol.Encode(&d)
			what = "micro-algos +1"
		}
		e.dirty[r.sec] = true
		return fmt.Sprintf("online-account row of %s (update round %d): %s", shortAddr(oa.Address), oa.UpdateRound, what)
	}},
	{"remove-online-account", func(e *cpEdit) string {
		var cand []cpRef
		for i, c := range e.chunks {
			if c != nil && len(c.OnlineAccounts) > 1 {
				for j := range c.OnlineAccounts {
					cand = append(cand, cpRef{i, j})
				}
			}
		}
		r, ok := cpPick(e.rg, cand)
		if !ok {
			return ""
		}
		c := e.chunks[r.sec]
		oa := c.OnlineAccounts[r.idx]
		c.OnlineAccounts = append(append([]encoded.OnlineAccountRecordV6{}, c.OnlineAccounts[:r.idx]...), c.OnlineAccounts[r.idx+1:]...)
		e.dirty[r.sec] = true
		if e.fixup {
			e.hdr.TotalOnlineAccounts--
			e.hdrMod = true
		}
		return fmt.Sprintf("online-account row of %s (update round %d) removed", shortAddr(oa.Address), oa.UpdateRound)
	}},
	{"dup-online-account", func(e *cpEdit) string {
		var cand []cpRef
		for i, c := range e.chunks {
			if c != nil {
				for j := range c.OnlineAccounts {
					cand = append(cand, cpRef{i, j})
				}
			}
		}
		r, ok := cpPick(e.rg, cand)
		if !ok {
			return ""
		}
		c := e.chunks[r.sec]
		c.OnlineAccounts = append(c.OnlineAccounts, c.OnlineAccounts[r.idx])
		e.dirty[r.sec] = true
		return fmt.Sprintf("online-account row of %s duplicated", shortAddr(c.OnlineAccounts[r.idx].Address))
	}},
	{"online-round-params-changed", func(e *cpEdit) string {
		var cand []cpRef
		for i, c := range e.chunks {
			if c != nil {
				for j := range c.OnlineRoundParams {
					cand = append(cand, cpRef{i, j})
				}
			}
		}
		r, ok := cpPick(e.rg, cand)
		if !ok {
			return ""
		}
		p := &e.chunks[r.sec].OnlineRoundParams[r.idx]
		var d ledgercore.OnlineRoundParamsData
		if protocol.Decode(p.Data, &d) != nil {
			return ""
		}
		what := ""
		if e.rg.IntN(2) == 0 {
			d.OnlineSupply++
			what = "online supply +1"
		} else {
			d.RewardsLevel++
			what = "rewards level +1"
		}
		p.Data = protocol.Encode(&d)
		e.dirty[r.sec] = true
		return fmt.Sprintf("online-round-params row of round %d: %s", p.Round, what)
	}},
	{"remove-round-params", func(e *cpEdit) string {
		var cand []cpRef
		for i, c := range e.chunks {
			if c != nil && len(c.OnlineRoundParams) > 1 {
				for j := range c.OnlineRoundParams {
					cand = append(cand, cpRef{i, j})
				}
			}
		}
		r, ok := cpPick(e.rg, cand)
		if !ok {
			return ""
		}
		c := e.chunks[r.sec]
		p := c.OnlineRoundParams[r.idx]
		c.OnlineRoundParams = append(append([]encoded.OnlineRoundParamsRecordV6{}, c.OnlineRoundParams[:r.idx]...), c.OnlineRoundParams[r.idx+1:]...)
		e.dirty[r.sec] = true
		if e.fixup {
			e.hdr.TotalOnlineRoundParams--
			e.hdrMod = true
		}
		return fmt.Sprintf("online-round-params row of round %d removed", p.Round)
	}},
	{"header-totals-changed", func(e *cpEdit) string {
		if e.hdrSec < 0 {
			return ""
		}
		e.hdrMod = true
		switch e.rg.IntN(3) {
		case 0:
			e.hdr.Totals.RewardsLevel++
			return "file header: totals rewards level +1"
		case 1:
			e.hdr.Totals.Offline.Money.Raw++
			return "file header: offline money +1"
		}
		e.hdr.Totals.Online.RewardUnits++
		return "file header: online reward units +1"
	}},
	{"header-version-downgrade", func(e *cpEdit) string {
		if e.hdrSec < 0 || e.hdr.Version != ledger.CatchpointFileVersionV8 {
			return ""
		}
		e.hdr.Version = ledger.CatchpointFileVersionV7
		e.hdrMod = true
		return "file header: version V8 -> V7 (label without the online-account hashes)"
	}},
	{"partial-record-shadows-account", func(e *cpEdit) string {
		// the account arrives in two records, as a split account would: a first piece flagged
		// ExpectingMoreEntries carrying DIFFERENT account data and no resources, then the original record
		var cand []cpRef
		for _, r := range e.accts() {
			if b, err := decodeBase(e.rec(r).AccountData); err == nil && b.Status != basics.Online {
				cand = append(cand, r)
			}
		}
		r, ok := cpPick(e.rg, cand)
		if !ok {
			return ""
		}
		c := e.chunks[r.sec]
		orig := c.Balances[r.idx]
		b, _ := decodeBase(orig.AccountData)
		b.MicroAlgos.Raw += 1_000_000
		// one to three leading pieces; exactly one of them (any position) carries the forged data, the others
		// repeat the original data - every piece must agree with the completing record, not just its neighbour
		k := 1 + e.rg.IntN(3)
		j := e.rg.IntN(k)
		nb := append([]encoded.BalanceRecordV6{}, c.Balances[:r.idx]...)
		for i := 0; i < k; i++ {
			piece := encoded.BalanceRecordV6{Address: orig.Address, AccountData: orig.AccountData, ExpectingMoreEntries: true}
			if i == j {
				piece.AccountData = protocol.Encode(&b)
			}
			nb = append(nb, piece)
		}
		nb = append(nb, c.Balances[r.idx:]...)
		c.Balances = nb
		e.dirty[r.sec] = true
		return fmt.Sprintf("account %s preceded by %d resource-less partial record(s), number %d carrying %d micro-algos instead of %d", shortAddr(orig.Address), k, j+1, b.MicroAlgos.Raw, b.MicroAlgos.Raw-1_000_000)
	}},
	{"partial-record-adds-account", func(e *cpEdit) string {
		// a record flagged ExpectingMoreEntries for an address that never completes, at the very end of the accounts
		last := -1
		for i, c := range e.chunks {
			if c != nil && len(c.Balances) > 0 {
				last = i
			}
		}
		if last < 0 {
			return ""
		}
		var addr basics.Address
		copy(addr[:], "verif-phantom-account-0000000000")
		if e.hasAddr(addr) {
			return ""
		}
		b := trackerdb.BaseAccountData{Status: basics.Offline, MicroAlgos: basics.MicroAlgos{Raw: 5_000_000_000_000}, UpdateRound: 1}
		c := e.chunks[last]
		c.Balances = append(c.Balances, encoded.BalanceRecordV6{Address: addr, AccountData: protocol.Encode(&b), ExpectingMoreEntries: true})
		e.dirty[last] = true
		return fmt.Sprintf("a never-completed partial record adds account %s with %d micro-algos after the last account", shortAddr(addr), b.MicroAlgos.Raw)
	}},
}

func cpTweakTKV(m basics.TealKeyValue, rg *rand.Rand) string {
	ks := make([]string, 0, len(m))
	for k := range m {
		ks = append(ks, k)
	}
	sort.Strings(ks)
	k := ks[rg.IntN(len(ks))]
	v := m[k]
	if v.Type == basics.TealUintType {
		v.Uint++
	} else {
		v.Bytes = v.Bytes + "!"
	}
	m[k] = v
	return k
}

// cpSemanticTamper applies one applicable class chosen at random among the allowed ones (C16's
// "semantic-entry" chunk fault). Returns desc == "" if none applied.
func cpSemanticTamper(s *Sim, secs []cpSection, rg *rand.Rand, allow func(class string) bool) ([]cpSection, string, string) {
	order := rg.Perm(len(cpTampers))
	for _, i := range order {
		t := cpTampers[i]
		if !allow(t.class) {
			continue
		}
		e, err := newCpEdit(secs, rg, rg.IntN(2) == 0)
		if err != nil {
			return secs, "", ""
		}
		if d := t.apply(e); d != "" {
			return e.finish(), t.class, d
		}
	}
	return secs, "", ""
}

// ---------------------------------------------------------------------------------------------
// staged state as the consumer would adopt it

func cpDumpStaging(dir string) (map[string]string, error) {
	acc, err := db.MakeAccessor(filepath.Join(dir, "ledger.tracker.sqlite"), true, false)
	if err != nil {
		return nil, err
	}
	defer acc.Close()
	out := map[string]string{}
	q := func(prefix, query string, nkey int) error {
		rows, err := acc.Handle.Query(query)
		if err != nil {
			return fmt.Errorf("%s: %w", prefix, err)
		}
		defer rows.Close()
		cols, _ := rows.Columns()
		for rows.Next() {
			vals := make([]any, len(cols))
			ptrs := make([]any, len(cols))
			for i := range vals {
				ptrs[i] = &vals[i]
			}
			if err := rows.Scan(ptrs...); err != nil {
				return err
			}
			var parts []string
			for _, v := range vals {
				switch x := v.(type) {
				case []byte:
					parts = append(parts, hex.EncodeToString(x))
				case nil:
					parts = append(parts, "NULL")
				default:
					parts = append(parts, fmt.Sprint(x))
				}
			}
			out[prefix+":"+strings.Join(parts[:nkey], ":")] = strings.Join(parts[nkey:], ":")
		}
		return rows.Err()
	}
	for _, x := range []struct {
		p, q string
		n    int
	}{
		{"account", "SELECT address, data, normalizedonlinebalance FROM catchpointbalances ORDER BY address", 1},
		{"resource", "SELECT b.address, r.aidx, r.data FROM catchpointresources r LEFT JOIN catchpointbalances b ON b.addrid = r.addrid ORDER BY b.address, r.aidx", 2},
		{"creator", "SELECT asset, creator, ctype FROM catchpointassetcreators ORDER BY asset", 1},
		{"kv", "SELECT key, value FROM catchpointkvstore ORDER BY key", 1},
		{"onlineaccount", "SELECT address, updround, normalizedonlinebalance, votelastvalid, data FROM catchpointonlineaccounts ORDER BY address, updround", 2},
		{"onlineroundparams", "SELECT rnd, data FROM catchpointonlineroundparamstail ORDER BY rnd", 1},
		{"spver", "SELECT lastattestedround, verificationContext FROM catchpointstateproofverification ORDER BY lastattestedround", 1},
		{"totals", "SELECT * FROM accounttotals WHERE id='catchpointStaging'", 1},
	} {
		if err := q(x.p, x.q, x.n); err != nil {
			return nil, err
		}
	}
	return out, nil
}

// cpExtraneous: the restored consumer's tracker tables (state as of its tracker round) must hold exactly
// the accounts, resources and kv pairs of the reference state of that round - nothing the lookups of
// known addresses would not reveal (an account, box or holding that exists only on this node).
func cpExtraneous(s *Sim, c *cpConsumer) string {
	dbr := c.led.LatestTrackerCommitted()
	st := s.states[dbr]
	if st == nil {
		return ""
	}
	acc, err := db.MakeAccessor(filepath.Join(c.dir, "ledger.tracker.sqlite"), true, false)
	if err != nil {
		s.harness = "side connection: " + err.Error()
		return ""
	}
	defer acc.Close()
	list := func(q string, n int) ([]string, error) {
		rows, err := acc.Handle.Query(q)
		if err != nil {
			return nil, err
		}
		defer rows.Close()
		var out []string
		for rows.Next() {
			var a []byte
			var i int64
			if n == 2 {
				err = rows.Scan(&a, &i)
			} else {
				err = rows.Scan(&a)
			}
			if err != nil {
				return nil, err
			}
			if n == 2 {
				out = append(out, fmt.Sprintf("%x/%d", a, i))
			} else {
				out = append(out, string(a))
			}
		}
		return out, rows.Err()
	}
	var rnd int64
	if err := acc.Handle.QueryRow("SELECT rnd FROM acctrounds WHERE id='acctbase'").Scan(&rnd); err != nil || basics.Round(rnd) != dbr {
		return "" // a flush is between its transaction and its in-memory update; not a quiescent table state
	}
	addrs, e1 := list("SELECT address FROM accountbase ORDER BY address", 1)
	ress, e2 := list("SELECT b.address, r.aidx FROM resources r LEFT JOIN accountbase b ON b.rowid = r.addrid ORDER BY b.address, r.aidx", 2)
	kvs, e3 := list("SELECT key FROM kvstore ORDER BY key", 1)
	if e1 != nil || e2 != nil || e3 != nil {
		s.harness = fmt.Sprintf("side connection queries: %v %v %v", e1, e2, e3)
		return ""
	}
	s.stat("c16.table_sets_compared", 1)
	for _, a := range addrs {
		var ad basics.Address
		copy(ad[:], a)
		if _, ok := st.Accts[ad]; !ok {
			return fmt.Sprintf("its account table (round %d) holds account %x.. which does not exist in the producer's state of that round", dbr, a[:6])
		}
	}
	if len(addrs) != len(st.Accts) {
		return fmt.Sprintf("its account table (round %d) holds %d accounts, the producer's state of that round %d", dbr, len(addrs), len(st.Accts))
	}
	want := map[string]bool{}
	for k := range st.Assets {
		want[fmt.Sprintf("%x/%d", k.Addr[:], k.Idx)] = true
	}
	for k := range st.Apps {
		want[fmt.Sprintf("%x/%d", k.Addr[:], k.Idx)] = true
	}
	for _, r := range ress {
		if !want[r] {
			return fmt.Sprintf("its resources table (round %d) holds resource %s.. which does not exist in the producer's state of that round", dbr, cpShort(r))
		}
	}
	if len(ress) != len(want) {
		return fmt.Sprintf("its resources table (round %d) holds %d rows, the producer's state of that round has %d resources", dbr, len(ress), len(want))
	}
	for _, k := range kvs {
		if _, ok := st.Kv[k]; !ok {
			return fmt.Sprintf("its kv table (round %d) holds key %q which does not exist in the producer's state of that round", dbr, k)
		}
	}
	if len(kvs) != len(st.Kv) {
		return fmt.Sprintf("its kv table (round %d) holds %d keys, the producer's state of that round %d", dbr, len(kvs), len(st.Kv))
	}
	return ""
}

// adoptionDemo (only for a tampered file that VERIFIED with a different staged state): a fresh consumer
// runs the complete catchup with it; reports what the restored ledger then serves.
func (o *cpObs) adoptionDemo(s *Sim, f *cpFile, secs []cpSection, rg *rand.Rand) string {
	if s.viol != nil {
		return ""
	}
	c, err := o.openConsumer(s, rg)
	if err != nil {
		return ""
	}
	defer c.close()
	x := &cpXfer{o: o, s: s, c: c, label: f.Label, stream: cpTar(secs), plan: cpPlan{crashAt: -1, restartAt: -1}}
	if err := x.run(); err != nil {
		return fmt.Sprintf(" [a complete catchup with this file ends with: %s]", cpShort(err.Error()))
	}
	s.stat("c15.adoption_demo", 1)
	// what differs from the reference afterwards (the generic comparison must not end this run: it is a description)
	mark := len(s.log.Lines)
	o.compareRestored(s, c, f.Round, "tampered file")
	d := "no difference visible through lookups of known addresses/keys and table sets"
	if s.viol != nil {
		d = s.viol.Detail
		s.viol = nil
		if len(s.log.Lines) > mark {
			s.log.Lines[len(s.log.Lines)-1] = "  (demo) " + cpShort(s.log.Lines[len(s.log.Lines)-1])
		}
	}
	return fmt.Sprintf(" [a complete catchup with this file SUCCEEDS (CompleteCatchup, ledger at round %d); the restored ledger then differs from the producer: %s]", c.led.Latest(), cpShortN(d, 700))
}

func cpShortN(m string, n int) string {
	if len(m) > n {
		return m[:n] + "..."
	}
	return m
}

func cpDumpDiff(a, b map[string]string) (n int, first string) {
	keys := map[string]bool{}
	for k := range a {
		keys[k] = true
	}
	for k := range b {
		keys[k] = true
	}
	l := make([]string, 0, len(keys))
	for k := range keys {
		l = append(l, k)
	}
	sort.Strings(l)
	for _, k := range l {
		va, oka := a[k]
		vb, okb := b[k]
		if oka != okb || va != vb {
			n++
			if first == "" {
				switch {
				case !oka:
					first = "only in the tampered staging: " + cpShort(k)
				case !okb:
					first = "missing from the tampered staging: " + cpShort(k)
				default:
					first = "different row " + cpShort(k)
				}
			}
		}
	}
	return
}

// ---------------------------------------------------------------------------------------------
// C15 driver: control + tamper attempts for one producer catchpoint

func (o *cpObs) stageAndVerify(s *Sim, c *cpConsumer, label string, stream []byte) (dump map[string]string, verified bool, rej *cpRejected, err error) {
	x := &cpXfer{o: o, s: s, c: c, label: label, stream: stream, plan: cpPlan{crashAt: -1, restartAt: -1}, verifyOnly: true}
	var derr error
	x.beforeTrie = func() { dump, derr = cpDumpStaging(c.dir) }
	err = x.run()
	if derr != nil {
		return nil, false, nil, fmt.Errorf("harness: staging dump: %w", derr)
	}
	if err != nil {
		if r, ok := err.(*cpRejected); ok {
			return dump, false, r, nil
		}
		return dump, false, nil, err
	}
	return dump, x.verified, nil, nil
}

func (o *cpObs) tamperRound(s *Sim, f *cpFile, rg *rand.Rand, benign bool) {
	if o.tamperC == nil {
		c, err := o.openConsumer(s, rg)
		if err != nil {
			s.harness = "consumer open: " + err.Error()
			return
		}
		o.tamperC = c
	}
	c := o.tamperC
	// harness self-check: decode + re-encode is the identity on the producer's chunks
	if e, err := newCpEdit(f.Sections, rg, false); err == nil {
		for i := range e.secs {
			if e.chunks[i] != nil && !bytes.Equal(encodeChunk(e.chunks[i]), f.Sections[i].Data) {
				s.harness = fmt.Sprintf("re-encoding chunk %s of catchpoint %d is not the identity", f.Sections[i].Name, f.Round)
				return
			}
		}
	} else {
		s.violate("C16", "producer-file-unreadable", "", fmt.Sprintf("catchpoint %s: chunk does not decode: %v", f.Label, err))
		return
	}
	ctl, ok, rej, err := o.stageAndVerify(s, c, f.Label, cpTar(f.Sections))
	if err != nil {
		s.violate("C16", "clean-transfer-failed", "verify-only", fmt.Sprintf("catchpoint %s: staging the untampered file failed: %v", f.Label, err))
		return
	}
	if !ok {
		if o.cleanRejectKnown(s, f, rej) {
			return
		}
		s.violate("C16", "clean-transfer-rejected", cpCleanRejectKey(f, rej), fmt.Sprintf("catchpoint %s: the untampered file was rejected at %s: %v%s", f.Label, rej.stage, rej.err, cpCollisionNote(f)))
		return
	}
	s.stat("c15.control_verified", 1)
	s.log.Add("  C15 control: catchpoint %s verifies on consumer %d (%d staged rows)", f.Label, c.id, len(ctl))
	if benign {
		return
	}
	// every round: the boundary shift first (if the file offers one), then a random selection of the other classes
	order := []int{0}
	perm := rg.Perm(len(cpTampers) - 1)
	n := 5 + rg.IntN(6)
	for _, p := range perm {
		if len(order) > n {
			break
		}
		order = append(order, p+1)
	}
	for _, ti := range order {
		if s.viol != nil || s.harness != "" {
			return
		}
		t := cpTampers[ti]
		fix := rg.IntN(2) == 0
		e, err := newCpEdit(f.Sections, rg, fix)
		if err != nil {
			s.harness = "edit: " + err.Error()
			return
		}
		desc := t.apply(e)
		if desc == "" {
			s.stat("c15."+t.class+".inapplicable", 1)
			continue
		}
		secs := e.finish()
		s.stat("c15.tamper_attempted", 1)
		s.stat("c15."+t.class+".attempted", 1)
		dump, ok, rej, err := o.stageAndVerify(s, c, f.Label, cpTar(secs))
		if err != nil {
			if strings.HasPrefix(err.Error(), "harness:") {
				s.harness = err.Error()
				return
			}
			// not a rejection by the accessor's checks, but an error all the same: the state was not adopted
			s.stat("c15.tamper_rejected", 1)
			s.stat("c15."+t.class+".rejected", 1)
			s.log.Add("  C15 %s (fixup=%v) %s: error %s", t.class, fix, desc, cpShort(err.Error()))
			o.judged[t.class] = true
			continue
		}
		if !ok {
			s.stat("c15.tamper_rejected", 1)
			s.stat("c15."+t.class+".rejected", 1)
			s.stat("c15.rejected_at."+rej.stage, 1)
			s.log.Add("  C15 %s (fixup=%v) %s: rejected at %s", t.class, fix, desc, rej.stage)
			o.judged[t.class] = true
			continue
		}
		nd, first := cpDumpDiff(ctl, dump)
		if nd == 0 {
			s.stat("c15.tamper_neutral", 1)
			s.stat("c15."+t.class+".neutral", 1)
			s.log.Add("  C15 %s (fixup=%v) %s: verifies, staged state identical", t.class, fix, desc)
			continue
		}
		o.judged[t.class] = true
		s.stat("c15."+t.class+".passed", 1)
		detail := fmt.Sprintf("catchpoint %s: file tampered by class %s (%s; fixup=%v) stages a state that differs from the producer's in %d row(s) (%s) and VerifyCatchpoint accepts it under the original label", f.Label, t.class, desc, fix, nd, first)
		if !o.demoed[t.class] {
			o.demoed[t.class] = true
			detail += o.adoptionDemo(s, f, secs, rg)
		}
		s.log.Add("  C15 %s: VERIFIES with a different staged state: %s", t.class, desc)
		if cpIsKnown("C15", t.class) {
			s.known = append(s.known, kernel.Violation{Property: "C15", Oracle: "tampered-state-verifies", Key: t.class, Detail: detail, Step: s.step})
			s.stat("known."+t.class, 1)
			continue
		}
		s.violate("C15", "tampered-state-verifies", t.class, detail)
		return
	}
}

// cpBoxSplit decodes a kv key of the form "bx:" + 8-byte big-endian application id + box name.
func cpBoxSplit(k string) (basics.AppIndex, string, bool) {
	if !strings.HasPrefix(k, "bx:") || len(k) < 11 {
		return 0, "", false
	}
	return basics.AppIndex(binary.BigEndian.Uint64([]byte(k[3:11]))), k[11:], true
}
