package ledgersim

import (
	"bytes"
	"fmt"
	"math/rand/v2"
	"sort"

	"github.com/algorand/go-algorand/data/basics"
	"github.com/algorand/go-algorand/ledger/ledgercore"
	"github.com/algorand/go-algorand/protocol"
)

func encAssetParams(p *basics.AssetParams) string {
	if p == nil {
		return "<nil>"
	}
	return string(protocol.Encode(p))
}
func encHolding(h *basics.AssetHolding) string {
	if h == nil {
		return "<nil>"
	}
	return fmt.Sprintf("%+v", *h)
}
func encAppParams(p *basics.AppParams) string {
	if p == nil {
		return "<nil>"
	}
	return string(protocol.Encode(p))
}
func encLocal(l *basics.AppLocalState) string {
	if l == nil {
		return "<nil>"
	}
	return string(protocol.Encode(l))
}

// served returns the window of rounds the ledger must be able to answer for.
func (s *Sim) served() (lo, hi basics.Round) {
	return s.led.LatestTrackerCommitted(), s.led.Latest()
}

// lookupErr judges a failed lookup for round r: it is a violation only if r is still inside the
// window the ledger serves NOW (the window only moves forward, so then it also was when the call ran).
// A tracker commit that completes while queries are in flight (queries during a parked commit) may
// legitimately move the lower edge past r.
func (s *Sim) lookupErr(where, call string, r basics.Round, err error) {
	lo, hi := s.served()
	if r < lo || r > hi {
		s.stat("lookup_round_left_window", 1)
		return
	}
	s.violate("C08", "lookup-error-in-window", "", fmt.Sprintf("%s: %s failed although the ledger serves rounds [%d,%d]: %v", where, call, lo, hi, err))
}

// checkAccount compares every account-level lookup for addr at round r with the reference.
func (s *Sim) checkAccount(r basics.Round, addr basics.Address, where string) {
	st := s.states[r]
	if st == nil {
		return
	}
	want := st.Accts[addr] // zero value if absent
	got, _, err := s.led.LookupWithoutRewards(r, addr)
	s.stat("lookup_checked", 1)
	if err != nil {
		s.lookupErr(where, fmt.Sprintf("LookupWithoutRewards(r=%d, %s)", r, shortAddr(addr)), r, err)
		return
	}
	if got != want {
		s.violate("C08", "account-mismatch", "", fmt.Sprintf("%s: LookupWithoutRewards(r=%d, %s) = %+v, history implies %+v (tracker db round %d, latest %d)", where, r, shortAddr(addr), got, want, s.led.LatestTrackerCommitted(), s.led.Latest()))
		return
	}
	gotR, _, wo, err := s.led.LookupAccount(r, addr)
	if err != nil {
		s.lookupErr(where, fmt.Sprintf("LookupAccount(r=%d, %s)", r, shortAddr(addr)), r, err)
		return
	}
	wantR := st.withRewards(want)
	if gotR != wantR || wo != want.MicroAlgos {
		s.violate("C08", "account-rewards-mismatch", "", fmt.Sprintf("%s: LookupAccount(r=%d, %s) = %+v (without rewards %d), history implies %+v (without rewards %d)", where, r, shortAddr(addr), gotR, wo.Raw, wantR, want.MicroAlgos.Raw))
	}
}

func (s *Sim) checkAsset(r basics.Round, k resKey, where string) {
	st := s.states[r]
	if st == nil {
		return
	}
	want := st.Assets[k]
	got, err := s.led.LookupAsset(r, k.Addr, basics.AssetIndex(k.Idx))
	s.stat("lookup_checked", 1)
	if err != nil {
		s.lookupErr(where, fmt.Sprintf("LookupAsset(r=%d, %s, %d)", r, shortAddr(k.Addr), k.Idx), r, err)
		return
	}
	if encAssetParams(got.AssetParams) != encAssetParams(want.Params) || encHolding(got.AssetHolding) != encHolding(want.Holding) {
		s.violate("C08", "asset-mismatch", "", fmt.Sprintf("%s: LookupAsset(r=%d, %s, asset %d) = params %v holding %s, history implies params %v holding %s (db round %d latest %d)",
			where, r, shortAddr(k.Addr), k.Idx, got.AssetParams, encHolding(got.AssetHolding), want.Params, encHolding(want.Holding), s.led.LatestTrackerCommitted(), s.led.Latest()))
	}
}

func (s *Sim) checkApp(r basics.Round, k resKey, where string) {
	st := s.states[r]
	if st == nil {
		return
	}
	want := st.Apps[k]
	got, err := s.led.LookupApplication(r, k.Addr, basics.AppIndex(k.Idx))
	s.stat("lookup_checked", 1)
	if err != nil {
		s.lookupErr(where, fmt.Sprintf("LookupApplication(r=%d, %s, %d)", r, shortAddr(k.Addr), k.Idx), r, err)
		return
	}
	if encAppParams(got.AppParams) != encAppParams(want.Params) || encLocal(got.AppLocalState) != encLocal(want.Local) {
		s.violate("C08", "app-mismatch", "", fmt.Sprintf("%s: LookupApplication(r=%d, %s, app %d) = params %+v local %+v, history implies params %+v local %+v (db round %d latest %d)",
			where, r, shortAddr(k.Addr), k.Idx, got.AppParams, got.AppLocalState, want.Params, want.Local, s.led.LatestTrackerCommitted(), s.led.Latest()))
	}
}

func (s *Sim) checkKv(r basics.Round, key string, where string) {
	st := s.states[r]
	if st == nil {
		return
	}
	want, ok := st.Kv[key]
	got, err := s.led.LookupKv(r, key)
	s.stat("lookup_checked", 1)
	if err != nil {
		s.lookupErr(where, fmt.Sprintf("LookupKv(r=%d, %q)", r, key), r, err)
		return
	}
	if (got == nil) != !ok || !bytes.Equal(got, want) {
		s.violate("C08", "kv-mismatch", "", fmt.Sprintf("%s: LookupKv(r=%d, %q) = %q (nil=%v), history implies %q (present=%v) (db round %d latest %d)", where, r, key, got, got == nil, want, ok, s.led.LatestTrackerCommitted(), s.led.Latest()))
	}
}

func (s *Sim) checkCreator(r basics.Round, ck creatKey, where string) {
	st := s.states[r]
	if st == nil {
		return
	}
	want, ok := st.Creators[ck]
	got, gok, err := s.led.GetCreatorForRound(r, ck.Idx, ck.Type)
	s.stat("lookup_checked", 1)
	if err != nil {
		s.lookupErr(where, fmt.Sprintf("GetCreatorForRound(r=%d, %d)", r, ck.Idx), r, err)
		return
	}
	if gok != ok || got != want {
		s.violate("C08", "creator-mismatch", "", fmt.Sprintf("%s: GetCreatorForRound(r=%d, %d, type %d) = (%s,%v), history implies (%s,%v)", where, r, ck.Idx, ck.Type, shortAddr(got), gok, shortAddr(want), ok))
	}
}

// checkTotals is the C12 oracle for round r.
func (s *Sim) checkTotals(r basics.Round, where string) {
	st := s.states[r]
	if st == nil {
		return
	}
	got, err := s.led.Totals(r)
	if err != nil {
		if lo, hi := s.served(); r < lo || r > hi {
			s.stat("lookup_round_left_window", 1)
			return
		}
		s.violate("C12", "totals-error-in-window", "", fmt.Sprintf("%s: Totals(%d) failed inside the served window: %v", where, r, err))
		return
	}
	want := st.totals()
	s.stat("totals_checked", 1)
	if got.Online.Money.Raw != want.Online || got.Offline.Money.Raw != want.Offline || got.NotParticipating.Money.Raw != want.NotPart ||
		got.Online.RewardUnits != want.OnlineRU || got.Offline.RewardUnits != want.OfflineRU || got.NotParticipating.RewardUnits != want.NotPartRU ||
		got.RewardsLevel != want.RewardsLevel {
		s.violate("C12", "totals-mismatch", "", fmt.Sprintf("%s: Totals(%d) = %+v, but the sums over all accounts at that round are %+v", where, r, got, want))
		return
	}
	// C18: blocks neither create nor destroy algos
	gen := s.states[0].totals()
	if want.All != gen.All {
		s.violate("C18", "money-not-conserved", "", fmt.Sprintf("%s: sum of all balances incl. pending rewards at round %d is %d, genesis total was %d (difference %d)", where, r, want.All, gen.All, int64(want.All)-int64(gen.All)))
	}
}

// afterBlock: sampled queries over the served window (C08, C12), driven by a PRNG seeded from one
// tape decision.
func (s *Sim) afterBlock(qseed uint64) {
	if s.viol != nil {
		return
	}
	rg := rand.New(rand.NewPCG(qseed, uint64(s.step)))
	lo, hi := s.served()
	if hi != s.latest {
		s.violate("C08", "latest-mismatch", "", fmt.Sprintf("Ledger.Latest() = %d after adding block %d", hi, s.latest))
		return
	}
	pick := func() basics.Round {
		if lo >= hi || rg.IntN(3) == 0 {
			return hi
		}
		return lo + basics.Round(rg.IntN(int(hi-lo)+1))
	}
	s.checkTotals(pick(), "after-block")
	as := Accounts()
	nq := s.cfg.QueriesPerStep
	if s.cfg.SparseQ && rg.IntN(4) != 0 {
		// sparse-query runs (C08): most steps ask a single question, so that what ONE earlier answer left behind in
		// the ledger's caches is not immediately repaired by the next dozen lookups
		nq = 1
	}
	for i := 0; i < nq && s.viol == nil; i++ {
		r := pick()
		st := s.states[r]
		switch rg.IntN(6) {
		case 0, 1:
			a := as[rg.IntN(len(as))].Addr
			if rg.IntN(6) == 0 {
				a = []basics.Address{sinkAddr, poolAddr}[rg.IntN(2)]
			}
			s.checkAccount(r, a, "sample")
		case 2:
			ks := s.states[hi].sortedAssetKeys()
			if len(ks) > 0 {
				s.checkAsset(r, ks[rg.IntN(len(ks))], "sample")
			} else {
				// probe an index that never held an asset; indexes are shared with applications, and asking
				// for an asset at an application's index is a caller error, not a ledger answer
				idx := basics.CreatableIndex(1000 + rg.IntN(40))
				isApp := false
				// (look at the whole history, not only the served window: an account may keep its local state of an
				// application that was deleted long ago - thorough sweep, C13 seed 101)
				for rr := basics.Round(0); rr <= hi; rr++ {
					if st2 := s.states[rr]; st2 != nil {
						if _, ok := st2.Creators[creatKey{idx, basics.AppCreatable}]; ok {
							isApp = true
						}
					}
				}
				if !isApp {
					s.checkAsset(r, resKey{as[rg.IntN(len(as))].Addr, idx}, "sample")
				}
			}
		case 3:
			ks := s.states[hi].sortedAppKeys()
			if len(ks) > 0 {
				s.checkApp(r, ks[rg.IntN(len(ks))], "sample")
			}
		case 4:
			ks := s.states[hi].sortedKvKeys()
			if old := s.states[lo]; old != nil && rg.IntN(2) == 0 {
				ks = append(ks, old.sortedKvKeys()...)
			}
			if len(ks) > 0 {
				s.checkKv(r, ks[rg.IntN(len(ks))], "sample")
			}
		case 5:
			ks := s.states[hi].sortedCreatKeys()
			if old := s.states[lo]; old != nil {
				ks = append(ks, old.sortedCreatKeys()...)
			}
			if len(ks) > 0 {
				s.checkCreator(r, ks[rg.IntN(len(ks))], "sample")
			}
		}
		_ = st
	}
}

// fullCheck compares EVERYTHING the reference knows, at the latest round and at the oldest served
// round (used after reopen and at the end of a run).
func (s *Sim) fullCheck(where string) {
	lo, hi := s.served()
	for _, r := range []basics.Round{hi, lo} {
		st := s.states[r]
		if st == nil || s.viol != nil {
			continue
		}
		for _, a := range st.sortedAddrs() {
			s.checkAccount(r, a, where)
		}
		for _, a := range Accounts() {
			if _, ok := st.Accts[a.Addr]; !ok {
				s.checkAccount(r, a.Addr, where)
			}
		}
		for _, k := range st.sortedAssetKeys() {
			s.checkAsset(r, k, where)
		}
		for _, k := range st.sortedAppKeys() {
			s.checkApp(r, k, where)
		}
		for _, k := range st.sortedKvKeys() {
			s.checkKv(r, k, where)
		}
		for _, k := range st.sortedCreatKeys() {
			s.checkCreator(r, k, where)
		}
		// things that existed earlier in the window but no longer exist at r must read as absent
		if old := s.states[lo]; old != nil && r == hi {
			for _, k := range old.sortedAssetKeys() {
				if _, ok := st.Assets[k]; !ok {
					s.checkAsset(r, k, where+"-deleted")
				}
			}
			for _, k := range old.sortedAppKeys() {
				if _, ok := st.Apps[k]; !ok {
					s.checkApp(r, k, where+"-deleted")
				}
			}
			for _, k := range old.sortedKvKeys() {
				if _, ok := st.Kv[k]; !ok {
					s.checkKv(r, k, where+"-deleted")
				}
			}
		}
		s.checkTotals(r, where)
	}
	s.stat("full_check", 1)
}

var _ = ledgercore.AccountData{}

// kvCollisionBefore: the first round <= upTo at which the reference state held two kv pairs whose key||value
// concatenations coincide (they share ONE leaf of the balances trie: trackerdb.KvHashBuilderV6 hashes key||value
// without framing - open finding C15/kv-boundary-shift, C16/kv-leaf-collision). From then on the producer's trie
// may have lost or double-counted a leaf, so label-level comparisons of that history are attributed to that finding.
func (s *Sim) kvCollisionBefore(upTo basics.Round) (basics.Round, string) {
	for s.kvScanned < s.latest {
		s.kvScanned++
		st := s.states[s.kvScanned]
		if st == nil || s.kvCollAt != 0 {
			continue
		}
		seen := map[string]string{}
		keys := make([]string, 0, len(st.Kv))
		for k := range st.Kv {
			keys = append(keys, k)
		}
		sort.Strings(keys)
		for _, k := range keys {
			cat := k + string(st.Kv[k])
			if other, dup := seen[cat]; dup {
				s.kvCollAt = s.kvScanned
				s.kvCollWhat = fmt.Sprintf("kv %q (value %d bytes) and kv %q (value %d bytes) have the same key||value concatenation", other, len(st.Kv[other]), k, len(st.Kv[k]))
				break
			}
			seen[cat] = k
		}
	}
	if s.kvCollAt != 0 && s.kvCollAt <= upTo {
		return s.kvCollAt, s.kvCollWhat
	}
	return 0, ""
}
