package ledgersim

import (
	"encoding/binary"
	"fmt"
	"math/rand/v2"
	"sort"
	"strings"

	"github.com/algorand/go-algorand/config"
	"github.com/algorand/go-algorand/crypto"
	"github.com/algorand/go-algorand/data/basics"
	"github.com/algorand/go-algorand/data/transactions"
	"github.com/algorand/go-algorand/data/txntest"
	"github.com/algorand/go-algorand/protocol"
)

// Workload generator. All randomness comes from a PCG seeded by ONE tape decision per block
// (step.gseed), so the tape stays rectangular; the generator consults the reference state to keep
// most transactions valid, and deliberately produces some that are not (the evaluator rejects them).

const appSource = `#pragma version 10
txn ApplicationID
bz approve
txn OnCompletion
int NoOp
!=
bnz approve
txn NumAppArgs
bz approve
txna ApplicationArgs 0
byte "gput"
==
bnz l_gput
txna ApplicationArgs 0
byte "gdel"
==
bnz l_gdel
txna ApplicationArgs 0
byte "lput"
==
bnz l_lput
txna ApplicationArgs 0
byte "ldel"
==
bnz l_ldel
txna ApplicationArgs 0
byte "bcreate"
==
bnz l_bcreate
txna ApplicationArgs 0
byte "bput"
==
bnz l_bput
txna ApplicationArgs 0
byte "bdel"
==
bnz l_bdel
txna ApplicationArgs 0
byte "bresize"
==
bnz l_bresize
txna ApplicationArgs 0
byte "pay"
==
bnz l_pay
txna ApplicationArgs 0
byte "gint"
==
bnz l_gint
err
l_gput:
txna ApplicationArgs 1
txna ApplicationArgs 2
app_global_put
b approve
l_gint:
txna ApplicationArgs 1
txna ApplicationArgs 2
btoi
app_global_put
b approve
l_gdel:
txna ApplicationArgs 1
app_global_del
b approve
l_lput:
int 0
txna ApplicationArgs 1
txna ApplicationArgs 2
app_local_put
b approve
l_ldel:
int 0
txna ApplicationArgs 1
app_local_del
b approve
l_bcreate:
txna ApplicationArgs 1
txna ApplicationArgs 2
btoi
box_create
pop
b approve
l_bput:
txna ApplicationArgs 1
txna ApplicationArgs 2
box_put
b approve
l_bdel:
txna ApplicationArgs 1
box_del
pop
b approve
l_bresize:
txna ApplicationArgs 1
txna ApplicationArgs 2
btoi
box_resize
b approve
l_pay:
itxn_begin
int pay
itxn_field TypeEnum
txna Accounts 1
itxn_field Receiver
txna ApplicationArgs 1
btoi
itxn_field Amount
int 0
itxn_field Fee
itxn_submit
b approve
approve:
int 1
`

const clearSource = "#pragma version 10\nint 1\n"

// Gen produces transaction groups for the next block from the reference state.
type Gen struct {
	r     *rand.Rand
	st    *State
	proto config.ConsensusParams
	gh    crypto.Digest
	next  basics.Round
	byAdr map[basics.Address]*Acct
	uniq  *uint64
	bias  string // workload bias of this run (propBias[prop]); see kindRemap
}

// propBias: property id -> workload bias name; kindRemap: bias name -> remapping of the transaction
// kind draw (0..99, see the switch in one()). Observer files set both from init() to steer the
// workload towards the mechanism their property is about.
var propBias = map[string]string{}
var kindRemap = map[string]func(g *Gen, kind int) int{}

func newGen(seed uint64, st *State, gh crypto.Digest, uniq *uint64, bias string) *Gen {
	g := &Gen{bias: bias, r: rand.New(rand.NewPCG(seed, uint64(st.Round)+1)), st: st, proto: st.proto(), gh: gh, next: st.Round + 1, byAdr: map[basics.Address]*Acct{}, uniq: uniq}
	for _, a := range Accounts() {
		g.byAdr[a.Addr] = a
	}
	return g
}

func (g *Gen) n(k int) int {
	if k <= 1 {
		return 0
	}
	return g.r.IntN(k)
}

func (g *Gen) funded() []*Acct {
	var l []*Acct
	for _, a := range Accounts() {
		if ad, ok := g.st.Accts[a.Addr]; ok && ad.MicroAlgos.Raw > 10_000_000 {
			l = append(l, a)
		}
	}
	return l
}

func (g *Gen) anyAcct() *Acct { as := Accounts(); return as[g.n(len(as))] }

func (g *Gen) sender() *Acct {
	f := g.funded()
	if len(f) == 0 {
		return g.anyAcct()
	}
	return f[g.n(len(f))]
}

func u64(v uint64) []byte {
	var b [8]byte
	binary.BigEndian.PutUint64(b[:], v)
	return b[:]
}

// known creatables
func (g *Gen) assetIDs() []basics.AssetIndex {
	var l []basics.AssetIndex
	for _, k := range g.st.sortedCreatKeys() {
		if k.Type == basics.AssetCreatable {
			l = append(l, basics.AssetIndex(k.Idx))
		}
	}
	return l
}

func (g *Gen) appIDs() []basics.AppIndex {
	var l []basics.AppIndex
	for _, k := range g.st.sortedCreatKeys() {
		if k.Type == basics.AppCreatable {
			l = append(l, basics.AppIndex(k.Idx))
		}
	}
	return l
}

func (g *Gen) holders(aid basics.AssetIndex) []basics.Address {
	var l []basics.Address
	for _, k := range g.st.sortedAssetKeys() {
		if k.Idx == basics.CreatableIndex(aid) && g.st.Assets[k].Holding != nil {
			l = append(l, k.Addr)
		}
	}
	return l
}

func (g *Gen) optedIn(app basics.AppIndex) []basics.Address {
	var l []basics.Address
	for _, k := range g.st.sortedAppKeys() {
		if k.Idx == basics.CreatableIndex(app) && g.st.Apps[k].Local != nil {
			l = append(l, k.Addr)
		}
	}
	return l
}

func boxKeyPrefix(app basics.AppIndex) string { return "bx:" + string(u64(uint64(app))) }

func (g *Gen) boxes(app basics.AppIndex) []string {
	var l []string
	p := boxKeyPrefix(app)
	for _, k := range g.st.sortedKvKeys() {
		if strings.HasPrefix(k, p) {
			l = append(l, k[len(p):])
		}
	}
	return l
}

var boxNames = []string{"a", "ab", "abc", "b", "ba", "k1", "k2", "zz", "a\x00", "long-box-name-0123456789"}
var stateKeys = []string{"k", "k1", "k2", "x", "yy", "counter"}

func (g *Gen) base(t *txntest.Txn) *txntest.Txn {
	t.GenesisHash = g.gh
	t.FirstValid = g.next
	if g.n(4) == 0 && g.next > 2 {
		t.FirstValid = g.next - basics.Round(1+g.n(2))
	}
	t.LastValid = t.FirstValid + basics.Round(1+g.n(int(g.proto.MaxTxnLife)))
	if t.LastValid < g.next {
		t.LastValid = g.next
	}
	*g.uniq++
	t.Note = []byte(fmt.Sprintf("n%d", *g.uniq))
	if g.n(12) == 0 {
		t.Lease[0] = byte(1 + g.n(3)) // few distinct leases: conflicts happen
	}
	return t
}

// one generates one transaction of a drawn kind (nil if the state offers no candidate).
func (g *Gen) one() *txntest.Txn {
	s := g.sender()
	kind := g.n(100)
	if f := kindRemap[g.bias]; f != nil {
		kind = f(g, kind)
	}
	assets := g.assetIDs()
	apps := g.appIDs()
	switch {
	case kind < 22: // payment
		rcv := g.anyAcct().Addr
		amt := uint64(g.n(5_000_000)) + uint64(g.n(3))*100_000
		if g.n(10) == 0 {
			amt = uint64(g.n(2_000_000_000))
		}
		t := g.base(&txntest.Txn{Type: protocol.PaymentTx, Sender: s.Addr, Receiver: rcv, Amount: amt})
		if g.n(25) == 0 {
			t.CloseRemainderTo = g.anyAcct().Addr
		}
		return t
	case kind < 28: // keyreg
		t := g.base(&txntest.Txn{Type: protocol.KeyRegistrationTx, Sender: s.Addr})
		switch g.n(4) {
		case 0: // offline
		case 1:
			if g.n(3) == 0 {
				t.Nonparticipation = true
			}
		default:
			detBytes(t.VotePK[:], "gv", int(*g.uniq))
			detBytes(t.SelectionPK[:], "gs", int(*g.uniq))
			detBytes(t.StateProofPK[:], "gp", int(*g.uniq))
			t.VoteFirst = g.next
			t.VoteLast = g.next + basics.Round(3+g.n(40))
			t.VoteKeyDilution = 50
		}
		return t
	case kind < 32: // asset create
		tot := uint64(1 + g.n(1000))
		t := g.base(&txntest.Txn{Type: protocol.AssetConfigTx, Sender: s.Addr, AssetParams: basics.AssetParams{
			Total: tot, Decimals: uint32(g.n(3)), DefaultFrozen: g.n(5) == 0, UnitName: "u", AssetName: fmt.Sprintf("a%d", *g.uniq),
			Manager: s.Addr, Reserve: s.Addr, Freeze: s.Addr, Clawback: s.Addr}})
		if g.n(4) == 0 {
			t.AssetParams.Clawback = g.anyAcct().Addr
		}
		return t
	case kind < 42 && len(assets) > 0: // opt-in
		aid := assets[g.n(len(assets))]
		return g.base(&txntest.Txn{Type: protocol.AssetTransferTx, Sender: s.Addr, XferAsset: aid, AssetReceiver: s.Addr})
	case kind < 54 && len(assets) > 0: // transfer between holders
		aid := assets[g.n(len(assets))]
		hs := g.holders(aid)
		if len(hs) == 0 {
			return nil
		}
		from := hs[g.n(len(hs))]
		to := g.anyAcct().Addr
		if g.n(4) != 0 {
			to = hs[g.n(len(hs))]
		}
		h := g.st.Assets[resKey{from, basics.CreatableIndex(aid)}].Holding
		amt := uint64(0)
		if h != nil && h.Amount > 0 {
			amt = uint64(g.n(int(h.Amount) + 2)) // sometimes one too many
		}
		t := g.base(&txntest.Txn{Type: protocol.AssetTransferTx, Sender: from, XferAsset: aid, AssetReceiver: to, AssetAmount: amt})
		if g.n(12) == 0 {
			t.AssetCloseTo = hs[g.n(len(hs))]
		}
		return t
	case kind < 58 && len(assets) > 0: // freeze / unfreeze
		aid := assets[g.n(len(assets))]
		cr := g.st.Creators[creatKey{basics.CreatableIndex(aid), basics.AssetCreatable}]
		p := g.st.Assets[resKey{cr, basics.CreatableIndex(aid)}].Params
		if p == nil {
			return nil
		}
		hs := g.holders(aid)
		if len(hs) == 0 {
			return nil
		}
		snd := p.Freeze
		if g.n(8) == 0 {
			snd = s.Addr
		}
		return g.base(&txntest.Txn{Type: protocol.AssetFreezeTx, Sender: snd, FreezeAsset: aid, FreezeAccount: hs[g.n(len(hs))], AssetFrozen: g.n(2) == 0})
	case kind < 62 && len(assets) > 0: // clawback
		aid := assets[g.n(len(assets))]
		cr := g.st.Creators[creatKey{basics.CreatableIndex(aid), basics.AssetCreatable}]
		p := g.st.Assets[resKey{cr, basics.CreatableIndex(aid)}].Params
		hs := g.holders(aid)
		if p == nil || len(hs) < 1 {
			return nil
		}
		from := hs[g.n(len(hs))]
		to := hs[g.n(len(hs))]
		snd := p.Clawback
		if g.n(8) == 0 {
			snd = s.Addr
		}
		return g.base(&txntest.Txn{Type: protocol.AssetTransferTx, Sender: snd, XferAsset: aid, AssetSender: from, AssetReceiver: to, AssetAmount: uint64(g.n(5))})
	case kind < 64 && len(assets) > 0: // config / destroy
		aid := assets[g.n(len(assets))]
		cr := g.st.Creators[creatKey{basics.CreatableIndex(aid), basics.AssetCreatable}]
		p := g.st.Assets[resKey{cr, basics.CreatableIndex(aid)}].Params
		if p == nil {
			return nil
		}
		t := g.base(&txntest.Txn{Type: protocol.AssetConfigTx, Sender: p.Manager, ConfigAsset: aid})
		if g.n(2) == 0 { // reconfigure (else destroy: all-zero params)
			t.AssetParams = basics.AssetParams{Manager: p.Manager, Reserve: g.anyAcct().Addr, Freeze: p.Freeze, Clawback: p.Clawback}
		}
		return t
	case kind < 68: // app create
		t := g.base(&txntest.Txn{Type: protocol.ApplicationCallTx, Sender: s.Addr, ApprovalProgram: appSource, ClearStateProgram: clearSource,
			GlobalStateSchema: basics.StateSchema{NumUint: uint64(g.n(3)), NumByteSlice: uint64(1 + g.n(3))},
			LocalStateSchema:  basics.StateSchema{NumUint: uint64(g.n(2)), NumByteSlice: uint64(1 + g.n(2))}})
		return t
	case kind < 73 && len(apps) > 0: // app opt-in
		app := apps[g.n(len(apps))]
		return g.base(&txntest.Txn{Type: protocol.ApplicationCallTx, Sender: s.Addr, ApplicationID: app, OnCompletion: transactions.OptInOC})
	case kind < 76 && len(apps) > 0: // fund the app account
		app := apps[g.n(len(apps))]
		return g.base(&txntest.Txn{Type: protocol.PaymentTx, Sender: s.Addr, Receiver: app.Address(), Amount: uint64(500_000 + g.n(3_000_000))})
	case kind < 96 && len(apps) > 0: // app calls
		app := apps[g.n(len(apps))]
		t := g.base(&txntest.Txn{Type: protocol.ApplicationCallTx, Sender: s.Addr, ApplicationID: app})
		val := fmt.Sprintf("v%d", *g.uniq)
		switch g.n(12) {
		case 0, 1:
			t.ApplicationArgs = [][]byte{[]byte("gput"), []byte(stateKeys[g.n(len(stateKeys))]), []byte(val)}
		case 2:
			t.ApplicationArgs = [][]byte{[]byte("gint"), []byte(stateKeys[g.n(len(stateKeys))]), u64(uint64(g.n(100)))}
		case 3:
			t.ApplicationArgs = [][]byte{[]byte("gdel"), []byte(stateKeys[g.n(len(stateKeys))])}
		case 4:
			oi := g.optedIn(app)
			if len(oi) > 0 && g.n(5) != 0 {
				t.Sender = oi[g.n(len(oi))]
			}
			t.ApplicationArgs = [][]byte{[]byte("lput"), []byte(stateKeys[g.n(len(stateKeys))]), []byte(val)}
		case 5:
			oi := g.optedIn(app)
			if len(oi) > 0 {
				t.Sender = oi[g.n(len(oi))]
			}
			t.ApplicationArgs = [][]byte{[]byte("ldel"), []byte(stateKeys[g.n(len(stateKeys))])}
		case 6, 7:
			name := boxNames[g.n(len(boxNames))]
			size := g.n(40)
			if g.n(4) == 0 {
				size = 0 // boundary value: an empty box (nil vs empty value in the kv deltas)
			}
			t.ApplicationArgs = [][]byte{[]byte("bcreate"), []byte(name), u64(uint64(size))}
			t.Boxes = []transactions.BoxRef{{Index: 0, Name: []byte(name)}}
		case 8:
			name := boxNames[g.n(len(boxNames))]
			if bs := g.boxes(app); len(bs) > 0 && g.n(4) != 0 {
				name = bs[g.n(len(bs))]
			}
			v := []byte(val)
			if cur, ok := g.st.Kv[boxKeyPrefix(app)+name]; ok && g.n(5) != 0 {
				v = make([]byte, len(cur))
				copy(v, val)
			}
			t.ApplicationArgs = [][]byte{[]byte("bput"), []byte(name), v}
			t.Boxes = []transactions.BoxRef{{Index: 0, Name: []byte(name)}}
		case 9:
			name := boxNames[g.n(len(boxNames))]
			if bs := g.boxes(app); len(bs) > 0 && g.n(4) != 0 {
				name = bs[g.n(len(bs))]
			}
			t.ApplicationArgs = [][]byte{[]byte("bdel"), []byte(name)}
			t.Boxes = []transactions.BoxRef{{Index: 0, Name: []byte(name)}}
		case 10:
			name := boxNames[g.n(len(boxNames))]
			if bs := g.boxes(app); len(bs) > 0 && g.n(4) != 0 {
				name = bs[g.n(len(bs))]
			}
			t.ApplicationArgs = [][]byte{[]byte("bresize"), []byte(name), u64(uint64(g.n(60)))}
			t.Boxes = []transactions.BoxRef{{Index: 0, Name: []byte(name)}}
		case 11:
			t.ApplicationArgs = [][]byte{[]byte("pay"), u64(uint64(g.n(200_000)))}
			t.Accounts = []basics.Address{g.anyAcct().Addr}
			t.Fee = 2 * g.proto.MinTxnFee
		}
		return t
	case kind < 98 && len(apps) > 0: // close-out / clear / delete
		app := apps[g.n(len(apps))]
		oc := []transactions.OnCompletion{transactions.CloseOutOC, transactions.ClearStateOC, transactions.DeleteApplicationOC}[g.n(3)]
		snd := s.Addr
		if oi := g.optedIn(app); len(oi) > 0 && oc != transactions.DeleteApplicationOC {
			snd = oi[g.n(len(oi))]
		}
		if oc == transactions.DeleteApplicationOC {
			snd = g.st.Creators[creatKey{basics.CreatableIndex(app), basics.AppCreatable}]
			if g.n(3) != 0 {
				return nil // deletions are rare
			}
		}
		return g.base(&txntest.Txn{Type: protocol.ApplicationCallTx, Sender: snd, ApplicationID: app, OnCompletion: oc})
	default: // rekey (to one of the spare key pairs, or back)
		t := g.base(&txntest.Txn{Type: protocol.PaymentTx, Sender: s.Addr, Receiver: s.Addr, Amount: 0})
		as := Accounts()
		if g.n(3) == 0 {
			t.RekeyTo = s.Addr
		} else {
			t.RekeyTo = as[nAccounts+g.n(len(as)-nAccounts)].Addr
		}
		return t
	}
}

// authOf returns the key pair that must sign for addr at the reference state.
func (g *Gen) authOf(addr basics.Address) *Acct {
	auth := addr
	if ad, ok := g.st.Accts[addr]; ok && !ad.AuthAddr.IsZero() {
		auth = ad.AuthAddr
	}
	return g.byAdr[auth]
}

// sign fills defaults (fees) and signs each member with its current authorizer.
func (g *Gen) sign(txs []*txntest.Txn) []transactions.SignedTxn {
	for _, t := range txs {
		t.FillDefaults(g.proto)
	}
	var stxns []transactions.SignedTxn
	if len(txs) > 1 {
		stxns = txntest.Group(txs...)
	} else {
		stxns = []transactions.SignedTxn{txs[0].SignedTxn()}
	}
	for i := range stxns {
		k := g.authOf(stxns[i].Txn.Sender)
		if k == nil {
			continue // unknown authorizer (e.g. an app account as sender): left unsigned, will be rejected
		}
		stxns[i] = stxns[i].Txn.Sign(k.Sec)
		if k.Addr != stxns[i].Txn.Sender {
			stxns[i].AuthAddr = k.Addr
		}
	}
	return stxns
}

// Groups generates the candidate groups for the next block.
func (g *Gen) Groups(maxGroups int) [][]transactions.SignedTxn {
	var out [][]transactions.SignedTxn
	ng := g.n(maxGroups + 1)
	for i := 0; i < ng; i++ {
		size := 1
		if g.n(4) == 0 {
			size = 2 + g.n(3)
		}
		var txs []*txntest.Txn
		for len(txs) < size {
			t := g.one()
			if t == nil {
				if g.n(6) == 0 {
					break
				}
				continue
			}
			txs = append(txs, t)
		}
		if len(txs) == 0 {
			continue
		}
		out = append(out, g.sign(txs))
	}
	return out
}

func sortAddrs(l []basics.Address) {
	sort.Slice(l, func(i, j int) bool { return string(l[i][:]) < string(l[j][:]) })
}
