package ledgersim

import (
	"github.com/algorand/go-algorand/data/basics"
	"github.com/algorand/go-algorand/data/transactions"
	"github.com/algorand/go-algorand/data/txntest"
	"github.com/algorand/go-algorand/protocol"
)

// Workload of the tx-pool runs (C20, C44): what is submitted to the pool besides the generator's
// groups, and what "another node" proposes in foreign rounds. Everything is built from the reference
// state of the latest block (g.st) and drawn from the per-block PCG (g.n); nothing here predicts what
// the pool does with a group - the oracles only compare the pool with a fresh evaluator.

// plSender: a main account that can pay a fee and whose current authorizer key the simulator holds.
func (g *Gen) plSender(not map[basics.Address]bool) *Acct {
	var l []*Acct
	for _, a := range mainAccts() {
		if not[a.Addr] || g.authOf(a.Addr) == nil {
			continue
		}
		if ad, ok := g.st.Accts[a.Addr]; ok && ad.MicroAlgos.Raw > ad.MinBalance(&g.proto).Raw+50_000 {
			l = append(l, a)
		}
	}
	if len(l) == 0 {
		return nil
	}
	return l[g.n(len(l))]
}

// plSpendable: what addr can pay out in the next block besides a fee (balance with the rewards pending
// at the latest level, minus its minimum balance).
func (g *Gen) plSpendable(addr basics.Address) uint64 {
	ad, ok := g.st.Accts[addr]
	if !ok {
		return 0
	}
	w := ad.WithUpdatedRewards(g.proto.RewardUnit, g.st.Hdr.RewardsLevel)
	mb := w.MinBalance(&g.proto).Raw
	if w.MicroAlgos.Raw <= mb {
		return 0
	}
	return w.MicroAlgos.Raw - mb
}

// plPoorest: the main account with the smallest balance other than the excluded one (receiver of
// draining payments, so that money keeps circulating among the accounts that sign transactions).
func (g *Gen) plPoorest(not basics.Address) basics.Address {
	var best basics.Address
	bb := ^uint64(0)
	for _, a := range mainAccts() {
		if a.Addr == not {
			continue
		}
		b := g.st.Accts[a.Addr].MicroAlgos.Raw
		if b < bb {
			best, bb = a.Addr, b
		}
	}
	return best
}

// plPay builds and signs a single-payment group. fv/lv = validity window, lease 0 = none.
func (g *Gen) plPay(from, to basics.Address, amt uint64, fv, lv basics.Round, lease byte) []transactions.SignedTxn {
	var l [32]byte
	l[0] = lease // same lease space as the base generator (Gen.base): the two collide on purpose
	return g.plPayLease(from, to, amt, fv, lv, l)
}

func (g *Gen) plPayLease(from, to basics.Address, amt uint64, fv, lv basics.Round, lease [32]byte) []transactions.SignedTxn {
	t := g.xbase(&txntest.Txn{Type: protocol.PaymentTx, Sender: from, Receiver: to, Amount: amt})
	t.FirstValid, t.LastValid = fv, lv
	t.Lease = lease
	return g.sign([]*txntest.Txn{t})
}

// plFee is the fee FillDefaults will choose for a payment of about this size.
func (g *Gen) plFee(from, to basics.Address, amt uint64) uint64 {
	t := &txntest.Txn{Type: protocol.PaymentTx, Sender: from, Receiver: to, Amount: amt, FirstValid: g.next, LastValid: g.next + 4, GenesisHash: g.gh, Note: []byte("x000000")}
	t.FillDefaults(g.proto)
	if f, ok := t.Fee.(basics.MicroAlgos); ok {
		return f.Raw
	}
	return g.proto.MinTxnFee
}

func copyGroup(grp []transactions.SignedTxn) []transactions.SignedTxn {
	return append([]transactions.SignedTxn(nil), grp...)
}

// life draws a validity window that is valid in the next round: mostly short.
func (g *Gen) plLife() (basics.Round, basics.Round) {
	fv := g.next
	if g.n(4) == 0 && g.next > 2 {
		fv = g.next - basics.Round(1+g.n(2))
	}
	lv := g.next + basics.Round([]int{0, 0, 1, 1, 2, 3, 5, int(g.proto.MaxTxnLife) - 1}[g.n(8)])
	if lv > fv+basics.Round(g.proto.MaxTxnLife) {
		lv = fv + basics.Round(g.proto.MaxTxnLife)
	}
	return fv, lv
}

func (o *poolObs) buildBatch(s *Sim, g *Gen, cands []Candidate, pend [][]transactions.SignedTxn) []poolSub {
	var b []poolSub
	for _, c := range cands {
		b = append(b, poolSub{c.Txns, "base"})
	}
	add := func(kind string, grp []transactions.SignedTxn) {
		if len(grp) > 0 {
			b = append(b, poolSub{grp, kind})
		}
	}
	nx := 1 + g.n(5)
	for i := 0; i < nx; i++ {
		switch g.n(13) {
		case 0: // the same group twice in one batch
			if len(b) > 0 {
				add("dup-batch", copyGroup(b[g.n(len(b))].Txns))
			}
		case 1: // a group that is already pending
			if len(pend) > 0 {
				add("dup-pending", copyGroup(pend[g.n(len(pend))]))
			}
		case 2: // a group that was committed a few blocks ago
			if len(o.recent) > 0 {
				add("dup-committed", copyGroup(o.recent[g.n(len(o.recent))]))
			}
		case 3: // two payments that each fit the balance, but not both
			if snd := g.plSender(nil); snd != nil {
				sp := g.plSpendable(snd.Addr)
				fv, lv := g.plLife()
				for k := 0; k < 2; k++ {
					amt := sp/100*uint64(55+g.n(40)) + uint64(g.n(1000))
					add("doublespend", g.plPay(snd.Addr, g.plPoorest(snd.Addr), amt, fv, lv+basics.Round(k), 0))
				}
			}
		case 4, 5: // a payment that leaves the sender just above its minimum balance, then small payments by the same sender
			if snd := g.plSender(nil); snd != nil {
				sp := g.plSpendable(snd.Addr)
				to := g.plPoorest(snd.Addr)
				fee := g.plFee(snd.Addr, to, sp)
				left := uint64(g.n(4)) * (fee + uint64(g.n(1500))) // room for a few more fees, or none
				if sp > fee+left+1 {
					fv, lv := g.plLife()
					add("drain", g.plPay(snd.Addr, to, sp-fee-left, fv, lv, 0))
					for k, n := 0, 1+g.n(4); k < n; k++ {
						fv2, lv2 := g.plLife()
						add("after-drain", g.plPay(snd.Addr, g.anyAcct().Addr, uint64(g.n(1200)), fv2, lv2, 0))
					}
				}
			}
		case 6: // two different transactions of one sender under the same lease
			if snd := g.plSender(nil); snd != nil {
				lease := byte(1 + g.n(3))
				for k := 0; k < 2; k++ {
					fv, lv := g.plLife()
					add("lease", g.plPay(snd.Addr, g.anyAcct().Addr, uint64(1+g.n(5000)), fv, lv+basics.Round(g.n(3)), lease))
				}
			}
		case 7: // chain: A funds a spare account, which spends that money in the next group
			if snd := g.plSender(nil); snd != nil {
				sp := spareAccts()
				mid := sp[g.n(len(sp))]
				if g.authOf(mid.Addr) != nil {
					x := uint64(300_000 + g.n(2_000_000))
					fv, lv := g.plLife()
					first := g.plPay(snd.Addr, mid.Addr, x, fv, lv+1, 0)
					have := g.plSpendable(mid.Addr)
					second := g.plPay(mid.Addr, g.anyAcct().Addr, have+x/2, fv, lv+1, 0)
					if g.n(5) == 0 {
						add("chain-2", second)
						add("chain-1", first)
					} else {
						add("chain-1", first)
						add("chain-2", second)
					}
				}
			}
		case 8: // valid only in the very next round (or the one after)
			if snd := g.plSender(nil); snd != nil {
				add("short", g.plPay(snd.Addr, g.anyAcct().Addr, uint64(g.n(9000)), g.next, g.next+basics.Round(g.n(2)), 0))
			}
		case 9: // not yet valid / already expired
			if snd := g.plSender(nil); snd != nil {
				if g.n(2) == 0 || g.next < 3 {
					add("early", g.plPay(snd.Addr, g.anyAcct().Addr, uint64(g.n(9000)), g.next+1+basics.Round(g.n(2)), g.next+4, 0))
				} else {
					add("expired", g.plPay(snd.Addr, g.anyAcct().Addr, uint64(g.n(9000)), g.next-2, g.next-1, 0))
				}
			}
		case 10: // bad signature: never reaches the pool (the transaction handler verifies first)
			if snd := g.plSender(nil); snd != nil {
				grp := g.plPay(snd.Addr, g.anyAcct().Addr, uint64(g.n(9000)), g.next, g.next+3, 0)
				if len(grp) == 1 {
					grp[0].Sig[3] ^= 0x40
					add("badsig", grp)
				}
			}
		default: // a burst of small payments: fills the pool up to its size limit
			for k, n := 0, 2+g.n(7); k < n; k++ {
				if snd := g.plSender(nil); snd != nil {
					fv, lv := g.plLife()
					add("burst", g.plPay(snd.Addr, g.anyAcct().Addr, uint64(g.n(5000)), fv, lv, 0))
				}
			}
		}
	}
	if g.n(4) == 0 {
		g.r.Shuffle(len(b), func(i, j int) { b[i], b[j] = b[j], b[i] })
	}
	return b
}

// buildForeign: the candidates of a block proposed by another node. They are evaluated by the driver's
// own evaluator in this order (which rejects what does not apply).
func (o *poolObs) buildForeign(s *Sim, g *Gen, batch []poolSub, pend [][]transactions.SignedTxn) []Candidate {
	var fc []Candidate
	add := func(kind string, grp []transactions.SignedTxn) {
		if len(grp) > 0 {
			fc = append(fc, Candidate{Txns: grp, Info: kind})
		}
	}
	// conflicts with what this node has pending: the other node commits a payment that empties the
	// sender of a pending group, or a transaction under the lease a pending transaction wants
	var all [][]transactions.SignedTxn
	all = append(all, pend...)
	for _, sub := range batch {
		all = append(all, sub.Txns)
	}
	for k := 0; k < 2 && len(all) > 0; k++ {
		victim := all[g.n(len(all))][0].Txn
		if victim.Type != protocol.PaymentTx || g.authOf(victim.Sender) == nil {
			continue
		}
		if victim.Lease != ([32]byte{}) && g.n(2) == 0 {
			grp := g.plPayLease(victim.Sender, g.anyAcct().Addr, uint64(1+g.n(500)), g.next, g.next+basics.Round(2+g.n(4)), victim.Lease)
			add("foreign-lease", grp)
			continue
		}
		sp := g.plSpendable(victim.Sender)
		to := g.plPoorest(victim.Sender)
		fee := g.plFee(victim.Sender, to, sp)
		if sp > fee+1 {
			add("foreign-drain", g.plPay(victim.Sender, to, sp-fee-uint64(g.n(300)), g.next, g.next+3, 0))
		}
	}
	// transactions both nodes have heard of
	for _, sub := range batch {
		if g.n(2) == 0 {
			add("foreign-shared", sub.Txns)
		}
	}
	for _, grp := range pend {
		if g.n(3) == 0 {
			add("foreign-shared", grp)
		}
	}
	// transactions only the other node knows
	for _, grp := range g.Groups(2) {
		add("foreign-own", grp)
	}
	if g.n(3) == 0 {
		g.r.Shuffle(len(fc), func(i, j int) { fc[i], fc[j] = fc[j], fc[i] })
	}
	return fc
}
