package ledgersim

import (
	"bytes"
	"context"
	"crypto/sha256"
	"fmt"
	"math/rand/v2"
	"os"
	"path/filepath"
	"sort"
	"testing/synctest"

	"github.com/algorand/go-algorand/agreement"
	"github.com/algorand/go-algorand/config"
	"github.com/algorand/go-algorand/data/basics"
	"github.com/algorand/go-algorand/data/bookkeeping"
	"github.com/algorand/go-algorand/data/transactions"
	"github.com/algorand/go-algorand/ledger"
	"github.com/algorand/go-algorand/ledger/eval"
	"github.com/algorand/go-algorand/ledger/ledgercore"
	"github.com/algorand/go-algorand/protocol"
)

// C20 oracle. Every block of a tx-pool run - assembled by the pool or by "another node" - is, before
// the driver validates and adds it, evaluated on the same state through different code paths:
//
//   P1  primary  Ledger.Validate: eval.Eval(validate=true): prefetcher goroutines + signature verification
//                fanned out over the execution pool (runtime.NumCPU() real worker goroutines created inside
//                the bubble: completion order of prefetch and verification tasks is up to the Go scheduler)
//   P2  primary  eval.Eval(validate=false), the path of Ledger.AddBlock and of tracker replay at start-up
//                (prefetcher, no signature verification, evaluator not in validate mode)
//   P3  primary  no prefetcher, no execution pool: StartEvaluator(Validate, !Generate) + TransactionGroup per
//                payset group + the evaluator's end-of-block processing (hook VerifEndOfBlock)
//   P4  replica  Ledger.Validate on a second ledger with the same blocks but its own MaxAcctLookback / LRU
//                setting (different flush state), fed through AddBlock, with its own clean restarts and
//                crashes (cold caches, tracker replay from its own DB round)
//   P5  primary  Ledger.Validate again (warm caches, verified-transaction cache filled by P1)
//   P6  primary  generate mode: a fresh generating evaluator is fed the signed transactions of the payset
//                (without their ApplyData), GenerateBlock + FinishBlock with the block's seed/proposer: the
//                regenerated block must be byte-identical to the proposed one
//
// (a) a block assembled from the pool that P1 or P4 rejects is a violation; (b) the canonical digests
// of the StateDeltas of P1-P5 and the block bytes of P1/P4/P5/P6 must all be equal.

type poolReplica struct {
	led  *ledger.Ledger
	dir  string
	inc  int
	cfg  config.Local
	next basics.Round
}

func (o *poolObs) openReplica(s *Sim) bool {
	r := o.rep
	l, err := ledger.OpenLedger(s.logger(), filepath.Join(r.dir, "ledger"), false, s.init, r.cfg)
	if err != nil {
		s.violate("C09", "reopen-failed", "", fmt.Sprintf("C20 replica: OpenLedger failed: %v", err))
		return false
	}
	synctest.Wait()
	r.led = l
	r.next = l.Latest() + 1
	return true
}

func (o *poolObs) startReplica(s *Sim, g *Gen) {
	r := &poolReplica{dir: filepath.Join(s.dir, "c20rep-0"), cfg: s.lcfg}
	// a different flush state: the tracker DB of the replica lags the blocks by a different amount
	r.cfg.MaxAcctLookback = uint64(1 + (int(s.lcfg.MaxAcctLookback)+2+g.n(5))%8)
	// no LRU caches on the replica (the primary has them in 2 of 3 runs): every lookup that is not in the
	// in-memory deltas goes to the tracker DB; it also keeps the replica's restarts cheap in real time
	r.cfg.DisableLedgerLRUCache = true
	r.cfg.CatchpointInterval = 0
	r.cfg.CatchpointTracking = 0
	r.cfg.VerifiedTranscationsCacheSize = 2000
	os.MkdirAll(r.dir, 0o755)
	o.rep = r
	if !o.openReplica(s) {
		o.rep = nil
		if s.harness == "" && s.viol == nil {
			s.harness = "C20 replica did not open"
		}
		return
	}
	s.log.Add("  C20 replica: lookback=%d nolru=%v (primary lookback=%d nolru=%v)", r.cfg.MaxAcctLookback, r.cfg.DisableLedgerLRUCache, s.lcfg.MaxAcctLookback, s.lcfg.DisableLedgerLRUCache)
	o.catchUpReplica(s)
}

// catchUpReplica feeds the replica every block of the reference history it does not have yet.
func (o *poolObs) catchUpReplica(s *Sim) {
	r := o.rep
	if r == nil {
		return
	}
	for r.next <= s.latest && s.viol == nil {
		if err := r.led.AddBlock(s.blocks[r.next], agreement.Certificate{}); err != nil {
			s.violate("C20", "replica-rejects-block", "", fmt.Sprintf("the replica (same blocks, lookback %d) rejects block %d that the primary accepted: %v", r.cfg.MaxAcctLookback, r.next, err))
			return
		}
		r.next++
		synctest.Wait()
	}
}

func (o *poolObs) feedReplica(s *Sim, blk bookkeeping.Block) {
	o.catchUpReplica(s)
}

// reopenReplica: after the primary was reopened. If the primary lost unacknowledged blocks the replica
// may hold blocks of a history that no longer exists: rebuild it from genesis.
func (o *poolObs) reopenReplica(s *Sim) {
	r := o.rep
	if r == nil {
		return
	}
	if r.led.Latest() <= s.latest {
		o.catchUpReplica(s)
		return
	}
	r.led.Close()
	synctest.Wait()
	r.inc++
	r.dir = filepath.Join(s.dir, fmt.Sprintf("c20rep-%d", r.inc))
	os.MkdirAll(r.dir, 0o755)
	s.stat("pool.replica_rebuild", 1)
	if o.openReplica(s) {
		o.catchUpReplica(s)
	}
}

// replicaRestarts: the replica's own restart history (after the block was added everywhere).
func (o *poolObs) replicaRestarts(s *Sim, rg *rand.Rand) {
	r := o.rep
	if r == nil || s.viol != nil || s.harness != "" {
		return
	}
	switch x := rg.IntN(40); { // an OpenLedger costs ~1s of real time (cache allocation): keep restarts rare
	case x == 0: // crash: only the durable image survives
		r.inc++
		next := filepath.Join(s.dir, fmt.Sprintf("c20rep-%d", r.inc))
		if err := copyDir(r.dir, next); err != nil {
			s.harness = "replica copy: " + err.Error()
			return
		}
		old := r.led
		r.dir = next
		go old.Close()
		synctest.Wait()
		if !o.openReplica(s) {
			return
		}
		s.stat("pool.replica_crash", 1)
		s.log.Add("  C20 replica crash -> latest %d (reference %d)", r.led.Latest(), s.latest)
		o.catchUpReplica(s)
	case x == 1:
		r.led.Close()
		synctest.Wait()
		if !o.openReplica(s) {
			return
		}
		s.stat("pool.replica_reload", 1)
		o.catchUpReplica(s)
	}
}

func (o *poolObs) closeReplica(s *Sim) {
	if o.rep != nil && o.rep.led != nil {
		o.rep.led.Close()
		synctest.Wait()
	}
}

// ---------------------------------------------------------------------------------------------
// canonical StateDelta digest
// ---------------------------------------------------------------------------------------------

func encOrNil[T any](p *T, enc func(*T) []byte) string {
	if p == nil {
		return "<nil>"
	}
	return string(enc(p))
}

// canonDelta returns (digest of the delta as a set of changes, digest that also depends on the order
// of the account/resource slices; the latter is only counted - stat c20.order_differs - never asserted
// or logged: the evaluator itself produces the resource slices in map-iteration order). Maps are never iterated into the hash: every element becomes one
// line, the lines are sorted.
func canonDelta(d ledgercore.StateDelta) (string, string) {
	var lines, ordered []string
	for _, br := range d.Accts.Accts {
		l := fmt.Sprintf("A|%x|%+v", br.Addr[:], br.AccountData)
		lines, ordered = append(lines, l), append(ordered, l)
	}
	for _, r := range d.Accts.AssetResources {
		l := fmt.Sprintf("S|%x|%d|%v|%x|%v|%x", r.Addr[:], r.Aidx, r.Params.Deleted, encOrNil(r.Params.Params, func(p *basics.AssetParams) []byte { return protocol.Encode(p) }),
			r.Holding.Deleted, encOrNil(r.Holding.Holding, func(p *basics.AssetHolding) []byte { return protocol.Encode(p) }))
		lines, ordered = append(lines, l), append(ordered, l)
	}
	for _, r := range d.Accts.AppResources {
		l := fmt.Sprintf("P|%x|%d|%v|%x|%v|%x", r.Addr[:], r.Aidx, r.Params.Deleted, encOrNil(r.Params.Params, func(p *basics.AppParams) []byte { return protocol.Encode(p) }),
			r.State.Deleted, encOrNil(r.State.LocalState, func(p *basics.AppLocalState) []byte { return protocol.Encode(p) }))
		lines, ordered = append(lines, l), append(ordered, l)
	}
	for k, v := range d.KvMods {
		lines = append(lines, fmt.Sprintf("K|%x|%v|%x|%v|%x", k, v.Data == nil, v.Data, v.OldData == nil, v.OldData))
	}
	for id, it := range d.Txids {
		lines = append(lines, fmt.Sprintf("T|%x|%d|%d", id[:], it.LastValid, it.Intra))
	}
	for tl, r := range d.Txleases {
		lines = append(lines, fmt.Sprintf("L|%x|%x|%d", tl.Sender[:], tl.Lease[:], r))
	}
	for idx, c := range d.Creatables {
		lines = append(lines, fmt.Sprintf("C|%d|%d|%v|%x|%d", idx, c.Ctype, c.Created, c.Creator[:], c.Ndeltas))
	}
	if d.Hdr != nil {
		lines = append(lines, fmt.Sprintf("H|%x", protocol.Encode(d.Hdr)))
	}
	lines = append(lines, fmt.Sprintf("X|%d|%d|%+v", d.StateProofNext, d.PrevTimestamp, d.Totals))
	sort.Strings(lines)
	h := sha256.New()
	for _, l := range lines {
		h.Write([]byte(l))
		h.Write([]byte{'\n'})
	}
	set := fmt.Sprintf("%x", h.Sum(nil)[:12])
	for _, l := range ordered {
		h.Write([]byte(l))
		h.Write([]byte{'\n'})
	}
	return set, fmt.Sprintf("%x", h.Sum(nil)[:12])
}

// ---------------------------------------------------------------------------------------------
// the k-way evaluation
// ---------------------------------------------------------------------------------------------

type evalPath struct {
	name  string
	delta string // canonical digest ("" = this path yields no delta)
	order string
	block []byte // resulting block bytes (nil = this path yields no block)
}

func (o *poolObs) evalNoPrefetch(l *ledger.Ledger, blk bookkeeping.Block) (ledgercore.StateDelta, error) {
	ev, err := eval.StartEvaluator(l, blk.BlockHeader, eval.EvaluatorOptions{PaysetHint: len(blk.Payset), Validate: true, Generate: false})
	if err != nil {
		return ledgercore.StateDelta{}, err
	}
	groups, err := blk.DecodePaysetGroups()
	if err != nil {
		return ledgercore.StateDelta{}, err
	}
	for _, grp := range groups {
		if err := ev.TransactionGroup(grp...); err != nil {
			return ledgercore.StateDelta{}, err
		}
	}
	return ev.VerifEndOfBlock()
}

// regenerate: generate mode over the same signed transactions must reproduce the block.
func (o *poolObs) regenerate(s *Sim, blk bookkeeping.Block, parts []basics.Address) (bookkeeping.Block, error) {
	prev, err := s.led.BlockHdr(blk.Round() - 1)
	if err != nil {
		return bookkeeping.Block{}, err
	}
	hdr := bookkeeping.MakeBlock(prev).BlockHeader
	hdr.TimeStamp = blk.TimeStamp
	hdr.UpgradeVote = blk.UpgradeVote
	ev, err := eval.StartEvaluator(s.led, hdr, eval.EvaluatorOptions{PaysetHint: len(blk.Payset), Validate: true, Generate: true})
	if err != nil {
		return bookkeeping.Block{}, err
	}
	groups, err := blk.DecodePaysetGroups()
	if err != nil {
		return bookkeeping.Block{}, err
	}
	for _, grp := range groups {
		bare := make([]transactions.SignedTxnWithAD, len(grp))
		for i := range grp {
			bare[i] = transactions.SignedTxnWithAD{SignedTxn: grp[i].SignedTxn}
		}
		if err := ev.TransactionGroup(bare...); err != nil {
			return bookkeeping.Block{}, err
		}
	}
	ub, err := ev.GenerateBlock(parts)
	if err != nil {
		return bookkeeping.Block{}, err
	}
	return ub.FinishBlock(blk.Seed(), blk.Proposer(), !blk.ProposerPayout().IsZero()), nil
}

func (o *poolObs) TamperBlock(s *Sim, g *Gen, blk bookkeeping.Block) {
	if s.viol != nil || s.harness != "" || !o.c20 {
		return
	}
	who := "another node's block"
	if o.local {
		who = "the block assembled from the pool"
	}
	r := blk.Round()
	rep := o.rep
	if rep == nil || rep.led.Latest() != r-1 {
		s.harness = fmt.Sprintf("C20: replica is not at round %d", r-1)
		return
	}
	ctx := context.Background()
	orig := protocol.Encode(&blk)
	var paths []evalPath
	reject := func(path string, err error) {
		if o.local {
			s.violate("C20", "pool-block-rejected", "", fmt.Sprintf("round %d: %s (%d txns) is rejected by %s: %v", r, who, len(blk.Payset), path, err))
		} else {
			s.violate("C20", "evaluation-paths-disagree", "", fmt.Sprintf("round %d: %s (%d txns) is rejected by %s: %v", r, who, len(blk.Payset), path, err))
		}
	}
	// P1
	vb, err := s.led.Validate(ctx, blk, s.pool)
	if err != nil {
		if o.local {
			reject("Ledger.Validate on the ledger it was assembled on", err)
		}
		// a foreign block that does not validate is the driver's business (assembled-block-invalid)
		return
	}
	d, od := canonDelta(vb.Delta())
	vblk := vb.Block()
	paths = append(paths, evalPath{"Validate(primary, prefetch + parallel signature verification)", d, od, protocol.Encode(&vblk)})
	if o.local {
		s.stat("c20.local_validated", 1)
	}
	// P2
	d2, err := eval.Eval(ctx, s.led, blk, false, s.led.VerifiedTransactionCache(), nil, nil)
	if err != nil {
		reject("eval.Eval(validate=false) (the AddBlock path) although Ledger.Validate accepted it", err)
		return
	}
	d, od = canonDelta(d2)
	paths = append(paths, evalPath{"Eval(primary, validate=false, prefetch)", d, od, nil})
	// P3
	d3, err := o.evalNoPrefetch(s.led, blk)
	if err != nil {
		reject("a validating evaluator fed group by group without prefetcher although Ledger.Validate accepted it", err)
		return
	}
	d, od = canonDelta(d3)
	paths = append(paths, evalPath{"evaluator(primary, validate, no prefetch, no execution pool)", d, od, nil})
	// P4
	vb4, err := rep.led.Validate(ctx, blk, s.pool)
	if err != nil {
		reject(fmt.Sprintf("Ledger.Validate on the replica (same blocks, lookback %d, tracker DB round %d vs %d on the primary) although the primary accepted it", rep.cfg.MaxAcctLookback, rep.led.LatestTrackerCommitted(), s.led.LatestTrackerCommitted()), err)
		return
	}
	s.stat("c20.replica_validated", 1)
	d, od = canonDelta(vb4.Delta())
	vblk4 := vb4.Block()
	paths = append(paths, evalPath{"Validate(replica)", d, od, protocol.Encode(&vblk4)})
	// P5
	vb5, err := s.led.Validate(ctx, blk, s.pool)
	if err != nil {
		reject("a second Ledger.Validate on the primary although the first accepted it", err)
		return
	}
	d, od = canonDelta(vb5.Delta())
	vblk5 := vb5.Block()
	paths = append(paths, evalPath{"Validate(primary, second time)", d, od, protocol.Encode(&vblk5)})
	// P6
	var parts []basics.Address
	if o.local {
		parts = o.parts[r]
	} else if prp := s.proposer(); !prp.IsZero() {
		parts = []basics.Address{prp}
	}
	rb, err := o.regenerate(s, blk, parts)
	if err != nil {
		reject("a generating evaluator fed the same signed transactions although Ledger.Validate accepted the block", err)
		return
	}
	// which expired / absent accounts a proposer lists, and in which order, is its own choice (the
	// generating evaluator collects them by ranging over a map): compared as sets
	if sameAddrSet(rb.ExpiredParticipationAccounts, blk.ExpiredParticipationAccounts) {
		rb.ExpiredParticipationAccounts = blk.ExpiredParticipationAccounts
	}
	if sameAddrSet(rb.AbsentParticipationAccounts, blk.AbsentParticipationAccounts) {
		rb.AbsentParticipationAccounts = blk.AbsentParticipationAccounts
	}
	paths = append(paths, evalPath{"GenerateBlock(primary, same transactions)", "", "", protocol.Encode(&rb)})

	o.nKway++
	s.stat("c20.kway", 1)
	if len(blk.Payset) > 0 {
		o.nKwayNonEmpty++
		s.stat("c20.kway_nonempty", 1)
	}
	for _, p := range paths[1:] {
		if p.delta != "" && p.delta != paths[0].delta {
			s.violate("C20", "delta-differs", "", fmt.Sprintf("round %d, %s (%d txns): StateDelta digest %s from %s, but %s from %s", r, who, len(blk.Payset), paths[0].delta, paths[0].name, p.delta, p.name))
			return
		}
		if p.delta != "" && p.order != paths[0].order {
			s.stat("c20.order_differs", 1)
		}
	}
	for _, p := range paths {
		if p.block != nil && !bytes.Equal(p.block, orig) {
			what := ""
			var pb bookkeeping.Block
			if protocol.Decode(p.block, &pb) == nil {
				what = blockDiff(blk, pb)
			}
			s.violate("C20", "block-differs", "", fmt.Sprintf("round %d, %s (%d txns): the block resulting from %s differs from the proposed block (%d vs %d bytes): %s", r, who, len(blk.Payset), p.name, len(p.block), len(orig), what))
			return
		}
	}
	// the order of the resource slices inside a StateDelta is NOT logged: roundCowState.deltas() folds the
	// application storage deltas by ranging over maps, so it varies from evaluation to evaluation
	s.log.Add("  C20: r%d local=%v txns=%d delta=%s: %d paths agree", r, o.local, len(blk.Payset), paths[0].delta, len(paths))
}

// blockDiff names what differs between the proposed block a and the block b some path produced.
func blockDiff(a, b bookkeeping.Block) string {
	ha, hb := fmt.Sprintf("%+v", a.BlockHeader), fmt.Sprintf("%+v", b.BlockHeader)
	if ha != hb {
		i := 0
		for i < len(ha) && i < len(hb) && ha[i] == hb[i] {
			i++
		}
		lo := i - 60
		if lo < 0 {
			lo = 0
		}
		cut := func(x string) string {
			hi := i + 100
			if hi > len(x) {
				hi = len(x)
			}
			return x[lo:hi]
		}
		return fmt.Sprintf("headers differ: proposed ...%s... vs ...%s...", cut(ha), cut(hb))
	}
	if len(a.Payset) != len(b.Payset) {
		return fmt.Sprintf("payset length %d vs %d", len(a.Payset), len(b.Payset))
	}
	for i := range a.Payset {
		if !bytes.Equal(protocol.Encode(&a.Payset[i]), protocol.Encode(&b.Payset[i])) {
			return fmt.Sprintf("payset entry %d differs: %+v vs %+v", i, a.Payset[i].ApplyData, b.Payset[i].ApplyData)
		}
	}
	return "no difference found in header or payset"
}

func sameAddrSet(a, b []basics.Address) bool {
	if len(a) != len(b) {
		return false
	}
	x, y := append([]basics.Address(nil), a...), append([]basics.Address(nil), b...)
	sortAddrs(x)
	sortAddrs(y)
	for i := range x {
		if x[i] != y[i] {
			return false
		}
	}
	return true
}
