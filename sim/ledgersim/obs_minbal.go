package ledgersim

import (
	"fmt"
	"sort"

	"github.com/algorand/go-algorand/config"
	"github.com/algorand/go-algorand/data/basics"
	"github.com/algorand/go-algorand/data/bookkeeping"
	"github.com/algorand/go-algorand/data/transactions"
	"github.com/algorand/go-algorand/data/txntest"
	"github.com/algorand/go-algorand/ledger/eval"
	"github.com/algorand/go-algorand/ledger/ledgercore"
	"github.com/algorand/go-algorand/protocol"
)

// C21 "Accounts never end a transaction below minimum balance".
//
// Oracle (two granularities):
//   - per block, fully independent: for every account the block's StateDelta touches (account record,
//     asset/app resource record, or owner of a modified box) other than fee sink / rewards pool /
//     state-proof sender, the account is absent from the reference fold and owns nothing, or its
//     micro-algos incl. the rewards pending at the block's level are >= a minimum balance recomputed
//     from the consensus parameters and the RESOURCES of the reference fold (holdings, created apps and
//     their global schema + extra pages, local states and their recorded schema, boxes enumerated from
//     the kv fold) - not from the account's Total* counters and not through any MinBalance helper.
//   - per committed group (through the read-only evaluator view hook): after every accepted group the
//     same inequality for every account modified so far in the block, with the formula applied to the
//     account's Total* counters (the counters are cross-checked against the fold per block: a counter
//     that disagrees with the resources is what makes the enforced minimum differ from the implied one).
//
// Workload: boundary probes. A drawn account is driven to EXACTLY its required balance + d
// (d in {-1, 0, +1, ...}) by spending, by being funded, or right before an action that raises the
// requirement (asset opt-in/creation, app opt-in/creation with drawn schemas and extra pages, box
// creation/resize on an app account, inner payment out of an app account).

func init() {
	registerObserver([]string{"C21"}, func(s *Sim) Observer { return newMinBalObs(s) })
}

// Nontrivial implements NontrivialJudge.
func (o *minBalObs) Nontrivial(s *Sim) bool {
	return s.stats["c21.accounts_checked_block"] > 0 && s.stats["c21.at_exact_min_balance"] > 0 && s.stats["c21.probe_below_rejected"] > 0
}

// mbCosts is the independent min-balance formula.
type mbCosts struct{ p config.ConsensusParams }

func (c mbCosts) schema(nUint, nBytes uint64) uint64 {
	return c.p.SchemaMinBalancePerEntry*(nUint+nBytes) + c.p.SchemaUintMinBalance*nUint + c.p.SchemaBytesMinBalance*nBytes
}
func (c mbCosts) asset() uint64 { return c.p.MinBalance }
func (c mbCosts) appCreate(global basics.StateSchema, extraPages uint64) uint64 {
	return c.p.AppFlatParamsMinBalance*(1+extraPages) + c.schema(global.NumUint, global.NumByteSlice)
}
func (c mbCosts) appOptIn(local basics.StateSchema) uint64 {
	return c.p.AppFlatOptInMinBalance + c.schema(local.NumUint, local.NumByteSlice)
}
func (c mbCosts) box(nameLen, size uint64) uint64 {
	return c.p.BoxFlatMinBalance + c.p.BoxByteMinBalance*(nameLen+size)
}

// mbRes is what an account owns according to the reference fold.
type mbRes struct {
	Holdings, AppsCreated, AppsOptedIn, ExtraPages, SchemaUint, SchemaBytes, Boxes, BoxBytes uint64
}

func (c mbCosts) required(r mbRes) uint64 {
	return c.p.MinBalance + c.asset()*r.Holdings + c.p.AppFlatParamsMinBalance*(r.AppsCreated+r.ExtraPages) + c.p.AppFlatOptInMinBalance*r.AppsOptedIn +
		c.schema(r.SchemaUint, r.SchemaBytes) + c.p.BoxFlatMinBalance*r.Boxes + c.p.BoxByteMinBalance*r.BoxBytes
}

// requiredFromCounters applies the same formula to the Total* counters of an account record.
func (c mbCosts) requiredFromCounters(ad ledgercore.AccountData) uint64 {
	return c.required(mbRes{Holdings: ad.TotalAssets, AppsCreated: ad.TotalAppParams, AppsOptedIn: ad.TotalAppLocalStates, ExtraPages: uint64(ad.TotalExtraAppPages),
		SchemaUint: ad.TotalAppSchema.NumUint, SchemaBytes: ad.TotalAppSchema.NumByteSlice, Boxes: ad.TotalBoxes, BoxBytes: ad.TotalBoxBytes})
}

// mbIndex enumerates, per account, the resources of a reference state.
func mbIndex(st *State) map[basics.Address]mbRes {
	m := map[basics.Address]mbRes{}
	for k, a := range st.Assets { // pure accumulation: order independent
		if a.Holding != nil {
			r := m[k.Addr]
			r.Holdings++
			m[k.Addr] = r
		}
	}
	for k, a := range st.Apps {
		r := m[k.Addr]
		if a.Params != nil {
			r.AppsCreated++
			r.ExtraPages += uint64(a.Params.ExtraProgramPages)
			r.SchemaUint += a.Params.GlobalStateSchema.NumUint
			r.SchemaBytes += a.Params.GlobalStateSchema.NumByteSlice
		}
		if a.Local != nil {
			r.AppsOptedIn++
			r.SchemaUint += a.Local.Schema.NumUint
			r.SchemaBytes += a.Local.Schema.NumByteSlice
		}
		m[k.Addr] = r
	}
	for k, v := range st.Kv {
		if app, name, ok := boxKeySplit(k); ok {
			a := app.Address()
			r := m[a]
			r.Boxes++
			r.BoxBytes += uint64(len(name) + len(v))
			m[a] = r
		}
	}
	return m
}

type mbProbeInfo struct {
	Kind   string
	D      int64
	Target basics.Address
}

type minBalObs struct {
	NopObserver
	level uint64 // rewards level of the block under construction
}

func newMinBalObs(s *Sim) *minBalObs {
	s.statInit("c21.accounts_checked_block", "c21.accounts_checked_group", "c21.at_exact_min_balance", "c21.within_1000_of_min_balance",
		"c21.probe_below_rejected", "c21.probe_below_accepted", "c21.probe_at_accepted", "c21.probe_at_rejected", "c21.probe_above_accepted", "c21.probe_above_rejected", "c21.counter_vs_resources_mismatch")
	for _, k := range mbProbeKinds {
		s.statInit("c21.gen."+k, "c21.acc."+k, "c21.rej."+k)
	}
	return &minBalObs{}
}

var mbProbeKinds = []string{"fund", "spend", "optin-asset", "create-asset", "optin-app", "create-app", "box-create", "box-resize", "app-spend", "close-out-spend"}

func mbExempt(a basics.Address) bool {
	return a == sinkAddr || a == poolAddr || a == transactions.StateProofSender
}

func feeOf(t *txntest.Txn) uint64 {
	switch f := t.Fee.(type) {
	case basics.MicroAlgos:
		return f.Raw
	case uint64:
		return f
	case int:
		return uint64(f)
	}
	return 0
}

func mbDrawD(g *Gen) int64 {
	switch g.n(10) {
	case 0, 1, 2, 3:
		return -1
	case 4, 5, 6, 7:
		return 0
	case 8:
		return 1
	default:
		return -int64(1 + g.n(50_000))
	}
}

// ExtraGroups puts 0-3 boundary probes in front of the generated groups (so that the balances of
// the reference state, plus rewards at the new level, are exactly what the evaluator starts from).
func (o *minBalObs) ExtraGroups(s *Sim, g *Gen, ev *eval.BlockEvaluator, hdr *bookkeeping.BlockHeader, cands []Candidate) []Candidate {
	o.level = evalRewardsLevel(ev)
	idx := mbIndex(g.st)
	cost := mbCosts{g.proto}
	used := map[basics.Address]bool{}
	var front []Candidate
	for i, n := 0, g.n(4); i < n; i++ {
		if c := o.probe(s, g, hdr, idx, cost, used); c != nil {
			front = append(front, *c)
		}
	}
	out := append(front, cands...)
	if len(g.libApps()) < 2 { // keep applications around for the box / inner-payment probes
		if p := g.rich(richFloor); p != nil && !used[p.Addr] {
			out = append(out, Candidate{Txns: g.sign([]*txntest.Txn{g.xbase(&txntest.Txn{Type: protocol.ApplicationCallTx, Sender: p.Addr, ApprovalProgram: appSource, ClearStateProgram: clearSource,
				GlobalStateSchema: basics.StateSchema{NumUint: uint64(g.n(3)), NumByteSlice: uint64(1 + g.n(3))}, LocalStateSchema: basics.StateSchema{NumUint: uint64(g.n(2)), NumByteSlice: uint64(g.n(3))}})})})
		}
	}
	return out
}

func (o *minBalObs) probe(s *Sim, g *Gen, hdr *bookkeeping.BlockHeader, idx map[basics.Address]mbRes, cost mbCosts, used map[basics.Address]bool) *Candidate {
	usedList := func() []basics.Address {
		var l []basics.Address
		for a := range used {
			l = append(l, a)
		}
		return l // only used as an exclusion set
	}
	d := mbDrawD(g)
	kind := mbProbeKinds[g.n(len(mbProbeKinds))]
	level := o.level
	pay := func(from, to basics.Address, amt uint64) *txntest.Txn {
		return g.xbase(&txntest.Txn{Type: protocol.PaymentTx, Sender: from, Receiver: to, Amount: amt})
	}
	// adjust returns the member that brings p to exactly `target` micro-algos (nil,true if it already is there).
	adjust := func(p basics.Address, r *Acct, target uint64) (*txntest.Txn, bool) {
		bal := g.balAt(p, level)
		switch {
		case bal == target:
			return nil, true
		case bal < target:
			return pay(r.Addr, p, target-bal), true
		default:
			if g.authOf(p) == nil { // an app account: it can only spend through its program
				if app, ok := o.appOfAddr(g.st, p); ok {
					t := g.xbase(&txntest.Txn{Type: protocol.ApplicationCallTx, Sender: r.Addr, ApplicationID: app, ApplicationArgs: [][]byte{[]byte("pay"), u64(bal - target)}, Accounts: []basics.Address{r.Addr}, Fee: 2 * g.proto.MinTxnFee})
					return t, true
				}
				return nil, false
			}
			t := pay(p, r.Addr, 0)
			t.FillDefaults(g.proto)
			fee := feeOf(t)
			if bal < target+fee {
				return nil, false
			}
			t.Amount = bal - fee - target
			return t, true
		}
	}
	var p basics.Address // the probed account
	var txs []*txntest.Txn
	var r *Acct
	pickUser := func() bool {
		var l []*Acct
		for _, a := range spareAccts() {
			if !used[a.Addr] {
				l = append(l, a)
			}
		}
		if g.n(8) == 0 {
			rich := 0
			for _, a := range mainAccts() {
				if g.st.Accts[a.Addr].MicroAlgos.Raw > richFloor {
					rich++
				}
			}
			if rich >= 5 {
				for _, a := range mainAccts() {
					if !used[a.Addr] {
						l = append(l, a)
					}
				}
			}
		}
		if len(l) == 0 {
			return false
		}
		p = l[g.n(len(l))].Addr
		used[p] = true
		r = g.rich(richFloor, usedList()...)
		if r == nil {
			return false
		}
		used[r.Addr] = true
		return g.authOf(p) != nil
	}
	pickApp := func() (basics.AppIndex, bool) {
		var l []basics.AppIndex
		for _, id := range g.appIDs() {
			if pr, _ := g.st.appParams(id); pr != nil && len(pr.ApprovalProgram) > 100 && !used[id.Address()] { // the library program (it knows bcreate/pay/...)
				l = append(l, id)
			}
		}
		if len(l) == 0 {
			return 0, false
		}
		id := l[g.n(len(l))]
		p = id.Address()
		used[p] = true
		r = g.rich(richFloor, usedList()...)
		if r == nil {
			return 0, false
		}
		used[r.Addr] = true
		return id, true
	}
	// withAction builds [adjust p to required-after + fee-if-p-pays + d, action].
	withAction := func(action *txntest.Txn, extra uint64) bool {
		action.FillDefaults(g.proto)
		fee := uint64(0)
		if action.Sender == p {
			fee = feeOf(action)
		}
		want := int64(cost.required(idx[p])+extra+fee) + d
		if want < 0 {
			return false
		}
		a, ok := adjust(p, r, uint64(want))
		if !ok {
			return false
		}
		if a != nil {
			txs = append(txs, a)
		}
		txs = append(txs, action)
		return true
	}
	switch kind {
	case "fund":
		if !pickUser() {
			return nil
		}
		want := int64(cost.required(idx[p])) + d
		bal := g.balAt(p, level)
		if want <= int64(bal) {
			return nil
		}
		txs = append(txs, pay(r.Addr, p, uint64(want)-bal))
	case "spend":
		if !pickUser() {
			return nil
		}
		want := int64(cost.required(idx[p])) + d
		if want < 1 {
			return nil
		}
		a, ok := adjust(p, r, uint64(want))
		if !ok || a == nil || a.Sender != p {
			return nil
		}
		txs = append(txs, a)
	case "optin-asset":
		if !pickUser() {
			return nil
		}
		var l []basics.AssetIndex
		for _, id := range g.assetIDs() {
			if g.st.holding(p, id) == nil {
				l = append(l, id)
			}
		}
		if len(l) == 0 {
			return nil
		}
		id := l[g.n(len(l))]
		if !withAction(g.xbase(&txntest.Txn{Type: protocol.AssetTransferTx, Sender: p, XferAsset: id, AssetReceiver: p}), cost.asset()) {
			return nil
		}
	case "create-asset":
		if !pickUser() {
			return nil
		}
		t := g.xbase(&txntest.Txn{Type: protocol.AssetConfigTx, Sender: p, AssetParams: basics.AssetParams{Total: uint64(1 + g.n(1000)), UnitName: "mb", AssetName: fmt.Sprintf("mb%d", *g.uniq),
			Manager: p, Reserve: p, Freeze: p, Clawback: p}})
		if !withAction(t, cost.asset()) {
			return nil
		}
	case "optin-app":
		if !pickUser() {
			return nil
		}
		var l []basics.AppIndex
		for _, id := range g.appIDs() {
			if g.st.Apps[resKey{p, basics.CreatableIndex(id)}].Local == nil {
				l = append(l, id)
			}
		}
		if len(l) == 0 {
			return nil
		}
		id := l[g.n(len(l))]
		pr, _ := g.st.appParams(id)
		if pr == nil {
			return nil
		}
		if !withAction(g.xbase(&txntest.Txn{Type: protocol.ApplicationCallTx, Sender: p, ApplicationID: id, OnCompletion: transactions.OptInOC}), cost.appOptIn(pr.LocalStateSchema)) {
			return nil
		}
	case "create-app":
		if !pickUser() {
			return nil
		}
		gs := basics.StateSchema{NumUint: uint64(g.n(4)), NumByteSlice: uint64(g.n(4))}
		ls := basics.StateSchema{NumUint: uint64(g.n(3)), NumByteSlice: uint64(g.n(3))}
		pages := uint32(g.n(3))
		t := g.xbase(&txntest.Txn{Type: protocol.ApplicationCallTx, Sender: p, ApprovalProgram: appSource, ClearStateProgram: clearSource, GlobalStateSchema: gs, LocalStateSchema: ls, ExtraProgramPages: pages})
		if !withAction(t, cost.appCreate(gs, uint64(pages))) {
			return nil
		}
	case "box-create":
		id, ok := pickApp()
		if !ok {
			return nil
		}
		name := fmt.Sprintf("mb%d", g.n(1000))
		if g.n(3) == 0 {
			name = boxNames[g.n(len(boxNames))]
		}
		if _, exists := g.st.Kv[boxKeyPrefix(id)+name]; exists {
			return nil
		}
		size := uint64(g.n(200))
		t := g.xbase(&txntest.Txn{Type: protocol.ApplicationCallTx, Sender: r.Addr, ApplicationID: id, ApplicationArgs: [][]byte{[]byte("bcreate"), []byte(name), u64(size)},
			Boxes: []transactions.BoxRef{{Index: 0, Name: []byte(name)}}})
		if !withAction(t, cost.box(uint64(len(name)), size)) {
			return nil
		}
	case "box-resize":
		id, ok := pickApp()
		if !ok {
			return nil
		}
		bs := g.boxes(id)
		if len(bs) == 0 {
			return nil
		}
		name := bs[g.n(len(bs))]
		cur := uint64(len(g.st.Kv[boxKeyPrefix(id)+name]))
		grow := uint64(1 + g.n(100))
		t := g.xbase(&txntest.Txn{Type: protocol.ApplicationCallTx, Sender: r.Addr, ApplicationID: id, ApplicationArgs: [][]byte{[]byte("bresize"), []byte(name), u64(cur + grow)},
			Boxes: []transactions.BoxRef{{Index: 0, Name: []byte(name)}}})
		if !withAction(t, g.proto.BoxByteMinBalance*grow) {
			return nil
		}
	case "app-spend":
		id, ok := pickApp()
		if !ok {
			return nil
		}
		want := int64(cost.required(idx[p])) + d
		bal := g.balAt(p, level)
		if want < 1 || int64(bal) <= want {
			return nil
		}
		txs = append(txs, g.xbase(&txntest.Txn{Type: protocol.ApplicationCallTx, Sender: r.Addr, ApplicationID: id, ApplicationArgs: [][]byte{[]byte("pay"), u64(bal - uint64(want))},
			Accounts: []basics.Address{r.Addr}, Fee: 2 * g.proto.MinTxnFee}))
	case "close-out-spend": // give up a resource and spend what it frees, in one group: [opt out of an asset, pay down to the NEW requirement + d]
		if !pickUser() {
			return nil
		}
		var l []basics.AssetIndex
		for _, id := range g.assetIDs() {
			if h := g.st.holding(p, id); h != nil && h.Amount == 0 {
				if _, cr := g.st.assetParams(id); cr != p {
					l = append(l, id)
				}
			}
		}
		if len(l) == 0 {
			return nil
		}
		id := l[g.n(len(l))]
		_, cr := g.st.assetParams(id)
		out := g.xbase(&txntest.Txn{Type: protocol.AssetTransferTx, Sender: p, XferAsset: id, AssetReceiver: cr, AssetCloseTo: cr})
		out.FillDefaults(g.proto)
		spend := pay(p, r.Addr, 0)
		spend.FillDefaults(g.proto)
		bal := g.balAt(p, level)
		want := int64(cost.required(idx[p])-cost.asset()) + d
		rest := int64(bal) - int64(feeOf(out)) - int64(feeOf(spend)) - want
		if want < 1 || rest < 0 {
			return nil
		}
		spend.Amount = uint64(rest)
		txs = append(txs, out, spend)
	}
	if len(txs) == 0 {
		return nil
	}
	s.stat("c21.gen."+kind, 1)
	return &Candidate{Txns: g.sign(txs), Poison: "c21." + kind, Info: mbProbeInfo{kind, d, p}}
}

func (o *minBalObs) appOfAddr(st *State, a basics.Address) (basics.AppIndex, bool) {
	for _, k := range st.sortedCreatKeys() {
		if k.Type == basics.AppCreatable && basics.AppIndex(k.Idx).Address() == a {
			return basics.AppIndex(k.Idx), true
		}
	}
	return 0, false
}

// GroupResult: per-group oracle through the evaluator's read-only view, and probe bookkeeping.
func (o *minBalObs) GroupResult(s *Sim, ev *eval.BlockEvaluator, c Candidate, stage string, err error) {
	if pi, ok := c.Info.(mbProbeInfo); ok {
		cls := "at"
		if pi.D < 0 {
			cls = "below"
		} else if pi.D > 0 {
			cls = "above"
		}
		if err == nil {
			s.stat("c21.probe_"+cls+"_accepted", 1)
			s.stat("c21.acc."+pi.Kind, 1)
		} else {
			s.stat("c21.probe_"+cls+"_rejected", 1)
			s.stat("c21.rej."+pi.Kind, 1)
		}
		s.log.Add("c21 probe %s d=%d target=%s -> stage=%q rejected=%v", pi.Kind, pi.D, shortAddr(pi.Target), stage, err != nil)
	}
	if err != nil {
		return
	}
	cost := mbCosts{ev.ConsensusParams()}
	for _, a := range ev.VerifModifiedAccounts() {
		if mbExempt(a) {
			continue
		}
		ad, lerr := ev.VerifLookup(a)
		if lerr != nil || ad.IsZero() {
			continue
		}
		s.stat("c21.accounts_checked_group", 1)
		bal := ad.WithUpdatedRewards(cost.p.RewardUnit, o.level).MicroAlgos.Raw
		if req := cost.requiredFromCounters(ad); bal < req {
			s.violate("C21", "below-min-balance-after-group", "", fmt.Sprintf("after the accepted group %v (probe %q) account %s holds %d micro-algos (incl. pending rewards) but its assets/apps/schema/boxes counters %+v require %d",
				txidsOf(c.Txns), c.Poison, a, bal, ad.AccountBaseData, req))
			return
		}
	}
}

// BlockDone: per-block oracle against the resources of the reference fold.
func (o *minBalObs) BlockDone(s *Sim, prev, next *State, blk bookkeeping.Block, delta ledgercore.StateDelta) {
	cost := mbCosts{next.proto()}
	idx := mbIndex(next)
	mod := map[basics.Address]bool{}
	for _, r := range delta.Accts.Accts {
		mod[r.Addr] = true
	}
	for _, r := range delta.Accts.AssetResources {
		mod[r.Addr] = true
	}
	for _, r := range delta.Accts.AppResources {
		mod[r.Addr] = true
	}
	for k := range delta.KvMods {
		if app, _, ok := boxKeySplit(k); ok {
			mod[app.Address()] = true
		}
	}
	l := make([]basics.Address, 0, len(mod))
	for a := range mod {
		l = append(l, a)
	}
	sort.Slice(l, func(i, j int) bool { return string(l[i][:]) < string(l[j][:]) })
	for _, a := range l {
		if mbExempt(a) {
			continue
		}
		res := idx[a]
		req := cost.required(res)
		ad, ok := next.Accts[a]
		s.stat("c21.accounts_checked_block", 1)
		if !ok {
			if res != (mbRes{}) {
				s.violate("C21", "closed-account-keeps-resources", "", fmt.Sprintf("round %d: account %s no longer exists but still owns %+v (requires %d micro-algos)", next.Round, a, res, req))
				return
			}
			continue
		}
		bal := next.withRewards(ad).MicroAlgos.Raw
		if bal < req {
			s.violate("C21", "below-min-balance", "", fmt.Sprintf("round %d: account %s holds %d micro-algos (incl. pending rewards at level %d) but owns %+v which requires %d (account record %+v)",
				next.Round, a, bal, next.Hdr.RewardsLevel, res, req, ad.AccountBaseData))
			return
		}
		if bal == req {
			s.stat("c21.at_exact_min_balance", 1)
		}
		if bal-req < 1000 {
			s.stat("c21.within_1000_of_min_balance", 1)
		}
		if cost.requiredFromCounters(ad) != req {
			s.stat("c21.counter_vs_resources_mismatch", 1)
			s.log.Add("c21 counters of %s imply %d, resources imply %d", shortAddr(a), cost.requiredFromCounters(ad), req)
		}
	}
}
