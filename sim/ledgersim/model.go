package ledgersim

import (
	"fmt"
	"sort"

	"github.com/algorand/go-algorand/config"
	"github.com/algorand/go-algorand/data/basics"
	"github.com/algorand/go-algorand/data/bookkeeping"
	"github.com/algorand/go-algorand/ledger/ledgercore"
)

// Reference model: the fold of per-block StateDeltas over genesis (DESIGN.md §4 C08). The
// evaluator's deltas are taken as given (the evaluator is the subject of other properties); what
// is decided with this model is that the tracker stack serves exactly the fold, whatever is in
// memory, in caches or on disk.

type resKey struct {
	Addr basics.Address
	Idx  basics.CreatableIndex
}

type assetRes struct {
	Params  *basics.AssetParams
	Holding *basics.AssetHolding
}

type appRes struct {
	Params *basics.AppParams
	Local  *basics.AppLocalState
}

type creatKey struct {
	Idx  basics.CreatableIndex
	Type basics.CreatableType
}

// State is the ledger state at one round according to the reference.
type State struct {
	Round    basics.Round
	Hdr      bookkeeping.BlockHeader
	Accts    map[basics.Address]ledgercore.AccountData
	Assets   map[resKey]assetRes
	Apps     map[resKey]appRes
	Kv       map[string][]byte
	Creators map[creatKey]basics.Address
}

func newState() *State {
	return &State{Accts: map[basics.Address]ledgercore.AccountData{}, Assets: map[resKey]assetRes{}, Apps: map[resKey]appRes{},
		Kv: map[string][]byte{}, Creators: map[creatKey]basics.Address{}}
}

func (s *State) clone() *State {
	c := newState()
	c.Round, c.Hdr = s.Round, s.Hdr
	for k, v := range s.Accts {
		c.Accts[k] = v
	}
	for k, v := range s.Assets {
		c.Assets[k] = v // params/holding pointers are never mutated in place (replaced on update)
	}
	for k, v := range s.Apps {
		c.Apps[k] = v
	}
	for k, v := range s.Kv {
		c.Kv[k] = v
	}
	for k, v := range s.Creators {
		c.Creators[k] = v
	}
	return c
}

// genesisState builds round 0 from the genesis balances.
func genesisState(bal map[basics.Address]basics.AccountData, hdr bookkeeping.BlockHeader) *State {
	s := newState()
	s.Hdr = hdr
	for a, ad := range bal {
		s.Accts[a] = ledgercore.ToAccountData(ad)
	}
	return s
}

func cloneAssetParams(p basics.AssetParams) *basics.AssetParams { return &p }
func cloneHolding(h basics.AssetHolding) *basics.AssetHolding   { return &h }

func cloneTKV(m basics.TealKeyValue) basics.TealKeyValue {
	if m == nil {
		return nil
	}
	c := make(basics.TealKeyValue, len(m))
	for k, v := range m {
		c[k] = v
	}
	return c
}

func cloneAppParams(p basics.AppParams) *basics.AppParams {
	c := p
	c.ApprovalProgram = append([]byte(nil), p.ApprovalProgram...)
	c.ClearStateProgram = append([]byte(nil), p.ClearStateProgram...)
	c.GlobalState = cloneTKV(p.GlobalState)
	return &c
}

func cloneLocal(l basics.AppLocalState) *basics.AppLocalState {
	c := l
	c.KeyValue = cloneTKV(l.KeyValue)
	return &c
}

// apply folds one block's StateDelta into a copy of s.
func (s *State) apply(d ledgercore.StateDelta) *State {
	n := s.clone()
	n.Round = d.Hdr.Round
	n.Hdr = *d.Hdr
	for _, br := range d.Accts.Accts {
		if br.AccountData.IsZero() {
			delete(n.Accts, br.Addr)
		} else {
			n.Accts[br.Addr] = br.AccountData
		}
	}
	for _, r := range d.Accts.AssetResources {
		k := resKey{r.Addr, basics.CreatableIndex(r.Aidx)}
		cur := n.Assets[k]
		if r.Params.Deleted {
			cur.Params = nil
		} else if r.Params.Params != nil {
			cur.Params = cloneAssetParams(*r.Params.Params)
		}
		if r.Holding.Deleted {
			cur.Holding = nil
		} else if r.Holding.Holding != nil {
			cur.Holding = cloneHolding(*r.Holding.Holding)
		}
		if cur.Params == nil && cur.Holding == nil {
			delete(n.Assets, k)
		} else {
			n.Assets[k] = cur
		}
	}
	for _, r := range d.Accts.AppResources {
		k := resKey{r.Addr, basics.CreatableIndex(r.Aidx)}
		cur := n.Apps[k]
		if r.Params.Deleted {
			cur.Params = nil
		} else if r.Params.Params != nil {
			cur.Params = cloneAppParams(*r.Params.Params)
		}
		if r.State.Deleted {
			cur.Local = nil
		} else if r.State.LocalState != nil {
			cur.Local = cloneLocal(*r.State.LocalState)
		}
		if cur.Params == nil && cur.Local == nil {
			delete(n.Apps, k)
		} else {
			n.Apps[k] = cur
		}
	}
	for k, v := range d.KvMods {
		if v.Data == nil {
			delete(n.Kv, k)
		} else {
			n.Kv[k] = append([]byte{}, v.Data...)
		}
	}
	for idx, c := range d.Creatables {
		ck := creatKey{idx, c.Ctype}
		if c.Created {
			n.Creators[ck] = c.Creator
		} else {
			delete(n.Creators, ck)
		}
	}
	return n
}

func (s *State) proto() config.ConsensusParams { return config.Consensus[s.Hdr.CurrentProtocol] }

// sortedAddrs returns every address the model knows, sorted (never iterate maps into logs/decisions).
func (s *State) sortedAddrs() []basics.Address {
	l := make([]basics.Address, 0, len(s.Accts))
	for a := range s.Accts {
		l = append(l, a)
	}
	sort.Slice(l, func(i, j int) bool { return string(l[i][:]) < string(l[j][:]) })
	return l
}

func (s *State) sortedAssetKeys() []resKey {
	l := make([]resKey, 0, len(s.Assets))
	for k := range s.Assets {
		l = append(l, k)
	}
	sort.Slice(l, func(i, j int) bool {
		if l[i].Addr != l[j].Addr {
			return string(l[i].Addr[:]) < string(l[j].Addr[:])
		}
		return l[i].Idx < l[j].Idx
	})
	return l
}

func (s *State) sortedAppKeys() []resKey {
	l := make([]resKey, 0, len(s.Apps))
	for k := range s.Apps {
		l = append(l, k)
	}
	sort.Slice(l, func(i, j int) bool {
		if l[i].Addr != l[j].Addr {
			return string(l[i].Addr[:]) < string(l[j].Addr[:])
		}
		return l[i].Idx < l[j].Idx
	})
	return l
}

func (s *State) sortedKvKeys() []string {
	l := make([]string, 0, len(s.Kv))
	for k := range s.Kv {
		l = append(l, k)
	}
	sort.Strings(l)
	return l
}

func (s *State) sortedCreatKeys() []creatKey {
	l := make([]creatKey, 0, len(s.Creators))
	for k := range s.Creators {
		l = append(l, k)
	}
	sort.Slice(l, func(i, j int) bool {
		if l[i].Idx != l[j].Idx {
			return l[i].Idx < l[j].Idx
		}
		return l[i].Type < l[j].Type
	})
	return l
}

// withRewards is the account as LookupAccount must report it at this state's round.
func (s *State) withRewards(ad ledgercore.AccountData) ledgercore.AccountData {
	p := s.proto()
	return ad.WithUpdatedRewards(p.RewardUnit, s.Hdr.RewardsLevel)
}

// totals recomputes the account totals from the accounts (independent of StateDelta.Totals).
type refTotals struct {
	Online, Offline, NotPart       uint64 // money
	OnlineRU, OfflineRU, NotPartRU uint64 // reward units
	RewardsLevel                   uint64
	All                            uint64 // all money incl. pending rewards at this level
}

func (s *State) totals() refTotals {
	p := s.proto()
	var t refTotals
	t.RewardsLevel = s.Hdr.RewardsLevel
	for _, a := range s.sortedAddrs() {
		ad := s.Accts[a]
		wr := ad.WithUpdatedRewards(p.RewardUnit, s.Hdr.RewardsLevel)
		ru := ad.MicroAlgos.Raw / p.RewardUnit
		switch ad.Status {
		case basics.Online:
			t.Online += wr.MicroAlgos.Raw
			t.OnlineRU += ru
		case basics.Offline:
			t.Offline += wr.MicroAlgos.Raw
			t.OfflineRU += ru
		case basics.NotParticipating:
			t.NotPart += ad.MicroAlgos.Raw
			t.NotPartRU += ru
		}
	}
	t.All = t.Online + t.Offline + t.NotPart
	return t
}

func shortAddr(a basics.Address) string { return fmt.Sprintf("%x", a[:3]) }
