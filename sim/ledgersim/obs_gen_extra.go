package ledgersim

import (
	"encoding/binary"
	"fmt"
	"math/bits"
	"os"
	"sort"
	"strings"

	"github.com/algorand/go-algorand/data/basics"
	"github.com/algorand/go-algorand/data/transactions"
	"github.com/algorand/go-algorand/data/txntest"
	"github.com/algorand/go-algorand/ledger/eval"
	"github.com/algorand/go-algorand/protocol"
)

// Helpers shared by the evaluator-property observers (C19, C21, C22, C23). Everything here is
// deterministic: maps are only iterated through sorted key lists, randomness comes from g.n().

// xbase fills the header of an observer-generated transaction: valid right now, unique note, no lease
// (the base generator's random leases would make good-faith members fail for unrelated reasons).
func (g *Gen) xbase(t *txntest.Txn) *txntest.Txn {
	t.GenesisHash = g.gh
	t.FirstValid = g.next
	t.LastValid = g.next + basics.Round(g.proto.MaxTxnLife)
	*g.uniq++
	t.Note = []byte(fmt.Sprintf("x%d", *g.uniq))
	return t
}

// balAt is addr's spendable balance in the block being built: micro-algos of the reference state
// with the rewards pending at the new block's rewards level.
func (g *Gen) balAt(addr basics.Address, level uint64) uint64 {
	ad, ok := g.st.Accts[addr]
	if !ok {
		return 0
	}
	return ad.WithUpdatedRewards(g.proto.RewardUnit, level).MicroAlgos.Raw
}

// evalRewardsLevel is the rewards level of the block under construction (the header handed to
// ExtraGroups does not carry it yet: the evaluator derives the rewards state itself).
func evalRewardsLevel(ev *eval.BlockEvaluator) uint64 { return ev.VerifView().Mods.Hdr.RewardsLevel }

// mainAccts are the genesis-funded accounts; spareAccts only exist as key pairs until somebody pays them.
func mainAccts() []*Acct  { return Accounts()[:nAccounts] }
func spareAccts() []*Acct { return Accounts()[nAccounts:] }

// rich returns a main account holding at least min micro-algos at the reference state, other than the excluded ones.
func (g *Gen) rich(min uint64, not ...basics.Address) *Acct {
	var l []*Acct
outer:
	for _, a := range mainAccts() {
		for _, x := range not {
			if a.Addr == x {
				continue outer
			}
		}
		if ad, ok := g.st.Accts[a.Addr]; ok && ad.MicroAlgos.Raw >= min {
			l = append(l, a)
		}
	}
	if len(l) == 0 {
		return nil
	}
	return l[g.n(len(l))]
}

const richFloor = 1_000_000_000_000 // an account above this can fund any probe

type boxEnt struct {
	Name  string
	Value []byte
}

// boxKeySplit decodes a kv key of the form "bx:" + 8-byte big-endian app id + name.
func boxKeySplit(k string) (basics.AppIndex, string, bool) {
	if !strings.HasPrefix(k, "bx:") || len(k) < 11 {
		return 0, "", false
	}
	return basics.AppIndex(binary.BigEndian.Uint64([]byte(k[3:11]))), k[11:], true
}

// refBoxes enumerates the boxes of the reference kv fold per application, names sorted.
func refBoxes(st *State) (map[basics.AppIndex][]boxEnt, []basics.AppIndex) {
	m := map[basics.AppIndex][]boxEnt{}
	for _, k := range st.sortedKvKeys() {
		if app, name, ok := boxKeySplit(k); ok {
			m[app] = append(m[app], boxEnt{name, st.Kv[k]})
		}
	}
	ids := make([]basics.AppIndex, 0, len(m))
	for id := range m {
		ids = append(ids, id)
	}
	sort.Slice(ids, func(i, j int) bool { return ids[i] < ids[j] })
	return m, ids
}

// assetParams returns the parameters of an existing asset and its creator.
func (s *State) assetParams(aid basics.AssetIndex) (*basics.AssetParams, basics.Address) {
	cr, ok := s.Creators[creatKey{basics.CreatableIndex(aid), basics.AssetCreatable}]
	if !ok {
		return nil, basics.Address{}
	}
	return s.Assets[resKey{cr, basics.CreatableIndex(aid)}].Params, cr
}

// appParams returns the parameters of an existing application and its creator.
func (s *State) appParams(app basics.AppIndex) (*basics.AppParams, basics.Address) {
	cr, ok := s.Creators[creatKey{basics.CreatableIndex(app), basics.AppCreatable}]
	if !ok {
		return nil, basics.Address{}
	}
	return s.Apps[resKey{cr, basics.CreatableIndex(app)}].Params, cr
}

func (s *State) holding(a basics.Address, aid basics.AssetIndex) *basics.AssetHolding {
	return s.Assets[resKey{a, basics.CreatableIndex(aid)}].Holding
}

// touched is the set of accounts a transaction names explicitly (sender, receivers, close-to, asset
// sender, freeze target, app accounts array, the called app's account). A fact about an account that
// held at the reference state still holds when a candidate is evaluated if no earlier candidate of the
// block touches the account.
func touched(txns []transactions.SignedTxn, into map[basics.Address]bool) {
	for i := range txns {
		t := &txns[i].Txn
		for _, a := range []basics.Address{t.Sender, t.Receiver, t.CloseRemainderTo, t.AssetReceiver, t.AssetSender, t.AssetCloseTo, t.FreezeAccount, t.RekeyTo} {
			if !a.IsZero() {
				into[a] = true
			}
		}
		for _, a := range t.Accounts {
			into[a] = true
		}
		if t.Type == protocol.ApplicationCallTx && t.ApplicationID != 0 {
			into[t.ApplicationID.Address()] = true
		}
	}
}

// insertBefore inserts c into cands at a drawn position not later than the first candidate that
// touches one of the critical accounts (so what the reference state says about them is still true
// when c is evaluated; rejected candidates in front of it change nothing).
func insertBefore(g *Gen, cands []Candidate, c Candidate, critical []basics.Address) []Candidate {
	limit := len(cands)
	for i := range cands {
		if cands[i].MustReject {
			continue // rejected by construction: leaves no trace (and if it does, that is reported)
		}
		ts := map[basics.Address]bool{}
		touched(cands[i].Txns, ts)
		// an asset destroyed (or reconfigured) by its manager and an application deleted by a caller other than the
		// creator change the CREATOR's account (parameters removed, minimum balance down) although the creator is
		// named nowhere in the transaction (thorough sweep, C19 seed 101: a "min-balance" poison was legitimately
		// accepted after such a group)
		for j := range cands[i].Txns {
			t := &cands[i].Txns[j].Txn
			if t.Type == protocol.AssetConfigTx && t.ConfigAsset != 0 {
				if cr, ok := g.st.Creators[creatKey{basics.CreatableIndex(t.ConfigAsset), basics.AssetCreatable}]; ok {
					if os.Getenv("VERIF_DEBUG_NOCREATORTOUCH") != "" {
						for _, a := range critical {
							if a == cr && !ts[cr] {
								fmt.Fprintf(os.Stderr, "DEBUG creator-touch: acfg of asset %d by %s changes critical creator %s\n", t.ConfigAsset, shortAddr(t.Sender), shortAddr(cr))
							}
						}
						continue
					}
					ts[cr] = true
				}
			}
			if t.Type == protocol.ApplicationCallTx && t.ApplicationID != 0 {
				if cr, ok := g.st.Creators[creatKey{basics.CreatableIndex(t.ApplicationID), basics.AppCreatable}]; ok {
					if os.Getenv("VERIF_DEBUG_NOCREATORTOUCH") != "" {
						for _, a := range critical {
							if a == cr && !ts[cr] {
								fmt.Fprintf(os.Stderr, "DEBUG creator-touch: call of app %d (oc %d) by %s may change critical creator %s\n", t.ApplicationID, t.OnCompletion, shortAddr(t.Sender), shortAddr(cr))
							}
						}
						continue
					}
					ts[cr] = true
				}
			}
		}
		hit := false
		for _, a := range critical {
			if ts[a] {
				hit = true
			}
		}
		// app calls can pay/modify accounts that are only reachable through the program; the library
		// programs only address Sender, Accounts[] and the app account, all in the touch set.
		if hit {
			limit = i
			break
		}
	}
	pos := g.n(limit + 1)
	out := make([]Candidate, 0, len(cands)+1)
	out = append(out, cands[:pos]...)
	out = append(out, c)
	out = append(out, cands[pos:]...)
	return out
}

// add128 adds v to the 128-bit accumulator (hi, lo).
func add128(hi, lo, v uint64) (uint64, uint64) {
	l, c := bits.Add64(lo, v, 0)
	return hi + c, l
}

// txidsOf lists the ids of the members of a group.
func txidsOf(txns []transactions.SignedTxn) []transactions.Txid {
	l := make([]transactions.Txid, len(txns))
	for i := range txns {
		l[i] = txns[i].ID()
	}
	return l
}

// statInit makes a counter show up as 0 in the evidence when it never fires.
func (s *Sim) statInit(names ...string) {
	for _, n := range names {
		s.stat(n, 0)
	}
}
