package ledgersim

import (
	"bytes"
	"context"
	"fmt"
	"io"
	"os"
	"path/filepath"
	"sort"
	"strings"
	"testing"
	"testing/synctest"
	"time"

	"github.com/algorand/go-deadlock"

	"github.com/algorand/go-algorand/agreement"
	"github.com/algorand/go-algorand/config"
	"github.com/algorand/go-algorand/crypto"
	"github.com/algorand/go-algorand/data/basics"
	"github.com/algorand/go-algorand/data/bookkeeping"
	"github.com/algorand/go-algorand/data/committee"
	"github.com/algorand/go-algorand/data/transactions"
	"github.com/algorand/go-algorand/data/transactions/verify"
	"github.com/algorand/go-algorand/ledger"
	"github.com/algorand/go-algorand/ledger/eval"
	"github.com/algorand/go-algorand/ledger/ledgercore"
	"github.com/algorand/go-algorand/logging"
	"github.com/algorand/go-algorand/util/execpool"

	"verif/sim/kernel"
)

func init() { deadlock.Opts.Disable = true }

// Config of one run (drawn from the tape, swarm style).
type Config struct {
	Prop, Tier         string
	Rounds             int
	MaxGroups          int
	Online             int
	MaxAcctLookback    uint64
	DisableLRU         bool
	Engine             string
	WCrash, WReload    int  // per mille of steps
	SparseQ            bool // C08: most steps issue one sampled lookup instead of QueriesPerStep
	PoolAtMin          bool // C27: rewards pool at its minimum balance (rewards rate 0)
	Intx               bool // C09: half of the park faults land INSIDE the storage transactions (crash there / fault there)
	WPark              int  // per mille of steps: park the block write / tracker commit at a named site, then crash there or query meanwhile
	SleepPct           int
	QueriesPerStep     int
	AddBlockPct        int // share of blocks added with AddBlock (re-evaluated inside the ledger) instead of AddValidatedBlock
	CatchpointInterval uint64
}

// Sim is one run.
type Sim struct {
	t    *testing.T
	tape *kernel.Tape
	log  *kernel.Log
	cfg  Config
	dir  string

	init   ledgercore.InitState
	genBal map[basics.Address]basics.AccountData
	led    *ledger.Ledger
	ledDir string
	inc    int
	lcfg   config.Local
	pool   execpool.BacklogPool

	states map[basics.Round]*State // reference state per round
	blocks map[basics.Round]bookkeeping.Block
	latest basics.Round // last block added (reference)
	acked  basics.Round // highest round whose durable write was confirmed
	uniq   uint64

	observers []Observer
	park      *parkCtl
	// kv leaf collisions in the reference history (see kvCollisionBefore)
	kvScanned  basics.Round
	kvCollAt   basics.Round
	kvCollWhat string
	stats      map[string]int64
	stateDg    map[string]bool
	viol       *kernel.Violation
	known      []kernel.Violation
	harness    string
	step       int
}

func (s *Sim) stat(k string, d int64) { s.stats[k] += d }

func (s *Sim) violate(prop, oracle, key, detail string) {
	if s.viol == nil {
		s.viol = &kernel.Violation{Property: prop, Oracle: oracle, Key: key, Detail: detail, Step: s.step}
		s.log.Add("VIOLATION %s %s %s", prop, oracle, detail)
	}
}

func drawConfig(tp *kernel.Tape, prop, tier string) Config {
	c := Config{Prop: prop, Tier: tier, Engine: "sqlite"}
	c.Rounds = tp.Range("cfg.rounds", 20, 50)
	if tier == "thorough" {
		c.Rounds = tp.Range("cfg.rounds2", 30, 140)
	}
	c.MaxGroups = tp.Range("cfg.maxgroups", 2, 7)
	c.Online = tp.Range("cfg.online", 2, 6)
	c.MaxAcctLookback = uint64(tp.Range("cfg.lookback", 1, 8))
	c.DisableLRU = tp.Chance("cfg.nolru", 1, 3)
	c.WCrash = []int{0, 30, 80}[tp.Choose("cfg.crash", 3)]
	c.WReload = []int{0, 20, 60}[tp.Choose("cfg.reload", 3)]
	c.WPark = []int{0, 40, 120}[tp.Choose("cfg.park", 3)]
	c.SleepPct = []int{0, 20, 50, 90}[tp.Choose("cfg.sleep", 4)]
	c.QueriesPerStep = tp.Range("cfg.queries", 2, 12)
	c.AddBlockPct = []int{0, 30, 100}[tp.Choose("cfg.addblock", 3)]
	if prop == "C09" && c.WCrash == 0 {
		c.WCrash = 60
	}
	if (prop == "C09" || prop == "C08") && c.WPark == 0 {
		c.WPark = 60
	}
	c.Intx = prop == "C09"
	if prop == "C08" {
		c.SparseQ = tp.Chance("cfg.sparseq", 1, 2)
	}
	if prop == "C27" {
		c.PoolAtMin = tp.Chance("cfg.poolmin", 3, 4)
	}
	if f := cfgTweaks[prop]; f != nil {
		f(&c, func(kind string, lo, hi int) int { return tp.Range(kind, lo, hi) })
	}
	return c
}

// cfgTweaks: property id -> adjustment of the drawn configuration (observer files register from init();
// draw(kind, lo, hi) draws from the tape's cfg prefix).
var cfgTweaks = map[string]func(c *Config, draw func(kind string, lo, hi int) int){}

func (s *Sim) logger() logging.Logger {
	l := logging.NewLogger()
	l.SetOutput(io.Discard)
	l.SetLevel(logging.Panic)
	return l
}

func (s *Sim) open() error {
	l, err := ledger.OpenLedger(s.logger(), filepath.Join(s.ledDir, "ledger"), false, s.init, s.lcfg)
	if err != nil {
		return err
	}
	s.led = l
	synctest.Wait()
	return nil
}

func copyDir(src, dst string) error {
	if err := os.MkdirAll(dst, 0o755); err != nil {
		return err
	}
	ents, err := os.ReadDir(src)
	if err != nil {
		return err
	}
	for _, e := range ents {
		sp, dp := filepath.Join(src, e.Name()), filepath.Join(dst, e.Name())
		if e.IsDir() {
			if err := copyDir(sp, dp); err != nil {
				return err
			}
			continue
		}
		b, err := os.ReadFile(sp)
		if err != nil {
			return err
		}
		if err := os.WriteFile(dp, b, 0o644); err != nil {
			return err
		}
	}
	return nil
}

// crash takes the durable image (a copy of every file under the ledger directory at this quiescent
// instant), abandons the running ledger and opens a new one over the image.
func (s *Sim) crash(why string) {
	s.inc++
	next := filepath.Join(s.dir, fmt.Sprintf("led%d", s.inc))
	if err := copyDir(s.ledDir, next); err != nil {
		s.harness = "copy ledger dir: " + err.Error()
		return
	}
	old := s.led
	s.ledDir = next
	s.log.Add("CRASH (%s) latest=%d acked=%d", why, s.latest, s.acked)
	s.stat("crash", 1)
	// the abandoned instance is closed only after the image was taken; nothing it does can reach the image
	go old.Close()
	synctest.Wait()
	if err := s.open(); err != nil {
		s.violate("C09", "reopen-failed", "", fmt.Sprintf("OpenLedger on the crash image failed: %v", err))
		return
	}
	s.afterReopen("crash")
}

// crashParked: a writer goroutine of the ledger is stopped at a named site inside a block write or a
// tracker commit. Take the durable image now, then let the abandoned instance run on (it can only
// touch its own files) and reopen from the image.
func (s *Sim) crashParked(site string) {
	s.inc++
	next := filepath.Join(s.dir, fmt.Sprintf("led%d", s.inc))
	if err := copyDir(s.ledDir, next); err != nil {
		s.harness = "copy ledger dir: " + err.Error()
		return
	}
	old := s.led
	s.ledDir = next
	s.log.Add("CRASH at %s latest=%d acked=%d", site, s.latest, s.acked)
	s.stat("crash", 1)
	s.stat("crash@"+site, 1)
	s.park.releaseAll()
	go old.Close()
	synctest.Wait()
	if err := s.open(); err != nil {
		s.violate("C09", "reopen-failed", "", fmt.Sprintf("OpenLedger on the image of a crash at %s failed: %v", site, err))
		return
	}
	s.afterReopen("crash@" + site)
}

// queryWhileParked: the tracker commit is stopped half-way (e.g. its DB transaction has committed but
// the in-memory trackers have not been advanced). Queries issued now must still answer from history:
// they either complete with the right answer, or block until the commit finishes and then answer.
func (s *Sim) queryWhileParked(site string, qseed uint64) {
	done := make(chan struct{})
	go func() {
		defer close(done)
		s.afterBlock(qseed)
		if s.viol == nil {
			s.fullCheck("during-" + site)
		}
	}()
	synctest.Wait()
	finished := false
	select {
	case <-done:
		finished = true
	default:
	}
	if finished {
		s.stat("query_during_commit_completed", 1)
	} else {
		s.stat("query_during_commit_blocked_until_commit", 1)
	}
	s.park.releaseAll()
	synctest.Wait()
	<-done
	s.log.Add("queries during %s: completed-before-release=%v", site, finished)
}

func (s *Sim) reload() {
	s.log.Add("clean reload latest=%d", s.latest)
	s.stat("reload", 1)
	s.led.Close()
	synctest.Wait()
	if err := s.open(); err != nil {
		s.violate("C09", "reopen-failed", "", fmt.Sprintf("OpenLedger after a clean close failed: %v", err))
		return
	}
	s.afterReopen("reload")
}

// afterReopen is the C09 oracle: the reopened ledger holds a contiguous prefix of the added blocks
// that includes every block whose durable write was confirmed; everything it serves equals the
// reference fold of exactly that prefix.
func (s *Sim) afterReopen(why string) {
	p := s.led.Latest()
	s.log.Add("reopened (%s): latest=%d tracker-committed=%d", why, p, s.led.LatestTrackerCommitted())
	if p < s.acked {
		s.violate("C09", "acked-block-lost", "", fmt.Sprintf("after %s the ledger is at round %d but round %d had been confirmed durable", why, p, s.acked))
		return
	}
	if p > s.latest {
		s.violate("C09", "phantom-block", "", fmt.Sprintf("after %s the ledger is at round %d but only %d blocks were ever added", why, p, s.latest))
		return
	}
	if p < s.latest {
		s.stat("unacked_blocks_lost", int64(s.latest-p))
		for r := p + 1; r <= s.latest; r++ {
			delete(s.states, r)
			delete(s.blocks, r)
		}
		s.latest = p
		if s.kvScanned > p {
			s.kvScanned = p
		}
		if s.kvCollAt > p {
			s.kvCollAt, s.kvCollWhat = 0, ""
		}
	}
	// blocks of the prefix still served must be the ones that were added
	for r := p; r > 0 && r+basics.Round(4) > p; r-- {
		b, err := s.led.Block(r)
		if err != nil {
			s.violate("C09", "block-missing", "", fmt.Sprintf("after %s block %d (<= latest %d) cannot be read: %v", why, r, p, err))
			return
		}
		if b.Digest() != s.blocks[r].Digest() {
			s.violate("C09", "block-differs", "", fmt.Sprintf("after %s block %d differs from the block that was added", why, r))
			return
		}
	}
	if d := s.led.LatestTrackerCommitted(); d > p {
		s.violate("C09", "tracker-ahead", "", fmt.Sprintf("after %s tracker DB round %d is ahead of the last block %d", why, d, p))
		return
	}
	s.fullCheck("after-" + why)
	for _, o := range s.observers {
		if pr, ok := o.(PostReopen); ok && s.viol == nil {
			pr.AfterReopen(s, why)
		}
	}
}

func (s *Sim) proposer() basics.Address {
	// an account that is online at the reference state, if any
	st := s.states[s.latest]
	for _, a := range Accounts()[:nAccounts] {
		if ad, ok := st.Accts[a.Addr]; ok && ad.Status == basics.Online {
			return a.Addr
		}
	}
	// nobody is online any more: any funded account can be named as proposer (a header without a
	// proposer is invalid while payouts are enabled; the evaluator does not require it to be online)
	for _, a := range Accounts()[:nAccounts] {
		if ad, ok := st.Accts[a.Addr]; ok && !ad.MicroAlgos.IsZero() {
			return a.Addr
		}
	}
	return basics.Address{}
}

// addBlock evaluates the generated groups into the next block and adds it to the ledger.
func (s *Sim) addBlock(gseed uint64, maxGroups int, viaAddBlock bool) {
	prev := s.states[s.latest]
	g := newGen(gseed, prev, s.init.GenesisHash, &s.uniq, propBias[s.cfg.Prop])
	groups := g.Groups(maxGroups)
	prevHdr, err := s.led.BlockHdr(s.latest)
	if err != nil {
		s.harness = "BlockHdr(latest): " + err.Error()
		return
	}
	nextHdr := bookkeeping.MakeBlock(prevHdr).BlockHeader
	nextHdr.TimeStamp = prevHdr.TimeStamp + 4
	for _, o := range s.observers {
		if hc, ok := o.(HeaderChooser); ok {
			hc.ChooseHeader(s, g, &nextHdr)
		}
	}
	ev, err := eval.StartEvaluator(s.led, nextHdr, eval.EvaluatorOptions{Generate: true, Validate: true})
	if err != nil {
		s.harness = "StartEvaluator: " + err.Error()
		return
	}
	acc, rej := 0, 0
	cands := make([]Candidate, 0, len(groups))
	for _, grp := range groups {
		cands = append(cands, Candidate{Txns: grp})
	}
	for _, o := range s.observers {
		cands = o.ExtraGroups(s, g, ev, &nextHdr, cands)
	}
	var pblk *bookkeeping.Block // BlockProposer (obs_pool.go): an observer may supply the block instead of the evaluator loop below
	for _, o := range s.observers {
		if bp, ok := o.(BlockProposer); ok && pblk == nil {
			if b, ok := bp.ProposeBlock(s, g, cands, nextHdr); ok {
				pblk, cands = b, nil
			}
		}
	}
	for _, c := range cands {
		grp := c.Txns
		stage, err := s.submitGroup(ev, &nextHdr, grp)
		for _, o := range s.observers {
			o.GroupResult(s, ev, c, stage, err)
		}
		if err != nil {
			rej++
			s.stat("group_rejected_"+stage, 1)
			if stage == "eval" {
				s.stat("reject."+classify(err), 1)
			}
			continue
		}
		acc++
		s.stat("group_accepted", 1)
		s.stat("txn_accepted", int64(len(grp)))
		if s.viol != nil {
			return
		}
	}
	prp := s.proposer()
	var parts []basics.Address
	if !prp.IsZero() {
		parts = append(parts, prp)
	}
	ub, err := ev.GenerateBlock(parts)
	if err != nil {
		s.harness = "GenerateBlock: " + err.Error()
		return
	}
	var seed committee.Seed
	sh := crypto.Hash([]byte(fmt.Sprintf("seed-%d", s.latest+1)))
	copy(seed[:], sh[:])
	blk := ub.FinishBlock(seed, prp, true)
	canonicaliseParticipationUpdates(&blk)
	if pblk != nil {
		blk = *pblk
	}
	for _, o := range s.observers {
		if bt, ok := o.(BlockTamperer); ok {
			bt.TamperBlock(s, g, blk)
		}
	}
	if s.viol != nil {
		return
	}
	vb, err := s.led.Validate(context.Background(), blk, s.pool)
	if err != nil {
		s.violate("C20", "assembled-block-invalid", "", fmt.Sprintf("round %d: a block assembled by the evaluator from accepted groups does not validate on the same ledger: %v", blk.Round(), err))
		return
	}
	if viaAddBlock {
		err = s.led.AddBlock(blk, agreement.Certificate{})
	} else {
		err = s.led.AddValidatedBlock(*vb, agreement.Certificate{})
	}
	if err != nil {
		s.harness = "AddBlock: " + err.Error()
		return
	}
	s.latest = blk.Round()
	s.blocks[s.latest] = blk
	s.states[s.latest] = prev.apply(vb.Delta())
	for _, o := range s.observers {
		o.BlockDone(s, prev, s.states[s.latest], blk, vb.Delta())
	}
	s.log.Add("block r%d groups=%d accepted=%d rejected=%d txns=%d viaAddBlock=%v hash=%x", s.latest, len(groups), acc, rej, len(blk.Payset), viaAddBlock, func() []byte { h := blk.Digest(); return h[:4] }())
}

// submitGroup pushes one group through the same pipeline a node uses: signature/authorisation
// verification, the evaluator's stateless checks, then evaluation. It returns the stage that
// rejected it ("verify", "test", "eval") or "" and nil.
func (s *Sim) submitGroup(ev *eval.BlockEvaluator, hdr *bookkeeping.BlockHeader, grp []transactions.SignedTxn) (string, error) {
	if _, err := verify.TxnGroup(grp, hdr, nil, s.led); err != nil {
		return "verify", err
	}
	if err := ev.TestTransactionGroup(grp); err != nil {
		return "test", err
	}
	if err := ev.TransactionGroup(transactions.WrapSignedTxnsWithAD(grp)...); err != nil {
		return "eval", err
	}
	return "", nil
}

// canonicaliseParticipationUpdates sorts the expired/absent account lists of a freshly generated block.
// The evaluator fills them by ranging over a Go map (eval.generateKnockOfflineAccountsList), so their
// order - and with it the block hash - is runtime-random when two accounts expire in the same round.
// Validation checks membership, not order; a proposer is free to pick any order, so the simulator picks
// the sorted one (one forgotten source of nondeterminism the determinism self-test found).
func canonicaliseParticipationUpdates(blk *bookkeeping.Block) {
	less := func(l []basics.Address) func(i, j int) bool {
		return func(i, j int) bool { return bytes.Compare(l[i][:], l[j][:]) < 0 }
	}
	if l := blk.ExpiredParticipationAccounts; len(l) > 1 {
		l = append([]basics.Address(nil), l...)
		sort.Slice(l, less(l))
		blk.ExpiredParticipationAccounts = l
	}
	if l := blk.AbsentParticipationAccounts; len(l) > 1 {
		l = append([]basics.Address(nil), l...)
		sort.Slice(l, less(l))
		blk.AbsentParticipationAccounts = l
	}
}

func classify(err error) string {
	m := err.Error()
	for _, k := range []string{"overspend", "below min", "already in ledger", "lease", "frozen", "not opted", "has not opted", "rejected by logic", "logic eval error", "err opcode", "box", "unavailable", "cannot close", "cannot destroy", "rekey", "this txn"} {
		if strings.Contains(m, k) {
			return strings.ReplaceAll(k, " ", "_")
		}
	}
	return "other"
}

func (s *Sim) run() {
	s.log.Add("config %+v", s.cfg)
	s.lcfg = config.GetDefaultLocal()
	s.lcfg.Archival = false
	s.lcfg.MaxAcctLookback = s.cfg.MaxAcctLookback
	s.lcfg.DisableLedgerLRUCache = s.cfg.DisableLRU
	s.lcfg.CatchpointInterval = s.cfg.CatchpointInterval
	if s.cfg.CatchpointInterval > 0 {
		s.lcfg.CatchpointTracking = 2 // track and always write catchpoint files
		s.lcfg.CatchpointFileHistoryLength = 1000
	}
	s.init, s.genBal = Genesis(s.cfg.Online, s.cfg.PoolAtMin)
	s.states[0] = genesisState(s.genBal, s.init.Block.BlockHeader)
	s.blocks[0] = s.init.Block
	s.ledDir = filepath.Join(s.dir, "led0")
	os.MkdirAll(s.ledDir, 0o755)
	s.pool = execpool.MakeBacklog(execpool.MakePool(s), 0, execpool.LowPriority, s)
	s.park = newParkCtl()
	curPark = s.park
	curSim = s
	defer func() { curPark = nil; curSim = nil }()
	if err := s.open(); err != nil {
		s.harness = "OpenLedger: " + err.Error()
		return
	}
	defer func() {
		// never leave a writer parked (a run may end between arming a site and releasing it)
		s.park.disarmAll()
		s.park.releaseAll()
		done := make(chan struct{})
		go func() { s.led.Close(); s.pool.Shutdown(); close(done) }()
		<-done
	}()
	for s.step = 0; s.step < s.cfg.Rounds && s.viol == nil && s.harness == ""; s.step++ {
		tp := s.tape
		base := len(tp.Rec)
		rFault := tp.Choose("step.fault", drawN)
		rSleep := tp.Choose("step.sleep", drawN)
		rSeed := tp.Choose("step.gseed", drawN)
		rAdd := tp.Choose("step.add", drawN)
		rQ := tp.Choose("step.q", drawN)
		rAck := tp.Choose("step.ack", drawN)
		var eff [6]int
		eff[2], eff[4] = rSeed, rQ
		// --- fault
		parkSite, parkMode, parkSkip := "", 0, 0
		switch f := rFault % 1000; {
		case f >= 1000-s.cfg.WCrash:
			eff[0] = rFault
			s.crash("quiescent")
		case f >= 1000-s.cfg.WCrash-s.cfg.WReload:
			eff[0] = rFault
			s.reload()
		case f >= 1000-s.cfg.WCrash-s.cfg.WReload-s.cfg.WPark:
			eff[0] = rFault
			parkSite = parkSites[(rFault/1000)%len(parkSites)]
			parkMode = (rFault / 4000) % 2 // 0: crash there, 1: query while parked (tracker commit sites), then let it finish
			if parkSite == "bq.beforePut" || parkSite == "bq.afterPut" {
				parkMode = 0
			}
			if s.cfg.Intx && (rFault/13)%2 == 0 {
				// inside the transaction: crash there (mode 0) or fault there (mode 2), at the (skip+1)-th hit
				parkSite = intxSites[(rFault/26)%2]
				parkMode = []int{0, 2, 2}[(rFault/52)%3]
				parkSkip = (rFault / 7) % 5
				if parkSite == "bq.intx" {
					parkSkip = 1 + (rFault/7)%2 // hit 0 is the first, single-block write
				}
			}
		}
		if s.viol != nil || s.harness != "" {
			break
		}
		if parkSite == "bq.intx" {
			// a write of several blocks in ONE transaction needs a backlog: hold the syncer before its next
			// write, queue this step's block behind it, and arm the inner site only then (see below)
			s.park.arm("bq.beforePut")
		} else if parkSite != "" {
			// a tracker commit only starts if a flush is due: make it due
			time.Sleep(6 * time.Second)
			s.park.armAt(parkSite, parkSkip, parkMode == 2)
		}
		// --- fake clock: tracker flushes are time driven (balancesFlushInterval)
		if rSleep%100 < s.cfg.SleepPct {
			eff[1] = rSleep
			d := []time.Duration{time.Second, 6 * time.Second, 30 * time.Second}[(rSleep/100)%3]
			time.Sleep(d)
			s.stat("clock_advance_ms", int64(d/time.Millisecond))
		}
		via := rAdd%100 < s.cfg.AddBlockPct
		if via {
			eff[3] = rAdd
		}
		s.addBlock(uint64(rSeed)+uint64(s.step)<<20, s.cfg.MaxGroups, via)
		synctest.Wait()
		if s.viol != nil || s.harness != "" {
			break
		}
		if parkSite == "bq.intx" {
			if s.park.isParked("bq.beforePut") {
				for j := 1; j <= 2 && s.viol == nil && s.harness == ""; j++ {
					s.addBlock(uint64(rSeed)+uint64(s.step)<<20+uint64(j)<<44, s.cfg.MaxGroups, via)
					synctest.Wait()
				}
				// Let the first (single-block) write and everything it triggers - notifyCommit, possibly a tracker
				// commit - finish on its own, and stop the syncer again before the multi-block write: otherwise the
				// tracker's commit goroutine races with the second write and the outcome depends on machine load
				// (determinism self-test: tracker round 14 vs 16 at the crash image).
				s.park.arm("bq.beforePut")
				s.park.releaseAll()
				synctest.Wait()
				if s.park.isParked("bq.beforePut") {
					// Two blocks sit in the queue, unwritten, and the syncer is stopped in front of them. Whatever the
					// ledger CONFIRMS as durable now (Ledger.Wait) must survive a crash at this very instant.
					confirmed := false
					select {
					case <-s.led.Wait(s.latest):
						confirmed = true
					default:
						s.stat("durability_not_confirmed_with_backlog", 1)
					}
					if confirmed {
						s.stat("durability_confirmed_with_backlog", 1)
						s.acked = s.latest
						s.park.disarmAll()
						s.crashParked("bq.beforePut(backlog)")
						if s.viol != nil || s.harness != "" {
							break
						}
						for j := 0; j < 6; j++ {
							tp.Canon(base+j, eff[j])
						}
						continue
					}
					s.park.armAt("bq.intx", parkSkip-1, parkMode == 2) // hit 0 of THIS transaction is its first block
					s.park.releaseAll()
					synctest.Wait()
					s.stat("bq_backlog_built", 1)
				} else {
					s.park.disarmAll()
					s.stat("park_not_reached.bq.beforePut(second write)", 1)
				}
			} else {
				s.park.disarmAll()
				s.stat("park_not_reached.bq.beforePut(for intx)", 1)
			}
			if s.viol != nil || s.harness != "" {
				break
			}
		}
		if parkSite != "" && parkMode == 2 {
			s.park.disarmAll()
			if s.park.didFault(parkSite) {
				// The transaction was hit by a fault half-way. It must have been rolled back as a whole: whatever is
				// confirmed durable from here on must really be durable, and a crash now must find a consistent image.
				s.stat("intx_fault."+parkSite, 1)
				s.log.Add("fault injected inside the transaction at %s (hit %d)", parkSite, parkSkip+1)
				if rAck%2 == 0 {
					s.led.WaitForCommit(s.latest)
					synctest.Wait()
					s.acked = s.latest
					s.stat("acked", 1)
				}
				if (rAck/2)%3 != 0 {
					s.crash("after-intx-fault")
				} else {
					s.afterBlock(uint64(rQ))
				}
				if s.viol != nil || s.harness != "" {
					break
				}
			} else {
				s.stat("park_not_reached."+parkSite, 1)
			}
			eff[5] = rAck
			for j := 0; j < 6; j++ {
				tp.Canon(base+j, eff[j])
			}
			continue
		}
		if parkSite != "" {
			s.park.disarmAll()
			if s.park.isParked(parkSite) {
				s.stat("parked."+parkSite, 1)
				if parkMode == 0 {
					// crash exactly here: the durable image is taken while the writer is stopped mid-way
					s.crashParked(parkSite)
				} else {
					s.queryWhileParked(parkSite, uint64(rQ))
				}
				if s.viol != nil || s.harness != "" {
					break
				}
				for j := 0; j < 6; j++ {
					tp.Canon(base+j, eff[j])
				}
				continue
			}
			s.stat("park_not_reached."+parkSite, 1)
		}
		// --- durability confirmation
		if rAck%3 == 0 {
			eff[5] = rAck
			s.led.WaitForCommit(s.latest)
			synctest.Wait() // WaitForCommit returns once the block is durable; let the tracker commit it triggered settle too
			s.acked = s.latest
			s.stat("acked", 1)
		}
		s.afterBlock(uint64(rQ))
		for _, o := range s.observers {
			if pb, ok := o.(PostBlock); ok && s.viol == nil {
				pb.AfterBlock(s, uint64(rQ)^0x9e3779b97f4a7c15)
			}
		}
		for j := 0; j < 6; j++ {
			tp.Canon(base+j, eff[j])
		}
		s.stateDg[fmt.Sprintf("%d/%d/%d", s.latest, s.led.LatestTrackerCommitted(), len(s.states[s.latest].Kv))] = true
	}
	if s.viol == nil && s.harness == "" {
		s.fullCheck("end")
	}
	for _, o := range s.observers {
		if f, ok := o.(Finisher); ok {
			f.Finish(s)
		}
	}
}

const drawN = 1 << 16

// Engine implements kernel.Engine.
type Engine struct{}

func (Engine) Name() string { return "ledgersim" }

var tmpRoot string
var runCounter int
var curSim *Sim // the run in progress (one per process)

func scratchRoot() string {
	if tmpRoot == "" {
		base := os.Getenv("VERIF_SCRATCH")
		if base == "" {
			base = "/dev/shm"
		}
		tmpRoot, _ = os.MkdirTemp(base, "verif-ledgersim-")
	}
	return tmpRoot
}

// CleanupScratch removes the process scratch directory.
func CleanupScratch() {
	if tmpRoot != "" {
		os.RemoveAll(tmpRoot)
	}
}

func (Engine) Run(t *testing.T, prop, tier string, tape *kernel.Tape, keepLog bool) *kernel.RunResult {
	res := &kernel.RunResult{}
	runCounter++
	dir := filepath.Join(scratchRoot(), fmt.Sprintf("run%d", runCounter))
	os.MkdirAll(dir, 0o755)
	defer os.RemoveAll(dir)
	registerProto()
	var s *Sim
	func() {
		defer func() {
			if r := recover(); r != nil {
				msg := fmt.Sprint(r)
				if !bytes.Contains([]byte(msg), []byte("blocked goroutines remain")) && !bytes.Contains([]byte(msg), []byte("deadlock: main bubble goroutine has exited")) {
					res.HarnessErr = "panic: " + msg
				} else if s != nil {
					s.stat("bubble_leak", 1)
				}
			}
		}()
		synctest.Test(t, func(t *testing.T) {
			s = &Sim{t: t, tape: tape, log: kernel.NewLog(keepLog), dir: dir, states: map[basics.Round]*State{}, blocks: map[basics.Round]bookkeeping.Block{},
				stats: map[string]int64{}, stateDg: map[string]bool{}}
			s.cfg = drawConfig(tape, prop, tier)
			for _, f := range observerFactories[prop] {
				s.observers = append(s.observers, f(s))
			}
			s.run()
		})
	}()
	if s == nil {
		if res.HarnessErr == "" {
			res.HarnessErr = "bubble did not start"
		}
		return res
	}
	res.Steps = s.step
	res.Digest = s.log.Digest()
	res.Stats = s.stats
	res.Violation = s.viol
	res.Known = s.known
	res.Tape = tape.Rec
	res.LogLines = s.log.Lines
	for k := range s.stateDg {
		res.States = append(res.States, k)
	}
	if s.harness != "" {
		res.HarnessErr = s.harness
	}
	res.Nontrivial = s.stats["txn_accepted"] > 5 && s.stats["lookup_checked"] > 0
	for _, o := range s.observers {
		if nj, ok := o.(NontrivialJudge); ok {
			res.Nontrivial = res.Nontrivial && nj.Nontrivial(s)
		}
	}
	res.Sample = map[string]any{"rounds": s.latest, "lookback": s.cfg.MaxAcctLookback, "stats": s.stats}
	return res
}
