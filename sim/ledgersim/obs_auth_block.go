package ledgersim

import (
	"context"
	"fmt"
	"os"

	"github.com/algorand/go-algorand/data/basics"
	"github.com/algorand/go-algorand/data/bookkeeping"
	"github.com/algorand/go-algorand/data/transactions"
	"github.com/algorand/go-algorand/data/transactions/verify"
	"github.com/algorand/go-algorand/ledger/eval"
)

// TamperBlock (C28): a Byzantine proposer's block that contains a payment NOT authorised by the sender's
// authorizer, offered to Ledger.Validate. Before that, a look-alike of the forged transaction goes through
// the node's signature verification WITH the ledger's verified-transaction cache, exactly as gossip would
// put it there: same transaction id, but carrying a claimed AuthAddr for which the signature is good (the
// stateless check accepts it; only evaluation would find that the claimed authorizer is not the sender's).
// The cache is keyed by transaction id, which covers neither the signature nor AuthAddr - a validator
// must not take the cached verdict for the variant presented in the block.
// (Added after the independently authored change C28-a was missed: the per-group checks of this observer
// never warmed the cache.)
func (o *bkAuthObs) TamperBlock(s *Sim, g *Gen, blk bookkeeping.Block) {
	if g.n(3) != 0 {
		return
	}
	// victim: a funded base account; forger: another base account with a key
	var victims, forgers []basics.Address
	for _, a := range g.funded() {
		if ad := g.st.Accts[a.Addr]; ad.MicroAlgos.Raw > 5_000_000 && g.byAdr[a.Addr] != nil {
			victims = append(victims, a.Addr)
		}
		if g.byAdr[a.Addr] != nil {
			forgers = append(forgers, a.Addr)
		}
	}
	if len(victims) == 0 || len(forgers) < 2 {
		return
	}
	victim := victims[g.n(len(victims))]
	realAuth := bkStateAuth(g.st, victim)
	forger := forgers[g.n(len(forgers))]
	if forger == victim || forger == realAuth {
		return
	}
	t := o.pay(g, victim)
	decoy, ok := o.authorize(g, t, forger) // signed by the forger, AuthAddr = forger
	if !ok {
		return
	}
	forged := decoy
	variant := "authaddr-stripped"
	switch g.n(3) {
	case 0:
		forged.AuthAddr = basics.Address{}
	case 1:
		if realAuth == victim {
			forged.AuthAddr = basics.Address{}
		} else {
			forged.AuthAddr = realAuth // claims the right authorizer, signature is still the forger's
			variant = "authaddr-set-to-real-authorizer"
		}
	default:
		variant = "cold" // no look-alike in the cache at all
		forged.AuthAddr = basics.Address{}
	}
	build := func(extra *transactions.SignedTxn) (bookkeeping.Block, error) {
		prev, err := s.led.BlockHdr(blk.Round() - 1)
		if err != nil {
			return bookkeeping.Block{}, err
		}
		hdr := bookkeeping.MakeBlock(prev).BlockHeader
		hdr.TimeStamp = blk.TimeStamp
		hdr.UpgradeVote = blk.UpgradeVote
		// a proposer does not have to run its own checks: generate without validation
		ev, err := eval.StartEvaluator(s.led, hdr, eval.EvaluatorOptions{PaysetHint: len(blk.Payset) + 1, Validate: false, Generate: true})
		if err != nil {
			return bookkeeping.Block{}, err
		}
		groups, err := blk.DecodePaysetGroups()
		if err != nil {
			return bookkeeping.Block{}, err
		}
		for _, grp := range groups {
			bare := make([]transactions.SignedTxnWithAD, len(grp))
			for i := range grp {
				bare[i] = transactions.SignedTxnWithAD{SignedTxn: grp[i].SignedTxn}
			}
			if err := ev.TransactionGroup(bare...); err != nil {
				return bookkeeping.Block{}, err
			}
		}
		if extra != nil {
			if err := ev.TransactionGroup(transactions.SignedTxnWithAD{SignedTxn: *extra}); err != nil {
				return bookkeeping.Block{}, err
			}
		}
		ub, err := ev.GenerateBlock(nil)
		if err != nil {
			return bookkeeping.Block{}, err
		}
		return ub.FinishBlock(blk.Seed(), blk.Proposer(), !blk.ProposerPayout().IsZero()), nil
	}
	// A non-validating evaluator does not account the block's load (header field Load); the proposer fills in the
	// value a validator will compute (taken from the validator's own complaint).
	validate := func(b bookkeeping.Block) error {
		_, err := s.led.Validate(context.Background(), b, s.pool)
		var have, want uint64
		if err != nil {
			if n, _ := fmt.Sscanf(err.Error(), "bad load: %d != %d", &have, &want); n == 2 {
				b.Load = basics.Micros(want)
				_, err = s.led.Validate(context.Background(), b, s.pool)
			}
		}
		return err
	}
	// control: the same construction without the forged payment must validate, or this round tells nothing
	ctl, err := build(nil)
	if err != nil {
		s.stat("C28.block_forgery_control_not_built", 1)
		return
	}
	if err := validate(ctl); err != nil {
		s.stat("C28.block_forgery_control_rejected", 1)
		if os.Getenv("VERIF_DEBUG_C28") != "" {
			fmt.Fprintf(os.Stderr, "C28 control rejected: %v\n", err)
		}
		return
	}
	bad, err := build(&forged)
	if err != nil {
		s.stat("C28.block_forgery_not_built", 1)
		return
	}
	if variant != "cold" {
		hdr := bad.BlockHeader
		_, verr := verify.TxnGroup([]transactions.SignedTxn{decoy}, &hdr, s.led.VerifiedTransactionCache(), s.led)
		if verr != nil {
			s.stat("C28.block_forgery_decoy_not_cached", 1)
			if os.Getenv("VERIF_DEBUG_C28") != "" {
				fmt.Fprintf(os.Stderr, "C28 decoy: %v\n", verr)
			}
		} else {
			s.stat("C28.block_forgery_decoy_cached", 1)
		}
	}
	s.stat("C28.block_forgery_offered."+variant, 1)
	o.kinds["block-forgery"] = true
	if err := validate(bad); err == nil {
		s.violate("C28", "forged-block-validated", variant, fmt.Sprintf("round %d: a block carrying a payment from %s (authorizer %s) signed by %s (variant %s) passes Ledger.Validate",
			blk.Round(), shortAddr(victim), shortAddr(realAuth), shortAddr(forger), variant))
		return
	}
	s.stat("C28.block_forgery_rejected", 1)
}
