package ledgersim

import (
	"fmt"
	"math/bits"

	"github.com/algorand/go-algorand/config"
	"github.com/algorand/go-algorand/data/basics"
	"github.com/algorand/go-algorand/data/bookkeeping"
	"github.com/algorand/go-algorand/data/transactions"
	"github.com/algorand/go-algorand/ledger/eval"
	"github.com/algorand/go-algorand/ledger/ledgercore"
	"github.com/algorand/go-algorand/protocol"
)

// ---------------------------------------------------------------------------------------------
// C27 "Suspension and expiry lists are justified"
//
// Reference rules (DESIGN.md Appendix A, from the prose of the incentive spec):
//   expired(a, r)  <=> a has a vote key and VoteLastValid(a) < r            (state after r's transactions)
//   absent(a, r)   =>  a is Online, has a non-zero balance, is IncentiveEligible, and
//                      lastSeen != 0, stake != 0, lastSeen + floor(20 * onlineStake / stake) < r
//                      where lastSeen = max(LastProposed, LastHeartbeat), stake and onlineStake are taken
//                      at the balance round r - 2*SeedRefreshInterval*SeedLookback (onlineStake without
//                      the stake of keys expired before r), or a failed an active challenge.
// With SimProto's StateProofInterval = 0 the evaluator only considers accounts touched in the block, so
// the observer touches the interesting accounts with small payments.
// ---------------------------------------------------------------------------------------------

type bkAbsObs struct {
	NopObserver
	mode         int // 0 none, 1 whale registers with the incentive fee, 2 whale registers without it
	modeDrawn    bool
	variants     int64
	honestListed int64
}

type bkAbsInfo struct{ kind string }

func init() {
	registerObserver([]string{"C27"}, func(s *Sim) Observer { return &bkAbsObs{} })
}

func (o *bkAbsObs) Nontrivial(s *Sim) bool { return o.variants > 0 && o.honestListed > 0 }

func bkWhale() *Acct { return Accounts()[nAccounts-1] }

const bkWhaleKeep = 10_000_000_000_000 // every other account keeps 10M Algos

func bkKeyreg(g *Gen, a basics.Address, fee uint64, last basics.Round) transactions.Transaction {
	t := g.bkPay(a, basics.Address{}, 0, fee)
	t.Type = protocol.KeyRegistrationTx
	t.PaymentTxnFields = transactions.PaymentTxnFields{}
	detBytes(t.VotePK[:], "av", int(*g.uniq))
	detBytes(t.SelectionPK[:], "as", int(*g.uniq))
	detBytes(t.StateProofPK[:], "ap", int(*g.uniq))
	t.VoteFirst = g.next
	t.VoteLast = last
	t.VoteKeyDilution = 50
	return t
}

func (o *bkAbsObs) ExtraGroups(s *Sim, g *Gen, ev *eval.BlockEvaluator, hdr *bookkeeping.BlockHeader, cands []Candidate) []Candidate {
	if !o.modeDrawn {
		o.modeDrawn = true
		o.mode = []int{0, 1, 1, 2, 2, 2, 3, 3}[g.n(8)] // 3: like 1, but the eligible whale later opts out of participation for good
		s.stat(fmt.Sprintf("C27.mode_%d", o.mode), 1)
	}
	mf := g.proto.MinTxnFee
	one := func(t transactions.Transaction, kind string) (Candidate, bool) {
		st, ok := g.bkSign(t)
		return Candidate{Txns: []transactions.SignedTxn{st}, Info: bkAbsInfo{kind}}, ok
	}
	var front, tail []Candidate
	w := bkWhale()
	if o.mode != 0 && g.authOf(w.Addr) != nil {
		// concentrate the stake on the whale (idempotent: re-issued after a crash rolled the setup back)
		for _, a := range Accounts()[:nAccounts-1] {
			ad, ok := g.st.Accts[a.Addr]
			if !ok || ad.MicroAlgos.Raw < 2*bkWhaleKeep || g.authOf(a.Addr) == nil {
				continue
			}
			if c, ok := one(g.bkPay(a.Addr, w.Addr, ad.MicroAlgos.Raw-bkWhaleKeep, mf), "whale-funding"); ok {
				front = append(front, c)
			}
		}
		wd := g.st.Accts[w.Addr]
		if o.mode == 3 && wd.Status == basics.Online && wd.IncentiveEligible && wd.LastHeartbeat+4 < g.next && wd.LastProposed+4 < g.next && g.n(3) == 0 {
			t := g.bkPay(w.Addr, basics.Address{}, 0, mf)
			t.Type = protocol.KeyRegistrationTx
			t.PaymentTxnFields = transactions.PaymentTxnFields{}
			t.Nonparticipation = true
			if c, ok := one(t, "whale-nonparticipation"); ok {
				tail = append(tail, c)
			}
		}
		if wd.Status != basics.Online && wd.Status != basics.NotParticipating && (o.mode == 1 || o.mode == 3 || wd.VoteID.IsEmpty()) {
			fee := mf
			if o.mode == 1 || o.mode == 3 {
				fee = g.proto.Payouts.GoOnlineFee
			}
			if c, ok := one(bkKeyreg(g, w.Addr, fee, g.next+1000), "whale-keyreg"); ok {
				tail = append(tail, c)
			}
		}
		// touch the whale so that the evaluator looks at it when it builds the lists
		if rich := g.bkSigners(map[basics.Address]bool{w.Addr: true}); len(rich) > 0 {
			if c, ok := one(g.bkPay(rich[g.n(len(rich))].Addr, w.Addr, uint64(1+g.n(1000)), mf), "whale-touch"); ok {
				tail = append(tail, c)
			}
		}
	}
	// short-lived keys: expire a few rounds later
	signers := g.bkSigners(map[basics.Address]bool{w.Addr: true})
	if len(signers) > 0 && g.n(3) == 0 {
		a := signers[g.n(len(signers))]
		fee := mf
		if g.n(3) == 0 {
			fee = g.proto.Payouts.GoOnlineFee
		}
		if c, ok := one(bkKeyreg(g, a.Addr, fee, g.next+basics.Round(1+g.n(5))), "short-keyreg"); ok {
			tail = append(tail, c)
		}
	}
	// touch accounts whose keys have run out, or are about to
	for _, a := range Accounts()[:nAccounts] {
		ad, ok := g.st.Accts[a.Addr]
		if !ok || ad.VoteID.IsEmpty() || ad.VoteLastValid > g.next+1 || len(signers) == 0 || g.n(2) == 0 {
			continue
		}
		if c, ok := one(g.bkPay(signers[g.n(len(signers))].Addr, a.Addr, uint64(1+g.n(1000)), mf), "expiry-touch"); ok {
			tail = append(tail, c)
		}
	}
	out := append(front, cands...)
	return append(out, tail...)
}

func (o *bkAbsObs) GroupResult(s *Sim, ev *eval.BlockEvaluator, c Candidate, stage string, err error) {
	if info, ok := c.Info.(bkAbsInfo); ok {
		if stage == "" {
			s.stat("C27.accepted."+info.kind, 1)
		} else {
			s.stat("C27.rejected."+info.kind, 1)
		}
	}
}

// bkEndOfBlockAcct: a's account data after the block's transactions and before the end-of-block list
// processing, as far as the fields the list rules read are concerned. ok=false when the block contains
// something from a that this reference does not model (then a is not used as a tamper candidate).
func bkEndOfBlockAcct(prev *State, blk bookkeeping.Block, flat []transactions.SignedTxnWithAD, a basics.Address, p config.ConsensusParams) (ad ledgercore.AccountData, ok bool) {
	ad = prev.Accts[a]
	ok = true
	lookback := basics.Round(2 * p.SeedRefreshInterval * p.SeedLookback)
	for i := range flat {
		t := &flat[i].Txn
		if bkInnerFrom(flat[i].ApplyData.EvalDelta.InnerTxns, a) {
			ok = false // an application account acting inside the block: not modelled
		}
		if t.Sender != a {
			continue
		}
		switch t.Type {
		case protocol.KeyRegistrationTx:
			ad.VoteID, ad.SelectionID, ad.StateProofID = t.VotePK, t.SelectionPK, t.StateProofPK
			if t.VotePK.IsEmpty() || t.SelectionPK.IsEmpty() {
				ad.Status = basics.Offline
				if t.Nonparticipation {
					ad.Status = basics.NotParticipating
				}
				ad.VoteFirstValid, ad.VoteLastValid, ad.VoteKeyDilution = 0, 0, 0
			} else {
				ad.Status = basics.Online
				ad.LastHeartbeat = blk.Round() + lookback
				ad.VoteFirstValid, ad.VoteLastValid, ad.VoteKeyDilution = t.VoteFirst, t.VoteLast, t.VoteKeyDilution
				if p.Payouts.Enabled && t.Fee.Raw >= p.Payouts.GoOnlineFee {
					ad.IncentiveEligible = true
				}
			}
		case protocol.PaymentTx:
			if !t.CloseRemainderTo.IsZero() {
				ad = ledgercore.AccountData{}
			}
		case protocol.HeartbeatTx:
			ok = false
		}
	}
	return ad, ok
}

// bkStakeView: reference online stake and a's stake as the absence rule sees them for round r.
func bkStakeView(s *Sim, r basics.Round, a basics.Address, p config.ConsensusParams) (total, stake uint64, ok bool) {
	brnd := r.SubSaturate(basics.Round(2 * p.SeedRefreshInterval * p.SeedLookback))
	st := s.states[brnd]
	if st == nil {
		return 0, 0, false
	}
	bp := st.proto()
	for _, x := range st.sortedAddrs() {
		ad := st.Accts[x]
		if ad.Status != basics.Online {
			continue
		}
		m := ad.WithUpdatedRewards(bp.RewardUnit, st.Hdr.RewardsLevel).MicroAlgos.Raw
		if x == a {
			stake = m
		}
		if bp.ExcludeExpiredCirculation && brnd != 0 && ad.VoteLastValid < r {
			continue
		}
		total += m
	}
	return total, stake, true
}

// bkAbsentByStake is the stake-proportional rule: absent iff lastSeen + floor(20*total/stake) < r.
func bkAbsentByStake(total, stake uint64, lastSeen, r basics.Round) (bool, uint64) {
	if lastSeen == 0 || stake == 0 {
		return false, 0
	}
	hi, lo := bits.Mul64(20, total)
	if hi >= stake {
		return false, 0
	}
	lag, _ := bits.Div64(hi, lo, stake)
	if lag > 1<<32-1 {
		return false, lag
	}
	return uint64(lastSeen)+lag < uint64(r), lag
}

func bkInnerFrom(inner []transactions.SignedTxnWithAD, a basics.Address) bool {
	for i := range inner {
		if inner[i].Txn.Sender == a || bkInnerFrom(inner[i].ApplyData.EvalDelta.InnerTxns, a) {
			return true
		}
	}
	return false
}

func bkLastSeen(ad ledgercore.AccountData) basics.Round {
	if ad.LastProposed > ad.LastHeartbeat {
		return ad.LastProposed
	}
	return ad.LastHeartbeat
}

func bkHas(l []basics.Address, a basics.Address) bool {
	for _, x := range l {
		if x == a {
			return true
		}
	}
	return false
}

// TamperBlock: unjustified entries added to the honest lists.
func (o *bkAbsObs) TamperBlock(s *Sim, g *Gen, blk bookkeeping.Block) {
	p := config.Consensus[blk.CurrentProtocol]
	prev := s.states[s.latest]
	r := blk.Round()
	flat, err := blk.DecodePaysetFlat()
	if err != nil {
		return
	}
	judge := func(kind, what string, v bookkeeping.Block) bool {
		o.variants++
		return bkJudge(s, "C27", kind, v, what)
	}
	type cand struct {
		a  basics.Address
		ad ledgercore.AccountData
	}
	var notYet, noKey, offline, inelig, ineligAbsent, recent, nonpartSilent []cand
	for _, a := range prev.sortedAddrs() {
		if bkHas(blk.ExpiredParticipationAccounts, a) || bkHas(blk.AbsentParticipationAccounts, a) {
			continue
		}
		ad, ok := bkEndOfBlockAcct(prev, blk, flat, a, p)
		if !ok || ad.IsZero() {
			continue
		}
		c := cand{a, ad}
		if !ad.VoteID.IsEmpty() && ad.VoteLastValid >= r {
			notYet = append(notYet, c)
		}
		if ad.VoteID.IsEmpty() {
			noKey = append(noKey, c)
		}
		if ad.Status != basics.Online {
			offline = append(offline, c)
			// an account that opted out of participation for good but would look "absent" to the stake rule (it was
			// online and eligible at the balance round and has been silent): only its status protects it
			if ad.Status == basics.NotParticipating && ad.IncentiveEligible && ad.MicroAlgos.Raw != 0 {
				if total, stake, okv := bkStakeView(s, r, a, p); okv && stake > 0 {
					if ab, _ := bkAbsentByStake(total, stake, bkLastSeen(ad)+2, r); ab {
						nonpartSilent = append(nonpartSilent, c)
					}
				}
			}
			continue
		}
		total, stake, okv := bkStakeView(s, r, a, p)
		if !okv {
			continue
		}
		ls := bkLastSeen(ad)
		if !ad.IncentiveEligible {
			inelig = append(inelig, c)
			// "otherwise absent": clear of the rule's boundary by two rounds, so that only eligibility decides
			if ab, _ := bkAbsentByStake(total, stake, ls+2, r); ab && ad.MicroAlgos.Raw != 0 {
				ineligAbsent = append(ineligAbsent, c)
			}
			continue
		}
		// eligible and online: unjustified only if clearly not absent (never seen, no stake at the balance
		// round, or seen within the last 20 rounds while its own stake is part of the online total, which
		// makes the allowance at least 20 rounds) and no challenge can be active
		chOff := p.Payouts.ChallengeInterval == 0 || uint64(r) < p.Payouts.ChallengeInterval
		if chOff && (ls == 0 || stake == 0 || (ad.VoteLastValid >= r && stake <= total && uint64(ls)+20 >= uint64(r))) {
			recent = append(recent, c)
		}
	}
	// ---- expired list
	if len(notYet) > 0 {
		c := notYet[g.n(len(notYet))]
		if g.n(2) == 0 { // the candidate closest to the boundary (VoteLastValid == r is still valid in round r)
			for _, x := range notYet {
				if x.ad.VoteLastValid < c.ad.VoteLastValid {
					c = x
				}
			}
		}
		if c.ad.VoteLastValid == r {
			s.stat("C27.expired_boundary_candidate", 1)
		}
		v := bkCopyBlock(blk)
		v.ExpiredParticipationAccounts = append(v.ExpiredParticipationAccounts, c.a)
		if !judge("expired-not-yet", fmt.Sprintf("%s (vote key valid through round %d) added to ExpiredParticipationAccounts of round %d", shortAddr(c.a), c.ad.VoteLastValid, r), v) {
			return
		}
	}
	if len(noKey) > 0 {
		c := noKey[g.n(len(noKey))]
		v := bkCopyBlock(blk)
		v.ExpiredParticipationAccounts = append(v.ExpiredParticipationAccounts, c.a)
		if !judge("expired-no-vote-key", fmt.Sprintf("%s (status %v, no vote key) added to ExpiredParticipationAccounts", shortAddr(c.a), c.ad.Status), v) {
			return
		}
	}
	{
		var ghost basics.Address
		detBytes(ghost[:], "ghost-expired", int(r))
		v := bkCopyBlock(blk)
		v.ExpiredParticipationAccounts = append(v.ExpiredParticipationAccounts, ghost)
		if !judge("expired-nonexistent", "an address without an account added to ExpiredParticipationAccounts", v) {
			return
		}
	}
	if n := len(blk.ExpiredParticipationAccounts); n > 0 {
		v := bkCopyBlock(blk)
		v.ExpiredParticipationAccounts = append(v.ExpiredParticipationAccounts, blk.ExpiredParticipationAccounts[g.n(n)])
		if !judge("expired-duplicate", "a justified entry of ExpiredParticipationAccounts listed twice", v) {
			return
		}
	}
	// ---- absent list
	if len(offline) > 0 {
		c := offline[g.n(len(offline))]
		v := bkCopyBlock(blk)
		v.AbsentParticipationAccounts = append(v.AbsentParticipationAccounts, c.a)
		if !judge("absent-not-online", fmt.Sprintf("%s (status %v) added to AbsentParticipationAccounts", shortAddr(c.a), c.ad.Status), v) {
			return
		}
	}
	if len(nonpartSilent) > 0 {
		c := nonpartSilent[g.n(len(nonpartSilent))]
		s.stat("C27.nonparticipating_but_silent_candidate", 1)
		v := bkCopyBlock(blk)
		v.AbsentParticipationAccounts = append(v.AbsentParticipationAccounts, c.a)
		if !judge("absent-nonparticipating-but-silent", fmt.Sprintf("%s (NotParticipating, still IncentiveEligible, online at the balance round, last seen %d: silent longer than its stake allows) added to AbsentParticipationAccounts", shortAddr(c.a), bkLastSeen(c.ad)), v) {
			return
		}
	}
	if len(ineligAbsent) > 0 {
		c := ineligAbsent[g.n(len(ineligAbsent))]
		s.stat("C27.ineligible_but_absent_candidate", 1)
		v := bkCopyBlock(blk)
		v.AbsentParticipationAccounts = append(v.AbsentParticipationAccounts, c.a)
		if !judge("absent-not-eligible-but-silent", fmt.Sprintf("%s (online, last seen %d, silent longer than its stake allows, but NOT IncentiveEligible) added to AbsentParticipationAccounts", shortAddr(c.a), bkLastSeen(c.ad)), v) {
			return
		}
	} else if len(inelig) > 0 {
		c := inelig[g.n(len(inelig))]
		v := bkCopyBlock(blk)
		v.AbsentParticipationAccounts = append(v.AbsentParticipationAccounts, c.a)
		if !judge("absent-not-eligible", fmt.Sprintf("%s (online, not IncentiveEligible) added to AbsentParticipationAccounts", shortAddr(c.a)), v) {
			return
		}
	}
	if len(recent) > 0 {
		c := recent[g.n(len(recent))]
		v := bkCopyBlock(blk)
		v.AbsentParticipationAccounts = append(v.AbsentParticipationAccounts, c.a)
		if !judge("absent-recently-seen", fmt.Sprintf("%s (online, eligible, last seen in round %d) added to AbsentParticipationAccounts of round %d", shortAddr(c.a), bkLastSeen(c.ad), r), v) {
			return
		}
	}
	{
		v := bkCopyBlock(blk)
		v.AbsentParticipationAccounts = append(v.AbsentParticipationAccounts, blk.FeeSink)
		if !judge("absent-not-participating", "the fee sink (NotParticipating) added to AbsentParticipationAccounts", v) {
			return
		}
		var ghost basics.Address
		detBytes(ghost[:], "ghost-absent", int(r))
		v = bkCopyBlock(blk)
		v.AbsentParticipationAccounts = append(v.AbsentParticipationAccounts, ghost)
		if !judge("absent-nonexistent", "an address without an account added to AbsentParticipationAccounts", v) {
			return
		}
	}
	if n := len(blk.AbsentParticipationAccounts); n > 0 {
		v := bkCopyBlock(blk)
		v.AbsentParticipationAccounts = append(v.AbsentParticipationAccounts, blk.AbsentParticipationAccounts[g.n(n)])
		if !judge("absent-duplicate", "a justified entry of AbsentParticipationAccounts listed twice", v) {
			return
		}
	}
	// cross-list: an account the honest block expires cannot also be suspended (it is offline by then)
	if n := len(blk.ExpiredParticipationAccounts); n > 0 {
		v := bkCopyBlock(blk)
		v.AbsentParticipationAccounts = append(v.AbsentParticipationAccounts, blk.ExpiredParticipationAccounts[g.n(n)])
		if !judge("absent-already-expired", "an account expired by this very block also listed as absent", v) {
			return
		}
	}
}

// BlockDone: every entry of the honest lists is justified by the reference rules.
func (o *bkAbsObs) BlockDone(s *Sim, prev, next *State, blk bookkeeping.Block, delta ledgercore.StateDelta) {
	p := config.Consensus[blk.CurrentProtocol]
	r := blk.Round()
	if len(blk.ExpiredParticipationAccounts) == 0 && len(blk.AbsentParticipationAccounts) == 0 {
		return
	}
	flat, err := blk.DecodePaysetFlat()
	if err != nil {
		return
	}
	seen := map[basics.Address]bool{}
	for _, a := range blk.ExpiredParticipationAccounts {
		if seen[a] {
			s.violate("C27", "honest-expired-duplicate", "", fmt.Sprintf("round %d lists %s twice as expired", r, shortAddr(a)))
			return
		}
		seen[a] = true
		ad, ok := bkEndOfBlockAcct(prev, blk, flat, a, p)
		if !ok {
			s.stat("C27.honest_entry_unmodelled", 1)
			continue
		}
		if ad.VoteID.IsEmpty() || ad.VoteLastValid >= r {
			s.violate("C27", "honest-expired-unjustified", "", fmt.Sprintf("round %d lists %s as expired: vote key present=%v, VoteLastValid=%d", r, shortAddr(a), !ad.VoteID.IsEmpty(), ad.VoteLastValid))
			return
		}
		o.honestListed++
		s.stat("C27.honest_expired_entries", 1)
	}
	if len(blk.ExpiredParticipationAccounts) > 0 {
		s.stat("C27.blocks_with_expired_list", 1)
	}
	seenA := map[basics.Address]bool{}
	for _, a := range blk.AbsentParticipationAccounts {
		if seenA[a] {
			s.violate("C27", "honest-absent-duplicate", "", fmt.Sprintf("round %d lists %s twice as absent", r, shortAddr(a)))
			return
		}
		seenA[a] = true
		ad, ok := bkEndOfBlockAcct(prev, blk, flat, a, p)
		if !ok {
			s.stat("C27.honest_entry_unmodelled", 1)
			continue
		}
		if seen[a] || ad.Status != basics.Online || ad.MicroAlgos.Raw == 0 || !ad.IncentiveEligible {
			s.violate("C27", "honest-absent-unjustified", "", fmt.Sprintf("round %d lists %s as absent: expired-in-this-block=%v status=%v balance=%d eligible=%v", r, shortAddr(a), seen[a], ad.Status, ad.MicroAlgos.Raw, ad.IncentiveEligible))
			return
		}
		total, stake, okv := bkStakeView(s, r, a, p)
		if !okv {
			s.stat("C27.honest_entry_unmodelled", 1)
			continue
		}
		// one round of tolerance for the reference stake view (pending-rewards arithmetic)
		ab, lag := bkAbsentByStake(total, stake, bkLastSeen(ad), r+1)
		chOff := p.Payouts.ChallengeInterval == 0 || uint64(r) < p.Payouts.ChallengeInterval
		if !ab && chOff {
			s.violate("C27", "honest-absent-not-silent", "", fmt.Sprintf("round %d lists %s as absent: last seen %d, stake %d of %d online gives an allowance of %d rounds, and no challenge is active", r, shortAddr(a), bkLastSeen(ad), stake, total, lag))
			return
		}
		o.honestListed++
		s.stat("C27.honest_absent_entries", 1)
	}
	if len(blk.AbsentParticipationAccounts) > 0 {
		s.stat("C27.blocks_with_absent_list", 1)
	}
	s.log.Add("C27 r%d expired=%d absent=%d", r, len(blk.ExpiredParticipationAccounts), len(blk.AbsentParticipationAccounts))
}
