// Package ledgersim runs real ledger.Ledger instances (block queue, tracker registry, all trackers,
// SQLite/Pebble stores on files, block evaluator, AVM) inside a testing/synctest bubble under a
// seeded workload, flush/crash schedule and reference model (DESIGN.md §3 "ledgersim").
package ledgersim

import (
	"encoding/binary"
	"sync"

	"github.com/algorand/go-algorand/config"
	"github.com/algorand/go-algorand/crypto"
	"github.com/algorand/go-algorand/data/basics"
	"github.com/algorand/go-algorand/data/bookkeeping"
	"github.com/algorand/go-algorand/ledger/ledgercore"
	"github.com/algorand/go-algorand/protocol"
)

// SimProto is a consensus version registered only inside the simulation binary: the current
// protocol with short look-backs so that 40-120 round histories cross every window boundary.
const SimProto = protocol.ConsensusVersion("verif-ledgersim-v1")

var protoOnce sync.Once

// protoTweaks lets observer files (init()) adjust SimProto's parameters and register further versions
// before the first ledger is opened. Each receives the params about to be registered as SimProto.
var protoTweaks []func(p *config.ConsensusParams)

func registerProto() {
	protoOnce.Do(func() {
		p := config.Consensus[protocol.ConsensusCurrentVersion]
		p.ApprovedUpgrades = map[protocol.ConsensusVersion]uint64{}
		p.SeedLookback = 2
		p.SeedRefreshInterval = 2 // balance lookback = 2*2*2 = 8 rounds
		p.MaxBalLookback = 8
		p.MaxTxnLife = 8
		p.RewardsRateRefreshInterval = 16
		p.CatchpointLookback = 8
		p.StateProofInterval = 0 // state proofs off: not in scope of the ledgersim properties
		for _, f := range protoTweaks {
			f(&p)
		}
		config.Consensus[SimProto] = p
	})
}

// Acct is a spendable account with its secrets.
type Acct struct {
	Idx  int
	Addr basics.Address
	Sec  *crypto.SignatureSecrets
}

const nAccounts = 10

var (
	acctOnce sync.Once
	accts    []*Acct
	sinkAddr basics.Address
	poolAddr basics.Address
)

// Accounts returns the deterministic account pool.
func Accounts() []*Acct {
	acctOnce.Do(func() {
		for i := 0; i < nAccounts+4; i++ {
			var seed crypto.Seed
			binary.LittleEndian.PutUint64(seed[:], uint64(0xC0DE0000+i))
			copy(seed[8:], "verif-ledgersim-acct")
			s := crypto.GenerateSignatureSecrets(seed)
			accts = append(accts, &Acct{Idx: i, Addr: basics.Address(s.SignatureVerifier), Sec: s})
		}
		sinkAddr[0], sinkAddr[1] = 0xf5, 0x01
		poolAddr[0], poolAddr[1] = 0xf6, 0x02
	})
	return accts
}

// detBytes fills b deterministically from a label.
func detBytes(b []byte, label string, i int) {
	h := crypto.Hash(append([]byte(label), byte(i), byte(i>>8)))
	for k := range b {
		b[k] = h[k%len(h)]
	}
}

// Genesis builds the deterministic genesis state: nAccounts funded accounts (the first `online`
// are online with voting keys), the fee sink and the rewards pool. Accounts nAccounts.. exist only
// as key pairs (used as fresh receivers / rekey targets).
func Genesis(online int, poolAtMin bool) (ledgercore.InitState, map[basics.Address]basics.AccountData) {
	registerProto()
	as := Accounts()
	bal := map[basics.Address]basics.AccountData{}
	const amount = 800_000_000_000_000 // micro-algos per funded account
	for i := 0; i < nAccounts; i++ {
		ad := basics.AccountData{MicroAlgos: basics.MicroAlgos{Raw: amount}, Status: basics.Offline}
		if i < online {
			ad.Status = basics.Online
			ad.VoteFirstValid = 0
			ad.VoteLastValid = basics.Round(20 + 7*i) // staggered expiry inside the simulated history
			ad.VoteKeyDilution = 100
			detBytes(ad.VoteID[:], "vote", i)
			detBytes(ad.SelectionID[:], "sel", i)
			detBytes(ad.StateProofID[:], "sp", i)
		}
		bal[as[i].Addr] = ad
	}
	bal[sinkAddr] = basics.AccountData{MicroAlgos: basics.MicroAlgos{Raw: amount}, Status: basics.NotParticipating}
	bal[poolAddr] = basics.AccountData{MicroAlgos: basics.MicroAlgos{Raw: amount}, Status: basics.NotParticipating}
	if poolAtMin {
		// a rewards pool at its minimum balance: the rewards rate is 0 for the whole history (checks that only
		// trip because "the sum of money changed" are out of the way of the header-list checks)
		bal[poolAddr] = basics.AccountData{MicroAlgos: basics.MicroAlgos{Raw: 100_000}, Status: basics.NotParticipating}
	}
	gb := bookkeeping.MakeGenesisBalances(bal, sinkAddr, poolAddr)
	var gh crypto.Digest
	copy(gh[:], "verif-ledgersim-genesis-hash-000")
	blk, err := bookkeeping.MakeGenesisBlock(SimProto, gb, "verif-sim", gh)
	if err != nil {
		panic(err)
	}
	return ledgercore.InitState{Block: blk, Accounts: bal, GenesisHash: gh}, bal
}
