package ledgersim

import (
	"sync"

	"github.com/algorand/go-algorand/ledger"
)

// Park points inside the ledger (DESIGN.md §6 H2): ledger.VerifHook (build tag verif) is called
// at named sites in blockQueue.syncer and trackerRegistry.commitRound, between storage
// transactions and with no lock held that a query needs. When a site is armed the calling
// goroutine blocks on a channel created inside the bubble (durably blocked, so synctest.Wait()
// returns) until the scheduler releases it. This gives crash instants INSIDE a block write or
// a tracker commit, and lets queries run while a commit is half done.

type parkCtl struct {
	mu      sync.Mutex
	armed   map[string]bool
	skip    map[string]int  // let this many hits of the site pass first ("*.intx" sites are hit once per tracker / per block)
	fault   map[string]bool // instead of parking, panic there: a fault in the middle of the storage transaction
	faulted map[string]bool
	parked  map[string]chan struct{}
}

// errInjected is the value the harness panics with inside a storage transaction. util/db recovers
// panics raised inside a transaction closure, rolls the transaction back and returns the error.
type errInjected struct{ site string }

func (e errInjected) Error() string {
	return "verif: injected fault inside the transaction at " + e.site
}

var curPark *parkCtl

func init() {
	ledger.VerifHook = func(site string) {
		if p := curPark; p != nil {
			p.hit(site)
		}
	}
}

func newParkCtl() *parkCtl {
	return &parkCtl{armed: map[string]bool{}, skip: map[string]int{}, fault: map[string]bool{}, faulted: map[string]bool{}, parked: map[string]chan struct{}{}}
}

func (p *parkCtl) hit(site string) {
	p.mu.Lock()
	if !p.armed[site] {
		p.mu.Unlock()
		return
	}
	if p.skip[site] > 0 {
		p.skip[site]--
		p.mu.Unlock()
		return
	}
	delete(p.armed, site) // one shot
	if p.fault[site] {
		delete(p.fault, site)
		p.faulted[site] = true
		p.mu.Unlock()
		panic(errInjected{site})
	}
	ch := make(chan struct{})
	p.parked[site] = ch
	p.mu.Unlock()
	<-ch
}

func (p *parkCtl) arm(site string) {
	p.mu.Lock()
	p.armed[site] = true
	p.mu.Unlock()
}

// armAt arms the (skip+1)-th hit of a site; with fault set the hit panics instead of parking.
func (p *parkCtl) armAt(site string, skip int, fault bool) {
	p.mu.Lock()
	p.armed[site] = true
	p.skip[site] = skip
	if fault {
		p.fault[site] = true
	}
	p.mu.Unlock()
}

func (p *parkCtl) didFault(site string) bool {
	p.mu.Lock()
	defer p.mu.Unlock()
	f := p.faulted[site]
	delete(p.faulted, site)
	return f
}

func (p *parkCtl) disarmAll() {
	p.mu.Lock()
	p.armed = map[string]bool{}
	p.skip = map[string]int{}
	p.fault = map[string]bool{}
	p.mu.Unlock()
}

func (p *parkCtl) isParked(site string) bool {
	p.mu.Lock()
	defer p.mu.Unlock()
	_, ok := p.parked[site]
	return ok
}

func (p *parkCtl) releaseAll() int {
	p.mu.Lock()
	defer p.mu.Unlock()
	n := 0
	for s, ch := range p.parked {
		close(ch)
		delete(p.parked, s)
		n++
	}
	return n
}

var parkSites = []string{"bq.beforePut", "bq.afterPut", "commit.prepared", "commit.dbdone"}

// intxSites lie INSIDE the block-write and tracker-commit transactions (C09 runs only): a crash image
// taken there holds a half-written transaction, and a panic there is a fault in mid-transaction.
var intxSites = []string{"bq.intx", "commit.intx"}
