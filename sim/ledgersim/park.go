package ledgersim

import (
	"sync"

	"github.com/algorand/go-algorand/ledger"
)

// Park points inside the ledger (DESIGN.md §6 H2): ledger.VerifHook (build tag verif) is called
// at named sites in blockQueue.syncer and trackerRegistry.commitRound, between storage
// transactions and with no lock held that a query needs. When a site is armed the calling
// goroutine blocks on a channel created inside the bubble (durably blocked, so synctest.Wait()
// returns) until the scheduler releases it. This gives crash instants INSIDE a block write or
// a tracker commit, and lets queries run while a commit is half done.

type parkCtl struct {
	mu     sync.Mutex
	armed  map[string]bool
	parked map[string]chan struct{}
}

var curPark *parkCtl

func init() {
	ledger.VerifHook = func(site string) {
		if p := curPark; p != nil {
			p.hit(site)
		}
	}
}

func newParkCtl() *parkCtl {
	return &parkCtl{armed: map[string]bool{}, parked: map[string]chan struct{}{}}
}

func (p *parkCtl) hit(site string) {
	p.mu.Lock()
	if !p.armed[site] {
		p.mu.Unlock()
		return
	}
	delete(p.armed, site) // one shot
	ch := make(chan struct{})
	p.parked[site] = ch
	p.mu.Unlock()
	<-ch
}

func (p *parkCtl) arm(site string) {
	p.mu.Lock()
	p.armed[site] = true
	p.mu.Unlock()
}

func (p *parkCtl) disarmAll() {
	p.mu.Lock()
	p.armed = map[string]bool{}
	p.mu.Unlock()
}

func (p *parkCtl) isParked(site string) bool {
	p.mu.Lock()
	defer p.mu.Unlock()
	_, ok := p.parked[site]
	return ok
}

func (p *parkCtl) releaseAll() int {
	p.mu.Lock()
	defer p.mu.Unlock()
	n := 0
	for s, ch := range p.parked {
		close(ch)
		delete(p.parked, s)
		n++
	}
	return n
}

var parkSites = []string{"bq.beforePut", "bq.afterPut", "commit.prepared", "commit.dbdone"}
