package ledgersim

import (
	"context"
	"encoding/binary"
	"errors"
	"fmt"
	"os"
	"sort"
	"strings"

	"github.com/algorand/go-algorand/crypto"
	"github.com/algorand/go-algorand/data/basics"
	"github.com/algorand/go-algorand/data/bookkeeping"
	"github.com/algorand/go-algorand/data/transactions"
	"github.com/algorand/go-algorand/data/txntest"
	"github.com/algorand/go-algorand/ledger/eval"
	"github.com/algorand/go-algorand/ledger/ledgercore"
	"github.com/algorand/go-algorand/protocol"

	"verif/sim/kernel"
)

// C11 "A committed transaction cannot be committed again while valid".
//
// Reference (from the blocks that were added; rolled back when a crash loses unconfirmed blocks):
// txid -> (committed round, FirstValid, LastValid, signed transaction, its group) and
// (sender, lease) -> the LastValid of the transactions that took it.
//
// Faults (ExtraGroups, MustReject): the replay fault - the identical signed transaction of a committed
// transaction while the next round <= its LastValid, alone, as its complete original group, or next to
// fresh transactions - and lease conflicts - a different, correctly signed transaction of the same
// sender with the same non-zero lease while the next round <= the lease's expiry, alone or as a member
// of a fresh well-formed group. Positive probes (counted, never asserted): the same lease right after
// its expiry, and fresh leases.
//
// Oracle:
//   - GroupResult: a MustReject candidate that the pipeline accepts is a violation.
//   - TamperBlock: the honestly assembled block with a replayed transaction appended (commitments and
//     counter recomputed) must fail Ledger.Validate.
//   - AfterBlock / AfterReopen: Ledger.CheckDup(proto, next round, fv, lv, txid, lease) must return an
//     error for every committed transaction whose window is still open (with its own lease, and with
//     an empty lease: then the error must be TransactionInLedgerError), and LeaseInLedgerError for a
//     fresh txid under every active lease. After a crash or a clean reload the tail is rebuilt from the
//     tracker DB (rounds <= tracker round) and from the replayed blocks: the same sweep runs again.
//   - BlockDone: no txid occurs twice in the blocks of the run.

func init() {
	registerObserver([]string{"C11"}, func(s *Sim) Observer { return newDupObs(s) })
}

type dupTxn struct {
	id     transactions.Txid
	rnd    basics.Round
	intra  int
	stxn   transactions.SignedTxn
	group  []transactions.SignedTxn // the complete group as committed (len 1 for singletons)
	sender basics.Address
	lease  [32]byte
}

func (d *dupTxn) fv() basics.Round { return d.stxn.Txn.FirstValid }
func (d *dupTxn) lv() basics.Round { return d.stxn.Txn.LastValid }

type dupObs struct {
	NopObserver
	byRound map[basics.Round][]*dupTxn
	byID    map[transactions.Txid]*dupTxn
	fresh   uint64
	// lostR1: the ledger was last reopened while the tracker DB was at round 1, i.e. its persisted
	// transaction tail held exactly one round. txTail.loadFromDisk skips the tail in that case (known
	// finding keyTailSingleRound): everything about block 1 is forgotten until the next reopen.
	lostR1 bool
}

// keyTailSingleRound is the stable key of the finding findings/C11-txtail-single-round-reload.
const keyTailSingleRound = "txtail-reload-single-round"

// dupHardKnown: the class is an ordinary violation unless known_findings.json lists the key as OPEN
// (the driver passes open keys in VERIF_KNOWN_KEYS) and this is not a replay; only then is it recorded
// in RunResult.Known (the driver prints KNOWN-FINDING) so that the run goes on. The finding has been
// fixed in /repo (entry status "fixed", which suppresses nothing): a recurrence is a VIOLATION.
func dupHardKnown() bool {
	if os.Getenv("VERIF_REPLAY") != "" || os.Getenv("VERIF_KNOWN_HARD") != "" {
		return true
	}
	return !kernel.KnownKey("C11", keyTailSingleRound)
}

// tainted: the reference says this committed transaction is remembered, but the ledger was reopened
// with a single-round tail that loadFromDisk drops.
func (o *dupObs) tainted(d *dupTxn) bool { return o.lostR1 && d != nil && d.rnd == 1 }

// report files a C11 violation. For the known class it returns false (run goes on) unless hard mode.
func (o *dupObs) report(s *Sim, oracle, key, detail string, d *dupTxn) (stop bool) {
	if !o.tainted(d) {
		s.violate("C11", oracle, key, detail)
		return true
	}
	detail += " [the ledger was reopened while its tracker DB was at round 1: txTail.loadFromDisk drops a persisted tail of exactly one round, so block 1 is forgotten]"
	s.stat("c11.known."+keyTailSingleRound, 1)
	if dupHardKnown() {
		s.violate("C11", oracle, keyTailSingleRound, detail)
		return true
	}
	if len(s.known) < 4 {
		s.known = append(s.known, kernel.Violation{Property: "C11", Oracle: oracle, Key: keyTailSingleRound, Detail: detail, Step: s.step})
	}
	return false
}

func newDupObs(s *Sim) *dupObs {
	s.statInit("c11.txns_recorded", "c11.replay_offered", "c11.replay_rejected", "c11.replay_rejected_txid", "c11.replay_rejected_lease", "c11.replay_rejected_other",
		"c11.replay.single", "c11.replay.group", "c11.replay.member-alone", "c11.replay.with-fresh", "c11.replay_last_round_of_window", "c11.replay_committed_before_tracker_round",
		"c11.lease_conflict_offered", "c11.lease_conflict_rejected", "c11.lease_conflict_rejected_lease", "c11.lease_conflict_in_group", "c11.lease_conflict_last_round",
		"c11.lease_after_expiry_offered", "c11.lease_after_expiry_accepted", "c11.lease_taker_offered", "c11.lease_taker_accepted",
		"c11.checkdup_txid_checked", "c11.checkdup_lease_checked", "c11.checkdup_free_ok", "c11.checkdup_free_rejected",
		"c11.checkdup_after_crash", "c11.checkdup_after_reload", "c11.checkdup_after_reopen_from_tracker_db", "c11.checkdup_after_reopen_from_replayed_blocks",
		"c11.lease_checked_after_reopen_from_tracker_db", "c11.rolled_back_txns",
		"c11.block_replay_offered", "c11.block_replay_rejected", "c11.block_replay_rejected_dup", "c11.block_lease_conflict_offered", "c11.block_lease_conflict_rejected_dup", "c11.known."+keyTailSingleRound)
	return &dupObs{byRound: map[basics.Round][]*dupTxn{}, byID: map[transactions.Txid]*dupTxn{}}
}

// Nontrivial implements NontrivialJudge.
func (o *dupObs) Nontrivial(s *Sim) bool {
	return s.stats["c11.replay_rejected_txid"] > 0 && s.stats["c11.checkdup_txid_checked"] > 0
}

// ---------------------------------------------------------------------------------------------
// reference

func (o *dupObs) BlockDone(s *Sim, prev, next *State, blk bookkeeping.Block, delta ledgercore.StateDelta) {
	groups, err := blk.DecodePaysetGroups()
	if err != nil {
		s.harness = "C11: DecodePaysetGroups: " + err.Error()
		return
	}
	rnd := blk.Round()
	intra := 0
	for _, grp := range groups {
		var g []transactions.SignedTxn
		for _, m := range grp {
			g = append(g, m.SignedTxn)
		}
		for _, m := range grp {
			d := &dupTxn{id: m.SignedTxn.ID(), rnd: rnd, intra: intra, stxn: m.SignedTxn, group: g, sender: m.SignedTxn.Txn.Sender, lease: m.SignedTxn.Txn.Lease}
			intra++
			if old, ok := o.byID[d.id]; ok {
				if o.report(s, "txid-committed-twice", "", fmt.Sprintf("transaction %s (first valid %d, last valid %d) is in block %d at position %d and again in block %d at position %d", d.id, d.fv(), d.lv(), old.rnd, old.intra, rnd, d.intra), old) {
					return
				}
			}
			// a second holder of a lease that is still active
			if d.lease != ([32]byte{}) {
				if exp, by := o.leaseExpiry(d.sender, d.lease, rnd); exp >= rnd && by != nil {
					if o.report(s, "lease-committed-twice", "", fmt.Sprintf("block %d commits transaction %s of %s with lease %x although transaction %s (block %d, last valid %d) holds that lease until round %d", rnd, d.id, shortAddr(d.sender), d.lease[:2], by.id, by.rnd, by.lv(), exp), by) {
						return
					}
				}
			}
			o.byID[d.id] = d
			o.byRound[rnd] = append(o.byRound[rnd], d)
			s.stat("c11.txns_recorded", 1)
		}
	}
}

// leaseExpiry returns the latest LastValid among the transactions of sender with that lease recorded so
// far in rounds <= upTo (for round upTo itself: the earlier positions of the block being recorded), and
// the transaction holding it.
func (o *dupObs) leaseExpiry(sender basics.Address, lease [32]byte, upTo basics.Round) (basics.Round, *dupTxn) {
	var exp basics.Round
	var by *dupTxn
	for _, r := range o.rounds() {
		if r > upTo {
			continue
		}
		for _, d := range o.byRound[r] {
			if d.sender == sender && d.lease == lease && (by == nil || d.lv() > exp) {
				exp, by = d.lv(), d
			}
		}
	}
	return exp, by
}

func (o *dupObs) rounds() []basics.Round {
	l := make([]basics.Round, 0, len(o.byRound))
	for r := range o.byRound {
		l = append(l, r)
	}
	sort.Slice(l, func(i, j int) bool { return l[i] < l[j] })
	return l
}

// rollback forgets the blocks a crash lost; prune drops rounds that can no longer matter for windows
// (the global txid map keeps everything).
func (o *dupObs) rollback(s *Sim) {
	for _, r := range o.rounds() {
		if r > s.latest {
			for _, d := range o.byRound[r] {
				delete(o.byID, d.id)
				s.stat("c11.rolled_back_txns", 1)
			}
			delete(o.byRound, r)
		}
	}
}

func (o *dupObs) prune(s *Sim) {
	for _, r := range o.rounds() {
		if r+40 < s.latest {
			delete(o.byRound, r)
		}
	}
}

// open lists the committed transactions whose validity window still includes round next (canonical order).
func (o *dupObs) open(next basics.Round) []*dupTxn {
	var l []*dupTxn
	for _, r := range o.rounds() {
		for _, d := range o.byRound[r] {
			if d.lv() >= next {
				l = append(l, d)
			}
		}
	}
	return l
}

type dupLease struct {
	sender basics.Address
	lease  [32]byte
	expiry basics.Round
	by     *dupTxn
}

// leases lists every (sender, lease) ever taken in the remembered rounds with its expiry.
func (o *dupObs) leases() []dupLease {
	type key struct {
		a basics.Address
		l [32]byte
	}
	idx := map[key]int{}
	var l []dupLease
	for _, r := range o.rounds() {
		for _, d := range o.byRound[r] {
			if d.lease == ([32]byte{}) {
				continue
			}
			k := key{d.sender, d.lease}
			if i, ok := idx[k]; ok {
				if d.lv() > l[i].expiry {
					l[i].expiry, l[i].by = d.lv(), d
				}
				continue
			}
			idx[k] = len(l)
			l = append(l, dupLease{d.sender, d.lease, d.lv(), d})
		}
	}
	return l
}

// ---------------------------------------------------------------------------------------------
// faults

type dupInfo struct {
	kind string // replay | lease-conflict | lease-after-expiry | lease-taker
	form string
	txn  *dupTxn
	ls   dupLease
}

func (o *dupObs) leasedPay(g *Gen, sender basics.Address, lease [32]byte, next basics.Round) *txntest.Txn {
	t := g.xbase(&txntest.Txn{Type: protocol.PaymentTx, Sender: sender, Receiver: g.anyAcct().Addr, Amount: uint64(1 + g.n(1000))})
	t.Lease = lease
	t.FirstValid = next
	if next > 2 && g.n(3) == 0 {
		t.FirstValid = next - basics.Round(1+g.n(2))
	}
	t.LastValid = t.FirstValid + basics.Round(1+g.n(int(g.proto.MaxTxnLife)))
	if t.LastValid < next {
		t.LastValid = next
	}
	return t
}

func (o *dupObs) ExtraGroups(s *Sim, g *Gen, ev *eval.BlockEvaluator, hdr *bookkeeping.BlockHeader, cands []Candidate) []Candidate {
	next := hdr.Round
	out := cands
	insert := func(c Candidate) {
		pos := g.n(len(out) + 1)
		out = append(out[:pos:pos], append([]Candidate{c}, out[pos:]...)...)
	}
	dbr := s.led.LatestTrackerCommitted()
	// --- replay fault
	open := o.open(next)
	for i, n := 0, min(len(open), 2+g.n(4)); i < n; i++ {
		d := open[g.n(len(open))]
		form := "single"
		txns := []transactions.SignedTxn{d.stxn}
		switch {
		case len(d.group) > 1 && g.n(2) == 0:
			form = "group"
			txns = append([]transactions.SignedTxn(nil), d.group...)
		case len(d.group) > 1:
			form = "member-alone"
		case g.n(4) == 0:
			form = "with-fresh"
			if snd := g.rich(richFloor); snd != nil {
				fresh := g.sign([]*txntest.Txn{g.xbase(&txntest.Txn{Type: protocol.PaymentTx, Sender: snd.Addr, Receiver: g.anyAcct().Addr, Amount: 1})})
				if g.n(2) == 0 {
					txns = append(fresh, d.stxn)
				} else {
					txns = append(txns, fresh...)
				}
			}
		}
		s.stat("c11.replay_offered", 1)
		s.stat("c11.replay."+form, 1)
		if d.lv() == next {
			s.stat("c11.replay_last_round_of_window", 1)
		}
		if d.rnd <= dbr {
			s.stat("c11.replay_committed_before_tracker_round", 1)
		}
		insert(Candidate{Txns: txns, Poison: "c11.replay", MustReject: true, Info: dupInfo{kind: "replay", form: form, txn: d}})
	}
	// --- lease conflicts and probes after expiry
	for _, ls := range o.leases() {
		auth := g.authOf(ls.sender)
		if auth == nil || g.st.Accts[ls.sender].MicroAlgos.Raw < 10_000_000 {
			continue
		}
		switch {
		case ls.expiry >= next && g.n(2) == 0:
			t := o.leasedPay(g, ls.sender, ls.lease, next)
			txs := []*txntest.Txn{t}
			inGroup := g.n(3) == 0
			if inGroup {
				if snd := g.rich(richFloor, ls.sender); snd != nil {
					extra := g.xbase(&txntest.Txn{Type: protocol.PaymentTx, Sender: snd.Addr, Receiver: g.anyAcct().Addr, Amount: 2})
					if g.n(2) == 0 {
						txs = []*txntest.Txn{extra, t}
					} else {
						txs = append(txs, extra)
					}
					s.stat("c11.lease_conflict_in_group", 1)
				}
			}
			s.stat("c11.lease_conflict_offered", 1)
			if ls.expiry == next {
				s.stat("c11.lease_conflict_last_round", 1)
			}
			insert(Candidate{Txns: g.sign(txs), Poison: "c11.lease-conflict", MustReject: true, Info: dupInfo{kind: "lease-conflict", ls: ls}})
		case ls.expiry+1 == next || (ls.expiry < next && ls.expiry+3 >= next && g.n(3) == 0):
			t := o.leasedPay(g, ls.sender, ls.lease, next)
			s.stat("c11.lease_after_expiry_offered", 1)
			insert(Candidate{Txns: g.sign([]*txntest.Txn{t}), Info: dupInfo{kind: "lease-after-expiry", ls: ls}})
		}
	}
	// --- fresh lease takers (so that leases exist at all rounds, with all lifetimes)
	for i, n := 0, 1+g.n(3); i < n; i++ {
		snd := g.sender()
		if g.authOf(snd.Addr) == nil {
			continue
		}
		var lease [32]byte
		lease[0] = byte(1 + g.n(4))
		lease[31] = 0xC1
		t := o.leasedPay(g, snd.Addr, lease, next)
		s.stat("c11.lease_taker_offered", 1)
		insert(Candidate{Txns: g.sign([]*txntest.Txn{t}), Info: dupInfo{kind: "lease-taker"}})
	}
	return out
}

func (o *dupObs) GroupResult(s *Sim, ev *eval.BlockEvaluator, c Candidate, stage string, err error) {
	info, ok := c.Info.(dupInfo)
	if !ok {
		return
	}
	var til *ledgercore.TransactionInLedgerError
	var lil *ledgercore.LeaseInLedgerError
	switch info.kind {
	case "replay":
		d := info.txn
		if err == nil {
			o.report(s, "replay-accepted", "", fmt.Sprintf("round %d: the identical signed transaction %s (committed in block %d, first valid %d, last valid %d, lease %x) was accepted again by the block evaluator (form %q); tracker db round %d", ev.Round(), d.id, d.rnd, d.fv(), d.lv(), d.lease[:2], info.form, s.led.LatestTrackerCommitted()), d)
			return
		}
		s.stat("c11.replay_rejected", 1)
		switch {
		case errors.As(err, &til):
			s.stat("c11.replay_rejected_txid", 1)
		case errors.As(err, &lil):
			s.stat("c11.replay_rejected_lease", 1)
		default:
			s.stat("c11.replay_rejected_other", 1)
		}
	case "lease-conflict":
		ls := info.ls
		if err == nil {
			o.report(s, "lease-conflict-accepted", "", fmt.Sprintf("round %d: transaction %s of %s with lease %x was accepted although transaction %s (block %d) holds that lease until round %d; tracker db round %d", ev.Round(), c.Txns[len(c.Txns)-1].ID(), shortAddr(ls.sender), ls.lease[:2], ls.by.id, ls.by.rnd, ls.expiry, s.led.LatestTrackerCommitted()), ls.by)
			return
		}
		s.stat("c11.lease_conflict_rejected", 1)
		if errors.As(err, &lil) {
			s.stat("c11.lease_conflict_rejected_lease", 1)
		}
	case "lease-after-expiry":
		if err == nil {
			s.stat("c11.lease_after_expiry_accepted", 1)
		}
	case "lease-taker":
		if err == nil {
			s.stat("c11.lease_taker_accepted", 1)
		}
	}
}

// TamperBlock: a Byzantine proposer appends a committed transaction (or a lease conflict) to the
// honestly assembled block and fixes up the header so that nothing but the duplicate is wrong.
func (o *dupObs) TamperBlock(s *Sim, g *Gen, blk bookkeeping.Block) {
	next := blk.Round()
	open := o.open(next)
	try := func(stxn transactions.SignedTxn, what string, stat string, of *dupTxn) {
		v := blk
		v.Payset = append(transactions.Payset(nil), blk.Payset...)
		stib, err := v.BlockHeader.EncodeSignedTxn(stxn, transactions.ApplyData{})
		if err != nil {
			return
		}
		v.Payset = append(v.Payset, stib)
		v.TxnCounter++
		tc, err := v.PaysetCommit()
		if err != nil {
			return
		}
		v.TxnCommitments = tc
		s.stat("c11."+stat+"_offered", 1)
		_, err = s.led.Validate(context.Background(), v, s.pool)
		if err == nil {
			o.report(s, "block-with-duplicate-validates", stat, fmt.Sprintf("round %d: the assembled block with %s appended passes Ledger.Validate", next, what), of)
			return
		}
		var til *ledgercore.TransactionInLedgerError
		var lil *ledgercore.LeaseInLedgerError
		if stat == "block_replay" {
			s.stat("c11.block_replay_rejected", 1)
		}
		if errors.As(err, &til) || errors.As(err, &lil) || strings.Contains(err.Error(), "already in ledger") || strings.Contains(err.Error(), "using an overlapping lease") {
			s.stat("c11."+stat+"_rejected_dup", 1)
		}
	}
	if len(open) > 0 && g.n(3) == 0 {
		d := open[g.n(len(open))]
		if len(d.group) == 1 {
			try(d.stxn, fmt.Sprintf("transaction %s (committed in block %d, last valid %d)", d.id, d.rnd, d.lv()), "block_replay", d)
		}
	}
	if s.viol != nil || g.n(3) != 0 {
		return
	}
	for _, ls := range o.leases() {
		if ls.expiry < next || g.authOf(ls.sender) == nil || g.st.Accts[ls.sender].MicroAlgos.Raw < 10_000_000 {
			continue
		}
		t := o.leasedPay(g, ls.sender, ls.lease, next)
		st := g.sign([]*txntest.Txn{t})
		try(st[0], fmt.Sprintf("a transaction of %s with lease %x held until round %d by %s", shortAddr(ls.sender), ls.lease[:2], ls.expiry, ls.by.id), "block_lease_conflict", ls.by)
		break
	}
}

// ---------------------------------------------------------------------------------------------
// CheckDup sweeps

func (o *dupObs) freshTxid() transactions.Txid {
	o.fresh++
	var b [16]byte
	copy(b[:], "c11fresh")
	binary.BigEndian.PutUint64(b[8:], o.fresh)
	return transactions.Txid(crypto.Hash(b[:]))
}

func (o *dupObs) checkDupSweep(s *Sim, where string) {
	st := s.states[s.latest]
	if st == nil {
		return
	}
	proto := st.proto()
	next := s.latest + 1
	dbr := s.led.LatestTrackerCommitted()
	reopen := where != "after-block"
	phase := where // stable violation key: after-block | after-crash | after-reload
	if i := strings.IndexByte(phase, '@'); i >= 0 {
		phase = phase[:i]
	}
	var til *ledgercore.TransactionInLedgerError
	var lil *ledgercore.LeaseInLedgerError
	for _, d := range o.open(next) {
		split := fmt.Sprintf("committed in block %d, first valid %d, last valid %d; next round %d, tracker db round %d", d.rnd, d.fv(), d.lv(), next, dbr)
		err := s.led.CheckDup(proto, next, d.fv(), d.lv(), d.id, ledgercore.Txlease{Sender: d.sender, Lease: d.lease})
		s.stat("c11.checkdup_txid_checked", 1)
		if err == nil {
			if o.report(s, "checkdup-misses-committed-txn", phase, fmt.Sprintf("%s: CheckDup(next=%d, fv=%d, lv=%d, %s, lease %x) returned nil for a committed transaction whose window is open (%s)", where, next, d.fv(), d.lv(), d.id, d.lease[:2], split), d) {
				return
			}
			continue
		}
		err = s.led.CheckDup(proto, next, d.fv(), d.lv(), d.id, ledgercore.Txlease{Sender: d.sender})
		if !errors.As(err, &til) {
			if o.report(s, "checkdup-misses-committed-txid", phase, fmt.Sprintf("%s: CheckDup(next=%d, fv=%d, lv=%d, %s, no lease) = %v, expected TransactionInLedgerError (%s)", where, next, d.fv(), d.lv(), d.id, err, split), d) {
				return
			}
			continue
		}
		if reopen {
			if d.rnd <= dbr {
				s.stat("c11.checkdup_after_reopen_from_tracker_db", 1)
			} else {
				s.stat("c11.checkdup_after_reopen_from_replayed_blocks", 1)
			}
		}
	}
	for _, ls := range o.leases() {
		txl := ledgercore.Txlease{Sender: ls.sender, Lease: ls.lease}
		id := o.freshTxid()
		err := s.led.CheckDup(proto, next, next, next+basics.Round(proto.MaxTxnLife), id, txl)
		if ls.expiry >= next {
			s.stat("c11.checkdup_lease_checked", 1)
			if !errors.As(err, &lil) {
				if o.report(s, "checkdup-misses-active-lease", phase, fmt.Sprintf("%s: CheckDup(next=%d, fresh txid, sender %s, lease %x) = %v, expected LeaseInLedgerError: transaction %s (block %d) holds the lease until round %d; tracker db round %d", where, next, shortAddr(ls.sender), ls.lease[:2], err, ls.by.id, ls.by.rnd, ls.expiry, dbr), ls.by) {
					return
				}
				continue
			}
			if reopen && ls.by.rnd <= dbr {
				s.stat("c11.lease_checked_after_reopen_from_tracker_db", 1)
			}
		} else if err == nil {
			s.stat("c11.checkdup_free_ok", 1)
		} else {
			s.stat("c11.checkdup_free_rejected", 1)
		}
	}
	switch {
	case strings.HasPrefix(where, "after-crash"):
		s.stat("c11.checkdup_after_crash", 1)
	case strings.HasPrefix(where, "after-reload"):
		s.stat("c11.checkdup_after_reload", 1)
	}
}

// AfterBlock implements PostBlock.
func (o *dupObs) AfterBlock(s *Sim, qseed uint64) {
	o.prune(s)
	o.checkDupSweep(s, "after-block")
}

// AfterReopen implements PostReopen.
func (o *dupObs) AfterReopen(s *Sim, why string) {
	o.rollback(s)
	o.lostR1 = s.led.LatestTrackerCommitted() == 1
	o.checkDupSweep(s, "after-"+why)
}
