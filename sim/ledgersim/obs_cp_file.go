package ledgersim

import (
	"archive/tar"
	"bytes"
	"compress/gzip"
	"errors"
	"fmt"
	"io"
	"math/rand/v2"
	"sort"

	"github.com/algorand/msgp/msgp"

	"github.com/algorand/go-algorand/data/basics"
	"github.com/algorand/go-algorand/ledger"
	"github.com/algorand/go-algorand/ledger/encoded"
	"github.com/algorand/go-algorand/ledger/store/trackerdb"
	"github.com/algorand/go-algorand/protocol"
)

// Catchpoint file model used by the C15/C16 transfer observer (obs_cptransfer.go).
//
// A catchpoint file as served by Ledger.GetCatchpointStream is a gzip'ed tar (catchpointtracker.go
// repackCatchpoint): content.msgpack (CatchpointFileHeader), stateProofVerificationContext.msgpack,
// then balances.N.msgpack sections, each a msgpack CatchpointSnapshotChunkV6 holding EITHER account
// records (Balances) OR kv records OR online-account rows OR online-round-params rows
// (catchpointfilewriter.go readDatabaseStep). The HTTP client of the real node hands the gunzip'ed tar
// stream to catchup/ledgerFetcher.go, whose loop (tar.Next; size check; ReadFull; accessor.
// ProcessStagingBalances(name, bytes)) is mirrored by cpFetch below.

const (
	cpContentName = ledger.CatchpointContentFileName
	cpSPName      = "stateProofVerificationContext.msgpack"
	// catchup/ledgerFetcher.go maxCatchpointFileChunkSize
	cpMaxChunkSize = ledger.BalancesPerCatchpointFileChunk*(ledger.MaxEncodedBaseAccountDataSize+encoded.MaxEncodedKVDataSize) + ledger.ResourcesPerCatchpointFileChunk*ledger.MaxEncodedBaseResourceDataSize
)

type cpSection struct {
	Name string
	Data []byte
}

type cpFile struct {
	Round    basics.Round
	Label    string
	Header   ledger.CatchpointFileHeader
	Sections []cpSection
	// KVReordered: the producer's kv records were not in key order (see canonKVOrder)
	KVReordered bool
}

func isBalancesSection(name string) bool {
	return len(name) > len("balances..msgpack") && name[:9] == "balances." && name[len(name)-8:] == ".msgpack"
}

// readCatchpointFile gunzips and untars a producer's catchpoint file.
func readCatchpointFile(rc io.Reader) (*cpFile, error) {
	gz, err := gzip.NewReader(rc)
	if err != nil {
		return nil, err
	}
	tr := tar.NewReader(gz)
	f := &cpFile{}
	for {
		h, err := tr.Next()
		if err == io.EOF {
			break
		}
		if err != nil {
			return nil, err
		}
		b, err := io.ReadAll(tr)
		if err != nil {
			return nil, err
		}
		f.Sections = append(f.Sections, cpSection{Name: h.Name, Data: b})
	}
	if len(f.Sections) == 0 || f.Sections[0].Name != cpContentName {
		return nil, errors.New("catchpoint file does not start with " + cpContentName)
	}
	if err := protocol.Decode(f.Sections[0].Data, &f.Header); err != nil {
		return nil, err
	}
	f.Round = f.Header.BlocksRound
	f.Label = f.Header.Catchpoint
	if err := f.canonKVOrder(); err != nil {
		return nil, err
	}
	return f, nil
}

// canonKVOrder sorts the kv records of the file by key (keeping the chunk sizes). The producer writes
// them in kvstore rowid order (catchpointfilewriter.go MakeKVsIter has no ORDER BY), and rowids follow
// the iteration order of the Go map of kv deltas in accountsNewRound: the same history gives files whose
// kv records are permuted from process to process. The order carries no meaning for the consumer (rows
// keyed by key, trie = set of leaves); fixing it keeps every harness choice that indexes a kv record or
// a byte offset reproducible.
func (f *cpFile) canonKVOrder() error {
	var all []encoded.KVRecordV6
	var idx []int
	var chunks []ledger.CatchpointSnapshotChunkV6
	for i, s := range f.Sections {
		if !isBalancesSection(s.Name) {
			continue
		}
		c, err := decodeChunk(s.Data)
		if err != nil {
			return err
		}
		if len(c.KVs) > 0 {
			all = append(all, c.KVs...)
			idx = append(idx, i)
			chunks = append(chunks, c)
		}
	}
	if sort.SliceIsSorted(all, func(i, j int) bool { return bytes.Compare(all[i].Key, all[j].Key) < 0 }) {
		return nil
	}
	sort.Slice(all, func(i, j int) bool { return bytes.Compare(all[i].Key, all[j].Key) < 0 })
	f.KVReordered = true
	for k, i := range idx {
		n := len(chunks[k].KVs)
		chunks[k].KVs = all[:n]
		all = all[n:]
		f.Sections[i] = cpSection{Name: f.Sections[i].Name, Data: encodeChunk(&chunks[k])}
	}
	return nil
}

// cpTar serialises sections as the tar stream the fetcher reads.
func cpTar(secs []cpSection) []byte {
	var buf bytes.Buffer
	tw := tar.NewWriter(&buf)
	for _, s := range secs {
		tw.WriteHeader(&tar.Header{Name: s.Name, Mode: 0600, Size: int64(len(s.Data))})
		tw.Write(s.Data)
	}
	tw.Close()
	return buf.Bytes()
}

// cpTarLoop walks a tar stream the way ledgerFetcher.getPeerLedger does: Next(); io.EOF ends the download
// successfully, any other error fails it; the section body is read with io.ReadFull.
func cpTarLoop(stream []byte, section func(name string, size int64, read func([]byte) error) error) error {
	tr := tar.NewReader(bytes.NewReader(stream))
	for {
		h, err := tr.Next()
		if err != nil {
			if err == io.EOF {
				return nil
			}
			return err
		}
		if err := section(h.Name, h.Size, func(b []byte) error { _, e := io.ReadFull(tr, b); return e }); err != nil {
			return err
		}
	}
}

// cpTarOffsets returns, for a stream produced by cpTar(secs), the offset at which every section's
// header starts, plus the offset of the end-of-archive marker.
func cpTarOffsets(secs []cpSection) []int {
	offs := make([]int, 0, len(secs)+1)
	o := 0
	for _, s := range secs {
		offs = append(offs, o)
		o += 512 + (len(s.Data)+511)/512*512
	}
	return append(offs, o)
}

func cloneSections(secs []cpSection) []cpSection {
	out := make([]cpSection, len(secs))
	for i, s := range secs {
		out[i] = cpSection{Name: s.Name, Data: append([]byte(nil), s.Data...)}
	}
	return out
}

func decodeChunk(b []byte) (ledger.CatchpointSnapshotChunkV6, error) {
	var c ledger.CatchpointSnapshotChunkV6
	err := protocol.Decode(b, &c)
	return c, err
}

func encodeChunk(c *ledger.CatchpointSnapshotChunkV6) []byte { return protocol.Encode(c) }

func balancesName(i int) string { return fmt.Sprintf("balances.%d.msgpack", i) }

// ---------------------------------------------------------------------------------------------
// Re-chunking: the same content split the way catchpointFileWriter would split it with smaller
// per-chunk limits (BalancesPerCatchpointFileChunk accounts, ResourcesPerCatchpointFileChunk
// resources; sqlitedriver/encodedAccountsIter.go): an account whose resources do not fit is continued in
// the next chunk, every piece carrying the same account data, all pieces but the last flagged
// ExpectingMoreEntries and closing their chunk. Semantically neutral by construction.

type cpLimits struct{ Accts, Res, Kvs, Online, Params int }

func sortedResKeys(m map[uint64]msgp.Raw) []uint64 {
	ks := make([]uint64, 0, len(m))
	for k := range m {
		ks = append(ks, k)
	}
	sort.Slice(ks, func(i, j int) bool { return ks[i] < ks[j] })
	return ks
}

func cpRechunk(secs []cpSection, lim cpLimits) ([]cpSection, error) {
	var out []cpSection
	var bal []encoded.BalanceRecordV6
	var kvs []encoded.KVRecordV6
	var oas []encoded.OnlineAccountRecordV6
	var orps []encoded.OnlineRoundParamsRecordV6
	for _, s := range secs {
		if !isBalancesSection(s.Name) {
			out = append(out, s)
			continue
		}
		c, err := decodeChunk(s.Data)
		if err != nil {
			return nil, err
		}
		bal = append(bal, c.Balances...)
		kvs = append(kvs, c.KVs...)
		oas = append(oas, c.OnlineAccounts...)
		orps = append(orps, c.OnlineRoundParams...)
	}
	n := 0
	emit := func(c ledger.CatchpointSnapshotChunkV6) {
		n++
		out = append(out, cpSection{Name: balancesName(n), Data: encodeChunk(&c)})
	}
	// accounts
	var cur []encoded.BalanceRecordV6
	resInChunk := 0
	flush := func() {
		if len(cur) > 0 {
			emit(ledger.CatchpointSnapshotChunkV6{Balances: cur})
		}
		cur, resInChunk = nil, 0
	}
	for _, b := range bal {
		if b.ExpectingMoreEntries {
			return nil, errors.New("rechunk: producer file already holds a split account")
		}
		keys := sortedResKeys(b.Resources)
		for {
			room := lim.Res - resInChunk
			if len(keys) <= room {
				rec := encoded.BalanceRecordV6{Address: b.Address, AccountData: b.AccountData}
				if len(keys) > 0 {
					rec.Resources = map[uint64]msgp.Raw{}
					for _, k := range keys {
						rec.Resources[k] = b.Resources[k]
					}
				}
				cur = append(cur, rec)
				resInChunk += len(keys)
				break
			}
			if room > 0 {
				rec := encoded.BalanceRecordV6{Address: b.Address, AccountData: b.AccountData, ExpectingMoreEntries: true, Resources: map[uint64]msgp.Raw{}}
				for _, k := range keys[:room] {
					rec.Resources[k] = b.Resources[k]
				}
				cur = append(cur, rec)
				keys = keys[room:]
			} else if len(cur) == 0 {
				return nil, errors.New("rechunk: no room in an empty chunk") // lim.Res >= 1 makes this unreachable
			}
			flush()
		}
		if len(cur) >= lim.Accts || resInChunk >= lim.Res {
			flush()
		}
	}
	flush()
	for i := 0; i < len(kvs); i += lim.Kvs {
		emit(ledger.CatchpointSnapshotChunkV6{KVs: kvs[i:min(i+lim.Kvs, len(kvs))]})
	}
	for i := 0; i < len(oas); i += lim.Online {
		emit(ledger.CatchpointSnapshotChunkV6{OnlineAccounts: oas[i:min(i+lim.Online, len(oas))]})
	}
	for i := 0; i < len(orps); i += lim.Params {
		emit(ledger.CatchpointSnapshotChunkV6{OnlineRoundParams: orps[i:min(i+lim.Params, len(orps))]})
	}
	return out, nil
}

// ---------------------------------------------------------------------------------------------
// Chunk-stream faults (C16). Section-level faults edit the section list; byte-level faults edit the
// serialised tar stream.

const (
	cpFaultNone = iota
	cpFaultFlip
	cpFaultTruncate
	cpFaultDrop
	cpFaultDup
	cpFaultReorder
	cpFaultForeign
	cpFaultSemantic
	cpFaultKinds
)

var cpFaultNames = []string{"none", "byte-flip", "truncate", "drop-chunk", "dup-chunk", "reorder-chunks", "foreign-chunk", "semantic-entry"}

// applySectionFault returns the edited list and a description ("" if the fault found no target).
func applySectionFault(kind int, secs []cpSection, other *cpFile, rg *rand.Rand) ([]cpSection, string) {
	n := len(secs)
	switch kind {
	case cpFaultDrop:
		i := rg.IntN(n)
		out := append(append([]cpSection{}, secs[:i]...), secs[i+1:]...)
		return out, fmt.Sprintf("dropped section %d (%s)", i, secs[i].Name)
	case cpFaultDup:
		i := rg.IntN(n)
		at := i + 1
		if rg.IntN(3) == 0 {
			at = i + 1 + rg.IntN(n-i)
		}
		out := append([]cpSection{}, secs[:at]...)
		out = append(out, secs[i])
		out = append(out, secs[at:]...)
		return out, fmt.Sprintf("duplicated section %d (%s) at position %d", i, secs[i].Name, at)
	case cpFaultReorder:
		if n < 2 {
			return secs, ""
		}
		i := rg.IntN(n)
		j := rg.IntN(n - 1)
		if j >= i {
			j++
		}
		out := append([]cpSection{}, secs...)
		out[i], out[j] = out[j], out[i]
		return out, fmt.Sprintf("swapped sections %d (%s) and %d (%s)", i, secs[i].Name, j, secs[j].Name)
	case cpFaultForeign:
		if other == nil {
			return secs, ""
		}
		// a section of ANOTHER catchpoint round takes the place of the section of the same kind
		var cand [][2]int
		for i, s := range secs {
			for j, t := range other.Sections {
				if cpSectionKind(s) == cpSectionKind(t) && !bytes.Equal(s.Data, t.Data) {
					cand = append(cand, [2]int{i, j})
				}
			}
		}
		if len(cand) == 0 {
			return secs, ""
		}
		p := cand[rg.IntN(len(cand))]
		out := append([]cpSection{}, secs...)
		out[p[0]] = cpSection{Name: secs[p[0]].Name, Data: other.Sections[p[1]].Data}
		return out, fmt.Sprintf("section %d (%s, %s) replaced by the %s section of catchpoint round %d", p[0], secs[p[0]].Name, cpSectionKind(secs[p[0]]), cpSectionKind(other.Sections[p[1]]), other.Round)
	}
	return secs, ""
}

func cpSectionKind(s cpSection) string {
	if s.Name == cpContentName {
		return "content"
	}
	if !isBalancesSection(s.Name) {
		return s.Name
	}
	c, err := decodeChunk(s.Data)
	switch {
	case err != nil:
		return "undecodable"
	case len(c.Balances) > 0:
		return "accounts"
	case len(c.KVs) > 0:
		return "kvs"
	case len(c.OnlineAccounts) > 0:
		return "onlineaccounts"
	case len(c.OnlineRoundParams) > 0:
		return "onlineroundparams"
	}
	return "empty"
}

// applyByteFault edits the tar stream.
func applyByteFault(kind int, stream []byte, secs []cpSection, rg *rand.Rand) ([]byte, string) {
	offs := cpTarOffsets(secs)
	switch kind {
	case cpFaultFlip:
		// mostly inside section data, sometimes anywhere (tar headers, padding, end marker)
		pos := rg.IntN(len(stream))
		where := "anywhere in the tar stream"
		if rg.IntN(4) != 0 {
			i := rg.IntN(len(secs))
			if len(secs[i].Data) > 0 {
				pos = offs[i] + 512 + rg.IntN(len(secs[i].Data))
				where = fmt.Sprintf("data of section %d (%s)", i, secs[i].Name)
			}
		}
		out := append([]byte(nil), stream...)
		bit := byte(1) << uint(rg.IntN(8))
		out[pos] ^= bit
		return out, fmt.Sprintf("flipped bit %#x of byte %d (%s)", bit, pos, where)
	case cpFaultTruncate:
		var cut int
		if rg.IntN(2) == 0 { // exactly at a section boundary: the tar reader reports a clean EOF
			cut = offs[1+rg.IntN(len(offs)-1)]
			if cut == offs[len(offs)-1] && rg.IntN(2) == 0 && len(offs) > 2 {
				cut = offs[1+rg.IntN(len(offs)-2)]
			}
		} else {
			cut = rg.IntN(offs[len(offs)-1])
		}
		return append([]byte(nil), stream[:cut]...), fmt.Sprintf("stream cut after %d of %d bytes", cut, len(stream))
	}
	return stream, ""
}

// ---------------------------------------------------------------------------------------------
// Decoded view of the content sections: what state a file describes (used to decide whether an
// edited file still describes the producer's state).

type cpContent struct {
	Accts   map[basics.Address]string // address -> encoded base account data of the COMPLETE record
	Res     map[string]string         // address|idx -> encoded resource
	Kv      map[string]string
	Online  []string // encoded rows, in file order
	Params  []string
	Partial int // records flagged ExpectingMoreEntries
	Totals  string
}

func cpDecodeContent(secs []cpSection) (*cpContent, error) {
	c := &cpContent{Accts: map[basics.Address]string{}, Res: map[string]string{}, Kv: map[string]string{}}
	for _, s := range secs {
		if s.Name == cpContentName {
			var h ledger.CatchpointFileHeader
			if err := protocol.Decode(s.Data, &h); err != nil {
				return nil, err
			}
			c.Totals = string(protocol.Encode(&h.Totals))
		}
		if !isBalancesSection(s.Name) {
			continue
		}
		ch, err := decodeChunk(s.Data)
		if err != nil {
			return nil, err
		}
		for _, b := range ch.Balances {
			if b.ExpectingMoreEntries {
				c.Partial++
			} else {
				c.Accts[b.Address] = string(b.AccountData)
			}
			for idx, r := range b.Resources {
				c.Res[fmt.Sprintf("%x|%d", b.Address[:], idx)] = string(r)
			}
		}
		for _, kv := range ch.KVs {
			c.Kv[string(kv.Key)] = string(kv.Value)
		}
		for i := range ch.OnlineAccounts {
			c.Online = append(c.Online, string(protocol.Encode(&ch.OnlineAccounts[i])))
		}
		for i := range ch.OnlineRoundParams {
			c.Params = append(c.Params, string(protocol.Encode(&ch.OnlineRoundParams[i])))
		}
	}
	return c, nil
}

// cpKvLeafCollision looks for two kv records of the file whose key||value concatenations are equal
// (trackerdb.KvHashBuilderV6 hashes exactly that concatenation: they share one trie leaf).
func cpKvLeafCollision(secs []cpSection) string {
	seen := map[string]string{}
	var keys []string
	rec := map[string][2]string{}
	for _, s := range secs {
		if !isBalancesSection(s.Name) {
			continue
		}
		c, err := decodeChunk(s.Data)
		if err != nil {
			continue
		}
		for _, kv := range c.KVs {
			keys = append(keys, string(kv.Key))
			rec[string(kv.Key)] = [2]string{string(kv.Key), string(kv.Value)}
		}
	}
	sort.Strings(keys)
	for _, k := range keys {
		cat := rec[k][0] + rec[k][1]
		if other, dup := seen[cat]; dup {
			return fmt.Sprintf("kv %q (value %d bytes) and kv %q (value %d bytes) have the same key||value concatenation", other, len(rec[other][1]), k, len(rec[k][1]))
		}
		seen[cat] = k
	}
	return ""
}

func decodeBase(raw msgp.Raw) (trackerdb.BaseAccountData, error) {
	var b trackerdb.BaseAccountData
	err := protocol.Decode(raw, &b)
	return b, err
}

func decodeRes(raw msgp.Raw) (trackerdb.ResourcesData, error) {
	var r trackerdb.ResourcesData
	err := protocol.Decode(raw, &r)
	return r, err
}
