package ledgersim

import (
	"fmt"
	"math/rand/v2"
	"sort"
	"strings"

	"github.com/algorand/go-algorand/data/basics"
	"github.com/algorand/go-algorand/data/bookkeeping"
	"github.com/algorand/go-algorand/ledger/ledgercore"
)

// C13 "Consensus sees the right online stake for every round".
//
// Oracle (AfterBlock / AfterReopen, quiescent instants). The online tracker serves the rounds
// [max(0, trackerRound+1-MaxBalLookback), latest] (acctonline.go: onlineRoundParamsData is trimmed to
// MaxBalLookback + len(deltas) entries in postCommit, the DB rows older than that are pruned in
// commitRound; state proofs are off in SimProto so the voters tracker does not extend the history).
// For every round r of that window:
//   - Ledger.LookupAgreement(r, addr) == the online projection of the reference account at round r:
//     the zero OnlineAccountData unless Status == Online, else the micro-algos with the rewards pending
//     at round r's rewards level, the voting data and the incentive fields (this is what
//     ledgercore.AccountData.OnlineAccountData computes; the expected value is built by hand from the
//     reference fold and the trusted reward arithmetic basics.WithUpdatedRewards).
//   - Ledger.OnlineCirculation(r, voteRnd), voteRnd in r..r+balance lookback == the sum of
//     MicroAlgosWithRewards over reference accounts Online at r, minus - iff the round's consensus
//     params set ExcludeExpiredCirculation and r != 0 - those with VoteLastValid != 0 and
//     VoteLastValid < voteRnd (acctonline.go onlineAcctsExpiredByRound / ExpiredOnlineAccountsForRound).
// Rounds below the window may be refused (error) but must never be answered wrongly; rounds above
// latest must be refused. Answers for the same (r, addr) / (r, voteRnd) are remembered and must be
// identical after a clean reload or a crash that kept round r.
//
// Workload: the "online" bias turns most asset traffic into key registrations (online with short key
// lifetimes, offline, non-participating) and payments, on top of the genesis accounts' staggered
// VoteLastValid, so that status flips, key expiry (incl. the evaluator's expiry/suspension lists) and
// stake changes of online accounts happen inside the served window.

func init() {
	propBias["C13"] = "online"
	kindRemap["online"] = func(g *Gen, kind int) int {
		switch {
		case kind >= 28 && kind < 64: // asset traffic -> keyreg / payment
			if kind%3 == 0 {
				return 3 // payment
			}
			return 24 // keyreg
		case kind >= 98: // rekey -> keyreg
			return 24
		}
		return kind
	}
	registerObserver([]string{"C13"}, func(s *Sim) Observer { return newOnlineObs(s) })
}

type onKey struct {
	r    basics.Round
	addr basics.Address
}
type onCircKey struct{ r, vote basics.Round }

type onlineObs struct {
	NopObserver
	seen     map[onKey]basics.OnlineAccountData
	seenCirc map[onCircKey]basics.MicroAlgos
}

func newOnlineObs(s *Sim) *onlineObs {
	s.statInit("c13.lookup_checked", "c13.lookup_online", "c13.lookup_not_online_zero", "c13.lookup_history_round", "c13.lookup_memory_round", "c13.lookup_oldest_served_round",
		"c13.lookup_below_window_refused", "c13.lookup_below_window_answered", "c13.lookup_future_refused",
		"c13.account_went_offline_in_window", "c13.account_came_online_in_window", "c13.online_balance_changed_in_window", "c13.keys_expired_in_window",
		"c13.circ_checked", "c13.circ_expired_subtracted", "c13.circ_history_round", "c13.circ_memory_round", "c13.circ_round0",
		"c13.circ_below_window_refused", "c13.circ_below_window_answered",
		"c13.same_after_reload_checked", "c13.same_after_crash_checked", "c13.sweeps_after_reload", "c13.sweeps_after_crash",
		"c13.blocks_with_expired_list", "c13.blocks_with_absent_list", "c13.keyreg_online", "c13.keyreg_offline")
	return &onlineObs{seen: map[onKey]basics.OnlineAccountData{}, seenCirc: map[onCircKey]basics.MicroAlgos{}}
}

// Nontrivial implements NontrivialJudge: lookups reached rounds that are only in the tracker DB / the
// online-accounts cache, and expired stake was subtracted or an account left the online set inside the window.
func (o *onlineObs) Nontrivial(s *Sim) bool {
	return s.stats["c13.lookup_history_round"] > 0 && (s.stats["c13.circ_expired_subtracted"] > 0 || s.stats["c13.account_went_offline_in_window"] > 0)
}

func (o *onlineObs) BlockDone(s *Sim, prev, next *State, blk bookkeeping.Block, delta ledgercore.StateDelta) {
	if len(blk.ExpiredParticipationAccounts) > 0 {
		s.stat("c13.blocks_with_expired_list", 1)
	}
	if len(blk.AbsentParticipationAccounts) > 0 {
		s.stat("c13.blocks_with_absent_list", 1)
	}
	for _, a := range next.sortedAddrs() {
		was, is := prev.Accts[a].Status == basics.Online, next.Accts[a].Status == basics.Online
		if !was && is {
			s.stat("c13.keyreg_online", 1)
		}
		if was && !is {
			s.stat("c13.keyreg_offline", 1)
		}
	}
}

// onlineProjection is the expected LookupAgreement answer for addr at the reference state st.
func onlineProjection(st *State, addr basics.Address) basics.OnlineAccountData {
	ad, ok := st.Accts[addr]
	if !ok || ad.Status != basics.Online {
		return basics.OnlineAccountData{}
	}
	p := st.proto()
	money, _, _ := basics.WithUpdatedRewards(p.RewardUnit, ad.Status, ad.MicroAlgos, ad.RewardedMicroAlgos, ad.RewardsBase, st.Hdr.RewardsLevel)
	return basics.OnlineAccountData{
		MicroAlgosWithRewards: money,
		VotingData:            ad.VotingData,
		IncentiveEligible:     ad.IncentiveEligible,
		LastProposed:          ad.LastProposed,
		LastHeartbeat:         ad.LastHeartbeat,
	}
}

// refCirculation is the expected OnlineCirculation(r, voteRnd) and the expired part that was subtracted.
func refCirculation(st *State, voteRnd basics.Round) (total, expired uint64) {
	p := st.proto()
	for _, a := range st.sortedAddrs() {
		oad := onlineProjection(st, a)
		if st.Accts[a].Status != basics.Online {
			continue
		}
		total += oad.MicroAlgosWithRewards.Raw
		if oad.VoteLastValid != 0 && oad.VoteLastValid < voteRnd {
			expired += oad.MicroAlgosWithRewards.Raw
		}
	}
	if !p.ExcludeExpiredCirculation || st.Round == 0 {
		expired = 0
	}
	return total - expired, expired
}

func (o *onlineObs) window(s *Sim) (lo, dbr, hi basics.Round) {
	dbr, hi = s.led.LatestTrackerCommitted(), s.led.Latest()
	mbl := basics.Round(s.states[s.latest].proto().MaxBalLookback)
	lo = (dbr + 1).SubSaturate(mbl)
	return
}

func (o *onlineObs) checkLookup(s *Sim, r basics.Round, addr basics.Address, where string) {
	lo, dbr, hi := o.window(s)
	got, err := s.led.LookupAgreement(r, addr)
	desc := fmt.Sprintf("%s: LookupAgreement(%d, %s) with tracker db round %d, latest %d (online history served from round %d)", where, r, shortAddr(addr), dbr, hi, lo)
	if r > hi {
		if err == nil {
			s.violate("C13", "lookup-future-round-answered", "", fmt.Sprintf("%s: answered %+v for a round that does not exist yet", desc, got))
			return
		}
		s.stat("c13.lookup_future_refused", 1)
		return
	}
	st := s.states[r]
	if st == nil {
		return
	}
	want := onlineProjection(st, addr)
	if r < lo {
		if err != nil {
			s.stat("c13.lookup_below_window_refused", 1)
			return
		}
		s.stat("c13.lookup_below_window_answered", 1)
		if got != want {
			s.violate("C13", "lookup-wrong-below-window", "", fmt.Sprintf("%s: the round is older than the online history the ledger keeps, yet it answered %+v; history implies %+v (an error is acceptable, a wrong value is not)", desc, got, want))
		}
		return
	}
	s.stat("c13.lookup_checked", 1)
	if err != nil {
		s.violate("C13", "lookup-error-in-window", "", fmt.Sprintf("%s: error %v", desc, err))
		return
	}
	if got != want {
		s.violate("C13", "lookup-mismatch", "", fmt.Sprintf("%s = %+v, history implies %+v (account at that round: %+v, rewards level %d)", desc, got, want, st.Accts[addr], st.Hdr.RewardsLevel))
		return
	}
	o.seen[onKey{r, addr}] = got
	if want == (basics.OnlineAccountData{}) {
		s.stat("c13.lookup_not_online_zero", 1)
	} else {
		s.stat("c13.lookup_online", 1)
	}
	switch {
	case r == lo && lo > 0:
		s.stat("c13.lookup_oldest_served_round", 1)
		fallthrough
	case r < dbr:
		s.stat("c13.lookup_history_round", 1)
	default:
		s.stat("c13.lookup_memory_round", 1)
	}
}

func (o *onlineObs) checkCirc(s *Sim, r, voteRnd basics.Round, where string) {
	lo, dbr, hi := o.window(s)
	if r > hi {
		return
	}
	st := s.states[r]
	if st == nil {
		return
	}
	got, err := s.led.OnlineCirculation(r, voteRnd)
	desc := fmt.Sprintf("%s: OnlineCirculation(%d, voteRnd=%d) with tracker db round %d, latest %d (online history served from round %d)", where, r, voteRnd, dbr, hi, lo)
	want, expired := refCirculation(st, voteRnd)
	if r < lo {
		if err != nil {
			s.stat("c13.circ_below_window_refused", 1)
			return
		}
		s.stat("c13.circ_below_window_answered", 1)
		if got.Raw != want {
			s.violate("C13", "circulation-wrong-below-window", "", fmt.Sprintf("%s: the round is older than the online history the ledger keeps, yet it answered %d; history implies %d", desc, got.Raw, want))
		}
		return
	}
	s.stat("c13.circ_checked", 1)
	if err != nil {
		s.violate("C13", "circulation-error-in-window", "", fmt.Sprintf("%s: error %v", desc, err))
		return
	}
	if got.Raw != want {
		var on []string
		for _, a := range st.sortedAddrs() {
			if st.Accts[a].Status == basics.Online {
				oad := onlineProjection(st, a)
				on = append(on, fmt.Sprintf("%s:%d(lastvalid %d)", shortAddr(a), oad.MicroAlgosWithRewards.Raw, oad.VoteLastValid))
			}
		}
		s.violate("C13", "circulation-mismatch", "", fmt.Sprintf("%s = %d, history implies %d (online stake at round %d minus expired stake %d; online accounts: %v)", desc, got.Raw, want, r, expired, on))
		return
	}
	o.seenCirc[onCircKey{r, voteRnd}] = got
	if expired > 0 {
		s.stat("c13.circ_expired_subtracted", 1)
	}
	switch {
	case r == 0:
		s.stat("c13.circ_round0", 1)
	case r < dbr:
		s.stat("c13.circ_history_round", 1)
	default:
		s.stat("c13.circ_memory_round", 1)
	}
}

// windowProbes counts what happened to the online set inside the served window (reach).
func (o *onlineObs) windowProbes(s *Sim) {
	lo, _, hi := o.window(s)
	for _, a := range s.states[hi].sortedAddrs() {
		for r := lo + 1; r <= hi; r++ {
			p, n := s.states[r-1], s.states[r]
			if p == nil || n == nil {
				continue
			}
			pa, na := p.Accts[a], n.Accts[a]
			switch {
			case pa.Status == basics.Online && na.Status != basics.Online:
				s.stat("c13.account_went_offline_in_window", 1)
			case pa.Status != basics.Online && na.Status == basics.Online:
				s.stat("c13.account_came_online_in_window", 1)
			case pa.Status == basics.Online && pa.MicroAlgos != na.MicroAlgos:
				s.stat("c13.online_balance_changed_in_window", 1)
			}
			if na.Status == basics.Online && na.VoteLastValid != 0 && na.VoteLastValid == r {
				s.stat("c13.keys_expired_in_window", 1)
			}
		}
	}
}

func (o *onlineObs) sweep(s *Sim, rg *rand.Rand, where string, full bool) {
	if s.states[s.latest] == nil {
		return
	}
	lo, dbr, hi := o.window(s)
	p := s.states[s.latest].proto()
	look := basics.Round(2 * p.SeedRefreshInterval * p.SeedLookback) // agreement's balance lookback
	from := hi.SubSaturate(2 * look)
	// rounds: the window edges always, the rest sampled
	set := map[basics.Round]bool{lo: true, hi: true, dbr: true}
	if dbr > 0 {
		set[dbr-1] = true
	}
	if lo > 0 {
		set[lo-1] = true // just below the window: error or right value
	}
	if from < lo {
		set[from] = true
	}
	for r := from; r <= hi; r++ {
		if full || rg.IntN(3) == 0 {
			set[r] = true
		}
	}
	rounds := make([]basics.Round, 0, len(set))
	for r := range set {
		rounds = append(rounds, r)
	}
	sort.Slice(rounds, func(i, j int) bool { return rounds[i] < rounds[j] })
	rg.Shuffle(len(rounds), func(i, j int) { rounds[i], rounds[j] = rounds[j], rounds[i] })
	addrs := []basics.Address{}
	for _, a := range Accounts() {
		addrs = append(addrs, a.Addr)
	}
	addrs = append(addrs, sinkAddr, poolAddr)
	for _, r := range rounds {
		order := rg.Perm(len(addrs))
		for _, i := range order {
			if !full && rg.IntN(4) == 0 {
				continue
			}
			o.checkLookup(s, r, addrs[i], where)
			if s.viol != nil {
				return
			}
		}
		votes := []basics.Round{r, r + look, r + basics.Round(rg.IntN(int(look)+1))}
		if full {
			votes = votes[:0]
			for v := r; v <= r+look; v++ {
				votes = append(votes, v)
			}
		}
		for _, v := range votes {
			o.checkCirc(s, r, v, where)
			if s.viol != nil {
				return
			}
		}
	}
	o.checkLookup(s, hi+1, addrs[rg.IntN(len(addrs))], where)
	o.windowProbes(s)
}

// AfterBlock implements PostBlock.
func (o *onlineObs) AfterBlock(s *Sim, qseed uint64) {
	// forget answers for rounds that left every window
	for k := range o.seen {
		if k.r+40 < s.latest {
			delete(o.seen, k)
		}
	}
	for k := range o.seenCirc {
		if k.r+40 < s.latest {
			delete(o.seenCirc, k)
		}
	}
	o.sweep(s, rand.New(rand.NewPCG(qseed, 0xC13)), "after-block", false)
}

// AfterReopen implements PostReopen: first the remembered answers (same answer across restarts for
// rounds that survived and are still served), then a full sweep.
func (o *onlineObs) AfterReopen(s *Sim, why string) {
	site := why
	if strings.HasPrefix(why, "crash") {
		why = "crash" // "crash@<site>": a crash inside a block write / tracker commit
	}
	lo, dbr, hi := o.window(s)
	keys := make([]onKey, 0, len(o.seen))
	for k := range o.seen {
		if k.r > hi {
			delete(o.seen, k) // the crash lost that block
			continue
		}
		if k.r >= lo {
			keys = append(keys, k)
		}
	}
	sort.Slice(keys, func(i, j int) bool {
		if keys[i].r != keys[j].r {
			return keys[i].r < keys[j].r
		}
		return string(keys[i].addr[:]) < string(keys[j].addr[:])
	})
	for _, k := range keys {
		got, err := s.led.LookupAgreement(k.r, k.addr)
		s.stat("c13.same_after_"+why+"_checked", 1)
		if err != nil || got != o.seen[k] {
			s.violate("C13", "answer-changed-across-restart", why, fmt.Sprintf("after %s: LookupAgreement(%d, %s) = %+v (error %v), before the restart the same ledger answered %+v (tracker db round %d, latest %d, online history from round %d)", why, k.r, shortAddr(k.addr), got, err, o.seen[k], dbr, hi, lo))
			return
		}
	}
	ck := make([]onCircKey, 0, len(o.seenCirc))
	for k := range o.seenCirc {
		if k.r > hi {
			delete(o.seenCirc, k)
			continue
		}
		if k.r >= lo {
			ck = append(ck, k)
		}
	}
	sort.Slice(ck, func(i, j int) bool {
		if ck[i].r != ck[j].r {
			return ck[i].r < ck[j].r
		}
		return ck[i].vote < ck[j].vote
	})
	for _, k := range ck {
		got, err := s.led.OnlineCirculation(k.r, k.vote)
		s.stat("c13.same_after_"+why+"_checked", 1)
		if err != nil || got != o.seenCirc[k] {
			s.violate("C13", "answer-changed-across-restart", why, fmt.Sprintf("after %s: OnlineCirculation(%d, %d) = %d (error %v), before the restart the same ledger answered %d (tracker db round %d, latest %d, online history from round %d)", why, k.r, k.vote, got.Raw, err, o.seenCirc[k].Raw, dbr, hi, lo))
			return
		}
	}
	s.stat("c13.sweeps_after_"+why, 1)
	o.sweep(s, rand.New(rand.NewPCG(uint64(s.step)<<16|uint64(s.latest), 0xC13A)), "after-"+site, true)
}
