package ledgersim

import (
	"errors"
	"fmt"
	"math/rand/v2"
	"os"
	"runtime"
	"sort"
	"strings"
	"testing/synctest"
	"time"

	"github.com/algorand/go-algorand/agreement"
	"github.com/algorand/go-algorand/config"
	"github.com/algorand/go-algorand/crypto"
	"github.com/algorand/go-algorand/data/basics"
	"github.com/algorand/go-algorand/data/bookkeeping"
	"github.com/algorand/go-algorand/data/committee"
	"github.com/algorand/go-algorand/data/pools"
	"github.com/algorand/go-algorand/data/transactions"
	"github.com/algorand/go-algorand/data/transactions/verify"
	"github.com/algorand/go-algorand/ledger"
	"github.com/algorand/go-algorand/ledger/eval"
	"github.com/algorand/go-algorand/ledger/ledgercore"
)

// C20 / C44: the block proposer of these runs is a REAL data/pools.TransactionPool over the primary
// ledger (DESIGN.md §4 C20, C44).
//
// Per step (one block):
//   ExtraGroups    plans the round: the batch of groups submitted to the pool (the generator's groups
//                  plus duplicates, double spends, balance-exhausting payments, lease pairs, dependent
//                  chains, short-lived / not-yet-valid / expired / badly signed groups) and whether this
//                  round's block is proposed by this node (from the pool) or by "another node" (foreign:
//                  the driver's own evaluator over other groups, some of them also pending in the pool,
//                  some conflicting with pending groups).
//   ProposeBlock   (BlockProposer, the one hook added to the driver) feeds the batch through
//                  verify.TxnGroup + pool.Remember like the node's transaction handler does, checks the
//                  C44 oracle, and on a local round takes pool.AssembleBlock(next, deadline), finishes the
//                  block the way agreement.proposalForBlock does and hands it to the driver.
//   TamperBlock    C20 oracle (obs_pool_c20.go): the block about to be validated is evaluated through
//                  six code paths on two ledgers and the canonical results are compared.
//   BlockDone      records committed txids, feeds the replica, optionally starts AssembleBlock for the
//                  NEXT round before the pool hears of this block (so that the assembly deadline logic
//                  runs inside recomputeBlockEvaluator), delivers pool.OnNewBlock(block, delta) exactly as
//                  ledger/notifier.go does, and checks the C44 oracle at the quiescent point after it.
//   AfterReopen    a new ledger incarnation gets a new pool; the groups that were pending are submitted
//                  again (as re-gossiped transactions), the committed-txid map is cut back to the prefix
//                  that survived.
//
// Time: condvar.TimedWait (used by AssembleBlock and by ingest) sleeps with a real nanosleep(2) on
// Linux, which the bubble's fake clock cannot see. The harness therefore never lets a waiter depend
// on the fake clock advancing: AssembleBlock is either called when the pool is caught up (returns
// at once), or with a deadline in the past, or before OnNewBlock with a deadline of 2ms + k x 2155ns
// (the pool's own estimate of GenerateBlock's duration grows by 2155ns per transaction, so k decides
// after how many transactions recomputeBlockEvaluator declares the assembly timed out) - and in that
// case OnNewBlock is delivered as soon as the assembling goroutine is parked (VerifAssemblyRound).

// BlockProposer (optional): asked once per block after ExtraGroups; if it returns ok the driver uses
// that block instead of evaluating the candidates itself (everything after that - TamperBlock,
// Validate, add, fold of the validated delta - is unchanged).
type BlockProposer interface {
	ProposeBlock(s *Sim, g *Gen, cands []Candidate, hdr bookkeeping.BlockHeader) (blk *bookkeeping.Block, ok bool)
}

// poolDrawn carries the cfg-prefix draws of the current run from cfgTweaks to the observer factory
// (runs are sequential inside a worker process).
var poolDrawn struct {
	size       int
	foreignPct int
	race       bool
	blockBytes int
}

// poolProtoBytes is SimProto's own MaxTxnBytesPerBlock (remembered the first time a pool run changes it).
var poolProtoBytes int

func init() {
	for _, p := range []string{"C20", "C44"} {
		cfgTweaks[p] = func(c *Config, draw func(string, int, int) int) {
			poolDrawn.size = draw("cfg.pool.size", 8, 30)
			poolDrawn.foreignPct = []int{15, 30, 50}[draw("cfg.pool.foreign", 0, 2)]
			poolDrawn.race = draw("cfg.pool.race", 0, 3) == 3
			// 0 = the protocol's block size (never reached with <=30 pending transactions); otherwise blocks
			// of a few kilobytes, so that the pending set spans several blocks (ErrNoSpace, numPendingWholeBlocks,
			// the pool's fee escalation, assembly stopped because the block is full)
			poolDrawn.blockBytes = []int{0, 0, 2600, 6000}[draw("cfg.pool.blockbytes", 0, 3)]
			if c.MaxGroups < 3 {
				c.MaxGroups = 3
			}
			// park points stop a tracker commit half-way; a pool evaluation started by the scheduler
			// goroutine meanwhile would wait for that commit forever. Not part of these properties.
			c.WPark = 0
		}
	}
	registerObserver([]string{"C20", "C44"}, func(s *Sim) Observer { return newPoolObs(s) })
	propBias["C44"] = "pool"
	kindRemap["pool"] = func(g *Gen, kind int) int {
		// more than half of the base workload are payments (senders near their minimum balance after the
		// draining payments below, leases, short validity windows); the rest keeps the full mix
		if g.n(100) < 45 {
			return g.n(22)
		}
		return kind
	}
}

type poolSub struct {
	Txns []transactions.SignedTxn
	Kind string
}

type poolPlan struct {
	foreign  bool
	batch    []poolSub
	pre      int // 0 none, 1 early (AssembleBlock before OnNewBlock, drawn cut), 2 late-empty (deadline already passed before OnNewBlock)
	cutAfter int // early: the assembly "times out" once more than this many transactions are in the payset
	race     bool
	seed2    uint64
}

type preAssembled struct {
	round basics.Round
	ub    *ledgercore.UnfinishedBlock
	err   error
	mode  string
}

type poolObs struct {
	NopObserver
	s          *Sim
	size       int
	fpct       int
	raceOK     bool
	blockBytes int
	raced      int
	pool       *pools.TransactionPool
	poolLed    *ledger.Ledger
	// committed: txid -> round, from the blocks the driver added (rolled back with them)
	committed map[transactions.Txid]basics.Round
	recent    [][]transactions.SignedTxn // groups committed in the last few blocks
	parts     map[basics.Round][]basics.Address
	plan      *poolPlan
	pre       *preAssembled
	c20, c44  bool // which property this run decides: each run asserts only its own oracles
	local     bool // the block being added was assembled from the pool
	localElig bool
	rep       *poolReplica

	// non-triviality
	nRememberOK, nRememberRej, nEvicted, nForeignCommittedPending, nReplayed, nLocalNonEmpty, nKway, nKwayNonEmpty, nLocalValidated int
}

func newPoolObs(s *Sim) *poolObs {
	o := &poolObs{s: s, c20: s.cfg.Prop == "C20", c44: s.cfg.Prop == "C44", size: poolDrawn.size, fpct: poolDrawn.foreignPct, raceOK: poolDrawn.race,
		committed: map[transactions.Txid]basics.Round{}, parts: map[basics.Round][]basics.Address{}}
	// The simulated consensus version is private to this process and a worker process runs one property
	// only; the block size is set before the first ledger of the run is opened (no reader exists yet).
	cp := config.Consensus[SimProto]
	if poolProtoBytes == 0 {
		poolProtoBytes = cp.MaxTxnBytesPerBlock
	}
	cp.MaxTxnBytesPerBlock = poolProtoBytes
	if poolDrawn.blockBytes > 0 {
		cp.MaxTxnBytesPerBlock = poolDrawn.blockBytes
	}
	config.Consensus[SimProto] = cp
	o.blockBytes = poolDrawn.blockBytes
	s.statInit("pool.local_blocks", "pool.local_nonempty", "pool.local_empty", "pool.foreign_blocks", "pool.pre_early", "pool.pre_cut", "pool.pre_late_empty",
		"pool.race_remember", "pool.remember_ok", "pool.remember_rejected", "pool.verify_rejected", "pool.reject.queue_full", "pool.reject.overspend",
		"pool.reject.lease", "pool.reject.in_ledger", "pool.reject.dead", "pool.reject.early", "pool.evicted", "pool.evict.overspend", "pool.evict.lease",
		"pool.evict.dead", "pool.foreign_committed_pending", "pool.recreated", "pool.carried_over")
	if o.c44 {
		s.statInit("pool.size_limit_reached", "c44.checks", "c44.replayed_groups", "c44.admission_checked", "c44.replay_block_full", "pool.reject.fee", "pool.reject.no_space")
	}
	if o.c20 {
		s.statInit("c20.kway", "c20.kway_nonempty", "c20.local_validated", "c20.replica_validated", "c20.order_differs", "pool.replica_reload", "pool.replica_crash", "pool.replica_rebuild")
	}
	return o
}

// VotingAccountsForRound: the accounts this node holds participation keys for = every main account
// that is online at the reference state of the latest block (a superset of the eligible proposers,
// like node.VotingAccountsForRound).
func (o *poolObs) VotingAccountsForRound(r basics.Round) []basics.Address {
	st := o.s.states[o.s.latest]
	var l []basics.Address
	if st != nil {
		for _, a := range mainAccts() {
			if ad, ok := st.Accts[a.Addr]; ok && ad.Status == basics.Online {
				l = append(l, a.Addr)
			}
		}
	}
	o.parts[r] = l
	return l
}

func (o *poolObs) makePool(s *Sim) {
	cfg := s.lcfg
	cfg.TxPoolSize = o.size
	o.pool = pools.MakeTransactionPool(s.led, cfg, s.logger(), o)
	o.poolLed = s.led
	o.pre = nil
	synctest.Wait()
	s.stat("pool.recreated", 1)
	s.log.Add("  pool: new TransactionPool over the ledger at block %d (TxPoolSize %d, MaxTxnBytesPerBlock %d, foreign rounds %d%%)", s.latest, o.size, config.Consensus[SimProto].MaxTxnBytesPerBlock, o.fpct)
}

// ---------------------------------------------------------------------------------------------
// planning (ExtraGroups) and proposing
// ---------------------------------------------------------------------------------------------

func (o *poolObs) ExtraGroups(s *Sim, g *Gen, ev *eval.BlockEvaluator, hdr *bookkeeping.BlockHeader, cands []Candidate) []Candidate {
	if o.pool == nil || o.poolLed != s.led {
		o.makePool(s)
	}
	if o.rep == nil && o.c20 {
		o.startReplica(s, g)
		if s.harness != "" {
			return cands
		}
	}
	p := &poolPlan{}
	o.plan = p
	p.foreign = g.n(100) < o.fpct
	pend := o.pool.PendingTxGroups()
	p.batch = o.buildBatch(s, g, cands, pend)
	switch x := g.n(100); {
	case x < 25:
		p.pre = 1
		// the pending set after this batch decides how many transactions the next block could hold
		p.cutAfter = g.n(8)
		if g.n(2) == 0 {
			p.cutAfter = g.n(o.size + 2)
		}
		if g.n(4) == 0 {
			p.cutAfter = 4 * o.size // never cut (the deadline stays within a fraction of a millisecond of 2ms: TimedWait sleeps in real time)
		}
	case x < 32:
		p.pre = 2
	}
	p.race = o.raceOK && o.raced < 1 && g.n(12) == 0
	p.seed2 = g.r.Uint64()
	if !p.foreign {
		return cands
	}
	return o.buildForeign(s, g, p.batch, pend)
}

func plSeed(r basics.Round) committee.Seed {
	var seed committee.Seed
	sh := crypto.Hash([]byte(fmt.Sprintf("seed-%d", r)))
	copy(seed[:], sh[:])
	return seed
}

// payoutEligible mirrors agreement.payoutEligible (agreement/proposal.go).
func (o *poolObs) payoutEligible(s *Sim, rnd basics.Round, proposer basics.Address, cparams config.ConsensusParams) (bool, error) {
	balanceRound := agreement.BalanceRound(rnd, cparams)
	rec, err := s.led.LookupAgreement(balanceRound, proposer)
	if err != nil {
		return false, err
	}
	bh, err := s.led.BlockHdr(balanceRound) // data.Ledger.ConsensusParams(r)
	if err != nil {
		return false, err
	}
	bp := config.Consensus[bh.CurrentProtocol]
	return rec.IncentiveEligible && rec.MicroAlgosWithRewards.Raw >= bp.Payouts.MinBalance && rec.MicroAlgosWithRewards.Raw <= bp.Payouts.MaxBalance, nil
}

func (o *poolObs) ProposeBlock(s *Sim, g *Gen, cands []Candidate, hdr bookkeeping.BlockHeader) (*bookkeeping.Block, bool) {
	o.local = false
	p := o.plan
	if p == nil || o.pool == nil || s.harness != "" {
		return nil, false
	}
	o.submitBatch(s, p.batch)
	if s.viol != nil || s.harness != "" {
		return nil, false
	}
	o.checkPending(s, "after-remember")
	if s.viol != nil {
		return nil, false
	}
	next := s.latest + 1
	if p.foreign {
		o.pre = nil
		s.stat("pool.foreign_blocks", 1)
		s.log.Add("  pool: round %d is proposed by another node (%d candidate groups)", next, len(cands))
		return nil, false
	}
	var ub *ledgercore.UnfinishedBlock
	var err error
	mode := "direct"
	if o.pre != nil && o.pre.round == next {
		ub, err, mode = o.pre.ub, o.pre.err, o.pre.mode
	} else {
		// the pool has processed every block of the ledger: AssembleBlock returns the block generated at
		// the end of the last recomputeBlockEvaluator without waiting, whatever the deadline
		d := []time.Duration{500 * time.Millisecond, 250 * time.Millisecond, time.Millisecond, 0}[g.n(4)]
		if ok, rr := o.pool.VerifAssemblyState(); !ok || rr != next {
			// AssembleBlock would wait for a deadline on the real clock (see the note on time above)
			s.harness = fmt.Sprintf("the pool holds no assembled block for round %d although it was told about block %d (ok=%v round=%d)", next, s.latest, ok, rr)
			return nil, false
		}
		ub, err = o.pool.AssembleBlock(next, time.Now().Add(d))
	}
	o.pre = nil
	if err != nil || ub == nil {
		// the node would not propose in this round (agreement treats it as "no proposal")
		s.harness = fmt.Sprintf("pool.AssembleBlock(%d) [%s] failed although the pool had processed block %d: %v", next, mode, s.latest, err)
		return nil, false
	}
	if ub.Round() != next {
		s.violate("C20", "assembled-wrong-round", "", fmt.Sprintf("AssembleBlock(%d) returned a block for round %d", next, ub.Round()))
		return nil, false
	}
	parts := o.parts[next]
	if len(parts) == 0 {
		// this node holds no participation key for the round: it cannot propose; somebody else does
		s.stat("pool.no_proposer_key", 1)
		s.stat("pool.foreign_blocks", 1)
		return nil, false
	}
	prp := parts[g.n(len(parts))]
	if !ub.ContainsAddress(prp) {
		s.violate("C20", "proposer-missing-in-assembled-block", "", fmt.Sprintf("round %d: the assembled block lacks the end-of-block state of voting account %s returned by VotingAccountsForRound", next, shortAddr(prp)))
		return nil, false
	}
	cparams := config.Consensus[ub.UnfinishedBlock().CurrentProtocol]
	elig, err := o.payoutEligible(s, next, prp, cparams)
	if err != nil {
		s.harness = "payoutEligible: " + err.Error()
		return nil, false
	}
	blk := ub.FinishBlock(plSeed(next), prp, elig)
	o.local, o.localElig = true, elig
	s.stat("pool.local_blocks", 1)
	if len(blk.Payset) > 0 {
		s.stat("pool.local_nonempty", 1)
		o.nLocalNonEmpty++
	} else {
		s.stat("pool.local_empty", 1)
	}
	ngr := 0
	if gs, e := blk.DecodePaysetGroups(); e == nil {
		ngr = len(gs)
	}
	s.stat("group_accepted", int64(ngr))
	s.stat("txn_accepted", int64(len(blk.Payset)))
	s.log.Add("  pool: assembled r%d mode=%s groups=%d txns=%d proposer=%s eligible=%v", next, mode, ngr, len(blk.Payset), shortAddr(prp), elig)
	return &blk, true
}

// ---------------------------------------------------------------------------------------------
// feeding the pool
// ---------------------------------------------------------------------------------------------

func classifyMsg(m string) string {
	for _, kv := range [][2]string{{"reached capacity", "queue_full"}, {"overspend", "overspend"}, {"below min", "below_min"}, {"already in ledger", "in_ledger"},
		{"using an overlapping lease", "lease"}, {"lease", "lease"}, {"txn dead", "dead"}, {"should have been authorized", "auth"}, {"fee", "fee"}} {
		if strings.Contains(m, kv[0]) {
			return kv[1]
		}
	}
	return "other"
}

func classifyPoolErr(err error) string {
	if errors.Is(err, pools.ErrPendingQueueReachedMaxCap) {
		return "queue_full"
	}
	if errors.Is(err, pools.ErrNoPendingBlockEvaluator) {
		return "no_evaluator"
	}
	if errors.Is(err, ledgercore.ErrNoSpace) {
		return "no_space"
	}
	var fe *pools.ErrTxPoolFeeError
	if errors.As(err, &fe) {
		return "fee"
	}
	var de *bookkeeping.TxnDeadError
	if errors.As(err, &de) {
		if de.Early {
			return "early"
		}
		return "dead"
	}
	var il *ledgercore.TransactionInLedgerError
	if errors.As(err, &il) {
		return "in_ledger"
	}
	var le *ledgercore.LeaseInLedgerError
	if errors.As(err, &le) {
		return "lease"
	}
	return classifyMsg(err.Error())
}

func (o *poolObs) latestHdr(s *Sim) (bookkeeping.BlockHeader, bool) {
	h, err := s.led.BlockHdr(s.latest)
	if err != nil {
		s.harness = "BlockHdr(latest): " + err.Error()
		return h, false
	}
	return h, true
}

// freshEvaluator is the evaluator of the C44 definition: a new BlockEvaluator for the round after the
// latest block of the primary ledger (the same header the pool derives: bookkeeping.MakeBlock(prev)).
func (o *poolObs) freshEvaluator(s *Sim, hint int) *eval.BlockEvaluator {
	prev, ok := o.latestHdr(s)
	if !ok {
		return nil
	}
	hdr := bookkeeping.MakeBlock(prev).BlockHeader
	hdr.TimeStamp = prev.TimeStamp // always inside the window validators accept, whatever the clock says
	ev, err := eval.StartEvaluator(s.led, hdr, eval.EvaluatorOptions{PaysetHint: hint, Generate: true, Validate: true})
	if err != nil {
		s.harness = "C44 replay: StartEvaluator: " + err.Error()
		return nil
	}
	return ev
}

// applyGroup evaluates one group on the replay evaluator. Block space is not ledger state: when the block
// under construction is full the pool starts counting a further block (ResetTxnBytes) and evaluates the
// group again; the replay does the same.
func (o *poolObs) applyGroup(s *Sim, ev *eval.BlockEvaluator, grp []transactions.SignedTxn) error {
	err := ev.TransactionGroup(transactions.WrapSignedTxnsWithAD(grp)...)
	if err == ledgercore.ErrNoSpace {
		s.stat("c44.replay_block_full", 1)
		ev.ResetTxnBytes()
		err = ev.TransactionGroup(transactions.WrapSignedTxnsWithAD(grp)...)
	}
	return err
}

// replay feeds the pool's pending groups IN ORDER to a fresh evaluator; every group must be accepted.
func (o *poolObs) replay(s *Sim, where string, pg [][]transactions.SignedTxn) *eval.BlockEvaluator {
	ev := o.freshEvaluator(s, len(pg))
	if ev == nil {
		return nil
	}
	for i, grp := range pg {
		if err := o.applyGroup(s, ev, grp); err != nil {
			s.violate("C44", "pending-unappliable", "", fmt.Sprintf("%s (latest block %d): pending group #%d of %d (first txid %s, %d txns, valid %d-%d) is rejected when the pending groups are replayed in order on a fresh evaluator for round %d: %v",
				where, s.latest, i, len(pg), grp[0].ID().String()[:8], len(grp), grp[0].Txn.FirstValid, grp[0].Txn.LastValid, s.latest+1, err))
			return nil
		}
		s.stat("c44.replayed_groups", 1)
		o.nReplayed++
	}
	return ev
}

// checkPending is the C44 oracle at a quiescent point.
func (o *poolObs) checkPending(s *Sim, where string) *eval.BlockEvaluator {
	if s.viol != nil || s.harness != "" || o.pool == nil || !o.c44 {
		return nil
	}
	pg := o.pool.PendingTxGroups()
	s.stat("c44.checks", 1)
	next := s.latest + 1
	seen := map[transactions.Txid]int{}
	leases := map[string]transactions.SignedTxn{}
	n := 0
	for gi, grp := range pg {
		if len(grp) == 0 {
			s.violate("C44", "empty-group-pending", "", fmt.Sprintf("%s: pending group #%d is empty", where, gi))
			return nil
		}
		for _, tx := range grp {
			id := tx.ID()
			n++
			if prev, dup := seen[id]; dup {
				s.violate("C44", "txid-twice", "", fmt.Sprintf("%s (latest block %d): transaction %s is pending twice (groups #%d and #%d of %d)", where, s.latest, id.String()[:8], prev, gi, len(pg)))
				return nil
			}
			seen[id] = gi
			if r, ok := o.committed[id]; ok {
				s.violate("C44", "pending-committed", "", fmt.Sprintf("%s (latest block %d): transaction %s is pending in the pool (group #%d) but was committed in block %d", where, s.latest, id.String()[:8], gi, r))
				return nil
			}
			if tx.Txn.Lease != ([32]byte{}) {
				// independent of the evaluator's own duplicate check: two pending transactions of one sender under one
				// lease can never both commit (the first to commit in round r >= next holds the lease through its
				// LastValid >= r, and the other is evaluated after it in the same or a later block while it is pending)
				lk := string(tx.Txn.Sender[:]) + string(tx.Txn.Lease[:])
				if prev, dup := leases[lk]; dup {
					s.violate("C44", "lease-held-twice", "", fmt.Sprintf("%s (latest block %d): pending transactions %s (last valid %d) and %s (last valid %d) of %s hold the same lease %x", where, s.latest, prev.ID().String()[:8], prev.Txn.LastValid, id.String()[:8], tx.Txn.LastValid, shortAddr(tx.Txn.Sender), tx.Txn.Lease[:2]))
					return nil
				}
				leases[lk] = tx
			}
			if tx.Txn.LastValid < next {
				s.violate("C44", "expired-kept", "", fmt.Sprintf("%s (latest block %d): pending transaction %s has LastValid %d < next round %d", where, s.latest, id.String()[:8], tx.Txn.LastValid, next))
				return nil
			}
		}
	}
	if n > o.size {
		s.violate("C44", "size-exceeded", "", fmt.Sprintf("%s (latest block %d): the pool holds %d transactions in %d groups, configured TxPoolSize is %d", where, s.latest, n, len(pg), o.size))
		return nil
	}
	if pc := o.pool.PendingCount(); pc != n {
		s.violate("C44", "pending-count-mismatch", "", fmt.Sprintf("%s: PendingCount() = %d but PendingTxGroups() holds %d transactions", where, pc, n))
		return nil
	}
	if n == o.size {
		s.stat("pool.size_limit_reached", 1)
	}
	return o.replay(s, where, pg)
}

// submitBatch plays the node's transaction handler: signature / well-formedness verification against
// the latest header (sharing the ledger's verified-transaction cache), then pool.Remember. Oracle
// (C44, admission): the pending groups replayed on a fresh evaluator plus every admitted group, in
// admission order, must all be accepted - "a group it admits is one the ledger would accept on top
// of the pending groups".
func (o *poolObs) submitBatch(s *Sim, batch []poolSub) {
	hdr, ok := o.latestHdr(s)
	if !ok {
		return
	}
	rev := o.checkPending(s, "before-remember")
	if rev == nil && o.c44 {
		return
	}
	acc, rej, vrej := 0, 0, 0
	var res []string
	for _, sub := range batch {
		if _, err := verify.TxnGroup(sub.Txns, &hdr, s.led.VerifiedTransactionCache(), s.led); err != nil {
			vrej++
			s.stat("pool.verify_rejected", 1)
			res = append(res, sub.Kind+":V")
			continue
		}
		err := o.pool.Remember(sub.Txns)
		if err != nil {
			rej++
			o.nRememberRej++
			c := classifyPoolErr(err)
			s.stat("pool.remember_rejected", 1)
			s.stat("pool.reject."+c, 1)
			s.stat("pool.kind."+sub.Kind+".rejected", 1)
			res = append(res, sub.Kind+":"+c)
			continue
		}
		acc++
		o.nRememberOK++
		s.stat("pool.remember_ok", 1)
		s.stat("pool.kind."+sub.Kind+".ok", 1)
		res = append(res, sub.Kind+":ok")
		if !o.c44 {
			continue
		}
		s.stat("c44.admission_checked", 1)
		if e := o.applyGroup(s, rev, sub.Txns); e != nil {
			s.violate("C44", "admitted-unappliable", "", fmt.Sprintf("latest block %d: Remember admitted a %q group (first txid %s, %d txns) that a fresh evaluator for round %d rejects on top of the pending groups: %v",
				s.latest, sub.Kind, sub.Txns[0].ID().String()[:8], len(sub.Txns), s.latest+1, e))
			return
		}
		if pc := o.pool.PendingCount(); pc > o.size {
			s.violate("C44", "size-exceeded", "", fmt.Sprintf("latest block %d: after admitting a group of %d the pool holds %d transactions, configured TxPoolSize is %d", s.latest, len(sub.Txns), pc, o.size))
			return
		}
	}
	s.log.Add("  pool: batch of %d -> admitted %d, rejected %d, failed verification %d, pending %d/%d [%s]", len(batch), acc, rej, vrej, o.pool.PendingCount(), o.size, strings.Join(res, " "))
}

// ---------------------------------------------------------------------------------------------
// after the block: OnNewBlock and the races around it
// ---------------------------------------------------------------------------------------------

func (o *poolObs) GroupResult(s *Sim, ev *eval.BlockEvaluator, c Candidate, stage string, err error) {
	if err == nil {
		s.stat("pool.foreign_group_committed", 1)
	}
}

func (o *poolObs) BlockDone(s *Sim, prev, next *State, blk bookkeeping.Block, delta ledgercore.StateDelta) {
	r := blk.Round()
	groups, err := blk.DecodePaysetGroups()
	if err != nil {
		s.harness = "DecodePaysetGroups: " + err.Error()
		return
	}
	inBlock := map[transactions.Txid]bool{}
	for _, grp := range groups {
		var l []transactions.SignedTxn
		for _, t := range grp {
			id := t.SignedTxn.ID()
			o.committed[id] = r
			inBlock[id] = true
			l = append(l, t.SignedTxn)
		}
		o.recent = append(o.recent, l)
	}
	if len(o.recent) > 24 {
		o.recent = o.recent[len(o.recent)-24:]
	}
	if o.local {
		o.nLocalValidated++
	}
	o.feedReplica(s, blk)
	if s.viol != nil || s.harness != "" || o.pool == nil {
		return
	}
	p := o.plan
	if p == nil {
		p = &poolPlan{}
	}
	before := o.pool.PendingTxGroups()
	// --- AssembleBlock for the next round, asked before the pool has heard of this block
	var preCh chan *preAssembled
	switch p.pre {
	case 1:
		preCh = make(chan *preAssembled, 1)
		deadline := time.Now().Add(2*time.Millisecond + time.Duration(p.cutAfter)*2155*time.Nanosecond + 1000*time.Nanosecond)
		pool := o.pool
		go func() {
			ub, err := pool.AssembleBlock(r+1, deadline)
			preCh <- &preAssembled{round: r + 1, ub: ub, err: err, mode: "early"}
		}()
		for pool.VerifAssemblyRound() != r+1 {
			runtime.Gosched()
		}
		s.stat("pool.pre_early", 1)
	case 2:
		// agreement asks for a proposal, the deadline is over before the pool is told about the block:
		// the pool must hand out an empty block built on the ledger's latest block
		ub, err := o.pool.AssembleBlock(r+1, time.Now())
		o.pre = &preAssembled{round: r + 1, ub: ub, err: err, mode: "late-empty"}
		s.stat("pool.pre_late_empty", 1)
		if err == nil && ub != nil && len(ub.UnfinishedBlock().Payset) != 0 {
			s.violate("C20", "stale-assembly", "", fmt.Sprintf("AssembleBlock(%d) with an expired deadline, before the pool processed block %d, returned a block with %d transactions (it can only have been evaluated on top of block %d)", r+1, r, len(ub.UnfinishedBlock().Payset), r-1))
			return
		}
	}
	// --- Remember racing OnNewBlock: the ledger has the block, the pool does not yet
	var raceCh chan error
	var raceGrp []transactions.SignedTxn
	if p.race {
		g2 := newGen(p.seed2, next, s.init.GenesisHash, &s.uniq, "")
		if snd := g2.plSender(nil); snd != nil {
			raceGrp = g2.plPay(snd.Addr, g2.anyAcct().Addr, uint64(1+g2.n(1000)), g2.next, g2.next+basics.Round(2+g2.n(4)), 0)
			raceCh = make(chan error, 1)
			pool := o.pool
			go func() { raceCh <- pool.Remember(raceGrp) }()
			for i := 0; i < 64; i++ {
				runtime.Gosched()
			}
			o.raced++
			s.stat("pool.race_remember", 1)
		}
	}
	// --- the notification, as ledger/notifier.go delivers it: listener.OnNewBlock(blk.block, blk.delta)
	o.pool.OnNewBlock(blk, delta)
	if ok, rr := o.pool.VerifAssemblyState(); !ok || rr != r+1 {
		msg := fmt.Sprintf("after OnNewBlock(%d) the pool holds no assembled block for round %d (ok=%v round=%d): its evaluator could not be restarted", r, r+1, ok, rr)
		if preCh != nil {
			// an AssembleBlock call is waiting for that block on the real clock and cannot be released:
			// leave the process (the driver reports a harness error, never a verdict)
			fmt.Fprintln(os.Stderr, "HARNESS: "+msg)
			os.Exit(2)
		}
		s.harness = msg
		return
	}
	synctest.Wait()
	if preCh != nil {
		o.pre = <-preCh
	}
	if raceCh != nil {
		err := <-raceCh
		if err == nil {
			o.nRememberOK++
			s.stat("pool.remember_ok", 1)
		} else {
			s.stat("pool.remember_rejected", 1)
			s.stat("pool.reject."+classifyPoolErr(err), 1)
		}
		s.log.Add("  pool: Remember racing OnNewBlock(%d): admitted=%v", r, err == nil)
	}
	// --- what did OnNewBlock drop?
	after := o.pool.PendingTxGroups()
	still := map[transactions.Txid]bool{}
	for _, grp := range after {
		for _, t := range grp {
			still[t.ID()] = true
		}
	}
	nc, ne := 0, 0
	var why []string
	for _, grp := range before {
		id := grp[0].ID()
		if still[id] {
			continue
		}
		if inBlock[id] {
			nc++
			if !o.local {
				o.nForeignCommittedPending++
				s.stat("pool.foreign_committed_pending", 1)
			}
			continue
		}
		ne++
		o.nEvicted++
		s.stat("pool.evicted", 1)
		_, msg, found := o.pool.Lookup(id)
		c := "unknown"
		if found {
			c = classifyMsg(msg)
		}
		s.stat("pool.evict."+c, 1)
		why = append(why, c)
	}
	npre := -1
	if o.pre != nil && o.pre.round == r+1 && o.pre.err == nil && o.pre.ub != nil {
		npre = len(o.pre.ub.UnfinishedBlock().Payset)
		nafter := 0
		for _, grp := range after {
			nafter += len(grp)
		}
		if o.pre.mode == "early" && npre < nafter-len(raceGrp) {
			s.stat("pool.pre_cut", 1)
		}
	}
	s.log.Add("  pool: OnNewBlock(%d) local=%v: pending %d -> %d groups (committed %d, evicted %d %v) pre-assembled next=%d", r, o.local, len(before), len(after), nc, ne, why, npre)
	o.checkPending(s, "after-OnNewBlock")
}

func (o *poolObs) AfterReopen(s *Sim, why string) {
	for id, r := range o.committed {
		if r > s.latest {
			delete(o.committed, id)
		}
	}
	for r := range o.parts {
		if r > s.latest+1 {
			delete(o.parts, r)
		}
	}
	o.recent = nil
	var carry [][]transactions.SignedTxn
	if o.pool != nil {
		carry = o.pool.PendingTxGroups()
	}
	o.plan = nil
	o.makePool(s)
	// the transactions that were pending reach the restarted node again (gossip); some of them may now
	// be committed, expired or - after a crash that lost blocks - applicable again
	hdr, ok := o.latestHdr(s)
	if !ok {
		return
	}
	rev := o.checkPending(s, "after-reopen-empty")
	if rev == nil && o.c44 {
		return
	}
	acc := 0
	for _, grp := range carry {
		if _, err := verify.TxnGroup(grp, &hdr, s.led.VerifiedTransactionCache(), s.led); err != nil {
			continue
		}
		if err := o.pool.Remember(grp); err != nil {
			s.stat("pool.reject."+classifyPoolErr(err), 1)
			continue
		}
		acc++
		s.stat("pool.carried_over", 1)
		if !o.c44 {
			continue
		}
		if e := o.applyGroup(s, rev, grp); e != nil {
			s.violate("C44", "admitted-unappliable", "", fmt.Sprintf("after %s at block %d: Remember admitted a re-submitted group (first txid %s) that a fresh evaluator rejects on top of the pending groups: %v", why, s.latest, grp[0].ID().String()[:8], e))
			return
		}
	}
	s.log.Add("  pool: new pool after %s at block %d: %d of %d formerly pending groups admitted again", why, s.latest, acc, len(carry))
	o.checkPending(s, "after-reopen")
	o.reopenReplica(s)
}

func (o *poolObs) AfterBlock(s *Sim, qseed uint64) {
	rg := rand.New(rand.NewPCG(qseed, 0xC20C44))
	o.replicaRestarts(s, rg)
}

func (o *poolObs) Nontrivial(s *Sim) bool {
	switch s.cfg.Prop {
	case "C20":
		return o.nLocalNonEmpty > 0 && o.nLocalValidated > 0 && o.nKwayNonEmpty > 0
	default:
		return o.nRememberOK > 0 && o.nRememberRej > 0 && o.nReplayed > 0 && (o.nEvicted > 0 || o.nForeignCommittedPending > 0)
	}
}

func (o *poolObs) Finish(s *Sim) {
	o.closeReplica(s)
}

// sortTxids is used wherever txids feed a log line.
func sortTxids(l []transactions.Txid) {
	sort.Slice(l, func(i, j int) bool { return string(l[i][:]) < string(l[j][:]) })
}
