package walletsim

import (
	"crypto/ed25519"
	"crypto/hmac"
	"crypto/sha256"
	"crypto/sha512"
	"encoding/binary"
	"strconv"
)

// Independent reference derivation of "key i of master derivation key MDK", written from reading
// daemon/kmd/wallet/driver/sqlite_crypto.go:extractKeyWithIndex (the driver's helper is NOT called):
//
//	info    = "AlgorandDeterministicKey-" + decimal(i)                       (hkdfInfoFormat)
//	seed_i  = first 32 bytes of HKDF-Expand(hash = SHA-512/256, PRK = MDK, info)   (no HKDF-Extract)
//	        = T(1) = HMAC-SHA-512/256(key = MDK, msg = info || 0x01)               (RFC 5869 §2.3; the hash
//	                                                                               output is exactly 32 bytes)
//	(pk_i, sk_i) = ed25519 key pair of seed_i (RFC 8032): sk_i = seed_i || pk_i  (64 bytes, libsodium layout)
//	address_i    = pk_i                                                      (publicKeyToAddress is a copy)
//
// The wallet's first generated key has i = 1 (CreateWallet stores max_key_idx = 0 and GenerateKey
// starts at max_key_idx + 1); index 0 is never used.
//
// Primitives used here: crypto/hmac, crypto/sha512 and crypto/ed25519 from the Go standard library —
// neither golang.org/x/crypto/hkdf nor the libsodium fork that the driver itself uses.

type addr32 = [32]byte
type sk64 = [64]byte

func refSeed(mdk [32]byte, i uint64) [32]byte {
	m := hmac.New(sha512.New512_256, mdk[:])
	m.Write([]byte("AlgorandDeterministicKey-" + strconv.FormatUint(i, 10)))
	m.Write([]byte{0x01})
	var out [32]byte
	copy(out[:], m.Sum(nil))
	return out
}

// keyFromSeed expands an ed25519 seed into (address, 64-byte secret key).
func keyFromSeed(seed [32]byte) (a addr32, sk sk64) {
	priv := ed25519.NewKeyFromSeed(seed[:])
	copy(sk[:], priv)
	copy(a[:], priv[32:])
	return
}

func refKey(mdk [32]byte, i uint64) (addr32, sk64) {
	return keyFromSeed(refSeed(mdk, i))
}

// labelSeed derives harness-owned seeds (fresh imported keys, ghost addresses, tape-derived MDKs).
func labelSeed(label string, a, b uint64) [32]byte {
	var buf [16]byte
	binary.LittleEndian.PutUint64(buf[:8], a)
	binary.LittleEndian.PutUint64(buf[8:], b)
	h := sha256.New()
	h.Write([]byte("verif-walletsim/" + label))
	h.Write(buf[:])
	var out [32]byte
	copy(out[:], h.Sum(nil))
	return out
}
