package walletsim

import (
	"fmt"
	"sort"
	"strings"
)

// keyInfo is what the harness knows about a key it created itself (fresh seeds) or derived with the
// reference derivation (ref.go).
type keyInfo struct {
	name string // canonical, run-independent name: d<i> derivation index i, f<j> fresh key j, g<j> ghost
	sk   sk64
}

type genRec struct {
	idx     uint64
	addr    addr32
	skipped []uint64 // derivation indices skipped by this generation because their key was present
}

type histOp struct {
	kind byte // 'g' generate, 'i' import, 'd' delete
	addr addr32
}

// model is the reference wallet: master derivation key, highest derivation index consumed, the set of
// present keys, the deleted set. It never looks at the wallet file or calls the driver.
type model struct {
	mdk     [32]byte
	idx     uint64
	present map[addr32]bool
	order   []addr32 // present keys in insertion order (targets are picked from it by the tape)
	deleted []addr32 // deleted and currently absent, in deletion order
	name    string

	known     map[addr32]*keyInfo
	derivAddr map[uint64]addr32
	freshN    int
	ghostN    int
	seedBase  uint64

	gens []genRec
	hist []histOp
}

func newModel(mdk [32]byte, name string, seedBase uint64) *model {
	return &model{mdk: mdk, name: name, seedBase: seedBase, present: map[addr32]bool{},
		known: map[addr32]*keyInfo{}, derivAddr: map[uint64]addr32{}}
}

// clone copies the mutable wallet state (the key tables are shared: they only grow and are
// deterministic functions of the MDK and the seed base).
func (m *model) clone() *model {
	c := *m
	c.present = make(map[addr32]bool, len(m.present))
	for k := range m.present {
		c.present[k] = true
	}
	c.order = append([]addr32(nil), m.order...)
	c.deleted = append([]addr32(nil), m.deleted...)
	c.gens = append([]genRec(nil), m.gens...)
	c.hist = append([]histOp(nil), m.hist...)
	return &c
}

// deriv returns the address of derivation index i (reference derivation), registering it as known.
func (m *model) deriv(i uint64) addr32 {
	if a, ok := m.derivAddr[i]; ok {
		return a
	}
	a, sk := refKey(m.mdk, i)
	m.derivAddr[i] = a
	if _, dup := m.known[a]; !dup {
		m.known[a] = &keyInfo{name: fmt.Sprintf("d%d", i), sk: sk}
	}
	return a
}

// fresh creates the next harness-owned key that no derivation sequence produces.
func (m *model) fresh() addr32 {
	a, sk := keyFromSeed(labelSeed("fresh", m.seedBase, uint64(m.freshN)))
	m.known[a] = &keyInfo{name: fmt.Sprintf("f%d", m.freshN), sk: sk}
	m.freshN++
	return a
}

// ghost is an address that was never in the wallet.
func (m *model) ghost() addr32 {
	a, sk := keyFromSeed(labelSeed("ghost", m.seedBase, uint64(m.ghostN)))
	m.known[a] = &keyInfo{name: fmt.Sprintf("g%d", m.ghostN), sk: sk}
	m.ghostN++
	return a
}

// nameOf gives the canonical name of an address (never its bytes: with a driver-drawn MDK the bytes
// differ from process to process).
func (m *model) nameOf(a addr32) string {
	if k, ok := m.known[a]; ok {
		return k.name
	}
	// maybe a derivation key beyond the table: look a little ahead
	for i := uint64(1); i <= m.idx+64; i++ {
		if m.deriv(i) == a {
			return m.known[a].name
		}
	}
	return "UNKNOWN"
}

// generate is the specification of GenerateKey: the next derivation index after the highest one
// consumed, skipping indices whose key is present in the wallet (i.e. was imported by hand).
func (m *model) generate() genRec {
	n := m.idx + 1
	var skipped []uint64
	for m.present[m.deriv(n)] {
		skipped = append(skipped, n)
		n++
	}
	a := m.deriv(n)
	m.idx = n
	m.add(a)
	r := genRec{idx: n, addr: a, skipped: skipped}
	m.gens = append(m.gens, r)
	m.hist = append(m.hist, histOp{'g', a})
	return r
}

func (m *model) add(a addr32) {
	m.present[a] = true
	m.order = append(m.order, a)
	for i, d := range m.deleted {
		if d == a {
			m.deleted = append(m.deleted[:i:i], m.deleted[i+1:]...)
			break
		}
	}
}

// importKey returns false if the key is already present (no state change).
func (m *model) importKey(a addr32) bool {
	if m.present[a] {
		return false
	}
	m.add(a)
	m.hist = append(m.hist, histOp{'i', a})
	return true
}

// remove returns false if the key is absent.
func (m *model) remove(a addr32) bool {
	if !m.present[a] {
		return false
	}
	delete(m.present, a)
	for i, d := range m.order {
		if d == a {
			m.order = append(m.order[:i:i], m.order[i+1:]...)
			break
		}
	}
	m.deleted = append(m.deleted, a)
	m.hist = append(m.hist, histOp{'d', a})
	return true
}

func (m *model) sortedNames() []string {
	ns := make([]string, 0, len(m.order))
	for _, a := range m.order {
		ns = append(ns, m.nameOf(a))
	}
	sort.Strings(ns)
	return ns
}

// render gives the model's expectation of the full observable state in the same canonical format as
// sim.observe: wallet name, exported MDK, every listed key with its export verdict, and the next two
// addresses a reopened copy of the wallet would generate (this exposes the hidden derivation index).
func (m *model) render() string {
	ns := m.sortedNames()
	for i := range ns {
		ns[i] += ":ok"
	}
	sort.Strings(ns) // same order as sim.observe, which sorts the decorated strings
	c := m.clone()
	n1 := c.generate()
	n2 := c.generate()
	return fmt.Sprintf("name=%s mdk=ok keys=[%s] next=[%s %s]", m.name, strings.Join(ns, " "), m.nameOf(n1.addr), m.nameOf(n2.addr))
}

func (m *model) stateKey() string {
	return fmt.Sprintf("%d|%s|%d", m.idx, strings.Join(m.sortedNames(), ","), len(m.deleted))
}
