// Package walletsim drives the real kmd SQLiteWalletDriver / SQLiteWallet on real SQLite wallet files
// with tape-chosen operation sequences from two client handles, wrong-password faults and
// crash(copy)+reopen faults, against an independent reference wallet model (DESIGN.md §4 C46).
package walletsim

import (
	"bytes"
	"crypto/sha256"
	"encoding/hex"
	"fmt"
	"io"
	"os"
	"path/filepath"
	"sort"
	"strings"
	"sync"
	"testing"

	"github.com/algorand/go-deadlock"

	"github.com/algorand/go-algorand/crypto"
	kmdconfig "github.com/algorand/go-algorand/daemon/kmd/config"
	"github.com/algorand/go-algorand/daemon/kmd/wallet"
	"github.com/algorand/go-algorand/daemon/kmd/wallet/driver"
	"github.com/algorand/go-algorand/logging"

	"verif/sim/kernel"
)

type Engine struct{}

func (Engine) Name() string { return "walletsim" }

var (
	tmpRoot    string
	runCounter int
)

func init() { deadlock.Opts.Disable = true }

func scratchRoot() string {
	if tmpRoot == "" {
		base := os.Getenv("VERIF_SCRATCH")
		if base == "" {
			base = "/dev/shm"
		}
		tmpRoot, _ = os.MkdirTemp(base, "verif-walletsim-")
	}
	return tmpRoot
}

// CleanupScratch removes the process scratch directory.
func CleanupScratch() {
	if tmpRoot != "" {
		os.RemoveAll(tmpRoot)
	}
}

const drawN = 1 << 16

// ---- configuration (tape prefix, kinds cfg.*)

type config struct {
	Ops     int  // number of steps
	PwKind  int  // 0 blank password, 1 short ASCII, 2 long binary
	RandMDK bool // false: MDK derived from cfg.mdkseed; true: CreateWallet draws it (blank MDK argument)
	MdkSeed int
	WrongPw bool // swarm: wrong-password faults on
	Crash   bool // swarm: crash(copy)+reopen faults on
	Pair    bool // swarm: really concurrent commutative pairs from the two handles on
	Future  bool // swarm: imports of keys the derivation sequence will produce later on
}

func drawConfig(tp *kernel.Tape, tier string) config {
	var c config
	if tier == "thorough" {
		c.Ops = tp.Range("cfg.ops", 30, 160)
	} else {
		c.Ops = tp.Range("cfg.ops", 16, 56)
	}
	c.PwKind = tp.Choose("cfg.pw", 3)
	c.RandMDK = tp.Chance("cfg.randmdk", 1, 4)
	c.MdkSeed = tp.Choose("cfg.mdkseed", drawN)
	c.WrongPw = tp.Chance("cfg.on.wrongpw", 1, 2)
	c.Crash = tp.Chance("cfg.on.crash", 1, 2)
	c.Pair = tp.Chance("cfg.on.pair", 1, 2)
	c.Future = !tp.Chance("cfg.off.future", 1, 4)
	return c
}

var passwords = [][]byte{
	[]byte(""),
	[]byte("hunter2"),
	[]byte("\x00verif wallet password \xff\xfe with NUL\x00 and 40+ bytes ..."),
}

// ---- the simulation

type handle struct {
	drv    *driver.SQLiteWalletDriver
	w      wallet.Wallet
	inited bool
}

type sim struct {
	tape *kernel.Tape
	log  *kernel.Log
	cfg  config
	dir  string // run directory
	wdir string // current wallets directory (changes at every crash)
	gen  int

	id []byte
	pw []byte
	m  *model
	h  [2]*handle
	ob *handle // the oracle's own observer handle (always initialised with the right password)

	realGens []addr32 // what GenerateKey of the wallet under test really returned, in order

	viol    *kernel.Violation
	known   []kernel.Violation
	harness string
	stats   map[string]int64
	states  map[string]bool
	step    int
	ops     []string
	renameN int
	auxN    int
	restore int
}

func (s *sim) stat(k string, d int64) { s.stats[k] += d }

func (s *sim) violate(oracle, detail string) {
	if s.viol == nil {
		s.viol = &kernel.Violation{Property: "C46", Oracle: oracle, Detail: detail, Step: s.step}
		s.log.Add("VIOLATION %s", oracle)
	}
}

func (s *sim) note(format string, args ...any) {
	line := fmt.Sprintf(format, args...)
	s.log.Add("%s", line)
	if len(s.ops) < 90 {
		s.ops = append(s.ops, line)
	}
}

func knownTag(acc bool) string {
	if acc {
		return " (ACCEPTED: known finding " + keyTrailingNul + ")"
	}
	return ""
}

func okErr(err error) string {
	if err == nil {
		return "ok"
	}
	return "err"
}

// newDriver builds a fresh SQLiteWalletDriver over dir with the smallest scrypt cost the driver
// configuration admits (allow_unsafe_scrypt, N=2 r=1 p=1; the kmd e2e fixtures use N=2 as well).
func newDriver(dir string) (*driver.SQLiteWalletDriver, error) {
	cfg := kmdconfig.DefaultConfig(dir)
	cfg.DriverConfig.SQLiteWalletDriverConfig.WalletsDir = dir
	cfg.DriverConfig.SQLiteWalletDriverConfig.UnsafeScrypt = true
	cfg.DriverConfig.SQLiteWalletDriverConfig.ScryptParams = kmdconfig.ScryptParams{ScryptN: 2, ScryptR: 1, ScryptP: 1}
	d := &driver.SQLiteWalletDriver{}
	if err := d.InitWithConfig(cfg, logging.Base()); err != nil {
		return nil, err
	}
	return d, nil
}

func openHandle(dir string, id []byte) (*handle, error) {
	d, err := newDriver(dir)
	if err != nil {
		return nil, err
	}
	w, err := d.FetchWallet(id)
	if err != nil {
		return nil, err
	}
	return &handle{drv: d, w: w}, nil
}

func copyDir(from, to string) error {
	if err := os.MkdirAll(to, 0o700); err != nil {
		return err
	}
	ents, err := os.ReadDir(from)
	if err != nil {
		return err
	}
	for _, e := range ents {
		if e.IsDir() {
			continue
		}
		in, err := os.Open(filepath.Join(from, e.Name()))
		if err != nil {
			return err
		}
		out, err := os.Create(filepath.Join(to, e.Name()))
		if err != nil {
			in.Close()
			return err
		}
		_, err = io.Copy(out, in)
		in.Close()
		if cerr := out.Close(); err == nil {
			err = cerr
		}
		if err != nil {
			return err
		}
	}
	return nil
}

func (s *sim) setup() error {
	s.wdir = filepath.Join(s.dir, "w0")
	if err := os.MkdirAll(s.wdir, 0o700); err != nil {
		return err
	}
	s.id = []byte("verifwallet")
	s.pw = passwords[s.cfg.PwKind]
	d, err := newDriver(s.wdir)
	if err != nil {
		return err
	}
	var mdk crypto.MasterDerivationKey
	if !s.cfg.RandMDK {
		mdk = crypto.MasterDerivationKey(labelSeed("mdk", uint64(s.cfg.MdkSeed), 0))
	}
	if err := d.CreateWallet([]byte("n"), s.id, s.pw, mdk); err != nil {
		return fmt.Errorf("CreateWallet: %w", err)
	}
	w, err := d.FetchWallet(s.id)
	if err != nil {
		return fmt.Errorf("FetchWallet: %w", err)
	}
	s.h[0] = &handle{drv: d, w: w}
	if s.h[1], err = openHandle(s.wdir, s.id); err != nil {
		return err
	}
	if err := s.openObserver(); err != nil {
		return err
	}
	if s.cfg.RandMDK {
		// The driver drew the MDK itself; the model has to learn it. Nothing logged depends on its bytes.
		got, err := s.ob.w.ExportMasterDerivationKey(s.pw)
		if err != nil {
			return fmt.Errorf("ExportMasterDerivationKey after create: %w", err)
		}
		if got == (crypto.MasterDerivationKey{}) {
			return fmt.Errorf("driver-drawn MDK is all zero")
		}
		mdk = got
	}
	s.m = newModel([32]byte(mdk), "n", uint64(s.cfg.MdkSeed))
	return nil
}

func (s *sim) openObserver() error {
	ob, err := openHandle(s.wdir, s.id)
	if err != nil {
		return err
	}
	if err := ob.w.Init(s.pw); err != nil {
		return fmt.Errorf("observer Init with the right password: %w", err)
	}
	ob.inited = true
	s.ob = ob
	return nil
}

// ---- observation (everything the oracle compares goes through these two functions)

// listNames lists the keys through w and returns canonical sorted names; dup reports a repeated address.
func (s *sim) listNames(w wallet.Wallet) (names []string, dup bool, err error) {
	addrs, err := w.ListKeys()
	if err != nil {
		return nil, false, err
	}
	seen := map[addr32]bool{}
	for _, a := range addrs {
		if seen[addr32(a)] {
			dup = true
		}
		seen[addr32(a)] = true
		names = append(names, s.m.nameOf(addr32(a)))
	}
	sort.Strings(names)
	return
}

// probeNext copies the wallet files, opens the copy through a fresh driver and generates two keys on
// the copy: this exposes the persisted derivation index without touching the wallet under test.
func (s *sim) probeNext() string {
	s.auxN++
	pd := filepath.Join(s.dir, fmt.Sprintf("p%d", s.auxN))
	defer os.RemoveAll(pd)
	if err := copyDir(s.wdir, pd); err != nil {
		s.harness = "probe copy: " + err.Error()
		return "ERR"
	}
	h, err := openHandle(pd, s.id)
	if err != nil {
		return "ERR-open"
	}
	if err := h.w.Init(s.pw); err != nil {
		return "ERR-init"
	}
	var out []string
	for i := 0; i < 2; i++ {
		a, err := h.w.GenerateKey(false)
		if err != nil {
			out = append(out, "ERR")
			continue
		}
		out = append(out, s.m.nameOf(addr32(a)))
	}
	return strings.Join(out, " ")
}

// observe renders the full observable state of the wallet file in canonical form (same format as
// model.render): name, MDK export, every listed key with whether its exported secret key is the right
// one, and what a reopened copy would generate next.
func (s *sim) observe() string {
	s.stat("deep_observations", 1)
	name := "ERR"
	if md, err := s.ob.w.Metadata(); err == nil {
		name = string(md.Name)
	}
	mdk := "ERR"
	if k, err := s.ob.w.ExportMasterDerivationKey(s.pw); err == nil {
		if [32]byte(k) == s.m.mdk {
			mdk = "ok"
		} else {
			mdk = "WRONG"
		}
	}
	var keys []string
	addrs, err := s.ob.w.ListKeys()
	if err != nil {
		keys = []string{"LIST-ERR"}
	}
	for _, a := range addrs {
		v := "ok"
		sk, err := s.ob.w.ExportKey(a, s.pw)
		if err != nil {
			v = "EXPORT-ERR"
		} else if ki, ok := s.m.known[addr32(a)]; !ok || ki.sk != sk64(sk) {
			v = "WRONG-SK"
		}
		keys = append(keys, s.m.nameOf(addr32(a))+":"+v)
	}
	sort.Strings(keys)
	return fmt.Sprintf("name=%s mdk=%s keys=[%s] next=[%s]", name, mdk, strings.Join(keys, " "), s.probeNext())
}

// deepCheck compares the observed full state with the model.
func (s *sim) deepCheck(oracle, when string) {
	got, want := s.observe(), s.m.render()
	s.log.Add("  state(%s) %s", when, got)
	if got != want {
		s.violate(oracle, fmt.Sprintf("%s: wallet state differs from the reference model\n observed: %s\n expected: %s", when, got, want))
	}
}

// lightCheck runs after every operation: ListKeys through the handle that just acted has no
// duplicate and equals the model's key set.
func (s *sim) lightCheck(h *handle) {
	if s.viol != nil {
		return
	}
	names, dup, err := s.listNames(h.w)
	if err != nil {
		s.violate("list-failed", "ListKeys failed: "+err.Error())
		return
	}
	if dup {
		s.violate("list-duplicate", "ListKeys returned an address twice: "+strings.Join(names, " "))
		return
	}
	if want := s.m.sortedNames(); strings.Join(names, " ") != strings.Join(want, " ") {
		s.violate("list-mismatch", fmt.Sprintf("ListKeys = [%s], reference model = [%s]", strings.Join(names, " "), strings.Join(want, " ")))
	}
}

// ---- passwords

// wrongPassword returns a password different from the right one (variant chosen by the tape).
func (s *sim) wrongPassword(v int) ([]byte, int) {
	r := s.pw
	var c [][]byte
	if len(r) == 0 {
		c = [][]byte{[]byte("x"), []byte(" "), []byte("\x00")}
	} else {
		flip := append([]byte(nil), r...)
		flip[0] ^= 0x20
		c = [][]byte{
			[]byte(""),
			append(append([]byte(nil), r...), 'x'),
			append([]byte(nil), r[:len(r)-1]...),
			flip,
			append(append([]byte(nil), r...), 0),
		}
	}
	v %= len(c)
	return c[v], v
}

// nulEquivalent: the two passwords differ only by trailing NUL bytes (and fit one HMAC block).
// See findings/C46-password-trailing-nul: scrypt = PBKDF2-HMAC-SHA256 zero-pads the password to the
// HMAC block, so such passwords derive the same key and the driver cannot tell them apart.
func nulEquivalent(a, b []byte) bool {
	return len(a) <= 64 && len(b) <= 64 && !bytes.Equal(a, b) && bytes.Equal(bytes.TrimRight(a, "\x00"), bytes.TrimRight(b, "\x00"))
}

const keyTrailingNul = "password-trailing-nul"

// guarded runs a password-taking call. With the wrong password the call must fail and the full
// observable state must be the same before and after (and equal to the model). accepted reports that
// a wrong password was accepted and the run goes on (known-finding class only): the caller then
// makes the model follow what the wallet really did.
func (s *sim) guarded(wrong bool, pw []byte, what string, call func() error) (err error, accepted bool) {
	if !wrong {
		return call(), false
	}
	before := s.observe()
	err = call()
	s.stat("fault.wrongpw", 1)
	if err == nil {
		detail := what + " succeeded with a wrong password"
		if nulEquivalent(pw, s.pw) {
			// The oracle is not loosened: this IS reported, under a stable key. During exploration it goes
			// to RunResult.Known (the driver prints KNOWN-FINDING for keys listed open in
			// known_findings.json) so that one known class does not end every worker's search; in replay
			// mode (or VERIF_KNOWN_HARD=1) it is an ordinary violation.
			detail = fmt.Sprintf("%s succeeded with a wrong password: %q instead of %q (differs by trailing NUL bytes only)", what, pw, s.pw)
			s.stat("known."+keyTrailingNul, 1)
			if !hardKnown() {
				if len(s.known) < 4 {
					s.known = append(s.known, kernel.Violation{Property: "C46", Oracle: "wrongpw-accepted", Key: keyTrailingNul, Detail: detail, Step: s.step})
				}
				return nil, true
			}
			s.violate("wrongpw-accepted", detail)
			s.viol.Key = keyTrailingNul
			return nil, false
		}
		s.violate("wrongpw-accepted", detail)
		return err, false
	}
	after := s.observe()
	if after != before {
		s.violate("wrongpw-state-change", fmt.Sprintf("%s with a wrong password failed but changed the wallet state\n before: %s\n after:  %s", what, before, after))
	} else if want := s.m.render(); after != want {
		s.violate("state-mismatch", fmt.Sprintf("around %s with a wrong password the wallet state differs from the reference model\n observed: %s\n expected: %s", what, after, want))
	}
	return err, false
}

// hardKnown decides how the known-finding class is reported. In a replay (VERIF_REPLAY) or with
// VERIF_KNOWN_HARD=1 it is an ordinary violation, so that findings/C46-*/replay.json reproduces. In
// a check run the driver passes the open known findings in VERIF_KNOWN_KEYS (kernel.KnownKey): listed
// -> RunResult.Known and the run goes on; not listed (finding closed or removed) -> violation. Without
// that variable (determinism self-test, manual worker runs) the run goes on as well, so that one
// known class does not cut those runs short.
func hardKnown() bool {
	if os.Getenv("VERIF_REPLAY") != "" || os.Getenv("VERIF_KNOWN_HARD") != "" {
		return true
	}
	if _, set := os.LookupEnv("VERIF_KNOWN_KEYS"); set {
		return !kernel.KnownKey("C46", keyTrailingNul)
	}
	return false
}

// ---- operations

const (
	opList = iota // value 0: read-only, the benign operation
	opGen
	opImport
	opDelete
	opExport
	opMDK
	opInit
	opRename
	opReopen
	opRestore
	opPair
	nOps
)

var opNames = [nOps]string{"list", "generate", "import", "delete", "export", "export-mdk", "init", "rename", "reopen", "restore", "pair"}
var opWeights = [nOps]int{5, 24, 20, 10, 9, 5, 4, 4, 3, 2, 10}
var pwOps = []int{opDelete, opExport, opMDK, opInit, opRename}

const (
	fNone  = 0
	fWrong = 68 // step.fault%100 in [68,92): wrong password
	fCrash = 92 // step.fault%100 in [92,100): crash (copy the wallet files) and reopen
)

func (s *sim) weights() [nOps]int {
	w := opWeights
	if !s.cfg.Pair {
		w[opPair] = 0
	}
	return w
}

func (s *sim) decodeOp(r int) int {
	w := s.weights()
	tot := 0
	for _, x := range w {
		tot += x
	}
	r %= tot
	for i, x := range w {
		if r < x {
			return i
		}
		r -= x
	}
	return 0
}

// opStart is the smallest step.op value that decodes to op (the canonical recorded value).
func (s *sim) opStart(op int) int {
	w := s.weights()
	st := 0
	for i := 0; i < op; i++ {
		st += w[i]
	}
	return st
}

// one operation = one step = exactly six decisions (rectangular tape).
func (s *sim) doStep() {
	tp := s.tape
	base := len(tp.Rec)
	rF := tp.Choose("step.fault", drawN)
	rOp := tp.Choose("step.op", drawN)
	rH := tp.Choose("step.h", drawN)
	rA := tp.Choose("step.a", drawN)
	rB := tp.Choose("step.b", drawN)
	rC := tp.Choose("step.c", drawN)
	var eff [6]int
	defer func() {
		for j := 0; j < 6; j++ {
			tp.Canon(base+j, eff[j])
		}
	}()

	fault := fNone
	if rF != 0 {
		switch x := rF % 100; {
		case x >= fCrash && s.cfg.Crash:
			fault = fCrash
		case x >= fWrong && x < fCrash && s.cfg.WrongPw:
			fault = fWrong
		}
	}
	eff[0] = fault
	if fault == fCrash {
		s.crash()
		return
	}
	op := s.decodeOp(rOp)
	if fault == fWrong {
		isPw := false
		for _, p := range pwOps {
			isPw = isPw || p == op
		}
		if !isPw {
			op = pwOps[rOp%len(pwOps)]
		}
	}
	hi := rH % 2
	// Operations that need the decrypted master keys are only issued on an initialised handle (kmd
	// initialises every handle it gives out); on a fresh handle the step becomes Init(right password).
	needInit := false
	switch op {
	case opGen, opImport, opRestore:
		needInit = !s.h[hi].inited
	case opExport, opMDK:
		needInit = fault != fWrong && !s.h[hi].inited
	case opPair:
		if !s.h[hi].inited {
			needInit = true
		} else if !s.h[1-hi].inited {
			hi = 1 - hi
			needInit = true
		}
	}
	if needInit {
		op = opInit
	}
	eff[1] = s.opStart(op)
	eff[2] = hi
	h := s.h[hi]
	wrong := fault == fWrong
	pw := s.pw
	pwTag := "right-pw"
	if wrong {
		var v int
		pw, v = s.wrongPassword(rC)
		eff[5] = v
		pwTag = fmt.Sprintf("WRONG-pw#%d", v)
		if !h.inited {
			s.stat("probe.wrongpw_on_uninitialised_handle", 1)
		}
	}
	s.stat("op."+opNames[op], 1)
	pre := fmt.Sprintf("%d h%d %s", s.step, hi, opNames[op])

	switch op {
	case opList:
		names, _, err := s.listNames(h.w)
		s.note("%s -> %s [%s]", pre, okErr(err), strings.Join(names, " "))

	case opGen:
		exp := s.m.generate()
		a, err := h.w.GenerateKey(false)
		if err != nil {
			s.note("%s -> err", pre)
			s.violate("generate-failed", "GenerateKey on an initialised handle failed: "+err.Error())
			break
		}
		s.realGens = append(s.realGens, addr32(a))
		s.note("%s -> %s (skipped %d)", pre, s.m.nameOf(addr32(a)), len(exp.skipped))
		if len(exp.skipped) > 0 {
			s.stat("probe.generation_skipped_imported_key", 1)
			if len(exp.skipped) > 1 {
				s.stat("probe.generation_skipped_several", 1)
			}
		}
		if addr32(a) != exp.addr {
			s.violate("gen-sequence", fmt.Sprintf("GenerateKey returned %s (%s), the derivation sequence gives %s (index %d, skipped imported %v)",
				s.m.nameOf(addr32(a)), hex.EncodeToString(a[:8]), s.m.nameOf(exp.addr), exp.idx, exp.skipped))
		}

	case opImport:
		s.opImport(h, pre, rA, rB, &eff)

	case opDelete:
		n := len(s.m.order)
		t := rA % (n + 1)
		eff[3] = t
		var a addr32
		if t == n {
			a = s.m.ghost()
		} else {
			a = s.m.order[t]
		}
		was := s.m.present[a]
		err, acc := s.guarded(wrong, pw, "DeleteKey", func() error { return h.w.DeleteKey(crypto.Digest(a), pw) })
		s.note("%s %s %s -> %s%s", pre, s.m.nameOf(a), pwTag, okErr(err), knownTag(acc))
		if !wrong || acc {
			if err != nil && was {
				s.violate("rightpw-rejected", "DeleteKey of a present key with the right password failed: "+err.Error())
			}
			if err == nil && s.m.remove(a) {
				s.stat("deleted", 1)
				if ki := s.m.known[a]; ki.name[0] == 'd' {
					s.stat("probe.deleted_a_derivation_key", 1)
				}
			}
		}

	case opExport:
		cands := append(append([]addr32(nil), s.m.order...), s.m.deleted...)
		t := rA % (len(cands) + 1)
		eff[3] = t
		var a addr32
		if t == len(cands) {
			a = s.m.ghost()
		} else {
			a = cands[t]
		}
		var sk crypto.PrivateKey
		err, acc := s.guarded(wrong, pw, "ExportKey", func() (e error) { sk, e = h.w.ExportKey(crypto.Digest(a), pw); return })
		s.note("%s %s %s -> %s%s", pre, s.m.nameOf(a), pwTag, okErr(err), knownTag(acc))
		if !wrong {
			switch {
			case s.m.present[a] && err != nil:
				s.violate("rightpw-rejected", "ExportKey of a present key with the right password failed: "+err.Error())
			case s.m.present[a] && sk64(sk) != s.m.known[a].sk:
				s.violate("export-mismatch", "ExportKey returned a secret key that is not the key of "+s.m.nameOf(a))
			case !s.m.present[a] && err == nil:
				s.violate("export-absent", "ExportKey returned a secret key for "+s.m.nameOf(a)+", which is not in the wallet (deleted or never imported)")
			}
		}

	case opMDK:
		var k crypto.MasterDerivationKey
		err, acc := s.guarded(wrong, pw, "ExportMasterDerivationKey", func() (e error) { k, e = h.w.ExportMasterDerivationKey(pw); return })
		s.note("%s %s -> %s%s", pre, pwTag, okErr(err), knownTag(acc))
		if !wrong {
			if err != nil {
				s.violate("rightpw-rejected", "ExportMasterDerivationKey with the right password failed: "+err.Error())
			} else if [32]byte(k) != s.m.mdk {
				s.violate("mdk-mismatch", "ExportMasterDerivationKey returned a key different from the wallet's master derivation key")
			}
		}

	case opInit:
		err, acc := s.guarded(wrong, pw, "Init", func() error { return h.w.Init(pw) })
		s.note("%s %s -> %s%s", pre, pwTag, okErr(err), knownTag(acc))
		if acc {
			// The handle now holds the keys under a password that is not the wallet's; drop it (a fresh,
			// uninitialised handle takes its place) so that the rest of the run is not about this class.
			var ferr error
			if h.w, ferr = h.drv.FetchWallet(s.id); ferr != nil {
				s.harness = "refetch: " + ferr.Error()
				return
			}
			h.inited = false
		}
		if !wrong {
			if err != nil {
				s.violate("rightpw-rejected", "Init with the right password failed: "+err.Error())
			} else {
				h.inited = true
			}
		}

	case opRename:
		// Rename is in the workload because the property quantifies over it, but the property's password
		// clause does not name it: the result is recorded and the model follows it; only the key state
		// is asserted (unchanged).
		s.renameN++
		nn := fmt.Sprintf("n%d", s.renameN)
		var err error
		if wrong {
			before := s.observe()
			err = h.drv.RenameWallet([]byte(nn), s.id, pw)
			s.stat("fault.wrongpw", 1)
			if err != nil {
				if after := s.observe(); after != before {
					s.violate("wrongpw-state-change", fmt.Sprintf("RenameWallet with a wrong password failed but changed the wallet state\n before: %s\n after:  %s", before, after))
				}
			}
		} else {
			err = h.drv.RenameWallet([]byte(nn), s.id, pw)
		}
		if err == nil {
			s.m.name = nn
		}
		s.note("%s %s %s -> %s", pre, nn, pwTag, okErr(err))
		if s.viol == nil {
			if md, merr := h.w.Metadata(); merr != nil || string(md.Name) != s.m.name {
				s.violate("state-mismatch", fmt.Sprintf("after RenameWallet (%s) the wallet name is %q, expected %q", okErr(err), string(md.Name), s.m.name))
			}
		}

	case opReopen:
		v := rA % 2
		eff[3] = v
		var err error
		if v == 0 {
			h.w, err = h.drv.FetchWallet(s.id)
		} else {
			var nh *handle
			if nh, err = openHandle(s.wdir, s.id); err == nil {
				h.drv, h.w = nh.drv, nh.w
			}
		}
		if err != nil {
			s.harness = "reopen: " + err.Error()
			return
		}
		h.inited = false
		s.note("%s (%s)", pre, []string{"same driver", "fresh driver"}[v])

	case opRestore:
		s.note("%s", pre)
		s.restorePure(h, 8)

	case opPair:
		s.opPair(hi, pre, rA, rB, &eff)
	}
	if s.harness == "" {
		s.lightCheck(h)
	}
}

func (s *sim) opImport(h *handle, pre string, rA, rB int, eff *[6]int) {
	m := s.m
	variant := [8]int{0, 1, 2, 3, 1, 1, 0, 3}[rA%8] // 0 fresh, 1 future, 2 present, 3 deleted
	switch {
	case variant == 1 && !s.cfg.Future,
		variant == 2 && len(m.order) == 0,
		variant == 3 && len(m.deleted) == 0:
		variant = 0
	}
	eff[3] = variant
	var a addr32
	kind := ""
	switch variant {
	case 0:
		a = m.fresh()
		kind = "fresh"
	case 1:
		k := rB % 4
		eff[4] = k
		a = m.deriv(m.idx + 1 + uint64(k))
		kind = fmt.Sprintf("future+%d", k+1)
	case 2:
		j := rB % len(m.order)
		eff[4] = j
		a = m.order[j]
		kind = "present"
	case 3:
		j := rB % len(m.deleted)
		eff[4] = j
		a = m.deleted[j]
		kind = "deleted"
	}
	s.stat("import."+strings.SplitN(kind, "+", 2)[0], 1)
	was := m.present[a]
	got, err := h.w.ImportKey(crypto.PrivateKey(m.known[a].sk))
	s.note("%s %s %s%s -> %s", pre, kind, m.nameOf(a), map[bool]string{true: " (already present)", false: ""}[was], okErr(err))
	if err == nil && addr32(got) != a {
		s.violate("import-address", "ImportKey returned an address that is not the public key of the imported secret key "+m.nameOf(a))
		return
	}
	if was {
		// Already present: whether the call reports an error is not the property's business; the
		// wallet must simply not change (lightCheck / deep checks: no duplicate, same set, same index).
		s.stat("probe.import_of_present_key", 1)
		return
	}
	if err != nil {
		s.violate("import-failed", "ImportKey of a key that is not in the wallet failed: "+err.Error())
		return
	}
	m.importKey(a)
}

// parallel runs f0 and f1 in two goroutines released together; a panic is a harness error.
func (s *sim) parallel(f0, f1 func()) {
	var wg sync.WaitGroup
	var mu sync.Mutex
	start := make(chan struct{})
	run := func(f func()) {
		defer wg.Done()
		defer func() {
			if r := recover(); r != nil {
				mu.Lock()
				s.harness = fmt.Sprint("panic in concurrent call: ", r)
				mu.Unlock()
			}
		}()
		<-start
		f()
	}
	wg.Add(2)
	go run(f0)
	go run(f1)
	close(start)
	wg.Wait()
}

// opPair issues two operations REALLY concurrently from the two handles (two goroutines, two driver
// objects, one wallet file; the interleaving is decided by SQLite's file locking, not by the tape).
// Only pairs whose two sequential orders give the same results as a set and the same final state are
// used, and only order-insensitive information is logged, so the run stays deterministic while the
// exclusive-transaction mechanism of GenerateKey is exercised under real contention.
func (s *sim) opPair(hi int, pre string, rA, rB int, eff *[6]int) {
	m := s.m
	h0, h1 := s.h[hi], s.h[1-hi]
	kind := rA % 5
	var old []addr32 // present keys whose removal commutes with a generation
	if kind == 2 {
		for _, a := range m.order {
			nm := m.known[a].name
			if nm[0] == 'f' {
				old = append(old, a)
			} else if nm[0] == 'd' {
				var i uint64
				fmt.Sscanf(nm[1:], "%d", &i)
				if i <= m.idx {
					old = append(old, a)
				}
			}
		}
		if len(old) == 0 {
			kind = 0
		}
	}
	eff[3] = kind
	s.stat("fault.concurrent_pair", 1)
	var a0, a1 crypto.Digest
	var e0, e1 error
	bad := func(d string) { s.violate("pair-nonlinearizable", d) }
	switch kind {
	case 0: // generate || generate
		x1, x2 := m.generate(), m.generate()
		s.parallel(func() { a0, e0 = h0.w.GenerateKey(false) }, func() { a1, e1 = h1.w.GenerateKey(false) })
		s.note("%s generate||generate -> %s %s", pre, okErr(e0), okErr(e1))
		if e0 != nil || e1 != nil {
			s.violate("generate-failed", fmt.Sprintf("concurrent GenerateKey calls from two handles failed: %v / %v", e0, e1))
			return
		}
		// realGens is kept in model order: the two results commute
		s.realGens = append(s.realGens, x1.addr, x2.addr)
		if !(addr32(a0) == x1.addr && addr32(a1) == x2.addr) && !(addr32(a0) == x2.addr && addr32(a1) == x1.addr) {
			bad(fmt.Sprintf("concurrent GenerateKey calls returned {%s, %s}; every sequential order gives {%s, %s}", m.nameOf(addr32(a0)), m.nameOf(addr32(a1)), m.nameOf(x1.addr), m.nameOf(x2.addr)))
		}
	case 1: // generate || import of a fresh key
		x := m.generate()
		f := m.fresh()
		m.importKey(f)
		s.parallel(func() { a0, e0 = h0.w.GenerateKey(false) }, func() { a1, e1 = h1.w.ImportKey(crypto.PrivateKey(m.known[f].sk)) })
		s.note("%s generate||import %s -> %s %s", pre, m.nameOf(f), okErr(e0), okErr(e1))
		if e0 != nil {
			s.violate("generate-failed", "GenerateKey concurrent with ImportKey failed: "+e0.Error())
			return
		}
		s.realGens = append(s.realGens, addr32(a0))
		if e1 != nil {
			s.violate("import-failed", "ImportKey of a fresh key concurrent with GenerateKey failed: "+e1.Error())
			return
		}
		if addr32(a0) != x.addr || addr32(a1) != f {
			bad(fmt.Sprintf("generate||import returned %s / %s, expected %s / %s", m.nameOf(addr32(a0)), m.nameOf(addr32(a1)), m.nameOf(x.addr), m.nameOf(f)))
		}
	case 2: // generate || delete of an old key
		j := rB % len(old)
		eff[4] = j
		t := old[j]
		x := m.generate()
		m.remove(t)
		s.parallel(func() { a0, e0 = h0.w.GenerateKey(false) }, func() { e1 = h1.w.DeleteKey(crypto.Digest(t), s.pw) })
		s.note("%s generate||delete %s -> %s %s", pre, m.nameOf(t), okErr(e0), okErr(e1))
		if e0 != nil {
			s.violate("generate-failed", "GenerateKey concurrent with DeleteKey failed: "+e0.Error())
			return
		}
		s.realGens = append(s.realGens, addr32(a0))
		if e1 != nil {
			s.violate("rightpw-rejected", "DeleteKey with the right password concurrent with GenerateKey failed: "+e1.Error())
			return
		}
		if addr32(a0) != x.addr {
			bad(fmt.Sprintf("generate||delete: GenerateKey returned %s, expected %s", m.nameOf(addr32(a0)), m.nameOf(x.addr)))
		}
	case 3: // generate || list
		before := strings.Join(m.sortedNames(), " ")
		x := m.generate()
		after := strings.Join(m.sortedNames(), " ")
		var names []string
		var dup bool
		s.parallel(func() { a0, e0 = h0.w.GenerateKey(false) }, func() { names, dup, e1 = s.listNames(h1.w) })
		s.note("%s generate||list -> %s %s", pre, okErr(e0), okErr(e1))
		if e0 != nil {
			s.violate("generate-failed", "GenerateKey concurrent with ListKeys failed: "+e0.Error())
			return
		}
		s.realGens = append(s.realGens, addr32(a0))
		if addr32(a0) != x.addr {
			bad(fmt.Sprintf("generate||list: GenerateKey returned %s, expected %s", m.nameOf(addr32(a0)), m.nameOf(x.addr)))
		}
		if got := strings.Join(names, " "); e1 != nil || dup || (got != before && got != after) {
			bad(fmt.Sprintf("generate||list: ListKeys returned [%s] (err=%v dup=%v), neither the state before [%s] nor after [%s]", got, e1, dup, before, after))
		}
	case 4: // import || import of the same fresh key
		f := m.fresh()
		m.importKey(f)
		sk := crypto.PrivateKey(m.known[f].sk)
		s.parallel(func() { a0, e0 = h0.w.ImportKey(sk) }, func() { a1, e1 = h1.w.ImportKey(sk) })
		// which of the two wins is scheduling; how many report success is recorded, not asserted
		nok := 0
		for _, e := range []error{e0, e1} {
			if e == nil {
				nok++
			}
		}
		s.note("%s import||import same %s -> %d ok", pre, m.nameOf(f), nok)
		if nok == 0 {
			s.violate("import-failed", fmt.Sprintf("both concurrent ImportKey calls of one fresh key failed: %v / %v", e0, e1))
			return
		}
		if (e0 == nil && addr32(a0) != f) || (e1 == nil && addr32(a1) != f) {
			s.violate("import-address", "concurrent ImportKey returned an address that is not the imported key's")
		}
	}
	if s.viol == nil && s.harness == "" {
		s.lightCheck(h1) // the caller checks through h0
	}
}

// crash: the wallet files as they are on disk at this operation boundary are copied; every driver and
// wallet object is dropped; fresh drivers are opened on the copy (durable state only).
func (s *sim) crash() {
	s.stat("fault.crash_reopen", 1)
	s.gen++
	nd := filepath.Join(s.dir, fmt.Sprintf("w%d", s.gen))
	if err := copyDir(s.wdir, nd); err != nil {
		s.harness = "crash copy: " + err.Error()
		return
	}
	old := s.wdir
	s.wdir = nd
	var err error
	for i := range s.h {
		if s.h[i], err = openHandle(nd, s.id); err != nil {
			s.harness = "reopen after crash: " + err.Error()
			return
		}
	}
	if err = s.openObserver(); err != nil {
		// the right password no longer opens the reopened wallet: that is a verdict, not harness trouble
		s.note("%d crash+reopen -> observer init failed", s.step)
		s.violate("crash-state", "after crash+reopen the wallet cannot be opened with the right password: "+err.Error())
		return
	}
	os.RemoveAll(old)
	s.note("%d crash+reopen", s.step)
	s.deepCheck("crash-state", "after crash+reopen")
}

// newWalletFrom creates, in the current wallets directory through driver d, a new wallet restored
// from mdk, and returns an initialised handle on it plus a cleanup func.
func (s *sim) newWalletFrom(d *driver.SQLiteWalletDriver, mdk crypto.MasterDerivationKey) (wallet.Wallet, func(), error) {
	s.auxN++
	id := []byte(fmt.Sprintf("restored%d", s.auxN))
	if err := d.CreateWallet(id, id, s.pw, mdk); err != nil {
		return nil, nil, fmt.Errorf("CreateWallet(restore): %w", err)
	}
	w, err := d.FetchWallet(id)
	if err != nil {
		return nil, nil, fmt.Errorf("FetchWallet(restore): %w", err)
	}
	if err := w.Init(s.pw); err != nil {
		return nil, nil, fmt.Errorf("Init(restore): %w", err)
	}
	path := filepath.Join(s.wdir, string(id)+".db")
	return w, func() { os.Remove(path) }, nil
}

// exportMDKFor exports the MDK through h for a restore and checks it.
func (s *sim) exportMDKFor(h *handle) (crypto.MasterDerivationKey, bool) {
	mdk, err := h.w.ExportMasterDerivationKey(s.pw)
	if err != nil {
		s.violate("rightpw-rejected", "ExportMasterDerivationKey with the right password failed: "+err.Error())
		return mdk, false
	}
	if [32]byte(mdk) != s.m.mdk {
		s.violate("mdk-mismatch", "ExportMasterDerivationKey returned a key different from the wallet's master derivation key")
		return mdk, false
	}
	return mdk, true
}

// restorePure: a new wallet created from the exported MDK, asked to generate n keys, must produce
// exactly the reference derivation sequence d1..dn (limit 0 = as many as the original consumed, +2).
func (s *sim) restorePure(h *handle, limit int) {
	mdk, ok := s.exportMDKFor(h)
	if !ok {
		return
	}
	w, cleanup, err := s.newWalletFrom(h.drv, mdk)
	if err != nil {
		s.harness = err.Error()
		return
	}
	defer cleanup()
	n := int(s.m.idx) + 2
	if limit > 0 && n > limit {
		n = limit
	}
	s.stat("restore.pure", 1)
	var got []addr32
	for i := 1; i <= n; i++ {
		a, err := w.GenerateKey(false)
		if err != nil {
			s.violate("generate-failed", "GenerateKey on the restored wallet failed: "+err.Error())
			return
		}
		got = append(got, addr32(a))
		if addr32(a) != s.m.deriv(uint64(i)) {
			s.log.Add("  restore: generation %d -> %s", i, s.m.nameOf(addr32(a)))
			s.violate("restore-mismatch", fmt.Sprintf("restored wallet: generation %d returned %s, the derivation sequence gives d%d", i, s.m.nameOf(addr32(a)), i))
			return
		}
	}
	s.log.Add("  restore: %d generations on a wallet restored from the MDK = d1..d%d", n, n)
	if limit > 0 {
		return
	}
	// The original's real generations are a subsequence of the restored sequence; what is missing was
	// skipped because it was present (imported) at that moment.
	pos := map[addr32]int{}
	for i, a := range got {
		pos[a] = i
	}
	skipped := map[addr32]bool{}
	for _, g := range s.m.gens {
		for _, i := range g.skipped {
			skipped[s.m.deriv(i)] = true
		}
	}
	last := -1
	inOrig := map[addr32]bool{}
	for k, a := range s.realGens {
		p, ok := pos[a]
		if !ok || p <= last || inOrig[a] {
			s.violate("restore-mismatch", fmt.Sprintf("generation %d of the original wallet (%s) is not the next element of the restored wallet's sequence (repeated, out of order or foreign)", k+1, s.m.nameOf(a)))
			return
		}
		last = p
		inOrig[a] = true
	}
	for i := 0; i <= last; i++ {
		if !inOrig[got[i]] && !skipped[got[i]] {
			s.violate("restore-mismatch", fmt.Sprintf("the original wallet never generated %s although it was not imported when its turn came", s.m.nameOf(got[i])))
			return
		}
	}
}

// restoreReplay: a second wallet restored from the MDK, given the same successful imports,
// generations and deletions in the same order, must return the same address at every generation and
// end with the same key set.
func (s *sim) restoreReplay(h *handle) {
	mdk, ok := s.exportMDKFor(h)
	if !ok {
		return
	}
	w, cleanup, err := s.newWalletFrom(h.drv, mdk)
	if err != nil {
		s.harness = err.Error()
		return
	}
	defer cleanup()
	s.stat("restore.replay", 1)
	g := 0
	for k, op := range s.m.hist {
		switch op.kind {
		case 'g':
			a, err := w.GenerateKey(false)
			if err != nil {
				s.violate("generate-failed", "GenerateKey on the replayed restored wallet failed: "+err.Error())
				return
			}
			if g >= len(s.realGens) || addr32(a) != s.realGens[g] {
				s.violate("restore-mismatch", fmt.Sprintf("replay on the restored wallet: generation %d (history position %d) returned %s, the original wallet returned %s there", g+1, k, s.m.nameOf(addr32(a)), s.m.nameOf(op.addr)))
				return
			}
			g++
		case 'i':
			if _, err := w.ImportKey(crypto.PrivateKey(s.m.known[op.addr].sk)); err != nil {
				s.violate("import-failed", "ImportKey on the replayed restored wallet failed: "+err.Error())
				return
			}
		case 'd':
			if err := w.DeleteKey(crypto.Digest(op.addr), s.pw); err != nil {
				s.violate("rightpw-rejected", "DeleteKey with the right password on the replayed restored wallet failed: "+err.Error())
				return
			}
		}
	}
	names, dup, err := s.listNames(w)
	want := strings.Join(s.m.sortedNames(), " ")
	if err != nil || dup || strings.Join(names, " ") != want {
		s.violate("restore-mismatch", fmt.Sprintf("replayed restored wallet lists [%s] (err=%v dup=%v), the original lists [%s]", strings.Join(names, " "), err, dup, want))
		return
	}
	s.log.Add("  replay: %d history operations on a restored wallet reproduce all %d generations", len(s.m.hist), g)
}

func (s *sim) run() {
	s.log.Add("config %+v", s.cfg)
	if err := s.setup(); err != nil {
		s.harness = "setup: " + err.Error()
		return
	}
	s.deepCheck("state-mismatch", "after create")
	for s.step = 0; s.step < s.cfg.Ops; s.step++ {
		if s.viol != nil || s.harness != "" {
			return
		}
		s.doStep()
		h := sha256.Sum256([]byte(s.m.stateKey()))
		s.states[hex.EncodeToString(h[:8])] = true
	}
	if s.viol != nil || s.harness != "" {
		return
	}
	// end of run: full state, then the two restore checks
	s.deepCheck("state-mismatch", "end of run")
	h := s.h[0]
	if !h.inited {
		if err := h.w.Init(s.pw); err != nil {
			s.violate("rightpw-rejected", "Init with the right password failed: "+err.Error())
			return
		}
		h.inited = true
	}
	if s.viol == nil {
		s.restorePure(h, 0)
	}
	if s.viol == nil && s.harness == "" {
		s.restoreReplay(h)
	}
	if s.viol == nil && s.harness == "" {
		s.restore++
	}
}

func (s *sim) nontrivial() bool {
	if s.restore == 0 || len(s.realGens) < 2 {
		return false
	}
	st := s.stats
	return st["fault.wrongpw"]+st["fault.crash_reopen"]+st["fault.concurrent_pair"]+st["probe.generation_skipped_imported_key"]+st["probe.import_of_present_key"] > 0
}

func (Engine) Run(t *testing.T, prop, tier string, tape *kernel.Tape, keepLog bool) *kernel.RunResult {
	res := &kernel.RunResult{}
	if prop != "C46" {
		res.HarnessErr = "walletsim decides C46 only, not " + prop
		return res
	}
	runCounter++
	dir := filepath.Join(scratchRoot(), fmt.Sprintf("run%d", runCounter))
	if err := os.MkdirAll(dir, 0o700); err != nil {
		res.HarnessErr = "scratch: " + err.Error()
		return res
	}
	defer os.RemoveAll(dir)
	s := &sim{tape: tape, log: kernel.NewLog(keepLog), dir: dir, stats: map[string]int64{}, states: map[string]bool{}}
	s.cfg = drawConfig(tape, tier)
	func() {
		defer func() {
			if r := recover(); r != nil {
				s.harness = fmt.Sprint("panic: ", r)
			}
		}()
		s.run()
	}()
	res.Steps = s.step
	res.Digest = s.log.Digest()
	res.Stats = s.stats
	res.Violation = s.viol
	res.Known = s.known
	res.HarnessErr = s.harness
	res.Tape = tape.Rec
	res.LogLines = s.log.Lines
	for k := range s.states {
		res.States = append(res.States, k)
	}
	res.Nontrivial = s.nontrivial()
	res.Sample = map[string]any{"config": s.cfg, "ops": s.ops, "generated": len(s.realGens), "keys_at_end": len(s.m0().order), "derivation_index_at_end": s.m0().idx}
	return res
}

// m0 tolerates a run that failed before the model existed.
func (s *sim) m0() *model {
	if s.m == nil {
		return &model{}
	}
	return s.m
}
