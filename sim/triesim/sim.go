// Package triesim is the deterministic-simulation engine for property C17 ("Merkle trie root depends
// only on the element set"): seeded operation sequences against the real crypto/merkletrie Trie and its
// paged cache, over a simulated transactional Committer, compared with an independent reference
// (ref.go) and a plain Go map.
package triesim

import (
	"bytes"
	"crypto/sha256"
	"encoding/binary"
	"encoding/hex"
	"encoding/json"
	"errors"
	"fmt"
	"os"
	"sort"
	"strconv"
	"strings"
	"testing"

	"github.com/algorand/go-algorand/crypto/merkletrie"

	"verif/sim/kernel"
)

const drawN = 1 << 16

// Engine implements kernel.Engine.
type Engine struct{}

func (Engine) Name() string { return "triesim" }

// Config is the per-run configuration, drawn from the cfg.* prefix of the tape.
type Config struct {
	Family     string  `json:"family"` // small | k32 | k37
	KeyLen     int     `json:"key_len"`
	Alphabet   int     `json:"alphabet,omitempty"`
	Pool       int     `json:"pool"`
	NPP        int64   `json:"nodes_per_page"`
	Cache      int     `json:"cached_nodes"`
	Fill       float32 `json:"fill_factor"`
	Thresh     uint64  `json:"max_children_pages"`
	Ops        int     `json:"ops"`
	CheckEvery bool    `json:"root_check_after_every_op"`
	Profile    int     `json:"profile"`
	Reconfig   bool    `json:"reconfig_on_reload"`
	Sidestep   bool    `json:"sidestep_known_tail_page_defect"`
	FCrash     bool    `json:"f_crash"`
	FStore     bool    `json:"f_store_err"`
	FLoad      bool    `json:"f_load_err"`
	FLost      bool    `json:"f_lost_write"`
	FaultW     int     `json:"fault_weight"`
}

var (
	nppOpts    = []int64{116, 2, 3, 4, 5, 7, 8, 16, 32, 64, 512}
	cacheOpts  = []int{9000, 0, 1, 2, 4, 8, 16, 64, 256}
	fillOpts   = []float32{0.95, 0, 0.25, 0.5, 0.75, 1.0}
	threshOpts = []uint64{64, 0, 1, 2, 3, 4, 8, 16}
	// alphabet of the small-universe keys: includes 0x00 and 0xff (the child-list terminator of the
	// node serialisation repeats the last child byte, so the extremes matter) and neighbours
	alphabet = []byte{0x00, 0x01, 0xff, 0x7f, 0x80, 0x02, 0xfe, 0x40, 0x41, 0x10, 0x20, 0xc3}
	// (key length, alphabet size) of the small universes. merkletrie accepts any length, including 1
	// (leaves then carry an empty remainder); the first Add fixes the element length of the trie.
	smallShapes = [][2]int{{3, 3}, {1, 12}, {2, 4}, {4, 2}, {3, 4}, {4, 3}, {5, 2}, {2, 12}, {6, 2}}
)

func drawConfig(tp *kernel.Tape, tier string) (Config, [][]byte) {
	var c Config
	fam := tp.Weighted("cfg.family", []int{2, 1, 1})
	thorough := tier == "thorough"
	var pool [][]byte
	switch fam {
	case 0:
		c.Family = "small"
		sh := smallShapes[tp.Choose("cfg.shape", len(smallShapes))]
		c.KeyLen, c.Alphabet = sh[0], sh[1]
		total := 1
		for i := 0; i < c.KeyLen; i++ {
			total *= c.Alphabet
		}
		u := 6 + tp.Choose("cfg.universe", 5) // 6..10 keys
		if u > total {
			u = total
		}
		// partial Fisher-Yates over all alphabet^len strings
		idx := make([]int, total)
		for i := range idx {
			idx[i] = i
		}
		for i := 0; i < u; i++ {
			j := i + tp.Choose("cfg.pick", total-i)
			idx[i], idx[j] = idx[j], idx[i]
			k := make([]byte, c.KeyLen)
			v := idx[i]
			for p := c.KeyLen - 1; p >= 0; p-- {
				k[p] = alphabet[v%c.Alphabet]
				v /= c.Alphabet
			}
			pool = append(pool, k)
		}
	default:
		c.Family, c.KeyLen = "k32", 32
		if fam == 2 {
			c.Family, c.KeyLen = "k37", 37
		}
		sizes := []int{24, 8, 12, 16, 48, 96, 160}
		if thorough {
			sizes = []int{64, 16, 32, 128, 256, 512, 1024, 2048}
		}
		n := sizes[tp.Choose("cfg.pool", len(sizes))]
		seed := tp.Choose("cfg.keyseed", drawN)
		pool = derivePool(c.KeyLen, n, uint64(seed))
	}
	c.Pool = len(pool)
	c.NPP = nppOpts[tp.Choose("cfg.npp", len(nppOpts))]
	c.Cache = cacheOpts[tp.Choose("cfg.cache", len(cacheOpts))]
	c.Fill = fillOpts[tp.Choose("cfg.fill", len(fillOpts))]
	c.Thresh = threshOpts[tp.Choose("cfg.thresh", len(threshOpts))]
	if thorough {
		c.Ops = tp.Range("cfg.ops", 300, 3000)
	} else {
		c.Ops = tp.Range("cfg.ops", 50, 300)
	}
	c.CheckEvery = tp.Choose("cfg.checkevery", 4) == 3
	c.Profile = tp.Choose("cfg.profile", 5)
	c.Reconfig = tp.Choose("cfg.reconfig", 2) == 1
	c.Sidestep = tp.Choose("cfg.sidestep", 2) == 1 || os.Getenv("TRIESIM_AVOID_KNOWN") != ""
	c.FCrash = tp.Choose("cfg.f.crash", 2) == 1
	c.FStore = tp.Choose("cfg.f.store", 2) == 1
	c.FLoad = tp.Choose("cfg.f.load", 2) == 1
	c.FLost = tp.Choose("cfg.f.lost", 2) == 1
	c.FaultW = []int{10, 4, 25}[tp.Choose("cfg.frate", 3)]
	if v, err := strconv.Atoi(os.Getenv("TRIESIM_FORCE_CACHE")); err == nil {
		// analysis aid: pin CachedNodesCount (and keep it across reloads) to ask "does X need a small cache?"
		c.Cache, c.Reconfig = v, false
	}
	return c, pool
}

// derivePool makes n distinct keys of length klen from seed (no tape draws: a pure function of seed).
// About a third of the keys copy a prefix of random length from an earlier key and differ at the next
// byte, so that deep single-child chains, multi-level collapses and wide fan-outs all occur. 37-byte
// keys have the shape of catchpoint account hashes: 4-byte big-endian small integer, 1-byte kind, 32
// bytes of hash.
func derivePool(klen, n int, seed uint64) [][]byte {
	seen := map[string]bool{}
	var pool [][]byte
	for ctr := uint64(0); len(pool) < n; ctr++ {
		var in [16]byte
		binary.BigEndian.PutUint64(in[:8], seed)
		binary.BigEndian.PutUint64(in[8:], ctr)
		h := sha256.Sum256(in[:])
		h2 := sha256.Sum256(h[:])
		k := make([]byte, klen)
		if klen == 37 {
			binary.BigEndian.PutUint32(k[:4], uint32(h2[0]%6))
			k[4] = h2[1] % 4
			copy(k[5:], h[:])
		} else {
			copy(k, h[:])
			for i := 32; i < klen; i++ {
				k[i] = h2[i-32]
			}
		}
		if len(pool) > 0 && h2[2]%3 == 0 {
			parent := pool[int(binary.BigEndian.Uint16(h2[3:5]))%len(pool)]
			var l int
			switch h2[5] % 4 {
			case 0:
				l = klen - 1 // differ in the last byte only
			case 1:
				l = klen/2 + int(h2[6])%(klen/2)
			default:
				l = 1 + int(h2[6])%8
			}
			if l > klen-1 {
				l = klen - 1
			}
			copy(k[:l], parent[:l])
			k[l] = parent[l] ^ (1 + h2[7]%255)
		}
		if seen[string(k)] {
			continue
		}
		seen[string(k)] = true
		pool = append(pool, k)
	}
	return pool
}

// ---------------------------------------------------------------------------------------------------

// keyset is the model: a Go map for membership plus the sorted key list the reference hash needs.
type keyset struct {
	m      map[string]struct{}
	sorted [][]byte
}

func newKeyset(sorted [][]byte) *keyset {
	k := &keyset{m: make(map[string]struct{}, len(sorted)), sorted: append([][]byte(nil), sorted...)}
	for _, x := range sorted {
		k.m[string(x)] = struct{}{}
	}
	return k
}

func (k *keyset) has(key []byte) bool { _, ok := k.m[string(key)]; return ok }
func (k *keyset) pos(key []byte) int {
	return sort.Search(len(k.sorted), func(i int) bool { return bytes.Compare(k.sorted[i], key) >= 0 })
}
func (k *keyset) add(key []byte) {
	i := k.pos(key)
	k.sorted = append(k.sorted, nil)
	copy(k.sorted[i+1:], k.sorted[i:])
	k.sorted[i] = key
	k.m[string(key)] = struct{}{}
}
func (k *keyset) del(key []byte) {
	i := k.pos(key)
	k.sorted = append(k.sorted[:i], k.sorted[i+1:]...)
	delete(k.m, string(key))
}
func (k *keyset) snapshot() [][]byte { return append([][]byte(nil), k.sorted...) }

func lcp(a, b []byte) int {
	i := 0
	for i < len(a) && i < len(b) && a[i] == b[i] {
		i++
	}
	return i
}

// groupSize counts the keys of the sorted list that share key[:d] (key itself included if present).
func groupSize(sorted [][]byte, key []byte, d int) int {
	i := sort.Search(len(sorted), func(i int) bool { return bytes.Compare(sorted[i], key) >= 0 })
	n := 0
	for j := i - 1; j >= 0 && lcp(sorted[j], key) >= d; j-- {
		n++
	}
	for j := i; j < len(sorted) && lcp(sorted[j], key) >= d; j++ {
		n++
	}
	return n
}

// ---------------------------------------------------------------------------------------------------

const (
	opRoot = iota
	opAdd
	opDelete
	opCommit
	opTxCommit
	opEvictCommit
	opEvictNoCommit
	opReload
	nOps
)

var opNames = [nOps]string{"roothash", "add", "delete", "commit", "txcommit", "evict(commit)", "evict(nocommit)", "reload"}

const (
	fNone = iota
	fCrash
	fStoreAll
	fStoreKth
	fStoreRoot
	fLoadAll
	fLoadKth
	fLost
	nFaults
)

var faultNames = [nFaults]string{"none", "crash", "store_err_all", "store_err_kth", "store_err_root", "load_err_all", "load_err_kth", "lost_write"}

// which faults make sense with which operation (others would be plain crashes; they are turned into
// "no fault" so that the step stays productive)
func faultApplies(f, op int) bool {
	switch f {
	case fCrash:
		return true
	case fStoreAll, fStoreKth, fStoreRoot:
		return op == opCommit || op == opRoot || op == opEvictCommit || op == opTxCommit
	case fLost:
		return op == opCommit || op == opRoot || op == opEvictCommit
	case fLoadAll, fLoadKth:
		return op == opAdd || op == opDelete || op == opRoot || op == opCommit || op == opEvictCommit || op == opReload
	}
	return false
}

var profiles = [][nOps]int{
	{10, 35, 25, 8, 6, 5, 5, 4},  // balanced
	{2, 50, 35, 2, 2, 2, 1, 2},   // large batches between commits
	{8, 30, 25, 6, 6, 12, 8, 5},  // evict-heavy
	{6, 55, 8, 7, 6, 5, 4, 4},    // sawtooth, growing phase (shrinking phase swaps add/delete)
	{5, 30, 25, 20, 10, 4, 3, 3}, // commit every few operations
}

type sim struct {
	tape *kernel.Tape
	log  *kernel.Log
	cfg  Config
	pool [][]byte

	d    *disk
	v    *view
	trie *merkletrie.Trie
	mem  merkletrie.MemoryConfig

	cur       *keyset  // the set the trie must represent now
	committed [][]byte // the set as of the last successful trie-level commit (visible through the open transaction)
	durable   [][]byte // the set as of the last transaction commit (what a crash falls back to)
	dirty     bool     // a successful Add/Delete happened since the last trie-level commit

	step            int
	stats           map[string]int64
	viol            *kernel.Violation
	harness         string
	states          []string
	ops             []string
	mech            int  // commits + evicts + reloads performed
	mechLoop        int  // ... of which during the drawn operation sequence (the epilogue always adds some)
	nonEmpty        bool // a root check passed on a non-empty set
	shrinking       bool // profile 3: currently in the delete-heavy phase
	lastLine        string
	repeats         int
	poisoned        bool     // known-finding attribution: a commit ran while the partly filled tail page was evicted (see beforeCommit)
	poisonedDurable bool     // ... and that commit's pages became durable with a transaction commit
	rearmLater      bool     // rearm() was asked for while a fault was armed
	trace           bool     // debugging aid (dump_test.go): record every operation with the full key
	traceOps        []string // never logged, never influences the run
}

func (s *sim) stat(k string, d int64) { s.stats[k] += d }

func (s *sim) violate(oracle, key, detail string) {
	if s.viol == nil {
		s.flushRepeats()
		if key == "" && s.poisoned {
			key = KnownTailPage
		}
		s.viol = &kernel.Violation{Property: "C17", Oracle: oracle, Key: key, Detail: detail, Step: s.step}
		s.log.Add("VIOLATION %s: %s", oracle, detail)
	}
}

// pickW maps a raw 16-bit draw onto weighted options (option 0 must be the benign one, weight > 0).
func pickW(raw int, w []int) int {
	tot := 0
	for _, x := range w {
		if x > 0 {
			tot += x
		}
	}
	if tot == 0 {
		return 0
	}
	v := raw % tot
	for i, x := range w {
		if x <= 0 {
			continue
		}
		if v < x {
			return i
		}
		v -= x
	}
	return 0
}

// guard runs f and turns a panic of the code under test into a string.
func guard(f func()) (panicked string) {
	defer func() {
		if r := recover(); r != nil {
			panicked = fmt.Sprint(r)
		}
	}()
	f()
	return ""
}

func (s *sim) memString() string {
	return fmt.Sprintf("npp=%d cache=%d fill=%.2f thr=%d", s.mem.NodesCountPerPage, s.mem.CachedNodesCount, s.mem.PageFillFactor, s.mem.MaxChildrenPagesThreshold)
}

// makeTrie builds a fresh Trie over a fresh view of the simulated disk (what MakeTrie over a new
// transaction's MerkleCommitter does in catchpointtracker.go). Returns a description of a failure.
func (s *sim) makeTrie() (failure string) {
	if s.v != nil {
		s.v.closed = true
	}
	s.v = &view{d: s.d}
	s.d.watchOn = false // MakeTrie arranges the deferred load of a partly filled tail page itself
	var err error
	p := guard(func() { s.trie, err = merkletrie.MakeTrie(s.v, s.mem) })
	if p != "" {
		return "panic: " + p
	}
	if err != nil {
		return err.Error()
	}
	return ""
}

// verifyRoot compares Trie.RootHash with the reference hash of the model set. RootHash commits pending
// changes, so a success is a trie-level commit point. It returns false if the call failed (err/panic are
// handed back to the caller, which knows whether a fault was armed).
func (s *sim) verifyRoot(oracle, ctx string) (ok bool, err error, panicked string) {
	var got [32]byte
	if len(s.cur.sorted) > 0 {
		s.beforeCommit()
	}
	panicked = guard(func() {
		h, e := s.trie.RootHash()
		got, err = h, e
	})
	if panicked != "" || err != nil {
		return false, err, panicked
	}
	want := refRoot(s.cur.sorted)
	if got != want {
		s.violate(oracle, "", fmt.Sprintf("%s: RootHash=%s but the reference hash of the %d-element set is %s (%s)",
			ctx, hex.EncodeToString(got[:8]), len(s.cur.sorted), hex.EncodeToString(want[:8]), s.memString()))
		return false, nil, ""
	}
	if len(s.cur.sorted) > 0 {
		// RootHash of an EMPTY trie returns the zero digest without committing pending deletions
		// (trie.go: root == null short-cut), so only a non-empty success is a commit point.
		s.commitPoint()
		s.rearm()
		s.nonEmpty = true
	}
	if len(s.states) < 6 {
		s.states = append(s.states, hex.EncodeToString(want[:10])+"/"+s.memString())
	}
	return true, nil, ""
}

// KnownTailPage is the stable key of a genuine defect of the unchanged tree (findings/C17-evict-tail-page):
// a commit that leaves the next node id in the middle of a page stores that partly filled page; if
// Evict then drops the page from the cache (small CachedNodesCount), later allocations re-create the
// page in memory WITHOUT loading it (only MakeTrie arranges a deferred load), and the next commit
// overwrites or deletes the stored page, losing its committed nodes. A run in which a commit ran in
// exactly that situation is "poisoned": its store may be corrupt, and any violation it then shows is
// attributed to this key. Attribution only; the oracles are unchanged.
const KnownTailPage = "evict-drops-partial-tail-page"

// rearm re-evaluates the hazard. Only called when the trie has no pending changes (right after a
// successful commit or evict), when "the cache holds the tail page" cannot be faked by new allocations.
func (s *sim) rearm() {
	if s.d.plan.kind != fkNone {
		s.rearmLater = true // a fault is armed (root check of a fault step): evaluate after it is disarmed
		return
	}
	s.rearmLater = false
	page, partial, cached, deferred := s.trie.VerifTailPage()
	if !(partial && !cached && !deferred && s.d.has(page)) {
		// no hazard: page-aligned, or still cached, or its load is scheduled, or nothing of it is stored
		// (a fresh trie starts at a non-aligned identifier without any stored page)
		s.d.watchOn = false
		return
	}
	if s.cfg.Sidestep {
		// Half of the runs step around the known defect so that they keep full sensitivity and a
		// map-order-independent log: the trie has no pending changes here, so re-making it over the same
		// open transaction is invisible to the model (MakeTrie schedules the deferred load of the partly
		// filled tail page, which is exactly what Evict forgets). Whether this happens depends on which
		// pages the LRU evicted, i.e. on Go map iteration order inside the cache, so it is not logged.
		s.stat("known_tail_page_sidesteps", 1)
		if f := s.makeTrie(); f != "" {
			s.violate("reload-error", "", "MakeTrie over the open transaction (no pending changes, no fault) failed: "+f)
		}
		return
	}
	// (re)start the watch: the page is out of the cache NOW, whatever was loaded before
	if !(s.d.watchOn && s.d.watchPg == page && !s.d.watchHit) {
		s.stat("known_tail_page_evicted", 1)
	}
	s.d.watchOn, s.d.watchPg, s.d.watchHit = true, page, false
}

// beforeCommit is called before anything that commits pending changes.
func (s *sim) beforeCommit() {
	if s.dirty && s.d.watchOn && !s.d.watchHit && !s.poisoned {
		s.poisoned = true
		s.stat("known_tail_page_hazard_commits", 1)
	}
}

func (s *sim) commitPoint() {
	s.committed = s.cur.snapshot()
	s.dirty = false
}

func (s *sim) reconfig(rB int) {
	if !s.cfg.Reconfig || rB == 0 {
		return
	}
	s.mem.CachedNodesCount = cacheOpts[rB%len(cacheOpts)]
	s.mem.PageFillFactor = fillOpts[(rB/16)%len(fillOpts)]
	s.mem.MaxChildrenPagesThreshold = threshOpts[(rB/128)%len(threshOpts)]
	s.stat("reconfig", 1)
}

// abort is what the real callers do after a crash or after ANY error: the open transaction is rolled
// back, the in-memory trie is dropped and a new one is made over the durable store. The trie must then
// represent exactly the set as of the last transaction commit (oracle iii / iv).
func (s *sim) abort(why string) {
	s.d.disarm()
	s.d.rollback()
	if f := s.makeTrie(); f != "" {
		s.violate("reload-error", "", fmt.Sprintf("MakeTrie over the durable store failed after %s (no fault armed): %s", why, f))
		return
	}
	s.cur = newKeyset(s.durable)
	s.committed = s.cur.snapshot()
	s.dirty = false
	s.poisoned = s.poisonedDurable // the rollback also undid a poisoning commit that was not yet durable
	s.mech++
	s.stat("crash_reload", 1)
	ok, err, p := s.verifyRoot("crash-reload-mismatch", "after "+why+" + reload from the durable store")
	if !ok && s.viol == nil {
		s.violate("reload-error", "", fmt.Sprintf("RootHash of the trie reloaded from the durable store after %s failed (no fault armed): err=%v panic=%q", why, err, p))
	}
}

func (s *sim) opWeights() []int {
	p := profiles[s.cfg.Profile]
	w := append([]int(nil), p[:]...)
	if s.cfg.Profile == 3 {
		// hysteresis on the model's set size (not on the step index, so that deleting steps while
		// shrinking a tape does not re-map the remaining ones more than necessary)
		if s.shrinking && len(s.cur.sorted) == 0 {
			s.shrinking = false
		} else if !s.shrinking && len(s.cur.sorted) >= (3*len(s.pool)+3)/4 {
			s.shrinking = true
		}
		if s.shrinking {
			w[opAdd], w[opDelete] = w[opDelete], w[opAdd]
		}
	}
	return w
}

func (s *sim) keyName(k []byte) string {
	if len(k) <= 6 {
		return hex.EncodeToString(k)
	}
	return hex.EncodeToString(k[:3]) + ".." + hex.EncodeToString(k[len(k)-2:])
}

// oneStep performs one operation. Every step consumes exactly five decisions
// (step.fault, step.op, step.key, step.a, step.b) so that the tape is rectangular.
func (s *sim) oneStep() {
	tp := s.tape
	c := &s.cfg
	base := len(tp.Rec)
	rF := tp.Choose("step.fault", drawN)
	rOp := tp.Choose("step.op", drawN)
	rK := tp.Choose("step.key", drawN)
	rA := tp.Choose("step.a", drawN)
	rB := tp.Choose("step.b", drawN)
	var eff [5]int
	defer func() {
		for j := 0; j < 5; j++ {
			tp.Canon(base+j, eff[j])
		}
	}()

	op := pickW(rOp, s.opWeights())
	if op != opRoot {
		eff[1] = rOp
	}
	fw := make([]int, nFaults)
	fw[fNone] = 1000
	if c.FCrash {
		fw[fCrash] = c.FaultW
	}
	if c.FStore {
		fw[fStoreAll], fw[fStoreKth], fw[fStoreRoot] = c.FaultW, c.FaultW, c.FaultW
	}
	if c.FLoad {
		fw[fLoadAll], fw[fLoadKth] = c.FaultW, c.FaultW
	}
	if c.FLost {
		fw[fLost] = c.FaultW
	}
	fault := pickW(rF, fw)
	if fault != fNone && !faultApplies(fault, op) {
		fault = fNone
	}
	if fault != fNone {
		eff[0] = rF
	}

	// key
	var key []byte
	switch op {
	case opAdd:
		key = s.pool[rK%len(s.pool)]
		eff[2] = rK
	case opDelete:
		if rK&3 != 0 && len(s.cur.sorted) > 0 {
			key = s.cur.sorted[(rK>>2)%len(s.cur.sorted)]
		} else {
			key = s.pool[(rK>>2)%len(s.pool)]
		}
		eff[2] = rK
	}

	// fault plan
	plan := faultPlan{}
	switch fault {
	case fStoreAll:
		plan.kind = fkStoreAll
	case fStoreKth:
		plan = faultPlan{fkStoreKth, 1 + rA%6}
		eff[3] = rA
	case fStoreRoot:
		plan.kind = fkStoreRoot
	case fLoadAll:
		plan.kind = fkLoadAll
	case fLoadKth:
		plan = faultPlan{fkLoadKth, 1 + rA%4}
		eff[3] = rA
	case fLost:
		plan = faultPlan{fkLostKth, 1 + rA%6}
		eff[3] = rA
	}
	if fault != fNone {
		s.stat("fault_"+faultNames[fault]+"_armed", 1)
	}
	s.stat("op_"+opNames[op], 1)

	desc := opNames[op]
	if key != nil {
		desc += " " + s.keyName(key)
	}
	if fault != fNone {
		desc += " [fault " + faultNames[fault]
		if plan.k > 0 {
			desc += fmt.Sprintf(" k=%d", plan.k)
		}
		desc += "]"
	}

	if s.trace {
		s.traceOps = append(s.traceOps, fmt.Sprintf("%d\t%s\t%s\t%s", s.step, opNames[op], hex.EncodeToString(key), faultNames[fault]))
	}
	// ---- execute
	wasDirty := s.dirty
	s.d.arm(plan)
	var (
		okRet    bool
		err      error
		panicked string
		outcome  string
		cstats   merkletrie.CommitStats
		evicted  int
	)
	switch op {
	case opAdd:
		arg := append([]byte(nil), key...) // the trie keeps the slice of the first element: hand it its own copy
		panicked = guard(func() { okRet, err = s.trie.Add(arg) })
	case opDelete:
		arg := append([]byte(nil), key...)
		panicked = guard(func() { okRet, err = s.trie.Delete(arg) })
	case opRoot:
		// handled by verifyRoot below
	case opCommit:
		s.beforeCommit()
		panicked = guard(func() { cstats, err = s.trie.Commit() })
	case opTxCommit:
		if plan.kind == fkStoreAll || plan.kind == fkStoreKth || plan.kind == fkStoreRoot {
			err = errInjected // the database refuses to commit the transaction
			s.d.fired++
		}
	case opEvictCommit:
		s.beforeCommit()
		panicked = guard(func() { evicted, err = s.trie.Evict(true) })
	case opEvictNoCommit:
		panicked = guard(func() { evicted, err = s.trie.Evict(false) })
	case opReload:
		// a new Trie over the SAME open transaction (catchpointtracker drops balancesTrie and re-makes it):
		// pending in-memory changes are gone, everything committed at trie level is visible.
		s.reconfig(rB)
		if s.cfg.Reconfig && rB != 0 {
			eff[4] = rB
		}
		if f := s.makeTrie(); f != "" {
			if len(f) > 7 && f[:7] == "panic: " {
				panicked = f[7:]
			} else {
				err = errors.New(f)
			}
		} else {
			s.cur = newKeyset(s.committed)
			s.dirty = false
			s.mech++
		}
	}
	var rootOK bool
	if op == opRoot && panicked == "" {
		rootOK, err, panicked = s.verifyRoot("root-mismatch", fmt.Sprintf("step %d roothash", s.step))
	}
	fired := s.d.fired > 0
	s.d.disarm()
	if s.rearmLater && panicked == "" && s.viol == nil {
		s.rearm()
	}
	if fault != fNone && fired {
		s.stat("fault_"+faultNames[fault]+"_fired", 1)
	}

	// ---- judge
	if panicked != "" {
		s.violate("panic", "", fmt.Sprintf("step %d %s: panic in merkletrie: %s (%s)", s.step, desc, panicked, s.memString()))
		s.note(desc + " -> PANIC")
		return
	}
	if s.viol != nil {
		s.note(desc + " -> VIOLATION")
		return
	}
	failed := err != nil && !(op == opEvictNoCommit && errors.Is(err, merkletrie.ErrUnableToEvictPendingCommits))
	if failed && fault == fNone {
		s.violate("unexpected-error", "", fmt.Sprintf("step %d %s: failed without any injected fault: %v (%s)", s.step, desc, err, s.memString()))
		s.note(desc + " -> ERROR")
		return
	}
	if !failed {
		switch op {
		case opAdd, opDelete:
			want := !s.cur.has(key)
			if op == opDelete {
				want = !want
			}
			if okRet != want {
				s.violate("membership", "", fmt.Sprintf("step %d %s returned %v but membership in the model says %v (set size %d, %s)", s.step, desc, okRet, want, len(s.cur.sorted), s.memString()))
				s.note(desc + " -> VIOLATION")
				return
			}
			if okRet {
				s.probe(op, key)
				if op == opAdd {
					s.cur.add(key)
				} else {
					s.cur.del(key)
				}
				s.dirty = true
			}
			outcome = fmt.Sprint(okRet)
		case opRoot:
			_ = rootOK
			outcome = fmt.Sprintf("ok n=%d", len(s.cur.sorted))
		case opCommit:
			s.commitPoint()
			s.rearm()
			s.mech++
			s.commitStats(cstats)
			outcome = "ok"
		case opTxCommit:
			// the open transaction commits: everything committed at trie level becomes durable; the trie
			// gets the next transaction's committer.
			s.d.txCommit()
			s.durable = append([][]byte(nil), s.committed...)
			s.poisonedDurable = s.poisoned
			s.v.closed = true
			s.v = &view{d: s.d}
			s.trie.SetCommitter(s.v)
			outcome = fmt.Sprintf("ok durable n=%d", len(s.durable))
		case opEvictCommit:
			s.commitPoint()
			s.rearm()
			s.mech++
			if evicted > 0 {
				s.stat("probe_evicted_nodes", int64(evicted))
				s.stat("probe_evict_nonempty", 1)
			}
			outcome = "ok"
		case opEvictNoCommit:
			if err != nil {
				outcome = "pending-commits"
			} else {
				s.rearm()
				s.mech++
				if evicted > 0 {
					s.stat("probe_evicted_nodes", int64(evicted))
					s.stat("probe_evict_nonempty", 1)
				}
				outcome = "ok"
			}
		case opReload:
			outcome = fmt.Sprintf("ok n=%d", len(s.cur.sorted))
		}
	}

	if fault == fNone {
		s.note(desc + " -> " + outcome)
		if op == opReload {
			ok, e, p := s.verifyRoot("reload-mismatch", fmt.Sprintf("step %d after reload over the open transaction", s.step))
			if !ok && s.viol == nil {
				s.violate("reload-error", "", fmt.Sprintf("step %d: RootHash after reload failed without a fault: err=%v panic=%q", s.step, e, p))
			}
		} else if c.CheckEvery && op != opRoot {
			ok, e, p := s.verifyRoot("root-mismatch", fmt.Sprintf("step %d after %s", s.step, desc))
			if !ok && s.viol == nil {
				s.violate("unexpected-error", "", fmt.Sprintf("step %d: RootHash after %s failed without a fault: err=%v panic=%q", s.step, desc, e, p))
			}
		}
		return
	}

	// ---- a fault accompanied the operation. Whether it fired, and whether the operation then failed,
	// can depend on the page layout (which the trie derives from Go map iteration order), so neither is
	// logged nor allowed to influence the model: results of an operation that reported success were
	// checked above; now the run does what the real callers do after an error or crash.
	if op == opRoot && !wasDirty && (fault == fLoadAll || fault == fLoadKth) {
		// RootHash of an unmodified trie only reads; catchpointtracker.accountsUpdateBalances keeps using
		// the trie after such a failure. No abort: the trie must stay usable.
		s.note(desc + " -> tolerated (read-only)")
		return
	}
	s.note(desc + " -> abort")
	s.reconfig(rB)
	if s.cfg.Reconfig && rB != 0 {
		eff[4] = rB
	}
	s.abort(faultNames[fault] + " at step " + fmt.Sprint(s.step))
}

// note logs one step. Runs of identical lines (the all-zero "roothash" steps a shrunk tape is padded
// with) are folded into one "repeated" line so that the log tail kept in a replay file stays readable.
func (s *sim) note(line string) {
	if line == s.lastLine {
		s.repeats++
		return
	}
	s.flushRepeats()
	s.lastLine = line
	s.log.Add("%d %s", s.step, line)
	if len(s.ops) < 30 {
		s.ops = append(s.ops, line)
	}
}

func (s *sim) flushRepeats() {
	if s.repeats > 0 {
		s.log.Add("  (previous line repeated for %d more steps)", s.repeats)
		s.repeats = 0
	}
	s.lastLine = ""
}

func (s *sim) commitStats(cs merkletrie.CommitStats) {
	if cs.FanoutReallocatedNodeCount > 0 {
		s.stat("probe_fanout_realloc_commits", 1)
	}
	if cs.PackingReallocatedNodeCount > 0 {
		s.stat("probe_packing_realloc_commits", 1)
	}
	if cs.DeletedPageCount > 0 {
		s.stat("probe_page_deleted_commits", 1)
	}
	if cs.UpdatedPageCount > 0 {
		s.stat("probe_page_updated_commits", 1)
	}
	if cs.LoadedPages > 0 {
		s.stat("probe_commit_loaded_pages", 1)
	}
}

// probe records, from the MODEL only, which structural case a successful add/delete exercised.
func (s *sim) probe(op int, key []byte) {
	sorted := s.cur.sorted
	if op == opDelete {
		if len(sorted) == 1 {
			s.stat("probe_delete_last_element", 1)
			return
		}
		i := s.cur.pos(key)
		d := 0
		if i > 0 {
			d = lcp(sorted[i-1], key)
		}
		if i+1 < len(sorted) {
			if l := lcp(sorted[i+1], key); l > d {
				d = l
			}
		}
		if groupSize(sorted, key, d) == 2 {
			s.stat("probe_delete_collapse", 1)
			if d >= 1 && groupSize(sorted, key, d-1) == 2 {
				s.stat("probe_delete_collapse_cascade", 1)
			}
		}
		return
	}
	if len(sorted) == 0 {
		s.stat("probe_add_first_element", 1)
		return
	}
	i := s.cur.pos(key)
	d, other := -1, -1
	if i > 0 {
		d, other = lcp(sorted[i-1], key), i-1
	}
	if i < len(sorted) {
		if l := lcp(sorted[i], key); l > d {
			d, other = l, i
		}
	}
	// depth of the leaf that holds `other` before the add
	e := 0
	if other > 0 {
		e = lcp(sorted[other-1], sorted[other]) + 1
	}
	if other+1 < len(sorted) {
		if l := lcp(sorted[other+1], sorted[other]) + 1; l > e {
			e = l
		}
	}
	if d >= e {
		s.stat("probe_add_splits_leaf", 1)
		if d > e {
			s.stat("probe_add_split_chain", 1)
		}
	} else {
		s.stat("probe_add_new_child", 1)
	}
}

func (s *sim) run() {
	s.log.Add("config %+v", s.cfg)
	if f := s.makeTrie(); f != "" {
		s.violate("reload-error", "", "MakeTrie over an empty store failed: "+f)
		return
	}
	for s.step = 0; s.step < s.cfg.Ops; s.step++ {
		if s.viol != nil || s.harness != "" {
			return
		}
		s.oneStep()
		if len(s.cur.m) != len(s.cur.sorted) {
			s.harness = "model map and sorted list disagree"
			return
		}
	}
	if s.viol != nil {
		return
	}
	s.mechLoop = s.mech
	// epilogue (no tape draws, no faults): the final set must hash right, and a full
	// commit + transaction commit + crash + reload must bring back exactly the final set.
	ok, err, p := s.verifyRoot("root-mismatch", "end of run")
	if !ok {
		if s.viol == nil {
			s.violate("unexpected-error", "", fmt.Sprintf("end of run: RootHash failed without a fault: err=%v panic=%q", err, p))
		}
		return
	}
	var cerr error
	s.beforeCommit()
	if p := guard(func() { _, cerr = s.trie.Commit() }); p != "" || cerr != nil {
		s.violate("unexpected-error", "", fmt.Sprintf("end of run: Commit failed without a fault: err=%v panic=%q", cerr, p))
		return
	}
	s.commitPoint()
	s.d.txCommit()
	s.durable = append([][]byte(nil), s.committed...)
	s.poisonedDurable = s.poisoned
	s.flushRepeats()
	s.log.Add("final n=%d", len(s.cur.sorted))
	s.abort("end-of-run crash")
}

func (s *sim) sample() any {
	return map[string]any{"config": s.cfg, "first_ops": s.ops, "steps": s.step, "final_set_size": len(s.cur.sorted), "tape_len": len(s.tape.Rec)}
}

var knownCache map[string]bool

// knownOpen returns the keys of C17's open known findings: known_findings.json (VERIF_KNOWN_FILE, default
// /verif/known_findings.json; read only) plus TRIESIM_KNOWN=key[,key] (used before a finding is listed).
func knownOpen() map[string]bool {
	if knownCache != nil {
		return knownCache
	}
	knownCache = map[string]bool{}
	for _, k := range strings.Split(os.Getenv("TRIESIM_KNOWN"), ",") {
		if k != "" {
			knownCache[k] = true
		}
	}
	path := os.Getenv("VERIF_KNOWN_FILE")
	if path == "" {
		path = "/verif/known_findings.json"
	}
	if b, err := os.ReadFile(path); err == nil {
		var f struct {
			Findings []struct {
				Property, Status, Key string
			} `json:"findings"`
		}
		if json.Unmarshal(b, &f) == nil {
			for _, e := range f.Findings {
				if e.Property == "C17" && (e.Status == "" || e.Status == "open") && e.Key != "" {
					knownCache[e.Key] = true
				}
			}
		}
	}
	return knownCache
}

// emitted caps the distinct-state digests reported per worker process (the driver drops a worker's
// state set above 20000 entries); it never influences a run.
var emitted = map[string]bool{}

func newSim(tape *kernel.Tape, tier string, keepLog bool) *sim {
	s := &sim{tape: tape, log: kernel.NewLog(keepLog), stats: map[string]int64{}, d: newDisk()}
	s.cfg, s.pool = drawConfig(tape, tier)
	s.mem = merkletrie.MemoryConfig{NodesCountPerPage: s.cfg.NPP, CachedNodesCount: s.cfg.Cache, PageFillFactor: s.cfg.Fill, MaxChildrenPagesThreshold: s.cfg.Thresh}
	s.cur = newKeyset(nil)
	return s
}

func (Engine) Run(t *testing.T, prop, tier string, tape *kernel.Tape, keepLog bool) *kernel.RunResult {
	res := &kernel.RunResult{}
	if prop != "C17" {
		res.HarnessErr = "triesim decides only C17, not " + prop
		return res
	}
	s := newSim(tape, tier, keepLog)
	if p := guard(s.run); p != "" {
		res.HarnessErr = "panic in harness: " + p
	}
	s.stat("store_calls", s.d.nStore)
	s.stat("load_calls", s.d.nLoad)
	s.stat("page_deletes", s.d.nDelete)
	if s.d.nLoad > int64(s.stats["crash_reload"]+s.stats["op_reload"]+1) {
		s.stat("probe_runs_with_page_load_from_store", 1)
	}
	res.Steps = s.step
	res.Digest = s.log.Digest()
	res.Stats = s.stats
	res.Violation = s.viol
	if s.viol != nil && s.viol.Key != "" && knownOpen()[s.viol.Key] {
		// a genuine defect listed as an open known finding: reported (the driver prints KNOWN-FINDING),
		// not failing, and the batch goes on. An unlisted key stays a VIOLATION.
		res.Known = append(res.Known, *s.viol)
		res.Violation = nil
		res.Stats["known_finding_runs"] = 1
	}
	if s.viol != nil && os.Getenv("TRIESIM_SURVEY") != "" && (s.viol.Key != "" || os.Getenv("TRIESIM_SURVEY") == "all") {
		// analysis aid: keep going after a violation and only count its class
		res.Violation = nil
		res.Stats["survey_"+s.viol.Oracle+"_"+s.viol.Key] = 1
		d := s.viol.Detail
		if len(d) > 400 {
			d = d[:400]
		}
		res.Known = append(res.Known, kernel.Violation{Property: "C17", Oracle: s.viol.Oracle, Key: s.viol.Key, Detail: fmt.Sprintf("%+v | %s", s.cfg, d), Step: s.viol.Step})
	}
	res.Tape = tape.Rec
	res.LogLines = s.log.Lines
	if s.harness != "" {
		res.HarnessErr = s.harness
	}
	res.Nontrivial = s.mechLoop > 0 && s.nonEmpty
	for _, st := range s.states {
		if len(emitted) < 20000 || emitted[st] {
			emitted[st] = true
			res.States = append(res.States, st)
		}
	}
	res.Sample = s.sample()
	return res
}
