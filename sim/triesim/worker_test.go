package triesim

import (
	"runtime/debug"
	"testing"

	"verif/sim/kernel"
)

func TestWorker(t *testing.T) {
	// Trie.Commit allocates a 768 KiB encode buffer per call; with the default GC target the worker
	// spends a third of its time in GC bookkeeping. The live heap of a run is a few MiB at most.
	debug.SetGCPercent(1000)
	kernel.WorkerMain(t, Engine{})
}
