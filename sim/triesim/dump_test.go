package triesim

import (
	"encoding/json"
	"fmt"
	"os"
	"testing"

	"verif/sim/kernel"
)

// TestDumpReplay is a debugging aid, not part of any check: TRIESIM_DUMP=<replay.json> prints the
// operation list of a replay file with full keys (the event log abbreviates 32/37-byte keys).
func TestDumpReplay(t *testing.T) {
	path := os.Getenv("TRIESIM_DUMP")
	if path == "" {
		t.Skip("TRIESIM_DUMP not set")
	}
	b, err := os.ReadFile(path)
	if err != nil {
		t.Fatal(err)
	}
	var rep kernel.Replay
	if err := json.Unmarshal(b, &rep); err != nil {
		t.Fatal(err)
	}
	s := newSim(kernel.ReplayTape(rep.Tape, true), rep.Tier, true)
	s.trace = true
	s.run()
	fmt.Printf("config %+v\n", s.cfg)
	for _, l := range s.traceOps {
		fmt.Println(l)
	}
	fmt.Printf("violation: %+v\n", s.viol)
}
