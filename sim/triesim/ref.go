package triesim

import "crypto/sha512"

// Independent reference for the root hash of a merkletrie over a SET of equal-length keys.
//
// It is written from the documented/serialised node format of crypto/merkletrie (node.go:
// calculateHash, trie.go: RootHash) but shares no code with it: it uses crypto/sha512 from the
// standard library directly (crypto.Hash in go-algorand is SHA-512/256) and works on the sorted key
// set, never on trie nodes, node ids or pages.
//
// Shape of the canonical trie for a key set S (all keys of one length L):
//
//   - The node for a prefix p stands for S_p = { k in S : k has prefix p }.
//   - |S_p| == 1  -> the node is a LEAF; its payload is the part of the key the parent has not consumed
//     (for the root: the whole key; for a child reached over byte b at depth d: key[d+1:]).
//   - |S_p| >= 2  -> the node is INTERNAL with one child per distinct next byte key[len(p)], in
//     ascending byte order. A chain of single-child internal nodes is kept as long as >= 2 keys share
//     the prefix (the trie is not path-compressed); a lone key is always collapsed into a leaf.
//
// Hashes:
//
//	internal(p) = SHA512_256( byte(len(p)) || p ||
//	                for each child c over byte b, ascending b:
//	                    flag(c) || byte(len(payload(c))) || b || payload(c) )
//	    flag(c) = 0 for a leaf, 1 for an internal node
//	    payload(leaf)     = remaining key bytes after b  (length L-len(p)-1, may be 0)
//	    payload(internal) = internal(p||b)               (32 bytes)
//
//	root(S) = 32 zero bytes                        if S is empty          (Trie.RootHash: root == null)
//	        = SHA512_256( 0x00 || key )            if S = {key}           (root is a leaf)
//	        = SHA512_256( 0x01 || internal("") )   otherwise
//
// keys must be sorted ascending, distinct, and of equal length.
func refRoot(keys [][]byte) [32]byte {
	switch len(keys) {
	case 0:
		return [32]byte{}
	case 1:
		return sha512.Sum512_256(append([]byte{0}, keys[0]...))
	}
	h := refInternal(keys, 0)
	return sha512.Sum512_256(append([]byte{1}, h[:]...))
}

// refInternal hashes the internal node whose keys (>= 2 of them, sorted) share the first depth bytes.
func refInternal(keys [][]byte, depth int) [32]byte {
	acc := make([]byte, 0, 1+depth+len(keys)*(3+len(keys[0])))
	acc = append(acc, byte(depth))
	acc = append(acc, keys[0][:depth]...)
	for i := 0; i < len(keys); {
		b := keys[i][depth]
		j := i + 1
		for j < len(keys) && keys[j][depth] == b {
			j++
		}
		if j-i == 1 {
			rest := keys[i][depth+1:]
			acc = append(acc, 0, byte(len(rest)), b)
			acc = append(acc, rest...)
		} else {
			h := refInternal(keys[i:j], depth+1)
			acc = append(acc, 1, byte(len(h)), b)
			acc = append(acc, h[:]...)
		}
		i = j
	}
	return sha512.Sum512_256(acc)
}
