package triesim

import (
	"errors"
)

// Simulated storage behind merkletrie.Committer.
//
// The real committers (ledger/store/trackerdb/sqlitedriver/merkle_committer.go and the generickv one)
// are thin views over ONE open database transaction: StorePage is INSERT OR REPLACE / DELETE inside the
// transaction, LoadPage is a SELECT that sees the transaction's own writes and returns (nil, nil) for a
// missing row. The callers (ledger/catchpointtracker.go commitRound / accountsUpdateBalances,
// ledger/catchupaccessor.go) do all trie work of a round inside that transaction, call Trie.Commit()
// near its end, and only then let the transaction commit; between transactions they hand the trie a
// fresh view with Trie.SetCommitter. On ANY error the transaction is rolled back and the in-memory
// trie is thrown away (catchpointTracker.handleCommitError / clearCommitRoundRetry: "it is not certain
// that the merkle trie is in a clean state") and re-made with MakeTrie over the rolled-back store.
//
// The simulated disk therefore has two layers:
//   - durable: page -> bytes as of the last transaction commit;
//   - overlay: the open transaction's writes (nil value = row deleted).
//
// txCommit folds the overlay into durable atomically; rollback (crash, or error handling) drops it.
// Nothing finer-grained is modelled because the real storage never exposes it: page writes of a
// Trie.Commit() are not individually durable, so a crash "between two page writes" is a transaction
// rollback, not a torn image.
type disk struct {
	durable map[uint64][]byte
	overlay map[uint64][]byte

	// per-operation fault plan and call counters (reset by arm/disarm)
	plan   faultPlan
	stores int
	loads  int
	fired  int

	// page-load watch (attribution of the known finding only, see sim.go: tail-page hazard)
	watchOn  bool
	watchPg  uint64
	watchHit bool

	// counters for RunResult.Stats
	nStore, nLoad, nLoadMiss, nDelete int64
}

type faultKind int

const (
	fkNone      faultKind = iota
	fkStoreAll            // every StorePage of the operation fails
	fkStoreKth            // the k-th StorePage of the operation fails (earlier ones reached the overlay)
	fkStoreRoot           // only the store of the root page (page 0, written last by Trie.Commit) fails
	fkLoadAll             // every LoadPage of the operation fails
	fkLoadKth             // the k-th LoadPage of the operation fails
	fkLostKth             // the k-th StorePage reports success but is dropped (a crash follows the operation)
)

type faultPlan struct {
	kind faultKind
	k    int
}

var errInjected = errors.New("triesim: injected storage error")
var errClosedView = errors.New("triesim: committer of a finished transaction used")

func newDisk() *disk {
	return &disk{durable: map[uint64][]byte{}, overlay: map[uint64][]byte{}}
}

func (d *disk) arm(p faultPlan) { d.plan, d.stores, d.loads, d.fired = p, 0, 0, 0 }
func (d *disk) disarm()         { d.plan = faultPlan{} }

func (d *disk) txCommit() {
	for p, b := range d.overlay {
		if b == nil {
			delete(d.durable, p)
		} else {
			d.durable[p] = b
		}
	}
	d.overlay = map[uint64][]byte{}
}

// has reports whether the open transaction sees a stored page (attribution of the known finding only).
func (d *disk) has(page uint64) bool {
	if b, inTx := d.overlay[page]; inTx {
		return b != nil
	}
	return d.durable[page] != nil
}

func (d *disk) rollback() { d.overlay = map[uint64][]byte{} }

// view is the Committer handed to the trie for the lifetime of one transaction.
type view struct {
	d      *disk
	closed bool
}

func (v *view) StorePage(page uint64, content []byte) error {
	if v.closed {
		return errClosedView
	}
	d := v.d
	d.stores++
	d.nStore++
	switch d.plan.kind {
	case fkStoreAll:
		d.fired++
		return errInjected
	case fkStoreKth:
		if d.stores == d.plan.k {
			d.fired++
			return errInjected
		}
	case fkStoreRoot:
		if page == 0 {
			d.fired++
			return errInjected
		}
	case fkLostKth:
		if d.stores == d.plan.k {
			d.fired++
			return nil
		}
	}
	if len(content) == 0 {
		d.overlay[page] = nil
		d.nDelete++
		return nil
	}
	// the trie reuses its encode buffer: a store keeps its own copy, like a database row
	d.overlay[page] = append([]byte(nil), content...)
	return nil
}

func (v *view) LoadPage(page uint64) ([]byte, error) {
	if v.closed {
		return nil, errClosedView
	}
	d := v.d
	d.loads++
	d.nLoad++
	switch d.plan.kind {
	case fkLoadAll:
		d.fired++
		return nil, errInjected
	case fkLoadKth:
		if d.loads == d.plan.k {
			d.fired++
			return nil, errInjected
		}
	}
	b, inTx := d.overlay[page]
	if !inTx {
		b = d.durable[page]
	}
	if b == nil {
		d.nLoadMiss++
		return nil, nil
	}
	if d.watchOn && page == d.watchPg {
		d.watchHit = true
	}
	return append([]byte(nil), b...), nil
}
