// Package catchupsim runs one real catchup.Service in a testing/synctest bubble against a
// simulator-owned network (ws + http peers), ledger, block authenticator and clock, and decides C30
// "catchup only appends authenticated blocks, in order" (DESIGN.md §4 C30).
package catchupsim

import (
	"bytes"
	"encoding/binary"
	"fmt"

	"github.com/algorand/go-algorand/agreement"
	"github.com/algorand/go-algorand/crypto"
	"github.com/algorand/go-algorand/data/basics"
	"github.com/algorand/go-algorand/data/bookkeeping"
	"github.com/algorand/go-algorand/data/committee"
	"github.com/algorand/go-algorand/data/transactions"
	"github.com/algorand/go-algorand/protocol"
	"github.com/algorand/go-algorand/rpcs"
)

const (
	genesisID   = "catchupsim-v1"
	maxChainLen = 60 // canonical rounds 0..60 (a run's peers serve a prefix 0..tip of it)
)

// chain is the canonical chain (a pure function of the round number; built once per process).
type chain struct {
	blocks  []bookkeeping.Block
	certs   []agreement.Certificate
	encBlk  [][]byte
	encCert [][]byte
	digest  []crypto.Digest
}

var theChain *chain

func h(tag string, r uint64, i uint64) crypto.Digest {
	var b [16]byte
	binary.BigEndian.PutUint64(b[:8], r)
	binary.BigEndian.PutUint64(b[8:], i)
	return crypto.Hash(append([]byte("catchupsim/"+tag+"/"), b[:]...))
}

func addr(tag string, r, i uint64) basics.Address { return basics.Address(h(tag, r, i)) }

func paysetSize(r uint64) int {
	switch {
	case r%7 == 0:
		return 6
	case r%3 == 0:
		return 1 + int(r%4)
	case r%5 == 1:
		return 2
	}
	return 0
}

func makeTxn(b *bookkeeping.Block, r, i uint64) (transactions.SignedTxnInBlock, error) {
	tx := transactions.Transaction{
		Type: protocol.PaymentTx,
		Header: transactions.Header{
			Sender:      addr("snd", r, i),
			Fee:         basics.MicroAlgos{Raw: 1000 + i},
			FirstValid:  basics.Round(r),
			LastValid:   basics.Round(r + 10),
			GenesisHash: b.BlockHeader.GenesisHash,
			Note:        []byte(fmt.Sprintf("catchupsim %d/%d", r, i)),
		},
		PaymentTxnFields: transactions.PaymentTxnFields{
			Receiver: addr("rcv", r, i),
			Amount:   basics.MicroAlgos{Raw: 1000000 + r*100 + i},
		},
	}
	st := transactions.SignedTxn{Txn: tx}
	d := h("sig", r, i)
	copy(st.Sig[:32], d[:])
	copy(st.Sig[32:], d[:])
	return b.EncodeSignedTxn(st, transactions.ApplyData{})
}

// makeCert builds the canonical certificate object of a round: right round, right digest, and a
// per-round marker (EncodingDigest / OriginalProposer / Period) that only the simulator knows.
func makeCert(r uint64, dig crypto.Digest) agreement.Certificate {
	var c agreement.Certificate
	c.Round = basics.Round(r)
	c.Period = 0
	if r%4 == 3 {
		c.Period = 1
	}
	c.Step = 2 // cert
	c.Proposal.OriginalPeriod = c.Period
	c.Proposal.OriginalProposer = addr("proposer", r, 0)
	c.Proposal.BlockDigest = dig
	c.Proposal.EncodingDigest = h("cert-marker", r, 0)
	return c
}

func buildChain() (*chain, error) {
	n := maxChainLen
	c := &chain{}
	genHash := crypto.Hash([]byte("catchupsim genesis"))
	var prev bookkeeping.Block
	var counter uint64
	for r := uint64(0); r <= uint64(n); r++ {
		var b bookkeeping.Block
		b.BlockHeader.Round = basics.Round(r)
		b.BlockHeader.GenesisID = genesisID
		b.BlockHeader.GenesisHash = genHash
		b.BlockHeader.CurrentProtocol = protocol.ConsensusCurrentVersion
		b.BlockHeader.RewardsState.FeeSink = addr("feesink", 0, 0)
		b.BlockHeader.RewardsState.RewardsPool = addr("rewardspool", 0, 0)
		b.BlockHeader.TimeStamp = 1700000000 + int64(r)*3
		if r > 0 {
			b.BlockHeader.Branch = prev.Hash()
			b.BlockHeader.Branch512 = prev.Hash512()
			b.BlockHeader.Seed = committee.Seed(h("seed", r, 0))
			b.BlockHeader.Proposer = addr("proposer", r, 0)
			for i := 0; i < paysetSize(r); i++ {
				stib, err := makeTxn(&b, r, uint64(i))
				if err != nil {
					return nil, fmt.Errorf("round %d txn %d: %w", r, i, err)
				}
				b.Payset = append(b.Payset, stib)
				counter++
			}
		}
		b.BlockHeader.TxnCounter = counter
		var err error
		b.TxnCommitments, err = b.PaysetCommit()
		if err != nil {
			return nil, fmt.Errorf("round %d commit: %w", r, err)
		}
		if !b.ContentsMatchHeader() {
			return nil, fmt.Errorf("round %d: canonical block does not match its header", r)
		}
		ct := makeCert(r, b.Digest())
		c.blocks = append(c.blocks, b)
		c.certs = append(c.certs, ct)
		c.encBlk = append(c.encBlk, protocol.Encode(&b))
		c.encCert = append(c.encCert, protocol.Encode(&ct))
		c.digest = append(c.digest, b.Digest())
		prev = b
	}
	// self-check: the wire format the real block service produces round-trips to the same objects
	for r := 1; r <= n; r++ {
		body := wireBody(c.encBlk[r], c.encCert[r])
		var dec rpcs.EncodedBlockCert
		if err := protocol.Decode(body, &dec); err != nil {
			return nil, fmt.Errorf("round %d: wire self-check decode: %w", r, err)
		}
		if !bytes.Equal(protocol.Encode(&dec.Block), c.encBlk[r]) || !bytes.Equal(protocol.Encode(&dec.Certificate), c.encCert[r]) {
			return nil, fmt.Errorf("round %d: wire self-check: re-encoding differs", r)
		}
		if dec.Block.Digest() != c.digest[r] || !dec.Block.ContentsMatchHeader() {
			return nil, fmt.Errorf("round %d: wire self-check: digest/contents differ", r)
		}
	}
	return c, nil
}

func getChain() (*chain, error) {
	if theChain != nil {
		return theChain, nil
	}
	c, err := buildChain()
	if err != nil {
		return nil, err
	}
	theChain = c
	return c, nil
}

// wireBody is the http body / the bytes the ws client assembles: {block: <raw>, cert: <raw>}.
func wireBody(blk, cert []byte) []byte {
	return protocol.EncodeReflect(rpcs.PreEncodedBlockCert{Block: blk, Certificate: cert})
}

func (c *chain) blockCopy(r int) bookkeeping.Block {
	var b bookkeeping.Block
	if err := protocol.Decode(c.encBlk[r], &b); err != nil {
		panic("catchupsim: canonical block does not decode: " + err.Error())
	}
	return b
}

// ---- known mutations (the oracle does not need to know which one was applied: nothing but the
// canonical block with its canonical certificate may ever be written)

// tamperPayset returns the canonical block of round r with one payset mutation; the header is kept
// (so the header digest still matches the canonical certificate) unless rehash is set, in which case the
// header commitment is recomputed over the mutated payset (the digest then changes).
func (c *chain) tamperPayset(r int, a, b int, rehash bool) (bookkeeping.Block, string) {
	blk := c.blockCopy(r)
	n := len(blk.Payset)
	what := ""
	foreign := func() transactions.SignedTxnInBlock {
		for k := 1; k <= len(c.blocks); k++ {
			o := (r + k*(1+b%5)) % len(c.blocks)
			if o != r && len(c.blocks[o].Payset) > 0 {
				ob := c.blockCopy(o)
				return ob.Payset[b%len(ob.Payset)]
			}
		}
		ob := c.blockCopy(3)
		return ob.Payset[0]
	}
	kind := a % 6
	if n == 0 {
		kind = 3
	}
	if n < 2 && kind == 4 {
		kind = 0
	}
	i := 0
	if n > 0 {
		i = b % n
	}
	switch kind {
	case 0:
		blk.Payset[i].SignedTxn.Txn.Amount.Raw ^= 1 << (uint(b/7) % 20)
		what = fmt.Sprintf("edit-amount[%d]", i)
	case 1:
		blk.Payset = append(blk.Payset[:i:i], blk.Payset[i+1:]...)
		what = fmt.Sprintf("remove[%d]", i)
	case 2:
		dup := blk.Payset[i]
		ps := append(transactions.Payset{}, blk.Payset[:i+1]...)
		ps = append(ps, dup)
		ps = append(ps, blk.Payset[i+1:]...)
		blk.Payset = ps
		what = fmt.Sprintf("duplicate[%d]", i)
	case 3:
		blk.Payset = append(blk.Payset, foreign())
		what = "add-foreign"
	case 4:
		j := (i + 1) % n
		blk.Payset[i], blk.Payset[j] = blk.Payset[j], blk.Payset[i]
		what = fmt.Sprintf("swap[%d,%d]", i, j)
	case 5:
		blk.Payset[i].SignedTxn.Txn.Receiver[b%32] ^= 0x40
		what = fmt.Sprintf("edit-receiver[%d]", i)
	}
	if rehash {
		if tc, err := blk.PaysetCommit(); err == nil {
			blk.TxnCommitments = tc
			what += "+rehash"
		}
	}
	return blk, what
}

// tamperHeader changes one header field of the canonical block (payset untouched and still matching).
func (c *chain) tamperHeader(r int, a int) (bookkeeping.Block, string) {
	blk := c.blockCopy(r)
	switch a % 4 {
	case 0:
		blk.BlockHeader.TimeStamp++
		return blk, "timestamp"
	case 1:
		blk.BlockHeader.Branch[a%32] ^= 1
		return blk, "branch"
	case 2:
		blk.BlockHeader.Seed[a%32] ^= 1
		return blk, "seed"
	}
	blk.BlockHeader.TxnCounter += 7
	return blk, "txncounter"
}

// phantom fabricates a block for round r from the canonical block of round src (round rewritten).
func (c *chain) phantom(r, src int) bookkeeping.Block {
	blk := c.blockCopy(src)
	blk.BlockHeader.Round = basics.Round(r)
	return blk
}

// forgeCert builds a certificate that claims (round, digest) but is not the canonical object of any
// round: marker taken from round markerOf (or garbage when markerOf < 0).
func (c *chain) forgeCert(round int, dig crypto.Digest, markerOf int) agreement.Certificate {
	ct := makeCert(uint64(round), dig)
	if markerOf >= 0 && markerOf != round {
		ct.Proposal.EncodingDigest = h("cert-marker", uint64(markerOf), 0)
		ct.Proposal.OriginalProposer = addr("proposer", uint64(markerOf), 0)
	} else {
		ct.Proposal.EncodingDigest[5] ^= 0x10
	}
	return ct
}

func encBlock(b *bookkeeping.Block) []byte    { return protocol.Encode(b) }
func encCert(c *agreement.Certificate) []byte { return protocol.Encode(c) }
