package catchupsim

import (
	"bytes"
	crand "crypto/rand"
	"crypto/sha256"
	"encoding/hex"
	"errors"
	"fmt"
	"io"
	"sort"
	"sync"
	"sync/atomic"
	"testing"
	"testing/synctest"
	"time"

	"github.com/algorand/go-deadlock"

	"github.com/algorand/go-algorand/agreement"
	"github.com/algorand/go-algorand/catchup"
	"github.com/algorand/go-algorand/config"
	"github.com/algorand/go-algorand/data/basics"
	"github.com/algorand/go-algorand/data/bookkeeping"
	"github.com/algorand/go-algorand/logging"
	"github.com/algorand/go-algorand/network"

	"verif/sim/kernel"
)

func init() {
	deadlock.Opts.Disable = true
}

// Liveness bound (validated on the unchanged tree, see docs/sensitivity-catchupsim.md): after every
// peer is honest again and faults stop, the ledger reaches the peers' tip within this many scheduler
// steps and this much simulated time, whatever the configuration drawn.
const (
	liveStepBound = 1500
	liveTimeBound = 200 * time.Second
	liveQuantum   = 2 * time.Second
)

const drawN = 1 << 16

// fault kinds (per answered request). 0 = honest.
const (
	fHonest = iota
	fWrongRound
	fPayset
	fHeader
	fMismatch
	fCert
	fGarbage
	fErr
	fNoBlock
	fStall
	fPhantom
	nFaultKinds
)

var faultNames = [...]string{"honest", "wrong-round", "payset", "header", "mismatch", "cert", "garbage", "error", "no-block", "stall", "phantom"}

type peerCfg struct {
	HTTP  bool
	Class int
}

// Config is drawn from the tape at the start of every run (swarm style).
type Config struct {
	Tier     string
	Tip      int // peers serve rounds 0..Tip of the canonical chain
	Start    int // the catching-up ledger starts with rounds 0..Start
	Peers    []peerCfg
	Parallel int // CatchupParallelBlocks
	Mode     int // CatchupBlockValidateMode: 0 (AddBlock) or 12 (Validate + AddValidatedBlock)
	Lookback int // SeedLookback reported by the ledger
	Agree    int // weight of "agreement commits the next block" (0 = never)
	Certs    bool
	Churn    bool
	Busy     bool
	Kinds    []int // enabled fault kinds
	FaultPct int
	Steps    int // length of the fault phase
	TimeW    int
	RandSeed int
}

var classes = []network.PeerOption{network.PeersConnectedOut, network.PeersPhonebookRelays, network.PeersPhonebookArchivalNodes, network.PeersConnectedIn}

func drawConfig(tp *kernel.Tape, tier string) Config {
	c := Config{Tier: tier}
	c.Tip = tp.Range("cfg.tip", 20, maxChainLen)
	c.Start = tp.Range("cfg.start", 0, 8)
	np := 1 + tp.Weighted("cfg.npeers", []int{2, 3, 3, 2, 1})
	for i := 0; i < np; i++ {
		c.Peers = append(c.Peers, peerCfg{HTTP: tp.Choose("cfg.peerhttp", 2) == 1, Class: tp.Weighted("cfg.peerclass", []int{5, 2, 2, 1})})
	}
	c.Parallel = []int{16, 2, 4, 8, 50, 1}[tp.Weighted("cfg.parallel", []int{4, 1, 2, 2, 1, 1})]
	c.Mode = []int{0, 12}[tp.Weighted("cfg.mode", []int{3, 1})]
	c.Lookback = []int{2, 1, 3}[tp.Weighted("cfg.lookback", []int{4, 1, 1})]
	c.Agree = []int{0, 1, 3}[tp.Weighted("cfg.agree", []int{2, 1, 1})]
	c.Certs = tp.Choose("cfg.certs", 2) == 1
	c.Churn = tp.Choose("cfg.churn", 2) == 1
	c.Busy = tp.Choose("cfg.busy", 4) == 3
	for k := 1; k < nFaultKinds; k++ {
		if tp.Choose("cfg.kind", 2) == 1 {
			c.Kinds = append(c.Kinds, k)
		}
	}
	c.FaultPct = tp.Range("cfg.faultpct", 0, 9) * 6
	if len(c.Kinds) == 0 {
		c.FaultPct = 0
	}
	if tier == "thorough" {
		c.Steps = tp.Range("cfg.steps", 10, 1200)
	} else {
		c.Steps = tp.Range("cfg.steps", 10, 400)
	}
	c.TimeW = tp.Range("cfg.timew", 1, 8)
	c.RandSeed = tp.Choose("cfg.rand", drawN)
	return c
}

type authRec struct {
	round   basics.Round
	seq     int
	blkEnc  []byte
	certEnc []byte
	ok      bool
	done    bool // the Authenticate call has returned (or is returning) to the service
}

// writeAck is a service goroutine parked inside AddBlock/AddValidatedBlock after the write was applied.
type writeAck struct {
	round basics.Round
	seq   int
	ch    chan struct{}
}

type ev struct {
	round uint64
	text  string
}

// Sim is one run.
type Sim struct {
	prop  string
	mu    sync.Mutex
	tape  *kernel.Tape
	log   *kernel.Log
	cfg   Config
	chain *chain

	step    int
	events  []ev
	reqs    []*request
	reqSeq  map[uint64]int
	acks    []*writeAck
	starts  []*startRec
	ackSeq  map[basics.Round]int
	authLog []*authRec
	authSeq map[basics.Round]int
	written []bookkeeping.Block

	led        *simLedger
	net        *simNet
	svc        *catchup.Service
	certCh     chan catchup.PendingUnmatchedCertificate
	agreeCerts map[basics.Round]bool

	draining bool
	quiet    bool // shutting down: what the service does from here on is not part of the run's identity
	drainCh  chan struct{}

	randWord atomic.Uint64

	viol            *kernel.Violation
	harness         string
	stats           map[string]int64
	states          map[string]bool
	faultsFired     int
	wroteUnderFault bool
	start           time.Time
	simEnd          time.Time
	live            bool
	atTipSince      int
}

func (s *Sim) event(r basics.Round, format string, args ...any) { s.eventU(uint64(r), format, args...) }

// eventU records something a goroutine of the service did during the current step (s.mu held). Events
// are flushed to the log after the step, ordered by round: within a round they come from one goroutine.
func (s *Sim) eventU(r uint64, format string, args ...any) {
	s.events = append(s.events, ev{r, fmt.Sprintf(format, args...)})
}

func (s *Sim) violate(oracle, key, detail string) {
	if s.viol == nil {
		s.viol = &kernel.Violation{Property: s.prop, Oracle: oracle, Key: key, Detail: detail, Step: s.step}
	}
}

func (s *Sim) flush() {
	s.mu.Lock()
	evs := s.events
	s.events = nil
	s.mu.Unlock()
	if s.quiet {
		return
	}
	sort.SliceStable(evs, func(i, j int) bool { return evs[i].round < evs[j].round })
	for _, e := range evs {
		s.log.Add("  %s", e.text)
	}
}

// ---- simulator-owned randomness for crypto.RandUint64 (peer pick, sleep jitter): a pure function of
// (run, scheduler step), so that concurrent readers inside one step cannot race for stream positions.
type simRand struct{ s *Sim }

func (r simRand) Read(p []byte) (int, error) {
	w := r.s.randWord.Load()
	for i := range p {
		if i%8 == 0 && w != 0 {
			w = kernel.SplitMix64(w)
		}
		p[i] = byte(w >> (8 * uint(i%8)))
	}
	return len(p), nil
}

// ---- authenticator (reference rule)

type simAuth struct{ s *Sim }

func (a *simAuth) Quit() {}

// refVerdict: a certificate authenticates a block iff it is byte-for-byte the canonical certificate of
// its round and its round and digest are those of the block (header digest only - exactly like the real
// authenticator, contents are NOT covered).
func (s *Sim) refVerdict(blk *bookkeeping.Block, cert *agreement.Certificate, certEnc []byte) error {
	r := blk.Round()
	if cert.Round != r {
		return fmt.Errorf("certificate round %d != block round %d", cert.Round, r)
	}
	if cert.Proposal.BlockDigest != blk.Digest() {
		return errors.New("certificate digest != block digest")
	}
	if r < 1 || int(r) >= len(s.chain.encCert) || !bytes.Equal(certEnc, s.chain.encCert[r]) {
		return errors.New("not the canonical certificate of this round")
	}
	return nil
}

func (a *simAuth) Authenticate(blk *bookkeeping.Block, cert *agreement.Certificate) error {
	s := a.s
	s.mu.Lock()
	rec := &authRec{round: blk.Round(), blkEnc: encBlock(blk), certEnc: encCert(cert)}
	verdict := s.refVerdict(blk, cert, rec.certEnc)
	rec.ok = verdict == nil
	rec.seq = s.authSeq[rec.round]
	s.authSeq[rec.round]++
	s.authLog = append(s.authLog, rec)
	s.stats["auth_calls"]++
	if rec.ok {
		s.stats["auth_accept"]++
	} else {
		s.stats["auth_reject"]++
	}
	s.event(rec.round, "authenticate r=%d#%d -> %v", rec.round, rec.seq, rec.ok)
	rec.done = true
	s.mu.Unlock()
	return verdict
}

// ---- setup

func (s *Sim) setup() error {
	ch, err := getChain()
	if err != nil {
		return err
	}
	s.chain = ch
	c := &s.cfg
	for r := 0; r <= c.Start; r++ {
		s.written = append(s.written, ch.blocks[r])
	}
	s.led = newLedger(s, c.Start)
	s.net = &simNet{s: s}
	for i, pc := range c.Peers {
		p := &peerCore{s: s, idx: i, http: pc.HTTP, class: classes[pc.Class], present: true}
		if pc.HTTP {
			p.addr = fmt.Sprintf("http://peer%d.sim:8080", i)
			p.obj = &httpPeer{p}
		} else {
			p.addr = fmt.Sprintf("ws-peer%d.sim:4160", i)
			p.obj = &wsPeer{p}
		}
		s.net.peers = append(s.net.peers, p)
	}
	s.drainCh = make(chan struct{})
	s.certCh = make(chan catchup.PendingUnmatchedCertificate, 1)
	s.start = time.Now()

	lcfg := config.GetDefaultLocal()
	lcfg.CatchupParallelBlocks = uint64(c.Parallel)
	lcfg.CatchupBlockValidateMode = c.Mode
	log := logging.NewLogger()
	log.SetOutput(io.Discard)
	log.SetLevel(logging.Error)
	logging.Base().SetOutput(io.Discard)
	logging.Base().SetLevel(logging.Error)
	s.svc = catchup.MakeService(log, lcfg, s.net, s.led, &simAuth{s}, s.certCh, nil)
	s.setRand()
	s.svc.Start()
	s.settle()
	return nil
}

func (s *Sim) setRand() {
	if s.cfg.RandSeed == 0 {
		s.randWord.Store(0)
		return
	}
	s.randWord.Store(kernel.SplitMix64(uint64(s.cfg.RandSeed)<<32 ^ uint64(s.step+1)))
}

// ---- scheduler

type action struct {
	kind string // notify, auth, cancel, answer, time, agree, cert, churn, busy
	w    int
	r    basics.Round
	q    *request
	a    *writeAck
	st   *startRec
}

func (s *Sim) tip() basics.Round { return basics.Round(s.cfg.Tip) }

// enabled lists the enabled actions in canonical order (s.mu held).
func (s *Sim) enabled() []action {
	var acts []action
	for _, r := range s.led.pendingNotify() {
		acts = append(acts, action{kind: "notify", w: 12, r: r})
	}
	sort.SliceStable(s.acks, func(i, j int) bool {
		if s.acks[i].round != s.acks[j].round {
			return s.acks[i].round < s.acks[j].round
		}
		return s.acks[i].seq < s.acks[j].seq
	})
	for _, a := range s.acks {
		acts = append(acts, action{kind: "ack", w: 12, a: a})
	}
	sort.SliceStable(s.starts, func(i, j int) bool { return s.starts[i].round < s.starts[j].round })
	if s.live && len(s.starts) > 0 {
		// after GST the node itself is not starved either: a launched fetch goroutine starts at once,
		// lowest round first (what is still chosen freely is the order of everything else)
		return []action{{kind: "start", w: 1, st: s.starts[0]}}
	}
	for _, st := range s.starts {
		acts = append(acts, action{kind: "start", w: 12, st: st})
	}
	sort.SliceStable(s.reqs, func(i, j int) bool {
		if s.reqs[i].round != s.reqs[j].round {
			return s.reqs[i].round < s.reqs[j].round
		}
		return s.reqs[i].seq < s.reqs[j].seq
	})
	for _, q := range s.reqs {
		if q.cancelled {
			acts = append(acts, action{kind: "cancel", w: 10, q: q})
		}
	}
	for _, q := range s.reqs {
		if !q.cancelled && !q.stalled {
			acts = append(acts, action{kind: "answer", w: 10, q: q})
		}
	}
	if s.live {
		if len(acts) == 0 {
			acts = append(acts, action{kind: "time", w: 1})
		}
		return acts
	}
	acts = append(acts, action{kind: "time", w: s.cfg.TimeW})
	if s.cfg.Agree > 0 && s.led.last < s.tip() {
		acts = append(acts, action{kind: "agree", w: s.cfg.Agree})
	}
	if s.cfg.Certs && s.led.last < s.tip() && len(s.certCh) == 0 {
		acts = append(acts, action{kind: "cert", w: 1})
	}
	if s.cfg.Churn {
		acts = append(acts, action{kind: "churn", w: 1})
	}
	if s.cfg.Busy {
		acts = append(acts, action{kind: "busy", w: 1})
	}
	return acts
}

var timeSteps = []time.Duration{10 * time.Millisecond, 100 * time.Millisecond, 500 * time.Millisecond, time.Second, 2 * time.Second, 4 * time.Second, 5 * time.Second, 17 * time.Second, 20 * time.Second}

// stepOnce performs one scheduler step. Every step draws exactly four decisions (step.fault, step.act,
// step.a, step.b) and rewrites the unused ones to 0, so tapes are rectangular and shrinkable.
func (s *Sim) stepOnce() {
	tp := s.tape
	base := len(tp.Rec)
	rF := tp.Choose("step.fault", drawN)
	rAct := tp.Choose("step.act", drawN)
	rA := tp.Choose("step.a", drawN)
	rB := tp.Choose("step.b", drawN)
	var eff [4]int
	defer func() {
		for j := 0; j < 4; j++ {
			tp.Canon(base+j, eff[j])
		}
	}()
	s.setRand()
	s.mu.Lock()
	acts := s.enabled()
	tot := 0
	for _, a := range acts {
		tot += a.w
	}
	v := rAct % tot
	var act action
	off := 0
	for _, a := range acts {
		if v < off+a.w {
			act = a
			break
		}
		off += a.w
	}
	eff[1] = off
	var sleep time.Duration
	switch act.kind {
	case "notify":
		s.led.notify(act.r)
		s.log.Add("step %d: notify round %d", s.step, act.r)
		s.stats["act_notify"]++
	case "ack":
		s.removeAck(act.a)
		close(act.a.ch)
		s.log.Add("step %d: ledger write call for round %d#%d returns", s.step, act.a.round, act.a.seq)
		s.stats["act_write_return"]++
	case "start":
		for i, x := range s.starts {
			if x == act.st {
				s.starts = append(s.starts[:i], s.starts[i+1:]...)
				break
			}
		}
		close(act.st.ch)
		s.log.Add("step %d: fetch goroutine for round %d starts", s.step, act.st.round)
		s.stats["act_fetch_start"]++
	case "cancel":
		s.removeReq(act.q)
		close(act.q.rel)
		s.log.Add("step %d: %s fails (context ended)", s.step, act.q)
		s.stats["act_cancel_delivered"]++
	case "answer":
		q := act.q
		kind := fHonest
		if !s.live && len(s.cfg.Kinds) > 0 && rF%100 < s.cfg.FaultPct {
			kind = s.cfg.Kinds[(rF/100)%len(s.cfg.Kinds)]
			eff[0] = rF
		}
		// arbitrary completion order: is an older (lower-round) request still waiting?
		for _, o := range s.reqs {
			if o != q && !o.cancelled && o.round < q.round {
				s.stats["answers_out_of_order"]++
				break
			}
		}
		ans, label, usedA, usedB := s.buildAnswer(q, kind, rA, rB)
		if usedA {
			eff[2] = rA
		}
		if usedB {
			eff[3] = rB
		}
		if label == "honest" {
			eff[0] = 0
		} else {
			s.faultsFired++
			s.stats["fault_"+label]++
		}
		if ans == nil {
			q.stalled = true
			s.log.Add("step %d: %s -> %s", s.step, q, label)
		} else {
			s.removeReq(q)
			q.ch <- ans
			s.log.Add("step %d: answer %s -> %s", s.step, q, label)
		}
		s.stats["act_answer"]++
	case "time":
		if s.live {
			sleep = liveQuantum
		} else {
			i := rA % len(timeSteps)
			eff[2] = i
			sleep = timeSteps[i]
		}
		s.log.Add("step %d: time +%v", s.step, sleep)
		s.stats["act_time"]++
	case "agree":
		s.mu.Unlock()
		r := s.led.agreementWrite()
		s.mu.Lock()
		s.log.Add("step %d: agreement commits round %d", s.step, r)
		s.stats["act_agreement_write"]++
	case "cert":
		r := s.led.last + 1
		s.agreeCerts[r] = true
		s.certCh <- catchup.PendingUnmatchedCertificate{Cert: s.chain.certs[r]}
		s.log.Add("step %d: agreement asks for the block of its certificate for round %d", s.step, r)
		s.stats["act_unmatched_cert"]++
	case "churn":
		p := s.net.peers[rA%len(s.net.peers)]
		eff[2] = rA % len(s.net.peers)
		p.present = !p.present
		s.log.Add("step %d: peer %s present=%v", s.step, p.addr, p.present)
		s.stats["act_peer_churn"]++
		s.faultsFired++
	case "busy":
		s.led.busy = !s.led.busy
		s.log.Add("step %d: ledger writing-catchpoint=%v", s.step, s.led.busy)
		s.stats["act_ledger_busy_toggle"]++
	}
	s.mu.Unlock()
	if sleep > 0 {
		time.Sleep(sleep)
	}
	s.settle()
}

// settle lets the system run to quiescence after a stimulus and brings the simulator's view up to date
// in a schedule-independent way: requests whose context ended in the very step they were made (the
// pipeline launched them and was cancelled at once: whether such a goroutine gets as far as the network
// is a race inside the service) are released silently; the surviving new requests are numbered and
// logged in canonical order.
func (s *Sim) settle() {
	for {
		synctest.Wait()
		s.mu.Lock()
		n := 0
		for i := 0; i < len(s.reqs); {
			q := s.reqs[i]
			if q.cancelled && !q.listed {
				s.reqs = append(s.reqs[:i], s.reqs[i+1:]...)
				close(q.rel)
				n++
				continue
			}
			i++
		}
		s.mu.Unlock()
		if n == 0 {
			break
		}
	}
	s.mu.Lock()
	sort.SliceStable(s.reqs, func(i, j int) bool { return s.reqs[i].round < s.reqs[j].round })
	for _, q := range s.reqs {
		if q.listed {
			continue
		}
		q.listed = true
		q.seq = s.reqSeq[q.round]
		s.reqSeq[q.round]++
		s.stats["requests"]++
		if q.peer.http {
			s.stats["requests_http"]++
		} else {
			s.stats["requests_ws"]++
		}
		s.eventU(q.round, "request r=%d#%d -> %s", q.round, q.seq, q.peer.addr)
	}
	s.mu.Unlock()
	s.flush()
}

func (s *Sim) removeAck(a *writeAck) {
	for i, x := range s.acks {
		if x == a {
			s.acks = append(s.acks[:i], s.acks[i+1:]...)
			return
		}
	}
}

// buildAnswer decides what the peer returns for q (s.mu held). A nil answer means "never answers".
func (s *Sim) buildAnswer(q *request, kind, a, b int) (ans *answer, label string, usedA, usedB bool) {
	c := s.chain
	tip := s.cfg.Tip
	r := int(q.round)
	if q.round >= 1<<40 {
		r = 1 << 30
	}
	inChain := r >= 1 && r <= maxChainLen
	if !q.peer.present {
		return &answer{err: errors.New("catchupsim: connection closed")}, "peer-gone", false, false
	}
	other := func(x int) int { // a canonical round != r
		var o int
		if x%2 == 0 && inChain {
			o = r + []int{1, -1, 2, -2, 3, -3}[(x/2)%6]
		} else {
			o = 1 + (x/2)%maxChainLen
		}
		if o < 1 || o > maxChainLen || o == r {
			o = 1 + (r+x)%maxChainLen
			if o == r {
				o = 1 + r%maxChainLen
			}
		}
		return o
	}
	switch kind {
	case fHonest:
		if r >= 0 && r <= tip {
			return q.pair(c.encBlk[r], c.encCert[r]), "honest", false, false
		}
		return q.noBlock(uint64(tip)), "honest", false, false
	case fStall:
		return nil, "stall", false, false
	case fNoBlock:
		return q.noBlock(uint64(a % (tip + 5))), "no-block", true, false
	case fErr:
		switch a % 4 {
		case 0:
			return &answer{err: errors.New("catchupsim: connection reset by peer")}, "error", true, false
		case 1:
			if q.peer.http {
				return &answer{status: 500, body: []byte("internal error"), contentLength: 14}, "error", true, false
			}
			return &answer{topics: network.Topics{network.MakeTopic(network.ErrorKey, []byte("requested block is not available"))}}, "error", true, false
		case 2:
			if q.peer.http {
				return &answer{status: 503, header: map[string][]string{"Retry-After": {"1"}}, contentLength: 0}, "error", true, false
			}
			return &answer{topics: network.Topics{network.MakeTopic(network.ErrorKey, []byte("block service memory over capacity"))}}, "error", true, false
		}
		if q.peer.http {
			return &answer{status: 400, contentLength: 0}, "error", true, false
		}
		return &answer{topics: network.Topics{}}, "error", true, false
	case fGarbage:
		hb := wireBody(c.encBlk[1+(r+a)%maxChainLen], c.encCert[1+(r+a)%maxChainLen])
		if inChain {
			hb = wireBody(c.encBlk[r], c.encCert[r])
		}
		switch a % 9 {
		case 0:
			g := make([]byte, 1+b%300)
			w := uint64(a)<<16 | uint64(b)
			for i := range g {
				w = kernel.SplitMix64(w)
				g[i] = byte(w)
			}
			return q.rawBody(g), "garbage", true, true
		case 1:
			return q.rawBody(hb[:b%len(hb)]), "garbage", true, true
		case 2:
			pre := [][]byte{{0xdf, 0xff, 0xff, 0xff, 0xff}, {0xdd, 0xff, 0xff, 0xff, 0xff}, {0xc6, 0xff, 0xff, 0xff, 0xf0}, {0xdb, 0x7f, 0xff, 0xff, 0xff}}[b%4]
			return q.rawBody(append(append([]byte{}, pre...), hb...)), "garbage", true, true
		case 3:
			return q.rawBody(nil), "garbage", true, false
		case 4:
			if q.peer.http {
				an := q.rawBody(hb)
				an.header = map[string][]string{"Content-Type": {"text/plain"}}
				if b%2 == 1 {
					an.header = map[string][]string{}
				}
				return an, "garbage", true, true
			}
			if b%2 == 1 || !inChain {
				return &answer{topics: network.Topics{network.MakeTopic("blockData", c.encBlk[1])}}, "garbage", true, true
			}
			return &answer{topics: network.Topics{network.MakeTopic("certData", c.encCert[r])}}, "garbage", true, true
		case 5:
			if q.peer.http {
				an := q.rawBody(hb)
				an.contentLength = []int64{-1, int64(len(hb)) + 100, 11 << 20, int64(len(hb)) - 1}[b%4]
				return an, "garbage", true, true
			}
			return q.rawBody(hb), "garbage", true, false
		case 6:
			if inChain {
				return q.pair(c.encCert[r], c.encBlk[r]), "garbage", true, false
			}
			return q.pair(c.encCert[1], c.encBlk[1]), "garbage", true, false
		case 7:
			g := append([]byte{}, hb...)
			g[b%len(g)] ^= 1 << (uint(b/len(g)) % 8)
			return q.rawBody(g), "garbage", true, true
		}
		// inflate one length prefix inside the honest body: first array16/bin16/str16-ish marker becomes huge
		g := append([]byte{}, hb...)
		for i := b % len(g); i < len(g)-3; i++ {
			if g[i] == 0xc4 { // bin8 -> claim 255 bytes
				g[i+1] = 0xff
				break
			}
			if g[i] >= 0x90 && g[i] <= 0x9f { // fixarray -> array32 prefix cannot be spliced in place; claim 15 entries
				g[i] = 0x9f
				break
			}
		}
		return q.rawBody(g), "garbage", true, true
	}
	// the remaining kinds need canonical material for the requested round
	if !inChain {
		if r < 1 || r > 1<<20 {
			return q.noBlock(uint64(tip)), "honest", false, false
		}
		// beyond the canonical chain: only a fabricated block can be offered
		kind = fPhantom
	}
	switch kind {
	case fWrongRound:
		o := other(a)
		return q.pair(c.encBlk[o], c.encCert[o]), "wrong-round", true, false
	case fPayset:
		blk, _ := c.tamperPayset(r, a, b, (a/6)%3 == 0)
		cert := c.encCert[r]
		if (a/6)%3 == 0 && (a/18)%2 == 1 {
			fc := makeCert(uint64(r), blk.Digest())
			cert = encCert(&fc)
		}
		return q.pair(encBlock(&blk), cert), "payset", true, true
	case fHeader:
		blk, _ := c.tamperHeader(r, a)
		cert := c.encCert[r]
		switch b % 3 {
		case 1:
			fc := makeCert(uint64(r), blk.Digest())
			cert = encCert(&fc)
		case 2:
			fc := c.forgeCert(r, blk.Digest(), other(b))
			cert = encCert(&fc)
		}
		return q.pair(encBlock(&blk), cert), "header", true, true
	case fMismatch:
		o := other(b)
		if a%2 == 0 {
			return q.pair(c.encBlk[r], c.encCert[o]), "mismatch", true, true
		}
		return q.pair(c.encBlk[o], c.encCert[r]), "mismatch", true, true
	case fCert:
		o := other(b)
		var fc agreement.Certificate
		switch a % 5 {
		case 0:
			fc = makeCert(uint64(r), c.digest[o])
		case 1:
			fc = c.certs[r]
			fc.Round = basics.Round(o)
		case 2:
			fc = c.forgeCert(r, c.digest[r], -1)
		case 3:
			fc = c.certs[o]
			fc.Round = basics.Round(r)
		case 4:
			fc = c.certs[r]
			fc.Period++
		}
		return q.pair(c.encBlk[r], encCert(&fc)), "cert", true, true
	case fPhantom:
		src := 1 + a%maxChainLen
		if src == r {
			src = 1 + r%maxChainLen
		}
		blk := c.phantom(r, src)
		var fc agreement.Certificate
		if b%2 == 0 {
			fc = makeCert(uint64(r), blk.Digest())
		} else {
			fc = c.certs[src]
			fc.Round = basics.Round(r)
			fc.Proposal.BlockDigest = blk.Digest()
		}
		return q.pair(encBlock(&blk), encCert(&fc)), "phantom", true, true
	}
	return q.noBlock(uint64(tip)), "honest", false, false
}

// ---- run

func (s *Sim) stateDigest() string {
	s.mu.Lock()
	defer s.mu.Unlock()
	hh := sha256.New()
	fmt.Fprintf(hh, "%d|", s.led.last)
	for _, q := range s.reqs {
		fmt.Fprintf(hh, "q%d:%v:%v,", q.round, q.cancelled, q.stalled)
	}
	for _, a := range s.acks {
		fmt.Fprintf(hh, "a%d,", a.round)
	}
	for _, a := range s.starts {
		fmt.Fprintf(hh, "s%d,", a.round)
	}
	for _, r := range s.led.unnotif {
		fmt.Fprintf(hh, "n%d,", r)
	}
	return hex.EncodeToString(hh.Sum(nil))[:16]
}

func (s *Sim) checkLedger() {
	s.mu.Lock()
	defer s.mu.Unlock()
	if len(s.written) != int(s.led.last)+1 {
		s.harness = fmt.Sprintf("ledger bookkeeping broken: %d blocks for last round %d", len(s.written), s.led.last)
	}
}

func bucket(v int64, bounds []int64) string {
	for _, b := range bounds {
		if v <= b {
			return fmt.Sprintf("le_%05d", b)
		}
	}
	return "gt_last"
}

func (s *Sim) run() {
	s.log.Add("config %+v", s.cfg)
	if err := s.setup(); err != nil {
		s.harness = "setup: " + err.Error()
		return
	}
	defer s.shutdown()
	// ---- fault phase
	for s.step = 0; s.step < s.cfg.Steps; s.step++ {
		s.stepOnce()
		s.checkLedger()
		if s.viol != nil || s.harness != "" {
			return
		}
		if s.step%4 == 0 {
			s.states[s.stateDigest()] = true
		}
		if s.led.LastRound() >= s.tip() {
			s.atTipSince++
			if s.atTipSince > 40 {
				s.stats["fault_phase_ended_at_tip"]++
				break
			}
		}
	}
	// ---- GST: every peer is honest and present again, the environment stops interfering
	s.mu.Lock()
	s.live = true
	for _, p := range s.net.peers {
		p.present = true
	}
	s.led.busy = false
	gstRound := s.led.last
	s.mu.Unlock()
	gstStep := s.step
	gstTime := time.Now()
	s.log.Add("GST at step %d: ledger at %d, tip %d", s.step, gstRound, s.cfg.Tip)
	for s.led.LastRound() < s.tip() {
		if s.step-gstStep >= liveStepBound || time.Since(gstTime) >= liveTimeBound {
			s.mu.Lock()
			s.violate("liveness", "", fmt.Sprintf("with every peer honest again the ledger is still at round %d (tip %d) after %d scheduler steps / %v simulated time (was at %d when faults stopped)",
				s.led.last, s.cfg.Tip, s.step-gstStep, time.Since(gstTime), gstRound))
			s.mu.Unlock()
			return
		}
		s.stepOnce()
		s.step++
		s.checkLedger()
		if s.viol != nil || s.harness != "" {
			return
		}
	}
	ls, lt := int64(s.step-gstStep), int64(time.Since(gstTime)/time.Second)
	s.stats["live_runs"]++
	if gstRound < s.tip() {
		s.stats["live_runs_with_work"]++
		s.stats["live_steps_"+bucket(ls, []int64{50, 100, 200, 400, 800, 1600, liveStepBound})]++
		s.stats["live_simsec_"+bucket(lt, []int64{0, 10, 20, 40, 60, 80, 120, 160, int64(liveTimeBound / time.Second)})]++
		if lw := ls * 1000 / int64(int(s.tip()-gstRound)); true {
			s.stats["live_millisteps_per_block_"+bucket(lw, []int64{3000, 5000, 8000, 16000, 64000, 1 << 40})]++
		}
	}
	s.log.Add("tip reached %d steps / %ds after GST", ls, lt)
	// the service must still be well-behaved at the tip: a few more honest steps
	for i := 0; i < 12 && s.viol == nil; i++ {
		s.stepOnce()
		s.step++
	}
}

// shutdown stops the service and releases everything parked in the simulator.
func (s *Sim) shutdown() {
	s.simEnd = time.Now()
	s.quiet = true
	done := make(chan struct{})
	go func() {
		s.svc.Stop()
		close(done)
	}()
	synctest.Wait()
	s.mu.Lock()
	s.draining = true
	close(s.drainCh)
	s.acks = nil
	s.starts = nil
	s.reqs = nil
	for r := range s.led.waiters {
		for _, ch := range s.led.waiters[r] {
			close(ch)
		}
	}
	s.led.waiters = map[basics.Round][]chan struct{}{}
	s.mu.Unlock()
	synctest.Wait()
	for i := 0; i < 4; i++ {
		select {
		case <-done:
			s.flush()
			return
		default:
		}
		time.Sleep(30 * time.Second)
		synctest.Wait()
	}
	s.flush()
	if s.harness == "" && s.viol == nil {
		s.harness = "catchup.Service.Stop did not return after everything parked in the simulator was released"
	}
}

// ---- engine

// Engine implements kernel.Engine.
type Engine struct{}

func (Engine) Name() string { return "catchupsim" }

func (Engine) Run(t *testing.T, prop, tier string, tape *kernel.Tape, keepLog bool) *kernel.RunResult {
	res := &kernel.RunResult{}
	// C30 is this engine's property; C29 ("commitments bind contents") uses it as its second engine: on the
	// catchup path the only thing that ties a downloaded payset to the certified header is the service's
	// ContentsMatchHeader call, and the write oracle (canonical bytes) judges exactly that.
	if prop != "C30" && prop != "C29" {
		res.HarnessErr = "catchupsim decides C30 (and, as second engine, C29), not " + prop
		return res
	}

	var s *Sim
	oldRand := crand.Reader
	defer func() { crand.Reader = oldRand }()
	func() {
		defer func() {
			if r := recover(); r != nil {
				msg := fmt.Sprint(r)
				if !bytes.Contains([]byte(msg), []byte("blocked goroutines remain")) && !bytes.Contains([]byte(msg), []byte("deadlock: main bubble goroutine has exited")) {
					res.HarnessErr = "panic: " + msg
				} else if s != nil {
					s.stats["bubble_leak"]++
					if s.harness == "" && s.viol == nil {
						s.harness = "goroutines of the service were still blocked at the end of the bubble: " + msg
					}
				}
			}
		}()
		synctest.Test(t, func(t *testing.T) {
			s = &Sim{prop: prop, tape: tape, log: kernel.NewLog(keepLog), reqSeq: map[uint64]int{}, authSeq: map[basics.Round]int{}, ackSeq: map[basics.Round]int{},
				agreeCerts: map[basics.Round]bool{}, stats: map[string]int64{}, states: map[string]bool{}}
			s.cfg = drawConfig(tape, tier)
			crand.Reader = simRand{s}
			s.run()
		})
	}()
	if s == nil {
		if res.HarnessErr == "" {
			res.HarnessErr = "bubble did not start"
		}
		return res
	}
	res.Steps = s.step
	res.Digest = s.log.Digest()
	res.Stats = s.stats
	res.SimMs = 0
	if !s.start.IsZero() {
		res.SimMs = int64(s.simEnd.Sub(s.start) / time.Millisecond)
	}
	res.Violation = s.viol
	res.Tape = tape.Rec
	res.LogLines = s.log.Lines
	for k := range s.states {
		res.States = append(res.States, k)
	}
	sort.Strings(res.States)
	if s.harness != "" {
		res.HarnessErr = s.harness
	}
	res.Nontrivial = s.stats["svc_blocks_written"] >= 3 && (s.wroteUnderFault || s.stats["answers_out_of_order"] > 0)
	res.Sample = map[string]any{"tip": s.cfg.Tip, "start": s.cfg.Start, "peers": s.cfg.Peers, "parallel": s.cfg.Parallel, "validate_mode": s.cfg.Mode,
		"seed_lookback": s.cfg.Lookback, "fault_kinds": kindNames(s.cfg.Kinds), "fault_pct": s.cfg.FaultPct, "fault_phase_steps": s.cfg.Steps,
		"agreement_weight": s.cfg.Agree, "unmatched_certs": s.cfg.Certs, "peer_churn": s.cfg.Churn, "steps": s.step, "stats": s.stats}
	return res
}

func kindNames(ks []int) []string {
	var out []string
	for _, k := range ks {
		out = append(out, faultNames[k])
	}
	return out
}
