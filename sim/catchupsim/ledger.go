package catchupsim

import (
	"bytes"
	"context"
	"errors"
	"fmt"
	"runtime"
	"strings"

	"github.com/algorand/go-algorand/agreement"
	"github.com/algorand/go-algorand/config"
	"github.com/algorand/go-algorand/crypto"
	"github.com/algorand/go-algorand/data/basics"
	"github.com/algorand/go-algorand/data/bookkeeping"
	"github.com/algorand/go-algorand/data/committee"
	"github.com/algorand/go-algorand/ledger/ledgercore"
	"github.com/algorand/go-algorand/protocol"
	"github.com/algorand/go-algorand/util/execpool"
)

// simLedger is the catchup.Ledger the service writes to: an in-memory block list that records every
// write attempt, applies the ledger's own rule (only the next round is accepted; an older round is
// "already in ledger"; a later round is a non-sequential evaluation) and deliberately nothing else -
// it does not evaluate blocks, so it never masks a check the catchup service forgot.
//
// Round notifications (Wait/WaitMem) are per-call channels that the SCHEDULER closes, one target round
// per scheduler step, some time after the round was written: a notification is a wake-up that may be
// arbitrarily late, exactly as for a goroutine waiting on the real ledger's channel.
type simLedger struct {
	s       *Sim
	last    basics.Round
	byAgree map[basics.Round]bool
	waiters map[basics.Round][]chan struct{}
	unnotif []basics.Round // written rounds whose notification the scheduler has not delivered yet
	closed  chan struct{}
	proto   config.ConsensusParams
	busy    bool // IsWritingCatchpointDataFile

	startLine int // source line of the first ledger call in pipelinedFetch's goroutine body
}

// startRec is a freshly launched fetch goroutine parked at its first ledger call.
type startRec struct {
	round basics.Round // the round it is going to fetch
	ch    chan struct{}
}

func newLedger(s *Sim, start int) *simLedger {
	l := &simLedger{s: s, last: basics.Round(start), byAgree: map[basics.Round]bool{}, waiters: map[basics.Round][]chan struct{}{}}
	l.closed = make(chan struct{})
	close(l.closed)
	l.proto = config.Consensus[protocol.ConsensusCurrentVersion]
	l.proto.SeedLookback = uint64(s.cfg.Lookback)
	return l
}

func (l *simLedger) NextRound() basics.Round {
	l.s.mu.Lock()
	defer l.s.mu.Unlock()
	return l.last + 1
}

func (l *simLedger) LastRound() basics.Round {
	l.s.mu.Lock()
	defer l.s.mu.Unlock()
	return l.last
}

func (l *simLedger) wait(r basics.Round) chan struct{} {
	l.s.mu.Lock()
	defer l.s.mu.Unlock()
	if r <= l.last || l.s.draining {
		return l.closed
	}
	ch := make(chan struct{})
	l.waiters[r] = append(l.waiters[r], ch)
	return ch
}

func (l *simLedger) Wait(r basics.Round) chan struct{} { return l.wait(r) }

// WaitMem. The FIRST ledger call of every fetch goroutine that pipelinedFetch launches (its
// WaitMem(r-1)) is a park point: pipelinedFetch launches its goroutines in bursts and each of them goes
// straight to the shared peer selector, whose getNextPeer is not commutative (class failure counters), so
// the order in which a burst reaches it would otherwise be up to the Go scheduler. Parked here, the
// goroutines of a burst are started one at a time, in an order chosen by the tape.
func (l *simLedger) WaitMem(r basics.Round) chan struct{} {
	if line := pipelineStartLine(); line > 0 {
		s := l.s
		s.mu.Lock()
		if (l.startLine == 0 || line <= l.startLine) && !s.draining {
			l.startLine = line
			st := &startRec{round: r + 1, ch: make(chan struct{})}
			s.starts = append(s.starts, st)
			drain := s.drainCh
			s.mu.Unlock()
			select {
			case <-st.ch:
			case <-drain:
			}
		} else {
			s.mu.Unlock()
		}
	}
	return l.wait(r)
}

// pipelineStartLine returns the source line of the calling statement if WaitMem was called directly from
// the goroutine body that pipelinedFetch launches, else 0.
func pipelineStartLine() int {
	var pcs [6]uintptr
	n := runtime.Callers(3, pcs[:])
	frames := runtime.CallersFrames(pcs[:n])
	for {
		f, more := frames.Next()
		if strings.Contains(f.Function, "catchupsim.") {
			if !more {
				return 0
			}
			continue
		}
		if strings.Contains(f.Function, "catchup.(*Service).pipelinedFetch.func") {
			return f.Line
		}
		return 0
	}
}

// pendingNotify lists the written rounds whose notification is still to be delivered (s.mu held). It does
// not depend on who is waiting: waiter channels of goroutines that are already gone must not influence
// the schedule.
func (l *simLedger) pendingNotify() []basics.Round {
	return append([]basics.Round(nil), l.unnotif...)
}

// notify closes every waiter channel registered for round r (call with s.mu held).
func (l *simLedger) notify(r basics.Round) {
	for i, x := range l.unnotif {
		if x == r {
			l.unnotif = append(l.unnotif[:i], l.unnotif[i+1:]...)
			break
		}
	}
	w := l.waiters[r]
	delete(l.waiters, r)
	for _, ch := range w {
		close(ch)
	}
}

func (l *simLedger) Seed(basics.Round) (committee.Seed, error) {
	return committee.Seed{}, errors.New("catchupsim: Seed not available")
}

func (l *simLedger) LookupAgreement(basics.Round, basics.Address) (basics.OnlineAccountData, error) {
	return basics.OnlineAccountData{}, errors.New("catchupsim: LookupAgreement not available")
}

func (l *simLedger) Circulation(basics.Round, basics.Round) (basics.MicroAlgos, error) {
	return basics.MicroAlgos{}, errors.New("catchupsim: Circulation not available")
}

func (l *simLedger) LookupDigest(r basics.Round) (crypto.Digest, error) {
	l.s.mu.Lock()
	defer l.s.mu.Unlock()
	if r > l.last {
		return crypto.Digest{}, ledgercore.ErrNoEntry{Round: r, Latest: l.last, Committed: l.last}
	}
	return l.s.chain.digest[r], nil
}

func (l *simLedger) ConsensusParams(basics.Round) (config.ConsensusParams, error) {
	return l.proto, nil
}

func (l *simLedger) ConsensusVersion(basics.Round) (protocol.ConsensusVersion, error) {
	return protocol.ConsensusCurrentVersion, nil
}

func (l *simLedger) Block(r basics.Round) (bookkeeping.Block, error) {
	l.s.mu.Lock()
	defer l.s.mu.Unlock()
	if r > l.last {
		return bookkeeping.Block{}, ledgercore.ErrNoEntry{Round: r, Latest: l.last, Committed: l.last}
	}
	return l.s.written[r], nil
}

func (l *simLedger) BlockHdr(r basics.Round) (bookkeeping.BlockHeader, error) {
	b, err := l.Block(r)
	return b.BlockHeader, err
}

func (l *simLedger) IsWritingCatchpointDataFile() bool {
	l.s.mu.Lock()
	defer l.s.mu.Unlock()
	return l.busy
}

func (l *simLedger) IsBehindCommittingDeltas() bool { return false }

// write is the single place where the simulated ledger changes on behalf of the catchup service.
// kind: "AddBlock", "AddValidatedBlock", "EnsureBlock".
func (l *simLedger) write(kind string, blk bookkeeping.Block, cert agreement.Certificate) error {
	s := l.s
	r := blk.Round()
	s.mu.Lock()
	err := l.apply(kind, r, blk, cert)
	if kind == "EnsureBlock" {
		s.mu.Unlock()
		return err
	}
	l.parkReturn(r)
	return err
}

// parkReturn parks the calling goroutine of the service until the scheduler lets the ledger call return
// (its effect is already applied). Called with s.mu held; releases it.
func (l *simLedger) parkReturn(r basics.Round) {
	s := l.s
	if s.draining {
		s.mu.Unlock()
		return
	}
	ack := &writeAck{round: r, seq: s.ackSeq[r], ch: make(chan struct{})}
	s.ackSeq[r]++
	s.acks = append(s.acks, ack)
	drain := s.drainCh
	s.mu.Unlock()
	select {
	case <-ack.ch:
	case <-drain:
	}
}

func (l *simLedger) apply(kind string, r basics.Round, blk bookkeeping.Block, cert agreement.Certificate) error {
	s := l.s
	s.stats["write_attempts"]++
	if r <= l.last {
		s.stats["write_already_in_ledger"]++
		s.event(r, "ledger %s round=%d -> already in ledger (last=%d)", kind, r, l.last)
		return ledgercore.BlockInLedgerError{LastRound: r, NextRound: l.last + 1}
	}
	if r > l.last+1 {
		s.event(r, "ledger %s round=%d -> NON-SEQUENTIAL (last=%d)", kind, r, l.last)
		s.violate("order", "", fmt.Sprintf("%s called for round %d while the ledger's last round is %d (writes must be for last+1)", kind, r, l.last))
		return ledgercore.ErrNonSequentialBlockEval{EvaluatorRound: r, LatestRound: l.last}
	}
	// r == last+1: the ledger accepts. The oracle decides whether it should have been offered.
	s.judgeWrite(kind, r, &blk, &cert)
	s.written = append(s.written, blk)
	l.last = r
	l.unnotif = append(l.unnotif, r)
	s.stats["svc_blocks_written"]++
	if s.faultsFired > 0 {
		s.wroteUnderFault = true
	}
	s.event(r, "ledger %s round=%d -> written", kind, r)
	return nil
}

func (l *simLedger) AddBlock(blk bookkeeping.Block, cert agreement.Certificate) error {
	return l.write("AddBlock", blk, cert)
}

func (l *simLedger) EnsureBlock(blk *bookkeeping.Block, cert agreement.Certificate) {
	_ = l.write("EnsureBlock", *blk, cert)
}

func (l *simLedger) Validate(ctx context.Context, blk bookkeeping.Block, _ execpool.BacklogPool) (*ledgercore.ValidatedBlock, error) {
	s := l.s
	s.mu.Lock()
	s.stats["validate_calls"]++
	if blk.Round() != l.last+1 {
		s.event(blk.Round(), "ledger Validate round=%d -> non-sequential (last=%d)", blk.Round(), l.last)
		if blk.Round() > l.last+1 {
			s.violate("order", "", fmt.Sprintf("Validate called for round %d while the ledger's last round is %d", blk.Round(), l.last))
		}
		err := ledgercore.ErrNonSequentialBlockEval{EvaluatorRound: blk.Round(), LatestRound: l.last}
		l.parkReturn(blk.Round())
		return nil, err
	}
	s.mu.Unlock()
	vb := ledgercore.MakeValidatedBlock(blk, ledgercore.StateDelta{})
	return &vb, nil
}

func (l *simLedger) AddValidatedBlock(vb ledgercore.ValidatedBlock, cert agreement.Certificate) error {
	return l.write("AddValidatedBlock", vb.Block(), cert)
}

// agreementWrite is the simulator action "the agreement service commits the next canonical block".
func (l *simLedger) agreementWrite() basics.Round {
	s := l.s
	s.mu.Lock()
	defer s.mu.Unlock()
	r := l.last + 1
	s.written = append(s.written, s.chain.blocks[r])
	l.byAgree[r] = true
	l.last = r
	l.unnotif = append(l.unnotif, r)
	return r
}

// judgeWrite is the C30 oracle for a write the ledger is about to accept (s.mu held).
func (s *Sim) judgeWrite(kind string, r basics.Round, blk *bookkeeping.Block, cert *agreement.Certificate) {
	if int(r) >= len(s.chain.encBlk) {
		s.violate("content", "", fmt.Sprintf("%s wrote round %d for which no canonical block exists", kind, r))
		return
	}
	enc := encBlock(blk)
	if !bytes.Equal(enc, s.chain.encBlk[r]) {
		what := "header differs"
		if blk.Digest() == s.chain.digest[r] {
			what = "header is canonical but the payset differs (contents do not match the header)"
		}
		s.violate("content", "", fmt.Sprintf("%s wrote a block for round %d that is not the canonical block: %s", kind, r, what))
		return
	}
	cenc := encCert(cert)
	if kind == "EnsureBlock" {
		// block requested by agreement for a certificate it already verified: the certificate handed to the
		// ledger must be that certificate
		if !bytes.Equal(cenc, s.chain.encCert[r]) || !s.agreeCerts[r] {
			s.violate("auth", "", fmt.Sprintf("EnsureBlock wrote round %d with a certificate that is not the one agreement supplied", r))
		}
		return
	}
	for _, a := range s.authLog {
		if a.ok && a.done && a.round == r && bytes.Equal(a.blkEnc, enc) && bytes.Equal(a.certEnc, cenc) {
			return
		}
	}
	s.violate("auth", "", fmt.Sprintf("%s wrote round %d but the authenticator never accepted this (block, certificate) pair before the write (%d authenticator calls so far)", kind, r, len(s.authLog)))
}
