package catchupsim

import (
	"bytes"
	"context"
	"encoding/binary"
	"errors"
	"fmt"
	"io"
	"net/http"
	"strconv"
	"strings"
	"time"

	"github.com/algorand/go-algorand/components/mocks"
	"github.com/algorand/go-algorand/network"
	"github.com/algorand/go-algorand/protocol"
	"github.com/algorand/go-algorand/rpcs"
)

// simNet is the network.GossipNode the catchup service sees. Only GetPeers, GetGenesisID and
// RequestConnectOutgoing matter to it.
type simNet struct {
	mocks.MockNetwork
	s     *Sim
	peers []*peerCore
}

type peerCore struct {
	s       *Sim
	idx     int
	http    bool
	class   network.PeerOption
	addr    string
	present bool
	obj     network.Peer
}

func (n *simNet) GetPeers(options ...network.PeerOption) []network.Peer {
	n.s.mu.Lock()
	defer n.s.mu.Unlock()
	var out []network.Peer
	for _, p := range n.peers {
		if !p.present {
			continue
		}
		for _, o := range options {
			if o == p.class {
				out = append(out, p.obj)
				break
			}
		}
	}
	return out
}

func (n *simNet) GetGenesisID() string { return genesisID }

// RequestConnectOutgoing: re-dialling takes (simulated) time, so a caller looping over it with no peers
// is durably blocked instead of spinning.
func (n *simNet) RequestConnectOutgoing(replace bool, quit <-chan struct{}) {
	if !replace {
		return
	}
	n.s.mu.Lock()
	n.s.stats["reconnect_requests"]++
	dr := n.s.draining
	n.s.mu.Unlock()
	if dr {
		return
	}
	select {
	case <-time.After(time.Second):
	case <-quit:
	}
}

// wsPeer implements network.UnicastPeer (and nothing of HTTPPeer).
type wsPeer struct{ c *peerCore }

func (p *wsPeer) GetAddress() string { return p.c.addr }
func (p *wsPeer) Respond(ctx context.Context, reqMsg network.IncomingMessage, outMsg network.OutgoingMessage) error {
	return errors.New("catchupsim: Respond not supported")
}

func (p *wsPeer) Request(ctx context.Context, tag network.Tag, topics network.Topics) (*network.Response, error) {
	round := uint64(1 << 62)
	if tag == protocol.UniEnsBlockReqTag {
		if rb, ok := topics.GetValue(rpcs.RoundKey); ok {
			if v, n := binary.Uvarint(rb); n > 0 {
				round = v
			}
		}
	}
	a, err := p.c.s.park(ctx, p.c, round)
	if err != nil {
		return nil, err
	}
	if a.err != nil {
		return nil, a.err
	}
	return &network.Response{Topics: a.topics}, nil
}

// httpPeer implements network.HTTPPeer; it is its own http.RoundTripper.
type httpPeer struct{ c *peerCore }

func (p *httpPeer) GetAddress() string { return p.c.addr }
func (p *httpPeer) GetHTTPClient() *http.Client {
	return &http.Client{Transport: p}
}

func (p *httpPeer) RoundTrip(req *http.Request) (*http.Response, error) {
	round := uint64(1 << 62)
	parts := strings.Split(req.URL.Path, "/")
	// /v1/{genesisID}/block/{round36}
	if len(parts) == 5 && parts[3] == "block" && parts[2] == genesisID {
		if v, err := strconv.ParseUint(parts[4], 36, 64); err == nil {
			round = v
		}
	}
	a, err := p.c.s.park(req.Context(), p.c, round)
	if err != nil {
		return nil, err
	}
	if a.err != nil {
		return nil, a.err
	}
	resp := &http.Response{
		Status:        strconv.Itoa(a.status) + " " + http.StatusText(a.status),
		StatusCode:    a.status,
		Proto:         "HTTP/1.1",
		ProtoMajor:    1,
		ProtoMinor:    1,
		Header:        http.Header{},
		Body:          io.NopCloser(bytes.NewReader(a.body)),
		ContentLength: a.contentLength,
		Request:       req,
	}
	for k, v := range a.header {
		for _, x := range v {
			resp.Header.Add(k, x)
		}
	}
	return resp, nil
}

// answer is what the scheduler decided a peer returns for one request.
type answer struct {
	err           error          // transport-level failure (ws Request error / http RoundTrip error)
	topics        network.Topics // ws
	status        int            // http
	header        map[string][]string
	body          []byte
	contentLength int64
}

// request is one parked block request.
type request struct {
	round     uint64
	seq       int  // per-round sequence number: (round, seq) is the schedule-independent identity
	listed    bool // the scheduler has seen it (a request whose context ends in the very step it was made is swept silently)
	peer      *peerCore
	ch        chan *answer  // answered by the scheduler
	rel       chan struct{} // released by the scheduler after the request's context ended
	cancelled bool          // context ended (timeout / pipeline abort / ledger got the block); waiting for rel
	stalled   bool          // the peer never answers this one
	at        time.Time
}

func (q *request) String() string {
	return fmt.Sprintf("req(r=%d#%d %s)", q.round, q.seq, q.peer.addr)
}

// park registers a request and blocks the calling goroutine of the service until the scheduler answers
// it, or - once its context ended - until the scheduler lets the failure return.
func (s *Sim) park(ctx context.Context, p *peerCore, round uint64) (*answer, error) {
	s.mu.Lock()
	if s.draining {
		s.mu.Unlock()
		return nil, errors.New("catchupsim: network stopped")
	}
	if err := ctx.Err(); err != nil {
		s.mu.Unlock()
		return nil, err
	}
	q := &request{round: round, peer: p, ch: make(chan *answer, 1), rel: make(chan struct{}), at: time.Now()}
	s.reqs = append(s.reqs, q)
	drain := s.drainCh
	s.mu.Unlock()
	select {
	case a := <-q.ch:
		return a, nil
	case <-drain:
		return nil, errors.New("catchupsim: network stopped")
	case <-ctx.Done():
	}
	s.mu.Lock()
	q.cancelled = true
	s.mu.Unlock()
	select {
	case <-q.rel:
	case <-drain:
	}
	return nil, ctx.Err()
}

func (s *Sim) removeReq(q *request) {
	for i, x := range s.reqs {
		if x == q {
			s.reqs = append(s.reqs[:i], s.reqs[i+1:]...)
			return
		}
	}
}

// ---- answers

func be64(v uint64) []byte { return binary.BigEndian.AppendUint64(nil, v) }

// makeAnswer turns (block bytes, cert bytes) - or a failure - into what the peer kind returns.
func (q *request) pair(blk, cert []byte) *answer {
	if q.peer.http {
		body := wireBody(blk, cert)
		return &answer{status: 200, header: map[string][]string{"Content-Type": {rpcs.BlockResponseContentType}}, body: body, contentLength: int64(len(body))}
	}
	return &answer{topics: network.Topics{network.MakeTopic(rpcs.BlockDataKey, blk), network.MakeTopic(rpcs.CertDataKey, cert)}}
}

func (q *request) noBlock(latest uint64) *answer {
	if q.peer.http {
		return &answer{status: 404, header: map[string][]string{rpcs.BlockResponseLatestRoundHeader: {strconv.FormatUint(latest, 10)}}, contentLength: 0}
	}
	return &answer{topics: network.Topics{network.MakeTopic(network.ErrorKey, []byte("requested block is not available")), network.MakeTopic(rpcs.LatestRoundKey, be64(latest))}}
}

func (q *request) rawBody(body []byte) *answer {
	if q.peer.http {
		return &answer{status: 200, header: map[string][]string{"Content-Type": {rpcs.BlockResponseContentType}}, body: body, contentLength: int64(len(body))}
	}
	// a ws peer cannot send an unstructured body; put the bytes where the block goes
	return &answer{topics: network.Topics{network.MakeTopic(rpcs.BlockDataKey, body), network.MakeTopic(rpcs.CertDataKey, body)}}
}
