package catchupsim

import (
	"testing"

	"verif/sim/kernel"
)

func TestWorker(t *testing.T) {
	kernel.WorkerMain(t, Engine{})
}
