package agreesim

import (
	"context"
	"database/sql"
	"fmt"
	"os"
	"path/filepath"
	"testing"

	"github.com/algorand/go-algorand/crypto"
	"github.com/algorand/go-algorand/data/account"
	"github.com/algorand/go-algorand/data/basics"
	"github.com/algorand/go-algorand/protocol"
	"github.com/algorand/go-algorand/util/db"

	"verif/sim/kernel"
)

// C36: forward security of participation keys. Op sequences over a REAL PersistedParticipation on a
// real SQLite file: advance (DeleteOldKeys), sign probes for earlier / current / later rounds,
// crash + reload from a copy of the DB file (only durable state survives), and an injected storage
// error on the key-update transaction (SQLite trigger RAISE(ABORT)).
// Reference model: cur = highest round passed to a DeleteOldKeys call on this in-memory object;
// durable = highest round whose deletion was ACKNOWLEDGED (nil error) on this DB lineage.
//   - in memory:  Sign(r) verifies  <=>  r >= cur            (within the key's validity range)
//   - after reload from the image:  Sign(r) verifies for every r >= durable' where durable' is the
//     model's durable round at the time the image was taken, and fails for every r < durable'.

type probeMsg struct{ n uint64 }

func (p probeMsg) ToBeHashed() (protocol.HashID, []byte) {
	return protocol.Vote, []byte(fmt.Sprintf("verif-c36-probe-%d", p.n))
}

func runKeySim(t *testing.T, tape *kernel.Tape, tier, dir string, keepLog bool) *kernel.RunResult {
	res := &kernel.RunResult{Stats: map[string]int64{}}
	log := kernel.NewLog(keepLog)
	stat := func(k string) { res.Stats[k]++ }
	fail := func(oracle, detail string, step int) {
		if res.Violation == nil {
			res.Violation = &kernel.Violation{Property: "C36", Oracle: oracle, Detail: detail, Step: step}
			log.Add("VIOLATION %s %s", oracle, detail)
		}
	}
	proto := params()
	dil := uint64(tape.Range("cfg.dilution", 2, 9))
	first := basics.Round(tape.Range("cfg.first", 0, 20))
	span := tape.Range("cfg.span", 8, 60)
	last := first + basics.Round(span)
	nops := tape.Range("cfg.ops", 8, 40)
	if tier == "thorough" {
		nops = tape.Range("cfg.ops2", 20, 120)
	}
	gen := 0
	path := filepath.Join(dir, "part-0.db")
	acc, err := db.MakeErasableAccessor(path)
	if err != nil {
		res.HarnessErr = "open part db: " + err.Error()
		return res
	}
	var addr basics.Address
	addr[0] = 7
	part, err := account.FillDBWithParticipationKeys(acc, addr, first, last, dil)
	if err != nil {
		res.HarnessErr = "FillDBWithParticipationKeys: " + err.Error()
		return res
	}
	defer func() { part.Store.Close() }()
	voteID := part.Voting.OneTimeSignatureVerifier
	log.Add("config dil=%d first=%d last=%d ops=%d", dil, first, last, nops)
	cur := first     // in-memory model
	durable := first // acknowledged durable model
	dbFault := false
	probe := func(step int, r basics.Round, where string) {
		id := basics.OneTimeIDForRound(r, dil)
		msg := probeMsg{uint64(r)*1000 + uint64(step)}
		sig := part.Voting.Sign(id, msg)
		ok := sig != (crypto.OneTimeSignature{}) && voteID.Verify(id, msg, sig)
		want := r >= cur
		log.Add("  probe(%s) r=%d signs=%v expect=%v", where, r, ok, want)
		stat("probe")
		if ok && !want {
			stat("probe_old_round")
			fail("old-round-signable", fmt.Sprintf("%s: keys advanced to round %d but a valid signature for earlier round %d (batch %d offset %d, dilution %d) was produced", where, cur, r, id.Batch, id.Offset, dil), step)
		}
		if !ok && want {
			fail("later-round-unsignable", fmt.Sprintf("%s: keys advanced to round %d only, but round %d (<= last %d) can no longer be signed (dilution %d)", where, cur, r, last, dil), step)
		}
		if !want {
			stat("probe_old_round")
		}
	}
	for step := 0; step < nops && res.Violation == nil; step++ {
		base := len(tape.Rec)
		rFault := tape.Choose("step.fault", drawN)
		rOp := tape.Choose("step.op", drawN)
		rA := tape.Choose("step.a", drawN)
		rB := tape.Choose("step.b", drawN)
		var eff [4]int
		res.Steps++
		switch f := rFault % 100; {
		case f >= 88: // crash + reload from the durable image
			eff[0] = rFault
			gen++
			next := filepath.Join(dir, fmt.Sprintf("part-%d.db", gen))
			if err := copyDB(path, next); err != nil {
				res.HarnessErr = "copy part db: " + err.Error()
				return res
			}
			part.Store.Close()
			path = next
			acc2, err := db.MakeErasableAccessor(path)
			if err != nil {
				res.HarnessErr = "reopen: " + err.Error()
				return res
			}
			p2, err := account.RestoreParticipation(acc2)
			if err != nil {
				fail("reload-failed", "RestoreParticipation after crash: "+err.Error(), step)
				break
			}
			part = p2
			cur = durable // only acknowledged deletions are guaranteed to survive ...
			// (an armed fault trigger lives in the DB file and survives the copy)
			log.Add("crash+reload gen=%d durable=%d", gen, durable)
			stat("crash_reload")
			// ... so after a reload: rounds below the durable round must be unsignable; every round from
			// the durable round on must still be signable. (Rounds in [durable, lost in-memory cur) may
			// be signable again if the un-acknowledged update was lost - allowed.)
			lo := durable
			if lo > first {
				hi := lo
				if hi > last+1 {
					hi = last + 1
				}
				probe(step, first+basics.Round(rA%int(hi-first)), "after-reload-old")
			}
			if lo <= last {
				probe(step, lo+basics.Round(rB%int(last-lo+1)), "after-reload-later")
			}
		case f >= 80 && !dbFault: // storage error on the next key-update transaction
			eff[0] = rFault
			err := part.Store.Atomic(func(ctx context.Context, tx *sql.Tx) error {
				_, e := tx.Exec("CREATE TRIGGER IF NOT EXISTS verif_fault BEFORE UPDATE ON ParticipationAccount BEGIN SELECT RAISE(ABORT, 'verif: injected disk error'); END")
				return e
			})
			if err != nil {
				res.HarnessErr = "install trigger: " + err.Error()
				return res
			}
			dbFault = true
			log.Add("fault: db update will fail")
			stat("db_error_armed")
		default:
			switch rOp % 3 {
			case 0: // advance
				eff[1], eff[2] = rOp, rA
				var to basics.Round
				if rA%5 == 0 && cur > first { // sometimes a stale (lower) round: must be a no-op
					to = first + basics.Round(rA%int(cur-first+1))
				} else {
					to = cur + basics.Round((rA/5)%(int(dil)*2+2))
				}
				// advancing beyond the end of the key's validity range is legal (the node keeps running after
				// its keys expire): every round of the range is then in the past and must be unsignable
				if to > last+basics.Round(2*dil+2) {
					to = last + basics.Round(2*dil+2)
				}
				if to > last {
					stat("advance_past_end")
				}
				ch := part.DeleteOldKeys(to, proto)
				err := <-ch
				if to > cur {
					cur = to
				}
				if err == nil {
					if cur > durable {
						durable = cur
					}
					stat("advance_acked")
				} else {
					stat("advance_db_error")
					if !dbFault {
						fail("unexpected-db-error", "DeleteOldKeys: "+err.Error(), step)
					}
				}
				if dbFault {
					// remove the one-shot fault
					part.Store.Atomic(func(ctx context.Context, tx *sql.Tx) error {
						_, e := tx.Exec("DROP TRIGGER IF EXISTS verif_fault")
						return e
					})
					dbFault = false
				}
				log.Add("advance to=%d cur=%d durable=%d err=%v", to, cur, durable, err != nil)
				// immediately: every earlier round is dead, the current one is alive
				if cur > first {
					pr := cur - 1
					if pr > last {
						pr = last
					}
					probe(step, pr, "after-advance-prev")
				}
				if cur <= last {
					probe(step, cur, "after-advance-cur")
				}
			case 1: // probe an earlier round
				eff[1], eff[2] = rOp, rA
				if cur > first {
					hi := cur
					if hi > last+1 {
						hi = last + 1
					}
					probe(step, first+basics.Round(rA%int(hi-first)), "probe-old")
				}
			case 2: // probe a later round (any up to last, across batch boundaries)
				eff[1], eff[2] = rOp, rA
				if cur <= last {
					probe(step, cur+basics.Round(rA%int(last-cur+1)), "probe-later")
				}
			}
		}
		for j := 0; j < 4; j++ {
			tape.Canon(base+j, eff[j])
		}
		_ = rB
	}
	res.Digest = log.Digest()
	res.Tape = tape.Rec
	res.LogLines = log.Lines
	res.Nontrivial = res.Stats["probe_old_round"] > 0 && res.Stats["advance_acked"] > 0
	res.States = []string{fmt.Sprintf("%d/%d/%d/%d/%d", dil, first, last, cur, durable)}
	res.Sample = map[string]any{"dilution": dil, "first": first, "last": last, "ops": nops, "final_round": cur, "stats": res.Stats}
	return res
}

func init() { _ = os.Getenv }
