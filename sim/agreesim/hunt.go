package agreesim

import (
	"fmt"

	"github.com/algorand/go-algorand/data/basics"
	"github.com/algorand/go-algorand/protocol"
)

// Fork hunting (C01). Uniformly random schedules almost never complete a fork even when a node has
// already done something that makes one possible: two quorums must then form on two sides of a very
// specific split. So when the simulator observes a DANGER STATE - in one (round, period) some honest
// node has cert-voted a value while some honest node has next-voted bottom - it may switch, for a
// bounded number of steps, to an adversarial but perfectly legal delivery policy that tries to let
// both quorums complete on different sides: the cert-voter is isolated; cert votes for the value go
// only to it, next votes for bottom and everything of later periods stay among the others, and no
// catch-up block is handed out. With correct code the danger state is harmless (nodes that cert-voted
// never next-vote bottom, so the two quorums cannot both exist) and the hunt only costs progress; the
// verdict is still given by the plain C01 oracle (two digests committed for one round).

type hunt struct {
	round  basics.Round
	period uint64
	val    PValue
	iso    int
	until  int
	// phase 1: the bottom next-votes of the period are DELAYED for everybody, so that every node stays in the
	// period long enough to do whatever it is going to do when the (slow) payload finally arrives; phase 2
	// lets them through to the non-isolated side only.
	phase1Until int
}

// huntHolds: phase-1 delay (the message stays in flight).
func (s *Sim) huntHolds(f *flight) bool {
	h := s.hunt
	if h == nil || s.step >= h.phase1Until || !f.hasHdr || f.vr != h.round || f.vp != h.period {
		return false
	}
	if f.vs >= stepNext && f.vs < stepLate && f.vval.IsBottom() {
		// end phase 1 early once every honest node has cert-voted the value
		o := s.huntSeen[fmt.Sprintf("%d|%d", h.round, h.period)]
		all := true
		for _, n := range s.nodes {
			if n.adv || !n.alive {
				continue
			}
			if _, ok := o.certBy[n.id]; !ok {
				all = false
			}
		}
		if all {
			h.phase1Until = s.step
			s.stat("hunt_phase1_all_cert_voted", 1)
			return false
		}
		return true
	}
	return false
}

type huntObs struct {
	certBy map[int]PValue
	botBy  map[int]bool
	probed bool
}

func setHdr(f *flight, dec any) {
	switch d := dec.(type) {
	case UVote:
		f.hasHdr, f.vr, f.vp, f.vs, f.vval = true, d.R.Round, d.R.Period, d.R.Step, d.R.Proposal
	case UBundle:
		f.hasHdr, f.vr, f.vp, f.vs, f.vval = true, d.Round, d.Period, d.Step, d.Proposal
	case TPayload:
		f.ppRound = d.Block.Round()
	}
}

// clockHeld (clean-hunt profile only): a node that has entered the next-vote steps of a period while a
// slow proposal payload of that round is still on its way to it gets no further clock ticks until the
// payload has arrived (a slow node is legal). This parks nodes exactly where a late payload meets the
// recovery steps of the period - the window in which a cert vote would contradict a bottom next-vote.
func (s *Sim) clockHeld(n *Node) bool {
	ln, ok := s.lastNext[n.id]
	if !ok || ln.r != n.led.next() || ln.until < s.step {
		return false
	}
	for _, f := range s.inflight {
		if f.to == n.id && f.tag == protocol.ProposalPayloadTag && f.notBefore > s.step {
			return true
		}
	}
	return false
}

// preHuntHolds (clean-hunt profile, no hunt running): while a slow proposal payload of a round is still under
// way, the bottom next-votes of that round are delayed as well, so that the period does not end before the
// payload has met the nodes waiting in their next-vote steps.
func (s *Sim) preHuntHolds(f *flight) bool {
	if !f.hasHdr || f.vs < stepNext || f.vs >= stepLate || !f.vval.IsBottom() {
		return false
	}
	for _, g := range s.inflight {
		if g.tag == protocol.ProposalPayloadTag && g.ppRound == f.vr && g.notBefore > s.step {
			return true
		}
	}
	return false
}

// huntClockHeld (clean-hunt profile, phase 2): the non-isolated nodes that are still in the hunted period get
// no clock ticks - their next recovery step would vote the (now committable) value and end the period with a
// value quorum instead of the bottom quorum that is already in flight to them.
func (s *Sim) huntClockHeld(n *Node) bool {
	h := s.hunt
	if h == nil || (n.id == h.iso && s.step >= h.phase1Until) {
		return false
	}
	if s.step >= h.phase1Until+400 {
		return false // the bottom votes have had ample time to arrive: let the nodes act in the next period
	}
	c, ok := s.nodePer[n.id]
	return ok && c.r == h.round && c.p == h.period && n.led.next() == h.round
}

type lastNextRec struct {
	r     basics.Round
	p     uint64
	until int
}

// huntObserve is fed every attest vote an honest node originates.
func (s *Sim) huntObserve(n *Node, v UVote) {
	if s.cfg.CleanHunt {
		if s.nodePer == nil {
			s.nodePer = map[int]lastNextRec{}
		}
		if c, ok := s.nodePer[n.id]; !ok || v.R.Round > c.r || (v.R.Round == c.r && v.R.Period > c.p) {
			s.nodePer[n.id] = lastNextRec{r: v.R.Round, p: v.R.Period}
		}
	}
	if s.cfg.CleanHunt && v.R.Step >= stepNext && v.R.Step < stepLate {
		if s.lastNext == nil {
			s.lastNext = map[int]lastNextRec{}
		}
		if ln, ok := s.lastNext[n.id]; !ok || ln.r != v.R.Round || ln.p != v.R.Period {
			s.lastNext[n.id] = lastNextRec{r: v.R.Round, p: v.R.Period, until: s.step + 2500}
		}
	}
	if v.R.Step < stepCert {
		return
	}
	if s.huntSeen == nil {
		s.huntSeen = map[string]*huntObs{}
	}
	k := fmt.Sprintf("%d|%d", v.R.Round, v.R.Period)
	o := s.huntSeen[k]
	if o == nil {
		o = &huntObs{certBy: map[int]PValue{}, botBy: map[int]bool{}}
		s.huntSeen[k] = o
	}
	if v.R.Step == stepCert {
		o.certBy[n.id] = v.R.Proposal
	} else if v.R.Proposal.IsBottom() && v.R.Step < stepLate {
		o.botBy[n.id] = true
	}
	if _, c := o.certBy[n.id]; c && o.botBy[n.id] && !o.probed {
		o.probed = true
		s.stat("probe.same_node_cert_and_next_bottom", 1) // reach probe, not an oracle
	}
	if !s.cfg.Hunt || s.hunt != nil || len(o.certBy) == 0 || len(o.botBy) == 0 {
		return
	}
	// isolate a cert-voter, preferably one that also next-voted bottom (the strongest danger sign)
	iso := -1
	var isoStake uint64
	for id, nd := range s.nodes {
		_, certd := o.certBy[id]
		if s.cfg.CleanHunt && o.botBy[n.id] {
			// orderly profile, same-node danger just seen at n: payloads land everywhere within a few steps, so
			// any node that next-voted bottom is expected to follow; isolate the lightest of them
			if _, c := o.certBy[n.id]; c && !nd.adv && nd.alive {
				certd = true
			}
		}
		if certd && o.botBy[id] {
			var st uint64
			for _, a := range nd.accts {
				st += s.cfg.Stake[a.Idx]
			}
			if iso < 0 || st < isoStake { // the lighter the isolated node, the likelier the rest still has a quorum
				iso, isoStake = id, st
			}
		}
	}
	if iso < 0 {
		// cross-node danger is common and harmless with correct code: hunt on it only now and then
		// (decided by the vote's content, not by a tape draw)
		if h := voteSha(v); h[0]%8 != 0 || s.cfg.CleanHunt {
			return // (clean profile: only the unambiguous same-node danger starts a hunt)
		}
		for id := range s.nodes {
			if _, ok := o.certBy[id]; ok {
				iso = id
				break
			}
		}
	}
	val, ok := o.certBy[iso]
	if !ok {
		val = o.certBy[n.id]
	}
	s.hunt = &hunt{round: v.R.Round, period: v.R.Period, val: val, iso: iso, until: s.step + 3000, phase1Until: s.step + 600}
	s.log.Add("  HUNT: isolate n%d for r%d p%d value %s same-node=%v", iso, v.R.Round, v.R.Period, s.hunt.val.Short(), o.botBy[iso])
	s.stat("hunt_started", 1)
	if o.botBy[iso] {
		s.stat("hunt_started_same_node", 1)
	}
}

func (s *Sim) huntAllows(f *flight) bool {
	h := s.hunt
	if h == nil {
		return true
	}
	allDone := true
	for _, n := range s.nodes {
		if !n.adv && n.alive && n.led.next() <= h.round {
			allDone = false
		}
	}
	if allDone {
		s.hunt = nil
		s.log.Add("  hunt over (round committed everywhere)")
		return true
	}
	if s.step > h.until {
		s.hunt = nil
		s.log.Add("  hunt over (step budget)")
		return true
	}
	if !f.hasHdr || f.vr != h.round {
		return true
	}
	toIso := f.to == h.iso
	fromIso := f.from == h.iso
	switch {
	case f.vp > h.period:
		return !toIso && !fromIso
	case f.vp == h.period && f.vs == stepCert && f.vval == h.val:
		return toIso
	case f.vp == h.period && f.vs >= stepNext && f.vval.IsBottom():
		return !toIso
	}
	return true
}
