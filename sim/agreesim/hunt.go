package agreesim

import (
	"fmt"

	"github.com/algorand/go-algorand/data/basics"
)

// Fork hunting (C01). Uniformly random schedules almost never complete a fork even when a node has
// already done something that makes one possible: two quorums must then form on two sides of a very
// specific split. So when the simulator observes a DANGER STATE - in one (round, period) some honest
// node has cert-voted a value while some honest node has next-voted bottom - it may switch, for a
// bounded number of steps, to an adversarial but perfectly legal delivery policy that tries to let
// both quorums complete on different sides: the cert-voter is isolated; cert votes for the value go
// only to it, next votes for bottom and everything of later periods stay among the others, and no
// catch-up block is handed out. With correct code the danger state is harmless (nodes that cert-voted
// never next-vote bottom, so the two quorums cannot both exist) and the hunt only costs progress; the
// verdict is still given by the plain C01 oracle (two digests committed for one round).

type hunt struct {
	round  basics.Round
	period uint64
	val    PValue
	iso    int
	until  int
}

type huntObs struct {
	certBy map[int]PValue
	botBy  map[int]bool
	probed bool
}

func setHdr(f *flight, dec any) {
	switch d := dec.(type) {
	case UVote:
		f.hasHdr, f.vr, f.vp, f.vs, f.vval = true, d.R.Round, d.R.Period, d.R.Step, d.R.Proposal
	case UBundle:
		f.hasHdr, f.vr, f.vp, f.vs, f.vval = true, d.Round, d.Period, d.Step, d.Proposal
	}
}

// huntObserve is fed every attest vote an honest node originates.
func (s *Sim) huntObserve(n *Node, v UVote) {
	if v.R.Step < stepCert {
		return
	}
	if s.huntSeen == nil {
		s.huntSeen = map[string]*huntObs{}
	}
	k := fmt.Sprintf("%d|%d", v.R.Round, v.R.Period)
	o := s.huntSeen[k]
	if o == nil {
		o = &huntObs{certBy: map[int]PValue{}, botBy: map[int]bool{}}
		s.huntSeen[k] = o
	}
	if v.R.Step == stepCert {
		o.certBy[n.id] = v.R.Proposal
	} else if v.R.Proposal.IsBottom() && v.R.Step < stepLate {
		o.botBy[n.id] = true
	}
	if _, c := o.certBy[n.id]; c && o.botBy[n.id] && !o.probed {
		o.probed = true
		s.stat("probe.same_node_cert_and_next_bottom", 1) // reach probe, not an oracle
	}
	if !s.cfg.Hunt || s.hunt != nil || len(o.certBy) == 0 || len(o.botBy) == 0 {
		return
	}
	// isolate a cert-voter, preferably one that also next-voted bottom (the strongest danger sign)
	iso := -1
	var isoStake uint64
	for id, nd := range s.nodes {
		if _, ok := o.certBy[id]; ok && o.botBy[id] {
			var st uint64
			for _, a := range nd.accts {
				st += s.cfg.Stake[a.Idx]
			}
			if iso < 0 || st < isoStake { // the lighter the isolated node, the likelier the rest still has a quorum
				iso, isoStake = id, st
			}
		}
	}
	if iso < 0 {
		// cross-node danger is common and harmless with correct code: hunt on it only now and then
		// (decided by the vote's content, not by a tape draw)
		if h := voteSha(v); h[0]%8 != 0 {
			return
		}
		for id := range s.nodes {
			if _, ok := o.certBy[id]; ok {
				iso = id
				break
			}
		}
	}
	s.hunt = &hunt{round: v.R.Round, period: v.R.Period, val: o.certBy[iso], iso: iso, until: s.step + 3000}
	s.log.Add("  HUNT: isolate n%d for r%d p%d value %s same-node=%v", iso, v.R.Round, v.R.Period, s.hunt.val.Short(), o.botBy[iso])
	s.stat("hunt_started", 1)
	if o.botBy[iso] {
		s.stat("hunt_started_same_node", 1)
	}
}

func (s *Sim) huntAllows(f *flight) bool {
	h := s.hunt
	if h == nil {
		return true
	}
	allDone := true
	for _, n := range s.nodes {
		if !n.adv && n.alive && n.led.next() <= h.round {
			allDone = false
		}
	}
	if allDone {
		s.hunt = nil
		s.log.Add("  hunt over (round committed everywhere)")
		return true
	}
	if s.step > h.until {
		s.hunt = nil
		s.log.Add("  hunt over (step budget)")
		return true
	}
	if !f.hasHdr || f.vr != h.round {
		return true
	}
	toIso := f.to == h.iso
	fromIso := f.from == h.iso
	switch {
	case f.vp > h.period:
		return !toIso && !fromIso
	case f.vp == h.period && f.vs == stepCert && f.vval == h.val:
		return toIso
	case f.vp == h.period && f.vs >= stepNext && f.vval.IsBottom():
		return !toIso
	}
	return true
}
