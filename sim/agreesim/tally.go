package agreesim

import (
	"crypto/sha256"
	"fmt"

	"github.com/algorand/go-algorand/config"
	"github.com/algorand/go-algorand/data/basics"
	"github.com/algorand/go-algorand/protocol"
)

// Reference tally (C06 / C04): for every honest node, the set of reference-valid votes that have
// been handed to it (directly, inside reference-valid bundles, or originated by itself), per
// (round, period, step). The node may consider more votes stale than the reference does, so the
// reference weight is an upper bound of what the node has counted: the oracle is the only-if
// direction - whenever the node signals a quorum for (r,p,s,value), the reference weight for that
// value (each sender once, an equivocator for every value) has reached the step threshold.

type stepTally struct {
	vals map[basics.Address]map[PValue]bool
	w    map[basics.Address]uint64
}

func (s *Sim) refWeight(v UVote) uint64 {
	k := voteSha(v)
	if w, ok := s.refW[k]; ok {
		return w
	}
	w, err := RefVoteWeight(s, v)
	if err != nil {
		w = 0
	}
	s.refW[k] = w
	return w
}

func tallyKey(r basics.Round, p, st uint64) string { return fmt.Sprintf("%d|%d|%d", r, p, st) }

func (s *Sim) tallyAdd(node int, v UVote) {
	if !s.tallyOn {
		return
	}
	w := s.refWeight(v)
	if w == 0 {
		return
	}
	m := s.tallies[node]
	if m == nil {
		m = map[string]*stepTally{}
		s.tallies[node] = m
	}
	k := tallyKey(v.R.Round, v.R.Period, v.R.Step)
	t := m[k]
	if t == nil {
		t = &stepTally{vals: map[basics.Address]map[PValue]bool{}, w: map[basics.Address]uint64{}}
		m[k] = t
	}
	if t.vals[v.R.Sender] == nil {
		t.vals[v.R.Sender] = map[PValue]bool{}
	}
	t.vals[v.R.Sender][v.R.Proposal] = true
	t.w[v.R.Sender] = w
}

func (s *Sim) tallyWeight(node int, r basics.Round, p, st uint64, val PValue) uint64 {
	t := s.tallies[node][tallyKey(r, p, st)]
	if t == nil {
		return 0
	}
	var sum uint64
	for snd, vs := range t.vals {
		if vs[val] || len(vs) >= 2 {
			sum += t.w[snd]
		}
	}
	return sum
}

// tallyDeliver feeds a message that is being handed to honest node `to` into its reference tally.
func (s *Sim) tallyDeliver(to int, tag protocol.Tag, data []byte) {
	if !s.tallyOn || s.nodes[to].adv {
		return
	}
	switch tag {
	case protocol.AgreementVoteTag:
		if v, err := DecodeVote(data); err == nil {
			s.tallyAdd(to, v)
		}
	case protocol.ProposalPayloadTag:
		if p, err := DecodePayload(data); err == nil && p.PriorVote != (UVote{}) {
			s.tallyAdd(to, p.PriorVote)
		}
	case protocol.VoteBundleTag:
		b, err := DecodeBundle(data)
		if err != nil {
			return
		}
		h := sha256.Sum256(data)
		ok, seen := s.refBundleOK[string(h[:])]
		if !seen {
			_, e := RefBundleCheck(s, b)
			ok = e == nil
			s.refBundleOK[string(h[:])] = ok
			if !ok {
				s.stat("invalid_bundle_delivered", 1)
			}
		}
		if !ok {
			return // an invalid bundle contributes nothing (the real code must drop it whole)
		}
		for _, va := range b.Votes {
			s.tallyAdd(to, UVote{R: RawVote{Sender: va.Sender, Round: b.Round, Period: b.Period, Step: b.Step, Proposal: b.Proposal}, Cred: va.Cred, Sig: va.Sig})
		}
		for _, ea := range b.EquivocationVotes {
			for k := 0; k < 2; k++ {
				s.tallyAdd(to, UVote{R: RawVote{Sender: ea.Sender, Round: b.Round, Period: b.Period, Step: b.Step, Proposal: ea.Proposals[k]}, Cred: ea.Cred, Sig: ea.Sigs[k]})
			}
		}
	}
}

func stepThreshold(step uint64) uint64 {
	_, thr := stepCommittee(config.Consensus[Proto], step)
	return thr
}

// requireQuorum is called when honest node n signals a quorum for (r,p,st,val).
func (s *Sim) requireQuorum(n *Node, what string, r basics.Round, p, st uint64, val PValue) {
	if !s.tallyOn {
		return
	}
	w := s.tallyWeight(n.id, r, p, st, val)
	thr := stepThreshold(st)
	s.stat("quorum_signal_checked", 1)
	if w < thr {
		s.violate("C06", "quorum-without-weight", what, fmt.Sprintf("n%d signalled a quorum (%s) for r%d p%d s%d %s, but the reference-valid votes it has been given for that value weigh %d < threshold %d", n.id, what, r, p, st, val.Short(), w, thr))
	}
}
