package agreesim

import (
	"context"
	"encoding/binary"
	"fmt"
	"runtime"
	"sort"
	"strings"
	"sync"
	"time"

	"github.com/algorand/go-algorand/agreement"
	"github.com/algorand/go-algorand/config"
	"github.com/algorand/go-algorand/crypto"
	"github.com/algorand/go-algorand/data/basics"
	"github.com/algorand/go-algorand/data/bookkeeping"
	"github.com/algorand/go-algorand/data/committee"
	"github.com/algorand/go-algorand/protocol"
	"github.com/algorand/go-algorand/util/db"
	"github.com/algorand/go-algorand/util/execpool"
	"github.com/algorand/go-algorand/util/timers"
)

// ---------------------------------------------------------------------------------------------
// Seam bookkeeping: every call a service makes into a simulator-owned seam goes through
// inst.enter(kind). A crash trigger armed on the instance parks the calling goroutine forever at
// its k-th matching seam call (the node is then "crashed at that point"); calls made by an
// instance that is already dead park too, so nothing a dead incarnation does is ever observed.
// ---------------------------------------------------------------------------------------------

type seamKind int

// Crash triggers may only be armed on kinds whose calls all come from ONE goroutine of the service
// in program order (send/ensure/timer/waitDemux: the demux loop; waitPersist: the persistence loop;
// assemble: the pseudonode proposal worker). seamRead is called from several goroutines at once, so
// counting its calls would race; it is never used for triggers.
const (
	seamSend seamKind = iota // Broadcast / Relay / Disconnect
	seamEnsure
	seamWaitDemux
	seamTimer
	seamRead // ledger reads, key manager (not triggerable)
	seamAssemble
	seamWaitPersist
	nSeamKinds
)

var seamNames = [...]string{"send", "ensure", "wait-demux", "timer", "read", "assemble", "wait-persist"}

// calledFromPersistence reports whether the current call stack is the agreement persistence loop.
func calledFromPersistence() bool {
	var pcs [16]uintptr
	n := runtime.Callers(3, pcs[:])
	fr := runtime.CallersFrames(pcs[:n])
	for {
		f, more := fr.Next()
		if strings.Contains(f.Function, "asyncPersistenceLoop") {
			return true
		}
		if !more {
			return false
		}
	}
}

// inst is one incarnation of a node's agreement service together with its seam objects.
type inst struct {
	sim  *Sim
	node *Node
	inc  int

	mu       sync.Mutex
	dead     bool          // crashed: all seam calls park
	crashReq bool          // a trigger fired: the triggering goroutine is parked; the scheduler finalises the crash at quiescence
	zombie   bool          // cleanup: all seam calls return benign values, nothing recorded
	release  chan struct{} // closed at cleanup to let parked goroutines go
	trigMask uint32        // armed crash trigger: which seam kinds count
	trigLeft int           // fires when it reaches 0
	trigHit  string        // where it fired
	stopped  bool          // Shutdown already issued
	twin     bool          // C07 twin instance
	shadow   bool          // shadow instance (C02 oracle): emissions recorded separately, never delivered

	outbox        []outMsg
	ensures       []ensureRec
	disconns      int
	seamCnt       [nSeamKinds]int
	prevBatchVote bool     // the main loop's previous send was a Broadcast of a vote
	lastMain      seamKind // last seam call of the main loop; seamTimer <=> it sits in demux.next's select (idle)

	svc  *agreement.Service
	clk  *simClock
	net  *simNet
	acc  db.Accessor
	pool *simPool

	hist   db.Accessor // C02: second (read) connection to the crash DB, used by the emission seam
	histOK bool
}

type outMsg struct {
	tag    protocol.Tag
	data   []byte
	except int // node id not to send to (relay source), -1 for none
	bcast  bool
	hseq   int64 // C02: number of states persisted to the node's crash DB at the instant this vote left (-1: not sampled)
}

type ensureRec struct {
	kind  string
	round basics.Round
	dig   crypto.Digest
	cert  agreement.Certificate
	block *bookkeeping.Block
}

// enter returns false if the call must be treated as a no-op (zombie); it never returns for a
// dead instance until cleanup.
func (in *inst) enter(k seamKind) bool { return in.enterT(k, true) }

// enterSend: Broadcast of a vote is how broadcastVotesAction re-sends its dumped votes - a batch emitted in
// Go map order. A crash trigger may stop the node BEFORE such a batch or AFTER it (both instants are
// schedule-independent), never inside it: which votes had left would depend on the map iteration order.
func (in *inst) enterSend(batchVote bool) bool {
	in.mu.Lock()
	mid := batchVote && in.prevBatchVote
	in.prevBatchVote = batchVote
	in.mu.Unlock()
	return in.enterT(seamSend, !mid)
}

func (in *inst) enterT(k seamKind, mayTrigger bool) bool {
	in.mu.Lock()
	if in.zombie {
		in.mu.Unlock()
		return false
	}
	in.seamCnt[k]++
	if k == seamEnsure || k == seamWaitDemux || k == seamTimer {
		in.prevBatchVote = false
	}
	if k == seamSend || k == seamEnsure || k == seamWaitDemux || k == seamTimer {
		in.lastMain = k // all four are called by the service's main (demux) loop goroutine only
	}
	if mayTrigger && !in.dead && !in.crashReq && in.trigLeft > 0 && in.trigMask&(1<<uint(k)) != 0 {
		in.trigLeft--
		if in.trigLeft == 0 {
			// Only THIS goroutine stops here; the service's other goroutines run on until they block
			// by themselves, which is deterministic. The root goroutine then finalises the crash.
			in.crashReq = true
			in.trigHit = seamNames[k]
			rel := in.release
			in.mu.Unlock()
			<-rel
			return false
		}
	}
	if in.dead {
		rel := in.release
		in.mu.Unlock()
		<-rel // parked: durably blocked on a simulator channel
		return false
	}
	in.mu.Unlock()
	return true
}

// ---------------------------------------------------------------------------------------------
// Ledger (stub, DESIGN.md §3): block store + static stake table; durable across incarnations.
// ---------------------------------------------------------------------------------------------

type simLedger struct {
	sim  *Sim
	node *Node
	mu   sync.Mutex

	entries   map[basics.Round]bookkeeping.Block
	certs     map[basics.Round]agreement.Certificate
	nextRound basics.Round
	waiters   map[basics.Round]chan struct{}
	// slow-flush fault: Wait(r) for an already written round r stays open until flushed >= r.
	flushed basics.Round
	slow    map[basics.Round]chan struct{}
	// genesisSlow: even the durability notification of the round preceding the first simulated round
	// is delayed until the first flush action (a node whose ledger is still syncing when it starts)
	genesisSlow bool
	// gates: the durability notifications the persistence loop waits for are handed out one at a time by
	// the scheduler, each at a quiescent instant (Sim.quiesce). A state is therefore written to the crash
	// DB while nothing else in the node is running: the real-time race between the SQLite commit and the
	// node's other goroutines cannot decide the order of events (it did, and made crash-trigger runs
	// depend on machine load: determinism self-test under load).
	gates []chan struct{}
	// lateGates: see newSimPool
	lateGates []chan struct{}
}

func newSimLedger(s *Sim, n *Node) *simLedger {
	l := &simLedger{sim: s, node: n, entries: map[basics.Round]bookkeeping.Block{}, certs: map[basics.Round]agreement.Certificate{},
		nextRound: 1, waiters: map[basics.Round]chan struct{}{}, slow: map[basics.Round]chan struct{}{}}
	l.entries[0] = s.genesis
	return l
}

// ledgerView binds a ledger to one incarnation so that seam calls are attributed.
type ledgerView struct {
	*simLedger
	in *inst
}

func (l ledgerView) NextRound() basics.Round {
	l.in.enter(seamRead)
	l.mu.Lock()
	defer l.mu.Unlock()
	return l.nextRound
}

func (l ledgerView) Wait(r basics.Round) chan struct{} {
	k := seamWaitDemux
	if calledFromPersistence() {
		k = seamWaitPersist
	}
	if !l.in.enter(k) {
		return l.sim.never // must be a channel created inside the bubble, or the select is not durably blocked
	}
	l.mu.Lock()
	defer l.mu.Unlock()
	if l.nextRound > r {
		if (r <= l.flushed && !(r == 0 && l.genesisSlow)) || l.in.shadow {
			c := make(chan struct{})
			if k == seamWaitPersist && !l.in.shadow {
				l.gates = append(l.gates, c)
				return c
			}
			close(c)
			return c
		}
		// written but not yet "durable": the scheduler's flush action closes it
		c, ok := l.slow[r]
		if !ok {
			c = make(chan struct{})
			l.slow[r] = c
		}
		return c
	}
	c, ok := l.waiters[r]
	if !ok {
		c = make(chan struct{})
		l.waiters[r] = c
	}
	return c
}

// flush makes every written round durable (scheduler action, root goroutine).
func (l *simLedger) flush() int {
	l.mu.Lock()
	defer l.mu.Unlock()
	n := 0
	l.genesisSlow = false
	l.flushed = l.nextRound - 1
	var rs []basics.Round
	for r := range l.slow {
		if r <= l.flushed {
			rs = append(rs, r)
		}
	}
	sort.Slice(rs, func(i, j int) bool { return rs[i] < rs[j] })
	for _, r := range rs {
		l.gates = append(l.gates, l.slow[r]) // opened by Sim.quiesce, one at a time
		delete(l.slow, r)
		n++
	}
	return n
}

// openGate lets the oldest waiting persist proceed; false if none waits.
func (l *simLedger) openGate() bool {
	l.mu.Lock()
	defer l.mu.Unlock()
	if len(l.gates) == 0 {
		return false
	}
	close(l.gates[0])
	l.gates = l.gates[1:]
	return true
}

func (l *simLedger) dropGates() {
	l.mu.Lock()
	l.gates = nil
	l.lateGates = nil
	l.mu.Unlock()
}

func (l *simLedger) openLateGate() bool {
	l.mu.Lock()
	defer l.mu.Unlock()
	if len(l.lateGates) == 0 {
		return false
	}
	close(l.lateGates[0])
	l.lateGates = l.lateGates[1:]
	return true
}

func (l *simLedger) pendingFlush() bool {
	l.mu.Lock()
	defer l.mu.Unlock()
	return len(l.slow) > 0
}

func (l ledgerView) Seed(r basics.Round) (committee.Seed, error) {
	l.in.enter(seamRead)
	l.mu.Lock()
	defer l.mu.Unlock()
	if r >= l.nextRound {
		return committee.Seed{}, fmt.Errorf("simLedger.Seed: round %d not yet written (next %d)", r, l.nextRound)
	}
	return l.entries[r].Seed(), nil
}

func (l ledgerView) LookupDigest(r basics.Round) (crypto.Digest, error) {
	l.in.enter(seamRead)
	l.mu.Lock()
	defer l.mu.Unlock()
	if r >= l.nextRound {
		return crypto.Digest{}, fmt.Errorf("simLedger.LookupDigest: round %d not yet written (next %d)", r, l.nextRound)
	}
	return l.entries[r].Digest(), nil
}

func (l ledgerView) LookupAgreement(r basics.Round, a basics.Address) (basics.OnlineAccountData, error) {
	l.in.enter(seamRead)
	l.mu.Lock()
	defer l.mu.Unlock()
	if r >= l.nextRound {
		return basics.OnlineAccountData{}, fmt.Errorf("simLedger.LookupAgreement: round %d not yet written (next %d)", r, l.nextRound)
	}
	d, _ := l.sim.RefAccount(a)
	return d, nil
}

func (l ledgerView) Circulation(r basics.Round, voteRnd basics.Round) (basics.MicroAlgos, error) {
	l.in.enter(seamRead)
	l.mu.Lock()
	defer l.mu.Unlock()
	if r >= l.nextRound {
		return basics.MicroAlgos{}, fmt.Errorf("simLedger.Circulation: round %d not yet written (next %d)", r, l.nextRound)
	}
	return l.sim.RefTotal(), nil
}

func (l ledgerView) ConsensusParams(r basics.Round) (config.ConsensusParams, error) {
	return config.Consensus[Proto], nil
}

func (l ledgerView) ConsensusVersion(r basics.Round) (protocol.ConsensusVersion, error) {
	return Proto, nil
}

func (l ledgerView) EnsureValidatedBlock(e agreement.ValidatedBlock, c agreement.Certificate) {
	b := e.Block()
	l.ensure("validated", b, c)
}

func (l ledgerView) EnsureBlock(b bookkeeping.Block, c agreement.Certificate) {
	l.ensure("block", b, c)
}

func (l ledgerView) ensure(kind string, b bookkeeping.Block, c agreement.Certificate) {
	if !l.in.enter(seamEnsure) {
		return
	}
	l.in.mu.Lock()
	bc := b
	l.in.ensures = append(l.in.ensures, ensureRec{kind: kind, round: b.Round(), dig: b.Digest(), cert: c, block: &bc})
	l.in.mu.Unlock()
	if l.in.shadow {
		return
	}
	l.write(b, c)
}

// write appends block b if it is the next one (also used by the simulated catch-up).
func (l *simLedger) write(b bookkeeping.Block, c agreement.Certificate) bool {
	l.mu.Lock()
	defer l.mu.Unlock()
	r := b.Round()
	if r != l.nextRound {
		return false
	}
	l.entries[r] = b
	l.certs[r] = c
	l.nextRound = r + 1
	if !l.node.slowFlush {
		l.flushed = r
	}
	if ch, ok := l.waiters[r]; ok {
		close(ch)
		delete(l.waiters, r)
	}
	return true
}

func (l ledgerView) EnsureDigest(c agreement.Certificate, _ *agreement.AsyncVoteVerifier) {
	if !l.in.enter(seamEnsure) {
		return
	}
	l.in.mu.Lock()
	l.in.ensures = append(l.in.ensures, ensureRec{kind: "digest", round: c.Round, dig: c.Proposal.BlockDigest, cert: c})
	l.in.mu.Unlock()
}

func (l *simLedger) next() basics.Round {
	l.mu.Lock()
	defer l.mu.Unlock()
	return l.nextRound
}

// ---------------------------------------------------------------------------------------------
// Block factory / validator (deterministic stub): the block of (node, round) is a pure function.
// ---------------------------------------------------------------------------------------------

type simBlock struct{ b bookkeeping.Block }

func (v simBlock) Block() bookkeeping.Block { return v.b }
func (v simBlock) Round() basics.Round      { return v.b.Round() }
func (v simBlock) FinishBlock(s committee.Seed, proposer basics.Address, eligible bool) agreement.Block {
	v.b.BlockHeader.Seed = s
	v.b.BlockHeader.Proposer = proposer
	return agreement.Block(v.b)
}

type simFactory struct {
	in  *inst
	tag int64
}

func (f simFactory) AssembleBlock(r basics.Round, _ []basics.Address) (agreement.UnfinishedBlock, error) {
	f.in.enter(seamAssemble)
	lv := ledgerView{f.in.node.led, f.in}
	if !f.in.shadow {
		// Block assembly runs in the pseudonode's goroutine, concurrently with whatever the same event handed to
		// the crypto verifier (entering a round with a pipelined payload does both). Which of the two results
		// reaches the main loop first is a real race and changes what is relayed in which form (seen as a twin
		// "divergence" in C07 thorough runs). The assembly therefore waits for a gate that the scheduler opens
		// at a quiescent instant, like a persist.
		c := make(chan struct{})
		lv.simLedger.mu.Lock()
		lv.simLedger.gates = append(lv.simLedger.gates, c)
		lv.simLedger.mu.Unlock()
		select {
		case <-c:
		case <-f.in.release:
			return nil, agreement.ErrAssembleBlockRoundStale
		}
	}
	if r != lv.simLedger.next() {
		return nil, agreement.ErrAssembleBlockRoundStale
	}
	prev, _ := lv.LookupDigest(r - 1)
	// every assembly yields a different block, as on a real node (new timestamp, other pool contents): a
	// re-proposal after a bottom quorum must not coincide with the value of the period before
	n := f.in.node
	n.tmu.Lock()
	if n.asmRound != r {
		n.asmRound, n.asmCount = r, 0
	}
	ts := f.tag + 1000003*n.asmCount
	n.asmCount++
	if f.in.sim.cfg.Prop == "C07" {
		// the twin comparison needs the environment (block pool) to answer the restored and the uncrashed node
		// alike whatever each of them asked before: here assembly is a pure function of (node, round)
		ts = f.tag
	}
	n.tmu.Unlock()
	return simBlock{b: bookkeeping.Block{BlockHeader: bookkeeping.BlockHeader{Round: r, Branch: bookkeeping.BlockHash(prev), TimeStamp: ts,
		UpgradeState: bookkeeping.UpgradeState{CurrentProtocol: Proto}}}}, nil
}

type simValidator struct{}

func (simValidator) Validate(ctx context.Context, b bookkeeping.Block) (agreement.ValidatedBlock, error) {
	return simBlock{b: b}, nil
}

// ---------------------------------------------------------------------------------------------
// Network
// ---------------------------------------------------------------------------------------------

type peerHandle struct{ from int }

type simNet struct {
	in    *inst
	chans map[protocol.Tag]chan agreement.Message
}

func newSimNet(in *inst) *simNet {
	n := &simNet{in: in, chans: map[protocol.Tag]chan agreement.Message{}}
	for _, t := range []protocol.Tag{protocol.AgreementVoteTag, protocol.ProposalPayloadTag, protocol.VoteBundleTag} {
		n.chans[t] = make(chan agreement.Message, 4096)
	}
	return n
}

func (n *simNet) Start() {}

func (n *simNet) Messages(t protocol.Tag) <-chan agreement.Message { return n.chans[t] }

func (n *simNet) push(m outMsg) {
	m.hseq = -1
	if n.in.histOK && m.tag == protocol.AgreementVoteTag {
		// C02 "persisted before sent": sample, in the emitting goroutine and before the message is handed to
		// the network, how many states the crash DB holds (see persistCheck)
		if v, err := DecodeVote(m.data); err == nil && v.R.Step >= stepSoft && n.in.sim.owns(n.in.node, v.R.Sender) {
			m.hseq = histSeq(n.in.hist)
		}
	}
	n.in.mu.Lock()
	n.in.outbox = append(n.in.outbox, m)
	n.in.mu.Unlock()
}

func (n *simNet) Broadcast(t protocol.Tag, data []byte) error {
	if !n.in.enterSend(t == protocol.AgreementVoteTag) {
		return nil
	}
	n.push(outMsg{tag: t, data: append([]byte(nil), data...), except: -1, bcast: true})
	return nil
}

func (n *simNet) Relay(h agreement.MessageHandle, t protocol.Tag, data []byte) error {
	if !n.in.enterSend(false) {
		return nil
	}
	ex := -1
	if ph, ok := h.(*peerHandle); ok && ph != nil {
		ex = ph.from
	}
	n.push(outMsg{tag: t, data: append([]byte(nil), data...), except: ex})
	return nil
}

func (n *simNet) Disconnect(h agreement.MessageHandle) {
	if !n.in.enterSend(false) {
		return
	}
	n.in.mu.Lock()
	n.in.disconns++
	n.in.mu.Unlock()
}

// deliver is called from the root goroutine only.
func (n *simNet) deliver(t protocol.Tag, from int, data []byte) bool {
	select {
	case n.chans[t] <- agreement.Message{MessageHandle: &peerHandle{from: from}, Data: data}:
		return true
	default:
		return false
	}
}

// ---------------------------------------------------------------------------------------------
// Clock: per node absolute simulated time; a clock object is a zero point on that time line.
// Timers never fire by themselves: the scheduler fires them (DESIGN.md §2.3).
// ---------------------------------------------------------------------------------------------

type pendingTimer struct {
	at   time.Duration // absolute node time
	typ  agreement.TimeoutType
	ch   chan time.Time
	seq  int
	zero time.Duration
}

type simClock struct {
	in     *inst
	zeroAt time.Duration
}

func (c *simClock) Zero() timers.Clock[agreement.TimeoutType] {
	c.in.enter(seamTimer)
	n := c.in.node
	n.tmu.Lock()
	defer n.tmu.Unlock()
	nc := &simClock{in: c.in, zeroAt: n.now}
	if c.in != n.cur || c.in.shadow {
		return nc
	}
	// timers of the previous zero are obsolete
	c.in.node.pending = map[agreement.TimeoutType]*pendingTimer{}
	c.in.node.curZero = nc.zeroAt
	return nc
}

func (c *simClock) Since() time.Duration {
	n := c.in.node
	n.tmu.Lock()
	defer n.tmu.Unlock()
	return n.now - c.zeroAt
}

func (c *simClock) TimeoutAt(d time.Duration, typ agreement.TimeoutType) <-chan time.Time {
	if !c.in.enter(seamTimer) {
		return nil
	}
	n := c.in.node
	n.tmu.Lock()
	defer n.tmu.Unlock()
	if c.in != n.cur || c.in.shadow {
		return nil
	}
	ch := make(chan time.Time)
	n.tseq++
	n.pending[typ] = &pendingTimer{at: c.zeroAt + d, typ: typ, ch: ch, seq: n.tseq, zero: c.zeroAt}
	return ch
}

func (c *simClock) Encode() []byte {
	var b [8]byte
	binary.LittleEndian.PutUint64(b[:], uint64(c.zeroAt))
	return b[:]
}

func (c *simClock) Decode(b []byte) (timers.Clock[agreement.TimeoutType], error) {
	if len(b) != 8 {
		return nil, fmt.Errorf("simClock.Decode: bad length %d", len(b))
	}
	z := time.Duration(binary.LittleEndian.Uint64(b))
	n := c.in.node
	if !c.in.shadow {
		n.tmu.Lock()
		n.curZero = z
		n.tmu.Unlock()
	}
	return &simClock{in: c.in, zeroAt: z}, nil
}

// ---------------------------------------------------------------------------------------------
// Worker pool: one worker goroutine, FIFO (deterministic completion order).
// ---------------------------------------------------------------------------------------------

type poolTask struct {
	f   execpool.ExecFunc
	arg any
	out chan any
}

type simPool struct {
	ch   chan poolTask
	quit chan struct{}
	once sync.Once
}

// newSimPool: the single FIFO worker behind the service's vote/bundle/payload verification. With lateFor set
// ("persist first" runs of C02) the worker starts a task only after the scheduler has opened a LATE gate, and late
// gates are opened only when no persist is waiting: a node's persists then complete BEFORE the votes they
// protect have even been verified - the other legal order of the two concurrent activities (by default the
// votes are ready first and wait for the persist).
func newSimPool(lateFor *simLedger) *simPool {
	p := &simPool{ch: make(chan poolTask, 64), quit: make(chan struct{})}
	go func() {
		for {
			select {
			case t := <-p.ch:
				if lateFor != nil {
					c := make(chan struct{})
					lateFor.mu.Lock()
					lateFor.lateGates = append(lateFor.lateGates, c)
					lateFor.mu.Unlock()
					select {
					case <-c:
					case <-p.quit:
						return
					}
				}
				r := t.f(t.arg)
				if t.out != nil {
					select {
					case t.out <- r:
					case <-p.quit:
						return
					}
				}
			case <-p.quit:
				return
			}
		}
	}()
	return p
}

func (p *simPool) Enqueue(ctx context.Context, t execpool.ExecFunc, arg any, _ execpool.Priority, out chan any) error {
	return p.EnqueueBacklog(ctx, t, arg, out)
}
func (p *simPool) EnqueueBacklog(ctx context.Context, t execpool.ExecFunc, arg any, out chan any) error {
	select {
	case p.ch <- poolTask{t, arg, out}:
		return nil
	case <-ctx.Done():
		return ctx.Err()
	case <-p.quit:
		return context.Canceled
	}
}
func (p *simPool) BufferSize() (int, int) { return len(p.ch), cap(p.ch) }
func (p *simPool) GetOwner() any          { return p }
func (p *simPool) GetParallelism() int    { return 4 }
func (p *simPool) Shutdown()              { p.once.Do(func() { close(p.quit) }) }

type simRand struct{ x uint64 }

func (r *simRand) Uint64() uint64 {
	r.x += 0x9e3779b97f4a7c15
	z := r.x
	z = (z ^ (z >> 30)) * 0xbf58476d1ce4e5b9
	z = (z ^ (z >> 27)) * 0x94d049bb133111eb
	return z ^ (z >> 31)
}
