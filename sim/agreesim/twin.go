package agreesim

import (
	"crypto/sha256"
	"fmt"
	"os"
	"path/filepath"
	"sort"
	"strings"

	"verif/sim/kernel"

	"github.com/algorand/go-algorand/agreement"
	"github.com/algorand/go-algorand/data/basics"
	"github.com/algorand/go-algorand/data/bookkeeping"
	"github.com/algorand/go-algorand/protocol"
)

// C07 twin run (DESIGN.md §4 C07): at a persistence instant of node O a twin T is built from a copy
// of O's crash DB and a copy of O's ledger. T is not connected to the network; every stimulus given
// to O afterwards (message, timer, ledger flush / catch-up write) is given to T as well, and after
// every reaction the externally visible effects of T must equal those of O.

type twin struct {
	of         *Node
	node       *Node
	born       int
	stimuli    int
	first      bool // the first reaction re-executes the restored attest: not compared
	stimulated bool
	minHorizon int
}

func (l *simLedger) clone(s *Sim, n *Node) *simLedger {
	l.mu.Lock()
	defer l.mu.Unlock()
	c := newSimLedger(s, n)
	for r, b := range l.entries {
		c.entries[r] = b
	}
	for r, x := range l.certs {
		c.certs[r] = x
	}
	c.nextRound = l.nextRound
	c.flushed = l.flushed
	return c
}

func (s *Sim) maybeForkTwin(n *Node) {
	if s.cfg.Prop != "C07" || s.twin != nil || n.adv || !n.alive {
		return
	}
	s.persistSeen++
	// a node that is a round behind its peers holds pipelined next-round state (votes, payloads) in
	// the state it persists: the most interesting instants to restore from. Fork there at once.
	lagging := false
	for _, o := range s.nodes {
		if !o.adv && o.led.next() > n.led.next() {
			lagging = true
		}
	}
	if lagging {
		s.stat("twin_forked_on_lagging_node", 1)
		if n.holdUntil > s.step {
			n.holdUntil = s.step // let the node catch up now, while the restored twin is being compared
		}
	} else if s.persistSeen < s.nextTwinAt {
		return
	}
	t := &Node{id: n.id, accts: n.accts, alive: true, factoryID: n.factoryID, slowFlush: n.slowFlush, incs: 1000 + s.twinSeq,
		pending: map[agreement.TimeoutType]*pendingTimer{}}
	n.tmu.Lock()
	t.now = n.now
	t.asmRound, t.asmCount = n.asmRound, n.asmCount
	n.tmu.Unlock()
	t.led = n.led.clone(s, t)
	s.twinSeq++
	t.dbPath = filepath.Join(s.dir, fmt.Sprintf("twin%d.db", s.twinSeq))
	if err := copyDB(n.dbPath, t.dbPath); err != nil {
		s.harness = "twin copyDB: " + err.Error()
		return
	}
	in, err := s.startInst(t, t.dbPath, false)
	if err != nil {
		s.harness = "twin start: " + err.Error()
		return
	}
	in.twin = true
	s.twin = &twin{of: n, node: t, born: s.step, first: true}
	if lagging {
		s.twin.minHorizon = 300 // long enough to see the node enter the next round
	}
	s.log.Add("  fork twin of n%d at persistence instant %d", n.id, s.persistSeen)
	s.stat("twin_forked", 1)
	s.quiesce()
	s.compareTwin()
}

func (s *Sim) dropTwin(why string) {
	if s.twin == nil {
		return
	}
	s.log.Add("  twin of n%d retired (%s) after %d stimuli", s.twin.of.id, why, s.twin.stimuli)
	s.stat("twin_stimuli", int64(s.twin.stimuli))
	s.retire(s.twin.node.cur)
	s.twin = nil
	s.nextTwinAt = s.persistSeen + s.cfg.TwinGap
}

type effect struct {
	kind string
	key  string
}

func effectsOf(out []outMsg, ens []ensureRec, disc int) []string {
	var l []string
	for _, m := range out {
		h := sha256.Sum256(m.data)
		k, _ := msgKey(m.tag, m.data)
		l = append(l, fmt.Sprintf("emit %s %x bcast=%v", k, h[:6], m.bcast))
	}
	for _, e := range ens {
		kind := e.kind
		if kind == "validated" {
			kind = "block" // the validated-block cache is not persisted, by design
		}
		ch := sha256.Sum256(protocol.Encode(&e.cert))
		l = append(l, fmt.Sprintf("ensure(%s) r%d %x cert=%x", kind, e.round, e.dig[:6], ch[:6]))
	}
	if disc > 0 {
		l = append(l, fmt.Sprintf("disconnect x%d", disc))
	}
	sort.Strings(l)
	return l
}

// compareTwin is called after a reaction (quiescent). origEffects were recorded by collect().
func (s *Sim) compareTwin() {
	tw := s.twin
	if tw == nil {
		return
	}
	in := tw.node.cur
	in.mu.Lock()
	out, ens, disc := in.outbox, in.ensures, in.disconns
	in.outbox, in.ensures, in.disconns = nil, nil, 0
	in.mu.Unlock()
	te := effectsOf(out, ens, disc)
	if os.Getenv("VERIF_DEBUG_TWIN") != "" {
		s.log.Add("  twin effects (first=%v stimulated=%v): %v", tw.first, tw.stimulated, te)
	}
	oe := s.origEffects[tw.of.id]
	delete(s.origEffects, tw.of.id)
	if tw.first {
		tw.first = false
		return
	}
	if !tw.stimulated {
		return
	}
	tw.stimulated = false
	tw.stimuli++
	if fmt.Sprint(te) != fmt.Sprint(oe) {
		key := classifyTwinDiff(oe, te)
		if kernel.KnownKey("C07", key) {
			s.known = append(s.known, kernel.Violation{Property: "C07", Oracle: "twin-diverged", Key: key, Step: s.step,
				Detail: fmt.Sprintf("restored node relays/does not relay a late proposal-vote unlike the uncrashed node n%d: uncrashed %v restored %v", tw.of.id, oe, te)})
			s.stat("known.late-credential-relay", 1)
			s.dropTwin("known divergence: late credential tracking state is not persisted")
			return
		}
		s.violate("C07", "twin-diverged", key, fmt.Sprintf("after %d stimuli since restoring from the crash DB image, the restored node reacts differently from the uncrashed node n%d:\n  uncrashed: %v\n  restored:  %v", tw.stimuli, tw.of.id, oe, te))
		return
	}
	s.stat("twin_reaction_equal", 1)
	if tw.stimuli >= max(s.cfg.TwinHorizon, tw.minHorizon) {
		s.dropTwin("horizon")
	}
}

// twin stimuli mirrors
func (s *Sim) twinDeliver(f *flight) {
	if tw := s.twin; tw != nil && tw.of.id == f.to {
		tw.node.cur.net.deliver(f.tag, f.from, f.data)
		tw.stimulated = true
	}
}

func (s *Sim) twinTimer(n *Node, typ agreement.TimeoutType) {
	tw := s.twin
	if tw == nil || tw.of != n {
		return
	}
	t := tw.node
	t.tmu.Lock()
	p := t.pending[typ]
	if p == nil {
		t.tmu.Unlock()
		s.violate("C07", "twin-timer-missing", "", fmt.Sprintf("uncrashed n%d waits on a timer of type %d, the restored node does not", n.id, typ))
		return
	}
	if p.at > t.now {
		t.now = p.at
	}
	delete(t.pending, typ)
	ch := p.ch
	t.tmu.Unlock()
	close(ch)
	tw.stimulated = true
}

func (s *Sim) twinFlush(n *Node) {
	if tw := s.twin; tw != nil && tw.of == n {
		tw.node.led.flush()
		tw.stimulated = true
	}
}

func (s *Sim) twinWrite(n *Node, b bookkeeping.Block, c agreement.Certificate) {
	if tw := s.twin; tw != nil && tw.of == n {
		tw.node.led.write(b, c)
		tw.stimulated = true
	}
}

var _ = basics.Round(0)

// classifyTwinDiff names the class of a difference between the uncrashed node's and the restored
// node's effects. "late-credential-relay": the two differ ONLY in relays of propose-step votes
// (step 0, not broadcast): the late-credential tracking state of a frozen proposal seeker
// (lowestIncludingLate) is not part of the persisted encoding.
func classifyTwinDiff(oe, te []string) string {
	in := func(l []string, x string) bool {
		for _, y := range l {
			if y == x {
				return true
			}
		}
		return false
	}
	var diff []string
	for _, x := range oe {
		if !in(te, x) {
			diff = append(diff, x)
		}
	}
	for _, x := range te {
		if !in(oe, x) {
			diff = append(diff, x)
		}
	}
	if len(diff) == 0 {
		return "multiplicity"
	}
	for _, d := range diff {
		if !(strings.HasPrefix(d, "emit AV ") && strings.Contains(d, " s0 ") && strings.HasSuffix(d, "bcast=false")) {
			return ""
		}
	}
	return "late-credential-relay"
}
