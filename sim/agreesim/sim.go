package agreesim

import (
	"bytes"
	"context"
	"crypto/sha256"
	"database/sql"
	"fmt"
	"io"
	"os"
	"path/filepath"
	"sort"
	"sync"
	"testing"
	"testing/synctest"
	"time"

	"github.com/algorand/go-deadlock"

	"github.com/algorand/go-algorand/agreement"
	"github.com/algorand/go-algorand/config"
	"github.com/algorand/go-algorand/crypto"
	"github.com/algorand/go-algorand/data/basics"
	"github.com/algorand/go-algorand/data/bookkeeping"
	"github.com/algorand/go-algorand/data/committee"
	"github.com/algorand/go-algorand/logging"
	"github.com/algorand/go-algorand/protocol"
	"github.com/algorand/go-algorand/util/db"

	"verif/sim/kernel"
)

func init() {
	deadlock.Opts.Disable = true
}

// Config is drawn from the tape at the start of every run (swarm style).
type Config struct {
	Prop  string
	Tier  string
	Nodes int     // honest nodes
	Accts [][]int // account indices per node (adversary instances share one list)
	Stake []uint64
	// adversary
	AdvInst  int   // number of split-brain adversary instances (0 or 2..3)
	AdvAccts []int // accounts held by the adversary
	Rounds   int
	MaxSteps int
	// fault weights (relative to deliver = 100) and knobs
	WTimer, WDrop, WDup, WCrash, WPart, WStarve, WTrig, WSync int
	WHold                                                     int // C07: delay the cert traffic of a node's current round (it lags while next-round messages pile up)
	ReorderPct, ReorderWin                                    int
	RelayKeepPct                                              int
	MaxCrashes                                                int
	SlowFlush                                                 bool
	DBErr                                                     bool // C02: writes to the crash DB fail for a while (injected disk error; old data stays)
	PersistFirst                                              bool // C02: persists complete before the votes they protect are verified (newSimPool)
	Craft                                                     bool // adversary hand-crafted votes
	Sync                                                      bool // C05: run a synchronous phase after the async prefix
	AsyncSteps                                                int
	TwinGap, TwinHorizon                                      int
	SlowPP                                                    int  // proposal payloads (large messages) become deliverable only this many scheduler steps after they were sent (0 = off)
	CleanHunt                                                 bool // C01: orderly profile for the hunt (no adversary, no loss/crash/partition)
	Hunt                                                      bool // C01: fork-hunting delivery policy after a danger state (see hunt.go)
	Ghost                                                     bool // C06 tally mode: two real nodes, all other stake held by simulator-crafted voters
}

// Node is one network participant; its ledger and wall clock survive crashes.
type Node struct {
	id        int
	adv       bool
	accts     []*Account
	led       *simLedger
	cur       *inst
	alive     bool
	incs      int
	dbPath    string
	slowFlush bool
	group     int
	starve    int
	crashes   int
	factoryID int64
	asmRound  basics.Round // block factory: assemblies of the current round so far (survives crashes, like a clock)
	asmCount  int64
	dbBroken  bool // C02: an injected trigger makes every write to the crash DB fail
	stalled   bool // main loop blocked behind a slow ledger flush: no deliveries, no timers until the flush action
	stimmed   bool // this step handed the node's main loop an event; stimSnap = its demux.next count before that
	stimSnap  int
	stimInst  *inst
	holdRound basics.Round // "hold" fault: cert-step votes and bundles of this round addressed to the node are delayed ...
	holdUntil int          // ... until this scheduler step (the node lags one round behind while receiving next-round traffic)
	persisted []persistRow // C02: every state ever persisted to this node's crash DB, as pending attests
	histSeen  int64

	tmu     sync.Mutex
	now     time.Duration
	curZero time.Duration
	pending map[agreement.TimeoutType]*pendingTimer
	tseq    int
	rate    int64 // clock rate in ppm deviation (sync phase)
}

type flight struct {
	id    int
	from  int
	to    int
	tag   protocol.Tag
	data  []byte
	key   string
	at    time.Duration // sync phase: delivery time (global)
	craft bool
	// decoded header (votes and bundles), used by the fork-hunting scheduler policy
	notBefore int // scheduler step before which this flight cannot be delivered (slow large messages)
	hasHdr    bool
	vr        basics.Round
	vp, vs    uint64
	vval      PValue
	ppRound   basics.Round // proposal payloads: the block's round
}

// Sim is one run.
type Sim struct {
	t    *testing.T
	tape *kernel.Tape
	log  *kernel.Log
	cfg  Config
	dir  string

	nodes    []*Node
	insts    []*inst // every incarnation ever created (for cleanup)
	inflight []*flight
	nextID   int
	step     int
	genesis  bookkeeping.Block
	stake    map[basics.Address]basics.OnlineAccountData
	total    basics.MicroAlgos
	honest   map[basics.Address]int // account -> owner node id (honest owners only)

	// canonical history (oracles)
	commits      map[basics.Round]map[crypto.Digest]string // round -> digest -> who
	canon        map[basics.Round]bookkeeping.Block
	canonCert    map[basics.Round]agreement.Certificate
	blocks       map[crypto.Digest]bookkeeping.Block
	origin       map[string]map[PValue]string // C02: acct|r|p|s -> values originated
	emitted      map[string]bool              // sha of every vote body an honest key holder put on the wire
	states       map[string]bool
	stats        map[string]int64
	viol         *kernel.Violation
	harness      string
	crashes      int
	simTime      time.Duration
	global       time.Duration // sync-phase global time
	syncMode     bool
	gstStep      int
	oracles      []oracle
	never        chan struct{} // created inside the bubble
	sync         *syncState
	maxPeriod    map[basics.Round]uint64 // highest period seen in honest-originated votes per round
	batchOwn     map[int][]UVote         // own attest votes emitted in the reaction being collected
	batchSeq     map[int][]int64         // C02: per entry of batchOwn, the crash DB's persist count when the vote left
	curHseq      int64
	shadowSeq    int
	hunt         *hunt
	weightCache  map[string]uint64
	huntSeen     map[string]*huntObs
	lastNext     map[int]lastNextRec
	nodePer      map[int]lastNextRec
	ghostSent    map[string][]PValue // ghost account|r|p|step -> values already voted
	ghostEqStake uint64
	ghostEq      map[int]bool
	avv          *agreement.AsyncVoteVerifier
	avvPool      *simPool
	known        []kernel.Violation
	twin         *twin
	twinSeq      int
	persistSeen  int
	nextTwinAt   int
	origEffects  map[int][]string
	tallyOn      bool
	tallies      map[int]map[string]*stepTally
	refW         map[string]uint64
	refBundleOK  map[string]bool
	seenVotes    []UVote   // reference-valid honest votes observed on the wire (material for the adversary)
	seenBundles  []UBundle // bundles observed on the wire
	seenRaw      []outMsg  // raw messages (replay / corruption material)
	values       map[basics.Round][]PValue
	shadowTick   int
}

type oracle interface {
	// observe hooks; any may set s.viol
	onEmit(s *Sim, n *Node, in *inst, m outMsg, dec any)
	onEnsure(s *Sim, n *Node, in *inst, e ensureRec)
	onStepEnd(s *Sim)
}

func (s *Sim) RefAccount(a basics.Address) (basics.OnlineAccountData, bool) {
	d, ok := s.stake[a]
	return d, ok
}
func (s *Sim) RefTotal() basics.MicroAlgos { return s.total }
func (s *Sim) RefSeed(r basics.Round) (committee.Seed, bool) {
	if r == 0 {
		return s.genesis.Seed(), true
	}
	b, ok := s.canon[r]
	if !ok {
		return committee.Seed{}, false
	}
	return b.Seed(), true
}

func (s *Sim) violate(prop, oracle, key, detail string) {
	if s.viol == nil {
		s.viol = &kernel.Violation{Property: prop, Oracle: oracle, Key: key, Detail: detail, Step: s.step}
		s.log.Add("VIOLATION %s %s %s", prop, oracle, detail)
	}
}

func (s *Sim) stat(k string, d int64) { s.stats[k] += d }

func (s *Sim) stalledNodes() []*Node {
	var l []*Node
	for _, n := range s.nodes {
		in := n.cur
		if in == nil || !n.alive || !n.led.pendingFlush() {
			continue
		}
		in.mu.Lock()
		// the main loop was handed an event (timer / message) in this step and has not come back to demux.next
		st := !in.dead && !in.crashReq && !in.zombie && n.stimmed && n.stimInst == in && in.seamCnt[seamWaitDemux] == n.stimSnap
		in.mu.Unlock()
		if st {
			l = append(l, n)
		}
	}
	return l
}

// quiesce lets the bubble settle, then opens the persistence gates (simLedger.gates) one at a time, each
// followed by another settle, until no persist is waiting.
func (s *Sim) quiesce() {
	synctest.Wait()
	for i := 0; i < 100000; i++ {
		opened := false
		for _, n := range s.nodes {
			if n.led.openGate() {
				opened = true
				break
			}
		}
		if !opened && s.twin != nil && s.twin.node.led.openGate() {
			opened = true
		}
		if !opened {
			for _, n := range s.nodes {
				if n.led.openLateGate() {
					opened = true
					break
				}
			}
		}
		if !opened {
			// A main loop that is not back in its select although the bubble is quiescent is blocked on the
			// persistence queue (two persists already wait behind a slow ledger flush). Messages delivered now
			// would pile up unread and be consumed in a race once the flush comes.
			for _, n := range s.stalledNodes() {
				if !n.stalled {
					// the node is frozen behind its slow disk: nothing is delivered to it and none of its timers fire
					// until the scheduler's flush action releases it (a long disk stall; the messages wait in flight)
					n.stalled = true
					s.log.Add("  n%d stalls: main loop blocked on the persistence queue until its ledger flush", n.id)
					s.stat("stalled_behind_slow_flush", 1)
				}
			}
		}
		if !opened {
			return
		}
		synctest.Wait()
	}
	s.harness = "quiesce: persistence gates never drained"
}

var runCounter int

// drawConfig draws the per-run configuration.
func drawConfig(tp *kernel.Tape, prop, tier string) Config {
	c := Config{Prop: prop, Tier: tier}
	thorough := tier == "thorough"
	maxNodes := 5
	if thorough {
		maxNodes = 6
	}
	c.Nodes = tp.Range("cfg.nodes", 3, maxNodes)
	if prop == "C01" && tp.Chance("cfg.manynodes", 1, 2) {
		c.Nodes = tp.Range("cfg.nodes5", 5, 6) // two disjoint quorum-capable sides need many small nodes
	}
	c.Rounds = tp.Range("cfg.rounds", 2, 3)
	if thorough {
		c.Rounds = tp.Range("cfg.rounds2", 2, 5)
	}
	c.MaxSteps = 6000
	if thorough {
		c.MaxSteps = 24000
	}
	// accounts: 1..2 per node (3 in thorough)
	maxK := 2
	if thorough {
		maxK = 3
	}
	idx := 0
	for i := 0; i < c.Nodes; i++ {
		k := tp.Range("cfg.keys", 1, maxK)
		var l []int
		for j := 0; j < k && idx < maxAccounts-2; j++ {
			l = append(l, idx)
			idx++
		}
		c.Accts = append(c.Accts, l)
	}
	// C01 "clean hunt" profile: no adversary and no faults other than reordering and slow payloads, so that
	// the fork-hunting delivery policy (hunt.go) works on an orderly state instead of a chaotic one
	c.CleanHunt = prop == "C01" && tp.Chance("cfg.cleanhunt", 1, 3)
	wantAdv := (prop == "C01" || prop == "C03" || prop == "C06" || prop == "C04") && !c.CleanHunt
	if wantAdv && tp.Chance("cfg.adv", 2, 3) && idx < maxAccounts {
		c.AdvInst = tp.Range("cfg.advinst", 2, 3)
		na := tp.Range("cfg.advaccts", 1, 2)
		for j := 0; j < na && idx < maxAccounts; j++ {
			c.AdvAccts = append(c.AdvAccts, idx)
			idx++
		}
		c.Craft = tp.Chance("cfg.craft", 1, 2)
	}
	if (prop == "C06" && tp.Chance("cfg.ghost", 1, 2)) || ((prop == "C03" || prop == "C04") && tp.Chance("cfg.ghost3", 1, 3)) {
		// Tally mode: the property is about what ONE node does with the votes it is given, not about
		// safety among honest nodes, so here most of the stake is held by simulator-crafted voters
		// ("ghosts") that vote, duplicate and equivocate in arbitrary patterns and orders.
		c.Ghost = true
		c.Nodes = 2
		c.Accts = [][]int{{0}, {1}}
		c.AdvInst = 0
		c.AdvAccts = nil
		ng := tp.Range("cfg.ghosts", 5, 9)
		for j := 0; j < ng; j++ {
			c.AdvAccts = append(c.AdvAccts, 2+j)
		}
		idx = 2 + ng
		c.Craft = true
		c.Rounds = tp.Range("cfg.grounds", 1, 2)
		c.MaxSteps = 3000
	}
	// stakes: honest accounts 50..150 units; adversary total <= 20% of all stake
	c.Stake = make([]uint64, idx)
	var honestTotal uint64
	for _, l := range c.Accts {
		for _, a := range l {
			c.Stake[a] = uint64(tp.Range("cfg.stake", 50, 150)) * 1_000_000_000
			honestTotal += c.Stake[a]
		}
	}
	if c.Ghost {
		for _, a := range c.AdvAccts {
			c.Stake[a] = uint64(tp.Range("cfg.gstake", 40, 400)) * 1_000_000_000
		}
	} else if len(c.AdvAccts) > 0 {
		pct := uint64(tp.Range("cfg.advpct", 5, 20)) // adversary share of TOTAL stake, percent
		advTotal := honestTotal * pct / (100 - pct)
		for _, a := range c.AdvAccts {
			c.Stake[a] = advTotal / uint64(len(c.AdvAccts))
		}
	}
	// swarm: each fault kind is on with probability 1/2, with a drawn weight
	pick := func(name string, lo, hi int) int {
		if tp.Chance("cfg.on."+name, 1, 2) {
			return tp.Range("cfg.w."+name, lo, hi)
		}
		return 0
	}
	// weights are per mille of a delivery (deliver = 1000)
	c.WTimer = tp.Range("cfg.w.timer", 3, 40)
	c.WDrop = pick("drop", 2, 40)
	c.WDup = pick("dup", 2, 30)
	c.WPart = pick("part", 1, 3)
	c.WStarve = pick("starve", 1, 3)
	c.WSync = tp.Range("cfg.w.sync", 5, 40)
	c.ReorderPct = tp.Choose("cfg.reorder", 4) * 25
	c.ReorderWin = tp.Range("cfg.rwin", 2, 40)
	c.RelayKeepPct = []int{100, 50, 15}[tp.Choose("cfg.relay", 3)]
	crashy := prop == "C02" || prop == "C07" || prop == "C36"
	if crashy || tp.Chance("cfg.on.crash", 1, 2) {
		c.WCrash = tp.Range("cfg.w.crash", 1, 6)
		c.WTrig = tp.Range("cfg.w.trig", 1, 8)
		c.MaxCrashes = tp.Range("cfg.maxcrash", 1, 6)
		c.SlowFlush = tp.Chance("cfg.slowflush", 1, 2)
		if prop == "C02" {
			c.SlowFlush = tp.Chance("cfg.slowflush2", 3, 4)
		}
		c.DBErr = tp.Chance("cfg.dberr", 1, 4)
		if prop == "C02" {
			c.DBErr = tp.Chance("cfg.dberr2", 1, 2)
			c.PersistFirst = tp.Chance("cfg.persistfirst", 1, 2)
		}
	}
	if c.Ghost {
		c.WCrash, c.WTrig, c.MaxCrashes, c.WPart, c.WStarve = 0, 0, 0, 0, 0
	}
	if prop == "C01" {
		c.Hunt = tp.Chance("cfg.hunt", 1, 2)
	}
	if c.CleanHunt {
		c.Hunt = true
		c.WDrop, c.WDup, c.WPart, c.WStarve, c.WCrash, c.WTrig, c.MaxCrashes = 0, 0, 0, 0, 0, 0, 0
	}
	if !c.Ghost && prop != "C05" && (tp.Chance("cfg.slowpp", 1, 3) || c.Hunt) {
		c.SlowPP = tp.Range("cfg.slowpp.steps", 50, 1200)
	}
	if prop == "C07" {
		c.SlowFlush = false // a twin must be forked when the crash DB equals the in-memory state; delayed persistence breaks that premise
		c.TwinGap = tp.Range("cfg.twingap", 1, 12)
		c.TwinHorizon = tp.Range("cfg.twinhorizon", 20, 600)
		c.WStarve = tp.Range("cfg.w.starve7", 2, 8) // lagging nodes hold pipelined next-round state
		c.WHold = tp.Range("cfg.w.hold", 0, 6)
	}
	if prop == "C05" {
		c.Sync = true
		c.AsyncSteps = tp.Range("cfg.asyncsteps", 0, 1500)
		c.Rounds = 1 << 20 // the async prefix never "finishes"; the sync phase decides the end
	}
	return c
}

var discard = io.Discard

func (s *Sim) newLogger() logging.Logger {
	l := logging.NewLogger()
	l.SetOutput(discard)
	if os.Getenv("VERIF_DEBUG_SUTLOG") != "" {
		l.SetOutput(os.Stderr) // panic-level messages of the system under test (debugging aid)
	}
	l.SetLevel(logging.Panic)
	return l
}

// startInst builds and starts a fresh incarnation of node n over database file dbPath.
func (s *Sim) startInst(n *Node, dbPath string, shadow bool) (*inst, error) {
	in := &inst{sim: s, node: n, inc: n.incs, release: make(chan struct{}), shadow: shadow}
	if !shadow {
		n.incs++
	}
	in.net = newSimNet(in)
	in.clk = &simClock{in: in}
	acc, err := db.MakeAccessor(dbPath, false, false)
	if err != nil {
		return nil, err
	}
	if s.cfg.Prop == "C02" {
		if err := installHist(acc); err != nil {
			return nil, err
		}
		if !shadow {
			if in.hist, err = db.MakeAccessor(dbPath, false, false); err != nil {
				return nil, err
			}
			in.histOK = true
		}
	}
	if !shadow {
		n.tmu.Lock()
		n.cur = in
		n.pending = map[agreement.TimeoutType]*pendingTimer{}
		n.tmu.Unlock()
	}
	lv := ledgerView{n.led, in}
	var lateLedger *simLedger
	if s.cfg.PersistFirst && !shadow {
		lateLedger = n.led
	}
	p := agreement.Parameters{
		Ledger:         lv,
		Network:        in.net,
		KeyManager:     &keyManager{accts: n.accts},
		BlockValidator: simValidator{},
		BlockFactory:   simFactory{in: in, tag: n.factoryID},
		RandomSource:   &simRand{x: uint64(n.id)*1000 + uint64(in.inc)},
		Clock:          in.clk,
		Accessor:       acc,
		Logger:         s.newLogger(),
		Local:          config.GetDefaultLocal(),
		BacklogPool:    newSimPool(lateLedger),
	}
	p.Local.CadaverSizeTarget = 0
	svc, err := agreement.MakeService(p)
	if err != nil {
		return nil, err
	}
	in.svc = svc
	in.acc = acc
	in.pool = p.BacklogPool.(*simPool)
	s.insts = append(s.insts, in)
	svc.Start()
	return in, nil
}

func copyDB(src, dst string) error {
	for _, suf := range []string{"", "-wal", "-shm"} {
		b, err := os.ReadFile(src + suf)
		if err != nil {
			if suf == "" {
				return err
			}
			continue
		}
		if err := os.WriteFile(dst+suf, b, 0o644); err != nil {
			return err
		}
	}
	return nil
}

func (s *Sim) setup() error {
	accts := Accounts()
	c := s.cfg
	s.stake = map[basics.Address]basics.OnlineAccountData{}
	s.honest = map[basics.Address]int{}
	for i, st := range c.Stake {
		a := accts[i]
		s.stake[a.Addr] = basics.OnlineAccountData{
			MicroAlgosWithRewards: basics.MicroAlgos{Raw: st},
			VotingData: basics.VotingData{VoteID: a.Voting.OneTimeSignatureVerifier, SelectionID: a.VRF.PK,
				VoteFirstValid: 0, VoteLastValid: a.Part.LastValid, VoteKeyDilution: a.Part.KeyDilution},
		}
		s.total.Raw += st
	}
	s.genesis = bookkeeping.Block{BlockHeader: bookkeeping.BlockHeader{Round: 0, UpgradeState: bookkeeping.UpgradeState{CurrentProtocol: Proto}}}
	mk := func(id int, adv bool, al []int) *Node {
		n := &Node{id: id, adv: adv, alive: true, factoryID: int64(id + 1), pending: map[agreement.TimeoutType]*pendingTimer{}}
		for _, a := range al {
			n.accts = append(n.accts, accts[a])
			if !adv {
				s.honest[accts[a].Addr] = id
			}
		}
		n.led = newSimLedger(s, n)
		n.slowFlush = c.SlowFlush && !adv
		n.led.genesisSlow = n.slowFlush
		n.dbPath = filepath.Join(s.dir, fmt.Sprintf("n%d-0.db", id))
		return n
	}
	for i := 0; i < c.Nodes; i++ {
		s.nodes = append(s.nodes, mk(i, false, c.Accts[i]))
	}
	for j := 0; j < c.AdvInst; j++ {
		s.nodes = append(s.nodes, mk(c.Nodes+j, true, c.AdvAccts))
	}
	// start one at a time (determinism: DESIGN.md F5-a)
	for _, n := range s.nodes {
		in, err := s.startInst(n, n.dbPath, false)
		if err != nil {
			return err
		}
		_ = in
		s.quiesce()
		s.collect()
	}
	return nil
}

// msgKey gives the canonical semantic description of a wire message (and the decoded mirror).
func msgKey(tag protocol.Tag, data []byte) (string, any) {
	switch tag {
	case protocol.AgreementVoteTag:
		v, err := DecodeVote(data)
		if err != nil {
			return fmt.Sprintf("AV undecodable %x", sha256.Sum256(data)), nil
		}
		return fmt.Sprintf("AV %x r%d p%d s%d %s", v.R.Sender[:3], v.R.Round, v.R.Period, v.R.Step, v.R.Proposal.Short()), v
	case protocol.VoteBundleTag:
		b, err := DecodeBundle(data)
		if err != nil {
			return fmt.Sprintf("VB undecodable %x", sha256.Sum256(data)), nil
		}
		return "VB " + bundleKey(b), b
	case protocol.ProposalPayloadTag:
		p, err := DecodePayload(data)
		if err != nil {
			return fmt.Sprintf("PP undecodable %x", sha256.Sum256(data)), nil
		}
		return fmt.Sprintf("PP r%d %x by %x pv(p%d)", p.Block.Round(), func() []byte { d := p.Block.Digest(); return d[:4] }(), p.OriginalProposer[:3], p.PriorVote.R.Period), p
	}
	return "??", nil
}

// collect gathers what every instance did during the last reaction, in canonical order.
func (s *Sim) collect() {
	for _, n := range s.nodes {
		in := n.cur
		if in == nil {
			continue
		}
		in.mu.Lock()
		out := in.outbox
		ens := in.ensures
		disc := in.disconns
		in.outbox, in.ensures, in.disconns = nil, nil, 0
		crashedNow := in.crashReq && n.alive
		hit := in.trigHit
		in.mu.Unlock()
		if s.twin != nil && s.twin.of == n {
			if s.origEffects == nil {
				s.origEffects = map[int][]string{}
			}
			s.origEffects[n.id] = effectsOf(out, ens, disc)
		}
		// canonical order of one reaction's emissions (DESIGN.md F5-c)
		sort.SliceStable(out, func(i, j int) bool {
			if out[i].tag != out[j].tag {
				return out[i].tag < out[j].tag
			}
			return bytes.Compare(out[i].data, out[j].data) < 0
		})
		if disc > 0 {
			s.log.Add("  n%d.%d disconnects=%d", n.id, in.inc, disc)
			s.stat("disconnect", int64(disc))
		}
		keys := make([]string, len(out))
		decs := make([]any, len(out))
		for i, m := range out {
			keys[i], decs[i] = msgKey(m.tag, m.data)
			// pre-pass: a node's own votes of this reaction enter the reference state before any
			// check, because the emission order inside one reaction is canonicalised, not causal
			if v, ok := decs[i].(UVote); ok && s.owns(n, v.R.Sender) {
				s.emitted[voteSha(v)] = true
				s.tallyAdd(n.id, v)
			}
		}
		for i, m := range out {
			key, dec := keys[i], decs[i]
			s.log.Add("  n%d.%d emit %s bcast=%v ex=%d", n.id, in.inc, key, m.bcast, m.except)
			s.curHseq = m.hseq
			s.onEmit(n, in, m, key, dec)
			s.fanout(n, m, key, dec)
		}
		for _, e := range ens {
			s.log.Add("  n%d.%d ensure(%s) r%d %x", n.id, in.inc, e.kind, e.round, e.dig[:4])
			s.onEnsure(n, in, e)
		}
		if crashedNow {
			s.finishCrash(n, "trigger@"+hit)
		}
	}
	s.compareTwin()
	for _, o := range s.oracles {
		o.onStepEnd(s)
	}
	if len(s.batchOwn) > 0 {
		if s.cfg.Prop == "C02" && s.viol == nil {
			for _, n := range s.nodes {
				if vs := s.batchOwn[n.id]; len(vs) > 0 && n.alive {
					s.shadowTick++
					// votes leaving while the node's persistence is held back by a slow ledger flush is exactly the
					// situation the property forbids: always look; otherwise sample
					if s.shadowTick%3 == 0 || n.crashes > 0 || n.led.pendingFlush() {
						s.shadowCheck(n, vs)
					}
				}
			}
			for _, n := range s.nodes {
				if vs := s.batchOwn[n.id]; len(vs) > 0 && s.viol == nil {
					s.persistCheck(n, vs, s.batchSeq[n.id])
				}
			}
		}
		if s.cfg.Prop == "C07" && s.viol == nil {
			for _, n := range s.nodes {
				vs := s.batchOwn[n.id]
				if len(vs) == 0 {
					continue
				}
				// A twin may only be forked when the crash DB equals the in-memory state. If one reaction
				// contained two attests (e.g. the node's own soft votes completed a soft quorum and it
				// cert-voted at once), the second persist happened while vote events of the first attest
				// were still queued: memory is then legitimately ahead of the DB. Fork only after
				// single-attest reactions.
				single := true
				for _, v := range vs[1:] {
					if v.R.Round != vs[0].R.Round || v.R.Period != vs[0].R.Period || v.R.Step != vs[0].R.Step {
						single = false
					}
				}
				if single {
					s.maybeForkTwin(n)
				} else {
					s.stat("twin_fork_skipped_multi_attest", 1)
				}
			}
		}
		s.batchOwn = nil
		s.batchSeq = nil
	}
}

func (s *Sim) fanout(n *Node, m outMsg, key string, dec any) {
	for _, d := range s.nodes {
		if d.id == n.id || d.id == m.except {
			continue
		}
		if !m.bcast && m.except >= 0 && s.cfg.RelayKeepPct < 100 {
			// relays of other nodes' messages (handle != nil) are redundant in a full mesh; thin them
			// deterministically by content. A node's own messages (Broadcast, or Relay with a nil handle) never are.
			h := sha256.Sum256(append([]byte{byte(d.id), byte(n.id)}, m.data...))
			if int(h[0])%100 >= s.cfg.RelayKeepPct {
				continue
			}
		}
		s.nextID++
		f := &flight{id: s.nextID, from: n.id, to: d.id, tag: m.tag, data: m.data, key: key}
		setHdr(f, dec)
		if s.cfg.SlowPP > 0 && m.tag == protocol.ProposalPayloadTag && !s.syncMode && !(s.cfg.CleanHunt && s.hunt != nil) {
			f.notBefore = s.step + s.cfg.SlowPP
			s.stat("slow_payload", 1)
		}
		if s.syncMode {
			f.at = s.global + s.drawDelay()
		}
		s.inflight = append(s.inflight, f)
	}
	if len(s.inflight) > 6000 {
		s.inflight = s.inflight[len(s.inflight)-5000:]
		s.stat("overflow_drop", 1)
	}
}

func (s *Sim) finishCrash(n *Node, why string) {
	if s.twin != nil && s.twin.of == n {
		s.dropTwin("original crashed")
	}
	n.alive = false
	n.stalled = false
	n.crashes++
	s.crashes++
	in := n.cur
	in.mu.Lock()
	in.dead = true
	in.mu.Unlock()
	// durable image = copy of the crash DB at this quiescent instant
	next := filepath.Join(s.dir, fmt.Sprintf("n%d-%d.db", n.id, n.incs))
	if err := copyDB(n.dbPath, next); err != nil {
		s.harness = "copyDB: " + err.Error()
	}
	n.dbPath = next
	// drop traffic addressed to the dead node
	k := 0
	for _, f := range s.inflight {
		if f.to != n.id {
			s.inflight[k] = f
			k++
		}
	}
	s.inflight = s.inflight[:k]
	n.tmu.Lock()
	n.pending = map[agreement.TimeoutType]*pendingTimer{}
	n.tmu.Unlock()
	n.led.dropGates() // persists of the dead incarnation that were still waiting never happen
	s.log.Add("  n%d CRASH (%s) next=%d", n.id, why, n.led.next())
	s.stat("crash", 1)
	s.stat("crash."+why, 1)
}

func (s *Sim) restart(n *Node) {
	in, err := s.startInst(n, n.dbPath, false)
	if err != nil {
		s.harness = "restart: " + err.Error()
		return
	}
	_ = in
	n.alive = true
	s.stat("restart", 1)
}

func (s *Sim) linkOK(a, b int) bool { return a < 0 || s.nodes[a].group == s.nodes[b].group }

func (s *Sim) partitioned() bool {
	for _, n := range s.nodes {
		if n.group != 0 {
			return true
		}
	}
	return false
}

func (s *Sim) deliverable() []int {
	var idx []int
	for i, f := range s.inflight {
		d := s.nodes[f.to]
		if d.alive && d.starve == 0 && !d.stalled && s.linkOK(f.from, f.to) && f.notBefore <= s.step {
			if d.holdUntil > s.step && f.hasHdr && f.vr == d.holdRound && f.vs == stepCert {
				continue // delayed, not lost
			}
			if s.hunt != nil && s.huntHolds(f) {
				continue
			}
			if s.cfg.CleanHunt && s.hunt == nil && s.preHuntHolds(f) {
				continue
			}
			idx = append(idx, i)
			if len(idx) >= 64 {
				break
			}
		}
	}
	return idx
}

func (s *Sim) removeFlight(i int) *flight {
	f := s.inflight[i]
	s.inflight = append(s.inflight[:i], s.inflight[i+1:]...)
	return f
}

// timerNodes lists alive nodes that have a pending timer.
func (s *Sim) timerNodes() []*Node {
	var l []*Node
	for _, n := range s.nodes {
		if !n.alive || n.starve > 0 || n.stalled {
			continue
		}
		if s.cfg.CleanHunt && s.hunt == nil && s.clockHeld(n) {
			continue
		}
		if s.cfg.CleanHunt && s.huntClockHeld(n) {
			continue
		}
		n.tmu.Lock()
		if len(n.pending) > 0 {
			l = append(l, n)
		}
		n.tmu.Unlock()
	}
	return l
}

// fireTimer advances node n's clock to its earliest pending deadline and fires that timer.
func (s *Sim) fireTimer(n *Node) {
	s.stimulate(n)
	n.tmu.Lock()
	var best *pendingTimer
	for _, typ := range []agreement.TimeoutType{agreement.TimeoutDeadline, agreement.TimeoutFastRecovery, agreement.TimeoutFilter} {
		p := n.pending[typ]
		if p == nil {
			continue
		}
		if best == nil || p.at < best.at {
			best = p
		}
	}
	if best == nil {
		n.tmu.Unlock()
		return
	}
	if best.at > n.now {
		s.simTime += best.at - n.now
		n.now = best.at
	}
	delete(n.pending, best.typ)
	ch := best.ch
	n.tmu.Unlock()
	s.log.Add("timer n%d type=%d at=%v", n.id, best.typ, best.at-best.zero)
	s.stat("timer", 1)
	close(ch)
	s.twinTimer(n, best.typ)
}

func (s *Sim) stateDigest() string {
	h := sha256.New()
	for _, n := range s.nodes {
		n.tmu.Lock()
		var d time.Duration
		var ty agreement.TimeoutType = -1
		for _, p := range n.pending {
			if ty == -1 || p.at-p.zero < d {
				d = p.at - p.zero
				ty = p.typ
			}
		}
		n.tmu.Unlock()
		fmt.Fprintf(h, "%d:%v:%d:%d:%v|", n.id, n.alive, n.led.next(), ty, d)
	}
	fmt.Fprintf(h, "%d", len(s.inflight)/8)
	return fmt.Sprintf("%x", h.Sum(nil)[:8])
}

func (s *Sim) lagging() []*Node {
	var l []*Node
	for _, n := range s.nodes {
		if !n.alive {
			continue
		}
		if n.holdUntil > s.step && n.led.next() == n.holdRound {
			continue
		}
		if _, ok := s.canon[n.led.next()]; ok {
			l = append(l, n)
		}
	}
	return l
}

func (s *Sim) finished() bool {
	for _, n := range s.nodes {
		if n.adv {
			continue
		}
		if !n.alive || int(n.led.next()) <= s.cfg.Rounds {
			return false
		}
	}
	return true
}

// pickW maps a raw 16-bit draw onto weighted options (option 0 must be the benign one).
func pickW(raw int, w []int) int {
	tot := 0
	for _, x := range w {
		if x > 0 {
			tot += x
		}
	}
	if tot == 0 {
		return -1
	}
	v := raw % tot
	for i, x := range w {
		if x <= 0 {
			continue
		}
		if v < x {
			return i
		}
		v -= x
	}
	return -1
}

const drawN = 1 << 16

// one asynchronous scheduler step. Every step consumes exactly six decisions
// (step.fault, step.sched, step.reorder, step.a, step.b, step.c), whether it needs them or not, so
// the tape is rectangular: deleting a step or zeroing its fault keeps all later steps aligned
// (this is what makes tapes shrinkable, DESIGN.md §2.6).
func (s *Sim) asyncStep() {
	tp := s.tape
	c := &s.cfg
	base := len(tp.Rec)
	rFault := tp.Choose("step.fault", drawN)
	rSched := tp.Choose("step.sched", drawN)
	rReorder := tp.Choose("step.reorder", drawN)
	rA := tp.Choose("step.a", drawN)
	rB := tp.Choose("step.b", drawN)
	rC := tp.Choose("step.c", drawN)
	for _, n := range s.nodes {
		n.stimmed = false
	}
	del := s.deliverable()
	tn := s.timerNodes()
	var dead, alive, honestAlive []*Node
	for _, n := range s.nodes {
		if n.alive {
			alive = append(alive, n)
			if !n.adv {
				honestAlive = append(honestAlive, n)
			}
		} else {
			dead = append(dead, n)
		}
	}
	var pf []*Node
	for _, n := range s.nodes {
		if n.alive && n.led.pendingFlush() {
			pf = append(pf, n)
		}
	}
	lag := s.lagging()
	// canonical effective values of this step's six decisions (0 = unused / benign)
	var eff [6]int
	defer func() {
		for j := 0; j < 6; j++ {
			tp.Canon(base+j, eff[j])
		}
		for _, n := range s.nodes {
			if n.starve > 0 {
				n.starve--
			}
		}
	}()
	// ---- fault decision (option 0 = no fault this step)
	const (
		fNone = iota
		fDrop
		fDup
		fCrash
		fTrig
		fPart
		fStarve
		fCraft
		fHold
		fDBFail
	)
	fw := make([]int, 10)
	fw[fNone] = 1000
	if len(del) > 0 {
		fw[fDrop] = c.WDrop
		fw[fDup] = c.WDup
	}
	if s.crashes < c.MaxCrashes && len(honestAlive) > 1 {
		fw[fCrash] = c.WCrash
		fw[fTrig] = c.WTrig
	}
	fw[fPart] = c.WPart
	if s.partitioned() {
		fw[fPart] = 4 // partitions heal after a few hundred steps on average
	}
	fw[fStarve] = c.WStarve
	if len(honestAlive) > 0 {
		fw[fHold] = c.WHold
		if c.DBErr && c.Prop == "C02" {
			fw[fDBFail] = 5
		}
	}
	if c.Craft && (c.AdvInst > 0 || c.Ghost) {
		fw[fCraft] = 15
		if c.Ghost {
			fw[fCraft] = 700
		}
		if c.Prop == "C04" {
			fw[fCraft] = 45 // tampering is the fault this property is about
		}
	}
	fpick := pickW(rFault, fw)
	if fpick > fNone {
		eff[0], eff[3], eff[4], eff[5] = rFault, rA, rB, rC
	}
	switch fpick {
	case fDrop:
		f := s.removeFlight(del[rA%len(del)])
		s.log.Add("drop m%d %d->%d %s", f.id, f.from, f.to, f.key)
		s.stat("drop", 1)
		return
	case fDup:
		f := s.inflight[del[rA%len(del)]]
		s.nextID++
		cp := *f
		cp.id = s.nextID
		s.inflight = append(s.inflight, &cp)
		s.log.Add("dup m%d -> m%d", f.id, cp.id)
		s.stat("dup", 1)
		return
	case fCrash:
		n := honestAlive[rA%len(honestAlive)]
		s.log.Add("crash n%d (quiescent)", n.id)
		s.finishCrash(n, "quiescent")
		return
	case fTrig:
		n := honestAlive[rA%len(honestAlive)]
		// Only seams whose call COUNT is schedule-independent may carry a trigger. demux.next returns early -
		// without asking the ledger or the clock - whenever a prioritised (pseudonode / persistence) event is
		// already waiting, so the number of wait-demux and timer calls depends on a real race between the
		// service's goroutines (determinism self-test under load: 2 of 10 seeds diverged in 1 of 12 processes).
		// Sends, ensures, persists and assemblies happen once per action, in event order.
		masks := []uint32{1 << seamSend, 1 << seamSend, 1 << seamWaitPersist, 1 << seamWaitPersist, 1 << seamEnsure, 1 << seamSend, 1 << seamEnsure, 1 << seamAssemble}
		if os.Getenv("VERIF_DBG_OLDMASKS") != "" {
			masks = []uint32{1 << seamSend, 1 << seamSend, 1 << seamWaitPersist, 1 << seamWaitPersist, 1 << seamEnsure, 1 << seamTimer, 1 << seamWaitDemux, 1 << seamAssemble}
		}
		m := masks[rB%len(masks)]
		k := 1 + rC%12
		n.cur.mu.Lock()
		n.cur.trigMask, n.cur.trigLeft = m, k
		n.cur.mu.Unlock()
		s.log.Add("arm n%d mask=%b k=%d", n.id, m, k)
		s.stat("trigger_armed", 1)
		return
	case fPart:
		if s.partitioned() {
			for _, n := range s.nodes {
				n.group = 0
			}
			s.log.Add("heal")
			s.stat("heal", 1)
		} else {
			bits := rA
			var g []int
			for _, n := range s.nodes {
				n.group = bits & 1
				bits >>= 1
				g = append(g, n.group)
			}
			s.log.Add("partition %v", g)
			s.stat("partition", 1)
		}
		return
	case fStarve:
		n := s.nodes[rA%len(s.nodes)]
		n.starve = 5 + rB%116
		s.log.Add("starve n%d for %d", n.id, n.starve)
		s.stat("stall", 1)
		return
	case fDBFail:
		n := honestAlive[rA%len(honestAlive)]
		if n.cur != nil && n.cur.histOK {
			q, what := "create trigger if not exists verif_fail before insert on Service begin select raise(abort, 'verif: injected disk error'); end", "fail"
			if n.dbBroken {
				q, what = "drop trigger if exists verif_fail", "work again"
			}
			err := n.cur.hist.Atomic(func(ctx context.Context, tx *sql.Tx) error { _, e := tx.Exec(q); return e })
			if err != nil {
				s.harness = "db fault: " + err.Error()
				return
			}
			n.dbBroken = !n.dbBroken
			s.log.Add("crash DB of n%d: writes %s", n.id, what)
			s.stat("db_write_fault_toggled", 1)
		}
		return
	case fHold:
		n := honestAlive[rA%len(honestAlive)]
		if n.holdUntil <= s.step {
			n.holdRound, n.holdUntil = n.led.next(), s.step+200+rB%1500
			s.log.Add("hold cert traffic of r%d to n%d until step %d", n.holdRound, n.id, n.holdUntil)
			s.stat("hold", 1)
		}
		return
	case fCraft:
		if c.Ghost {
			s.ghostAction(rA, rB, rC)
		} else {
			s.craftAction(rA, rB, rC)
		}
		return
	}
	// ---- benign scheduling decision (option 0 = deliver the oldest deliverable message)
	const (
		aDeliver = iota
		aTimer
		aFlush
		aSync
		aRestart
		aIdle
	)
	w := make([]int, 6)
	held := false // slow (large) messages that are still on their way
	if c.SlowPP > 0 {
		for _, f := range s.inflight {
			if f.notBefore > s.step {
				held = true
				break
			}
		}
	}
	if len(del) > 0 {
		w[aDeliver] = 1000
		if len(tn) > 0 {
			w[aTimer] = c.WTimer
			if c.CleanHunt && held && s.hunt == nil {
				w[aTimer] = 400 // let the deadlines of the nodes that are not parked yet expire before the slow payload lands
			}
		}
	} else if held {
		// nothing can be delivered yet, but a slow message is under way: let simulated "network time"
		// pass (idle steps) instead of firing timers back to back, so that the payload can arrive at
		// ANY point of a node's step sequence
		w[aIdle] = 1000
		if len(tn) > 0 {
			w[aTimer] = c.WTimer
		}
	} else if len(tn) > 0 {
		w[aTimer] = 1000
	}
	if len(dead) > 0 {
		w[aRestart] = 6
		if len(del) == 0 && len(tn) == 0 {
			w[aRestart] = 1000
		}
	}
	if len(pf) > 0 {
		w[aFlush] = 60
	}
	if len(lag) > 0 && s.hunt == nil {
		w[aSync] = c.WSync
	}
	spick := pickW(rSched, w)
	if spick > aDeliver {
		eff[1], eff[3] = rSched, rA
	}
	switch spick {
	case aDeliver:
		k := 0
		if c.ReorderPct > 0 && len(del) > 1 && rReorder%100 >= 100-c.ReorderPct {
			k = rA % min(c.ReorderWin, len(del))
			if k > 0 {
				s.stat("reordered", 1)
				eff[2], eff[3] = rReorder, rA
			}
		}
		f := s.removeFlight(del[k])
		if !s.huntAllows(f) {
			s.log.Add("hunt-drop m%d %d->%d %s", f.id, f.from, f.to, f.key)
			s.stat("hunt_drop", 1)
			break
		}
		s.deliver(f)
	case aTimer:
		s.fireTimer(tn[rA%len(tn)])
	case aFlush:
		n := pf[rA%len(pf)]
		n.stalled = false
		k := n.led.flush()
		s.twinFlush(n)
		s.log.Add("flush n%d released=%d", n.id, k)
		s.stat("flush_release", int64(k))
	case aSync:
		n := lag[rA%len(lag)]
		r := n.led.next()
		ok := n.led.write(s.canon[r], s.canonCert[r])
		s.twinWrite(n, s.canon[r], s.canonCert[r])
		s.log.Add("catchup n%d r%d ok=%v", n.id, r, ok)
		s.stat("catchup_block", 1)
	case aRestart:
		n := dead[rA%len(dead)]
		s.log.Add("restart n%d from %s", n.id, filepath.Base(n.dbPath))
		s.restart(n)
	case aIdle:
		s.stat("idle_wait_for_slow_message", 1)
	default:
		s.log.Add("idle")
	}
}

// stimulate notes that node n's main loop is about to be handed an event.
func (s *Sim) stimulate(n *Node) {
	if n.cur == nil {
		return
	}
	n.cur.mu.Lock()
	n.stimmed, n.stimSnap, n.stimInst = true, n.cur.seamCnt[seamWaitDemux], n.cur
	n.cur.mu.Unlock()
}

func (s *Sim) deliver(f *flight) {
	d := s.nodes[f.to]
	s.stimulate(d)
	s.tallyDeliver(f.to, f.tag, f.data)
	ok := d.cur.net.deliver(f.tag, f.from, f.data)
	if ok {
		s.twinDeliver(f)
	}
	s.log.Add("deliver m%d %d->%d %s ok=%v", f.id, f.from, f.to, f.key, ok)
	s.stat("deliver", 1)
}

func (s *Sim) cleanup() {
	var wg sync.WaitGroup
	for _, in := range s.insts {
		in.mu.Lock()
		in.zombie = true
		in.dead = true
		select {
		case <-in.release:
		default:
			close(in.release)
		}
		in.mu.Unlock()
	}
	for _, in := range s.insts {
		if in.stopped {
			continue
		}
		wg.Add(1)
		go func(in *inst) {
			defer wg.Done()
			in.svc.Shutdown()
			in.pool.Shutdown()
			in.acc.Close()
			if in.histOK {
				in.hist.Close()
			}
		}(in)
	}
	if s.avv != nil {
		wg.Add(1)
		go func() { defer wg.Done(); s.avv.Quit(); s.avvPool.Shutdown() }()
	}
	done := make(chan struct{})
	go func() { wg.Wait(); close(done) }()
	select {
	case <-done:
	case <-time.After(time.Hour): // fake time: only reached if some Shutdown can never finish
		s.stat("cleanup_leak", 1)
	}
}

// Engine implements kernel.Engine.
type Engine struct{}

func (Engine) Name() string { return "agreesim" }

var tmpRoot string

func scratchRoot() string {
	if tmpRoot == "" {
		base := os.Getenv("VERIF_SCRATCH")
		if base == "" {
			base = "/dev/shm"
		}
		tmpRoot, _ = os.MkdirTemp(base, "verif-agreesim-")
	}
	return tmpRoot
}

// CleanupScratch removes the process scratch directory.
func CleanupScratch() {
	if tmpRoot != "" {
		os.RemoveAll(tmpRoot)
	}
}

func (Engine) Run(t *testing.T, prop, tier string, tape *kernel.Tape, keepLog bool) *kernel.RunResult {
	res := &kernel.RunResult{}
	runCounter++
	dir := filepath.Join(scratchRoot(), fmt.Sprintf("run%d", runCounter))
	os.MkdirAll(dir, 0o755)
	defer os.RemoveAll(dir)
	if prop == "C36" {
		return runKeySim(t, tape, tier, dir, keepLog)
	}
	var s *Sim
	func() {
		defer func() {
			if r := recover(); r != nil {
				msg := fmt.Sprint(r)
				if !bytes.Contains([]byte(msg), []byte("blocked goroutines remain")) && !bytes.Contains([]byte(msg), []byte("deadlock: main bubble goroutine has exited")) {
					res.HarnessErr = "panic: " + msg
				} else if s != nil {
					s.stat("bubble_leak", 1)
				}
			}
		}()
		synctest.Test(t, func(t *testing.T) {
			s = &Sim{t: t, tape: tape, log: kernel.NewLog(keepLog), dir: dir,
				commits: map[basics.Round]map[crypto.Digest]string{}, canon: map[basics.Round]bookkeeping.Block{}, canonCert: map[basics.Round]agreement.Certificate{},
				blocks: map[crypto.Digest]bookkeeping.Block{}, origin: map[string]map[PValue]string{}, emitted: map[string]bool{},
				states: map[string]bool{}, stats: map[string]int64{}, maxPeriod: map[basics.Round]uint64{},
				tallies: map[int]map[string]*stepTally{}, refW: map[string]uint64{}, refBundleOK: map[string]bool{}, values: map[basics.Round][]PValue{}}
			s.never = make(chan struct{})
			s.cfg = drawConfig(tape, prop, tier)
			s.tallyOn = prop == "C04" || prop == "C06" || prop == "C03" || prop == "C01"
			s.installOracles()
			s.run()
			s.cleanup()
		})
	}()
	if s == nil {
		if res.HarnessErr == "" {
			res.HarnessErr = "bubble did not start"
		}
		return res
	}
	res.Steps = s.step
	res.Digest = s.log.Digest()
	res.Stats = s.stats
	res.SimMs = int64(s.simTime / time.Millisecond)
	res.Violation = s.viol
	res.Known = s.known
	res.Tape = tape.Rec
	res.LogLines = s.log.Lines
	for k := range s.states {
		res.States = append(res.States, k)
	}
	if s.harness != "" {
		res.HarnessErr = s.harness
	}
	res.Nontrivial = s.nontrivial()
	res.Sample = s.sample()
	return res
}

func (s *Sim) run() {
	s.log.Add("config %+v", s.cfg)
	if err := s.setup(); err != nil {
		s.harness = "setup: " + err.Error()
		return
	}
	for s.step = 0; s.step < s.cfg.MaxSteps; s.step++ {
		if s.viol != nil || s.harness != "" {
			return
		}
		if s.cfg.Sync && s.step >= s.cfg.AsyncSteps {
			s.runSyncPhase()
			return
		}
		if s.finished() {
			s.stat("finished", 1)
			return
		}
		if s.step%64 == 0 && kernel.PastHardStop() {
			s.stat("run_cut_by_budget", 1)
			return
		}
		s.asyncStep()
		s.quiesce()
		s.collect()
		if s.step%4 == 0 {
			s.states[s.stateDigest()] = true
		}
	}
	s.stat("step_cap", 1)
}

func (s *Sim) sample() any {
	maxR := basics.Round(0)
	for r := range s.canon {
		if r > maxR {
			maxR = r
		}
	}
	return map[string]any{"nodes": s.cfg.Nodes, "adv_instances": s.cfg.AdvInst, "rounds_committed": maxR, "steps": s.step,
		"crashes": s.crashes, "tape_len": len(s.tape.Rec), "faults": s.stats}
}

// retire shuts an instance down for good (its seams answer as no-ops from now on).
func (s *Sim) retire(in *inst) {
	in.mu.Lock()
	in.zombie = true
	in.dead = true
	in.stopped = true
	select {
	case <-in.release:
	default:
		close(in.release)
	}
	in.mu.Unlock()
	go func() {
		in.svc.Shutdown()
		in.pool.Shutdown()
		in.acc.Close()
		if in.histOK {
			in.hist.Close()
		}
	}()
	s.quiesce()
}
