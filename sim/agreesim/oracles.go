package agreesim

import (
	"bytes"
	"context"
	"crypto/sha256"
	"database/sql"
	"fmt"
	"os"
	"path/filepath"

	"github.com/algorand/go-algorand/crypto"
	"github.com/algorand/go-algorand/protocol"
	"github.com/algorand/go-algorand/util/db"
)

func (s *Sim) installOracles() {}

func (s *Sim) owns(n *Node, addr [32]byte) bool {
	for _, a := range n.accts {
		if a.Addr == addr {
			return true
		}
	}
	return false
}

func voteSha(v UVote) string {
	h := sha256.Sum256(protocol.EncodeReflect(&v))
	return string(h[:])
}

// observeVote handles a vote leaving node n (alone or inside a proposal payload).
func (s *Sim) observeVote(n *Node, in *inst, v UVote, wire []byte) {
	if wire != nil {
		if !bytes.Equal(protocol.EncodeReflect(&v), wire) {
			s.harness = "mirror drift: re-encoded vote differs from wire bytes"
			return
		}
	}
	own := s.owns(n, v.R.Sender)
	if own {
		s.emitted[voteSha(v)] = true
		s.stat("vote_originated", 1)
		if !in.shadow {
			s.tallyAdd(n.id, v)
		}
	}
	s.rememberVote(v)
	if n.adv {
		return
	}
	if own && v.R.Period > s.maxPeriod[v.R.Round] {
		s.maxPeriod[v.R.Round] = v.R.Period
	}
	if own && s.sync != nil && s.syncMode && v.R.Round == s.sync.target {
		// Only periods at or beyond the frontier (the most advanced period any honest node had reached at GST)
		// count: a node that was many periods behind walks through the old periods as the bundles still in
		// flight reach it, one after the other - that is catching up, not a failed attempt to agree.
		if v.R.Period >= s.sync.perBase {
			s.sync.periods[v.R.Period] = true
		}
	}
	if own && v.R.Step >= stepSoft {
		// C02 history oracle: one value per (key, round, period, step), over all incarnations
		k := fmt.Sprintf("%x|%d|%d|%d", v.R.Sender[:6], v.R.Round, v.R.Period, v.R.Step)
		m := s.origin[k]
		if m == nil {
			m = map[PValue]string{}
			s.origin[k] = m
		}
		who := fmt.Sprintf("n%d.%d@step%d", n.id, in.inc, s.step)
		if _, ok := m[v.R.Proposal]; !ok {
			m[v.R.Proposal] = who
		}
		if len(m) > 1 {
			s.violate("C02", "equivocation", "", fmt.Sprintf("key %x voted for %d values at r%d p%d s%d: %v", v.R.Sender[:4], len(m), v.R.Round, v.R.Period, v.R.Step, m))
		}
		if in.inc > 0 {
			s.stat("vote_after_restart", 1)
		}
		if v.R.Step == stepCert && !in.shadow {
			// a cert vote is only ever cast for a value that reached a soft quorum in that period
			s.requireQuorum(n, "cert-vote", v.R.Round, v.R.Period, stepSoft, v.R.Proposal)
		}
		if wire != nil && !in.shadow {
			s.huntObserve(n, v)
		}
		if wire != nil && !in.shadow {
			if s.batchOwn == nil {
				s.batchOwn = map[int][]UVote{}
			}
			s.batchOwn[n.id] = append(s.batchOwn[n.id], v)
			if s.batchSeq == nil {
				s.batchSeq = map[int][]int64{}
			}
			s.batchSeq[n.id] = append(s.batchSeq[n.id], s.curHseq)
		}
	} else if own && v.R.Step == stepPropose {
		k := fmt.Sprintf("P%x|%d|%d", v.R.Sender[:6], v.R.Round, v.R.Period)
		m := s.origin[k]
		if m == nil {
			m = map[PValue]string{}
			s.origin[k] = m
		}
		m[v.R.Proposal] = ""
		if len(m) > 1 {
			s.stat("propose_step_revote_differs", 1) // not a C02 violation: assemble/repropose are non-persistent by design
		}
	}
	// any vote an honest node puts on the wire (its own or relayed after verification) must be valid
	if s.checkEmitValidity() {
		if _, err := RefVoteWeight(s, v); err != nil {
			s.violate("C04", "invalid-vote-emitted", "", fmt.Sprintf("n%d emitted vote %x r%d p%d s%d that the reference rejects: %v", n.id, v.R.Sender[:4], v.R.Round, v.R.Period, v.R.Step, err))
		}
		s.stat("vote_validity_checked", 1)
	}
}

func (s *Sim) checkEmitValidity() bool {
	switch s.cfg.Prop {
	case "C03", "C04", "C06":
		return true
	}
	return false
}

func (s *Sim) onEmit(n *Node, in *inst, m outMsg, key string, dec any) {
	if len(s.seenRaw) < 600 && s.step%3 == 0 {
		s.seenRaw = append(s.seenRaw, m)
	}
	switch d := dec.(type) {
	case UVote:
		s.observeVote(n, in, d, m.data)
	case UBundle:
		s.stat("bundle_emitted", 1)
		if len(s.seenBundles) < 400 {
			s.seenBundles = append(s.seenBundles, d)
		}
		if !n.adv && m.bcast {
			s.requireQuorum(n, "bundle-broadcast", d.Round, d.Period, d.Step, d.Proposal)
		}
		if !n.adv {
			if _, err := RefBundleCheck(s, d); err != nil {
				prop := "C06"
				if !m.bcast {
					prop = "C04"
				}
				s.violate(prop, "invalid-bundle-emitted", "", fmt.Sprintf("n%d emitted bundle %s that the reference rejects: %v", n.id, bundleKey(d), err))
			}
		}
	case TPayload:
		s.blocks[d.Block.Digest()] = d.Block
		if d.PriorVote != (UVote{}) {
			s.observeVote(n, in, d.PriorVote, nil)
		}
	case nil:
		if !n.adv {
			s.violate("C41", "undecodable-emitted", "", fmt.Sprintf("honest n%d emitted a message the mirror cannot decode: %s", n.id, key))
		}
	}
}

func (s *Sim) onEnsure(n *Node, in *inst, e ensureRec) {
	if n.adv {
		return
	}
	s.stat("ensure."+e.kind, 1)
	// C01: one digest per round over all honest nodes and incarnations
	m := s.commits[e.round]
	if m == nil {
		m = map[crypto.Digest]string{}
		s.commits[e.round] = m
	}
	if _, ok := m[e.dig]; !ok {
		m[e.dig] = fmt.Sprintf("n%d.%d@step%d", n.id, in.inc, s.step)
	}
	if len(m) > 1 && !s.cfg.Ghost { // (in tally mode the simulator holds a stake majority: C01's hypothesis does not apply)
		s.violate("C01", "two-blocks-one-round", "", fmt.Sprintf("round %d committed with %d different digests: %v", e.round, len(m), func() []string {
			var l []string
			for d, w := range m {
				l = append(l, fmt.Sprintf("%x by %s", d[:4], w))
			}
			return l
		}()))
		return
	}
	if _, ok := s.canon[e.round]; !ok {
		if e.block != nil {
			s.canon[e.round] = *e.block
			s.canonCert[e.round] = e.cert
		} else if b, ok := s.blocks[e.dig]; ok {
			s.canon[e.round] = b
			s.canonCert[e.round] = e.cert
		}
	}
	// C06: committing is the cert-quorum signal
	if cb0, err := DecodeBundle(protocol.Encode(&e.cert)); err == nil {
		s.requireQuorum(n, "commit", cb0.Round, cb0.Period, stepCert, cb0.Proposal)
	}
	// C03: independent certificate check
	if e.block != nil && e.block.Round() != e.round {
		s.violate("C03", "cert-round", "", "block round differs")
	}
	cb := protocol.Encode(&e.cert)
	ub, err := DecodeBundle(cb)
	if err != nil {
		s.harness = "cannot decode certificate into mirror: " + err.Error()
		return
	}
	if ub.Step != stepCert {
		s.violate("C03", "cert-step", "", fmt.Sprintf("n%d committed r%d with a step-%d bundle", n.id, e.round, ub.Step))
		return
	}
	if ub.Round != e.round || ub.Proposal.BlockDigest != e.dig {
		s.violate("C03", "cert-mismatch", "", fmt.Sprintf("n%d committed r%d digest %x with certificate for r%d %x", n.id, e.round, e.dig[:4], ub.Round, ub.Proposal.BlockDigest[:4]))
		return
	}
	if w, err := RefBundleCheck(s, ub); err != nil {
		s.violate("C03", "cert-invalid", "", fmt.Sprintf("n%d committed r%d with a certificate the reference rejects (weight %d): %v", n.id, e.round, w, err))
		return
	}
	for _, va := range ub.Votes {
		uv := UVote{R: RawVote{Sender: va.Sender, Round: ub.Round, Period: ub.Period, Step: ub.Step, Proposal: ub.Proposal}, Cred: va.Cred, Sig: va.Sig}
		if !s.emitted[voteSha(uv)] && !s.owns(n, va.Sender) { // a node's own vote may sit in its tracker before it was relayed
			s.violate("C03", "cert-vote-never-emitted", "", fmt.Sprintf("certificate of r%d contains a vote by %x that no key holder ever emitted", e.round, va.Sender[:4]))
			return
		}
	}
	for _, ea := range ub.EquivocationVotes {
		for k := 0; k < 2; k++ {
			uv := UVote{R: RawVote{Sender: ea.Sender, Round: ub.Round, Period: ub.Period, Step: ub.Step, Proposal: ea.Proposals[k]}, Cred: ea.Cred, Sig: ea.Sigs[k]}
			if !s.emitted[voteSha(uv)] {
				s.violate("C03", "cert-vote-never-emitted", "", fmt.Sprintf("certificate of r%d contains an equivocation half by %x that no key holder ever emitted", e.round, ea.Sender[:4]))
				return
			}
		}
		s.stat("cert_with_equivocation", 1)
	}
	s.stat("cert_checked", 1)
}

func (s *Sim) nontrivial() bool {
	if len(s.canon) == 0 {
		return false
	}
	f := s.stats["drop"] + s.stats["dup"] + s.stats["reordered"] + s.stats["crash"] + s.stats["partition"] + s.stats["stall"] + s.stats["timer"]
	switch s.cfg.Prop {
	case "C07":
		return s.stats["twin_reaction_equal"] > 0
	case "C02":
		return s.stats["crash"] > 0
	case "C05":
		return s.stats["sync_committed"] > 0
	}
	return f > 0
}

// shadowCheck is one half of C02's crash oracle: at an instant at which attest votes have left node n,
// a fresh service is started on a copy of n's crash DB (the durable image at this instant). Whatever
// that restored node originates must not conflict with anything the node's keys ever sent. The shadow
// is discarded afterwards. (An earlier version also demanded that the image's player state be "at
// least as advanced" as the votes: wrong, see DESIGN.md 11.3 - persistCheck replaced it.)
func (s *Sim) shadowCheck(n *Node, sent []UVote) {
	top := sent[0].R
	s.shadowSeq++
	path := filepath.Join(s.dir, fmt.Sprintf("shadow%d.db", s.shadowSeq))
	if err := copyDB(n.dbPath, path); err != nil {
		s.harness = "shadow copyDB: " + err.Error()
		return
	}
	in, err := s.startInst(n, path, true)
	if err != nil {
		s.harness = "shadow start: " + err.Error()
		return
	}
	s.quiesce()
	in.mu.Lock()
	out := in.outbox
	in.outbox = nil
	in.mu.Unlock()
	s.retire(in)
	for _, suf := range []string{"", "-wal", "-shm"} {
		os.Remove(path + suf)
	}
	s.stat("shadow_restore", 1)
	for _, m := range out {
		if m.tag != protocol.AgreementVoteTag {
			continue
		}
		v, err := DecodeVote(m.data)
		if err != nil || !s.owns(n, v.R.Sender) || v.R.Step < stepSoft {
			continue
		}
		k := fmt.Sprintf("%x|%d|%d|%d", v.R.Sender[:6], v.R.Round, v.R.Period, v.R.Step)
		if m := s.origin[k]; m != nil {
			if _, ok := m[v.R.Proposal]; !ok {
				s.violate("C02", "shadow-conflict", "", fmt.Sprintf("restored from the crash DB image taken when votes of (r%d p%d s%d) had left n%d, the node votes %s at r%d p%d s%d where it had already voted %v",
					top.Round, top.Period, top.Step, n.id, v.R.Proposal.Short(), v.R.Round, v.R.Period, v.R.Step, m))
				return
			}
			s.stat("shadow_reattest_same", 1)
		}
	}
	s.stat("shadow_reattest_ok", 1)
}

// ---------------------------------------------------------------------------------------------
// C02 "persisted before sent", decided exactly.
//
// The crash DB keeps only the LAST persisted state (one row, replaced on every persist), and persists
// of one node are legitimately pipelined and not ordered by step (a cert attest made on entering a round
// can precede the soft attest of the same period). So the final image of a reaction does not tell
// whether a particular attestation had been made durable before its votes left. The harness therefore
// adds, inside the crash DB file itself, an append-only table fed by a trigger on the service's own
// insert (same transaction: durable exactly when the persist is). At the network seam, in the emitting
// goroutine, it samples how many states have been persisted so far. A vote of an own key at step >= soft
// may leave only if one of the states persisted up to that instant - in this or an earlier incarnation;
// the table travels with every crash image - holds the pending attest action for exactly this
// (round, period, step, value).
// ---------------------------------------------------------------------------------------------

type attKey struct {
	r, p, s uint64
	dig     crypto.Digest
}

type persistRow struct {
	id      int64
	attests []attKey
}

func installHist(acc db.Accessor) error {
	return acc.Atomic(func(ctx context.Context, tx *sql.Tx) error {
		for _, q := range []string{
			"create table if not exists Service (data blob)",
			"create table if not exists hist (id integer primary key autoincrement, data blob)",
			"create trigger if not exists hist_ins after insert on Service begin insert into hist(data) values (new.data); end",
		} {
			if _, err := tx.Exec(q); err != nil {
				return err
			}
		}
		return nil
	})
}

// histSeq: how many states were ever persisted to this crash DB (monotone; survives row deletion).
func histSeq(acc db.Accessor) int64 {
	var n int64
	err := acc.Atomic(func(ctx context.Context, tx *sql.Tx) error {
		return tx.QueryRow("select coalesce(max(seq),0) from sqlite_sequence where name='hist'").Scan(&n)
	})
	if err != nil {
		return -2
	}
	return n
}

func decodeAttests(raw []byte) ([]attKey, error) {
	var ds struct {
		_struct     struct{} `codec:","`
		Router      []byte
		Player      []byte
		Clock       []byte
		ActionTypes []uint8  `codec:"ActionTypes"`
		Actions     [][]byte `codec:"Actions"`
	}
	if err := protocol.DecodeReflect(raw, &ds); err != nil {
		return nil, err
	}
	num := func(m map[string]interface{}, k string) uint64 {
		switch x := m[k].(type) {
		case uint64:
			return x
		case int64:
			return uint64(x)
		}
		return 0
	}
	var out []attKey
	for _, ab := range ds.Actions {
		var am map[string]interface{}
		if err := protocol.DecodeReflect(ab, &am); err != nil {
			continue // not a struct-shaped action
		}
		// the pending pseudonode action that (re)creates votes carries Round, Period, Step, Proposal
		pm, hasProp := am["Proposal"]
		if _, hasStep := am["Step"]; !hasStep || !hasProp {
			continue
		}
		st := num(am, "Step")
		if st < stepSoft {
			continue
		}
		k := attKey{r: num(am, "Round"), p: num(am, "Period"), s: st}
		var dv interface{}
		switch m := pm.(type) {
		case map[string]interface{}:
			dv = m["dig"]
		case map[interface{}]interface{}:
			dv = m["dig"]
		case nil:
		default:
			return nil, fmt.Errorf("persisted attest action: proposal of unexpected type %T", pm)
		}
		switch d := dv.(type) {
		case []byte:
			copy(k.dig[:], d)
		case nil:
		default:
			return nil, fmt.Errorf("persisted attest action: digest of unexpected type %T", d)
		}
		out = append(out, k)
	}
	return out, nil
}

// drainHist moves newly persisted states from the node's crash DB into the harness's memory.
func (s *Sim) drainHist(n *Node) error {
	acc := db.Accessor{}
	tmp := true
	if in := n.cur; in != nil && in.histOK && !in.stopped {
		acc, tmp = in.hist, false
	} else {
		var err error
		if acc, err = db.MakeAccessor(n.dbPath, false, false); err != nil {
			return err
		}
		defer acc.Close()
	}
	type rawRow struct {
		id   int64
		data []byte
	}
	var rows []rawRow
	err := acc.Atomic(func(ctx context.Context, tx *sql.Tx) error {
		rows = rows[:0]
		rs, err := tx.Query("select id, data from hist where id > ? order by id", n.histSeen)
		if err != nil {
			return err
		}
		defer rs.Close()
		for rs.Next() {
			var r rawRow
			if err := rs.Scan(&r.id, &r.data); err != nil {
				return err
			}
			rows = append(rows, r)
		}
		if err := rs.Err(); err != nil {
			return err
		}
		if !tmp && n.alive {
			// keep the file small: it is copied for every crash image and shadow
			_, err = tx.Exec("delete from hist where id <= ?", n.histSeen)
		}
		return err
	})
	if err != nil {
		return err
	}
	for _, r := range rows {
		at, err := decodeAttests(r.data)
		if err != nil {
			return err
		}
		n.persisted = append(n.persisted, persistRow{id: r.id, attests: at})
		n.histSeen = r.id
		s.stat("persist_rows", 1)
	}
	return nil
}

func (s *Sim) persistCheck(n *Node, sent []UVote, seqs []int64) {
	if n.adv {
		return
	}
	if err := s.drainHist(n); err != nil {
		s.harness = "drainHist: " + err.Error()
		return
	}
	for i, v := range sent {
		h := seqs[i]
		if h == -1 {
			continue
		}
		if h < 0 {
			s.harness = "could not read the crash DB's persist count at the emission seam"
			return
		}
		want := attKey{r: uint64(v.R.Round), p: v.R.Period, s: v.R.Step, dig: v.R.Proposal.BlockDigest}
		found, later := false, false
		for _, row := range n.persisted {
			for _, a := range row.attests {
				if a == want {
					if row.id <= h {
						found = true
					} else {
						later = true
					}
				}
			}
		}
		s.stat("persist_checked_votes", 1)
		if !found {
			what := "no state persisted by then holds that attestation"
			if later {
				what = "the state holding that attestation was persisted only afterwards"
			}
			s.violate("C02", "sent-before-persisted", "", fmt.Sprintf("n%d let vote %x r%d p%d s%d %s leave when %d states had been persisted to its crash DB; %s",
				n.id, v.R.Sender[:4], v.R.Round, v.R.Period, v.R.Step, v.R.Proposal.Short(), h, what))
			return
		}
	}
}

func (s *Sim) rememberVote(v UVote) {
	if len(s.seenVotes) < 3000 {
		s.seenVotes = append(s.seenVotes, v)
	}
	if !v.R.Proposal.IsBottom() {
		l := s.values[v.R.Round]
		for _, x := range l {
			if x == v.R.Proposal {
				return
			}
		}
		s.values[v.R.Round] = append(l, v.R.Proposal)
	}
}
