package agreesim

import "time"

type durationT = time.Duration
