package agreesim

import (
	"fmt"
	"time"

	"github.com/algorand/go-algorand/agreement"
	"github.com/algorand/go-algorand/data/basics"

	"verif/sim/kernel"
)

// Synchronous phase for C05 (bounded liveness): after the asynchronous prefix all faults stop
// ("GST"); from then on this is a discrete-event simulation on one global time line: every message
// is delivered within deltaMax, every timer fires when its node's (slightly skewed) clock reaches
// it, lagging nodes are handed committed blocks within deltaMax.

type syncState struct {
	offset   []time.Duration // node time at GST
	ratePPM  []int64
	deltaMax time.Duration
	lagAt    map[int]time.Duration
	target   basics.Round
	perBase  uint64
	perMax   uint64
	sawVote  bool
	periods  map[uint64]bool // distinct periods of the target round in which honest votes were originated after GST
}

func (s *Sim) drawDelay() time.Duration {
	ms := s.tape.Range("sync.delay", 1, int(s.sync.deltaMax/time.Millisecond))
	return time.Duration(ms) * time.Millisecond
}

func (s *Sim) nodeTime(n *Node) time.Duration {
	st := s.sync
	return st.offset[n.id] + s.global + time.Duration(int64(s.global)/1_000_000*st.ratePPM[n.id])
}

// toGlobal converts a node-clock instant into global time.
func (s *Sim) toGlobal(n *Node, at time.Duration) time.Duration {
	st := s.sync
	d := at - st.offset[n.id]
	if d <= 0 {
		return 0
	}
	// d / (1 + ppm/1e6) without overflowing int64 for multi-hour deadlines
	return d - time.Duration(int64(d)/(1_000_000+st.ratePPM[n.id])*st.ratePPM[n.id])
}

// Liveness bounds (DESIGN.md C05). K is the protocol-level bound on periods after GST with an honest
// online supermajority and no adversary; TMax is a safety net on simulated time.
const (
	livenessMaxPeriods = 6
	livenessTMax       = 40 * time.Minute
	syncStepCap        = 60000
)

func (s *Sim) runSyncPhase() {
	tp := s.tape
	st := &syncState{lagAt: map[int]time.Duration{}, periods: map[uint64]bool{}}
	s.sync = st
	s.log.Add("GST at step %d", s.step)
	s.gstStep = s.step
	for _, n := range s.nodes {
		n.group, n.starve = 0, 0
		n.slowFlush = false
		if n.cur != nil {
			n.cur.mu.Lock()
			n.cur.trigLeft = 0
			n.cur.mu.Unlock()
		}
	}
	for _, n := range s.nodes {
		if !n.alive {
			s.log.Add("restart n%d (GST)", n.id)
			s.restart(n)
			s.quiesce()
			s.collect()
		}
		n.stalled = false
		if n.led.flush() > 0 {
			s.quiesce()
			s.collect()
		}
	}
	if s.viol != nil || s.harness != "" {
		return
	}
	st.deltaMax = time.Duration(tp.Range("sync.deltamax", 20, 600)) * time.Millisecond
	st.offset = make([]time.Duration, len(s.nodes))
	st.ratePPM = make([]int64, len(s.nodes))
	for _, n := range s.nodes {
		n.tmu.Lock()
		st.offset[n.id] = n.now
		n.tmu.Unlock()
		st.ratePPM[n.id] = int64(tp.Range("sync.rate", 0, 100000)) - 50000 // +-5%
	}
	s.syncMode = true
	s.global = 0
	for _, f := range s.inflight {
		f.at = s.drawDelay()
	}
	for _, n := range s.nodes {
		if r := n.led.next(); r > st.target {
			st.target = r
		}
	}
	st.perBase = s.maxPeriod[st.target]
	st.perMax = st.perBase
	s.log.Add("sync: target round %d, base period %d, deltaMax %v", st.target, st.perBase, st.deltaMax)
	start := s.step
	for ; s.step < start+syncStepCap; s.step++ {
		if s.viol != nil || s.harness != "" {
			return
		}
		if s.step%64 == 0 && kernel.PastHardStop() {
			s.stat("run_cut_by_budget", 1)
			return
		}
		done := true
		for _, n := range s.nodes {
			if n.led.next() <= st.target {
				done = false
			}
		}
		if done {
			s.stat("sync_committed", 1)
			switch n := s.step - start; {
			case n <= 1000:
				s.stat("sync_events_le_1000", 1)
			case n <= 4000:
				s.stat("sync_events_le_4000", 1)
			case n <= 16000:
				s.stat("sync_events_le_16000", 1)
			default:
				s.stat("sync_events_gt_16000", 1)
			}
			s.stat(fmt.Sprintf("sync_periods_%d", st.perMax-st.perBase), 1)
			s.stat(fmt.Sprintf("sync_distinct_periods_%d", len(st.periods)), 1)
			s.simTime += s.global
			s.log.Add("sync: all nodes committed round %d after %v and %d periods", st.target, s.global, st.perMax-st.perBase)
			return
		}
		if len(st.periods) > livenessMaxPeriods {
			s.violate("C05", "too-many-periods", "", fmt.Sprintf("round %d not committed by all honest nodes although honest nodes have voted in %d distinct periods since GST (bound %d); simulated %v since GST", st.target, len(st.periods), livenessMaxPeriods, s.global))
			return
		}
		if s.global > livenessTMax {
			s.violate("C05", "no-commit-in-time", "", fmt.Sprintf("round %d not committed by all honest nodes %v after GST (periods elapsed %d)", st.target, s.global, st.perMax-st.perBase))
			return
		}
		if !s.syncStep() {
			s.violate("C05", "stuck", "", fmt.Sprintf("no message in flight and no timer pending, round %d uncommitted", st.target))
			return
		}
		s.quiesce()
		s.collect()
		if m := s.maxPeriod[st.target]; m > st.perMax {
			st.perMax = m
		}
	}
	// 60000 synchronous-phase events (about fifty times what a round needs with correct code; the distribution on
	// the unchanged tree is in the evidence: sync_events_*) without a commit is a livelock: the bounded-liveness oracle
	// in steps, next to the ones in periods and in simulated time.
	s.violate("C05", "no-commit-within-step-budget", "", fmt.Sprintf("round %d not committed by all honest nodes after %d scheduler events since GST (simulated %v, periods elapsed %d)", st.target, syncStepCap, s.global, st.perMax-st.perBase))
}

// syncStep performs the earliest pending event. Returns false if there is none.
func (s *Sim) syncStep() bool {
	st := s.sync
	const (
		kMsg = iota
		kTimer
		kLag
	)
	best := time.Duration(1<<62 - 1)
	kind, idx := -1, -1
	var bestTimer *pendingTimer
	for i, f := range s.inflight {
		if f.at < best {
			best, kind, idx = f.at, kMsg, i
		}
	}
	for _, n := range s.nodes {
		if !n.alive {
			continue
		}
		n.tmu.Lock()
		for _, typ := range []agreement.TimeoutType{agreement.TimeoutDeadline, agreement.TimeoutFastRecovery, agreement.TimeoutFilter} {
			p := n.pending[typ]
			if p == nil {
				continue
			}
			g := s.toGlobal(n, p.at)
			if g < s.global {
				g = s.global
			}
			if g < best {
				best, kind, idx, bestTimer = g, kTimer, n.id, p
			}
		}
		n.tmu.Unlock()
	}
	// lagging nodes receive the committed block within deltaMax
	lagging := map[int]bool{}
	for _, n := range s.lagging() {
		lagging[n.id] = true
		if _, ok := st.lagAt[n.id]; !ok {
			st.lagAt[n.id] = s.global + s.drawDelay()
		}
		if st.lagAt[n.id] < best {
			best, kind, idx = st.lagAt[n.id], kLag, n.id
		}
	}
	for id := range st.lagAt {
		if !lagging[id] {
			delete(st.lagAt, id)
		}
	}
	if kind < 0 {
		return false
	}
	if best > s.global {
		s.global = best
	}
	for _, n := range s.nodes {
		t := s.nodeTime(n)
		n.tmu.Lock()
		if t > n.now {
			n.now = t
		}
		n.tmu.Unlock()
	}
	switch kind {
	case kMsg:
		f := s.removeFlight(idx)
		s.log.Add("@%v", s.global)
		s.deliver(f)
	case kTimer:
		n := s.nodes[idx]
		n.tmu.Lock()
		if bestTimer.at > n.now {
			n.now = bestTimer.at
		}
		delete(n.pending, bestTimer.typ)
		n.tmu.Unlock()
		s.log.Add("@%v timer n%d type=%d at=%v", s.global, n.id, bestTimer.typ, bestTimer.at-bestTimer.zero)
		s.stat("timer", 1)
		close(bestTimer.ch)
	case kLag:
		n := s.nodes[idx]
		r := n.led.next()
		ok := n.led.write(s.canon[r], s.canonCert[r])
		delete(st.lagAt, idx)
		s.log.Add("@%v catchup n%d r%d ok=%v", s.global, n.id, r, ok)
		s.stat("catchup_block", 1)
	}
	return true
}
