package agreesim

import (
	"fmt"

	"github.com/algorand/go-algorand/agreement"

	"github.com/algorand/go-algorand/config"
	"github.com/algorand/go-algorand/data/basics"
	"github.com/algorand/go-algorand/data/committee"
	"github.com/algorand/go-algorand/protocol"
)

// Byzantine adversary actions (DESIGN.md §2.4): the simulator holds the adversary's real keys and
// crafts validly signed equivocating votes, and tampers with genuine bundles/votes/payloads seen on
// the wire using KNOWN mutations. Whether a crafted object is valid is decided by the reference
// checker, never assumed.

func (sel selectorM) CommitteeSize(proto config.ConsensusParams) uint64 {
	sz, _ := stepCommittee(proto, sel.Step)
	return sz
}

// craftVote makes a validly signed vote by account a (nil if the seed is unknown).
func (s *Sim) craftVote(a *Account, r basics.Round, p, step uint64, val PValue) *UVote {
	proto := params()
	seed, ok := s.RefSeed(r.SubSaturate(basics.Round(proto.SeedLookback)))
	if !ok {
		return nil
	}
	rv := RawVote{Sender: a.Addr, Round: r, Period: p, Step: step, Proposal: val}
	id := basics.OneTimeIDForRound(r, a.Part.KeyDilution)
	sig := a.Voting.Sign(id, rv)
	cred := committee.MakeCredential(&a.VRF.SK, selectorM{Seed: seed, Round: r, Period: p, Step: step})
	return &UVote{R: rv, Cred: cred, Sig: sig}
}

func (s *Sim) inject(to int, tag protocol.Tag, data []byte, what string) {
	from := s.cfg.Nodes // first adversary instance
	if s.cfg.AdvInst == 0 {
		from = -1 // ghost voters have no node
	}
	key, _ := msgKey(tag, data)
	s.nextID++
	s.inflight = append(s.inflight, &flight{id: s.nextID, from: from, to: to, tag: tag, data: data, key: "CRAFT(" + what + ") " + key, craft: true})
	s.log.Add("craft m%d ->%d %s %s", s.nextID, to, what, key)
	s.stat("craft."+what, 1)
}

func (s *Sim) honestTargets(bits int) []int {
	var l []int
	for i := 0; i < s.cfg.Nodes; i++ {
		if bits&(1<<uint(i)) != 0 {
			l = append(l, i)
		}
	}
	if len(l) == 0 {
		l = append(l, bits%s.cfg.Nodes)
	}
	return l
}

var craftSteps = []uint64{stepSoft, stepCert, stepNext, stepNext + 1, stepNext + 2, stepLate, stepRedo, stepDown, stepPropose}

func (s *Sim) craftAction(a, b, c int) {
	accts := Accounts()
	if len(s.cfg.AdvAccts) == 0 {
		return
	}
	// current round as seen by the most advanced honest node
	var r basics.Round = 1
	for _, n := range s.nodes {
		if !n.adv && n.led.next() > r {
			r = n.led.next()
		}
	}
	if a%5 == 4 && r > 1 {
		r-- // sometimes target nodes that lag one round
	}
	p := s.maxPeriod[r]
	switch (a / 5) % 3 {
	case 1:
		if p > 0 {
			p--
		}
	case 2:
		p++
	}
	kind := b % 8
	switch kind {
	case 0, 1: // equivocation: two different values at one step, sent to (possibly different) subsets
		acct := accts[s.cfg.AdvAccts[c%len(s.cfg.AdvAccts)]]
		step := craftSteps[(c/4)%len(craftSteps)]
		vals := append([]PValue(nil), s.values[r]...)
		if step >= stepNext && step != stepLate && step != stepRedo {
			vals = append(vals, PValue{})
		}
		if step == stepDown {
			vals = []PValue{{}}
		}
		if len(vals) == 0 {
			return
		}
		v1 := vals[(c/64)%len(vals)]
		v2 := vals[(c/512)%len(vals)]
		for i, val := range []PValue{v1, v2} {
			if i == 1 && v1 == v2 {
				break
			}
			if (step == stepSoft || step == stepCert || step == stepLate || step == stepRedo || step == stepPropose) && val.IsBottom() {
				continue
			}
			uv := s.craftVote(acct, r, p, step, val)
			if uv == nil {
				return
			}
			s.emitted[voteSha(*uv)] = true
			data := protocol.EncodeReflect(uv)
			bits := a >> 3
			if i == 1 && kind == 1 {
				bits = ^bits // split view: the second value goes to the other half
			}
			for _, t := range s.honestTargets(bits & (1<<uint(s.cfg.Nodes) - 1)) {
				s.inject(t, protocol.AgreementVoteTag, data, "equivocation")
			}
		}
	case 2, 3, 4: // tampered / re-assembled bundle
		s.craftBundle(a, b/8, c, r, p)
	case 5: // stale replay of an old raw message
		if len(s.seenRaw) == 0 {
			return
		}
		m := s.seenRaw[c%len(s.seenRaw)]
		s.inject(a%s.cfg.Nodes, m.tag, m.data, "replay")
	case 6, 7: // byte-level corruption of a genuine message (C41: never a crash)
		if len(s.seenRaw) == 0 {
			return
		}
		m := s.seenRaw[c%len(s.seenRaw)]
		d := append([]byte(nil), m.data...)
		switch (b / 8) % 4 {
		case 0:
			d[(c/7)%len(d)] ^= byte(1 << uint(c%8))
		case 1:
			d = d[:(c/7)%len(d)]
		case 2:
			// inflate a msgpack length prefix if there is an array/map/bin header nearby
			i := (c / 7) % len(d)
			d[i] = 0xdd // array32 marker: following 4 bytes become a huge length
		case 3:
			i := (c / 7) % len(d)
			d = append(d[:i], append([]byte{0xc6, 0xff, 0xff, 0xff, 0xff}, d[i:]...)...)
		}
		s.inject(a%s.cfg.Nodes, m.tag, d, "corrupt")
	}
}

// craftBundle builds a bundle from genuine votes seen on the wire (plus adversary votes) and applies
// one known mutation.
func (s *Sim) craftBundle(a, mut, c int, r basics.Round, p uint64) {
	accts := Accounts()
	var base UBundle
	if len(s.seenBundles) > 0 && c%3 != 0 && mut%16 < 14 {
		src := s.seenBundles[c%len(s.seenBundles)]
		base = src
		base.Votes = append([]VoteAuth(nil), src.Votes...)
		base.EquivocationVotes = append([]EqVoteAuth(nil), src.EquivocationVotes...)
	} else {
		// assemble from observed votes of one (r,p,step,value)
		if len(s.seenVotes) == 0 {
			return
		}
		pick := s.seenVotes[c%len(s.seenVotes)]
		if c%4 != 0 {
			// prefer material that is fresh for the targets: current round, current or previous period
			var fresh []UVote
			for _, v := range s.seenVotes {
				if v.R.Round == r && v.R.Period+1 >= p && v.R.Step != stepPropose {
					fresh = append(fresh, v)
				}
			}
			if c%3 == 1 || mut%16 >= 14 {
				// certificates are the bundles that are consumed WITHOUT a vote tracker behind the verifier
				// (catch-up, EnsureDigest): prefer cert-step material for a good share of the crafted bundles
				var certs []UVote
				for _, v := range s.seenVotes {
					if v.R.Step == stepCert && v.R.Round+1 >= r {
						certs = append(certs, v)
					}
				}
				if len(certs) > 0 {
					fresh = certs
				}
			}
			if len(fresh) > 0 {
				pick = fresh[(c/4)%len(fresh)]
			}
		}
		if pick.R.Step == stepPropose {
			return
		}
		base = UBundle{Round: pick.R.Round, Period: pick.R.Period, Step: pick.R.Step, Proposal: pick.R.Proposal}
		seen := map[basics.Address]bool{}
		for _, v := range s.seenVotes {
			if v.R.Round == base.Round && v.R.Period == base.Period && v.R.Step == base.Step && v.R.Proposal == base.Proposal && !seen[v.R.Sender] {
				seen[v.R.Sender] = true
				base.Votes = append(base.Votes, VoteAuth{Sender: v.R.Sender, Cred: v.Cred, Sig: v.Sig})
			}
		}
	}
	if len(base.Votes) == 0 {
		return
	}
	adv := accts[s.cfg.AdvAccts[c%len(s.cfg.AdvAccts)]]
	what := ""
	switch mut % 16 {
	case 0:
		what = "as-is"
	case 1: // duplicated voter (re-using its weight)
		base.Votes = append(base.Votes, base.Votes[c%len(base.Votes)])
		what = "dup-voter"
	case 2: // drop voters
		k := 1 + c%len(base.Votes)
		base.Votes = base.Votes[:len(base.Votes)-k]
		if len(base.Votes) == 0 {
			return
		}
		what = "drop-voters"
	case 3:
		base.Round++
		what = "round+1"
	case 4:
		base.Period++
		what = "period+1"
	case 5:
		base.Step = craftSteps[c%len(craftSteps)]
		what = "step-changed"
	case 6: // different digest
		vals := s.values[base.Round]
		if len(vals) == 0 {
			return
		}
		base.Proposal = vals[c%len(vals)]
		what = "value-changed"
	case 7:
		base.Proposal = PValue{}
		what = "value-bottom"
	case 8: // flip a signature bit
		i := c % len(base.Votes)
		base.Votes[i].Sig.Sig[c%64] ^= 1
		what = "sig-flip"
	case 9: // flip a VRF proof bit
		i := c % len(base.Votes)
		base.Votes[i].Cred.Proof[c%80] ^= 1
		what = "vrf-flip"
	case 10: // add a valid adversary vote for the same header
		if uv := s.craftVote(adv, base.Round, base.Period, base.Step, base.Proposal); uv != nil && !(base.Proposal.IsBottom() && base.Step < stepNext) {
			s.emitted[voteSha(*uv)] = true
			base.Votes = append(base.Votes, VoteAuth{Sender: uv.R.Sender, Cred: uv.Cred, Sig: uv.Sig})
		}
		what = "plus-adv-vote"
	case 11, 12: // add an adversary equivocation pair (valid if the halves differ; case 12 makes them identical)
		vals := append([]PValue(nil), s.values[base.Round]...)
		if base.Step >= stepNext {
			vals = append(vals, PValue{})
		}
		if len(vals) < 2 && mut%14 == 11 {
			return
		}
		if len(vals) == 0 {
			return
		}
		p0 := vals[c%len(vals)]
		p1 := vals[(c+1)%len(vals)]
		if mut%14 == 12 {
			p1 = p0
		}
		if (p0.IsBottom() || p1.IsBottom()) && base.Step < stepNext {
			return
		}
		u0 := s.craftVote(adv, base.Round, base.Period, base.Step, p0)
		u1 := s.craftVote(adv, base.Round, base.Period, base.Step, p1)
		if u0 == nil || u1 == nil {
			return
		}
		s.emitted[voteSha(*u0)] = true
		s.emitted[voteSha(*u1)] = true
		ea := EqVoteAuth{Sender: adv.Addr, Cred: u0.Cred}
		ea.Sigs[0], ea.Sigs[1] = u0.Sig, u1.Sig
		ea.Proposals[0], ea.Proposals[1] = p0, p1
		// the adversary must not also appear as a plain voter
		k := 0
		for _, v := range base.Votes {
			if v.Sender != adv.Addr {
				base.Votes[k] = v
				k++
			}
		}
		base.Votes = base.Votes[:k]
		base.EquivocationVotes = append(base.EquivocationVotes, ea)
		what = "plus-eq-pair"
		if mut%14 == 12 {
			what = "eq-pair-identical"
		}
	case 13: // splice a vote of another step into the bundle
		for _, v := range s.seenVotes {
			if v.R.Round == base.Round && v.R.Step != base.Step && v.R.Step != stepPropose {
				dup := false
				for _, x := range base.Votes {
					if x.Sender == v.R.Sender {
						dup = true
					}
				}
				if !dup {
					base.Votes = append(base.Votes, VoteAuth{Sender: v.R.Sender, Cred: v.Cred, Sig: v.Sig})
					break
				}
			}
		}
		what = "splice-other-step"
	case 14, 15: // a sub-quorum of honest votes topped up by counting ONE adversary key twice: once as a
		// plain voter and once as an equivocation pair (a sender must be distinct across BOTH lists)
		vals := append([]PValue(nil), s.values[base.Round]...)
		if base.Step >= stepNext {
			vals = append(vals, PValue{})
		}
		var other *PValue
		for i := range vals {
			if vals[i] != base.Proposal {
				other = &vals[i]
				break
			}
		}
		if other == nil || (base.Proposal.IsBottom() && base.Step < stepNext) || (other.IsBottom() && base.Step < stepNext) {
			return
		}
		u0 := s.craftVote(adv, base.Round, base.Period, base.Step, base.Proposal)
		u1 := s.craftVote(adv, base.Round, base.Period, base.Step, *other)
		if u0 == nil || u1 == nil {
			return
		}
		aw := s.refWeight(*u0)
		if aw == 0 {
			return
		}
		thr := stepThreshold(base.Step)
		// keep honest voters (heaviest first is irrelevant: keep while the sum stays below thr - aw)
		var kept []VoteAuth
		var sum uint64
		for _, v := range base.Votes {
			if v.Sender == adv.Addr {
				continue
			}
			w := s.refWeight(UVote{R: RawVote{Sender: v.Sender, Round: base.Round, Period: base.Period, Step: base.Step, Proposal: base.Proposal}, Cred: v.Cred, Sig: v.Sig})
			if w == 0 || sum+w+aw >= thr {
				continue
			}
			kept = append(kept, v)
			sum += w
		}
		if sum+2*aw < thr {
			s.stat("craft_overlap_not_enough_weight", 1)
			if mut%16 == 15 {
				return
			}
		}
		s.emitted[voteSha(*u0)] = true
		s.emitted[voteSha(*u1)] = true
		base.Votes = append(kept, VoteAuth{Sender: adv.Addr, Cred: u0.Cred, Sig: u0.Sig})
		ea := EqVoteAuth{Sender: adv.Addr, Cred: u0.Cred}
		ea.Sigs[0], ea.Sigs[1] = u0.Sig, u1.Sig
		ea.Proposals[0], ea.Proposals[1] = base.Proposal, *other
		base.EquivocationVotes = []EqVoteAuth{ea}
		what = "voter-also-eq-pair"
	}
	data := protocol.EncodeReflect(&base)
	_, err := RefBundleCheck(s, base)
	valid := "invalid"
	if err == nil {
		valid = "valid"
	}
	s.stat("craft_bundle_"+valid, 1)
	if base.Step == stepCert {
		s.authCheck(base, data, err == nil, what)
	}
	for _, t := range s.honestTargets((a >> 3) & (1<<uint(s.cfg.Nodes) - 1)) {
		s.inject(t, protocol.VoteBundleTag, data, fmt.Sprintf("bundle/%s/%s", what, valid))
	}
}

// authCheck runs the REAL agreement.Certificate.Authenticate (the entry point catch-up and
// EnsureDigest rely on: there no vote tracker sits behind the bundle verifier to de-duplicate
// senders a second time) on a crafted cert-step bundle, against a ledger view that has the stake
// table and seeds, and compares the verdict with the reference checker.
func (s *Sim) authCheck(b UBundle, data []byte, refValid bool, what string) {
	blk, ok := s.blocks[b.Proposal.BlockDigest]
	if !ok || blk.Round() != b.Round {
		return
	}
	// a node whose ledger can serve the seed/balance rounds of b.Round
	var n *Node
	for _, x := range s.nodes {
		if !x.adv && x.alive && x.led.next() >= b.Round {
			n = x
			break
		}
	}
	if n == nil {
		return
	}
	var cert agreement.Certificate
	if err := protocol.Decode(data, &cert); err != nil {
		return
	}
	if s.avv == nil {
		s.avvPool = newSimPool(nil)
		s.avv = agreement.MakeAsyncVoteVerifier(s.avvPool)
	}
	in := &inst{sim: s, node: n, release: make(chan struct{}), zombie: false}
	err := cert.Authenticate(blk, ledgerView{n.led, in}, s.avv)
	s.stat("authenticate_checked", 1)
	if err == nil {
		s.stat("authenticate_accepted", 1)
	}
	if err == nil && !refValid {
		_, rerr := RefBundleCheck(s, b)
		s.violate("C04", "certificate-accepted", what, fmt.Sprintf("Certificate.Authenticate accepted a certificate for round %d (%s) that does not prove a quorum: %v", b.Round, what, rerr))
	}
}

// ghostAction (C06 tally mode): one simulator-held key casts a vote at the honest nodes' current
// round/period: for the leading value, for another value, as an equivocation, or as a duplicate of
// something it already sent; delivery order, loss and duplication are the scheduler's as usual.
func (s *Sim) ghostAction(a, b, c int) {
	accts := Accounts()
	if s.ghostSent == nil {
		s.ghostSent = map[string][]PValue{}
		s.ghostEq = map[int]bool{}
	}
	var r basics.Round = 1
	for _, n := range s.nodes {
		if n.led.next() > r {
			r = n.led.next()
		}
	}
	p := s.maxPeriod[r]
	if a%9 == 0 && p > 0 {
		p--
	}
	vals := s.values[r]
	if len(vals) == 0 {
		return
	}
	gi := s.cfg.AdvAccts[a%len(s.cfg.AdvAccts)]
	g := accts[gi]
	steps := []uint64{stepSoft, stepSoft, stepSoft, stepCert, stepCert, stepNext, stepNext, stepNext + 1, stepNext + 2, stepLate, stepRedo, stepDown}
	step := steps[b%len(steps)]
	key := fmt.Sprintf("%d|%d|%d|%d", gi, r, p, step)
	sent := s.ghostSent[key]
	cand := append([]PValue(nil), vals...)
	if step >= stepNext && step != stepLate && step != stepRedo {
		cand = append(cand, PValue{})
	}
	if step == stepDown {
		cand = []PValue{{}}
	}
	var val PValue
	mode := (b / 16) % 10
	switch {
	case len(sent) > 0 && mode < 3: // duplicate of an earlier vote
		val = sent[c%len(sent)]
		s.stat("ghost.duplicate", 1)
	case len(sent) > 0 && mode < 6: // equivocate, if the equivocators' total stake stays below 40%
		val = cand[c%len(cand)]
		already := false
		for _, x := range sent {
			if x == val {
				already = true
			}
		}
		if !already {
			if !s.ghostEq[gi] {
				if (s.ghostEqStake+s.cfg.Stake[gi])*100 >= s.total.Raw*40 {
					return
				}
				s.ghostEq[gi] = true
				s.ghostEqStake += s.cfg.Stake[gi]
			}
			if len(sent) >= 2 {
				return // at most two values per (key, step): a third adds nothing
			}
			s.stat("ghost.equivocation", 1)
		}
	case len(sent) > 0:
		return
	default:
		val = cand[0]
		if mode >= 7 {
			val = cand[c%len(cand)]
		}
		s.stat("ghost.vote", 1)
	}
	if val.IsBottom() && (step == stepSoft || step == stepCert || step == stepLate || step == stepRedo) {
		return
	}
	uv := s.craftVote(g, r, p, step, val)
	if uv == nil {
		return
	}
	found := false
	for _, x := range sent {
		if x == val {
			found = true
		}
	}
	if !found {
		// The protocol assumes that the dishonest stake is too small for two values to reach a threshold in one
		// step (the vote tracker asserts it and panics otherwise). The ghosts hold most of the stake, so they must
		// respect that bound as a population: a vote that would let a SECOND value of this step reach the
		// threshold - counting every equivocator for every value and all honest weight for whichever value
		// needs it - is not cast. (A thorough run hit the assertion at step "late", whose threshold is only 64%.)
		if !s.ghostWithinBound(gi, r, p, step, val) {
			s.stat("ghost.vote_withheld_two_values_bound", 1)
			return
		}
		s.ghostSent[key] = append(sent, val)
	}
	s.emitted[voteSha(*uv)] = true
	s.rememberVote(*uv)
	data := protocol.EncodeReflect(uv)
	for _, t := range s.honestTargets(c & 3) {
		s.inject(t, protocol.AgreementVoteTag, data, "ghost")
	}
}

// stepWeight: reference committee weight of account idx at (r, p, step), cached.
func (s *Sim) stepWeight(idx int, r basics.Round, p, step uint64) uint64 {
	k := fmt.Sprintf("%d|%d|%d|%d", idx, r, p, step)
	if w, ok := s.weightCache[k]; ok {
		return w
	}
	if s.weightCache == nil {
		s.weightCache = map[string]uint64{}
	}
	a := Accounts()[idx]
	var w uint64
	proto := params()
	if seed, ok := s.RefSeed(r.SubSaturate(basics.Round(proto.SeedLookback))); ok {
		cred := committee.MakeCredential(&a.VRF.SK, selectorM{Seed: seed, Round: r, Period: p, Step: step})
		if rec, ok := s.RefAccount(a.Addr); ok {
			w, _ = refCredWeight(s, rec, a.Addr, r, p, step, cred.Proof)
		}
	}
	s.weightCache[k] = w
	return w
}

// ghostWithinBound: may ghost gi add a vote for val at (r, p, step) without making it possible for two
// values to reach the step's threshold? Worst case over everything the honest accounts might vote.
func (s *Sim) ghostWithinBound(gi int, r basics.Round, p, step uint64, val PValue) bool {
	_, thr := stepCommittee(params(), step)
	var honest uint64
	for _, l := range s.cfg.Accts {
		for _, a := range l {
			honest += s.stepWeight(a, r, p, step)
		}
	}
	per := map[PValue]uint64{}
	var eq uint64
	for _, g := range s.cfg.AdvAccts {
		sent := append([]PValue(nil), s.ghostSent[fmt.Sprintf("%d|%d|%d|%d", g, r, p, step)]...)
		if g == gi {
			sent = append(sent, val)
		}
		w := s.stepWeight(g, r, p, step)
		switch {
		case len(sent) >= 2:
			eq += w
		case len(sent) == 1:
			per[sent[0]] += w
		}
	}
	if _, ok := per[val]; !ok {
		per[val] = 0
	}
	reach := 0
	for _, w := range per {
		if w+eq+honest >= thr {
			reach++
		}
	}
	return reach <= 1
}
