// Package agreesim runs N real agreement.Service instances in one synctest bubble under a
// simulator-owned ledger, network, clock and worker pool (DESIGN.md §3 "agreesim").
package agreesim

import (
	"encoding/binary"
	"sync"

	"github.com/algorand/go-algorand/config"
	"github.com/algorand/go-algorand/crypto"
	"github.com/algorand/go-algorand/data/account"
	"github.com/algorand/go-algorand/data/basics"
	"github.com/algorand/go-algorand/protocol"
)

// Account is one participating account with all of its secrets (the simulator owns every key).
type Account struct {
	Idx    int
	Addr   basics.Address
	VRF    *crypto.VRFSecrets
	Voting *crypto.OneTimeSignatureSecrets
	Part   account.Participation
}

const maxAccounts = 14

var (
	acctOnce sync.Once
	accounts []*Account
)

// Proto is the consensus version every simulated round runs under.
var Proto = protocol.ConsensusCurrentVersion

func params() config.ConsensusParams { return config.Consensus[Proto] }

// Accounts returns the process-wide deterministic key pool (seeded; identical in every process).
func Accounts() []*Account {
	acctOnce.Do(func() {
		// Small key dilution, and batch 0 is expanded into per-round keys up front: Sign() otherwise draws
		// a fresh sub-key from the secrets' RNG on every call, which would make signature bytes depend
		// on the process-wide order of Sign calls (a determinism leak across runs and instances).
		const dil = 64
		for i := 0; i < maxAccounts; i++ {
			var seed crypto.Seed
			binary.LittleEndian.PutUint64(seed[:], uint64(0xA160000+i))
			copy(seed[8:], "verif-agreesim-account")
			s := crypto.GenerateSignatureSecrets(seed)
			var vseed [32]byte
			binary.LittleEndian.PutUint64(vseed[:], uint64(0xB260000+i))
			copy(vseed[8:], "verif-agreesim-vrf")
			vpk, vsk := crypto.VrfKeygenFromSeed(vseed)
			rng := crypto.MakePRNG(append([]byte("verif-agreesim-ots"), byte(i)))
			ots := crypto.GenerateOneTimeSignatureSecretsRNG(0, 2, rng)
			ots.DeleteBeforeFineGrained(crypto.OneTimeSignatureIdentifier{Batch: 0, Offset: 0}, dil)
			a := &Account{Idx: i, Addr: basics.Address(s.SignatureVerifier), VRF: &crypto.VRFSecrets{PK: vpk, SK: vsk}, Voting: ots}
			a.Part = account.Participation{Parent: a.Addr, VRF: a.VRF, Voting: a.Voting, FirstValid: 0, LastValid: basics.Round(2*dil - 1), KeyDilution: dil}
			accounts = append(accounts, a)
		}
	})
	return accounts
}

// keyManager implements agreement.KeyManager over a fixed set of accounts.
type keyManager struct {
	accts []*Account
}

func (m *keyManager) VotingKeys(votingRound, _ basics.Round) []account.ParticipationRecordForRound {
	var km []account.ParticipationRecordForRound
	for _, a := range m.accts {
		acc := a.Part
		if acc.OverlapsInterval(votingRound, votingRound) {
			record := account.ParticipationRecord{
				ParticipationID: acc.ID(),
				Account:         acc.Parent,
				FirstValid:      acc.FirstValid,
				LastValid:       acc.LastValid,
				KeyDilution:     acc.KeyDilution,
				EffectiveFirst:  acc.FirstValid,
				EffectiveLast:   acc.LastValid,
				VRF:             acc.VRF,
				Voting:          acc.Voting,
			}
			km = append(km, account.ParticipationRecordForRound{ParticipationRecord: record})
		}
	}
	return km
}

func (m *keyManager) Record(basics.Address, basics.Round, account.ParticipationAction) {}
