package agreesim

// Mirror structs of agreement's wire types, written from the wire format (codec tags), plus an
// independent validity checker for votes and bundles. Nothing here calls into package agreement:
// the oracle decodes what real nodes put on the wire and re-derives validity from the crypto
// primitives (one-time signature, VRF) and the external sortition library.

import (
	"fmt"
	"sort"

	"github.com/algorand/sortition"

	"github.com/algorand/go-algorand/config"
	"github.com/algorand/go-algorand/crypto"
	"github.com/algorand/go-algorand/data/basics"
	"github.com/algorand/go-algorand/data/bookkeeping"
	"github.com/algorand/go-algorand/data/committee"
	"github.com/algorand/go-algorand/protocol"
)

const (
	stepPropose uint64 = 0
	stepSoft    uint64 = 1
	stepCert    uint64 = 2
	stepNext    uint64 = 3
	stepLate    uint64 = 253
	stepRedo    uint64 = 254
	stepDown    uint64 = 255
)

type PValue struct {
	_struct          struct{}       `codec:",omitempty,omitemptyarray"`
	OriginalPeriod   uint64         `codec:"oper"`
	OriginalProposer basics.Address `codec:"oprop"`
	BlockDigest      crypto.Digest  `codec:"dig"`
	EncodingDigest   crypto.Digest  `codec:"encdig"`
}

func (p PValue) IsBottom() bool { return p == PValue{} }
func (p PValue) Short() string {
	if p.IsBottom() {
		return "bot"
	}
	return fmt.Sprintf("%x", p.BlockDigest[:4])
}

type RawVote struct {
	_struct  struct{}       `codec:",omitempty,omitemptyarray"`
	Sender   basics.Address `codec:"snd"`
	Round    basics.Round   `codec:"rnd"`
	Period   uint64         `codec:"per"`
	Step     uint64         `codec:"step"`
	Proposal PValue         `codec:"prop"`
}

func (rv RawVote) ToBeHashed() (protocol.HashID, []byte) {
	return protocol.Vote, protocol.EncodeReflect(&rv)
}

type UVote struct {
	_struct struct{}                            `codec:",omitempty,omitemptyarray"`
	R       RawVote                             `codec:"r"`
	Cred    committee.UnauthenticatedCredential `codec:"cred"`
	Sig     crypto.OneTimeSignature             `codec:"sig,omitempty,omitemptycheckstruct"`
}

type VoteAuth struct {
	_struct struct{}                            `codec:""`
	Sender  basics.Address                      `codec:"snd"`
	Cred    committee.UnauthenticatedCredential `codec:"cred"`
	Sig     crypto.OneTimeSignature             `codec:"sig,omitempty,omitemptycheckstruct"`
}

type EqVoteAuth struct {
	_struct   struct{}                            `codec:""`
	Sender    basics.Address                      `codec:"snd"`
	Cred      committee.UnauthenticatedCredential `codec:"cred"`
	Sigs      [2]crypto.OneTimeSignature          `codec:"sig,omitempty,omitemptycheckstruct"`
	Proposals [2]PValue                           `codec:"props"`
}

type UBundle struct {
	_struct           struct{}     `codec:",omitempty,omitemptyarray"`
	Round             basics.Round `codec:"rnd"`
	Period            uint64       `codec:"per"`
	Step              uint64       `codec:"step"`
	Proposal          PValue       `codec:"prop"`
	Votes             []VoteAuth   `codec:"vote"`
	EquivocationVotes []EqVoteAuth `codec:"eqv"`
}

// TPayload mirrors transmittedPayload (block fields are flattened into the same map on the wire).
type TPayload struct {
	_struct struct{} `codec:",omitempty,omitemptyarray"`
	bookkeeping.Block
	SeedProof        crypto.VrfProof `codec:"sdpf"`
	OriginalPeriod   uint64          `codec:"oper"`
	OriginalProposer basics.Address  `codec:"oprop"`
	PriorVote        UVote           `codec:"pv"`
}

type selectorM struct {
	_struct struct{}       `codec:""`
	Seed    committee.Seed `codec:"seed"`
	Round   basics.Round   `codec:"rnd"`
	Period  uint64         `codec:"per"`
	Step    uint64         `codec:"step"`
}

func (s selectorM) ToBeHashed() (protocol.HashID, []byte) {
	return protocol.AgreementSelector, protocol.EncodeReflect(&s)
}

type hashableCredM struct {
	_struct struct{}         `codec:",omitempty,omitemptyarray"`
	RawOut  crypto.VrfOutput `codec:"v"`
	Member  basics.Address   `codec:"m"`
	Iter    uint64           `codec:"i"`
}

func (h hashableCredM) ToBeHashed() (protocol.HashID, []byte) {
	return protocol.Credential, protocol.EncodeReflect(&h)
}

func DecodeVote(data []byte) (UVote, error) {
	var v UVote
	err := protocol.DecodeReflect(data, &v)
	return v, err
}

func DecodeBundle(data []byte) (UBundle, error) {
	var b UBundle
	err := protocol.DecodeReflect(data, &b)
	return b, err
}

func DecodePayload(data []byte) (TPayload, error) {
	var p TPayload
	err := protocol.DecodeReflect(data, &p)
	return p, err
}

func stepCommittee(proto config.ConsensusParams, step uint64) (size, threshold uint64) {
	switch step {
	case stepPropose:
		return proto.NumProposers, 0
	case stepSoft:
		return proto.SoftCommitteeSize, proto.SoftCommitteeThreshold
	case stepCert:
		return proto.CertCommitteeSize, proto.CertCommitteeThreshold
	case stepLate:
		return proto.LateCommitteeSize, proto.LateCommitteeThreshold
	case stepRedo:
		return proto.RedoCommitteeSize, proto.RedoCommitteeThreshold
	case stepDown:
		return proto.DownCommitteeSize, proto.DownCommitteeThreshold
	default:
		return proto.NextCommitteeSize, proto.NextCommitteeThreshold
	}
}

// StakeView is what the reference checker needs from "the ledger": in agreesim the stake table is
// static, so this is a pure function of the run's configuration and of committed block seeds.
type StakeView interface {
	RefAccount(addr basics.Address) (basics.OnlineAccountData, bool)
	RefTotal() basics.MicroAlgos
	RefSeed(r basics.Round) (committee.Seed, bool)
}

// RefVoteWeight independently validates one vote; returns its weight, or an error if invalid.
func RefVoteWeight(sv StakeView, v UVote) (uint64, error) {
	proto := params()
	rec, ok := sv.RefAccount(v.R.Sender)
	if !ok {
		return 0, fmt.Errorf("unknown sender")
	}
	if v.R.Round < rec.VoteFirstValid || (rec.VoteLastValid != 0 && v.R.Round > rec.VoteLastValid) {
		return 0, fmt.Errorf("outside key validity")
	}
	// Which values a step may carry: a vote for "no value" is meaningless in propose, soft and cert (a
	// certificate for bottom would certify nothing). The fast-recovery steps (late/redo/down) are next-
	// vote-like: honest nodes only ever vote a value in late/redo and bottom in down, but a signed vote
	// that does otherwise is still a genuine vote of that key - the property does not call it invalid, and
	// the code accepts it. (An earlier version of this reference rejected those: a false alarm found by
	// the thorough tier, see DESIGN.md 11.)
	switch v.R.Step {
	case stepPropose, stepSoft, stepCert:
		if v.R.Proposal.IsBottom() {
			return 0, fmt.Errorf("bottom not allowed in step %d", v.R.Step)
		}
	}
	if v.R.Step == stepPropose {
		if v.R.Period == v.R.Proposal.OriginalPeriod && v.R.Sender != v.R.Proposal.OriginalProposer {
			return 0, fmt.Errorf("proposal-vote sender mismatch")
		}
		if v.R.Proposal.OriginalPeriod > v.R.Period {
			return 0, fmt.Errorf("proposal-vote from the future period")
		}
	}
	dil := rec.VoteKeyDilution
	if dil == 0 {
		dil = proto.DefaultKeyDilution
	}
	id := basics.OneTimeIDForRound(v.R.Round, dil)
	if !rec.VoteID.Verify(id, v.R, v.Sig) {
		return 0, fmt.Errorf("bad one-time signature")
	}
	w, err := refCredWeight(sv, rec, v.R.Sender, v.R.Round, v.R.Period, v.R.Step, v.Cred.Proof)
	if err != nil {
		return 0, err
	}
	if w == 0 {
		return 0, fmt.Errorf("not selected (weight 0)")
	}
	return w, nil
}

// refCredWeight: committee weight of sender at (round, period, step) proven by a VRF proof (0 = not selected).
func refCredWeight(sv StakeView, rec basics.OnlineAccountData, sender basics.Address, r basics.Round, p, step uint64, proof crypto.VrfProof) (uint64, error) {
	proto := params()
	seedRound := r.SubSaturate(basics.Round(proto.SeedLookback))
	seed, ok := sv.RefSeed(seedRound)
	if !ok {
		return 0, fmt.Errorf("seed for round %d unknown to the reference", seedRound)
	}
	sel := selectorM{Seed: seed, Round: r, Period: p, Step: step}
	okv, out := rec.SelectionID.Verify(proof, sel)
	if !okv {
		return 0, fmt.Errorf("bad VRF proof")
	}
	var h crypto.Digest
	if proto.CredentialDomainSeparationEnabled {
		h = crypto.HashObj(hashableCredM{RawOut: out, Member: sender})
	} else {
		h = crypto.Hash(append(out[:], sender[:]...))
	}
	size, _ := stepCommittee(proto, step)
	money := rec.VotingStake().Raw
	total := sv.RefTotal().Raw
	var w uint64
	if money > 0 {
		if proto.EnableSelectF128 {
			w = sortition.SelectF128(money, total, size, sortition.Digest(h))
		} else {
			w = sortition.Select(money, total, float64(size), sortition.Digest(h))
		}
	}
	return w, nil
}

// RefBundleCheck independently decides whether a bundle proves a quorum for its own header.
// It returns the proven weight.
func RefBundleCheck(sv StakeView, b UBundle) (uint64, error) {
	proto := params()
	if b.Step == stepPropose {
		return 0, fmt.Errorf("propose-step bundle")
	}
	if b.Step == stepCert && b.Proposal.IsBottom() {
		return 0, fmt.Errorf("cert bundle for bottom")
	}
	seen := map[basics.Address]bool{}
	var total uint64
	for i, va := range b.Votes {
		if seen[va.Sender] {
			return 0, fmt.Errorf("vote %d: duplicate sender", i)
		}
		seen[va.Sender] = true
		uv := UVote{R: RawVote{Sender: va.Sender, Round: b.Round, Period: b.Period, Step: b.Step, Proposal: b.Proposal}, Cred: va.Cred, Sig: va.Sig}
		w, err := RefVoteWeight(sv, uv)
		if err != nil {
			return 0, fmt.Errorf("vote %d: %v", i, err)
		}
		total += w
	}
	for i, ea := range b.EquivocationVotes {
		if seen[ea.Sender] {
			return 0, fmt.Errorf("eqvote %d: duplicate sender", i)
		}
		seen[ea.Sender] = true
		if ea.Proposals[0] == ea.Proposals[1] {
			return 0, fmt.Errorf("eqvote %d: identical halves", i)
		}
		var w0 uint64
		for k := 0; k < 2; k++ {
			uv := UVote{R: RawVote{Sender: ea.Sender, Round: b.Round, Period: b.Period, Step: b.Step, Proposal: ea.Proposals[k]}, Cred: ea.Cred, Sig: ea.Sigs[k]}
			w, err := RefVoteWeight(sv, uv)
			if err != nil {
				return 0, fmt.Errorf("eqvote %d/%d: %v", i, k, err)
			}
			w0 = w
		}
		total += w0
	}
	_, thr := stepCommittee(proto, b.Step)
	if total < thr {
		return total, fmt.Errorf("weight %d below threshold %d", total, thr)
	}
	return total, nil
}

// bundleKey is the canonical semantic key of a bundle (header + sorted voters).
func bundleKey(b UBundle) string {
	var vs []string
	for _, v := range b.Votes {
		vs = append(vs, fmt.Sprintf("%x", v.Sender[:3]))
	}
	for _, v := range b.EquivocationVotes {
		vs = append(vs, fmt.Sprintf("%x*", v.Sender[:3]))
	}
	sort.Strings(vs)
	return fmt.Sprintf("r%d p%d s%d %s %v", b.Round, b.Period, b.Step, b.Proposal.Short(), vs)
}
