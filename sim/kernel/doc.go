// Package kernel is the shared deterministic-simulation kernel: decision tape, event log,
// violation records, tape shrinking. See DESIGN.md §2.
package kernel
