package kernel

import (
	"crypto/sha256"
	"encoding/hex"
	"fmt"
	"hash"
	"math/rand/v2"
)

// Decision is one recorded choice: kind, arity, chosen value. Value 0 is always the benign choice.
type Decision struct {
	K string `json:"k"`
	N int    `json:"n"`
	V int    `json:"v"`
}

// Tape is the single source of nondeterminism of a run (DESIGN.md §2.1).
// Fresh mode draws from a PCG seeded with the run seed and records; replay mode reads a recorded
// tape. In lenient replay (used while shrinking) a recorded value is reduced modulo the arity asked
// for and an exhausted tape yields 0, so every tape is a valid run. In strict replay a mismatch in
// (kind, arity) marks the tape as diverged.
type Tape struct {
	rng      *rand.Rand
	replay   []Decision
	pos      int
	isReplay bool
	strict   bool
	Rec      []Decision
	Diverged string
}

// SplitMix64 derives independent seeds.
func SplitMix64(x uint64) uint64 {
	x += 0x9e3779b97f4a7c15
	z := x
	z = (z ^ (z >> 30)) * 0xbf58476d1ce4e5b9
	z = (z ^ (z >> 27)) * 0x94d049bb133111eb
	return z ^ (z >> 31)
}

// DeriveSeed gives the seed of run k of an engine under a base seed.
func DeriveSeed(base uint64, engine string, k uint64) uint64 {
	h := sha256.Sum256([]byte(engine))
	var e uint64
	for i := 0; i < 8; i++ {
		e = e<<8 | uint64(h[i])
	}
	return SplitMix64(SplitMix64(base^e) + k)
}

func NewTape(seed uint64) *Tape {
	return &Tape{rng: rand.New(rand.NewPCG(seed, SplitMix64(seed)))}
}

func ReplayTape(ds []Decision, strict bool) *Tape {
	return &Tape{replay: ds, isReplay: true, strict: strict}
}

// Choose returns a value in [0,n). n<=1 returns 0 without consuming the tape.
func (t *Tape) Choose(kind string, n int) int {
	if n <= 1 {
		return 0
	}
	var v int
	if t.isReplay {
		if t.pos < len(t.replay) {
			d := t.replay[t.pos]
			t.pos++
			if t.strict && (d.K != kind || d.N != n) && t.Diverged == "" {
				t.Diverged = fmt.Sprintf("tape[%d]: recorded (%s,%d) but run asks (%s,%d)", t.pos-1, d.K, d.N, kind, n)
			}
			v = d.V % n
			if v < 0 {
				v = 0
			}
		} else {
			if t.strict && t.Diverged == "" {
				t.Diverged = fmt.Sprintf("tape exhausted at %d: run asks (%s,%d)", t.pos, kind, n)
			}
			v = 0
		}
	} else {
		v = t.rng.IntN(n)
	}
	t.Rec = append(t.Rec, Decision{kind, n, v})
	return v
}

// Chance is true with probability num/den; recorded value 0 means false (benign).
func (t *Tape) Chance(kind string, num, den int) bool {
	if num <= 0 {
		return false
	}
	if num >= den {
		return true
	}
	v := t.Choose(kind, den)
	return v >= den-num
}

// Range returns lo + Choose(hi-lo+1).
func (t *Tape) Range(kind string, lo, hi int) int {
	if hi <= lo {
		return lo
	}
	return lo + t.Choose(kind, hi-lo+1)
}

// Weighted picks an index with probability proportional to w[i]; w[0] should be the benign option.
func (t *Tape) Weighted(kind string, w []int) int {
	tot := 0
	for _, x := range w {
		if x > 0 {
			tot += x
		}
	}
	if tot == 0 {
		return 0
	}
	v := t.Choose(kind, tot)
	for i, x := range w {
		if x <= 0 {
			continue
		}
		if v < x {
			return i
		}
		v -= x
	}
	return 0
}

// Log is the canonical event log of a run; its digest is the interleaving identity.
type Log struct {
	h     hash.Hash
	Keep  bool
	Lines []string
	N     int
}

func NewLog(keep bool) *Log { return &Log{h: sha256.New(), Keep: keep} }

func (l *Log) Add(format string, args ...any) {
	s := fmt.Sprintf(format, args...)
	l.h.Write([]byte(s))
	l.h.Write([]byte{'\n'})
	l.N++
	if l.Keep {
		l.Lines = append(l.Lines, s)
	}
}

func (l *Log) Digest() string {
	return hex.EncodeToString(l.h.Sum(nil))[:32]
}

// Canon rewrites the recorded value of decision i (an index into Rec) to its canonical effective
// value. Engines call it so that a decision which had no effect is recorded as 0 (benign): the
// recorded tape then replays identically and its non-zero entries are exactly the non-benign choices.
func (t *Tape) Canon(i, v int) {
	if i >= 0 && i < len(t.Rec) {
		t.Rec[i].V = v
	}
}

// Exhausted reports, in replay mode, that the recorded tape has been consumed: everything drawn from
// now on is 0 (benign). Engines whose runs have a configured length may stop there, which keeps
// shrunk replays short. Always false for a fresh (PRNG-driven) tape.
func (t *Tape) Exhausted() bool { return t.isReplay && t.pos >= len(t.replay) }
