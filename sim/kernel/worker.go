package kernel

import (
	"encoding/json"
	"fmt"
	"os"
	"path/filepath"
	"runtime"
	"sort"
	"strconv"
	"strings"
	"sync"
	"syscall"
	"testing"
	"time"
)

// Violation is what an oracle reports.
type Violation struct {
	Property string `json:"property"`
	Oracle   string `json:"oracle"` // violation class: shrinking keeps (Property, Oracle) fixed
	Key      string `json:"key,omitempty"`
	Detail   string `json:"detail"`
	Step     int    `json:"step"`
}

// RunResult is what one simulated run reports.
type RunResult struct {
	Seed       uint64           `json:"seed"`
	Steps      int              `json:"steps"`
	Digest     string           `json:"digest"`
	Nontrivial bool             `json:"nontrivial"`
	SimMs      int64            `json:"sim_ms"`
	States     []string         `json:"-"` // distinct state digests seen in this run
	Stats      map[string]int64 `json:"stats,omitempty"`
	Sample     any              `json:"sample,omitempty"`
	Violation  *Violation       `json:"violation,omitempty"`
	Known      []Violation      `json:"known,omitempty"`         // violations matching known findings (reported, not failing)
	HarnessErr string           `json:"harness_error,omitempty"` // exit 2 material, never a violation
	Tape       []Decision       `json:"-"`
	LogLines   []string         `json:"-"`
}

// Replay is the replay file format (DESIGN.md §2.6).
type Replay struct {
	Engine    string     `json:"engine"`
	Property  string     `json:"property"`
	Tier      string     `json:"tier"`
	Seed      uint64     `json:"seed"`
	Tape      []Decision `json:"tape"`
	Violation Violation  `json:"violation"`
	Digest    string     `json:"digest"`
	OrigLen   int        `json:"original_tape_len"`
	SeedOnly  bool       `json:"seed_only,omitempty"` // no tape recorded (the process died): replay re-runs the seed
	Log       []string   `json:"event_log_tail,omitempty"`
}

// Engine is implemented by each simulation engine.
type Engine interface {
	Name() string
	// Run performs one complete simulated run deciding property prop, drawing every choice from tape.
	Run(t *testing.T, prop, tier string, tape *Tape, keepLog bool) *RunResult
}

// WorkerSummary is written by each worker process for the driver.
type WorkerSummary struct {
	Engine      string           `json:"engine"`
	Property    string           `json:"property"`
	Worker      int              `json:"worker"`
	Evaluations int              `json:"evaluations"`
	Nontrivial  []string         `json:"nontrivial_digests"`
	States      int              `json:"distinct_states"`
	StateSet    []string         `json:"state_set,omitempty"`
	Steps       int64            `json:"steps"`
	SimMs       int64            `json:"sim_ms"`
	WallS       float64          `json:"wall_s"`
	Stats       map[string]int64 `json:"stats"`
	Samples     []any            `json:"samples"`
	Violations  []string         `json:"violation_files"`
	Known       []Violation      `json:"known"`
	HarnessErr  string           `json:"harness_error,omitempty"`
	Seeds       []uint64         `json:"first_seeds"`
}

// KnownKey reports whether (prop, key) is listed as an OPEN known finding (the driver passes the list in
// VERIF_KNOWN_KEYS as "C07/key1,C15/key2"). Engines use it to record such a violation in
// RunResult.Known and carry on exploring instead of stopping at it; anything not listed is a VIOLATION.
func KnownKey(prop, key string) bool {
	if key == "" {
		return false
	}
	if replayDemonstrates(prop, key) {
		return false // replaying the recorded demonstration of this very finding: show it as the violation it is
	}
	for _, k := range strings.Split(os.Getenv("VERIF_KNOWN_KEYS"), ",") {
		if k == prop+"/"+key {
			return true
		}
	}
	return false
}

var replayKey struct {
	once      sync.Once
	prop, key string
}

// replayDemonstrates: the worker is replaying a file (VERIF_REPLAY) whose recorded violation is (prop, key).
func replayDemonstrates(prop, key string) bool {
	replayKey.once.Do(func() {
		f := os.Getenv("VERIF_REPLAY")
		if f == "" {
			return
		}
		b, err := os.ReadFile(f)
		if err != nil {
			return
		}
		var r struct {
			Violation *struct {
				Property string `json:"property"`
				Key      string `json:"key"`
			} `json:"violation"`
		}
		if json.Unmarshal(b, &r) == nil && r.Violation != nil {
			replayKey.prop, replayKey.key = r.Violation.Property, r.Violation.Key
		}
	})
	return replayKey.key != "" && replayKey.prop == prop && replayKey.key == key
}

// RealNow returns the real wall clock in nanoseconds even inside a testing/synctest bubble (where
// time.Now() is the fake clock): it asks the kernel directly.
func RealNow() int64 {
	var tv syscall.Timeval
	syscall.Gettimeofday(&tv)
	return int64(tv.Sec)*1e9 + int64(tv.Usec)*1e3
}

var hardStopAt int64

// PastHardStop reports whether the worker's exploration budget (plus a grace period) is used up.
// Engines with long runs poll it in their step loop and end the current run early (counted in the
// stats as run_cut_by_budget); it never turns into a verdict.
func PastHardStop() bool { return hardStopAt != 0 && RealNow() > hardStopAt }

func envInt(name string, def int) int {
	if s := os.Getenv(name); s != "" {
		if v, err := strconv.Atoi(s); err == nil {
			return v
		}
	}
	return def
}

// WorkerMain is the body of every engine's TestWorker.
// Environment: VERIF_PROP, VERIF_TIER, VERIF_SEED, VERIF_WORKER, VERIF_NWORKERS, VERIF_BUDGET_S,
// VERIF_MAXRUNS, VERIF_OUT, VERIF_REPLAY (replay a file instead), VERIF_DUMPLOG (determinism test).
func WorkerMain(t *testing.T, e Engine) {
	prop := os.Getenv("VERIF_PROP")
	if prop == "" {
		t.Skip("VERIF_PROP not set (this test is the simulation worker, run by /verif/check)")
	}
	tier := os.Getenv("VERIF_TIER")
	if tier == "" {
		tier = "quick"
	}
	out := os.Getenv("VERIF_OUT")
	if out == "" {
		out = "."
	}
	if rp := os.Getenv("VERIF_REPLAY"); rp != "" {
		replayFile(t, e, rp, out)
		return
	}
	base := uint64(envInt("VERIF_SEED", 1))
	w := envInt("VERIF_WORKER", 0)
	nw := envInt("VERIF_NWORKERS", 1)
	budget := time.Duration(envInt("VERIF_BUDGET_S", 20)) * time.Second
	maxRuns := envInt("VERIF_MAXRUNS", 1<<30)
	dump := os.Getenv("VERIF_DUMPLOG") != ""
	start := time.Now()
	if os.Getenv("VERIF_DUMPLOG") == "" { // determinism runs must never be cut short
		hardStopAt = RealNow() + int64(budget) + int64(45*time.Second)
	}
	sum := &WorkerSummary{Engine: e.Name(), Property: prop, Worker: w, Stats: map[string]int64{}}
	nontriv := map[string]bool{}
	states := map[string]bool{}
	// Worker recycling: goroutines that a finished run leaves blocked for ever inside its (ended) bubble keep that
	// run's ledgers reachable, so a long-lived worker grows by up to a gigabyte per minute (a 1500 s ledgersim worker
	// was OOM-killed at 37 GB). A worker therefore stops taking new runs once the Go runtime holds more than
	// VERIF_MEM_MB (default 2500) and reports it; the driver starts a fresh wave of workers for the rest of the
	// budget, continuing the seed sequence at VERIF_START runs per worker.
	memCapMB := envInt("VERIF_MEM_MB", 2500)
	first := envInt("VERIF_START", 0)
	for k := w + first*nw; k < (first+maxRuns)*nw; k += nw {
		if time.Since(start) > budget {
			break
		}
		if !dump && sum.Evaluations > 0 {
			var ms runtime.MemStats
			runtime.ReadMemStats(&ms)
			if ms.Sys > uint64(memCapMB)<<20 {
				sum.Stats["worker_recycled_for_memory"] = 1
				break
			}
		}
		seed := DeriveSeed(base, e.Name()+"/"+prop+"/"+tier, uint64(k))
		// breadcrumb: if the system under test panics and takes the process down, the driver still
		// knows which seed to report
		cur, _ := json.Marshal(Replay{Engine: e.Name(), Property: prop, Tier: tier, Seed: seed, SeedOnly: true})
		os.WriteFile(filepath.Join(out, fmt.Sprintf("current-%d.json", w)), cur, 0o644)
		tape := NewTape(seed)
		res := e.Run(t, prop, tier, tape, dump)
		res.Seed = seed
		sum.Evaluations++
		sum.Steps += int64(res.Steps)
		sum.SimMs += res.SimMs
		if len(sum.Seeds) < 8 {
			sum.Seeds = append(sum.Seeds, seed)
		}
		for k2, v := range res.Stats {
			sum.Stats[k2] += v
		}
		if res.Nontrivial {
			nontriv[res.Digest] = true
		}
		for _, s := range res.States {
			states[s] = true
		}
		if res.Sample != nil && len(sum.Samples) < 2 {
			sum.Samples = append(sum.Samples, res.Sample)
		}
		sum.Known = append(sum.Known, res.Known...)
		if dump {
			f := filepath.Join(out, fmt.Sprintf("log-%d-%d.txt", w, k))
			os.WriteFile(f, []byte(fmt.Sprintf("seed=%d digest=%s steps=%d\n%s", seed, res.Digest, res.Steps, joinLines(res.LogLines))), 0o644)
		}
		if res.HarnessErr != "" {
			sum.HarnessErr = fmt.Sprintf("seed %d: %s", seed, res.HarnessErr)
			break
		}
		if res.Violation != nil {
			file := filepath.Join(out, fmt.Sprintf("violation-%s-%d.json", prop, seed))
			rep := minimise(t, e, prop, tier, seed, res)
			b, _ := json.MarshalIndent(rep, "", " ")
			os.WriteFile(file, b, 0o644)
			sum.Violations = append(sum.Violations, file)
			break
		}
	}
	for d := range nontriv {
		sum.Nontrivial = append(sum.Nontrivial, d)
	}
	sort.Strings(sum.Nontrivial)
	sum.States = len(states)
	if len(states) <= 20000 {
		for s := range states {
			sum.StateSet = append(sum.StateSet, s)
		}
		sort.Strings(sum.StateSet)
	}
	sum.WallS = time.Since(start).Seconds()
	b, _ := json.Marshal(sum)
	os.WriteFile(filepath.Join(out, fmt.Sprintf("worker-%d.json", w)), b, 0o644)
}

func joinLines(ls []string) string {
	n := 0
	for _, l := range ls {
		n += len(l) + 1
	}
	b := make([]byte, 0, n)
	for _, l := range ls {
		b = append(b, l...)
		b = append(b, '\n')
	}
	return string(b)
}

// minimise shrinks the failing tape while the same violation class persists.
func minimise(t *testing.T, e Engine, prop, tier string, seed uint64, res *RunResult) *Replay {
	orig := res.Tape
	class := res.Violation.Oracle + "|" + res.Violation.Key
	runs := 0
	maxRuns := envInt("VERIF_SHRINK_RUNS", 400)
	deadline := time.Now().Add(time.Duration(envInt("VERIF_SHRINK_S", 150)) * time.Second)
	fails := func(ds []Decision) bool {
		if runs >= maxRuns || time.Now().After(deadline) {
			return false
		}
		runs++
		r := e.Run(t, prop, tier, ReplayTape(ds, false), false)
		return r.Violation != nil && r.Violation.Oracle+"|"+r.Violation.Key == class && r.HarnessErr == ""
	}
	best := Shrink(orig, fails)
	fmt.Fprintf(os.Stderr, "shrink: %d -> %d decisions in %d runs\n", len(orig), len(best), runs)
	// Re-run the minimised tape once more, recording the exact tape it consumes, for strict replay.
	final := e.Run(t, prop, tier, ReplayTape(best, false), true)
	rep := &Replay{Engine: e.Name(), Property: prop, Tier: tier, Seed: seed, OrigLen: len(orig)}
	if final.Violation != nil && final.Violation.Oracle+"|"+final.Violation.Key == class {
		rep.Tape = final.Tape
		rep.Violation = *final.Violation
		rep.Digest = final.Digest
		rep.Log = tail(final.LogLines, 60)
	} else {
		// shrinking was not stable: fall back to the original tape (always reproduces).
		again := e.Run(t, prop, tier, ReplayTape(orig, true), true)
		rep.Tape = orig
		rep.Violation = *res.Violation
		rep.Digest = again.Digest
		rep.Log = tail(again.LogLines, 60)
	}
	return rep
}

func tail(s []string, n int) []string {
	if len(s) <= n {
		return s
	}
	return s[len(s)-n:]
}

// Shrink minimises a decision tape. Engines emit rectangular tapes: a configuration prefix
// (kinds "cfg.*") followed by steps that each start with a decision of kind "step.fault" and consume
// a fixed number of decisions, so steps can be deleted and faults zeroed without misaligning the
// rest. Passes: (1) truncate whole steps from the end, (2) zero fault decisions (ddmin), (3) delete
// chunks of whole steps (ddmin), (4) zero the remaining scheduling decisions chunk-wise.
func Shrink(orig []Decision, fails func([]Decision) bool) []Decision {
	best := append([]Decision(nil), orig...)
	stepStarts := func(t []Decision) []int {
		var st []int
		for i, d := range t {
			if d.K == "step.fault" {
				st = append(st, i)
			}
		}
		return st
	}
	// 1. truncate steps from the end
	for {
		st := stepStarts(best)
		if len(st) < 2 {
			break
		}
		progressed := false
		for cut := len(st) / 2; cut >= 1; cut /= 2 {
			st = stepStarts(best)
			if cut >= len(st) {
				continue
			}
			cand := append([]Decision(nil), best[:st[len(st)-cut]]...)
			if fails(cand) {
				best = cand
				progressed = true
				break
			}
		}
		if !progressed {
			break
		}
	}
	// 2. zero fault decisions: first all-but-chunks (ddmin style)
	faultIdx := func(t []Decision) []int {
		var ix []int
		for i, d := range t {
			if d.K == "step.fault" && d.V != 0 {
				ix = append(ix, i)
			}
		}
		return ix
	}
	for size := (len(faultIdx(best)) + 1) / 2; size >= 1; size /= 2 {
		ix := faultIdx(best)
		for i := 0; i < len(ix); i += size {
			cand := append([]Decision(nil), best...)
			any := false
			for j := i; j < i+size && j < len(ix); j++ {
				if cand[ix[j]].V != 0 {
					cand[ix[j]].V = 0
					any = true
				}
			}
			if any && fails(cand) {
				best = cand
			}
		}
		if size == 1 {
			break
		}
	}
	// 3. delete chunks of whole steps
	for frac := 2; ; frac *= 2 {
		st := stepStarts(best)
		size := len(st) / frac
		if size < 1 {
			break
		}
		for i := 0; i+size <= len(stepStarts(best)); {
			st = stepStarts(best)
			from := st[i]
			to := len(best)
			if i+size < len(st) {
				to = st[i+size]
			}
			cand := append(append([]Decision(nil), best[:from]...), best[to:]...)
			if fails(cand) {
				best = cand
			} else {
				i += size
			}
		}
		if size == 1 {
			break
		}
	}
	// 4. zero other non-zero decisions chunk-wise (reorder -> FIFO etc.), skipping the cfg prefix
	for size := len(best) / 2; size >= 4; size /= 2 {
		for i := 0; i+size <= len(best); i += size {
			cand := append([]Decision(nil), best...)
			any := false
			for j := i; j < i+size; j++ {
				if cand[j].V != 0 && len(cand[j].K) > 5 && cand[j].K[:5] == "step." && cand[j].K != "step.fault" {
					cand[j].V = 0
					any = true
				}
			}
			if any && fails(cand) {
				best = cand
			}
		}
	}
	// 5. zero single remaining non-zero step decisions (keeps op lists of sequence engines tight)
	for i := len(best) - 1; i >= 0; i-- {
		if best[i].V == 0 || len(best[i].K) < 5 || best[i].K[:5] != "step." {
			continue
		}
		cand := append([]Decision(nil), best...)
		cand[i].V = 0
		if fails(cand) {
			best = cand
		}
	}
	return best
}

func replayFile(t *testing.T, e Engine, path, out string) {
	b, err := os.ReadFile(path)
	if err != nil {
		t.Fatalf("HARNESS: cannot read replay file: %v", err)
	}
	var rep Replay
	if err := json.Unmarshal(b, &rep); err != nil {
		t.Fatalf("HARNESS: bad replay file: %v", err)
	}
	if os.Getenv("VERIF_RESHRINK") != "" {
		r0 := e.Run(t, rep.Property, rep.Tier, ReplayTape(rep.Tape, false), false)
		if r0.Violation == nil {
			t.Fatalf("HARNESS: replay does not reproduce; cannot re-shrink")
		}
		r0.Tape = rep.Tape
		nr := minimise(t, e, rep.Property, rep.Tier, rep.Seed, r0)
		b, _ := json.MarshalIndent(nr, "", " ")
		os.WriteFile(filepath.Join(out, "reshrunk.json"), b, 0o644)
		return
	}
	tp := ReplayTape(rep.Tape, true)
	if rep.SeedOnly {
		tp = NewTape(rep.Seed)
	}
	res := e.Run(t, rep.Property, rep.Tier, tp, true)
	status := map[string]any{"digest": res.Digest, "expected_digest": rep.Digest, "diverged": tp.Diverged}
	if res.Violation == nil {
		// On a tree where the violation is gone the run necessarily leaves the recorded path; that is
		// "did not reproduce", not a harness problem.
		status["diverged"] = ""
	}
	if res.HarnessErr != "" {
		status["diverged"] = "harness error: " + res.HarnessErr
	}
	if res.Violation != nil {
		status["violation"] = res.Violation
		status["reproduced"] = res.Violation.Oracle == rep.Violation.Oracle
	} else {
		status["reproduced"] = false
	}
	if lf := os.Getenv("VERIF_REPLAY_LOG"); lf != "" {
		os.WriteFile(lf, []byte(joinLines(res.LogLines)), 0o644)
	}
	status["same_digest"] = res.Digest == rep.Digest
	status["log_tail"] = tail(res.LogLines, 40)
	jb, _ := json.MarshalIndent(status, "", " ")
	os.WriteFile(filepath.Join(out, "replay-result.json"), jb, 0o644)
}
