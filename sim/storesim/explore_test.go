package storesim

import (
	"context"
	"fmt"
	"io"
	"os"
	"testing"

	"github.com/algorand/go-algorand/config"
	"github.com/algorand/go-algorand/data/basics"
	"github.com/algorand/go-algorand/ledger/store/trackerdb"
	"github.com/algorand/go-algorand/ledger/store/trackerdb/pebbledbdriver"
	"github.com/algorand/go-algorand/ledger/store/trackerdb/sqlitedriver"
	"github.com/algorand/go-algorand/logging"
	"github.com/algorand/go-algorand/protocol"
)

func TestExplore(t *testing.T) {
	if os.Getenv("EXPLORE") == "" {
		t.Skip()
	}
	dir, _ := os.MkdirTemp("/dev/shm", "explore-")
	defer os.RemoveAll(dir)
	log := logging.NewLogger()
	log.SetOutput(io.Discard)
	proto := config.Consensus[protocol.ConsensusCurrentVersion]
	sq, err := sqlitedriver.Open(dir+"/t.sqlite", false, log)
	if err != nil {
		t.Fatal(err)
	}
	pb, err := pebbledbdriver.Open(dir+"/pb", false, proto, log)
	if err != nil {
		t.Fatal(err)
	}
	for name, st := range map[string]trackerdb.Store{"sqlite": sq, "pebble": pb} {
		params := trackerdb.Params{InitProto: protocol.ConsensusCurrentVersion}
		err := st.Transaction(func(ctx context.Context, tx trackerdb.TransactionScope) error {
			_, err := tx.RunMigrations(ctx, params, log, trackerdb.AccountDBVersion)
			return err
		})
		fmt.Println(name, "migrate", err)
		err = st.Transaction(func(ctx context.Context, tx trackerdb.TransactionScope) error {
			w, err := tx.MakeAccountsOptimizedWriter(true, true, true, true)
			if err != nil {
				return err
			}
			for _, k := range []string{"bx:a", "bx:ab", "bx:b", "bx:", "bw:z"} {
				if err := w.UpsertKvPair(k, []byte("v"+k)); err != nil {
					return err
				}
			}
			aw, _ := tx.MakeAccountsWriter()
			return aw.UpdateAccountsRound(3)
		})
		fmt.Println(name, "write", err)
		r, _ := st.MakeAccountsOptimizedReader()
		res := map[string]bool{}
		rnd, err := r.LookupKeysByPrefix("bx:", 100, res, 0)
		fmt.Println(name, "LookupKeysByPrefix", rnd, err, res)
		rnd, kvs, more, err := r.LookupKeysByPrefixCursor("bx:", "", 2, 0, true, nil)
		fmt.Println(name, "Cursor", rnd, kvs, more, err)
		pv, err := r.LookupKeyValue("bx:a")
		fmt.Println(name, "LookupKeyValue", pv, err)
		var a basics.Address
		a[0] = 1
		or, _ := st.MakeOnlineAccountsOptimizedReader()
		d, err := or.LookupOnline(a, 255)
		fmt.Println(name, "LookupOnline", d.Ref, d.Round, err)
	}
	sq.Close()
	pb.Close()
}
