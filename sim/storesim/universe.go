// Package storesim applies one seeded operation sequence to a real SQLite-backed and a real
// Pebble-backed trackerdb.Store (both on files) and compares every answer (DESIGN.md §4 C47).
package storesim

import (
	"crypto/sha256"
	"encoding/binary"
	"encoding/hex"
	"fmt"

	"github.com/algorand/go-algorand/config"
	"github.com/algorand/go-algorand/data/basics"
	"github.com/algorand/go-algorand/ledger/ledgercore"
	"github.com/algorand/go-algorand/ledger/store/trackerdb"
	"github.com/algorand/go-algorand/protocol"
)

// Proto is the consensus version both stores are opened under (what openLedgerDB passes to Pebble).
var Proto = protocol.ConsensusCurrentVersion

func proto() config.ConsensusParams { return config.Consensus[Proto] }

// ---- addresses: 8, with shared prefixes and bytes equal to the KV schema's separators ('-' 0x2d, '.' 0x2e).
const nAddr = 8

var addrs [nAddr]basics.Address

func init() {
	addrs[0][0] = 0x01
	addrs[1][0] = 0x01
	addrs[1][31] = 0x01
	for i := range addrs[2] {
		addrs[2][i] = 0xff
	}
	for i := range addrs[3] {
		addrs[3][i] = '-'
	}
	for i := range addrs[4] {
		addrs[4][i] = '.'
	}
	addrs[5][31] = 0x02
	for i := range addrs[6] {
		addrs[6][i] = 0xff
	}
	addrs[6][0] = 0xfe
	for i := range addrs[7] {
		addrs[7][i] = byte("-."[i%2])
	}
}

func addrName(a basics.Address) string {
	for i := range addrs {
		if addrs[i] == a {
			return fmt.Sprintf("A%d", i)
		}
	}
	return "A?" + hex.EncodeToString(a[:4])
}

// ---- creatable indexes (big-endian byte boundaries on purpose); type fixed per index as in the ledger
var cidxs = []basics.CreatableIndex{1, 2, 3, 255, 256, 65536}

func ctypeOf(c basics.CreatableIndex) basics.CreatableType {
	switch c {
	case 1, 3, 256:
		return basics.AssetCreatable
	}
	return basics.AppCreatable
}

// ---- box keys: "bx:" + 8-byte big-endian app id + name (apps.MakeBoxKey layout)
func boxKey(app uint64, name string) string {
	var b [8]byte
	binary.BigEndian.PutUint64(b[:], app)
	return "bx:" + string(b[:]) + name
}

var kvKeys = []string{
	boxKey(1, ""), boxKey(1, "a"), boxKey(1, "ab"), boxKey(1, "a\x00"), boxKey(1, "a\xff"), boxKey(1, "b"), boxKey(1, "\xff"), boxKey(1, "\xff\xff"),
	boxKey(2, ""), boxKey(2, "a"), boxKey(255, "a"), boxKey(256, "a"),
}

// prefixes the API layer could ask for (always start with "bx:"), including ones equal to stored keys,
// ones ending in 0xff (carry in the upper bound) and ones matching nothing.
var kvPrefixes = []string{
	"bx:", boxKey(1, ""), boxKey(1, "a"), boxKey(1, "a\xff"), boxKey(1, "\xff"), boxKey(2, ""), boxKey(1, "ab"),
	boxKey(1, "")[:10], boxKey(255, ""), boxKey(3, ""), boxKey(1, "\xff\xff"), boxKey(256, "")[:9],
}

var kvCursors = []string{"", boxKey(1, ""), boxKey(1, "a"), boxKey(1, "aa"), boxKey(1, "a\xff"), boxKey(1, "\xff\xff"), boxKey(2, ""), boxKey(0, "zz"), boxKey(256, "a")}

var kvValues = [][]byte{{}, []byte("v1"), []byte("v2"), []byte("xxxxxxxxxxxxxxxxxxxxxxxxxxxxxxxxxxxxxxxx"), {0}}

func keyName(k string) string {
	for i, x := range kvKeys {
		if x == k {
			return fmt.Sprintf("k%d", i)
		}
	}
	return fmt.Sprintf("%q", k)
}

// ---- values
func mkAccount(v int, rnd uint64) trackerdb.BaseAccountData {
	var d trackerdb.BaseAccountData
	d.UpdateRound = rnd
	switch v % 6 {
	case 0:
		d.Status = basics.Offline
		d.MicroAlgos.Raw = 1_000_000
	case 1:
		d.Status = basics.Offline
		d.MicroAlgos.Raw = uint64(2_000_000 + v)
		d.RewardsBase = 3
		d.TotalAssets = 1
	case 2:
		d.Status = basics.NotParticipating
		d.MicroAlgos.Raw = 5
		d.AuthAddr = addrs[v%nAddr]
	case 3:
		d.Status = basics.Online
		d.MicroAlgos.Raw = 7_000_000
		d.VoteID[0] = byte(v)
		d.SelectionID[1] = byte(v >> 3)
		d.VoteFirstValid = 1
		d.VoteLastValid = basics.Round(rnd + 100)
		d.VoteKeyDilution = 10
		d.IncentiveEligible = true
	case 4:
		// an account whose only non-zero field is a total: not empty
		d.TotalBoxes = 1
		d.TotalBoxBytes = uint64(v)
	case 5:
		d.Status = basics.Offline
		d.MicroAlgos.Raw = 1
		d.RewardedMicroAlgos.Raw = 2
		d.LastProposed = basics.Round(rnd)
		d.LastHeartbeat = basics.Round(rnd)
	}
	return d
}

func mkResource(c basics.CreatableIndex, v int, rnd uint64) trackerdb.ResourcesData {
	d := trackerdb.MakeResourcesData(rnd)
	if ctypeOf(c) == basics.AssetCreatable {
		switch v % 4 {
		case 0:
			d.SetAssetHolding(basics.AssetHolding{Amount: uint64(v)})
		case 1:
			d.SetAssetHolding(basics.AssetHolding{}) // opted in, zero balance: "empty asset" flag
		case 2:
			d.SetAssetHolding(basics.AssetHolding{Amount: 9, Frozen: true})
			d.SetAssetParams(basics.AssetParams{Total: uint64(100 + v), UnitName: "u", Manager: addrs[v%nAddr]}, true)
		case 3:
			d.SetAssetParams(basics.AssetParams{Total: 7, Decimals: 2, AssetName: "n"}, false)
		}
	} else {
		switch v % 4 {
		case 0:
			d.SetAppLocalState(basics.AppLocalState{Schema: basics.StateSchema{NumUint: 1}, KeyValue: basics.TealKeyValue{"k": basics.TealValue{Type: basics.TealUintType, Uint: uint64(v)}}})
		case 1:
			d.SetAppLocalState(basics.AppLocalState{}) // opted in, nothing stored: "empty app" flag
		case 2:
			d.SetAppParams(basics.AppParams{ApprovalProgram: []byte{1, byte(v)}, ClearStateProgram: []byte{1}}, false)
		case 3:
			d.SetAppLocalState(basics.AppLocalState{Schema: basics.StateSchema{NumByteSlice: 2}})
			d.SetAppParams(basics.AppParams{ApprovalProgram: []byte{2}, ClearStateProgram: []byte{2}, GlobalState: basics.TealKeyValue{"g": basics.TealValue{Type: basics.TealBytesType, Bytes: "b"}}}, true)
		}
	}
	return d
}

// online account data; balances repeat on purpose so that the (balance, address) tie-break matters
func mkOnline(v int, rnd uint64) trackerdb.BaseOnlineAccountData {
	var d trackerdb.BaseOnlineAccountData
	d.VoteID[0] = byte(1 + v%5)
	d.SelectionID[0] = byte(v % 3)
	d.VoteFirstValid = 1
	d.VoteKeyDilution = 7
	switch v % 5 {
	case 0:
		d.VoteLastValid = basics.Round(rnd + 3)
	case 1:
		d.VoteLastValid = basics.Round(rnd + 8)
	case 2:
		d.VoteLastValid = basics.Round(rnd + 300)
	case 3:
		d.VoteLastValid = basics.Round(rnd + 70000)
	case 4:
		d.VoteLastValid = basics.Round(rnd)
	}
	switch (v / 5) % 5 {
	case 0, 1:
		d.MicroAlgos.Raw = 2_000_000
	case 2:
		d.MicroAlgos.Raw = 5_000_000
	case 3:
		d.MicroAlgos.Raw = 1_000_000
		d.RewardsBase = 10
	case 4:
		d.MicroAlgos.Raw = 300 // below one reward unit
		d.IncentiveEligible = true
		d.LastHeartbeat = basics.Round(rnd)
	}
	return d
}

func mkParams(rnd uint64, v int) ledgercore.OnlineRoundParamsData {
	return ledgercore.OnlineRoundParamsData{OnlineSupply: 1000 + rnd*3 + uint64(v%7), RewardsLevel: rnd / 2, CurrentProtocol: Proto}
}

func mkTxTail(rnd uint64, v int) []byte {
	var t trackerdb.TxTailRound
	t.Hdr.Round = basics.Round(rnd)
	t.Hdr.TimeStamp = int64(v % 5)
	for i := 0; i < v%3; i++ {
		var id [32]byte
		binary.BigEndian.PutUint64(id[:], rnd*8+uint64(i))
		t.TxnIDs = append(t.TxnIDs, id)
		t.LastValid = append(t.LastValid, basics.Round(rnd+uint64(i)+1))
	}
	return protocol.Encode(&t)
}

func mkTotals(rnd uint64, v int) ledgercore.AccountTotals {
	var t ledgercore.AccountTotals
	t.Online.Money.Raw = 10_000 + rnd
	t.Online.RewardUnits = uint64(v % 9)
	t.Offline.Money.Raw = uint64(v)
	t.NotParticipating.Money.Raw = rnd
	t.RewardsLevel = rnd / 2
	return t
}

func mkSPCtx(last uint64, v int) ledgercore.StateProofVerificationContext {
	return ledgercore.StateProofVerificationContext{LastAttestedRound: basics.Round(last), VotersCommitment: []byte{byte(v), byte(last)}, OnlineTotalWeight: basics.MicroAlgos{Raw: 100 + last}, Version: Proto}
}

// short digest of any printable value, appended to hand-formatted lines so that no field is ever lost
func h8(v any) string {
	s := sha256.Sum256([]byte(fmt.Sprintf("%#v", v)))
	return hex.EncodeToString(s[:4])
}

func hx(b []byte) string {
	if b == nil {
		return "nil"
	}
	if len(b) == 0 {
		return "empty"
	}
	if len(b) > 24 {
		s := sha256.Sum256(b)
		return fmt.Sprintf("%x..(%d,%x)", b[:8], len(b), s[:4])
	}
	return hex.EncodeToString(b)
}
