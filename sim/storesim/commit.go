package storesim

import (
	"context"
	"errors"
	"fmt"
	"sort"
	"strings"

	"github.com/algorand/go-algorand/data/basics"
	"github.com/algorand/go-algorand/ledger/ledgercore"
	"github.com/algorand/go-algorand/ledger/store/trackerdb"
	"github.com/algorand/go-algorand/protocol"
)

// commitPlan is one tracker commit (ledger/tracker.go commitRound): one store transaction in which
// accountUpdates, onlineAccounts, txTail and the state-proof verification tracker write what a range of
// rounds changed, followed by UpdateAccountsRound. The plan is the "deltas"; each backend is driven through it
// the way ledger/acctdeltas.go drives a store (old values loaded through the store first).
type acctDelta struct {
	a        int
	data     trackerdb.BaseAccountData // IsEmpty() = account closed
	useCache bool                      // take the ref from the baseAccounts cache if present (else LookupAccount in the tx)
}

type resDelta struct {
	a    int
	c    basics.CreatableIndex
	data trackerdb.ResourcesData // IsEmpty() = resource deleted
}

type kvDelta struct {
	key string
	val []byte // nil = deleted
}

type creatDelta struct {
	c       basics.CreatableIndex
	created bool
	creator int
}

type onlDelta struct {
	a      int
	upd    uint64
	online bool
	data   trackerdb.BaseOnlineAccountData
}

type commitPlan struct {
	oldBase, newBase uint64
	accts            []acctDelta
	res              []resDelta
	kvs              []kvDelta
	creat            []creatDelta
	onl              []onlDelta
	onlFB            uint64 // OnlineAccountsDelete / AccountsPruneOnlineRoundParams argument
	params           []ledgercore.OnlineRoundParamsData
	tails            [][]byte
	tailFB           uint64
	totals           ledgercore.AccountTotals
	stagingTotals    *ledgercore.AccountTotals
	spStore          []ledgercore.StateProofVerificationContext
	spDeleteBefore   uint64
	spDelete         bool
	jump             bool // the setup commit that moves the fresh store to the run's base round
	mode             int  // how the transaction is run
	rollback         bool
	batch            bool // write-only Batch scope instead of a Transaction (kv + creatables + totals only)
}

const (
	modeFn       = iota // store.Transaction(fn) (TransactionWithRetryClearFn in tracker.go: same path)
	modeExplicit        // BeginTransaction ... Commit / Close
)

var errInjected = errors.New("storesim: injected commit failure")

func (p *commitPlan) describe() string {
	var parts []string
	for _, d := range p.accts {
		if d.data.IsEmpty() {
			parts = append(parts, fmt.Sprintf("acct A%d close", d.a))
		} else {
			parts = append(parts, fmt.Sprintf("acct A%d=%s cache=%v", d.a, encAcct(d.data), d.useCache))
		}
	}
	for _, d := range p.res {
		if d.data.IsEmpty() {
			parts = append(parts, fmt.Sprintf("res A%d/%d del", d.a, d.c))
		} else {
			parts = append(parts, fmt.Sprintf("res A%d/%d=%s", d.a, d.c, encRes(d.data)))
		}
	}
	for _, d := range p.kvs {
		parts = append(parts, fmt.Sprintf("kv %s=%s", keyName(d.key), hx(d.val)))
	}
	for _, d := range p.creat {
		parts = append(parts, fmt.Sprintf("creatable %d created=%v by A%d", d.c, d.created, d.creator))
	}
	for _, d := range p.onl {
		parts = append(parts, fmt.Sprintf("online A%d@%d on=%v %s", d.a, d.upd, d.online, encOnl(d.data)))
	}
	for _, c := range p.spStore {
		parts = append(parts, fmt.Sprintf("spctx %d", c.LastAttestedRound))
	}
	if p.spDelete {
		parts = append(parts, fmt.Sprintf("spdelete<%d", p.spDeleteBefore))
	}
	if p.stagingTotals != nil {
		parts = append(parts, "staging-totals")
	}
	kind := "commit"
	if p.batch {
		kind = "batch"
	}
	return fmt.Sprintf("%s %d->%d mode=%d rollback=%v onlFB=%d tailFB=%d nparams=%d ntails=%d [%s]", kind, p.oldBase, p.newBase, p.mode, p.rollback, p.onlFB, p.tailFB, len(p.params), len(p.tails), strings.Join(parts, "; "))
}

// refUpdate is what postCommit does to the baseAccounts cache.
type refUpdate struct {
	a   int
	ref trackerdb.AccountRef
}

// runCommit drives one backend through the plan. It returns the transcript of everything the store
// answered, and the ref-cache updates to apply if the transaction committed.
func (b *backend) runCommit(p *commitPlan) (out []string, committed bool) {
	var upd []refUpdate
	defer func() {
		if r := recover(); r != nil {
			out = append(out, fmt.Sprintf("PANIC %v", r))
			committed = false
		}
		if committed {
			for _, u := range upd {
				if u.ref == nil {
					delete(b.refs, u.a)
				} else {
					b.refs[u.a] = u.ref
				}
			}
		}
	}()
	ctx := context.Background()
	body := func(tx trackerdb.TransactionScope) error {
		lines, u, err := b.commitBody(ctx, tx, p)
		out = append(out, lines...)
		upd = u
		if err != nil {
			return err
		}
		if p.rollback {
			return errInjected
		}
		return nil
	}
	var err error
	switch {
	case p.batch:
		err = b.store.Batch(func(ctx context.Context, tx trackerdb.BatchScope) error {
			lines, berr := b.batchBody(ctx, tx, p)
			out = append(out, lines...)
			if berr != nil {
				return berr
			}
			if p.rollback {
				return errInjected
			}
			return nil
		})
	case p.mode == modeExplicit:
		var tx trackerdb.Transaction
		tx, err = b.store.BeginTransaction(ctx)
		if err == nil {
			err = body(tx)
			if err == nil {
				err = tx.Commit()
			}
			cerr := tx.Close()
			_ = cerr // closing after Commit reports "already committed" on sqlite; engine specific (dual driver ignores it too)
		}
	default:
		err = b.store.Transaction(func(ctx context.Context, tx trackerdb.TransactionScope) error { return body(tx) })
	}
	switch {
	case err == nil:
		out = append(out, "tx=committed")
		committed = true
	case errors.Is(err, errInjected):
		out = append(out, "tx=rolled-back")
	default:
		out = append(out, "tx=failed:"+errClass(err))
	}
	return out, committed
}

func (b *backend) batchBody(ctx context.Context, tx trackerdb.BatchScope, p *commitPlan) (out []string, err error) {
	w, err := tx.MakeAccountsOptimizedWriter(false, false, len(p.kvs) > 0, len(p.creat) > 0)
	if err != nil {
		return out, err
	}
	defer w.Close()
	for _, d := range p.kvs {
		if d.val != nil {
			err = w.UpsertKvPair(d.key, d.val)
		} else {
			err = w.DeleteKvPair(d.key)
		}
		out = append(out, fmt.Sprintf("kv %s -> %s", keyName(d.key), errClass(err)))
		if err != nil {
			return out, err
		}
	}
	for _, d := range p.creat {
		if d.created {
			var ref trackerdb.CreatableRef
			ref, err = w.InsertCreatable(d.c, ctypeOf(d.c), addrs[d.creator][:])
			out = append(out, fmt.Sprintf("InsertCreatable %d -> %s %s", d.c, refStr(ref), errClass(err)))
		} else {
			var n int64
			n, err = w.DeleteCreatable(d.c, ctypeOf(d.c))
			out = append(out, fmt.Sprintf("DeleteCreatable %d -> rows=%d %s", d.c, n, errClass(err)))
		}
		if err != nil {
			return out, err
		}
	}
	aw, err := tx.MakeAccountsWriter()
	if err != nil {
		return out, err
	}
	if p.stagingTotals != nil {
		err = aw.AccountsPutTotals(*p.stagingTotals, true)
		out = append(out, "AccountsPutTotals(staging) -> "+errClass(err))
	}
	return out, err
}

// commitBody is ledger/acctupdates.go commitRound + acctonline.go commitRound + txtail.go commitRound +
// spverificationtracker.go commitRound + the UpdateAccountsRound at the end of tracker.go's transaction.
func (b *backend) commitBody(ctx context.Context, tx trackerdb.TransactionScope, p *commitPlan) (out []string, upd []refUpdate, err error) {
	say := func(f string, a ...any) { out = append(out, fmt.Sprintf(f, a...)) }

	// ---- accountUpdates.commitRound: accountsLoadOld
	type oldAcct struct {
		ref  trackerdb.AccountRef
		data trackerdb.BaseAccountData
	}
	olds := make([]oldAcct, len(p.accts))
	known := map[int]trackerdb.AccountRef{} // knownAddresses
	inDelta := map[int]bool{}
	if len(p.accts) > 0 {
		arw, err := tx.MakeAccountsOptimizedReader()
		if err != nil {
			return out, nil, err
		}
		for i, d := range p.accts {
			if ref, ok := b.refs[d.a]; ok && d.useCache {
				// baseAccounts hit: the old value comes from the cache, only the ref matters to the store
				olds[i].ref = ref
				say("old A%d cached ref=%s", d.a, refStr(ref))
			} else {
				pd, err := arw.LookupAccount(addrs[d.a])
				if err != nil {
					arw.Close()
					say("old A%d err=%s", d.a, errClass(err))
					return out, nil, err
				}
				olds[i] = oldAcct{pd.Ref, pd.AccountData}
				say("old A%d ref=%s rnd=%d data=%s", d.a, refStr(pd.Ref), rnd(pd.Round), encAcct(pd.AccountData))
			}
			known[d.a] = olds[i].ref
			inDelta[d.a] = true
		}
		arw.Close()
	}

	// ---- resourcesLoadOld
	type oldRes struct {
		ref  trackerdb.AccountRef
		data trackerdb.ResourcesData
	}
	oldRs := make([]oldRes, len(p.res))
	if len(p.res) > 0 {
		ar, err := tx.MakeAccountsReader()
		if err != nil {
			return out, nil, err
		}
		for i, d := range p.res {
			var acctRef trackerdb.AccountRef
			if inDelta[d.a] {
				acctRef = known[d.a]
			} else if ref, ok := b.refs[d.a]; ok {
				acctRef = ref
			} else {
				acctRef, err = ar.LookupAccountRowID(addrs[d.a])
				if err != nil {
					if errClass(err) != "notfound" {
						say("oldres A%d/%d rowid err=%s", d.a, d.c, errClass(err))
						return out, nil, err
					}
					say("oldres A%d/%d account unknown", d.a, d.c)
					err = nil
					continue
				}
			}
			buf, err := ar.LookupResourceDataByAddrID(acctRef, d.c)
			switch errClass(err) {
			case "ok":
				if len(buf) == 0 {
					say("oldres A%d/%d empty record", d.a, d.c)
					return out, nil, fmt.Errorf("empty resource record")
				}
				var rd trackerdb.ResourcesData
				if err := protocol.Decode(buf, &rd); err != nil {
					say("oldres A%d/%d undecodable", d.a, d.c)
					return out, nil, err
				}
				oldRs[i] = oldRes{acctRef, rd}
				say("oldres A%d/%d ref=%s data=%s", d.a, d.c, refStr(acctRef), hx(buf))
			case "notfound":
				oldRs[i] = oldRes{ref: acctRef}
				say("oldres A%d/%d ref=%s none", d.a, d.c, refStr(acctRef))
			default:
				say("oldres A%d/%d err=err", d.a, d.c)
				return out, nil, err
			}
		}
	}

	aw, err := tx.MakeAccountsWriter()
	if err != nil {
		return out, nil, err
	}
	if !p.jump {
		err = aw.AccountsPutTotals(p.totals, false)
		say("AccountsPutTotals -> %s", errClass(err))
		if err != nil {
			return out, nil, err
		}
	}
	if p.stagingTotals != nil {
		err = aw.AccountsPutTotals(*p.stagingTotals, true)
		say("AccountsPutTotals(staging) -> %s", errClass(err))
		if err != nil {
			return out, nil, err
		}
	}

	// ---- accountsNewRoundImpl
	w, err := tx.MakeAccountsOptimizedWriter(len(p.accts) > 0, len(p.res) > 0, len(p.kvs) > 0, len(p.creat) > 0)
	if err != nil {
		return out, nil, err
	}
	defer w.Close()
	ru := proto().RewardUnit
	newRefs := map[int]trackerdb.AccountRef{} // newAddressesRowIDs
	for i, d := range p.accts {
		old := olds[i]
		if old.ref == nil {
			if d.data.IsEmpty() {
				say("acct A%d: nothing before, nothing after", d.a)
				continue
			}
			ref, err := w.InsertAccount(addrs[d.a], d.data.NormalizedOnlineBalance(ru), d.data)
			say("InsertAccount A%d -> %s %s", d.a, refStr(ref), errClass(err))
			if err != nil {
				return out, nil, err
			}
			newRefs[d.a] = ref
			upd = append(upd, refUpdate{d.a, ref})
		} else if d.data.IsEmpty() {
			n, err := w.DeleteAccount(old.ref)
			say("DeleteAccount A%d -> rows=%d %s", d.a, n, errClass(err))
			if err != nil {
				return out, nil, err
			}
			if n != 1 {
				return out, nil, fmt.Errorf("failed to delete accountbase row")
			}
			upd = append(upd, refUpdate{d.a, nil})
		} else {
			n, err := w.UpdateAccount(old.ref, d.data.NormalizedOnlineBalance(ru), d.data)
			say("UpdateAccount A%d -> rows=%d %s", d.a, n, errClass(err))
			if err != nil {
				return out, nil, err
			}
			if n != 1 {
				return out, nil, fmt.Errorf("failed to update accountbase row")
			}
			upd = append(upd, refUpdate{d.a, old.ref})
		}
	}
	type rkey struct {
		ref trackerdb.AccountRef
		c   basics.CreatableIndex
	}
	pending := map[rkey]struct{}{}
	var pendingOrder []rkey
	for i, d := range p.res {
		o := oldRs[i]
		if o.ref == nil || o.data.IsEmpty() || !d.data.IsEmpty() {
			continue
		}
		k := rkey{o.ref, d.c}
		if _, dup := pending[k]; !dup {
			pending[k] = struct{}{}
			pendingOrder = append(pendingOrder, k)
		}
	}
	for i, d := range p.res {
		o := oldRs[i]
		acctRef := o.ref
		if acctRef == nil {
			inMem := o.data.IsEmpty() && d.data.IsEmpty()
			acctRef = newRefs[d.a]
			if acctRef == nil && !inMem {
				say("res A%d/%d cannot resolve address", d.a, d.c)
				return out, nil, fmt.Errorf("cannot resolve address")
			}
		}
		if o.data.IsEmpty() {
			if d.data.IsEmpty() {
				continue
			}
			if _, pd := pending[rkey{acctRef, d.c}]; pd {
				delete(pending, rkey{acctRef, d.c})
				n, err := w.UpdateResource(acctRef, d.c, d.data)
				say("UpdateResource(upgraded insert) A%d/%d -> rows=%d %s", d.a, d.c, n, errClass(err))
				if err != nil {
					return out, nil, err
				}
				if n != 1 {
					return out, nil, fmt.Errorf("failed to update resources row")
				}
			} else {
				ref, err := w.InsertResource(acctRef, d.c, d.data)
				say("InsertResource A%d/%d -> %s %s", d.a, d.c, refStr(ref), errClass(err))
				if err != nil {
					return out, nil, err
				}
			}
		} else if !d.data.IsEmpty() {
			n, err := w.UpdateResource(acctRef, d.c, d.data)
			say("UpdateResource A%d/%d -> rows=%d %s", d.a, d.c, n, errClass(err))
			if err != nil {
				return out, nil, err
			}
			if n != 1 {
				return out, nil, fmt.Errorf("failed to update resources row")
			}
		}
	}
	for _, k := range pendingOrder { // (the ledger ranges over the map; the order of deletes cannot matter)
		if _, still := pending[k]; !still {
			continue
		}
		n, err := w.DeleteResource(k.ref, k.c)
		say("DeleteResource %d -> rows=%d %s", k.c, n, errClass(err))
		if err != nil {
			return out, nil, err
		}
		if n != 1 {
			return out, nil, fmt.Errorf("failed to delete resources row")
		}
	}
	for _, d := range p.kvs {
		if d.val != nil {
			err = w.UpsertKvPair(d.key, d.val)
			say("UpsertKvPair %s -> %s", keyName(d.key), errClass(err))
		} else {
			err = w.DeleteKvPair(d.key)
			say("DeleteKvPair %s -> %s", keyName(d.key), errClass(err))
		}
		if err != nil {
			return out, nil, err
		}
	}
	for _, d := range p.creat {
		if d.created {
			ref, err := w.InsertCreatable(d.c, ctypeOf(d.c), addrs[d.creator][:])
			say("InsertCreatable %d -> %s %s", d.c, refStr(ref), errClass(err))
			if err != nil {
				return out, nil, err
			}
		} else {
			n, err := w.DeleteCreatable(d.c, ctypeOf(d.c))
			say("DeleteCreatable %d -> rows=%d %s", d.c, n, errClass(err))
			if err != nil {
				return out, nil, err
			}
		}
	}

	// ---- onlineAccounts.commitRound
	if len(p.onl) > 0 {
		ar, err := tx.MakeAccountsReader()
		if err != nil {
			return out, nil, err
		}
		ow, err := tx.MakeOnlineAccountsOptimizedWriter(true)
		if err != nil {
			return out, nil, err
		}
		defer ow.Close()
		// compactOnlineAccountDeltas: one entry per address, with that address' per-round changes in order
		var order []int
		byAddr := map[int][]onlDelta{}
		for _, d := range p.onl {
			if _, ok := byAddr[d.a]; !ok {
				order = append(order, d.a)
			}
			byAddr[d.a] = append(byAddr[d.a], d)
		}
		type prevT struct {
			ref  trackerdb.OnlineAccountRef
			data trackerdb.BaseOnlineAccountData
		}
		prevs := map[int]prevT{}
		for _, a := range order { // accountsLoadOld (all loads precede all writes)
			ref, buf, err := ar.LookupOnlineAccountDataByAddress(addrs[a])
			switch errClass(err) {
			case "ok":
				var pv prevT
				pv.ref = ref
				if len(buf) > 0 {
					if err := protocol.Decode(buf, &pv.data); err != nil {
						return out, nil, err
					}
				}
				prevs[a] = pv
				say("oldonline A%d ref=%s data=%s", a, refStr(ref), hx(buf))
			case "notfound":
				say("oldonline A%d none", a)
			default:
				say("oldonline A%d err=err", a)
				return out, nil, err
			}
		}
		for _, a := range order { // onlineAccountsNewRoundImpl
			prev := prevs[a]
			for _, d := range byAddr[a] {
				if d.online && d.data.IsVotingEmpty() {
					return out, nil, fmt.Errorf("empty voting data for online account")
				}
				insert := func(nb uint64, data trackerdb.BaseOnlineAccountData, vlv uint64) error {
					ref, err := ow.InsertOnlineAccount(addrs[a], nb, data, d.upd, vlv)
					say("InsertOnlineAccount A%d@%d norm=%d -> %s %s", a, d.upd, nb, refStr(ref), errClass(err))
					if err != nil {
						return err
					}
					prev = prevT{ref, data}
					return nil
				}
				if prev.ref == nil {
					if !d.online {
						continue
					}
					if err := insert(d.data.NormalizedOnlineBalance(ru), d.data, uint64(d.data.VoteLastValid)); err != nil {
						return out, nil, err
					}
				} else if d.online {
					if prev.data != d.data {
						if err := insert(d.data.NormalizedOnlineBalance(ru), d.data, uint64(d.data.VoteLastValid)); err != nil {
							return out, nil, err
						}
					}
				} else {
					if prev.data.IsVotingEmpty() {
						continue
					}
					if err := insert(0, trackerdb.BaseOnlineAccountData{}, 0); err != nil {
						return out, nil, err
					}
				}
			}
		}
	}
	if !p.jump {
		err = aw.OnlineAccountsDelete(basics.Round(p.onlFB))
		say("OnlineAccountsDelete(%d) -> %s", p.onlFB, errClass(err))
		if err != nil {
			return out, nil, err
		}
	}
	err = aw.AccountsPutOnlineRoundParams(p.params, basics.Round(p.oldBase+1))
	say("AccountsPutOnlineRoundParams(n=%d,start=%d) -> %s", len(p.params), p.oldBase+1, errClass(err))
	if err != nil {
		return out, nil, err
	}
	if !p.jump {
		err = aw.AccountsPruneOnlineRoundParams(basics.Round(p.onlFB))
		say("AccountsPruneOnlineRoundParams(%d) -> %s", p.onlFB, errClass(err))
		if err != nil {
			return out, nil, err
		}
		// ---- txTail.commitRound
		err = aw.TxtailNewRound(ctx, basics.Round(p.oldBase+1), p.tails, basics.Round(p.tailFB))
		say("TxtailNewRound(base=%d,n=%d,forget<%d) -> %s", p.oldBase+1, len(p.tails), p.tailFB, errClass(err))
		if err != nil {
			return out, nil, err
		}
	}
	// ---- spVerificationTracker.commitRound
	if p.spDelete {
		err = tx.MakeSpVerificationCtxWriter().DeleteOldSPContexts(ctx, basics.Round(p.spDeleteBefore))
		say("DeleteOldSPContexts(%d) -> %s", p.spDeleteBefore, errClass(err))
		if err != nil {
			return out, nil, err
		}
	}
	if len(p.spStore) > 0 {
		ptrs := make([]*ledgercore.StateProofVerificationContext, len(p.spStore))
		for i := range p.spStore {
			ptrs[i] = &p.spStore[i]
		}
		err = tx.MakeSpVerificationCtxWriter().StoreSPContexts(ctx, ptrs)
		say("StoreSPContexts(n=%d) -> %s", len(ptrs), errClass(err))
		if err != nil {
			return out, nil, err
		}
	}
	// ---- tracker.go: aw.UpdateAccountsRound(dbRound + offset)
	err = aw.UpdateAccountsRound(basics.Round(p.newBase))
	say("UpdateAccountsRound(%d) -> %s", p.newBase, errClass(err))
	return out, upd, err
}

// apply updates the reference model with a committed plan; it uses nothing a backend answered.
func (m *model) apply(p *commitPlan) {
	if p.batch {
		for _, d := range p.kvs {
			if d.val != nil {
				m.kv[d.key] = d.val
			} else {
				delete(m.kv, d.key)
			}
		}
		for _, d := range p.creat {
			if d.created {
				m.creat[d.c] = creatEntry{ctypeOf(d.c), d.creator}
			} else {
				delete(m.creat, d.c)
			}
		}
		if p.stagingTotals != nil {
			t := *p.stagingTotals
			m.totals[true] = &t
		}
		return
	}
	for _, d := range p.accts {
		if d.data.IsEmpty() {
			delete(m.accts, d.a)
		} else {
			m.accts[d.a] = d.data
		}
	}
	for _, d := range p.res {
		if d.data.IsEmpty() {
			delete(m.res, resKey{d.a, d.c})
		} else {
			m.res[resKey{d.a, d.c}] = d.data
		}
	}
	for _, d := range p.kvs {
		if d.val != nil {
			m.kv[d.key] = d.val
		} else {
			delete(m.kv, d.key)
		}
	}
	for _, d := range p.creat {
		if d.created {
			m.creat[d.c] = creatEntry{ctypeOf(d.c), d.creator}
		} else {
			delete(m.creat, d.c)
		}
	}
	// online history: an entry is recorded when the account's effective state changes (the rule of
	// onlineAccountsNewRoundImpl, applied to the model's own tables). Pebble variant: the prune of this commit
	// is evaluated before the commit's inserts are visible.
	if !p.jump {
		prune(m.hist[1], p.onlFB, true)
	}
	for _, d := range p.onl {
		_, prev, had := m.latestOnline(d.a, ^uint64(0))
		if e, ok := m.applyOnline(prev, had, d); ok {
			if m.online[d.a] == nil {
				m.online[d.a] = map[uint64]onlineEntry{}
			}
			m.online[d.a][d.upd] = e
		}
		for v := 0; v < 2; v++ {
			_, prev, had := latestIn(m.hist[v], d.a, ^uint64(0))
			if e, ok := m.applyOnline(prev, had, d); ok {
				if m.hist[v][d.a] == nil {
					m.hist[v][d.a] = map[uint64]onlineEntry{}
				}
				m.hist[v][d.a][d.upd] = e
			}
		}
	}
	if !p.jump {
		prune(m.hist[0], p.onlFB, false)
	}
	if !p.jump {
		if p.onlFB > m.onlFB {
			m.onlFB = p.onlFB
		}
		t := p.totals
		m.totals[false] = &t
	}
	if p.stagingTotals != nil {
		t := *p.stagingTotals
		m.totals[true] = &t
	}
	for i, d := range p.params {
		m.params[p.oldBase+1+uint64(i)] = d
	}
	if !p.jump {
		for r := range m.params {
			if r < p.onlFB {
				delete(m.params, r)
			}
		}
		for i, d := range p.tails {
			m.txtail[p.oldBase+1+uint64(i)] = d
		}
		for r := range m.txtail {
			if r < p.tailFB {
				delete(m.txtail, r)
			}
		}
	}
	if p.spDelete {
		for r := range m.sp {
			if r < p.spDeleteBefore {
				delete(m.sp, r)
			}
		}
	}
	for _, c := range p.spStore {
		m.sp[uint64(c.LastAttestedRound)] = c
		if uint64(c.LastAttestedRound) > m.spMax {
			m.spMax = uint64(c.LastAttestedRound)
		}
	}
	m.round = p.newBase
	m.commits++
}

// applyOnline: does this delta create a row, given the newest row the table has for the address?
func (m *model) applyOnline(prev onlineEntry, had bool, d onlDelta) (onlineEntry, bool) {
	ru := proto().RewardUnit
	switch {
	case d.online && (!had || prev.data != d.data):
		return onlineEntry{d.data, d.data.NormalizedOnlineBalance(ru)}, true
	case !d.online && had && !prev.data.IsVotingEmpty():
		return onlineEntry{}, true
	}
	return onlineEntry{}, false
}

// digest of the model state (distinct-state counter)
func (m *model) digest() string {
	var sb strings.Builder
	fmt.Fprintf(&sb, "r%d|", m.round)
	var as []int
	for a := range m.accts {
		as = append(as, a)
	}
	sort.Ints(as)
	for _, a := range as {
		fmt.Fprintf(&sb, "a%d=%s|", a, encAcct(m.accts[a]))
	}
	for a := 0; a < nAddr; a++ {
		for _, c := range m.resourcesOf(a) {
			fmt.Fprintf(&sb, "r%d/%d=%s|", a, c, encRes(m.res[resKey{a, c}]))
		}
	}
	for _, k := range m.sortedKeys() {
		fmt.Fprintf(&sb, "k%s=%s|", keyName(k), hx(m.kv[k]))
	}
	for _, c := range cidxs {
		if e, ok := m.creat[c]; ok {
			fmt.Fprintf(&sb, "c%d=%d|", c, e.creator)
		}
	}
	for a := 0; a < nAddr; a++ {
		for _, r := range sortedRounds(m.online[a]) {
			fmt.Fprintf(&sb, "o%d@%d=%d|", a, r, m.online[a][r].norm)
		}
	}
	return h8(sb.String())
}
