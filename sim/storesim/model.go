package storesim

import (
	"sort"

	"github.com/algorand/go-algorand/data/basics"
	"github.com/algorand/go-algorand/ledger/ledgercore"
	"github.com/algorand/go-algorand/ledger/store/trackerdb"
)

// model is the tiny independent reference: plain maps, written from the operation list only
// (never from a backend's answer). It answers the subset of queries whose expected result is obvious.
type resKey struct {
	a int
	c basics.CreatableIndex
}

type creatEntry struct {
	ctype   basics.CreatableType
	creator int
}

type onlineEntry struct {
	data trackerdb.BaseOnlineAccountData
	norm uint64
}

type model struct {
	round   uint64
	accts   map[int]trackerdb.BaseAccountData
	res     map[resKey]trackerdb.ResourcesData
	kv      map[string][]byte
	creat   map[basics.CreatableIndex]creatEntry
	online  map[int]map[uint64]onlineEntry // full history, never pruned in the model
	onlFB   uint64                         // largest forgetBefore passed to OnlineAccountsDelete so far
	params  map[uint64]ledgercore.OnlineRoundParamsData
	txtail  map[uint64][]byte
	totals  map[bool]*ledgercore.AccountTotals
	sp      map[uint64]ledgercore.StateProofVerificationContext
	spMax   uint64
	commits int
}

func newModel() *model {
	return &model{accts: map[int]trackerdb.BaseAccountData{}, res: map[resKey]trackerdb.ResourcesData{}, kv: map[string][]byte{},
		creat: map[basics.CreatableIndex]creatEntry{}, online: map[int]map[uint64]onlineEntry{}, params: map[uint64]ledgercore.OnlineRoundParamsData{},
		txtail: map[uint64][]byte{}, totals: map[bool]*ledgercore.AccountTotals{}, sp: map[uint64]ledgercore.StateProofVerificationContext{}}
}

func (m *model) clone() *model {
	n := newModel()
	n.round, n.onlFB, n.spMax, n.commits = m.round, m.onlFB, m.spMax, m.commits
	for k, v := range m.accts {
		n.accts[k] = v
	}
	for k, v := range m.res {
		n.res[k] = v
	}
	for k, v := range m.kv {
		n.kv[k] = v
	}
	for k, v := range m.creat {
		n.creat[k] = v
	}
	for k, v := range m.online {
		h := map[uint64]onlineEntry{}
		for r, e := range v {
			h[r] = e
		}
		n.online[k] = h
	}
	for k, v := range m.params {
		n.params[k] = v
	}
	for k, v := range m.txtail {
		n.txtail[k] = v
	}
	for k, v := range m.totals {
		c := *v
		n.totals[k] = &c
	}
	for k, v := range m.sp {
		n.sp[k] = v
	}
	return n
}

func (m *model) resourcesOf(a int) []basics.CreatableIndex {
	var out []basics.CreatableIndex
	for k := range m.res {
		if k.a == a {
			out = append(out, k.c)
		}
	}
	sort.Slice(out, func(i, j int) bool { return out[i] < out[j] })
	return out
}

func (m *model) sortedKeys() []string {
	ks := make([]string, 0, len(m.kv))
	for k := range m.kv {
		ks = append(ks, k)
	}
	sort.Strings(ks)
	return ks
}

// latestOnline returns the newest history entry of address a with updround <= rnd.
func (m *model) latestOnline(a int, rnd uint64) (uint64, onlineEntry, bool) {
	var best uint64
	var be onlineEntry
	found := false
	for r, e := range m.online[a] {
		if r <= rnd && (!found || r > best) {
			best, be, found = r, e, true
		}
	}
	return best, be, found
}

func sortedRounds[T any](mp map[uint64]T) []uint64 {
	rs := make([]uint64, 0, len(mp))
	for r := range mp {
		rs = append(rs, r)
	}
	sort.Slice(rs, func(i, j int) bool { return rs[i] < rs[j] })
	return rs
}
