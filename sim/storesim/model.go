package storesim

import (
	"sort"

	"github.com/algorand/go-algorand/data/basics"
	"github.com/algorand/go-algorand/ledger/ledgercore"
	"github.com/algorand/go-algorand/ledger/store/trackerdb"
)

// model is the tiny independent reference: plain maps, written from the operation list only
// (never from a backend's answer). It answers the subset of queries whose expected result is obvious.
type resKey struct {
	a int
	c basics.CreatableIndex
}

type creatEntry struct {
	ctype   basics.CreatableType
	creator int
}

type onlineEntry struct {
	data trackerdb.BaseOnlineAccountData
	norm uint64
}

type model struct {
	round  uint64
	accts  map[int]trackerdb.BaseAccountData
	res    map[resKey]trackerdb.ResourcesData
	kv     map[string][]byte
	creat  map[basics.CreatableIndex]creatEntry
	online map[int]map[uint64]onlineEntry // full history, never pruned in the model
	onlFB  uint64                         // largest forgetBefore passed to OnlineAccountsDelete so far
	// hist is the pruned online-account table as each backend documents its own OnlineAccountsDelete:
	// [0] sqlitedriver (rows with updRound < forgetBefore, run after the commit's inserts),
	// [1] generickv (rows with round <= forgetBefore, evaluated on the transaction's begin-snapshot, i.e.
	// without the commit's own inserts). Where the two variants differ and each backend matches its own,
	// the difference is the known finding OnlineAccountsDelete/*, nothing else.
	hist    [2]map[int]map[uint64]onlineEntry
	params  map[uint64]ledgercore.OnlineRoundParamsData
	txtail  map[uint64][]byte
	totals  map[bool]*ledgercore.AccountTotals
	sp      map[uint64]ledgercore.StateProofVerificationContext
	spMax   uint64
	commits int
}

func newModel() *model {
	return &model{accts: map[int]trackerdb.BaseAccountData{}, res: map[resKey]trackerdb.ResourcesData{}, kv: map[string][]byte{},
		creat: map[basics.CreatableIndex]creatEntry{}, online: map[int]map[uint64]onlineEntry{}, params: map[uint64]ledgercore.OnlineRoundParamsData{},
		txtail: map[uint64][]byte{}, totals: map[bool]*ledgercore.AccountTotals{}, sp: map[uint64]ledgercore.StateProofVerificationContext{},
		hist: [2]map[int]map[uint64]onlineEntry{{}, {}}}
}

func (m *model) clone() *model {
	n := newModel()
	n.round, n.onlFB, n.spMax, n.commits = m.round, m.onlFB, m.spMax, m.commits
	for k, v := range m.accts {
		n.accts[k] = v
	}
	for k, v := range m.res {
		n.res[k] = v
	}
	for k, v := range m.kv {
		n.kv[k] = v
	}
	for k, v := range m.creat {
		n.creat[k] = v
	}
	for k, v := range m.online {
		h := map[uint64]onlineEntry{}
		for r, e := range v {
			h[r] = e
		}
		n.online[k] = h
	}
	for i := range m.hist {
		for k, v := range m.hist[i] {
			h := map[uint64]onlineEntry{}
			for r, e := range v {
				h[r] = e
			}
			n.hist[i][k] = h
		}
	}
	for k, v := range m.params {
		n.params[k] = v
	}
	for k, v := range m.txtail {
		n.txtail[k] = v
	}
	for k, v := range m.totals {
		c := *v
		n.totals[k] = &c
	}
	for k, v := range m.sp {
		n.sp[k] = v
	}
	return n
}

func (m *model) resourcesOf(a int) []basics.CreatableIndex {
	var out []basics.CreatableIndex
	for k := range m.res {
		if k.a == a {
			out = append(out, k.c)
		}
	}
	sort.Slice(out, func(i, j int) bool { return out[i] < out[j] })
	return out
}

func (m *model) sortedKeys() []string {
	ks := make([]string, 0, len(m.kv))
	for k := range m.kv {
		ks = append(ks, k)
	}
	sort.Strings(ks)
	return ks
}

// latestOnline returns the newest history entry of address a with updround <= rnd.
func (m *model) latestOnline(a int, rnd uint64) (uint64, onlineEntry, bool) {
	var best uint64
	var be onlineEntry
	found := false
	for r, e := range m.online[a] {
		if r <= rnd && (!found || r > best) {
			best, be, found = r, e, true
		}
	}
	return best, be, found
}

func sortedRounds[T any](mp map[uint64]T) []uint64 {
	rs := make([]uint64, 0, len(mp))
	for r := range mp {
		rs = append(rs, r)
	}
	sort.Slice(rs, func(i, j int) bool { return rs[i] < rs[j] })
	return rs
}

// latestIn returns the newest entry of a pruned table for address a with updround <= rnd.
func latestIn(h map[int]map[uint64]onlineEntry, a int, rnd uint64) (uint64, onlineEntry, bool) {
	var best uint64
	var be onlineEntry
	found := false
	for r, e := range h[a] {
		if r <= rnd && (!found || r > best) {
			best, be, found = r, e, true
		}
	}
	return best, be, found
}

// prune applies the documented OnlineAccountsDelete rule to a table: among an address' rows below the
// horizon, newest first, the newest is deleted only if it is an offline (empty voting data) row; every
// older one is deleted.
func prune(h map[int]map[uint64]onlineEntry, fb uint64, inclusive bool) {
	for a, rows := range h {
		var rs []uint64
		for r := range rows {
			if r < fb || (inclusive && r == fb) {
				rs = append(rs, r)
			}
		}
		sort.Slice(rs, func(i, j int) bool { return rs[i] > rs[j] })
		for i, r := range rs {
			if d := rows[r].data; i == 0 && !d.IsVotingEmpty() {
				continue
			}
			delete(rows, r)
		}
		if len(rows) == 0 {
			delete(h, a)
		}
	}
}
