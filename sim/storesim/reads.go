package storesim

import (
	"context"
	"fmt"
	"sort"
	"strings"

	"github.com/algorand/go-algorand/crypto"
	"github.com/algorand/go-algorand/data/basics"
	"github.com/algorand/go-algorand/ledger/ledgercore"
	"github.com/algorand/go-algorand/ledger/store/trackerdb"
	"github.com/algorand/go-algorand/protocol"
)

// op is one operation applied to both backends. run returns the normalised transcript of one backend:
// values msgpack-encoded, errors by class, refs as "ref"/"nil" (the dual driver's own normalisation).
type op struct {
	name string // reader / writer name: the class of a difference
	desc string
	run  func(b *backend) []string
	// exp is the reference model's exact transcript (nil when the answer is not in the obvious subset)
	exp []string
	// expP is the reference transcript for Pebble where generickv documents a different pruning of the
	// online-account table than sqlitedriver (model.hist); nil = same as exp
	expP []string
	// chk is a partial reference check used where only part of the answer is obvious
	chk func(lines []string) string
	// pebbleSkip: reader documented as not implemented by the KV backend; only SQLite is asked
	pebbleSkip bool
	// emptyAns is the transcript of a backend that finds no stored key at all (box listing readers only);
	// it is the signature of the known finding "generickv scans the raw key space instead of the box table".
	emptyAns []string
	// qround is the round argument of round-indexed readers
	qround uint64
	// ffAns: what generickv's LookupOnline answers for a round whose low byte is 0xff (known finding): its
	// exclusive upper bound is the round key with the last byte incremented, which wraps to 0x00 without
	// carry, so only rows with updround < round-255 are in range.
	ffAns []string
	// devP: what generickv's AccountsOnlineTop is known to answer (finding AccountsOnlineTop/*): it pages over
	// the raw (round, balance, address) index instead of over accounts (model.onlineTopPebble)
	devP []string
}

const nReadKinds = 25

var readNames = [nReadKinds]string{
	"LookupAccount", "LookupResources", "LookupAllResources", "LookupKeyValue", "LookupKeysByPrefix",
	"LookupKeysByPrefixCursor", "LookupCreator", "AccountsRound", "AccountsTotals", "LookupAccountRowID",
	"LookupResourceDataByAddrID", "LookupOnlineAccountDataByAddress", "LookupOnline", "LookupOnlineHistory", "LookupOnlineRoundParams",
	"AccountsOnlineRoundParams", "OnlineAccountsAll", "AccountsOnlineTop", "ExpiredOnlineAccountsForRound", "LoadTxTail",
	"LookupSPContext", "GetAllSPContexts", "LookupLimitedResources", "KvCursorWalk", "OnlineTopWalk",
}

// relative weights of the read kinds (paginated and listing readers are asked more often)
var readWeights = [nReadKinds]int{4, 4, 5, 3, 6, 8, 3, 1, 2, 2, 2, 3, 6, 5, 3, 2, 4, 6, 4, 3, 2, 2, 2, 4, 3}

func encAcct(d trackerdb.BaseAccountData) string          { return hx(protocol.Encode(&d)) }
func encRes(d trackerdb.ResourcesData) string             { return hx(protocol.Encode(&d)) }
func encOnl(d trackerdb.BaseOnlineAccountData) string     { return hx(protocol.Encode(&d)) }
func encParams(d ledgercore.OnlineRoundParamsData) string { return hx(protocol.Encode(&d)) }

// a query round the ledger could ask about: not older than the online-history horizon (rounds below the
// last forgetBefore were explicitly forgotten; the ledger answers "round too old" without asking the store),
// up to a little beyond the db round.
func (s *Sim) pickRound(m *model, v int) uint64 {
	lo := m.onlFB
	hi := m.round + 2
	if lo > hi {
		lo = hi
	}
	return lo + uint64(v)%(hi-lo+1)
}

func (s *Sim) buildRead(kind int, p []int, rc int) *op {
	m := s.modelFor(rc)
	ru := proto().RewardUnit
	o := &op{name: readNames[kind]}
	switch kind {
	case 0: // LookupAccount
		a := p[0] % nAddr
		o.desc = fmt.Sprintf("LookupAccount(A%d)", a)
		o.run = func(b *backend) []string {
			return b.read(rc, func(rd readers) []string {
				d, err := rd.ar.LookupAccount(addrs[a])
				if err != nil {
					return []string{"err=" + errClass(err)}
				}
				return []string{fmt.Sprintf("addr=%s ref=%s rnd=%d data=%s", addrName(d.Addr), refStr(d.Ref), rnd(d.Round), encAcct(d.AccountData))}
			})
		}
		md, ok := m.accts[a]
		ref := "nil"
		if ok {
			ref = "ref"
		}
		o.exp = []string{fmt.Sprintf("addr=A%d ref=%s rnd=%d data=%s", a, ref, m.round, encAcct(md))}
	case 1: // LookupResources
		a := p[0] % nAddr
		c := cidxs[p[1]%len(cidxs)]
		ct := ctypeOf(c)
		if p[2]%8 == 7 { // the caller is wrong about the type
			ct = 1 - ct
		}
		o.desc = fmt.Sprintf("LookupResources(A%d,%d,ctype=%d)", a, c, ct)
		o.run = func(b *backend) []string {
			return b.read(rc, func(rd readers) []string {
				d, err := rd.ar.LookupResources(addrs[a], c, ct)
				if err != nil {
					return []string{"err=" + errClass(err)}
				}
				return []string{fmt.Sprintf("aidx=%d ref=%s rnd=%d data=%s", d.Aidx, refStr(d.AcctRef), rnd(d.Round), encRes(d.Data))}
			})
		}
		if md, ok := m.res[resKey{a, c}]; ok {
			if ct != ctypeOf(c) {
				o.exp = []string{"err=err"}
			} else {
				o.exp = []string{fmt.Sprintf("aidx=%d ref=ref rnd=%d data=%s", c, m.round, encRes(md))}
			}
		} else {
			o.exp = []string{fmt.Sprintf("aidx=%d ref=nil rnd=%d data=%s", c, m.round, encRes(trackerdb.MakeResourcesData(0)))}
		}
	case 2: // LookupAllResources
		a := p[0] % nAddr
		o.desc = fmt.Sprintf("LookupAllResources(A%d)", a)
		o.run = func(b *backend) []string {
			return b.read(rc, func(rd readers) []string {
				ds, r, err := rd.ar.LookupAllResources(addrs[a])
				if err != nil {
					return []string{"err=" + errClass(err)}
				}
				out := []string{fmt.Sprintf("rnd=%d n=%d", rnd(r), len(ds))}
				for _, d := range ds {
					out = append(out, fmt.Sprintf("aidx=%d ref=%s rnd=%d data=%s", d.Aidx, refStr(d.AcctRef), rnd(d.Round), encRes(d.Data)))
				}
				return out
			})
		}
		cs := m.resourcesOf(a)
		o.exp = []string{fmt.Sprintf("rnd=%d n=%d", m.round, len(cs))}
		for _, c := range cs {
			o.exp = append(o.exp, fmt.Sprintf("aidx=%d ref=ref rnd=%d data=%s", c, m.round, encRes(m.res[resKey{a, c}])))
		}
	case 3: // LookupKeyValue
		k := kvKeys[p[0]%len(kvKeys)]
		o.desc = fmt.Sprintf("LookupKeyValue(%s)", keyName(k))
		o.run = func(b *backend) []string {
			return b.read(rc, func(rd readers) []string {
				d, err := rd.ar.LookupKeyValue(k)
				if err != nil {
					return []string{"err=" + errClass(err)}
				}
				return []string{fmt.Sprintf("rnd=%d val=%s", rnd(d.Round), hx(d.Value))}
			})
		}
		o.exp = []string{fmt.Sprintf("rnd=%d val=%s", m.round, hx(m.kv[k]))}
	case 4: // LookupKeysByPrefix
		prefix := kvPrefixes[p[0]%len(kvPrefixes)]
		max := uint64(1 + p[1]%6)
		if p[1]%5 == 0 {
			max = 1 << 20
		}
		// what acctupdates.LookupKeysByPrefix passes: a result map pre-filled from the in-memory deltas
		// (true = live, false = deleted in the deltas) and the number of live entries in it
		pre := map[string]bool{}
		cnt := uint64(0)
		for i := 0; i < p[2]%3; i++ {
			k := kvKeys[(p[3]+i*5)%len(kvKeys)]
			if !strings.HasPrefix(k, prefix) {
				continue
			}
			if _, dup := pre[k]; dup {
				continue
			}
			live := (p[4]>>i)&1 == 0
			pre[k] = live
			if live {
				cnt++
			}
		}
		if cnt >= max {
			max = cnt + 1
		}
		o.desc = fmt.Sprintf("LookupKeysByPrefix(%q,max=%d,pre=%s)", prefix, max, fmtBoolMap(pre))
		o.run = func(b *backend) []string {
			return b.read(rc, func(rd readers) []string {
				res := map[string]bool{}
				for k, v := range pre {
					res[k] = v
				}
				r, err := rd.ar.LookupKeysByPrefix(prefix, max, res, cnt)
				if err != nil {
					return []string{"err=" + errClass(err)}
				}
				return []string{fmt.Sprintf("rnd=%d", rnd(r)), "keys=" + fmtBoolMap(res)}
			})
		}
		o.emptyAns = []string{fmt.Sprintf("rnd=%d", m.round), "keys=" + fmtBoolMap(pre)}
		var match []string
		for _, k := range m.sortedKeys() {
			if strings.HasPrefix(k, prefix) {
				if _, inPre := pre[k]; !inPre {
					match = append(match, k)
				}
			}
		}
		if cnt+uint64(len(match)) <= max {
			// not truncated: the answer is the exact set
			want := map[string]bool{}
			for k, v := range pre {
				want[k] = v
			}
			for _, k := range match {
				want[k] = true
			}
			o.exp = []string{fmt.Sprintf("rnd=%d", m.round), "keys=" + fmtBoolMap(want)}
		} else {
			// truncated: which keys are returned is not specified by the interface; only the count and membership are
			mround := m.round
			o.chk = func(lines []string) string {
				if len(lines) != 2 || lines[0] != fmt.Sprintf("rnd=%d", mround) {
					return "round/shape"
				}
				got := parseBoolMap(lines[1][len("keys="):])
				live := uint64(0)
				for k, v := range got {
					pv, inPre := pre[k]
					if inPre {
						if pv != v {
							return "pre-filled entry changed: " + k
						}
					} else if !contains(match, k) || !v {
						return "returned key not a live match: " + k
					}
					if v {
						live++
					}
				}
				if live != max {
					return fmt.Sprintf("truncated listing returned %d live keys, want %d", live, max)
				}
				return ""
			}
		}
	case 5: // LookupKeysByPrefixCursor
		prefix := kvPrefixes[p[0]%len(kvPrefixes)]
		cursor := kvCursors[p[1]%len(kvCursors)]
		limit := uint64(p[2] % 5)
		maxBytes := []uint64{0, 0, 1, 14, 30, 70}[p[3]%6]
		incl := p[4]%2 == 0
		excl := map[string][]byte{}
		for i := 0; i < p[5]%3; i++ {
			excl[kvKeys[(p[6]+i*7)%len(kvKeys)]] = nil
		}
		o.desc = fmt.Sprintf("LookupKeysByPrefixCursor(%q,cursor=%s,limit=%d,maxBytes=%d,values=%v,exclude=%s)", prefix, keyName(cursor), limit, maxBytes, incl, fmtKeySet(excl))
		o.run = func(b *backend) []string {
			return b.read(rc, func(rd readers) []string {
				r, kvs, more, err := rd.ar.LookupKeysByPrefixCursor(prefix, cursor, limit, maxBytes, incl, excl)
				if err != nil {
					return []string{"err=" + errClass(err)}
				}
				return fmtKvPage(rnd(r), kvs, more)
			})
		}
		o.exp = m.kvPage(prefix, cursor, limit, maxBytes, incl, excl)
		o.emptyAns = []string{fmt.Sprintf("rnd=%d n=0", m.round), "more=false"}
	case 6: // LookupCreator
		c := cidxs[p[0]%len(cidxs)]
		ct := ctypeOf(c)
		if p[1]%6 == 5 {
			ct = 1 - ct
		}
		o.desc = fmt.Sprintf("LookupCreator(%d,ctype=%d)", c, ct)
		o.run = func(b *backend) []string {
			return b.read(rc, func(rd readers) []string {
				addr, ok, r, err := rd.ar.LookupCreator(c, ct)
				if err != nil {
					return []string{"err=" + errClass(err)}
				}
				an := "-"
				if ok {
					an = addrName(addr)
				}
				return []string{fmt.Sprintf("ok=%v creator=%s rnd=%d", ok, an, rnd(r))}
			})
		}
		if e, ok := m.creat[c]; ok && e.ctype == ct {
			o.exp = []string{fmt.Sprintf("ok=true creator=A%d rnd=%d", e.creator, m.round)}
		} else {
			o.exp = []string{fmt.Sprintf("ok=false creator=- rnd=%d", m.round)}
		}
	case 7: // AccountsRound
		o.desc = "AccountsRound()"
		o.run = func(b *backend) []string {
			return b.read(rc, func(rd readers) []string {
				r, err := rd.ext.AccountsRound()
				return []string{fmt.Sprintf("rnd=%d err=%s", rnd(r), errClass(err))}
			})
		}
		o.exp = []string{fmt.Sprintf("rnd=%d err=ok", m.round)}
	case 8: // AccountsTotals
		staging := p[0]%4 == 3
		o.desc = fmt.Sprintf("AccountsTotals(staging=%v)", staging)
		o.run = func(b *backend) []string {
			return b.read(rc, func(rd readers) []string {
				t, err := rd.ext.AccountsTotals(context.Background(), staging)
				if err != nil {
					return []string{"err=" + errClass(err)}
				}
				return []string{"totals=" + hx(protocol.Encode(&t))}
			})
		}
		if t := m.totals[staging]; t != nil {
			o.exp = []string{"totals=" + hx(protocol.Encode(t))}
		} else {
			o.exp = []string{"err=notfound"}
		}
	case 9: // LookupAccountRowID
		a := p[0] % nAddr
		o.desc = fmt.Sprintf("LookupAccountRowID(A%d)", a)
		o.run = func(b *backend) []string {
			return b.read(rc, func(rd readers) []string {
				ref, err := rd.ext.LookupAccountRowID(addrs[a])
				if err != nil {
					return []string{"err=" + errClass(err)}
				}
				return []string{"ref=" + refStr(ref)}
			})
		}
		if _, ok := m.accts[a]; ok {
			o.exp = []string{"ref=ref"}
		} else {
			o.exp = []string{"err=notfound"}
		}
	case 10: // LookupResourceDataByAddrID (ref resolved the way resourcesLoadOld does)
		a := p[0] % nAddr
		c := cidxs[p[1]%len(cidxs)]
		o.desc = fmt.Sprintf("LookupAccountRowID(A%d)+LookupResourceDataByAddrID(ref,%d)", a, c)
		o.run = func(b *backend) []string {
			return b.read(rc, func(rd readers) []string {
				ref, err := rd.ext.LookupAccountRowID(addrs[a])
				if err != nil {
					// resourcesLoadOld: a missing account is legitimate, the resource is then unknown
					return []string{"acct=" + errClass(err)}
				}
				buf, err := rd.ext.LookupResourceDataByAddrID(ref, c)
				if err != nil {
					return []string{"err=" + errClass(err)}
				}
				return []string{"data=" + hx(buf)}
			})
		}
		if _, ok := m.accts[a]; !ok {
			o.exp = []string{"acct=notfound"}
		} else if d, ok := m.res[resKey{a, c}]; ok {
			o.exp = []string{"data=" + encRes(d)}
		} else {
			o.exp = []string{"err=notfound"}
		}
	case 11: // LookupOnlineAccountDataByAddress
		a := p[0] % nAddr
		o.desc = fmt.Sprintf("LookupOnlineAccountDataByAddress(A%d)", a)
		o.run = func(b *backend) []string {
			return b.read(rc, func(rd readers) []string {
				ref, buf, err := rd.ext.LookupOnlineAccountDataByAddress(addrs[a])
				if err != nil {
					return []string{"err=" + errClass(err)}
				}
				return []string{fmt.Sprintf("ref=%s data=%s", refStr(ref), hx(buf))}
			})
		}
		o.exp, o.expP = m.perVariant(func(h map[int]map[uint64]onlineEntry) []string {
			if _, e, ok := latestIn(h, a, ^uint64(0)); ok {
				return []string{"ref=ref data=" + encOnl(e.data)}
			}
			return []string{"err=notfound"}
		})
	case 12: // LookupOnline
		a := p[0] % nAddr
		r := s.pickRound(m, p[1])
		o.desc = fmt.Sprintf("LookupOnline(A%d,%d)", a, r)
		o.qround = r
		o.run = func(b *backend) []string {
			return b.read(rc, func(rd readers) []string {
				d, err := rd.oar.LookupOnline(addrs[a], basics.Round(r))
				if err != nil {
					return []string{"err=" + errClass(err)}
				}
				return []string{fmt.Sprintf("addr=%s ref=%s upd=%d rnd=%d data=%s", addrName(d.Addr), refStr(d.Ref), rnd(d.UpdRound), rnd(d.Round), encOnl(d.AccountData))}
			})
		}
		mround := m.round
		o.exp, o.expP = m.perVariant(func(h map[int]map[uint64]onlineEntry) []string {
			if upd, e, ok := latestIn(h, a, r); ok {
				return []string{fmt.Sprintf("addr=A%d ref=ref upd=%d rnd=%d data=%s", a, upd, mround, encOnl(e.data))}
			}
			return []string{fmt.Sprintf("addr=A%d ref=nil upd=0 rnd=%d data=%s", a, mround, encOnl(trackerdb.BaseOnlineAccountData{}))}
		})
		if r%256 == 255 {
			o.ffAns = []string{fmt.Sprintf("addr=A%d ref=nil upd=0 rnd=%d data=%s", a, mround, encOnl(trackerdb.BaseOnlineAccountData{}))}
			if r >= 256 {
				if upd, e, ok := latestIn(m.hist[1], a, r-256); ok {
					o.ffAns = []string{fmt.Sprintf("addr=A%d ref=ref upd=%d rnd=%d data=%s", a, upd, mround, encOnl(e.data))}
				}
			}
		}
	case 13: // LookupOnlineHistory
		// acctonline.lookupOnlineAccountData asks for the history only after LookupOnline returned a row for
		// the address, so only addresses that have (had) online rows are asked about (the rows may be gone by
		// now: a commit can prune them between the two calls).
		a := p[0] % nAddr
		for i := 0; i < nAddr && len(m.online[a]) == 0; i++ {
			a = (a + 1) % nAddr
		}
		if len(m.online[a]) == 0 {
			return s.buildRead(12, p, rc)
		}
		o.desc = fmt.Sprintf("LookupOnlineHistory(A%d)", a)
		o.run = func(b *backend) []string {
			return b.read(rc, func(rd readers) []string {
				ds, r, err := rd.oar.LookupOnlineHistory(addrs[a])
				if err != nil {
					return []string{"err=" + errClass(err)}
				}
				out := []string{fmt.Sprintf("rnd=%d n=%d", rnd(r), len(ds))}
				for _, d := range ds {
					out = append(out, fmt.Sprintf("addr=%s ref=%s upd=%d itemrnd=%d data=%s", addrName(d.Addr), refStr(d.Ref), rnd(d.UpdRound), rnd(d.Round), encOnl(d.AccountData)))
				}
				return out
			})
		}
		mround := m.round
		o.exp, o.expP = m.perVariant(func(h map[int]map[uint64]onlineEntry) []string {
			rs := sortedRounds(h[a])
			out := []string{fmt.Sprintf("rnd=%d n=%d", mround, len(rs))}
			for _, r := range rs {
				out = append(out, fmt.Sprintf("addr=A%d ref=ref upd=%d itemrnd=0 data=%s", a, r, encOnl(h[a][r].data)))
			}
			return out
		})
	case 14: // LookupOnlineRoundParams
		r := s.pickRound(m, p[0])
		o.desc = fmt.Sprintf("LookupOnlineRoundParams(%d)", r)
		o.run = func(b *backend) []string {
			return b.read(rc, func(rd readers) []string {
				d, err := rd.oar.LookupOnlineRoundParams(basics.Round(r))
				if err != nil {
					return []string{"err=" + errClass(err)}
				}
				return []string{"params=" + encParams(d)}
			})
		}
		if d, ok := m.params[r]; ok {
			o.exp = []string{"params=" + encParams(d)}
		} else {
			o.exp = []string{"err=notfound"}
		}
	case 15: // AccountsOnlineRoundParams
		o.desc = "AccountsOnlineRoundParams()"
		o.run = func(b *backend) []string {
			return b.read(rc, func(rd readers) []string {
				ds, end, err := rd.ext.AccountsOnlineRoundParams()
				if err != nil {
					return []string{"err=" + errClass(err)}
				}
				out := []string{fmt.Sprintf("end=%d n=%d", rnd(end), len(ds))}
				for _, d := range ds {
					out = append(out, "params="+encParams(d))
				}
				return out
			})
		}
		rs := sortedRounds(m.params)
		end := uint64(0)
		if len(rs) > 0 {
			end = rs[len(rs)-1]
		}
		o.exp = []string{fmt.Sprintf("end=%d n=%d", end, len(rs))}
		for _, r := range rs {
			o.exp = append(o.exp, "params="+encParams(m.params[r]))
		}
	case 16: // OnlineAccountsAll
		max := uint64(p[0] % 5) // 0 = all
		o.desc = fmt.Sprintf("OnlineAccountsAll(%d)", max)
		o.run = func(b *backend) []string {
			return b.read(rc, func(rd readers) []string {
				ds, err := rd.ext.OnlineAccountsAll(max)
				if err != nil {
					return []string{"err=" + errClass(err)}
				}
				out := []string{fmt.Sprintf("n=%d", len(ds))}
				for _, d := range ds {
					// item.Round is deliberately not compared: generickv fills it with the db round, the SQL query
					// does not select it (documented in generickv/accounts_ext_reader.go OnlineAccountsAll); the only
					// caller (onlineAccountsCache.init) reads Addr, AccountData and UpdRound.
					out = append(out, fmt.Sprintf("addr=%s ref=%s upd=%d data=%s", addrName(d.Addr), refStr(d.Ref), rnd(d.UpdRound), encOnl(d.AccountData)))
				}
				return out
			})
		}
		o.exp, o.expP = m.perVariant(func(h map[int]map[uint64]onlineEntry) []string {
			// rows ordered by (address bytes, updround); with max > 0 only the rows of the first max addresses
			var as []int
			for a := range h {
				as = append(as, a)
			}
			sort.Slice(as, func(i, j int) bool { return string(addrs[as[i]][:]) < string(addrs[as[j]][:]) })
			if max > 0 && uint64(len(as)) > max {
				as = as[:max]
			}
			var rows []string
			for _, a := range as {
				for _, r := range sortedRounds(h[a]) {
					rows = append(rows, fmt.Sprintf("addr=A%d ref=ref upd=%d data=%s", a, r, encOnl(h[a][r].data)))
				}
			}
			return append([]string{fmt.Sprintf("n=%d", len(rows))}, rows...)
		})
	case 17: // AccountsOnlineTop
		r := s.pickRound(m, p[0])
		offset := uint64(p[1] % 5)
		n := uint64(1 + p[2]%5)
		if p[2]%7 == 0 {
			n = 1024 // the batch size the ledger uses
			offset = 0
		}
		o.desc = fmt.Sprintf("AccountsOnlineTop(rnd=%d,offset=%d,n=%d)", r, offset, n)
		o.run = func(b *backend) []string {
			return b.read(rc, func(rd readers) []string {
				mp, err := rd.ext.AccountsOnlineTop(basics.Round(r), offset, n, ru)
				if err != nil {
					return []string{"err=" + errClass(err)}
				}
				return fmtOnlineTop(mp)
			})
		}
		if r >= m.onlFB {
			o.exp = m.onlineTop(r, offset, n, ru)
			o.devP = m.onlineTopPebble(r, offset, n, ru)
		}
	case 18: // ExpiredOnlineAccountsForRound
		r := s.pickRound(m, p[0])
		voteRnd := r + uint64(p[1]%12)
		level := uint64(10 + p[2]%3) // never below an account's RewardsBase (ledger invariant)
		o.desc = fmt.Sprintf("ExpiredOnlineAccountsForRound(rnd=%d,voteRnd=%d,level=%d)", r, voteRnd, level)
		o.run = func(b *backend) []string {
			return b.read(rc, func(rd readers) []string {
				mp, err := rd.ext.ExpiredOnlineAccountsForRound(basics.Round(r), basics.Round(voteRnd), ru, level)
				if err != nil {
					return []string{"err=" + errClass(err)}
				}
				return fmtExpired(mp)
			})
		}
		if r >= m.onlFB {
			o.exp = m.expired(r, voteRnd, ru, level)
		}
	case 19: // LoadTxTail
		o.desc = fmt.Sprintf("LoadTxTail(dbRound=%d)", m.round)
		dbr := m.round
		o.run = func(b *backend) []string {
			return b.read(rc, func(rd readers) []string {
				data, hashes, base, err := rd.ext.LoadTxTail(context.Background(), basics.Round(dbr))
				if err != nil {
					return []string{"err=" + errClass(err)}
				}
				out := []string{fmt.Sprintf("base=%d n=%d", rnd(base), len(data))}
				for i, d := range data {
					out = append(out, fmt.Sprintf("tail=%s hash=%x", hx(protocol.Encode(d)), hashes[i][:6]))
				}
				return out
			})
		}
		// reference: the stored rounds, contiguous downwards from the db round (every commit writes a row per round)
		var rs []uint64
		for r := dbr; ; r-- {
			if _, ok := m.txtail[r]; !ok {
				break
			}
			rs = append([]uint64{r}, rs...)
			if r == 0 {
				break
			}
		}
		if len(rs) == len(m.txtail) { // (a gap would be an error in both backends; never produced by the commits)
			base := dbr + 1
			if len(rs) > 0 {
				base = rs[0]
			}
			o.exp = []string{fmt.Sprintf("base=%d n=%d", base, len(rs))}
			for _, r := range rs {
				h := crypto.Hash(m.txtail[r])
				o.exp = append(o.exp, fmt.Sprintf("tail=%s hash=%x", hx(m.txtail[r]), h[:6]))
			}
		}
	case 20: // LookupSPContext
		last := uint64(p[0]%12) * 8
		o.desc = fmt.Sprintf("LookupSPContext(%d)", last)
		o.run = func(b *backend) []string {
			return b.read(rc, func(rd readers) []string {
				c, err := rd.sp.LookupSPContext(basics.Round(last))
				if err != nil {
					return []string{"err=" + errClass(err)}
				}
				return []string{"ctx=" + hx(protocol.Encode(c))}
			})
		}
		if c, ok := m.sp[last]; ok {
			o.exp = []string{"ctx=" + hx(protocol.Encode(&c))}
		} else {
			o.exp = []string{"err=notfound"}
		}
	case 21: // GetAllSPContexts
		o.desc = "GetAllSPContexts()"
		o.run = func(b *backend) []string {
			return b.read(rc, func(rd readers) []string {
				cs, err := rd.sp.GetAllSPContexts(context.Background())
				if err != nil {
					return []string{"err=" + errClass(err)}
				}
				out := []string{fmt.Sprintf("n=%d", len(cs))}
				for i := range cs {
					out = append(out, "ctx="+hx(protocol.Encode(&cs[i])))
				}
				return out
			})
		}
		rs := sortedRounds(m.sp)
		o.exp = []string{fmt.Sprintf("n=%d", len(rs))}
		for _, r := range rs {
			c := m.sp[r]
			o.exp = append(o.exp, "ctx="+hx(protocol.Encode(&c)))
		}
	case 22: // LookupLimitedResources: SQLite only ("not supported" by generickv; documented)
		a := p[0] % nAddr
		minIdx := basics.CreatableIndex([]uint64{0, 1, 2, 255, 256}[p[1]%5])
		max := uint64(1 + p[2]%4)
		ct := basics.CreatableType(p[3] % 2)
		o.pebbleSkip = true
		o.desc = fmt.Sprintf("LookupLimitedResources(A%d,>%d,max=%d,ctype=%d) [sqlite only]", a, minIdx, max, ct)
		o.run = func(b *backend) []string {
			return b.read(rc, func(rd readers) []string {
				ds, r, err := rd.ar.LookupLimitedResources(addrs[a], minIdx, max, ct)
				if err != nil {
					return []string{"err=" + errClass(err)}
				}
				out := []string{fmt.Sprintf("n=%d", len(ds))}
				_ = r
				for _, d := range ds {
					out = append(out, fmt.Sprintf("aidx=%d", d.Aidx))
				}
				return out
			})
		}
		var want []string
		for _, c := range m.resourcesOf(a) {
			d := m.res[resKey{a, c}]
			isType := (ct == basics.AssetCreatable && d.IsAsset()) || (ct == basics.AppCreatable && d.IsApp())
			if c > minIdx && isType && uint64(len(want)) < max {
				want = append(want, fmt.Sprintf("aidx=%d", c))
			}
		}
		o.exp = append([]string{fmt.Sprintf("n=%d", len(want))}, want...)
	case 23: // walk a whole prefix page by page with the cursor protocol acctupdates uses (next cursor = last key)
		prefix := kvPrefixes[p[0]%len(kvPrefixes)]
		limit := uint64(1 + p[1]%3)
		maxBytes := []uint64{0, 0, 20}[p[2]%3]
		incl := p[3]%2 == 0
		o.name = "LookupKeysByPrefixCursor"
		o.desc = fmt.Sprintf("walk LookupKeysByPrefixCursor(%q,limit=%d,maxBytes=%d,values=%v) until moreData=false", prefix, limit, maxBytes, incl)
		o.run = func(b *backend) []string {
			return b.read(rc, func(rd readers) []string {
				var out []string
				cursor := ""
				for page := 0; page < 40; page++ {
					r, kvs, more, err := rd.ar.LookupKeysByPrefixCursor(prefix, cursor, limit, maxBytes, incl, nil)
					if err != nil {
						return append(out, "err="+errClass(err))
					}
					out = append(out, fmtKvPage(rnd(r), kvs, more)...)
					if !more || len(kvs) == 0 {
						break
					}
					cursor = kvs[len(kvs)-1].Key
				}
				return out
			})
		}
		o.emptyAns = []string{fmt.Sprintf("rnd=%d n=0", m.round), "more=false"}
		cursor := ""
		for page := 0; page < 40; page++ {
			pg := m.kvPage(prefix, cursor, limit, maxBytes, incl, nil)
			o.exp = append(o.exp, pg...)
			if pg[len(pg)-1] != "more=true" || len(pg) == 2 {
				break
			}
			cursor = m.lastKeyOfPage(prefix, cursor, limit, maxBytes, incl)
		}
	case 24: // page through the top-online listing the way onlineAccounts.TopOnlineAccounts does (offset += batch)
		r := s.pickRound(m, p[0])
		batch := uint64(1 + p[1]%3)
		o.name = "AccountsOnlineTop"
		o.desc = fmt.Sprintf("walk AccountsOnlineTop(rnd=%d,batch=%d)", r, batch)
		o.run = func(b *backend) []string {
			return b.read(rc, func(rd readers) []string {
				var out []string
				for off := uint64(0); off < 12; off += batch {
					mp, err := rd.ext.AccountsOnlineTop(basics.Round(r), off, batch, ru)
					if err != nil {
						return append(out, "err="+errClass(err))
					}
					out = append(out, fmt.Sprintf("offset=%d", off))
					out = append(out, fmtOnlineTop(mp)...)
					if len(mp) == 0 {
						break
					}
				}
				return out
			})
		}
		if r >= m.onlFB {
			for off := uint64(0); off < 12; off += batch {
				pg := m.onlineTop(r, off, batch, ru)
				o.exp = append(o.exp, fmt.Sprintf("offset=%d", off))
				o.exp = append(o.exp, pg...)
				if pg[0] == "n=0" {
					break
				}
			}
			for off := uint64(0); off < 12; off += batch {
				pg := m.onlineTopPebble(r, off, batch, ru)
				o.devP = append(o.devP, fmt.Sprintf("offset=%d", off))
				o.devP = append(o.devP, pg...)
				if pg[0] == "n=0" {
					break
				}
			}
		}
	}
	return o
}

func contains(ss []string, x string) bool {
	for _, s := range ss {
		if s == x {
			return true
		}
	}
	return false
}

func fmtBoolMap(m map[string]bool) string {
	ks := make([]string, 0, len(m))
	for k := range m {
		ks = append(ks, k)
	}
	sort.Strings(ks)
	var sb strings.Builder
	for i, k := range ks {
		if i > 0 {
			sb.WriteByte(',')
		}
		fmt.Fprintf(&sb, "%s:%v", keyName(k), m[k])
	}
	return "{" + sb.String() + "}"
}

func parseBoolMap(s string) map[string]bool {
	out := map[string]bool{}
	s = strings.Trim(s, "{}")
	if s == "" {
		return out
	}
	for _, part := range strings.Split(s, ",") {
		i := strings.LastIndexByte(part, ':')
		name := part[:i]
		key := name
		for j, k := range kvKeys {
			if name == fmt.Sprintf("k%d", j) {
				key = k
			}
		}
		out[key] = part[i+1:] == "true"
	}
	return out
}

func fmtKeySet(m map[string][]byte) string {
	ks := make([]string, 0, len(m))
	for k := range m {
		ks = append(ks, keyName(k))
	}
	sort.Strings(ks)
	return "{" + strings.Join(ks, ",") + "}"
}

func fmtKvPage(r uint64, kvs []ledgercore.KvPairResult, more bool) []string {
	out := []string{fmt.Sprintf("rnd=%d n=%d", r, len(kvs))}
	for _, kv := range kvs {
		out = append(out, fmt.Sprintf("key=%s val=%s", keyName(kv.Key), hx(kv.Value)))
	}
	return append(out, fmt.Sprintf("more=%v", more))
}

func fmtOnlineTop(mp map[basics.Address]*ledgercore.OnlineAccount) []string {
	type row struct {
		name string
		s    string
	}
	var rows []row
	for a, oa := range mp {
		rows = append(rows, row{addrName(a), fmt.Sprintf("addr=%s self=%s algos=%d rbase=%d norm=%d vfv=%d vlv=%d sp=%x", addrName(a), addrName(oa.Address), oa.MicroAlgos.Raw, oa.RewardsBase, oa.NormalizedOnlineBalance, oa.VoteFirstValid, oa.VoteLastValid, oa.StateProofID[:2])})
	}
	sort.Slice(rows, func(i, j int) bool { return rows[i].name < rows[j].name })
	out := []string{fmt.Sprintf("n=%d", len(rows))}
	for _, r := range rows {
		out = append(out, r.s)
	}
	return out
}

func fmtExpired(mp map[basics.Address]*basics.OnlineAccountData) []string {
	type row struct {
		name string
		s    string
	}
	var rows []row
	for a, d := range mp {
		rows = append(rows, row{addrName(a), fmt.Sprintf("addr=%s algos=%d vid=%x vfv=%d vlv=%d kd=%d ie=%v lp=%d lh=%d", addrName(a), d.MicroAlgosWithRewards.Raw, d.VoteID[:1], d.VoteFirstValid, d.VoteLastValid, d.VoteKeyDilution, d.IncentiveEligible, d.LastProposed, d.LastHeartbeat)})
	}
	sort.Slice(rows, func(i, j int) bool { return rows[i].name < rows[j].name })
	out := []string{fmt.Sprintf("n=%d", len(rows))}
	for _, r := range rows {
		out = append(out, r.s)
	}
	return out
}

// ---- reference answers for the listing readers

// kvPage: keys with the prefix, strictly after cursor, not excluded, in byte order; stop at limit (0 = none)
// or before the item that would exceed maxBytes (0 = none; the first item always fits); more = another
// qualifying key exists.
func (m *model) kvPageKeys(prefix, cursor string, limit, maxBytes uint64, incl bool, excl map[string][]byte) (page []string, more bool) {
	var q []string
	for _, k := range m.sortedKeys() {
		if strings.HasPrefix(k, prefix) && k > cursor {
			if _, x := excl[k]; !x {
				q = append(q, k)
			}
		}
	}
	var bytes uint64
	for i, k := range q {
		sz := uint64(len(k))
		if incl {
			sz += uint64(len(m.kv[k]))
		}
		if maxBytes > 0 && bytes+sz > maxBytes && len(page) > 0 {
			return page, true
		}
		page = append(page, k)
		bytes += sz
		if limit > 0 && uint64(len(page)) >= limit {
			return page, i+1 < len(q)
		}
	}
	return page, false
}

func (m *model) kvPage(prefix, cursor string, limit, maxBytes uint64, incl bool, excl map[string][]byte) []string {
	page, more := m.kvPageKeys(prefix, cursor, limit, maxBytes, incl, excl)
	out := []string{fmt.Sprintf("rnd=%d n=%d", m.round, len(page))}
	for _, k := range page {
		v := "nil"
		if incl {
			v = hx(m.kv[k])
		}
		out = append(out, fmt.Sprintf("key=%s val=%s", keyName(k), v))
	}
	return append(out, fmt.Sprintf("more=%v", more))
}

func (m *model) lastKeyOfPage(prefix, cursor string, limit, maxBytes uint64, incl bool) string {
	page, _ := m.kvPageKeys(prefix, cursor, limit, maxBytes, incl, nil)
	if len(page) == 0 {
		return cursor
	}
	return page[len(page)-1]
}

// onlineTop: per address the newest entry with updround <= rnd; keep normalized balance > 0; order by
// (normalized balance desc, address desc); window [offset, offset+n).
func (m *model) onlineTop(r, offset, n, rewardUnit uint64) []string {
	type cand struct {
		a int
		e onlineEntry
	}
	var cs []cand
	for a := 0; a < nAddr; a++ {
		if _, e, ok := m.latestOnline(a, r); ok && e.norm > 0 {
			cs = append(cs, cand{a, e})
		}
	}
	sort.Slice(cs, func(i, j int) bool {
		if cs[i].e.norm != cs[j].e.norm {
			return cs[i].e.norm > cs[j].e.norm
		}
		return string(addrs[cs[i].a][:]) > string(addrs[cs[j].a][:])
	})
	mp := map[basics.Address]*ledgercore.OnlineAccount{}
	for i := offset; i < offset+n && i < uint64(len(cs)); i++ {
		c := cs[i]
		d := c.e.data
		mp[addrs[c.a]] = &ledgercore.OnlineAccount{Address: addrs[c.a], MicroAlgos: d.MicroAlgos, RewardsBase: d.RewardsBase,
			NormalizedOnlineBalance: basics.NormalizedOnlineAccountBalance(basics.Online, d.RewardsBase, d.MicroAlgos, rewardUnit),
			VoteFirstValid:          d.VoteFirstValid, VoteLastValid: d.VoteLastValid, StateProofID: d.StateProofID}
	}
	return fmtOnlineTop(mp)
}

// expired: per address the newest entry with updround <= rnd; reported if 0 < VoteLastValid < voteRnd.
func (m *model) expired(r, voteRnd, rewardUnit, level uint64) []string {
	mp := map[basics.Address]*basics.OnlineAccountData{}
	for a := 0; a < nAddr; a++ {
		if _, e, ok := m.latestOnline(a, r); ok && e.data.VoteLastValid > 0 && uint64(e.data.VoteLastValid) < voteRnd {
			d := e.data
			algos, _, _ := basics.WithUpdatedRewards(rewardUnit, basics.Online, d.MicroAlgos, basics.MicroAlgos{}, d.RewardsBase, level)
			mp[addrs[a]] = &basics.OnlineAccountData{MicroAlgosWithRewards: algos,
				VotingData:        basics.VotingData{VoteID: d.VoteID, SelectionID: d.SelectionID, StateProofID: d.StateProofID, VoteFirstValid: d.VoteFirstValid, VoteLastValid: d.VoteLastValid, VoteKeyDilution: d.VoteKeyDilution},
				IncentiveEligible: d.IncentiveEligible, LastProposed: d.LastProposed, LastHeartbeat: d.LastHeartbeat}
		}
	}
	return fmtExpired(mp)
}

// perVariant evaluates a reference answer on the sqlitedriver-documented and on the generickv-documented
// pruning of the online-account table; the second result is nil when both agree.
func (m *model) perVariant(f func(h map[int]map[uint64]onlineEntry) []string) (exp, expP []string) {
	exp = f(m.hist[0])
	p := f(m.hist[1])
	if !eq(exp, p) {
		expP = p
	}
	return
}

// onlineTopPebble is the known, deviating behaviour of generickv.AccountsOnlineTop, written from its code
// comments: a reverse scan of the secondary index rows (round, normalized balance, address) with round <= rnd;
// the first `offset` ROWS are skipped, then up to n rows are consumed, a row of an address already collected
// being consumed without effect; offline rows (balance 0) are not filtered. It runs on the Pebble variant of
// the pruned table. Pebble's answer must equal either the reference answer or exactly this.
func (m *model) onlineTopPebble(r, offset, n, rewardUnit uint64) []string {
	type row struct {
		upd  uint64
		norm uint64
		a    int
		e    onlineEntry
	}
	var rows []row
	for a, h := range m.hist[1] {
		for upd, e := range h {
			if upd <= r {
				rows = append(rows, row{upd, e.norm, a, e})
			}
		}
	}
	sort.Slice(rows, func(i, j int) bool {
		x, y := rows[i], rows[j]
		if x.upd != y.upd {
			return x.upd > y.upd
		}
		if x.norm != y.norm {
			return x.norm > y.norm
		}
		return string(addrs[x.a][:]) > string(addrs[y.a][:])
	})
	mp := map[basics.Address]*ledgercore.OnlineAccount{}
	i := offset
	for k := uint64(0); k < n; k++ {
		if i >= uint64(len(rows)) {
			break
		}
		c := rows[i]
		i++
		if _, dup := mp[addrs[c.a]]; dup {
			continue
		}
		d := c.e.data
		mp[addrs[c.a]] = &ledgercore.OnlineAccount{Address: addrs[c.a], MicroAlgos: d.MicroAlgos, RewardsBase: d.RewardsBase,
			NormalizedOnlineBalance: basics.NormalizedOnlineAccountBalance(basics.Online, d.RewardsBase, d.MicroAlgos, rewardUnit),
			VoteFirstValid:          d.VoteFirstValid, VoteLastValid: d.VoteLastValid, StateProofID: d.StateProofID}
	}
	return fmtOnlineTop(mp)
}
