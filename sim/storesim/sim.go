package storesim

import (
	"context"
	"fmt"
	"os"
	"path/filepath"
	"sort"
	"strings"
	"testing"

	"github.com/algorand/go-deadlock"

	"github.com/algorand/go-algorand/data/basics"
	"github.com/algorand/go-algorand/ledger/ledgercore"
	"github.com/algorand/go-algorand/ledger/store/trackerdb"

	"verif/sim/kernel"
)

func init() {
	deadlock.Opts.Disable = true
}

// Config is the per-run configuration (the "cfg.*" prefix of the tape).
type Config struct {
	Steps          int
	BaseRound      uint64 // round the stores are moved to before the steps start
	OnlineLookback int    // stands in for MaxBalLookback: OnlineAccountsDelete / params prune horizon
	TailRetain     int    // stands in for MaxTxnLife+DeeperBlockHeaderHistory: txtail horizon
	Genesis        int    // number of genesis accounts handed to RunMigrations
	FRollback      bool   // fault kinds enabled in this run (swarm)
	FExplicit      bool
	FReopen        bool
	FSnapshot      bool
}

// Sim is one run.
type Sim struct {
	tape  *kernel.Tape
	log   *kernel.Log
	cfg   Config
	dir   string
	sq    *backend
	pb    *backend
	m     *model
	snapM *model // model as of the held snapshot
	stats map[string]int64
	viol  *kernel.Violation
	known []kernel.Violation
	seenK map[string]bool
	harn  string
	step  int
	ops   []string
	state map[string]bool
}

func (s *Sim) stat(k string, d int64) { s.stats[k] += d }

func (s *Sim) modelFor(rc int) *model {
	if rc == ctxHeld && s.snapM != nil {
		return s.snapM
	}
	return s.m
}

var baseRounds = []uint64{0, 249, 65530, 1<<32 - 6, 16777210}

func drawConfig(tp *kernel.Tape, tier string) Config {
	var c Config
	lo, hi := 50, 140
	if tier == "thorough" {
		lo, hi = 100, 420
	}
	c.Steps = tp.Range("cfg.steps", lo, hi)
	c.BaseRound = baseRounds[tp.Choose("cfg.base", len(baseRounds))]
	c.OnlineLookback = tp.Range("cfg.lookback", 2, 6)
	c.TailRetain = tp.Range("cfg.tail", 3, 9)
	c.Genesis = tp.Range("cfg.genesis", 0, 3)
	c.FRollback = tp.Chance("cfg.f.rollback", 1, 2)
	c.FExplicit = tp.Chance("cfg.f.explicit", 1, 2)
	c.FReopen = tp.Chance("cfg.f.reopen", 1, 2)
	c.FSnapshot = tp.Chance("cfg.f.snapshot", 1, 2)
	return c
}

// softKnown: a difference of an OPEN known-finding class (known_findings.json, passed by the driver in
// VERIF_KNOWN_KEYS) is recorded and the run goes on. In a replay (VERIF_REPLAY), or with VERIF_KNOWN_HARD=1,
// every class is an ordinary violation; VERIF_KNOWN_HARD=<key> makes just that class one (used to produce
// and to re-check the minimal replays under findings/C47-*).
func softKnown(key string) bool {
	if !kernel.KnownKey("C47", key) {
		return false
	}
	if h := os.Getenv("VERIF_KNOWN_HARD"); h != "" {
		return !(h == "1" || h == key)
	}
	return os.Getenv("VERIF_REPLAY") == ""
}

// differ reports a difference. A difference whose key is an open known finding is recorded (once per
// run) and the run goes on; anything else ends the run as a violation.
func (s *Sim) differ(oracle, key, detail string) bool {
	v := kernel.Violation{Property: "C47", Oracle: oracle, Key: key, Detail: detail, Step: s.step}
	if softKnown(key) {
		s.stat("known."+key, 1)
		if !s.seenK[key] {
			s.seenK[key] = true
			s.known = append(s.known, v)
			s.log.Add("KNOWN %s", key)
		}
		return false
	}
	if s.viol == nil {
		s.viol = &v
		s.log.Add("VIOLATION %s/%s: %s", oracle, key, detail)
	}
	return true
}

func firstDiff(a, b []string) string {
	for i := 0; i < len(a) || i < len(b); i++ {
		var x, y string
		if i < len(a) {
			x = a[i]
		} else {
			x = "<no line>"
		}
		if i < len(b) {
			y = b[i]
		} else {
			y = "<no line>"
		}
		if x != y {
			return fmt.Sprintf("line %d: %s  VS  %s", i, x, y)
		}
	}
	return ""
}

func eq(a, b []string) bool {
	if len(a) != len(b) {
		return false
	}
	for i := range a {
		if a[i] != b[i] {
			return false
		}
	}
	return true
}

// execOp runs an operation on both backends and applies the two oracles.
func (s *Sim) execOp(o *op) {
	rs := o.run(s.sq)
	s.log.Add("%d %s", s.step, o.desc)
	s.noteOp(o.desc)
	for _, l := range rs {
		s.log.Add("  sqlite: %s", l)
	}
	s.stat("op."+o.name, 1)
	if len(rs) > 1 || (len(rs) == 1 && !strings.Contains(rs[0], "notfound") && !strings.Contains(rs[0], "n=0")) {
		s.stat("reads_nonempty", 1)
	}
	s.stat("reads", 1)
	// reference oracle on SQLite's answer (so that both being wrong the same way is still seen)
	s.refCheck(o, "sqlite", rs)
	if o.pebbleSkip {
		s.stat("pebble_skipped."+o.name, 1)
		return
	}
	rp := o.run(s.pb)
	if !eq(rs, rp) {
		for _, l := range rp {
			s.log.Add("  pebble: %s", l)
		}
		if o.expP != nil && (eq(rs, o.exp) || sqliteEmptyHistoryErr(o, rs)) && eq(rp, o.expP) {
			// each backend prunes the online-account table exactly as its own OnlineAccountsDelete documents
			s.differ("backend-mismatch", keyOnlineDelete, fmt.Sprintf("step %d %s: the online-account tables differ after OnlineAccountsDelete: %s", s.step, o.desc, firstDiff(rs, rp)))
			return
		}
		key := s.classify(o, rs, rp)
		s.differ("backend-mismatch", key, fmt.Sprintf("step %d %s: sqlite and pebble answer differently: %s", s.step, o.desc, firstDiff(rs, rp)))
		// still hold Pebble against the reference under its own class
		if o.expP == nil && key == o.name {
			s.refCheck(o, "pebble", rp)
		}
	} else if o.expP != nil && eq(rs, o.exp) {
		// the variants predict a difference that did not show
		s.differ("reference-mismatch", o.name+"/pebble", fmt.Sprintf("step %d %s: pebble disagrees with the reference model of its own pruning rule: %s", s.step, o.desc, firstDiff(o.expP, rp)))
	}
}

const keyOnlineDelete = "OnlineAccountsDelete/pebble-horizon-inclusive-and-blind-to-own-inserts"

func (s *Sim) refCheck(o *op, who string, lines []string) {
	if o.exp != nil {
		s.stat("ref_checked", 1)
		if !eq(o.exp, lines) {
			s.differ("reference-mismatch", s.refKey(o, who, lines), fmt.Sprintf("step %d %s: %s disagrees with the reference model (model VS %s): %s", s.step, o.desc, who, who, firstDiff(o.exp, lines)))
		}
	} else if o.chk != nil {
		s.stat("ref_checked", 1)
		if why := o.chk(lines); why != "" {
			s.differ("reference-mismatch", s.refKey(o, who, lines), fmt.Sprintf("step %d %s: %s disagrees with the reference model: %s (answer: %s)", s.step, o.desc, who, why, strings.Join(lines, " / ")))
		}
	}
}

// classify gives a difference its stable key: the reader/writer involved, refined for known classes.
func (s *Sim) classify(o *op, rs, rp []string) string {
	switch o.name {
	case "LookupKeysByPrefix", "LookupKeysByPrefixCursor":
		// SQLite agrees with the reference and Pebble found no stored key at all
		if o.emptyAns != nil && eq(rp, o.emptyAns) && s.refOK(o, rs) {
			return o.name + "/pebble-scans-raw-keyspace"
		}
	case "LookupOnline":
		// generickv builds the exclusive upper bound of its range by incrementing the last byte of the round:
		// for rounds ending in 0xff the byte wraps and the range is empty
		if o.ffAns != nil && eq(rs, o.exp) && eq(rp, o.ffAns) {
			return keyOnlineFF
		}
	case "LookupOnlineHistory":
		if sqliteEmptyHistoryErr(o, rs) && eq(rp, o.exp) {
			return keyHistoryEmpty
		}
	case "AccountsOnlineTop":
		if o.devP != nil && eq(rs, o.exp) && eq(rp, o.devP) {
			return keyOnlineTop
		}
	}
	return o.name
}

const keyOnlineTop = "AccountsOnlineTop/pebble-pages-raw-balance-index"

func (s *Sim) refOK(o *op, lines []string) bool {
	if o.exp != nil {
		return eq(o.exp, lines)
	}
	if o.chk != nil {
		return o.chk(lines) == ""
	}
	return false
}

const keyOnlineFF = "LookupOnline/pebble-round-low-byte-ff"
const keyHistoryEmpty = "LookupOnlineHistory/sqlite-errors-on-empty-history"

// sqlitedriver's LookupOnlineHistory scans the NULL row of its LEFT JOIN into an int64 when the address has
// no rows (any more) and returns an error where generickv returns an empty list.
func sqliteEmptyHistoryErr(o *op, lines []string) bool {
	return o.name == "LookupOnlineHistory" && len(lines) == 1 && lines[0] == "err=err" && len(o.exp) == 1 && strings.HasSuffix(o.exp[0], " n=0")
}

func (s *Sim) refKey(o *op, who string, lines []string) string {
	if who == "sqlite" && sqliteEmptyHistoryErr(o, lines) {
		return keyHistoryEmpty
	}
	if who == "pebble" && o.emptyAns != nil && eq(lines, o.emptyAns) {
		return o.name + "/pebble-scans-raw-keyspace"
	}
	if who == "pebble" && o.devP != nil && eq(lines, o.devP) {
		return keyOnlineTop
	}
	return o.name + "/" + who
}

func (s *Sim) noteOp(d string) {
	if len(s.ops) < 40 {
		s.ops = append(s.ops, fmt.Sprintf("%d %s", s.step, d))
	}
}

// ---- the step loop

const drawN = 1 << 16
const nParams = 14

var mutWeights = []int{3, 5, 2, 4, 2, 5, 2, 2, 1, 6, 2} // none, acct set, acct close, res set, res del, kv set, kv del, creat, creat del, online, offline

func pickW(raw int, w []int) int {
	tot := 0
	for _, x := range w {
		tot += x
	}
	v := raw % tot
	for i, x := range w {
		if v < x {
			return i
		}
		v -= x
	}
	return 0
}

const (
	fNone = iota
	fRollback
	fExplicit
	fReopen
)

const (
	oCommit = iota
	oRead
	oBatch
	oSnapOpen
	oSnapClose
	oReopen
)

func (s *Sim) doStep() {
	tp := s.tape
	base := len(tp.Rec)
	rFault := tp.Choose("step.fault", drawN)
	rOp := tp.Choose("step.op", drawN)
	var p [nParams]int
	for i := range p {
		p[i] = tp.Choose("step.p", drawN)
	}
	used := 0 // number of params the op looked at; the rest are canonicalised to 0
	defer func() {
		for i := used; i < nParams; i++ {
			tp.Canon(base+2+i, 0)
		}
	}()

	// fault accompanying the op (0 = none)
	fault := fNone
	switch v := rFault % 100; {
	case v >= 94 && s.cfg.FRollback:
		fault = fRollback
	case v >= 90 && v < 94 && s.cfg.FExplicit:
		fault = fExplicit
	case v >= 86 && v < 90 && s.cfg.FReopen:
		fault = fReopen
	}
	opk := pickW(rOp, []int{30, 58, 3, 3, 2, 1})
	if (opk == oSnapOpen || opk == oSnapClose) && !s.cfg.FSnapshot {
		opk = oRead
	}
	if opk == oSnapOpen && s.sq.snap != nil {
		opk = oRead
	}
	if opk == oSnapClose && s.sq.snap == nil {
		opk = oRead
	}
	if opk == oReopen && !s.cfg.FReopen {
		opk = oRead
	}
	effFault := fNone
	switch opk {
	case oCommit, oBatch:
		used = nParams
		plan := s.buildPlan(p[:], opk == oBatch)
		switch fault {
		case fRollback:
			plan.rollback = true
			effFault = fRollback
			s.stat("fault.rollback", 1)
		case fExplicit:
			if !plan.batch {
				plan.mode = modeExplicit
				plan.rollback = p[13]%2 == 1
				effFault = fExplicit
				s.stat("fault.explicit_tx", 1)
				if plan.rollback {
					s.stat("fault.rollback", 1)
				}
			}
		}
		s.execCommit(plan)
		if fault == fReopen && s.viol == nil {
			effFault = fReopen
			s.reopen()
		}
	case oRead:
		used = 10
		if fault == fReopen {
			effFault = fReopen
			s.reopen()
		}
		kind := pickW(p[9], readWeights[:])
		rc := ctxDirect
		switch p[8] % 4 {
		case 1:
			rc = ctxSnapFn
		case 2, 3:
			if s.sq.snap != nil {
				rc = ctxHeld
				s.stat("read_in_held_snapshot", 1)
				if s.snapM.round != s.m.round {
					s.stat("read_in_held_snapshot_after_commit", 1)
				}
			}
		}
		if s.harn == "" {
			s.execOp(s.buildRead(kind, p[:8], rc))
		}
	case oSnapOpen:
		s.openSnapshot()
	case oSnapClose:
		s.closeSnapshot()
	case oReopen:
		effFault = fReopen
		s.reopen()
	}
	tp.Canon(base, map[int]int{fNone: 0, fRollback: 97, fExplicit: 91, fReopen: 87}[effFault])
}

func (s *Sim) openSnapshot() {
	s.log.Add("%d snapshot-open", s.step)
	for _, b := range []*backend{s.sq, s.pb} {
		sn, err := b.store.BeginSnapshot(context.Background())
		if err != nil {
			s.harn = fmt.Sprintf("%s BeginSnapshot: %v", b.name, err)
			return
		}
		b.snap = sn
	}
	s.snapM = s.m.clone()
	s.stat("snapshot_opened", 1)
	// The snapshot point is its first read: SQLite's read transaction is deferred (it starts at the first
	// query), Pebble's snapshot starts at NewSnapshot. Both are valid; pin both here, as every Snapshot()
	// user in ledger/ reads immediately.
	s.execOp(s.buildRead(7, make([]int, 8), ctxHeld))
}

func (s *Sim) closeSnapshot() {
	s.log.Add("%d snapshot-close", s.step)
	for _, b := range []*backend{s.sq, s.pb} {
		if b.snap != nil {
			b.snap.Close()
			b.snap = nil
		}
	}
	s.snapM = nil
}

func (s *Sim) reopen() {
	s.log.Add("%d reopen both stores from their files", s.step)
	s.closeSnapshot()
	for _, b := range []*backend{s.sq, s.pb} {
		b.close()
		if err := b.open(); err != nil {
			s.harn = err.Error()
			return
		}
		// the ledger re-runs the migrations on every start; they must be a no-op on an up-to-date store
		mgr, err := b.migrate(trackerdb.Params{InitProto: Proto})
		if err != nil {
			s.differ("backend-mismatch", "RunMigrations/"+b.name, fmt.Sprintf("step %d: RunMigrations on reopen of %s failed: %v", s.step, b.name, err))
			return
		}
		s.log.Add("  %s: schema=%d", b.name, mgr.SchemaVersion)
		if err := b.makeReaders(); err != nil {
			s.harn = err.Error()
			return
		}
	}
	s.stat("fault.reopen", 1)
}

func (s *Sim) execCommit(p *commitPlan) {
	s.log.Add("%d %s", s.step, p.describe())
	s.noteOp(p.describe())
	ts, cs := s.sq.runCommit(p)
	for _, l := range ts {
		s.log.Add("  sqlite: %s", l)
	}
	tpb, cp := s.pb.runCommit(p)
	for _, l := range ts {
		if strings.HasPrefix(l, "UpdateResource(upgraded insert)") {
			s.stat("sqlite_rowid_reused_in_commit", 1)
		}
	}
	name := "commit"
	if p.batch {
		name = "batch"
	}
	s.stat("op."+name, 1)
	if !eq(normRowIDReuse(ts), normRowIDReuse(tpb)) {
		for _, l := range tpb {
			s.log.Add("  pebble: %s", l)
		}
		ts, tpb := normRowIDReuse(ts), normRowIDReuse(tpb)
		// the only tolerated difference: the "old online row" each store loads differs exactly as the two
		// documented pruning rules predict (known finding); everything else in the transcript must be equal
		ns, okS := normOldOnline(ts, s.oldOnlineExp(p, 0))
		np, okP := normOldOnline(tpb, s.oldOnlineExp(p, 1))
		if okS && okP && eq(ns, np) {
			s.differ("backend-mismatch", keyOnlineDelete, fmt.Sprintf("step %d %s: the stores load different old online rows after OnlineAccountsDelete: %s", s.step, p.describe(), firstDiff(ts, tpb)))
		} else {
			s.differ("backend-mismatch", writerOf(ts, tpb), fmt.Sprintf("step %d %s: the two stores answered differently inside the transaction: %s", s.step, p.describe(), firstDiff(ts, tpb)))
		}
	}
	want := !p.rollback
	if cs != want {
		s.differ("reference-mismatch", "commit/sqlite", fmt.Sprintf("step %d %s: sqlite transaction outcome %v, expected committed=%v: %s", s.step, p.describe(), cs, want, strings.Join(ts, " / ")))
	}
	if cp != want {
		s.differ("reference-mismatch", "commit/pebble", fmt.Sprintf("step %d %s: pebble transaction outcome %v, expected committed=%v: %s", s.step, p.describe(), cp, want, strings.Join(tpb, " / ")))
	}
	if cs && cp {
		s.m.apply(p)
		s.stat("commits", 1)
		s.state[s.m.digest()] = true
	} else if !cs && !cp {
		s.stat("rolled_back", 1)
	}
}

// normRowIDReuse removes a row-id representation difference from a commit transcript before comparison.
// SQLite may give a new account the row id of an account deleted in the same commit; accountsNewRoundImpl then
// finds the new account's resource (ref, aidx) in its pending-deletion set and turns "insert new + delete old"
// into one update ("addrid might get reused", ledger/acctdeltas.go). Pebble refs are addresses and never
// collide, so there the ledger issues the insert and the delete. Same rows afterwards (checked by the reads).
// Canonical form: the upgraded update is written as the insert plus the delete it replaced, and the deletes
// (whose order is a Go map iteration in the ledger) are sorted and moved to the end.
func normRowIDReuse(lines []string) []string {
	var out, dels []string
	for _, l := range lines {
		switch {
		case strings.HasPrefix(l, "UpdateResource(upgraded insert) "):
			f := strings.Fields(l) // UpdateResource(upgraded insert) A2/3 -> rows=1 ok
			tgt := f[2]
			out = append(out, "InsertResource "+tgt+" -> ref ok")
			dels = append(dels, "DeleteResource "+tgt[strings.IndexByte(tgt, '/')+1:]+" -> rows=1 ok")
		case strings.HasPrefix(l, "DeleteResource "):
			dels = append(dels, l)
		default:
			out = append(out, l)
		}
	}
	sort.Strings(dels)
	return append(out, dels...)
}

// oldOnlineExp: the "oldonline" lines variant v of the model predicts for this plan.
func (s *Sim) oldOnlineExp(p *commitPlan, v int) map[string]string {
	out := map[string]string{}
	for _, d := range p.onl {
		pre := fmt.Sprintf("oldonline A%d ", d.a)
		if _, e, ok := latestIn(s.m.hist[v], d.a, ^uint64(0)); ok {
			out[pre] = pre + "ref=ref data=" + encOnl(e.data)
		} else {
			out[pre] = pre + "none"
		}
	}
	return out
}

// normOldOnline blanks the oldonline lines that match the prediction; ok=false if one does not.
func normOldOnline(lines []string, exp map[string]string) ([]string, bool) {
	out := make([]string, len(lines))
	for i, l := range lines {
		out[i] = l
		if strings.HasPrefix(l, "oldonline ") {
			f := strings.SplitN(l, " ", 3)
			pre := f[0] + " " + f[1] + " "
			if exp[pre] != l {
				return nil, false
			}
			out[i] = pre + "<as predicted>"
		}
	}
	return out, true
}

// writerOf names the first store call whose answers differ.
func writerOf(a, b []string) string {
	for i := 0; i < len(a) || i < len(b); i++ {
		var x, y string
		if i < len(a) {
			x = a[i]
		}
		if i < len(b) {
			y = b[i]
		}
		if x != y {
			l := x
			if l == "" {
				l = y
			}
			f := strings.FieldsFunc(l, func(r rune) bool { return r == ' ' || r == '(' })
			if len(f) > 0 {
				return "commit/" + f[0]
			}
		}
	}
	return "commit"
}

// buildPlan turns the step's draws into a tracker commit the ledger could issue, given what exists.
func (s *Sim) buildPlan(p []int, batch bool) *commitPlan {
	m := s.m
	off := uint64(1 + p[0]%3)
	if (p[0]/3)%8 == 7 {
		// a wide flush: one commit spanning more rounds than the transaction-tail (and possibly the online) horizon,
		// as after a long catch-up; the cut-off then lies INSIDE the range being written (seeded change C47-a)
		off = uint64(4 + (p[0]/24)%7)
	}
	pl := &commitPlan{oldBase: m.round, newBase: m.round + off, batch: batch}
	if batch {
		pl.newBase = m.round
	}
	nb := pl.newBase
	touchedA := map[int]bool{}
	touchedR := map[resKey]bool{}
	touchedK := map[string]bool{}
	touchedC := map[basics.CreatableIndex]bool{}
	closing := map[int]bool{}
	creating := map[int]bool{}
	onlUpd := map[int]uint64{}
	for i := 0; i < 4; i++ {
		kind := pickW(p[1+3*i], mutWeights)
		tgt, val := p[2+3*i], p[3+3*i]
		ok := false
		switch kind {
		case 1: // account set
			a := tgt % nAddr
			if !batch && !touchedA[a] {
				touchedA[a] = true
				if _, ex := m.accts[a]; !ex {
					creating[a] = true
				}
				pl.accts = append(pl.accts, acctDelta{a, mkAccount(val, nb), (val>>8)%2 == 0})
				ok = true
			}
		case 2: // account close (its resources go in the same commit)
			a := tgt % nAddr
			if _, ex := m.accts[a]; ex && !batch && !touchedA[a] {
				busy := false
				for k := range touchedR {
					if k.a == a {
						busy = true
					}
				}
				if !busy {
					touchedA[a] = true
					closing[a] = true
					pl.accts = append(pl.accts, acctDelta{a, trackerdb.BaseAccountData{UpdateRound: nb}, (val>>8)%2 == 0})
					for _, c := range m.resourcesOf(a) {
						touchedR[resKey{a, c}] = true
						pl.res = append(pl.res, resDelta{a, c, trackerdb.MakeResourcesData(nb)})
					}
					ok = true
				}
			}
		case 3: // resource set
			a := tgt % nAddr
			c := cidxs[(tgt/nAddr)%len(cidxs)]
			_, ex := m.accts[a]
			if !batch && (ex || creating[a]) && !closing[a] && !touchedR[resKey{a, c}] {
				touchedR[resKey{a, c}] = true
				pl.res = append(pl.res, resDelta{a, c, mkResource(c, val, nb)})
				ok = true
			}
		case 4: // resource delete
			a := tgt % nAddr
			c := cidxs[(tgt/nAddr)%len(cidxs)]
			if _, ex := m.res[resKey{a, c}]; ex && !batch && !touchedR[resKey{a, c}] {
				touchedR[resKey{a, c}] = true
				pl.res = append(pl.res, resDelta{a, c, trackerdb.MakeResourcesData(nb)})
				ok = true
			}
		case 5: // kv set
			k := kvKeys[tgt%len(kvKeys)]
			v := kvValues[val%len(kvValues)]
			old, ex := m.kv[k]
			if !touchedK[k] && !(ex && string(old) == string(v)) {
				touchedK[k] = true
				pl.kvs = append(pl.kvs, kvDelta{k, v})
				ok = true
			}
		case 6: // kv delete
			k := kvKeys[tgt%len(kvKeys)]
			if _, ex := m.kv[k]; ex && !touchedK[k] {
				touchedK[k] = true
				pl.kvs = append(pl.kvs, kvDelta{k, nil})
				ok = true
			}
		case 7: // creatable created
			c := cidxs[tgt%len(cidxs)]
			if _, ex := m.creat[c]; !ex && !touchedC[c] {
				touchedC[c] = true
				pl.creat = append(pl.creat, creatDelta{c, true, val % nAddr})
				ok = true
			}
		case 8: // creatable deleted
			c := cidxs[tgt%len(cidxs)]
			if e, ex := m.creat[c]; ex && !touchedC[c] {
				touchedC[c] = true
				pl.creat = append(pl.creat, creatDelta{c, false, e.creator})
				ok = true
			}
		case 9, 10: // online account change in one of the rounds of the range
			a := tgt % nAddr
			if !batch {
				upd := pl.oldBase + 1 + uint64(val>>10)%off
				if last, seen := onlUpd[a]; seen {
					upd = last + 1
				}
				if upd <= nb {
					onlUpd[a] = upd
					d := onlDelta{a: a, upd: upd, online: kind == 9}
					if d.online {
						d.data = mkOnline(val, upd)
					}
					pl.onl = append(pl.onl, d)
					ok = true
				}
			}
		}
		if !ok {
			s.tape.Canon(len(s.tape.Rec)-nParams+1+3*i, 0)
		}
	}
	if batch {
		if p[13]%3 == 2 {
			t := mkTotals(m.round, p[13])
			pl.stagingTotals = &t
		}
		return pl
	}
	// the per-tracker bookkeeping of the range
	pl.onlFB = satSub(nb+1, uint64(s.cfg.OnlineLookback))
	pl.tailFB = satSub(nb+1, uint64(s.cfg.TailRetain))
	for r := pl.oldBase + 1; r <= nb; r++ {
		pl.params = append(pl.params, mkParams(r, p[13]))
		pl.tails = append(pl.tails, mkTxTail(r, p[13]+int(r)))
	}
	pl.totals = mkTotals(nb, p[13])
	if p[13]%11 == 10 {
		t := mkTotals(nb+1, p[13])
		pl.stagingTotals = &t
	}
	// state proof verification contexts: one per multiple of 8 passed in this range; old ones dropped now and then
	for r := pl.oldBase + 1; r <= nb; r++ {
		if r%8 == 0 && r > m.spMax {
			pl.spStore = append(pl.spStore, mkSPCtx(r, p[13]))
		}
	}
	if p[13]%5 == 4 && nb > 24 {
		pl.spDelete = true
		pl.spDeleteBefore = (nb - 24) / 8 * 8
	}
	return pl
}

func satSub(a, b uint64) uint64 {
	if a < b {
		return 0
	}
	return a - b
}

// ---- engine plumbing

// Engine implements kernel.Engine.
type Engine struct{}

func (Engine) Name() string { return "storesim" }

var tmpRoot string
var runCounter int

func scratchRoot() string {
	if tmpRoot == "" {
		base := os.Getenv("VERIF_SCRATCH")
		if base == "" {
			base = "/dev/shm"
		}
		tmpRoot, _ = os.MkdirTemp(base, "verif-storesim-")
	}
	return tmpRoot
}

// CleanupScratch removes the process scratch directory.
func CleanupScratch() {
	if tmpRoot != "" {
		os.RemoveAll(tmpRoot)
	}
}

func (Engine) Run(t *testing.T, prop, tier string, tape *kernel.Tape, keepLog bool) *kernel.RunResult {
	res := &kernel.RunResult{}
	if prop != "C47" {
		res.HarnessErr = "storesim serves C47 only"
		return res
	}
	runCounter++
	dir := filepath.Join(scratchRoot(), fmt.Sprintf("run%d", runCounter))
	os.MkdirAll(filepath.Join(dir, "ledger"), 0o755)
	defer os.RemoveAll(dir)
	s := &Sim{tape: tape, log: kernel.NewLog(keepLog), dir: dir, stats: map[string]int64{}, seenK: map[string]bool{}, state: map[string]bool{}, m: newModel()}
	s.sq = &backend{name: "sqlite", dir: dir}
	s.pb = &backend{name: "pebble", dir: dir}
	func() {
		defer func() {
			if r := recover(); r != nil {
				s.harn = fmt.Sprintf("panic in harness: %v", r)
			}
		}()
		s.cfg = drawConfig(tape, tier)
		s.run()
	}()
	s.sq.close()
	s.pb.close()
	res.Steps = s.step
	res.Digest = s.log.Digest()
	res.Stats = s.stats
	res.Violation = s.viol
	res.Known = s.known
	res.HarnessErr = s.harn
	res.Tape = tape.Rec
	res.LogLines = s.log.Lines
	for k := range s.state {
		res.States = append(res.States, k)
	}
	res.Nontrivial = s.stats["commits"] >= 3 && s.stats["reads_nonempty"] >= 8
	ops := s.ops
	if len(ops) > 40 {
		ops = ops[:40]
	}
	res.Sample = map[string]any{"config": s.cfg, "steps": s.step, "commits": s.stats["commits"], "final_round": s.m.round, "first_ops": ops}
	return res
}

func (s *Sim) run() {
	s.log.Add("config %+v", s.cfg)
	if err := s.setup(); err != nil {
		s.harn = "setup: " + err.Error()
		return
	}
	for s.step = 1; s.step <= s.cfg.Steps; s.step++ {
		if s.viol != nil || s.harn != "" {
			return
		}
		s.doStep()
	}
}

// setup: open both stores on files the way ledger.openLedgerDB does, run the migrations with the same
// genesis (trackerDBInitialize), create the long-lived readers, then move to the run's base round.
func (s *Sim) setup() error {
	init := map[basics.Address]basics.AccountData{}
	for i := 0; i < s.cfg.Genesis; i++ {
		ad := basics.AccountData{MicroAlgos: basics.MicroAlgos{Raw: uint64(1_000_000 * (i + 1))}}
		if i == 0 {
			ad.Status = basics.Online
			ad.VoteID[0] = 9
			ad.SelectionID[0] = 9
			ad.VoteFirstValid = 1
			ad.VoteLastValid = 1000
			ad.VoteKeyDilution = 10
		}
		init[addrs[i]] = ad
	}
	params := trackerdb.Params{InitAccounts: init, InitProto: Proto}
	for _, b := range []*backend{s.sq, s.pb} {
		if err := b.open(); err != nil {
			return err
		}
		mgr, err := b.migrate(params)
		if err != nil {
			return fmt.Errorf("%s RunMigrations: %w", b.name, err)
		}
		s.log.Add("setup %s: schema=%d", b.name, mgr.SchemaVersion)
		if err := b.makeReaders(); err != nil {
			return err
		}
	}
	// the model's view of genesis (what both initialisers document: accounts, online rows at round 0,
	// totals, round params at round 0)
	ru := proto().RewardUnit
	var ot basics.OverflowTracker
	s.m.totals[false] = new(ledgercore.AccountTotals)
	for i := 0; i < s.cfg.Genesis; i++ {
		ad := init[addrs[i]]
		var bad trackerdb.BaseAccountData
		bad.SetAccountData(&ad)
		s.m.accts[i] = bad
		s.m.totals[false].AddAccount(ru, ledgercore.ToAccountData(ad), &ot)
		if bad.Status == basics.Online {
			var o trackerdb.BaseOnlineAccountData
			o.BaseVotingData = bad.BaseVotingData
			o.MicroAlgos = bad.MicroAlgos
			o.RewardsBase = bad.RewardsBase
			s.m.online[i] = map[uint64]onlineEntry{0: {o, ad.NormalizedOnlineBalance(ru)}}
			s.m.hist[0][i] = map[uint64]onlineEntry{0: {o, ad.NormalizedOnlineBalance(ru)}}
			s.m.hist[1][i] = map[uint64]onlineEntry{0: {o, ad.NormalizedOnlineBalance(ru)}}
		}
	}
	s.m.params[0] = ledgercore.OnlineRoundParamsData{OnlineSupply: s.m.totals[false].Online.Money.Raw, RewardsLevel: s.m.totals[false].RewardsLevel, CurrentProtocol: Proto}
	// look at the freshly initialised stores before anything else happens
	for _, k := range []int{7, 8, 15, 16} {
		s.execOp(s.buildRead(k, make([]int, 8), ctxDirect))
	}
	for i := 0; i < s.cfg.Genesis; i++ {
		s.execOp(s.buildRead(0, []int{i, 0, 0, 0, 0, 0, 0, 0}, ctxDirect))
		s.execOp(s.buildRead(12, []int{i, 0, 0, 0, 0, 0, 0, 0}, ctxDirect))
	}
	if s.cfg.BaseRound > 0 && s.viol == nil {
		// one commit that takes the fresh store to round BaseRound (as after a fast catchup): only the round
		// bookkeeping is written (round params row of BaseRound, the db round)
		pl := &commitPlan{oldBase: s.cfg.BaseRound - 1, newBase: s.cfg.BaseRound, jump: true}
		pl.params = []ledgercore.OnlineRoundParamsData{mkParams(s.cfg.BaseRound, 0)}
		s.execCommit(pl)
	}
	return nil
}
