package storesim

import (
	"context"
	"database/sql"
	"errors"
	"fmt"
	"io"
	"path/filepath"

	"github.com/algorand/go-algorand/data/basics"
	"github.com/algorand/go-algorand/ledger/store/trackerdb"
	"github.com/algorand/go-algorand/ledger/store/trackerdb/pebbledbdriver"
	"github.com/algorand/go-algorand/ledger/store/trackerdb/sqlitedriver"
	"github.com/algorand/go-algorand/logging"
)

var quietLog = func() logging.Logger {
	l := logging.NewLogger()
	l.SetOutput(io.Discard)
	l.SetLevel(logging.Panic)
	return l
}()

// backend is one real store plus what the ledger keeps next to it: long-lived optimized readers
// (accountUpdates.accountsq / onlineAccounts.accountsq) and the cache of account refs
// (baseAccounts: PersistedAccountData.Ref of accounts it has read or written).
type backend struct {
	name  string
	dir   string
	store trackerdb.Store
	ar    trackerdb.AccountsReader
	oar   trackerdb.OnlineAccountsReader
	refs  map[int]trackerdb.AccountRef
	snap  trackerdb.Snapshot
}

func (b *backend) open() error {
	var err error
	switch b.name {
	case "sqlite":
		// ledger.openLedgerDB: sqlitedriver.Open(prefix+".tracker.sqlite", dbMem, log)
		b.store, err = sqlitedriver.Open(filepath.Join(b.dir, "ledger.tracker.sqlite"), false, quietLog)
	case "pebble":
		// ledger.openLedgerDB: pebbledbdriver.Open(prefix+"/tracker.pebble", dbMem, currentProto, log)
		b.store, err = pebbledbdriver.Open(filepath.Join(b.dir, "ledger", "tracker.pebble"), false, proto(), quietLog)
	}
	if err != nil {
		return fmt.Errorf("%s open: %w", b.name, err)
	}
	b.refs = map[int]trackerdb.AccountRef{}
	return nil
}

// makeReaders is what the trackers do in loadFromDisk after the migrations ran.
func (b *backend) makeReaders() error {
	var err error
	if b.ar, err = b.store.MakeAccountsOptimizedReader(); err != nil {
		return fmt.Errorf("%s MakeAccountsOptimizedReader: %w", b.name, err)
	}
	if b.oar, err = b.store.MakeOnlineAccountsOptimizedReader(); err != nil {
		return fmt.Errorf("%s MakeOnlineAccountsOptimizedReader: %w", b.name, err)
	}
	return nil
}

func (b *backend) close() {
	if b.snap != nil {
		b.snap.Close()
		b.snap = nil
	}
	if b.ar != nil {
		b.ar.Close()
		b.ar = nil
	}
	if b.oar != nil {
		b.oar.Close()
		b.oar = nil
	}
	if b.store != nil {
		b.store.Close()
		b.store = nil
	}
}

func (b *backend) migrate(params trackerdb.Params) (trackerdb.InitParams, error) {
	var mgr trackerdb.InitParams
	// ledger/trackerdb.go trackerDBInitialize: dbs.Transaction(func(tx){ tx.RunMigrations(...) })
	err := b.store.Transaction(func(ctx context.Context, tx trackerdb.TransactionScope) (err error) {
		mgr, err = tx.RunMigrations(ctx, params, quietLog, trackerdb.AccountDBVersion)
		return err
	})
	return mgr, err
}

// readers is the set of reader handles an operation works with.
type readers struct {
	ar  trackerdb.AccountsReader
	ext trackerdb.AccountsReaderExt
	oar trackerdb.OnlineAccountsReader
	sp  trackerdb.SpVerificationCtxReader
}

func scopeReaders(r trackerdb.Reader) (rd readers, closeFn func(), err error) {
	if rd.ar, err = r.MakeAccountsOptimizedReader(); err != nil {
		return
	}
	if rd.oar, err = r.MakeOnlineAccountsOptimizedReader(); err != nil {
		rd.ar.Close()
		return
	}
	if rd.ext, err = r.MakeAccountsReader(); err != nil {
		rd.ar.Close()
		rd.oar.Close()
		return
	}
	rd.sp = r.MakeSpVerificationCtxReader()
	closeFn = func() { rd.ar.Close(); rd.oar.Close() }
	return
}

const (
	ctxDirect = iota // store-level long-lived readers (accountsq)
	ctxSnapFn        // store.Snapshot(func(scope){...}) as the trackers do for multi-query reads
	ctxHeld          // the snapshot opened by an earlier step and still held
)

// read runs fn against this backend in the requested context and returns its transcript.
func (b *backend) read(rc int, fn func(rd readers) []string) (out []string) {
	defer func() {
		if r := recover(); r != nil {
			out = append(out, fmt.Sprintf("PANIC %v", r))
		}
	}()
	switch rc {
	case ctxSnapFn:
		err := b.store.Snapshot(func(ctx context.Context, tx trackerdb.SnapshotScope) error {
			rd, cl, err := scopeReaders(tx)
			if err != nil {
				return err
			}
			defer cl()
			out = fn(rd)
			return nil
		})
		if err != nil {
			out = append(out, "snapshot-err="+errClass(err))
		}
		return out
	case ctxHeld:
		rd, cl, err := scopeReaders(b.snap)
		if err != nil {
			return []string{"make-readers-err=" + errClass(err)}
		}
		defer cl()
		return fn(rd)
	default:
		ext, err := b.store.MakeAccountsReader()
		if err != nil {
			return []string{"make-readers-err=" + errClass(err)}
		}
		return fn(readers{ar: b.ar, ext: ext, oar: b.oar, sp: b.store.MakeSpVerificationCtxReader()})
	}
}

// errClass maps an error to the class the callers in ledger/ distinguish: nil, not-found
// (trackerdb.ErrNotFound or sql.ErrNoRows, which acctdeltas.go treats alike), anything else.
func errClass(err error) string {
	switch {
	case err == nil:
		return "ok"
	case errors.Is(err, trackerdb.ErrNotFound), errors.Is(err, sql.ErrNoRows):
		return "notfound"
	}
	return "err"
}

func refStr(r any) string {
	if r == nil {
		return "nil"
	}
	return "ref"
}

func rnd(r basics.Round) uint64 { return uint64(r) }
