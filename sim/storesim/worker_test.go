package storesim

import (
	"testing"
)

func TestNothing(t *testing.T) {}
