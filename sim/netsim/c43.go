package netsim

// C43: peers never deliver oversized or duplicate gossip to handlers.
//
// Several real wsPeers (real readLoop with its LimitedReaderSlurper, real per-tag size limits, real
// wsPeerMsgCodec for proposals) share one real incoming messageFilter and one read buffer. Each is fed
// by a simulated connection whose NextReader hands out tagged messages with sizes around the tag's
// limit, through readers that chunk arbitrarily, fail mid-message, or park mid-message while other
// peers complete theirs. Duplicates of dedup-safe messages arrive from scheduler-chosen peers.

import (
	"bytes"
	"crypto/sha256"
	"fmt"
	"io"
	"testing/synctest"

	"github.com/DataDog/zstd"
	"github.com/algorand/websocket"

	"github.com/algorand/go-algorand/network"
	"github.com/algorand/go-algorand/protocol"

	"verif/sim/kernel"
)

const maxMessageLength = 6 * 1024 * 1024 // connection-level cap (network.MaxMessageLength), restated

type readCfg struct {
	Steps      int
	Peers      int
	FilterOn   bool
	Buckets    int
	BucketSize int
	WReadErr   int
	WBadType   int
	WShortTag  int
	WConnErr   int
	BigTags    bool
}

type rpeer struct {
	idx    int
	gen    int
	conn   *simConn
	peer   *network.VerifPeer
	reason string
	busy   *readOp // message parked mid-read
}

type bankEntry struct {
	tag      protocol.Tag
	data     []byte
	lastSeen int // index of the last filter check of this message
}

type readOp struct {
	id      int
	p       *rpeer
	tag     protocol.Tag
	wire    []byte // tag + payload as put on the wire
	payload []byte
	limit   uint64
	known   bool
	fault   string
	desc    string
	// what the handler should get when nothing is suppressed (nil = this message is never handed on)
	deliverable bool
	want        []byte
	reason      string // why nothing may be delivered ("oversize", "fault", ...)
	bufs        [][]byte
}

type readSim struct {
	*base
	cfg       readCfg
	filter    *network.VerifFilter
	rb        chan network.IncomingMessage
	peers     []*rpeer
	bank      []*bankEntry
	byKey     map[[32]byte]*bankEntry
	filterOps int
	nextID    int
	pool      [][]byte
	bigInBank int
	// reach probes
	oversizeRejected, exactDelivered, dupDropped, dupAcrossRotation, parked int64
}

func newReadSim(b *base) *readSim { return &readSim{base: b, byKey: map[[32]byte]*bankEntry{}} }
func (s *readSim) core() *base    { return s.base }

func (s *readSim) drawConfig() {
	tp := s.tape
	c := &s.cfg
	c.Steps = tp.Range("cfg.steps", 40, 160)
	if s.tier == "thorough" {
		c.Steps = tp.Range("cfg.steps2", 100, 800)
	}
	c.Peers = tp.Range("cfg.peers", 1, 4)
	c.FilterOn = tp.Choose("cfg.filter", 8) != 7
	c.Buckets = tp.Range("cfg.buckets", 1, 5)
	c.BucketSize = tp.Range("cfg.bucketsize", 1, 8)
	pick := func(name string, lo, hi int) int {
		if tp.Chance("cfg.on."+name, 1, 2) {
			return tp.Range("cfg.w."+name, lo, hi)
		}
		return 0
	}
	c.WReadErr = pick("readerr", 5, 40)
	c.WBadType = pick("badtype", 2, 10)
	c.WShortTag = pick("shorttag", 2, 10)
	c.WConnErr = pick("connerr", 2, 10)
	c.BigTags = tp.Chance("cfg.bigtags", 3, 4)
}

func (s *readSim) guaranteed() int {
	if !s.cfg.FilterOn {
		return 0
	}
	return (s.cfg.Buckets - 1) * s.cfg.BucketSize
}

func (s *readSim) connectPeer(p *rpeer) {
	p.gen++
	p.reason = ""
	p.busy = nil
	p.conn = newSimConn(fmt.Sprintf("P%d.%d", p.idx, p.gen))
	pp := p
	p.peer = network.VerifMakePeer(network.VerifPeerConfig{
		Conn: p.conn, ReadBuffer: s.rb, Filter: s.filter, Log: s.lg, Addr: p.conn.name,
		OnClose: func(reason string) { pp.conn.mu.Lock(); pp.reason = reason; pp.conn.mu.Unlock() },
	})
	synctest.Wait()
}

func (s *readSim) run() {
	s.drawConfig()
	s.log.Add("config %+v guaranteed-retention=%d", s.cfg, s.guaranteed())
	if !network.VerifDedupSafeTag(protocol.AgreementVoteTag) || !network.VerifDedupSafeTag(protocol.TxnTag) || network.VerifDedupSafeTag(protocol.ProposalPayloadTag) {
		s.harnessErr("dedup-safe tag set changed; the oracle's restatement (AV, TX) is stale")
		return
	}
	if s.cfg.FilterOn {
		s.filter = network.VerifMakeFilter(s.cfg.Buckets, s.cfg.BucketSize)
	}
	s.rb = make(chan network.IncomingMessage, 64)
	for i := 0; i < s.cfg.Peers; i++ {
		p := &rpeer{idx: i}
		s.peers = append(s.peers, p)
		s.connectPeer(p)
	}
	for s.step = 0; s.step < s.cfg.Steps; s.step++ {
		if s.viol != nil || s.harness != "" {
			break
		}
		s.oneStep()
	}
	// let parked messages finish, then close everything
	for _, p := range s.peers {
		if p.busy != nil && s.viol == nil && s.harness == "" {
			s.complete(p.busy)
		}
	}
	for _, p := range s.peers {
		p.peer.Close()
	}
	synctest.Wait()
}

type tagChoice struct {
	tag protocol.Tag
	w   int
	big bool
}

var tagChoices = []tagChoice{
	{protocol.AgreementVoteTag, 30, false}, {protocol.TxnTag, 26, true},
	{protocol.NetPrioResponseTag, 4, false}, {protocol.StateProofSigTag, 5, false}, {protocol.UniEnsBlockReqTag, 4, false},
	{protocol.NetIDVerificationTag, 4, false}, {protocol.MsgOfInterestTag, 3, false}, {protocol.MsgDigestSkipTag, 3, false},
	{protocol.ProposalPayloadTag, 6, true}, {protocol.VoteBundleTag, 4, true}, {protocol.VotePackedTag, 3, false},
	{protocol.TopicMsgRespTag, 1, true}, {"XX", 2, false}, {protocol.PingTag, 1, false}, {"\x00\xff", 1, false},
}

func deliverableTag(t protocol.Tag) bool {
	switch t {
	case protocol.AgreementVoteTag, protocol.TxnTag, protocol.ProposalPayloadTag, protocol.NetPrioResponseTag, protocol.StateProofSigTag,
		protocol.UniEnsBlockReqTag, protocol.VoteBundleTag, protocol.NetIDVerificationTag:
		return true
	}
	return false
}

func dedupSafe(t protocol.Tag) bool { return t == protocol.AgreementVoteTag || t == protocol.TxnTag }

const (
	rfNone = iota
	rfReadErr
	rfBadType
	rfShortTag
	rfConnErr
)

func (s *readSim) oneStep() {
	d := drawStep(s.tape, 12)
	defer d.finish()
	c := &s.cfg
	p := s.peers[d.mod(1, len(s.peers))]
	if p.busy != nil {
		// the chosen peer is parked mid-message: this step lets it finish
		s.log.Add("step %d resume %s", s.step, p.conn.name)
		s.complete(p.busy)
		return
	}
	if p.conn.isClosed() {
		s.stat("reconnects", 1)
		s.connectPeer(p)
	}
	if !p.conn.isWaiting() {
		s.harnessErr("peer %s is neither closed nor waiting", p.conn.name)
		return
	}
	f := pickW(d.raw[0], []int{1000, c.WReadErr, c.WBadType, c.WShortTag, c.WConnErr})
	if f != rfNone {
		d.rawv(0)
	}
	s.nextID++
	op := &readOp{id: s.nextID, p: p}
	// ---- tag
	w := make([]int, len(tagChoices))
	for i, tc := range tagChoices {
		w[i] = tc.w
	}
	tc := tagChoices[pickW(d.mod(2, 1000), w)]
	op.tag = tc.tag
	op.limit = tc.tag.MaxMessageSize()
	op.known = op.limit > 0
	L := int(op.limit)
	// ---- content / size
	contentKind := d.mod(5, 10)
	var payload []byte
	from := ""
	if dedupSafe(op.tag) && contentKind >= 6 && len(s.bank) > 0 {
		// duplicate (6..8) or near-duplicate (9) of an earlier dedup-safe message
		v := d.rawv(6)
		win := s.guaranteed() + 3
		idx := v % len(s.bank)
		if v&1 == 0 && len(s.bank) > win {
			idx = len(s.bank) - 1 - (v/2)%win
		}
		e := s.bank[idx]
		if contentKind == 9 {
			payload = append([]byte(nil), e.data...)
			if v&2 == 0 && len(payload) > 0 {
				payload[(v/4)%len(payload)] ^= 0x01
				op.tag = e.tag
				from = fmt.Sprintf("near-dup(flip) of bank[%d]", idx)
			} else {
				// same bytes under the other dedup-safe tag
				if e.tag == protocol.AgreementVoteTag {
					op.tag = protocol.TxnTag
				} else {
					op.tag = protocol.AgreementVoteTag
				}
				from = fmt.Sprintf("near-dup(tag) of bank[%d]", idx)
			}
		} else {
			payload = e.data
			op.tag = e.tag
			from = fmt.Sprintf("dup of bank[%d]", idx)
		}
		op.limit = op.tag.MaxMessageSize()
		L = int(op.limit)
	} else {
		n := s.drawSize(d, L, tc.big)
		// tag and payload share one allocation (large messages are expensive to touch in the sandbox)
		op.wire = s.bigAlloc(2 + n)
		op.bufs = append(op.bufs, op.wire)
		payload = op.wire[2:]
		if op.tag == protocol.ProposalPayloadTag && (d.rawv(6)>>8)%8 <= 2 {
			// will be sent as a zstd frame: mostly zero, a few seed-dependent bytes
			clear(payload)
			sm := splitmix{x: uint64(op.id)*0x9e37 + uint64(d.rawv(6))}
			for i := 0; i < len(payload); i += 4099 {
				payload[i] = byte(sm.next())
			}
		} else {
			fillPayload(payload, uint64(op.id)*0x9e37+uint64(d.rawv(6)))
		}
		if len(payload) >= 4 && bytes.Equal(payload[:4], []byte{0x28, 0xb5, 0x2f, 0xfd}) {
			payload[0] = 0
		}
		from = "fresh"
	}
	op.payload = payload
	op.want = payload
	// ---- proposals may be zstd frames: what is handed on is the decompressed payload
	if op.tag == protocol.ProposalPayloadTag && from == "fresh" {
		switch k := (d.rawv(6) >> 8) % 8; {
		case k <= 2:
			// valid zstd frame whose decompressed size is around the proposal limit
			content := payload
			comp, err := zstd.CompressLevel(nil, content, zstd.BestSpeed)
			if err != nil {
				s.harnessErr("zstd: %v", err)
				return
			}
			op.want = content
			op.payload = comp
			from = fmt.Sprintf("zstd(%d->%d)", len(op.want), len(comp))
		case k == 3:
			g := make([]byte, 4+len(payload)%200)
			copy(g, []byte{0x28, 0xb5, 0x2f, 0xfd})
			fillBytes(g[4:], uint64(op.id))
			op.payload = g
			op.want = nil
			op.reason = "invalid-zstd"
			from = "invalid zstd"
		}
	}
	if op.wire != nil && len(op.wire) == 2+len(op.payload) && (len(op.payload) == 0 || &op.wire[2] == &op.payload[0]) {
		copy(op.wire, op.tag)
	} else {
		op.wire = append([]byte(op.tag), op.payload...)
	}
	// ---- what may reach the handler
	switch {
	case !op.known:
		op.reason = "unknown-tag"
	case !deliverableTag(op.tag):
		op.reason = "handled-by-peer"
	case len(op.payload) > L:
		op.reason = "oversize"
	case op.reason == "invalid-zstd":
	case uint64(len(op.want)) > op.limit:
		op.reason = "oversize-after-decompression"
	default:
		op.deliverable = true
	}
	// ---- reader behaviour
	m := &inMsg{mtype: websocket.BinaryMessage, data: op.wire, errAt: -1, parkAt: -1}
	m.chunk = s.chunker(d.mod(7, 7), d.rawv(8), L, len(op.wire))
	es := d.mod(9, 4)
	m.eofWith = es&1 != 0
	if es&2 != 0 {
		inner := m.chunk
		calls := 0
		m.chunk = func(pos, want int) int {
			calls++
			if calls%3 == 0 {
				return 0
			}
			return inner(pos, want)
		}
	}
	switch f {
	case rfReadErr:
		m.errAt = d.rawv(11) % max(1, len(op.wire))
		m.errVal = io.ErrUnexpectedEOF
		op.fault = fmt.Sprintf("read-error@%d", m.errAt)
		s.stat("fault_read_error", 1)
	case rfBadType:
		m.mtype = websocket.TextMessage
		op.fault = "text-frame"
		s.stat("fault_text_frame", 1)
	case rfShortTag:
		m.data = op.wire[:d.rawv(11)%2]
		op.fault = fmt.Sprintf("short-tag(%d)", len(m.data))
		s.stat("fault_short_tag", 1)
	case rfConnErr:
		if d.rawv(11)%2 == 0 {
			m.nextErr = &websocket.CloseError{Code: websocket.CloseNormalClosure}
		} else {
			m.nextErr = io.ErrUnexpectedEOF
		}
		op.fault = "nextreader-error"
		s.stat("fault_conn_error", 1)
	}
	if op.fault != "" {
		op.deliverable = false
		op.reason = "fault"
	}
	park := -1
	if pk := d.mod(10, 8); pk == 7 && op.fault == "" && len(s.peers) > 1 {
		park = d.rawv(11) % (len(op.wire) + 1)
		m.parkAt = park
	}
	op.desc = fmt.Sprintf("msg #%d %s %q size=%d limit=%d %s chunk=%d/%d eof=%d fault=%s park=%d", op.id, p.conn.name, string(op.tag), len(op.payload), op.limit, from, d.eff[7], d.eff[8], es, op.fault, park)
	s.log.Add("step %d begin %s", s.step, op.desc)
	p.conn.deliver(m)
	synctest.Wait()
	if park >= 0 && p.conn.isParked() {
		p.busy = op
		s.parked++
		s.stat("parked_mid_message", 1)
		// nothing of this message may be visible yet
		select {
		case im := <-s.rb:
			s.violate("unexpected-delivery", "", fmt.Sprintf("%s: a message was delivered while its bytes were still arriving (%d bytes)", op.desc, len(im.Data)))
		default:
		}
		return
	}
	s.judge(op)
}

// complete resumes a parked message and judges it.
func (s *readSim) complete(op *readOp) {
	op.p.busy = nil
	op.p.conn.resume()
	synctest.Wait()
	s.judge(op)
}

// bigAlloc hands out message buffers; multi-megabyte ones are recycled (see release) because first-touch
// page faults dominate the cost of large messages in the sandbox VM.
func (s *readSim) bigAlloc(n int) []byte {
	if n < 1<<16 {
		return make([]byte, n)
	}
	for i, b := range s.pool {
		if cap(b) >= n {
			s.pool = append(s.pool[:i], s.pool[i+1:]...)
			return b[:n]
		}
	}
	return make([]byte, n, n+n/8+1<<16)
}

// release returns an operation's large buffers once nothing refers to them any more.
func (s *readSim) release(op *readOp) {
	for _, buf := range op.bufs {
		if cap(buf) < 1<<16 || len(s.pool) >= 6 || len(buf) == 0 {
			continue
		}
		held := false
		for _, e := range s.bank {
			if len(e.data) > 0 && sameBacking(e.data, buf) {
				held = true
			}
		}
		if !held {
			s.pool = append(s.pool, buf[:0])
		}
	}
	op.bufs = nil
}

// sameBacking reports whether a lies inside b's backing array.
func sameBacking(a, b []byte) bool {
	b = b[:cap(b)]
	for _, off := range []int{0, 2} {
		if off < len(b) && &a[0] == &b[off] {
			return true
		}
	}
	return false
}

var patternBlock []byte

// fillPayload fills b with seed-dependent bytes; long payloads are stamped from a fixed random block
// (cheap) with seed-dependent words mixed in every 512 bytes so that every message is unique.
func fillPayload(b []byte, seed uint64) {
	if len(b) <= 1<<14 {
		fillBytes(b, seed)
		return
	}
	if patternBlock == nil {
		patternBlock = make([]byte, 1<<18)
		fillBytes(patternBlock, 0x5eed)
	}
	off := int(seed % 4093)
	for i := 0; i < len(b); {
		i += copy(b[i:], patternBlock[off:])
		off = 0
	}
	sm := splitmix{x: seed}
	for i := 0; i+8 <= len(b); i += 512 {
		v := sm.next()
		b[i], b[i+1], b[i+2], b[i+3], b[i+4], b[i+5], b[i+6], b[i+7] = byte(v), byte(v>>8), byte(v>>16), byte(v>>24), byte(v>>32), byte(v>>40), byte(v>>48), byte(v>>56)
	}
	fillBytes(b[len(b)-64:], seed^0xabcdef)
}

// drawSize picks a payload size around the tag limit L (L == 0: unknown tag).
func (s *readSim) drawSize(d *stepDraw, L int, big bool) int {
	j := d.rawv(4)
	class := pickW(d.mod(3, 100), []int{40, 10, 12, 12, 6, 4, 4, 3, 9})
	if big && class != 7 && (!s.cfg.BigTags || (j>>12)%3 != 0) {
		class = 0 // multi-megabyte messages are expensive: most messages of the big tags stay small
	}
	if L == 0 {
		if class >= 5 {
			return 70000 + j%70000
		}
		return j % 300
	}
	step := int(network.VerifAllocationStep)
	base := int(network.VerifAverageMessageLength)
	switch class {
	case 0:
		return 1 + j%min(L, 400)
	case 1:
		return L - 1
	case 2:
		return L
	case 3:
		return L + 1
	case 4:
		return L + 2 + j%63
	case 5:
		if big {
			return L + 70000 + j%130000
		}
		return 2 * L
	case 6:
		if big {
			return L + step + j%1000
		}
		return min(L*10, L+300000) + j%100
	case 7:
		return 0
	default:
		edges := []int{base - 1, base, base + 1, base + step - 1, base + step, base + step + 1, base + 2*step}
		return edges[j%len(edges)]
	}
}

// chunker returns the function deciding how many bytes each Read returns.
func (s *readSim) chunker(kind, param, L, total int) func(pos, want int) int {
	step := int(network.VerifAllocationStep)
	base := int(network.VerifAverageMessageLength)
	near := func(body int) bool {
		if body < 48 || abs(body-L) <= 40 || total-2-body <= 40 {
			return true
		}
		if body >= base-3 {
			r := (body - base + 3) % step
			return r <= 6
		}
		return false
	}
	switch kind {
	case 1: // one byte at a time (for long messages: near every boundary of interest)
		return func(pos, want int) int {
			if total <= 8192 || near(pos-2) {
				return 1
			}
			return want
		}
	case 2:
		c := 1 + param%7000
		return func(pos, want int) int { return c }
	case 3:
		sm := &splitmix{x: uint64(param) + 1}
		mx := 1 + param%5000
		return func(pos, want int) int {
			if sm.intn(8) == 0 {
				return want
			}
			return 1 + sm.intn(mx)
		}
	case 4: // stop one byte short of the limit, then straddle it with a 2-byte read
		return func(pos, want int) int {
			body := pos - 2
			switch {
			case body < L-1:
				return min(want, L-1-body)
			case body == L-1:
				return 2
			}
			return want
		}
	case 5: // end a read exactly at the limit, then a single byte
		return func(pos, want int) int {
			body := pos - 2
			switch {
			case body < L:
				return min(want, max(1, L-body))
			case body == L:
				return 1
			}
			return want
		}
	case 6: // single bytes around every buffer boundary of the slurper
		return func(pos, want int) int {
			if near(pos - 2) {
				return 1
			}
			return want
		}
	}
	return func(pos, want int) int { return want }
}

func abs(x int) int {
	if x < 0 {
		return -x
	}
	return x
}

func bankKey(tag protocol.Tag, data []byte) [32]byte {
	h := sha256.New()
	h.Write([]byte(tag))
	h.Write([]byte{0})
	h.Write(data)
	var k [32]byte
	h.Sum(k[:0])
	return k
}

// judge compares what the real peer did with one completed message against the property.
func (s *readSim) judge(op *readOp) {
	s.judgeOp(op)
	s.release(op)
}

func (s *readSim) judgeOp(op *readOp) {
	p := op.p
	var got []network.IncomingMessage
	for more := true; more; {
		select {
		case m := <-s.rb:
			got = append(got, m)
			network.VerifMsgDone(m)
		default:
			more = false
		}
	}
	st := p.conn.lastStats()
	closed := p.conn.isClosed()
	// ---- buffering bound (observed at the reader: every byte the slurper holds it took from us)
	if st != nil && op.fault != "nextreader-error" && op.fault != "text-frame" {
		limit := int64(op.limit)
		if !op.known {
			limit = maxMessageLength // an unknown tag has no per-tag limit: only the connection-level cap applies
		}
		body := int64(st.consumed - min(st.consumed, 2))
		bound := limit + int64(network.VerifAllocationStep)
		allocBound := max(int64(network.VerifAverageMessageLength), bound)
		if body > bound || st.allocated > allocBound {
			s.violate("overbuffer", "", fmt.Sprintf("%s: the peer buffered %d bytes (allocated %d) for a message whose tag limit is %d (allowed: limit + one allocation step of %d)", op.desc, body, st.allocated, limit, network.VerifAllocationStep))
			return
		}
		if !op.known && body > int64(network.VerifAllocationStep) {
			s.stat("unknown_tag_buffered_over_64k", 1)
		}
	}
	s.log.Add("step %d end msg #%d delivered=%d closed=%v consumed=%d allocated=%d", s.step, op.id, len(got), closed, statConsumed(st), statAlloc(st))
	// ---- nothing larger than its tag limit may ever reach the handler
	for _, m := range got {
		if uint64(len(m.Data)) > m.Tag.MaxMessageSize() {
			s.violate("oversize-delivered", "", fmt.Sprintf("%s: the handler received %d bytes under tag %q whose limit is %d", op.desc, len(m.Data), string(m.Tag), m.Tag.MaxMessageSize()))
			return
		}
		if !p.peer.Is(m.Sender) {
			s.violate("unexpected-delivery", "", fmt.Sprintf("%s: a message attributed to another peer was delivered", op.desc))
			return
		}
	}
	if len(got) > 1 {
		s.violate("unexpected-delivery", "", fmt.Sprintf("%s: one message on the wire produced %d deliveries", op.desc, len(got)))
		return
	}
	// ---- duplicate suppression: what the filter is guaranteed to remember
	mustDrop, mayDrop := false, false
	between := 0
	if op.deliverable && dedupSafe(op.tag) && len(op.want) > 0 {
		k := bankKey(op.tag, op.want)
		idx := s.filterOps
		s.filterOps++ // every such message is one operation on the shared filter, in completion order
		if e := s.byKey[k]; e != nil {
			if s.cfg.FilterOn {
				between = idx - e.lastSeen - 1
				if between < s.guaranteed() {
					mustDrop = true
					if between >= s.cfg.BucketSize {
						s.dupAcrossRotation++
						s.stat("dup_checked_across_rotation", 1)
					}
				} else {
					mayDrop = true
					s.stat("dup_outside_guaranteed_window", 1)
				}
			} else {
				s.stat("dup_with_filter_off", 1)
			}
			e.lastSeen = idx
		} else {
			e := &bankEntry{tag: op.tag, lastSeen: idx}
			s.byKey[k] = e
			if len(op.want) < 1<<20 || s.bigInBank < 3 {
				// kept for later duplicates (only a few of the multi-megabyte ones)
				e.data = op.want
				s.bank = append(s.bank, e)
				if len(op.want) >= 1<<20 {
					s.bigInBank++
				}
			}
		}
	}
	switch {
	case op.reason == "invalid-zstd":
		// a broken zstd frame may be rejected or yield whatever the decompressor salvages: the property
		// only bounds its size (checked above)
		s.stat("invalid_zstd_frames", 1)
	case len(got) == 1 && !op.deliverable:
		cls := "corrupt-delivery"
		if op.reason == "oversize" || op.reason == "oversize-after-decompression" {
			cls = "oversize-delivered"
		}
		s.violate(cls, "", fmt.Sprintf("%s: %d bytes reached the handler although nothing may be delivered (%s)", op.desc, len(got[0].Data), op.reason))
		return
	case len(got) == 1:
		m := got[0]
		if m.Tag != op.tag || !bytes.Equal(m.Data, op.want) {
			s.violate("corrupt-delivery", "", fmt.Sprintf("%s: the handler received tag %q, %d bytes that are not the message on the wire (%d bytes; first difference at %d)", op.desc, string(m.Tag), len(m.Data), len(op.want), firstDiff(m.Data, op.want)))
			return
		}
		if mustDrop {
			s.violate("duplicate-delivered", "", fmt.Sprintf("%s: delivered again although the identical message passed the filter with only %d filter operations in between (guaranteed retention %d = (%d-1) buckets x %d)", op.desc, between, s.guaranteed(), s.cfg.Buckets, s.cfg.BucketSize))
			return
		}
		if mayDrop {
			s.stat("dup_outside_window_delivered", 1)
		}
		if uint64(len(op.payload)) == op.limit || uint64(len(op.want)) == op.limit {
			s.exactDelivered++
			s.stat("exact_limit_delivered", 1)
		}
		s.stat("delivered", 1)
	case op.deliverable && !mustDrop && !mayDrop:
		s.violate("message-lost", "", fmt.Sprintf("%s: a message within its tag limit that is not a duplicate never reached the handler (connection closed=%v reason=%q)", op.desc, closed, p.reason))
		return
	case mustDrop:
		s.dupDropped++
		s.stat("dup_dropped_inside_window", 1)
	case mayDrop:
		s.stat("dup_outside_window_dropped", 1)
	default:
		switch op.reason {
		case "oversize", "oversize-after-decompression":
			s.oversizeRejected++
			s.stat("oversize_rejected", 1)
			if uint64(len(op.payload)) == op.limit+1 {
				s.stat("oversize_by_one_rejected", 1)
			}
			if !closed {
				s.stat("oversize_without_close", 1)
			}
		case "fault":
			s.stat("fault_not_delivered", 1)
		default:
			s.stat("not_for_handler", 1)
		}
	}
}

func statConsumed(st *readStats) int {
	if st == nil {
		return 0
	}
	return st.consumed
}

func statAlloc(st *readStats) int64 {
	if st == nil {
		return 0
	}
	return st.allocated
}

func (s *readSim) finish(res *kernel.RunResult) {
	res.Nontrivial = s.oversizeRejected >= 1 && s.exactDelivered >= 1 && (s.dupDropped >= 1 || s.guaranteed() == 0)
	res.Sample = map[string]any{"steps": s.step, "cfg": fmt.Sprintf("%+v", s.cfg), "oversize_rejected": s.oversizeRejected, "exact_limit_delivered": s.exactDelivered,
		"dup_dropped": s.dupDropped, "dup_across_rotation": s.dupAcrossRotation, "parked": s.parked, "tape_len": len(s.tape.Rec)}
}
