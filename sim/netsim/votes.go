package netsim

// Hand-written msgpack emitter for agreement's unauthenticatedVote wire form, written from the
// codec tags (canonical field order = alphabetical, omitempty, minimal unsigned encodings). It is
// independent of protocol.Encode and of package vpack; selfTest() validates it once per process
// against the reflection codec over mirror structs.

import (
	"bytes"
	"crypto/sha256"
	"encoding/binary"
	"fmt"

	"github.com/algorand/go-algorand/crypto"
	"github.com/algorand/go-algorand/data/basics"
	"github.com/algorand/go-algorand/data/committee"
	"github.com/algorand/go-algorand/protocol"
)

// voteFields is the semantic content of one vote (14 values; ps is always zero on the wire).
type voteFields struct {
	Pf     [80]byte
	Per    uint64
	Dig    [32]byte
	EncDig [32]byte
	Oper   uint64
	Oprop  [32]byte
	Rnd    uint64
	Snd    [32]byte
	Step   uint64
	P      [32]byte
	P1s    [64]byte
	P2     [32]byte
	P2s    [64]byte
	S      [64]byte
}

// appendUint appends the minimal msgpack encoding of an unsigned integer.
func appendUint(b []byte, v uint64) []byte {
	switch {
	case v < 128:
		return append(b, byte(v))
	case v <= 0xff:
		return append(b, 0xcc, byte(v))
	case v <= 0xffff:
		return append(b, 0xcd, byte(v>>8), byte(v))
	case v <= 0xffffffff:
		return append(b, 0xce, byte(v>>24), byte(v>>16), byte(v>>8), byte(v))
	default:
		b = append(b, 0xcf)
		return binary.BigEndian.AppendUint64(b, v)
	}
}

func appendBin(b []byte, name string, v []byte) []byte {
	b = append(b, 0xa0|byte(len(name)))
	b = append(b, name...)
	b = append(b, 0xc4, byte(len(v)))
	return append(b, v...)
}

func appendKey(b []byte, name string) []byte {
	b = append(b, 0xa0|byte(len(name)))
	return append(b, name...)
}

// rawParts are the already-encoded optional integers (nil = omitted) used by both the canonical
// builder and the reference decoder (which must reproduce non-minimal integer encodings verbatim).
type voteParts struct {
	pf                    []byte
	per                   []byte // encoded varuint or nil
	dig, encdig           []byte // 32 bytes or nil
	oper                  []byte // encoded varuint or nil
	oprop                 []byte
	rnd                   []byte // encoded varuint; nil only for the canonical encoding of round 0
	snd                   []byte
	step                  []byte
	p, p1s, p2, p2s, sigS []byte
}

// emitVote writes the msgpack map layout of an unauthenticatedVote from its parts.
func emitVote(v *voteParts) []byte {
	b := make([]byte, 0, 640)
	b = append(b, 0x83)
	b = appendKey(b, "cred")
	b = append(b, 0x81)
	b = appendBin(b, "pf", v.pf)
	b = appendKey(b, "r")
	cnt := 1
	if v.rnd != nil {
		cnt++
	}
	if v.per != nil {
		cnt++
	}
	if v.step != nil {
		cnt++
	}
	pc := 0
	for _, x := range [][]byte{v.dig, v.encdig, v.oper, v.oprop} {
		if x != nil {
			pc++
		}
	}
	if pc > 0 {
		cnt++
	}
	b = append(b, 0x80|byte(cnt))
	if v.per != nil {
		b = appendKey(b, "per")
		b = append(b, v.per...)
	}
	if pc > 0 {
		b = appendKey(b, "prop")
		b = append(b, 0x80|byte(pc))
		if v.dig != nil {
			b = appendBin(b, "dig", v.dig)
		}
		if v.encdig != nil {
			b = appendBin(b, "encdig", v.encdig)
		}
		if v.oper != nil {
			b = appendKey(b, "oper")
			b = append(b, v.oper...)
		}
		if v.oprop != nil {
			b = appendBin(b, "oprop", v.oprop)
		}
	}
	if v.rnd != nil {
		b = appendKey(b, "rnd")
		b = append(b, v.rnd...)
	}
	b = appendBin(b, "snd", v.snd)
	if v.step != nil {
		b = appendKey(b, "step")
		b = append(b, v.step...)
	}
	b = appendKey(b, "sig")
	b = append(b, 0x86)
	b = appendBin(b, "p", v.p)
	b = appendBin(b, "p1s", v.p1s)
	b = appendBin(b, "p2", v.p2)
	b = appendBin(b, "p2s", v.p2s)
	b = appendBin(b, "ps", make([]byte, 64))
	b = appendBin(b, "s", v.sigS)
	return b
}

var zero32 [32]byte

// encodeVote produces the canonical wire bytes of a vote (omitempty for zero values). A round-0
// vote has no "rnd" key, which the stateless vpack layer cannot represent: that is the
// "uncompressible vote" used to reach the codec's fallback path.
func encodeVote(f *voteFields) []byte {
	p := &voteParts{pf: f.Pf[:], snd: f.Snd[:], p: f.P[:], p1s: f.P1s[:], p2: f.P2[:], p2s: f.P2s[:], sigS: f.S[:]}
	if f.Per != 0 {
		p.per = appendUint(nil, f.Per)
	}
	if f.Dig != zero32 {
		p.dig = f.Dig[:]
	}
	if f.EncDig != zero32 {
		p.encdig = f.EncDig[:]
	}
	if f.Oper != 0 {
		p.oper = appendUint(nil, f.Oper)
	}
	if f.Oprop != zero32 {
		p.oprop = f.Oprop[:]
	}
	if f.Step != 0 {
		p.step = appendUint(nil, f.Step)
	}
	if f.Rnd != 0 { // a canonical encoder omits a zero round (omitempty)
		p.rnd = appendUint(nil, f.Rnd)
	}
	return emitVote(p)
}

// ---- mirror structs (copied from the wire format; used only by selfTest) ----

type mPValue struct {
	_struct          struct{}       `codec:",omitempty,omitemptyarray"`
	OriginalPeriod   uint64         `codec:"oper"`
	OriginalProposer basics.Address `codec:"oprop"`
	BlockDigest      crypto.Digest  `codec:"dig"`
	EncodingDigest   crypto.Digest  `codec:"encdig"`
}

type mRawVote struct {
	_struct  struct{}       `codec:",omitempty,omitemptyarray"`
	Sender   basics.Address `codec:"snd"`
	Round    basics.Round   `codec:"rnd"`
	Period   uint64         `codec:"per"`
	Step     uint64         `codec:"step"`
	Proposal mPValue        `codec:"prop"`
}

type mUVote struct {
	_struct struct{}                            `codec:",omitempty,omitemptyarray"`
	R       mRawVote                            `codec:"r"`
	Cred    committee.UnauthenticatedCredential `codec:"cred"`
	Sig     crypto.OneTimeSignature             `codec:"sig,omitempty,omitemptycheckstruct"`
}

func mirrorOf(f *voteFields) mUVote {
	var v mUVote
	v.R.Sender = basics.Address(f.Snd)
	v.R.Round = basics.Round(f.Rnd)
	v.R.Period = f.Per
	v.R.Step = f.Step
	v.R.Proposal = mPValue{OriginalPeriod: f.Oper, OriginalProposer: basics.Address(f.Oprop), BlockDigest: crypto.Digest(f.Dig), EncodingDigest: crypto.Digest(f.EncDig)}
	copy(v.Cred.Proof[:], f.Pf[:])
	copy(v.Sig.PK[:], f.P[:])
	copy(v.Sig.PK1Sig[:], f.P1s[:])
	copy(v.Sig.PK2[:], f.P2[:])
	copy(v.Sig.PK2Sig[:], f.P2s[:])
	copy(v.Sig.Sig[:], f.S[:])
	return v
}

// expand fills dst with bytes derived from a label and integers (deterministic, cheap).
func expand(dst []byte, label string, xs ...uint64) {
	h := sha256.New()
	h.Write([]byte(label))
	var buf [8]byte
	for _, x := range xs {
		binary.BigEndian.PutUint64(buf[:], x)
		h.Write(buf[:])
	}
	seed := h.Sum(nil)
	for off, ctr := 0, uint64(0); off < len(dst); ctr++ {
		binary.BigEndian.PutUint64(buf[:], ctr)
		s := sha256.Sum256(append(seed, buf[:]...))
		off += copy(dst[off:], s[:])
	}
}

var selfTested error
var selfTestDone bool

// selfTest checks the hand emitter against the reflection codec on a spread of votes, once.
func selfTest() error {
	if selfTestDone {
		return selfTested
	}
	selfTestDone = true
	for i := uint64(0); i < 64; i++ {
		var f voteFields
		expand(f.Pf[:], "pf", i)
		expand(f.Snd[:], "snd", i)
		expand(f.P[:], "p", i)
		expand(f.P1s[:], "p1s", i)
		expand(f.P2[:], "p2", i)
		expand(f.P2s[:], "p2s", i)
		expand(f.S[:], "s", i)
		rounds := []uint64{1, 127, 128, 255, 256, 65535, 65536, 1 << 32, 1<<64 - 1, 0}
		f.Rnd = rounds[i%uint64(len(rounds))]
		f.Per = []uint64{0, 1, 200, 70000}[i%4]
		f.Step = []uint64{0, 1, 2, 255, 300}[i%5]
		if i%3 != 0 {
			expand(f.Dig[:], "dig", i)
			expand(f.EncDig[:], "encdig", i)
			expand(f.Oprop[:], "oprop", i)
			f.Oper = []uint64{0, 3, 1 << 40}[i%3]
		}
		if i%7 == 3 {
			f.EncDig = zero32 // partial proposal mask
		}
		mine := encodeVote(&f)
		m := mirrorOf(&f)
		ref := protocol.EncodeReflect(&m)
		if !bytes.Equal(mine, ref) {
			selfTested = fmt.Errorf("vote emitter differs from the reflection codec on case %d:\n mine %x\n ref  %x", i, mine, ref)
			return selfTested
		}
		var back mUVote
		if err := protocol.DecodeReflect(mine, &back); err != nil {
			selfTested = fmt.Errorf("emitted vote does not decode: %v", err)
			return selfTested
		}
	}
	return nil
}
