package netsim

// Simulated websocket connection (one end). The real wsPeer's readLoop blocks in NextReader until
// the scheduler hands it a message; the message's bytes are then served by a reader whose chunking
// (and optional mid-message error / park point) was fixed by the scheduler. The real writeLoop's
// WriteMessage appends to an outbox the scheduler drains. All channels are created inside the
// synctest bubble; goroutines park only on channels.

import (
	"errors"
	"io"
	"net"
	"sync"
	"time"

	"github.com/algorand/websocket"
)

// inMsg is one message handed to NextReader.
type inMsg struct {
	mtype   int
	data    []byte                  // tag + payload
	chunk   func(pos, want int) int // how many bytes (>=0) to return for a Read of want bytes at offset pos
	eofWith bool                    // return io.EOF together with the last data bytes
	errAt   int                     // >=0: return errVal once pos reaches errAt
	errVal  error
	parkAt  int   // >=0: block on resume once pos reaches parkAt (once)
	nextErr error // NextReader itself fails with this error
}

// readStats is what the reader observed of the consumer (the slurper) for one message.
type readStats struct {
	consumed  int   // bytes handed out
	calls     int   // Read calls
	allocated int64 // sum of the capacities of the distinct buffers offered by the consumer
	remaining int   // free room left in the buffer currently being filled (consumer side)
	maxOffer  int
	sawEOF    bool
	parked    bool
}

type outFrame struct {
	mtype int
	data  []byte
	enc   []byte // sender's encoder state right after producing this frame (nil if not captured)
}

type simConn struct {
	name string
	in   chan *inMsg   // scheduler -> NextReader (buffered 1)
	res  chan struct{} // scheduler -> parked reader (buffered 1)

	mu       sync.Mutex
	waiting  bool // readLoop is blocked in NextReader
	closed   bool
	closeMsg int
	out      []*outFrame
	cur      *simReader
	last     *readStats
	onWrite  func(data []byte) []byte // called in the writer's goroutine right after a frame is queued
	readLim  int64
	inClosed bool
}

func newSimConn(name string) *simConn {
	return &simConn{name: name, in: make(chan *inMsg, 1), res: make(chan struct{}, 1)}
}

type simAddr string

func (a simAddr) Network() string { return "sim" }
func (a simAddr) String() string  { return string(a) }

func (c *simConn) RemoteAddr() net.Addr     { return simAddr(c.name) }
func (c *simConn) RemoteAddrString() string { return c.name }
func (c *simConn) UnderlyingConn() net.Conn { return nil }
func (c *simConn) SetReadLimit(n int64)     { c.readLim = n }
func (c *simConn) isWaiting() bool          { c.mu.Lock(); defer c.mu.Unlock(); return c.waiting && !c.closed }
func (c *simConn) isClosed() bool           { c.mu.Lock(); defer c.mu.Unlock(); return c.closed }
func (c *simConn) lastStats() *readStats    { c.mu.Lock(); defer c.mu.Unlock(); return c.last }
func (c *simConn) isParked() bool {
	c.mu.Lock()
	defer c.mu.Unlock()
	return c.cur != nil && c.cur.st.parked
}

var errConnClosed = errors.New("sim: connection closed")

func (c *simConn) NextReader() (int, io.Reader, error) {
	c.mu.Lock()
	if c.closed {
		c.mu.Unlock()
		return 0, nil, errConnClosed
	}
	c.waiting = true
	c.cur = nil
	c.mu.Unlock()
	m, ok := <-c.in
	c.mu.Lock()
	c.waiting = false
	if !ok || c.closed {
		c.mu.Unlock()
		return 0, nil, &websocket.CloseError{Code: websocket.CloseAbnormalClosure, Text: "sim close"}
	}
	if m.nextErr != nil {
		c.mu.Unlock()
		return 0, nil, m.nextErr
	}
	r := &simReader{c: c, m: m, st: &readStats{}}
	c.cur = r
	c.last = r.st
	c.mu.Unlock()
	return m.mtype, r, nil
}

func (c *simConn) WriteMessage(mtype int, data []byte) error {
	c.mu.Lock()
	if c.closed {
		c.mu.Unlock()
		return errConnClosed
	}
	f := &outFrame{mtype: mtype, data: append([]byte(nil), data...)}
	c.out = append(c.out, f)
	cb := c.onWrite
	c.mu.Unlock()
	if cb != nil {
		f.enc = cb(f.data)
	}
	return nil
}

func (c *simConn) CloseWithMessage(msg []byte, deadline time.Time) error {
	c.mu.Lock()
	c.closeMsg++
	c.mu.Unlock()
	return nil
}

func (c *simConn) CloseWithoutFlush() error {
	c.mu.Lock()
	defer c.mu.Unlock()
	c.closed = true
	if !c.inClosed {
		c.inClosed = true
		close(c.in)
		close(c.res)
	}
	return nil
}

// takeOut removes and returns everything the write loop queued so far.
func (c *simConn) takeOut() []*outFrame {
	c.mu.Lock()
	defer c.mu.Unlock()
	o := c.out
	c.out = nil
	return o
}

// deliver hands a message to the blocked readLoop; the caller has checked isWaiting().
func (c *simConn) deliver(m *inMsg) { c.in <- m }

// resume releases a reader parked mid-message.
func (c *simConn) resume() {
	select {
	case c.res <- struct{}{}:
	default:
	}
}

type simReader struct {
	c   *simConn
	m   *inMsg
	pos int
	st  *readStats
	did bool
}

func (r *simReader) Read(p []byte) (int, error) {
	st := r.st
	st.calls++
	// reconstruct the consumer's allocation from the room it offers: a Read that offers more room
	// than was left in the buffer being filled can only come from a new buffer.
	// The first two bytes (the tag) are read with io.ReadFull into a 2-byte array, not buffered.
	body := r.pos >= 2
	if body {
		if len(p) > st.remaining {
			st.allocated += int64(len(p))
			st.remaining = len(p)
		}
		if len(p) > st.maxOffer {
			st.maxOffer = len(p)
		}
	}
	m := r.m
	if m.parkAt >= 0 && !r.did && r.pos >= m.parkAt {
		r.did = true
		r.c.mu.Lock()
		st.parked = true
		r.c.mu.Unlock()
		_, ok := <-r.c.res
		r.c.mu.Lock()
		st.parked = false
		r.c.mu.Unlock()
		if !ok {
			return 0, errConnClosed
		}
	}
	if m.errAt >= 0 && r.pos >= m.errAt {
		return 0, m.errVal
	}
	left := len(m.data) - r.pos
	if left == 0 {
		st.sawEOF = true
		return 0, io.EOF
	}
	if len(p) == 0 {
		return 0, nil
	}
	n := len(p)
	if m.chunk != nil {
		n = m.chunk(r.pos, len(p))
	}
	if n > len(p) {
		n = len(p)
	}
	if n > left {
		n = left
	}
	if m.errAt >= 0 && r.pos+n > m.errAt {
		n = m.errAt - r.pos
	}
	if m.parkAt >= 0 && !r.did && r.pos+n > m.parkAt {
		n = m.parkAt - r.pos
	}
	if n < 0 {
		n = 0
	}
	copy(p, m.data[r.pos:r.pos+n])
	r.pos += n
	st.consumed += n
	if body {
		st.remaining -= n
	}
	if r.pos == len(m.data) && m.eofWith && n > 0 && m.errAt < 0 {
		st.sawEOF = true
		return n, io.EOF
	}
	return n, nil
}
