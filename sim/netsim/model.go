package netsim

// Reference model of the vote compression wire format, written from the format description in the
// comments of network/vpack (header bit layout, 2-way set-associative LRU tables with one MRU bit per
// bucket, 7-entry proposal window with HPACK-style indices, round delta codes). It shares no code
// with package vpack. It is used (a) to decide whether a frame the simulator corrupted is malformed
// and, if not, which vote it denotes in the receiver's current state, and (b) as a cross-check on
// honest frames. The model is validated continuously against the unchanged tree: on honest,
// untainted streams its output must equal the vote that was sent.

import (
	"encoding/binary"
	"errors"
	"fmt"
)

const (
	mBitPer    = 1 << 0
	mBitDig    = 1 << 1
	mBitEncDig = 1 << 2
	mBitOper   = 1 << 3
	mBitOprop  = 1 << 4
	mBitStep   = 1 << 5
	mPropMask  = mBitDig | mBitEncDig | mBitOper | mBitOprop
)

type cursor struct {
	b   []byte
	pos int
}

var errShort = errors.New("model: truncated")

func (c *cursor) fixed(n int) ([]byte, error) {
	if c.pos+n > len(c.b) {
		return nil, errShort
	}
	v := c.b[c.pos : c.pos+n]
	c.pos += n
	return v, nil
}

// varuint returns the raw encoding and the value of a msgpack unsigned integer.
func (c *cursor) varuint() ([]byte, uint64, error) {
	if c.pos >= len(c.b) {
		return nil, 0, errShort
	}
	m := c.b[c.pos]
	extra := 0
	switch {
	case m < 0x80:
	case m == 0xcc:
		extra = 1
	case m == 0xcd:
		extra = 2
	case m == 0xce:
		extra = 4
	case m == 0xcf:
		extra = 8
	default:
		return nil, 0, fmt.Errorf("model: bad integer marker %#x", m)
	}
	raw, err := c.fixed(1 + extra)
	if err != nil {
		return nil, 0, err
	}
	var v uint64
	if extra == 0 {
		v = uint64(m)
	} else {
		for _, x := range raw[1:] {
			v = v<<8 | uint64(x)
		}
	}
	return raw, v, nil
}

// mLRU models one dynamic table: nb buckets of two slots, mru[b] = index of the most recently
// used slot (initially 0, so the first insertion into a bucket lands in slot 1).
type mLRU struct {
	nb    int
	slots [][2]string
	mru   []uint8
	ksize int
}

func newMLRU(entries int, ksize int) *mLRU {
	t := &mLRU{nb: entries / 2, ksize: ksize}
	t.slots = make([][2]string, t.nb)
	z := string(make([]byte, ksize))
	for i := range t.slots {
		t.slots[i] = [2]string{z, z} // empty slots compare equal to the all-zero key
	}
	t.mru = make([]uint8, t.nb)
	return t
}

func (t *mLRU) insert(k []byte, h uint64) {
	b := int(h & uint64(t.nb-1))
	victim := 1 - t.mru[b]
	t.slots[b][victim] = string(k)
	t.mru[b] = victim
}

func (t *mLRU) fetch(id uint16) ([]byte, bool) {
	b, s := int(id>>1), uint8(id&1)
	if b >= t.nb {
		return nil, false
	}
	t.mru[b] = s
	return []byte(t.slots[b][s]), true
}

func hashAddr(a []byte) uint64 {
	return binary.LittleEndian.Uint64(a[0:8]) ^ binary.LittleEndian.Uint64(a[8:16]) ^ binary.LittleEndian.Uint64(a[16:24]) ^ binary.LittleEndian.Uint64(a[24:32])
}

// hashPair hashes a 96-byte (key, signature) pair: first 8 bytes of the key xor first 8 of the signature.
func hashPair(p []byte) uint64 {
	return binary.LittleEndian.Uint64(p[0:8]) ^ binary.LittleEndian.Uint64(p[32:40])
}

type mProp struct {
	mask                    byte
	dig, encdig, oper, opro string
}

// modelDecoder is the receiver-side reference state.
type modelDecoder struct {
	snd, pk, pk2 *mLRU
	window       []mProp // newest first, at most 7
	lastRnd      uint64
}

func newModelDecoder(tableSize uint) *modelDecoder {
	return &modelDecoder{snd: newMLRU(int(tableSize), 32), pk: newMLRU(int(tableSize), 96), pk2: newMLRU(int(tableSize), 96)}
}

// decodeStateful turns a stateful (VP) frame body into the stateless layout. It mutates the model
// state as it goes (like any streaming decoder); after an error the state is not used again.
func (d *modelDecoder) decodeStateful(frame []byte) ([]byte, error) {
	c := &cursor{b: frame}
	hdr, err := c.fixed(2)
	if err != nil {
		return nil, err
	}
	h0, h1 := hdr[0], hdr[1]
	out := make([]byte, 0, 512)
	out = append(out, h0, 0)
	pf, err := c.fixed(80)
	if err != nil {
		return nil, err
	}
	out = append(out, pf...)
	if h0&mBitPer != 0 {
		raw, _, err := c.varuint()
		if err != nil {
			return nil, err
		}
		out = append(out, raw...)
	}
	var pr mProp
	if ref := int(h1>>2) & 7; ref == 0 {
		pr.mask = h0 & mPropMask
		if h0&mBitDig != 0 {
			v, err := c.fixed(32)
			if err != nil {
				return nil, err
			}
			pr.dig = string(v)
		}
		if h0&mBitEncDig != 0 {
			v, err := c.fixed(32)
			if err != nil {
				return nil, err
			}
			pr.encdig = string(v)
		}
		if h0&mBitOper != 0 {
			raw, _, err := c.varuint()
			if err != nil {
				return nil, err
			}
			pr.oper = string(raw)
		}
		if h0&mBitOprop != 0 {
			v, err := c.fixed(32)
			if err != nil {
				return nil, err
			}
			pr.opro = string(v)
		}
		d.window = append([]mProp{pr}, d.window...)
		if len(d.window) > 7 {
			d.window = d.window[:7]
		}
	} else {
		if ref > len(d.window) {
			return nil, fmt.Errorf("model: proposal reference %d beyond window of %d", ref, len(d.window))
		}
		pr = d.window[ref-1]
	}
	if pr.mask&mBitDig != 0 {
		out = append(out, pr.dig...)
	}
	if pr.mask&mBitEncDig != 0 {
		out = append(out, pr.encdig...)
	}
	if pr.mask&mBitOper != 0 {
		out = append(out, pr.oper...)
	}
	if pr.mask&mBitOprop != 0 {
		out = append(out, pr.opro...)
	}
	var rnd uint64
	switch h1 & 3 {
	case 3:
		rnd = d.lastRnd
		out = appendUint(out, rnd)
	case 1:
		if d.lastRnd == ^uint64(0) {
			return nil, errors.New("model: round overflow")
		}
		rnd = d.lastRnd + 1
		out = appendUint(out, rnd)
	case 2:
		if d.lastRnd == 0 {
			return nil, errors.New("model: round underflow")
		}
		rnd = d.lastRnd - 1
		out = appendUint(out, rnd)
	default:
		raw, v, err := c.varuint()
		if err != nil {
			return nil, err
		}
		rnd = v
		out = append(out, raw...)
	}
	d.lastRnd = rnd
	tableField := func(t *mLRU, isRef bool, n int, hash func([]byte) uint64) error {
		if isRef {
			idb, err := c.fixed(2)
			if err != nil {
				return err
			}
			v, ok := t.fetch(binary.BigEndian.Uint16(idb))
			if !ok {
				return errors.New("model: table reference out of range")
			}
			out = append(out, v...)
			return nil
		}
		v, err := c.fixed(n)
		if err != nil {
			return err
		}
		out = append(out, v...)
		t.insert(v, hash(v))
		return nil
	}
	if err := tableField(d.snd, h1&(1<<5) != 0, 32, hashAddr); err != nil {
		return nil, err
	}
	if h0&mBitStep != 0 {
		raw, _, err := c.varuint()
		if err != nil {
			return nil, err
		}
		out = append(out, raw...)
	}
	if err := tableField(d.pk, h1&(1<<6) != 0, 96, hashPair); err != nil {
		return nil, err
	}
	if err := tableField(d.pk2, h1&(1<<7) != 0, 96, hashPair); err != nil {
		return nil, err
	}
	s, err := c.fixed(64)
	if err != nil {
		return nil, err
	}
	out = append(out, s...)
	if c.pos != len(frame) {
		return nil, errors.New("model: trailing bytes")
	}
	return out, nil
}

// decodeStateless turns the stateless layout (AV body of a vpack-capable peer, or the output of
// decodeStateful) into the msgpack vote.
func decodeStateless(src []byte) ([]byte, error) {
	c := &cursor{b: src}
	hdr, err := c.fixed(2)
	if err != nil {
		return nil, err
	}
	m := hdr[0]
	var p voteParts
	if p.pf, err = c.fixed(80); err != nil {
		return nil, err
	}
	if m&mBitPer != 0 {
		if p.per, _, err = c.varuint(); err != nil {
			return nil, err
		}
	}
	if m&mBitDig != 0 {
		if p.dig, err = c.fixed(32); err != nil {
			return nil, err
		}
	}
	if m&mBitEncDig != 0 {
		if p.encdig, err = c.fixed(32); err != nil {
			return nil, err
		}
	}
	if m&mBitOper != 0 {
		if p.oper, _, err = c.varuint(); err != nil {
			return nil, err
		}
	}
	if m&mBitOprop != 0 {
		if p.oprop, err = c.fixed(32); err != nil {
			return nil, err
		}
	}
	if p.rnd, _, err = c.varuint(); err != nil {
		return nil, err
	}
	if p.snd, err = c.fixed(32); err != nil {
		return nil, err
	}
	if m&mBitStep != 0 {
		if p.step, _, err = c.varuint(); err != nil {
			return nil, err
		}
	}
	if p.p, err = c.fixed(32); err != nil {
		return nil, err
	}
	if p.p1s, err = c.fixed(64); err != nil {
		return nil, err
	}
	if p.p2, err = c.fixed(32); err != nil {
		return nil, err
	}
	if p.p2s, err = c.fixed(64); err != nil {
		return nil, err
	}
	if p.sigS, err = c.fixed(64); err != nil {
		return nil, err
	}
	if c.pos != len(src) {
		return nil, errors.New("model: trailing bytes")
	}
	return emitVote(&p), nil
}

// decodeVP is the full receive path of a VP frame body.
func (d *modelDecoder) decodeVP(frame []byte) ([]byte, error) {
	sl, err := d.decodeStateful(frame)
	if err != nil {
		return nil, err
	}
	return decodeStateless(sl)
}
