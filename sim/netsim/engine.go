// Package netsim runs the real gossip peer code of go-algorand's network package — wsPeer read and
// write loops, wsPeerMsgCodec with the stateless and stateful vpack vote codecs, LimitedReaderSlurper
// and messageFilter — over simulated websocket connections inside a testing/synctest bubble. A seeded
// scheduler decides every message, chunking, interleaving and fault. Properties: C42 (vote compression
// lossless and in sync) and C43 (no oversized or duplicate gossip reaches the handlers).
package netsim

import (
	"fmt"
	"io"
	"strings"
	"testing"
	"testing/synctest"

	"github.com/algorand/go-deadlock"

	"github.com/algorand/go-algorand/logging"

	"verif/sim/kernel"
)

func init() {
	deadlock.Opts.Disable = true
}

// Engine implements kernel.Engine.
type Engine struct{}

func (Engine) Name() string { return "netsim" }

const drawN = 1 << 16

// base is shared by the two simulations.
type base struct {
	t       *testing.T
	tape    *kernel.Tape
	log     *kernel.Log
	prop    string
	tier    string
	step    int
	stats   map[string]int64
	viol    *kernel.Violation
	harness string
	lg      logging.Logger
}

func (s *base) stat(k string, d int64) { s.stats[k] += d }

func (s *base) violate(oracle, key, detail string) {
	if s.viol == nil {
		s.viol = &kernel.Violation{Property: s.prop, Oracle: oracle, Key: key, Detail: detail, Step: s.step}
		s.log.Add("VIOLATION %s %s %s", s.prop, oracle, detail)
	}
}

func (s *base) harnessErr(format string, args ...any) {
	if s.harness == "" {
		s.harness = fmt.Sprintf(format, args...)
		s.log.Add("HARNESS %s", s.harness)
	}
}

func newLogger() logging.Logger {
	l := logging.NewLogger()
	l.SetOutput(io.Discard)
	l.SetLevel(logging.Panic)
	return l
}

// stepDraw draws the fixed block of decisions of one step (rectangular tape): slot 0 has kind
// "step.fault", the others "step.p<i>"; every draw has arity 1<<16. Slots the step did not use, and
// slots whose effective value is smaller than the raw draw, are rewritten (Canon) at the end.
type stepDraw struct {
	tape *kernel.Tape
	base int
	raw  []int
	eff  []int
}

func drawStep(tp *kernel.Tape, k int) *stepDraw {
	d := &stepDraw{tape: tp, base: len(tp.Rec), raw: make([]int, k), eff: make([]int, k)}
	d.raw[0] = tp.Choose("step.fault", drawN)
	for i := 1; i < k; i++ {
		d.raw[i] = tp.Choose(fmt.Sprintf("step.p%d", i), drawN)
	}
	return d
}

// mod uses slot i as a choice among n options; the canonical recorded value is the reduced one.
func (d *stepDraw) mod(i, n int) int {
	if n <= 1 {
		return 0
	}
	v := d.raw[i] % n
	d.eff[i] = v
	return v
}

// rawv uses the full 16-bit value of slot i (recorded unchanged).
func (d *stepDraw) rawv(i int) int {
	d.eff[i] = d.raw[i]
	return d.raw[i]
}

func (d *stepDraw) finish() {
	for i := range d.raw {
		d.tape.Canon(d.base+i, d.eff[i])
	}
}

// pickW: index 0 is the benign option and is what raw value 0 selects.
func pickW(r int, w []int) int {
	tot := 0
	for _, x := range w {
		if x > 0 {
			tot += x
		}
	}
	if tot == 0 {
		return 0
	}
	v := r % tot
	for i, x := range w {
		if x <= 0 {
			continue
		}
		if v < x {
			return i
		}
		v -= x
	}
	return 0
}

// splitmix is a local deterministic stream derived from a tape draw (used for chunk sizes and
// payload bytes, which would otherwise need thousands of tape decisions per step).
type splitmix struct{ x uint64 }

func (s *splitmix) next() uint64 {
	s.x += 0x9e3779b97f4a7c15
	z := s.x
	z = (z ^ (z >> 30)) * 0xbf58476d1ce4e5b9
	z = (z ^ (z >> 27)) * 0x94d049bb133111eb
	return z ^ (z >> 31)
}

func (s *splitmix) intn(n int) int {
	if n <= 1 {
		return 0
	}
	return int(s.next() % uint64(n))
}

func fillBytes(b []byte, seed uint64) {
	sm := splitmix{x: seed}
	i := 0
	for ; i+8 <= len(b); i += 8 {
		v := sm.next()
		b[i], b[i+1], b[i+2], b[i+3], b[i+4], b[i+5], b[i+6], b[i+7] = byte(v), byte(v>>8), byte(v>>16), byte(v>>24), byte(v>>32), byte(v>>40), byte(v>>48), byte(v>>56)
	}
	if i < len(b) {
		v := sm.next()
		for ; i < len(b); i++ {
			b[i] = byte(v)
			v >>= 8
		}
	}
}

type runner interface {
	run()
	finish(res *kernel.RunResult)
}

func (Engine) Run(t *testing.T, prop, tier string, tape *kernel.Tape, keepLog bool) *kernel.RunResult {
	res := &kernel.RunResult{}
	if err := selfTest(); err != nil {
		res.HarnessErr = "self-test: " + err.Error()
		return res
	}
	b := &base{t: t, tape: tape, log: kernel.NewLog(keepLog), prop: prop, tier: tier, stats: map[string]int64{}, lg: newLogger()}
	var r runner
	func() {
		defer func() {
			if p := recover(); p != nil {
				msg := fmt.Sprint(p)
				if strings.Contains(msg, "blocked goroutines remain") || strings.Contains(msg, "main bubble goroutine has exited") {
					b.stat("bubble_leak", 1)
				} else {
					res.HarnessErr = "panic: " + msg
				}
			}
		}()
		synctest.Test(t, func(t *testing.T) {
			b.t = t
			switch prop {
			case "C42":
				r = newCodecSim(b)
			case "C43":
				r = newReadSim(b)
			default:
				b.harnessErr("netsim does not decide %s", prop)
				return
			}
			r.run()
		})
	}()
	res.Steps = b.step
	res.Digest = b.log.Digest()
	res.Stats = b.stats
	res.Violation = b.viol
	res.Tape = tape.Rec
	res.LogLines = b.log.Lines
	if b.harness != "" && res.HarnessErr == "" {
		res.HarnessErr = b.harness
	}
	if r != nil {
		r.finish(res)
	}
	return res
}
